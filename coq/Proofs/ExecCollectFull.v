(* collect_fields (Exec/Collect.v, with the [_seen_fragments or set()] quirk)
   against the specification's CollectFields (Spec/ExecSpec.v, one visited
   set shared by the whole traversal) for arbitrary nesting of fragment
   spreads, under acyclic fragments: the code's flattened field sequence is the
   specification's with extra occurrences of nodes that were emitted before. *)
From PyGql Require Import Spec.ExecSpec Proofs.ExecProofs Proofs.ExecCollectProofs.
From PyGql Require Import Proofs.DepthTermination Proofs.ExecTermination.

Ltac incl_solve_goal :=
  repeat (rewrite in_app_iff in * || simpl in * ); tauto.

Ltac incl_solve :=
  let y := fresh "y" in let Hy := fresh "Hy" in
  intros y Hy; repeat (rewrite in_app_iff in * || simpl in * ); tauto.

(* [Ext E fs ms]: ms is fs with additional occurrences of nodes that are in E
   or occur earlier *)
Inductive Ext : list selection -> list selection -> list selection -> Prop :=
| Ext_nil E : Ext E [] []
| Ext_both E x fs ms : Ext (x :: E) fs ms -> Ext E (x :: fs) (x :: ms)
| Ext_dup E x fs ms : In x E -> Ext E fs ms -> Ext E fs (x :: ms).

Lemma Ext_weaken E E' fs ms : incl E E' -> Ext E fs ms -> Ext E' fs ms.
Proof.
  intros Hi H. revert E' Hi. induction H as [E|E x fs ms H IH|E x fs ms Hx H IH]; intros E' Hi.
  - constructor.
  - constructor. apply IH. intros y [<-|Hy]; [left; reflexivity|right; apply Hi; exact Hy].
  - apply Ext_dup; [apply Hi; exact Hx|apply IH; exact Hi].
Qed.

Lemma Ext_app E E2 fs1 ms1 fs2 ms2 :
  Ext E fs1 ms1 -> Ext E2 fs2 ms2 -> (forall x, In x E2 -> In x fs1 \/ In x E) ->
  Ext E (fs1 ++ fs2) (ms1 ++ ms2).
Proof.
  intros H1. revert E2 fs2 ms2. induction H1 as [E|E x fs ms H IH|E x fs ms Hx H IH]; intros E2 fs2 ms2 H2 Hi; simpl.
  - eapply Ext_weaken; [|exact H2]. intros y Hy. destruct (Hi y Hy) as [[]|Hy']; exact Hy'.
  - constructor. eapply IH; [exact H2|]. intros y Hy. destruct (Hi y Hy) as [[<-|Hy']|Hy']; simpl; auto.
  - apply Ext_dup; [exact Hx|]. eapply IH; [exact H2|exact Hi].
Qed.

Lemma Ext_dups E fs ms ds : Forall (fun x => In x E) ds -> Ext E fs ms -> Ext E fs (ds ++ ms).
Proof. induction 1 as [|d ds Hd _ IH]; intros H; simpl; [exact H|]. apply Ext_dup; auto. Qed.

Lemma Ext_nodes E fs ms : Ext E fs ms ->
  (forall x, In x fs -> In x ms) /\ (forall x, In x ms -> In x fs \/ In x E).
Proof.
  induction 1 as [E|E x fs ms H [IH1 IH2]|E x fs ms Hx H [IH1 IH2]]; split; simpl.
  - tauto.
  - tauto.
  - intros y [<-|Hy]; auto.
  - intros y [<-|Hy]; [left; left; reflexivity|]. destruct (IH2 y Hy) as [?|[<-|?]]; auto.
  - auto.
  - intros y [<-|Hy]; auto.
Qed.

(* first-occurrence order of the keys is the same *)
Definition fresh_key (E : list selection) (k : str) : bool := negb (mem_str k (map field_key E)).

Lemma filter_filter {A} (p q : A -> bool) l : filter p (filter q l) = filter (fun x => q x && p x) l.
Proof. induction l as [|x l IH]; simpl; [reflexivity|]. destruct (q x); simpl; [destruct (p x); rewrite IH; reflexivity|exact IH]. Qed.

Lemma fresh_step E x k : negb (str_eqb k (field_key x)) && fresh_key E k = fresh_key (x :: E) k.
Proof. unfold fresh_key. simpl. unfold mem_str. simpl. rewrite negb_orb. reflexivity. Qed.

Lemma Ext_first_occ E fs ms : Ext E fs ms ->
  filter (fresh_key E) (first_occ (map field_key fs)) = filter (fresh_key E) (first_occ (map field_key ms)).
Proof.
  induction 1 as [E|E x fs ms H IH|E x fs ms Hx H IH]; simpl.
  - reflexivity.
  - assert (Hf : forall l, filter (fun k => negb (str_eqb k (field_key x)) && fresh_key E k) l =
                           filter (fresh_key (x :: E)) l)
      by (intros l; apply filter_ext; intros k; apply fresh_step).
    rewrite !filter_filter, !Hf, IH. reflexivity.
  - assert (Hk : fresh_key E (field_key x) = false).
    { unfold fresh_key. apply negb_false_iff. apply mem_str_In. apply in_map. exact Hx. }
    rewrite Hk, filter_filter, IH. apply filter_ext_in. intros k Hk'.
    destruct (str_eqb_spec k (field_key x)) as [->|_]; simpl; [exact Hk|reflexivity].
Qed.

Lemma filter_all {A} (l : list A) : filter (fun _ => true) l = l.
Proof. induction l; simpl; congruence. Qed.

(* groups of the two sequences: same keys in the same order, same node sets *)
Lemma Ext_groups fs ms : Ext [] fs ms ->
  keys (spec_groups ms) = keys (spec_groups fs) /\
  Forall2 (fun a b => incl (snd a) (snd b) /\ incl (snd b) (snd a)) (spec_groups ms) (spec_groups fs).
Proof.
  intros H. pose proof (Ext_first_occ _ _ _ H) as Hk. unfold fresh_key in Hk. simpl in Hk.
  rewrite !filter_all in Hk. destruct (Ext_nodes _ _ _ H) as [N1 N2].
  split; [rewrite !spec_groups_keys; symmetry; exact Hk|].
  rewrite !spec_groups_unfold, <- Hk. clear Hk. generalize (first_occ (map field_key fs)) as ks.
  induction ks as [|k ks IH]; simpl; constructor; [|exact IH].
  simpl. split; intros y Hy; apply filter_In in Hy as [Hy Hp]; apply filter_In; split; try exact Hp.
  - destruct (N2 y Hy) as [?|[]]; assumption.
  - apply N1; exact Hy.
Qed.

Section Full.
  Variable applies : option ty -> bool.
  Variable frags : frag_table.
  Variable vs : vars.
  Variable rank : str -> nat.
  Hypothesis Hacyc : acyclic frags rank.

  Notation passes := (passes vs).
  Notation SFlat := (SFlat applies frags vs).
  Notation bounded := (bounded frags rank).

  (* the code's traversal as a relation: MFlat ss local ms local' *)
  Inductive MFlat : list selection -> list str -> list selection -> list str -> Prop :=
  | MF_nil local : MFlat [] local [] local
  | MF_field_skip a n args ds sl sub l ss local ms l' :
      passes ds = false -> MFlat ss local ms l' ->
      MFlat (SField a n args ds sl sub l :: ss) local ms l'
  | MF_field a n args ds sl sub l ss local ms l' :
      passes ds = true -> MFlat ss local ms l' ->
      MFlat (SField a n args ds sl sub l :: ss) local (SField a n args ds sl sub l :: ms) l'
  | MF_inline_skip tc ds ssl sub l ss local ms l' :
      passes ds = false \/ applies tc = false -> MFlat ss local ms l' ->
      MFlat (SInline tc ds ssl sub l :: ss) local ms l'
  | MF_inline tc ds ssl sub l ss local ms1 l1 ms2 l2 :
      passes ds = true -> applies tc = true ->
      MFlat sub local ms1 l1 -> MFlat ss (caller_view local l1) ms2 l2 ->
      MFlat (SInline tc ds ssl sub l :: ss) local (ms1 ++ ms2) l2
  | MF_spread_skip n ds l ss local tc fsels ms l' :
      alookup (n_val n) frags = Some (tc, fsels) ->
      passes ds = false \/ In (n_val n) local \/ applies (Some tc) = false ->
      MFlat ss local ms l' ->
      MFlat (SSpread n ds l :: ss) local ms l'
  | MF_spread_missing n ds l ss local ms l' :
      alookup (n_val n) frags = None -> MFlat ss local ms l' ->
      MFlat (SSpread n ds l :: ss) local ms l'
  | MF_spread n ds l ss local tc fsels ms1 l1 ms2 l2 :
      alookup (n_val n) frags = Some (tc, fsels) ->
      passes ds = true -> ~ In (n_val n) local -> applies (Some tc) = true ->
      MFlat fsels local ms1 l1 -> MFlat ss (n_val n :: caller_view local l1) ms2 l2 ->
      MFlat (SSpread n ds l :: ss) local (ms1 ++ ms2) l2.

  Lemma collect_into_mflat mc : forall fuel ss g local r,
    collect_into applies frags vs mc fuel ss g local = Ok r ->
    exists ms, MFlat ss local ms (snd r) /\ fst r = group_into g ms.
  Proof.
    induction fuel as [|fuel IH]; intros ss g local r H; simpl in H; [discriminate|].
    destruct ss as [|x ss]; [inversion H; subst; exists []; split; [constructor|reflexivity]|].
    destruct x as [alias n args dirs sl sub l|n dirs l|tc dirs ssl sub l].
    - apply obind_ok in H as [sk [Hsk H]]. pose proof (passes_of_skip _ _ _ Hsk) as Hp.
      destruct sk; simpl in Hp; destruct (IH _ _ _ _ H) as [ms [Hm Hg]].
      + exists ms. split; [apply MF_field_skip; assumption|exact Hg].
      + exists (SField alias n args dirs sl sub l :: ms). split; [apply MF_field; assumption|exact Hg].
    - destruct (alookup (n_val n) frags) as [[tc fsels]|] eqn:Ef.
      + apply obind_ok in H as [sk [Hsk H]]. pose proof (passes_of_skip _ _ _ Hsk) as Hp.
        destruct (sk || mem_str (n_val n) local || negb (applies (Some tc))) eqn:Ecase.
        * destruct (IH _ _ _ _ H) as [ms [Hm Hg]]. exists ms. split; [|exact Hg].
          eapply MF_spread_skip; [exact Ef| |exact Hm].
          apply orb_true_iff in Ecase as [Ecase|Ea].
          -- apply orb_true_iff in Ecase as [->|Em]; [left; exact Hp|right; left; apply mem_str_In; exact Em].
          -- right; right. apply negb_true_iff; exact Ea.
        * apply orb_false_iff in Ecase as [Ecase Ea]. apply orb_false_iff in Ecase as [-> Em].
          apply negb_false_iff in Ea. simpl in Hp.
          apply obind_ok in H as [r1 [H1 H]].
          destruct (IH _ _ _ _ H1) as [ms1 [Hm1 Hg1]]. rewrite Hg1, merge_group_into in H.
          destruct (IH _ _ _ _ H) as [ms2 [Hm2 Hg2]].
          exists (ms1 ++ ms2). split; [|rewrite Hg2, group_into_app; reflexivity].
          eapply MF_spread; try eassumption. intros Hi. apply mem_str_In in Hi. congruence.
      + destruct mc; [discriminate|]. apply obind_ok in H as [sk [_ H]].
        destruct (IH _ _ _ _ H) as [ms [Hm Hg]]. exists ms. split; [apply MF_spread_missing; assumption|exact Hg].
    - apply obind_ok in H as [sk [Hsk H]]. pose proof (passes_of_skip _ _ _ Hsk) as Hp.
      destruct (sk || negb (applies tc)) eqn:Ecase.
      + destruct (IH _ _ _ _ H) as [ms [Hm Hg]]. exists ms. split; [|exact Hg].
        apply MF_inline_skip; [|exact Hm].
        destruct sk; simpl in *; [left; exact Hp|right]. destruct (applies tc); [discriminate|reflexivity].
      + apply orb_false_iff in Ecase as [-> Eap]. apply negb_false_iff in Eap. simpl in Hp.
        apply obind_ok in H as [r1 [H1 H]].
        destruct (IH _ _ _ _ H1) as [ms1 [Hm1 Hg1]]. rewrite Hg1, merge_group_into in H.
        destruct (IH _ _ _ _ H) as [ms2 [Hm2 Hg2]].
        exists (ms1 ++ ms2). split; [|rewrite Hg2, group_into_app; reflexivity].
        eapply MF_inline; eassumption.
  Qed.

  (* field nodes / fragment names the traversal can reach, ignoring visited sets *)
  Inductive areach : list selection -> selection -> Prop :=
  | AR_tail x ss f : areach ss f -> areach (x :: ss) f
  | AR_field a n args ds sl sub l ss :
      passes ds = true -> areach (SField a n args ds sl sub l :: ss) (SField a n args ds sl sub l)
  | AR_inline tc ds ssl sub l ss f :
      passes ds = true -> applies tc = true -> areach sub f -> areach (SInline tc ds ssl sub l :: ss) f
  | AR_spread n ds l ss tc fsels f :
      passes ds = true -> alookup (n_val n) frags = Some (tc, fsels) -> applies (Some tc) = true ->
      areach fsels f -> areach (SSpread n ds l :: ss) f.

  Inductive anames : list selection -> str -> Prop :=
  | AN_tail x ss m : anames ss m -> anames (x :: ss) m
  | AN_here n ds l ss : passes ds = true -> anames (SSpread n ds l :: ss) (n_val n)
  | AN_inline tc ds ssl sub l ss m :
      passes ds = true -> applies tc = true -> anames sub m -> anames (SInline tc ds ssl sub l :: ss) m
  | AN_spread n ds l ss tc fsels m :
      passes ds = true -> alookup (n_val n) frags = Some (tc, fsels) -> applies (Some tc) = true ->
      anames fsels m -> anames (SSpread n ds l :: ss) m.

  (* a visited fragment whose expansion is complete: everything it reaches
     has been emitted / marked *)
  Definition closed (E : list selection) (V : list str) (n : str) : Prop :=
    forall tc fsels, alookup n frags = Some (tc, fsels) -> applies (Some tc) = true ->
      (forall f, areach fsels f -> In f E) /\ (forall m, anames fsels m -> In m V).

  (* every visited fragment is closed or still open (an ancestor of the
     current position) *)
  Definition inv (O : list str) (E : list selection) (V : list str) : Prop :=
    forall n, In n V -> In n O \/ closed E V n.

  Lemma closed_mono E V E' V' n : incl E E' -> incl V V' -> closed E V n -> closed E' V' n.
  Proof.
    intros HE HV Hc tc fsels Ef Ha. destruct (Hc tc fsels Ef Ha) as [C1 C2].
    split; [intros f Hf; apply HE, C1, Hf|intros m Hm; apply HV, C2, Hm].
  Qed.

  Lemma inv_mono O O' E E' V : incl O O' -> incl E E' -> inv O E V -> inv O' E' V.
  Proof.
    intros HO HE H n Hn. destruct (H n Hn) as [Ho|Hc]; [left; apply HO, Ho|right].
    eapply closed_mono; [exact HE|apply incl_refl|exact Hc].
  Qed.

  Lemma caller_view_incl local l1 (V : list str) : incl l1 V -> incl (caller_view local l1) V.
  Proof. destruct local; simpl; [intros _ x []|auto]. Qed.

  Lemma bounded_tail r x ss : bounded r (x :: ss) -> bounded r ss.
  Proof. intros H. apply (bounded_cons frags rank) in H. tauto. Qed.

  Lemma bounded_inline r tc ds ssl sub l ss : bounded r (SInline tc ds ssl sub l :: ss) -> bounded r sub.
  Proof.
    intros H m Hm Hd. apply H; [|exact Hd]. unfold spreads_list in *. simpl. apply in_app_iff. left. exact Hm.
  Qed.

  Lemma bounded_spread r n ds l ss x :
    bounded r (SSpread n ds l :: ss) -> alookup (n_val n) frags = Some x -> rank (n_val n) < r.
  Proof. intros H Ef. apply H; [left; reflexivity|congruence]. Qed.

  (* the code re-expanding a fragment the specification has finished with *)
  Lemma code_alone E V : forall ss local ms l', MFlat ss local ms l' ->
    incl local V -> (forall f, areach ss f -> In f E) -> (forall m, anames ss m -> In m V) ->
    Forall (fun x => In x E) ms /\ incl l' V.
  Proof.
    intros ss local ms l' H.
    induction H as [local
                   |a n args ds sl sub l ss local ms l' Hp H IH
                   |a n args ds sl sub l ss local ms l' Hp H IH
                   |tc ds ssl sub l ss local ms l' Hc H IH
                   |tc ds ssl sub l ss local ms1 l1 ms2 l2 Hp Ha H1 IH1 H2 IH2
                   |n ds l ss local tc fsels ms l' Ef Hc H IH
                   |n ds l ss local ms l' Ef H IH
                   |n ds l ss local tc fsels ms1 l1 ms2 l2 Ef Hp Hnl Ha H1 IH1 H2 IH2]; intros Hl Hr Hn.
    - split; [constructor|exact Hl].
    - apply IH; [exact Hl|intros f Hf; apply Hr, AR_tail, Hf|intros m Hm; apply Hn, AN_tail, Hm].
    - destruct IH as [F L]; [exact Hl|intros f Hf; apply Hr, AR_tail, Hf|intros m Hm; apply Hn, AN_tail, Hm|].
      split; [constructor; [apply Hr, AR_field, Hp|exact F]|exact L].
    - apply IH; [exact Hl|intros f Hf; apply Hr, AR_tail, Hf|intros m Hm; apply Hn, AN_tail, Hm].
    - destruct IH1 as [F1 L1]; [exact Hl|intros f Hf; apply Hr; apply AR_inline; assumption
                               |intros m Hm; apply Hn; apply AN_inline; assumption|].
      destruct IH2 as [F2 L2]; [apply caller_view_incl, L1|intros f Hf; apply Hr, AR_tail, Hf
                               |intros m Hm; apply Hn, AN_tail, Hm|].
      split; [apply Forall_app; split; assumption|exact L2].
    - apply IH; [exact Hl|intros f Hf; apply Hr, AR_tail, Hf|intros m Hm; apply Hn, AN_tail, Hm].
    - apply IH; [exact Hl|intros f Hf; apply Hr, AR_tail, Hf|intros m Hm; apply Hn, AN_tail, Hm].
    - destruct IH1 as [F1 L1]; [exact Hl|intros f Hf; apply Hr; eapply AR_spread; eassumption
                               |intros m Hm; apply Hn; eapply AN_spread; eassumption|].
      destruct IH2 as [F2 L2].
      + intros y [<-|Hy]; [apply Hn, AN_here, Hp|apply (caller_view_incl local l1 V L1), Hy].
      + intros f Hf; apply Hr, AR_tail, Hf.
      + intros m Hm; apply Hn, AN_tail, Hm.
      + split; [apply Forall_app; split; assumption|exact L2].
  Qed.

  Definition outcome_ok (ss : list selection) (V : list str) (E : list selection) (O : list str)
             (ms : list selection) (l' : list str) : Prop :=
    exists fs V', SFlat ss V fs V' /\ Ext E fs ms /\ incl V V' /\ incl l' V' /\
                  inv O (fs ++ E) V' /\
                  (forall f, areach ss f -> In f (fs ++ E)) /\
                  (forall m, anames ss m -> In m V').

  Lemma core : forall ss local ms l', MFlat ss local ms l' ->
    forall O r E V,
      bounded r ss -> (forall o, In o O -> r <= rank o) ->
      incl local V -> inv O E V -> outcome_ok ss V E O ms l'.
  Proof.
    intros ss local ms l' H.
    induction H as [local
                   |a n args ds sl sub l ss local ms l' Hp H IH
                   |a n args ds sl sub l ss local ms l' Hp H IH
                   |tc ds ssl sub l ss local ms l' Hc H IH
                   |tc ds ssl sub l ss local ms1 l1 ms2 l2 Hp Ha H1 IH1 H2 IH2
                   |n ds l ss local tc fsels ms l' Ef Hc H IH
                   |n ds l ss local ms l' Ef H IH
                   |n ds l ss local tc fsels ms1 l1 ms2 l2 Ef Hp Hnl Ha H1 IH1 H2 IH2];
      intros O r E V Hb HO Hl Hinv; unfold outcome_ok in *.
    - exists [], V. split; [apply SF_nil|]. split; [apply Ext_nil|]. split; [apply incl_refl|].
      split; [exact Hl|]. split; [exact Hinv|]. split; intros x Hx; inversion Hx.
    - destruct (IH O r E V (bounded_tail _ _ _ Hb) HO Hl Hinv) as (fs & V' & S & X & I1 & I2 & I3 & R & N).
      exists fs, V'. repeat split; try assumption.
      + apply SF_field_skip; assumption.
      + intros f Hf. inversion Hf; subst; [apply R; assumption|congruence].
      + intros m Hm. inversion Hm; subst. apply N; assumption.
    - set (fld := SField a n args ds sl sub l) in *.
      destruct (IH O r (fld :: E) V (bounded_tail _ _ _ Hb) HO Hl) as (fs & V' & S & X & I1 & I2 & I3 & R & N).
      { eapply inv_mono; [apply incl_refl| |exact Hinv]. incl_solve. }
      exists (fld :: fs), V'. repeat split; try assumption.
      + apply SF_field; assumption.
      + apply Ext_both; exact X.
      + eapply inv_mono; [apply incl_refl| |exact I3]. incl_solve.
      + intros f Hf. inversion Hf; subst.
        * match goal with Ht : areach ss f |- _ => specialize (R f Ht) end. revert R. clear. incl_solve_goal.
        * left; reflexivity.
      + intros m Hm. inversion Hm; subst. apply N; assumption.
    - destruct (IH O r E V (bounded_tail _ _ _ Hb) HO Hl Hinv) as (fs & V' & S & X & I1 & I2 & I3 & R & N).
      exists fs, V'. repeat split; try assumption.
      + apply SF_inline_skip; assumption.
      + intros f Hf. inversion Hf; subst; [apply R; assumption|destruct Hc; congruence].
      + intros m Hm. inversion Hm; subst; [apply N; assumption|destruct Hc; congruence].
    - destruct (IH1 O r E V (bounded_inline _ _ _ _ _ _ _ Hb) HO Hl Hinv)
        as (fs1 & V1 & S1 & X1 & I1 & L1 & Inv1 & R1 & N1).
      destruct (IH2 O r (fs1 ++ E) V1 (bounded_tail _ _ _ Hb) HO (caller_view_incl _ _ _ L1) Inv1)
        as (fs2 & V2 & S2 & X2 & I2 & L2 & Inv2 & R2 & N2).
      exists (fs1 ++ fs2), V2. repeat split; try assumption.
      + eapply SF_inline; eassumption.
      + eapply Ext_app; [exact X1|exact X2|intros x Hx; apply in_app_or; exact Hx].
      + eapply incl_tran; eassumption.
      + eapply inv_mono; [apply incl_refl| |exact Inv2]. incl_solve.
      + intros f Hf. inversion Hf; subst.
        * match goal with Ht : areach ss f |- _ => specialize (R2 f Ht) end. revert R2. clear. incl_solve_goal.
        * match goal with Ht : areach sub f |- _ => specialize (R1 f Ht) end. revert R1. clear. incl_solve_goal.
      + intros m Hm. inversion Hm; subst; [apply N2; assumption|apply I2, N1; assumption].
    - (* the code skips the spread *)
      destruct (passes ds) eqn:Hp.
      2:{ destruct (IH O r E V (bounded_tail _ _ _ Hb) HO Hl Hinv) as (fs & V' & S & X & I1 & I2 & I3 & R & N).
          exists fs, V'. repeat split; try assumption.
          - apply SF_spread_skip; [left; exact Hp|exact S].
          - intros f Hf. inversion Hf; subst; [apply R; assumption|congruence].
          - intros m Hm. inversion Hm; subst; [apply N; assumption|congruence|congruence]. }
      destruct (in_dec str_eq_dec (n_val n) V) as [HinV|HnV].
      + assert (Hcl : closed E V (n_val n)).
        { destruct (Hinv _ HinV) as [Ho|Hc']; [|exact Hc'].
          exfalso. pose proof (HO _ Ho). pose proof (bounded_spread _ _ _ _ _ _ Hb Ef). lia. }
        destruct (IH O r E V (bounded_tail _ _ _ Hb) HO Hl Hinv) as (fs & V' & S & X & I1 & I2 & I3 & R & N).
        exists fs, V'. repeat split; try assumption.
        * apply SF_spread_skip; [right; exact HinV|exact S].
        * intros f Hf. inversion Hf; subst; [apply R; assumption|].
          match goal with Hl' : alookup (n_val n) frags = Some (?tc0, ?fs0), Ha' : applies (Some ?tc0) = true |- _ =>
            destruct (Hcl tc0 fs0 Hl' Ha') as [C1 _] end.
          apply in_or_app. right. apply C1. assumption.
        * intros m Hm. inversion Hm; subst; [apply N; assumption|apply I1, HinV|].
          match goal with Hl' : alookup (n_val n) frags = Some (?tc0, ?fs0), Ha' : applies (Some ?tc0) = true |- _ =>
            destruct (Hcl tc0 fs0 Hl' Ha') as [_ C2] end.
          apply I1, C2. assumption.
      + assert (Hna : applies (Some tc) = false).
        { destruct Hc as [Hc|[Hc|Hc]]; [congruence|exfalso; apply HnV, Hl, Hc|exact Hc]. }
        destruct (IH O r E (n_val n :: V) (bounded_tail _ _ _ Hb) HO) as (fs & V' & S & X & I1 & I2 & I3 & R & N).
        { intros y Hy. right. apply Hl, Hy. }
        { intros m [<-|Hm].
          - right. intros tc0 fs0 Ef0 Ha0. rewrite Ef in Ef0. inversion Ef0; subst. congruence.
          - destruct (Hinv m Hm) as [Ho|Hc']; [left; exact Ho|right].
            eapply closed_mono; [apply incl_refl| |exact Hc']. intros y Hy; right; exact Hy. }
        exists fs, V'. repeat split; try assumption.
        * apply SF_spread_other; [exact Hp|exact HnV|right; eauto|exact S].
        * intros y Hy. apply I1. right. exact Hy.
        * intros f Hf. inversion Hf; subst; [apply R; assumption|].
          match goal with Hl' : alookup (n_val n) frags = Some _ |- _ => rewrite Ef in Hl'; inversion Hl'; subst end.
          congruence.
        * intros m Hm. inversion Hm; subst; [apply N; assumption|apply I1; left; reflexivity|].
          match goal with Hl' : alookup (n_val n) frags = Some _ |- _ => rewrite Ef in Hl'; inversion Hl'; subst end.
          congruence.
    - (* missing fragment *)
      destruct (passes ds) eqn:Hp.
      2:{ destruct (IH O r E V (bounded_tail _ _ _ Hb) HO Hl Hinv) as (fs & V' & S & X & I1 & I2 & I3 & R & N).
          exists fs, V'. repeat split; try assumption.
          - apply SF_spread_skip; [left; exact Hp|exact S].
          - intros f Hf. inversion Hf; subst; [apply R; assumption|congruence].
          - intros m Hm. inversion Hm; subst; [apply N; assumption|congruence|congruence]. }
      destruct (in_dec str_eq_dec (n_val n) V) as [HinV|HnV].
      + destruct (IH O r E V (bounded_tail _ _ _ Hb) HO Hl Hinv) as (fs & V' & S & X & I1 & I2 & I3 & R & N).
        exists fs, V'. repeat split; try assumption.
        * apply SF_spread_skip; [right; exact HinV|exact S].
        * intros f Hf. inversion Hf; subst; [apply R; assumption|congruence].
        * intros m Hm. inversion Hm; subst; [apply N; assumption|apply I1, HinV|congruence].
      + destruct (IH O r E (n_val n :: V) (bounded_tail _ _ _ Hb) HO) as (fs & V' & S & X & I1 & I2 & I3 & R & N).
        { intros y Hy. right. apply Hl, Hy. }
        { intros m [<-|Hm].
          - right. intros tc0 fs0 Ef0 Ha0. congruence.
          - destruct (Hinv m Hm) as [Ho|Hc']; [left; exact Ho|right].
            eapply closed_mono; [apply incl_refl| |exact Hc']. intros y Hy; right; exact Hy. }
        exists fs, V'. repeat split; try assumption.
        * apply SF_spread_other; [exact Hp|exact HnV|left; exact Ef|exact S].
        * intros y Hy. apply I1. right. exact Hy.
        * intros f Hf. inversion Hf; subst; [apply R; assumption|congruence].
        * intros m Hm. inversion Hm; subst; [apply N; assumption|apply I1; left; reflexivity|congruence].
    - (* the code expands the fragment *)
      assert (Hrk : rank (n_val n) < r) by (eapply bounded_spread; eassumption).
      destruct (in_dec str_eq_dec (n_val n) V) as [HinV|HnV].
      + (* the specification has finished with it: only duplicates *)
        assert (Hcl : closed E V (n_val n)).
        { destruct (Hinv _ HinV) as [Ho|Hc']; [|exact Hc']. exfalso. pose proof (HO _ Ho). lia. }
        destruct (Hcl tc fsels Ef Ha) as [CR CN].
        destruct (code_alone E V _ _ _ _ H1 Hl CR CN) as [F1 L1].
        destruct (IH2 O r E V (bounded_tail _ _ _ Hb) HO) as (fs & V' & S & X & I1 & I2 & I3 & R & N).
        { intros y [<-|Hy]; [exact HinV|apply (caller_view_incl local l1 V L1), Hy]. }
        { exact Hinv. }
        exists fs, V'. repeat split; try assumption.
        * apply SF_spread_skip; [right; exact HinV|exact S].
        * apply Ext_dups; assumption.
        * intros f Hf. inversion Hf; subst; [apply R; assumption|].
          match goal with Hl' : alookup (n_val n) frags = Some _ |- _ => rewrite Ef in Hl'; inversion Hl'; subst end.
          apply in_or_app. right. apply CR. assumption.
        * intros m Hm. inversion Hm; subst; [apply N; assumption|apply I1, HinV|].
          match goal with Hl' : alookup (n_val n) frags = Some _ |- _ => rewrite Ef in Hl'; inversion Hl'; subst end.
          apply I1, CN. assumption.
      + (* both expand it *)
        destruct (IH1 (n_val n :: O) (rank (n_val n)) E (n_val n :: V) (Hacyc _ _ _ Ef))
          as (fs1 & V1 & S1 & X1 & I1 & L1 & Inv1 & R1 & N1).
        { intros o [<-|Ho]; [apply le_n|]. pose proof (HO _ Ho). lia. }
        { intros y Hy. right. apply Hl, Hy. }
        { intros m [<-|Hm]; [left; left; reflexivity|].
          destruct (Hinv m Hm) as [Ho|Hc']; [left; right; exact Ho|right].
          eapply closed_mono; [apply incl_refl| |exact Hc']. intros y Hy; right; exact Hy. }
        assert (Inv1' : inv O (fs1 ++ E) V1).
        { intros m Hm. destruct (Inv1 m Hm) as [[<-|Ho]|Hc']; [right|left; exact Ho|right; exact Hc'].
          intros tc0 fs0 Ef0 _. rewrite Ef in Ef0. inversion Ef0; subst. split; [exact R1|exact N1]. }
        destruct (IH2 O r (fs1 ++ E) V1 (bounded_tail _ _ _ Hb) HO) as (fs2 & V2 & S2 & X2 & I2 & L2 & Inv2 & R2 & N2).
        { intros y [<-|Hy]; [apply I1; left; reflexivity|apply (caller_view_incl local l1 V1 L1), Hy]. }
        { exact Inv1'. }
        exists (fs1 ++ fs2), V2. repeat split; try assumption.
        * eapply SF_spread; eassumption.
        * eapply Ext_app; [exact X1|exact X2|intros x Hx; apply in_app_or; exact Hx].
        * intros y Hy. apply I2, I1. right. exact Hy.
        * eapply inv_mono; [apply incl_refl| |exact Inv2]. incl_solve.
        * intros f Hf. inversion Hf; subst.
          -- match goal with Ht : areach ss f |- _ => specialize (R2 f Ht) end. revert R2. clear. incl_solve_goal.
          -- match goal with Hl' : alookup (n_val n) frags = Some _ |- _ => rewrite Ef in Hl'; inversion Hl'; subst end.
             match goal with Ht : areach _ f |- _ => specialize (R1 f Ht) end. revert R1. clear. incl_solve_goal.
        * intros m Hm. inversion Hm; subst; [apply N2; assumption|apply I2, I1; left; reflexivity|].
          match goal with Hl' : alookup (n_val n) frags = Some _ |- _ => rewrite Ef in Hl'; inversion Hl'; subst end.
          apply I2, N1. assumption.
  Qed.
End Full.

Lemma Ext_filter (p : selection -> bool) E fs ms :
  Ext E fs ms -> Ext (filter p E) (filter p fs) (filter p ms).
Proof.
  induction 1 as [E|E x fs ms H IH|E x fs ms Hx H IH]; simpl.
  - constructor.
  - simpl in IH. destruct (p x); [apply Ext_both; exact IH|exact IH].
  - destruct (p x) eqn:Ep; [|exact IH]. apply Ext_dup; [apply filter_In; auto|exact IH].
Qed.

Lemma Ext_head fs ms : Ext [] fs ms -> hd_error fs = hd_error ms.
Proof. inversion 1; subst; simpl; try reflexivity. match goal with Hi : In _ [] |- _ => destruct Hi end. Qed.

(* per key: the code's node list is the specification's with later repeats *)
Lemma Ext_groups_order fs ms : Ext [] fs ms ->
  Forall2 (fun a b => Ext [] (snd b) (snd a)) (spec_groups ms) (spec_groups fs).
Proof.
  intros H. pose proof (Ext_first_occ _ _ _ H) as Hk. unfold fresh_key in Hk. simpl in Hk.
  rewrite !filter_all in Hk. rewrite !spec_groups_unfold, <- Hk. clear Hk.
  generalize (first_occ (map field_key fs)) as ks.
  induction ks as [|k ks IH]; simpl; constructor; [|exact IH].
  simpl. apply (Ext_filter (key_is k)) in H. exact H.
Qed.

(* the code's grouping against the specification's CollectFields, arbitrary
   nesting of spreads, acyclic fragments *)
Theorem collect_full applies frags vs rank mc fuel ss g :
  acyclic frags rank ->
  collect applies frags vs mc fuel ss = Ok g ->
  exists g', SCollect applies frags vs ss g' /\ keys g = keys g' /\
             Forall2 (fun a b => incl (snd a) (snd b) /\ incl (snd b) (snd a)) g g' /\
             Forall2 (fun a b => Ext [] (snd b) (snd a)) g g'.
Proof.
  intros Hacyc H. unfold collect in H. apply obind_ok in H as [r0 [Hr H]]. inversion H; subst.
  destruct (collect_into_mflat applies frags vs mc _ _ _ _ _ Hr) as [ms [Hm Hg]].
  destruct (bounded_any frags rank ss) as [r Hb].
  destruct (core applies frags vs rank Hacyc _ _ _ _ Hm [] r [] [] Hb) as (fs & V' & S & X & _).
  { intros o []. } { apply incl_refl. } { intros n []. }
  exists (spec_groups fs). rewrite Hg, group_into_spec.
  destruct (Ext_groups _ _ X) as [K F]. split; [exists fs, V'; auto|].
  split; [exact K|]. split; [exact F|apply Ext_groups_order; exact X].
Qed.
