(* The impl-shaped graph rules against their order-free specification forms:
   spreads and fragment cycles. *)
From PyGql Require Import Valid.ValidOverlap Spec.ValidSpec Proofs.ValidCloseProofs.
From Coq Require Import Lia.

(* ---- unfolding of the TypeInfo traversal ---- *)
Lemma go_is_flat_map {A B} (f : A -> list B) (l : list A) :
  (fix go (ss : list A) : list B := match ss with [] => [] | y :: ys => f y ++ go ys end) l
  = flat_map f l.
Proof. induction l as [|a l IH]; simpl; [reflexivity|]. rewrite IH. reflexivity. Qed.

Lemma sel_events_field s ty_ parent cf alias n args dirs sl sub l :
  sel_events s ty_ parent cf (SField alias n args dirs sl sub l) =
  let fdef := field_def_of s parent (n_val n) in
  let fty := field_type_of s fdef in
  EField parent fdef alias n args dirs sl l
  :: map (EDirective (S_ "FIELD") fdef) dirs
  ++ match sl with
     | None => []
     | Some l0 => ESelSet (sel_parent s fty) l0 sub
                  :: flat_map (sel_events s fty (sel_parent s fty) fdef) sub
     end.
Proof.
  simpl. destruct sl; [|reflexivity].
  rewrite (go_is_flat_map (sel_events s _ _ _) sub). reflexivity.
Qed.

Lemma sel_events_inline s ty_ parent cf tc dirs ssl sub l :
  sel_events s ty_ parent cf (SInline tc dirs ssl sub l) =
  let ity := match tc with
             | Some t => out_filter s (type_from_ast s t)
             | None => out_filter s ty_
             end in
  EInline ity parent tc dirs l
  :: map (EDirective (S_ "INLINE_FRAGMENT") cf) dirs
  ++ ESelSet (sel_parent s ity) ssl sub :: flat_map (sel_events s ity (sel_parent s ity) cf) sub.
Proof.
  simpl. rewrite (go_is_flat_map (sel_events s _ _ _) sub). reflexivity.
Qed.

Lemma in_flat_map2 {A B C} (f : B -> list C) (g : A -> list B) (l : list A) x :
  In x (flat_map f (flat_map g l)) <-> exists y, In y l /\ In x (flat_map f (g y)).
Proof.
  rewrite in_flat_map. split.
  - intros [b [Hb Hx]]. apply in_flat_map in Hb. destruct Hb as [y [Hy Hb]].
    exists y. split; [exact Hy|]. apply in_flat_map. exists b. tauto.
  - intros [y [Hy Hx]]. apply in_flat_map in Hx. destruct Hx as [b [Hb Hx]].
    exists b. split; [|exact Hx]. apply in_flat_map. exists y. tauto.
Qed.

Lemma spread_of_dirs w c dirs : flat_map ev_spread (map (EDirective w c) dirs) = [].
Proof. induction dirs as [|a l IH]; simpl; [reflexivity|exact IH]. Qed.

(* ---- spreads seen by the traversal = spreads occurring in the selection ---- *)
Lemma sel_spreads_events s x : forall y ty_ parent cf,
  In x (flat_map ev_spread (sel_events s ty_ parent cf y)) <-> sel_spreads y x.
Proof.
  induction y as [alias n args dirs sl sub l IH|n dirs l|tc dirs ssl sub l IH] using selection_ind';
    intros ty_ parent cf.
  - rewrite sel_events_field. cbv zeta. simpl flat_map at 1.
    rewrite flat_map_app, spread_of_dirs. simpl app.
    destruct sl as [l0|].
    + simpl flat_map at 1. rewrite in_flat_map2. split.
      * intros [y [Hy Hx]]. rewrite Forall_forall in IH. apply (IH y Hy) in Hx.
        eapply ss_field; eassumption.
      * intros H. inversion H; subst. exists y. split; [assumption|].
        rewrite Forall_forall in IH. apply (IH y); assumption.
    + simpl. split; [tauto|]. intros H. inversion H.
  - simpl. rewrite spread_of_dirs. simpl. split.
    + intros [<-|[]]. constructor.
    + intros H. inversion H; subst. left. reflexivity.
  - rewrite sel_events_inline. cbv zeta. simpl flat_map at 1.
    rewrite flat_map_app, spread_of_dirs. simpl app. simpl flat_map at 1.
    rewrite in_flat_map2. split.
    + intros [y [Hy Hx]]. rewrite Forall_forall in IH. apply (IH y Hy) in Hx.
      eapply ss_inline; eassumption.
    + intros H. inversion H; subst. exists y. split; [assumption|].
      rewrite Forall_forall in IH. apply (IH y); assumption.
Qed.

Lemma def_spreads_spec s df x : In x (def_spreads s df) <-> sels_spread (def_sels df) x.
Proof.
  unfold def_spreads, sels_spread. destruct df; simpl; try (split; [tauto|intros [y [[] _]]]).
  - rewrite flat_map_app, spread_of_dirs. simpl. rewrite in_flat_map2.
    split; intros [y [Hy Hx]]; exists y; (split; [exact Hy|]);
      [apply (sel_spreads_events s x y) in Hx; exact Hx|apply (sel_spreads_events s x y); exact Hx].
  - rewrite flat_map_app, spread_of_dirs. simpl. rewrite in_flat_map2.
    split; intros [y [Hy Hx]]; exists y; (split; [exact Hy|]);
      [apply (sel_spreads_events s x y) in Hx; exact Hx|apply (sel_spreads_events s x y); exact Hx].
Qed.

(* ---- small list facts ---- *)
Lemma dedup_aux_In seen l x : In x (dedup_aux seen l) <-> In x l /\ ~ In x seen.
Proof.
  revert seen. induction l as [|a l IH]; intros seen; simpl; [tauto|].
  destruct (mem_str a seen) eqn:Hm.
  - apply mem_str_In in Hm. rewrite IH. split; [tauto|].
    intros [[->|H] Hn]; tauto.
  - assert (Hn : ~ In a seen) by (intros H; apply mem_str_In in H; congruence).
    simpl. rewrite IH. simpl. split.
    + intros [->|[H1 H2]]; tauto.
    + intros [[->|H1] H2]; [tauto|]. destruct (str_eq_dec a x) as [->|Hne]; [tauto|]. right. tauto.
Qed.
Lemma dedup_In l x : In x (dedup l) <-> In x l.
Proof. unfold dedup. rewrite dedup_aux_In. simpl. tauto. Qed.

Lemma frag_name_named df f : frag_name df = Some f <-> fragment_named df f.
Proof. destruct df; simpl; split; try discriminate; try tauto; [intros H; inversion H; reflexivity|intros ->; reflexivity]. Qed.

Lemma frag_names_In d f : In f (frag_names d) <-> defined_fragment d f.
Proof.
  unfold frag_names, defined_fragment. rewrite in_flat_map. split.
  - intros [df [Hdf Hin]]. exists df. split; [exact Hdf|]. apply frag_name_named.
    destruct (frag_name df); simpl in Hin; [destruct Hin as [->|[]]; reflexivity|destruct Hin].
  - intros [df [Hdf Hn]]. exists df. split; [exact Hdf|]. apply frag_name_named in Hn. rewrite Hn. left. reflexivity.
Qed.

Lemma last_named_some ds f x : last_named ds f = Some x -> In x ds /\ frag_name x = Some f.
Proof.
  induction ds as [|a ds IH]; simpl; [discriminate|].
  destruct (last_named ds f) as [y|] eqn:Hl.
  - intros H; inversion H; subst. destruct (IH eq_refl). tauto.
  - destruct (frag_name a) as [f'|] eqn:Hf; [|discriminate].
    destruct (str_eqb_spec f f') as [->|]; [|discriminate].
    intros H; inversion H; subst. tauto.
Qed.

Lemma last_named_none ds f : last_named ds f = None -> forall x, In x ds -> frag_name x <> Some f.
Proof.
  induction ds as [|a ds IH]; simpl; [intros _ x []|].
  destruct (last_named ds f) as [y|] eqn:Hl; [discriminate|].
  destruct (frag_name a) as [f'|] eqn:Hf.
  - destruct (str_eqb_spec f f') as [->|Hne]; [discriminate|].
    intros _ x [<-|Hx]; [rewrite Hf; congruence|apply IH; auto].
  - intros _ x [<-|Hx]; [rewrite Hf; discriminate|apply IH; auto].
Qed.

(* with unique fragment names a name has one definition *)
Lemma unique_def (ds : list definition) f x y :
  NoDup (flat_map (fun x => match frag_name x with Some n => [n] | None => [] end) ds) ->
  In x ds -> In y ds -> frag_name x = Some f -> frag_name y = Some f -> x = y.
Proof.
  induction ds as [|a ds IH]; simpl; [intros _ []|].
  intros Hnd Hx Hy Hfx Hfy.
  assert (Hin : forall z, In z ds -> frag_name z = Some f ->
                In f (flat_map (fun x => match frag_name x with Some n => [n] | None => [] end) ds)).
  { intros z Hz Hfz. apply in_flat_map. exists z. split; [exact Hz|]. rewrite Hfz. left. reflexivity. }
  destruct Hx as [->|Hx], Hy as [->|Hy]; try reflexivity.
  - rewrite Hfx in Hnd. simpl in Hnd. inversion Hnd; subst. exfalso. eauto.
  - rewrite Hfy in Hnd. simpl in Hnd. inversion Hnd; subst. exfalso. eauto.
  - apply IH; try assumption. destruct (frag_name a); simpl in Hnd; [inversion Hnd; assumption|assumption].
Qed.

(* ---- the graph NoFragmentCycles searches ---- *)
Lemma cyc_spreads_edge s d p x : In x (cyc_spreads s d p) -> frag_edge d p x /\ x <> p.
Proof.
  unfold cyc_spreads. destruct (last_named (doc_defs d) p) as [df|] eqn:Hl; [|intros []].
  apply last_named_some in Hl. destruct Hl as [Hdf Hn].
  rewrite dedup_In, filter_In. intros [Hx Hne]. split.
  - exists df. split; [exact Hdf|]. split; [apply frag_name_named; exact Hn|].
    apply def_spreads_spec with (s := s). exact Hx.
  - intros ->. rewrite str_eqb_refl in Hne. discriminate.
Qed.

Lemma edge_cyc_spreads s d p x :
  NoDup (frag_names d) -> frag_edge d p x -> x <> p -> In x (cyc_spreads s d p).
Proof.
  intros Hnd [df [Hdf [Hn Hs]]] Hne. unfold cyc_spreads.
  apply frag_name_named in Hn.
  destruct (last_named (doc_defs d) p) as [df'|] eqn:Hl.
  - apply last_named_some in Hl. destruct Hl as [Hdf' Hn'].
    assert (df' = df) by (eapply unique_def; eassumption). subst df'.
    rewrite dedup_In, filter_In. split; [apply def_spreads_spec; exact Hs|].
    destruct (str_eqb_spec x p); [contradiction|reflexivity].
  - exfalso. eapply last_named_none; eassumption.
Qed.

Lemma creach_walk s d f S0 :
  (forall x, In x S0 -> frag_edge d f x) ->
  forall x, creach (cyc_spreads s d) S0 (frag_names d) x -> walk d f x.
Proof.
  intros HS x Hr. induction Hr as [y Hy|p y Hp IHp Hy Hc].
  - apply walk_one. apply HS. exact Hy.
  - eapply walk_step; [exact IHp|]. apply cyc_spreads_edge in Hy. tauto.
Qed.

Lemma spread_event s df x :
  In x (def_spreads s df) <->
  exists p n dirs l, In (ESpread p n dirs l) (def_events s df) /\ n_val n = x.
Proof.
  unfold def_spreads. rewrite in_flat_map. split.
  - intros [e [He Hx]]. destruct e; simpl in Hx; try (exfalso; exact Hx).
    destruct Hx as [<-|[]]. eauto 6.
  - intros (p & n & dirs & l & He & <-). eexists. split; [exact He|]. left. reflexivity.
Qed.

Lemma self_spreads_In s d v :
  In v (self_spreads s d) <->
  exists df f p n dirs l, In df (doc_defs d) /\ frag_name df = Some f /\
     In (ESpread p n dirs l) (def_events s df) /\ n_val n = f /\ v = mk 14 l.
Proof.
  unfold self_spreads. rewrite in_flat_map. split.
  - intros [df [Hdf Hv]]. destruct (frag_name df) as [f|] eqn:Hf; [|destruct Hv].
    apply in_flat_map in Hv. destruct Hv as [e [He Hv]].
    destruct e; try (exfalso; exact Hv).
    destruct (str_eqb_spec (n_val n) f) as [Hn|]; [|destruct Hv].
    destruct Hv as [<-|[]]. exists df, f, parent, n, dirs, l. tauto.
  - intros (df & f & p & n & dirs & l & Hdf & Hf & He & Hn & ->).
    exists df. split; [exact Hdf|]. rewrite Hf. apply in_flat_map.
    eexists. split; [exact He|]. simpl. rewrite Hn, str_eqb_refl. left. reflexivity.
Qed.

Lemma self_edge_reported s d f : frag_edge d f f -> self_spreads s d <> [].
Proof.
  intros [df [Hdf [Hn Hs]]] Hnil.
  apply (def_spreads_spec s) in Hs. apply spread_event in Hs.
  destruct Hs as (p & n & dirs & l & He & Hnf).
  assert (Hin : In (mk 14 l) (self_spreads s d)).
  { apply self_spreads_In. exists df, f, p, n, dirs, l. apply frag_name_named in Hn. tauto. }
  rewrite Hnil in Hin. destruct Hin.
Qed.

Lemma reported_self_edge s d v : In v (self_spreads s d) -> exists f, frag_edge d f f.
Proof.
  intros H. apply self_spreads_In in H.
  destruct H as (df & f & p & n & dirs & l & Hdf & Hf & He & Hn & _).
  exists f. exists df. split; [exact Hdf|]. split; [apply frag_name_named; exact Hf|].
  apply (def_spreads_spec s). apply spread_event. eauto 6.
Qed.

Lemma edge_source_defined d y x : frag_edge d y x -> In y (frag_names d).
Proof. intros [df [Hdf [Hn _]]]. apply frag_names_In. exists df. tauto. Qed.

Lemma walk_creach s d f :
  NoDup (frag_names d) ->
  forall x, walk d f x -> In x (frag_names d) ->
  self_spreads s d <> [] \/ creach (cyc_spreads s d) (cyc_spreads s d f) (frag_names d) x.
Proof.
  intros Hnd x Hw. induction Hw as [f x He|f y x Hw IH He]; intros Hin.
  - destruct (str_eq_dec x f) as [->|Hne].
    + left. eapply self_edge_reported. exact He.
    + right. apply creach_base. apply edge_cyc_spreads; assumption.
  - destruct (IH (edge_source_defined _ _ _ He)) as [Hl|Hr]; [left; exact Hl|].
    destruct (str_eq_dec x y) as [->|Hne].
    + left. eapply self_edge_reported. exact He.
    + right. eapply creach_step; [exact Hr|apply edge_cyc_spreads; assumption|exact Hin].
Qed.

Lemma walk_source_defined d f x : walk d f x -> In f (frag_names d).
Proof. induction 1 as [f x He|f y x Hw IH He]; [eapply edge_source_defined; exact He|exact IH]. Qed.

Theorem r14_equiv s d :
  NoDup (frag_names d) ->
  (r14_no_fragment_cycles s d = Ok [] <-> ~ has_cycle d).
Proof.
  intros Hnd. split.
  - intros H [f Hw]. unfold r14_no_fragment_cycles in H.
    destruct (ocat _ (dedup (frag_names d))) as [cyc| | |] eqn:Hoc; simpl in H; try discriminate.
    inversion H as [Happ]. apply app_eq_nil in Happ. destruct Happ as [Hself Hcyc].
    pose proof (walk_source_defined _ _ _ Hw) as Hf.
    destruct (walk_creach s d f Hnd f Hw Hf) as [Hl|Hr]; [contradiction|].
    destruct (ocat_inv _ _ _ Hoc) as [H1 _].
    destruct (H1 f) as [rx [Hfx Hincl]]; [apply dedup_In; exact Hf|].
    destruct (close (close_fuel d) (frag_names d) (cyc_spreads s d) (cyc_spreads s d f)) as [acc| | |] eqn:Hc;
      simpl in Hfx; try discriminate.
    pose proof (close_complete _ _ _ _ _ Hc f Hr) as Hacc. apply mem_str_In in Hacc.
    rewrite Hacc in Hfx. inversion Hfx; subst rx. subst cyc.
    destruct (Hincl (mk 14 (doc_loc d)) (or_introl eq_refl)).
  - intros Hnc. destruct (r14_ok s d) as [l Hl]. rewrite Hl. f_equal.
    unfold r14_no_fragment_cycles in Hl.
    destruct (ocat _ (dedup (frag_names d))) as [cyc| | |] eqn:Hoc; simpl in Hl; try discriminate.
    inversion Hl; subst l.
    assert (Hself : self_spreads s d = []).
    { destruct (self_spreads s d) as [|v vs] eqn:Hs; [reflexivity|].
      exfalso. destruct (reported_self_edge s d v) as [f He]; [rewrite Hs; left; reflexivity|].
      apply Hnc. exists f. apply walk_one. exact He. }
    rewrite Hself. simpl.
    apply (ocat_nil_iff _ _ _ Hoc). intros f rx Hf Hfx.
    destruct (close (close_fuel d) (frag_names d) (cyc_spreads s d) (cyc_spreads s d f)) as [acc| | |] eqn:Hc;
      simpl in Hfx; try discriminate.
    destruct (mem_str f acc) eqn:Hm; inversion Hfx; [|reflexivity].
    exfalso. apply Hnc. exists f. apply mem_str_In in Hm.
    apply (creach_walk s d f (cyc_spreads s d f)).
    + intros x Hx. apply cyc_spreads_edge in Hx. tauto.
    + eapply close_sound; eassumption.
Qed.
