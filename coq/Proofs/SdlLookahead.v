(* The parser resolves the "definition without block, then {" ambiguity
   greedily: after a block-less definition the next token is never "{".
   With this, acceptance is exactly derivability in D_document_la. *)
From PyGql Require Import Lang.Parser Spec.GrammarSpec Spec.DocGrammarSpec Spec.SdlGrammarSpec
  Proofs.GrammarProofs Proofs.DocGrammarSound Proofs.SdlGrammarSound.

Definition no_curly_head (l : list lx) : Prop := forall t r, l = LT t :: r -> tk t <> KCurlyO.

Lemma many_nonempty {A} n open (p : parser A) close st xs st' :
  many n open p close st = Ok (xs, st') -> xs <> [].
Proof.
  unfold many. intros H. pb H o s1 Ho. destruct n as [|n]; [discriminate|]. simpl in H.
  pb H x s2 Hx. pb H b s3 Hb. destruct b.
  - apply pret_ok in H. destruct H as [-> _]. discriminate.
  - pb H xs' s4 Hxs. apply pret_ok in H. destruct H as [-> _]. discriminate.
Qed.

Lemma opt_block_nil_state {A} n (p : parser A) close st st' :
  (pdo t <- peek; if is_kind KCurlyO t then many n KCurlyO p close else pret []) st = Ok ([], st') ->
  no_curly_head (toks st').
Proof.
  intros H. pb H t s1 Ht. apply peek_ok in Ht. destruct Ht as [-> [r Hr]].
  destruct (is_kind KCurlyO t) eqn:E.
  - apply many_nonempty in H. congruence.
  - apply pret_ok in H. destruct H as [_ ->]. intros t' r' Ht'. rewrite Hr in Ht'. injection Ht' as <- _.
    intros K. unfold is_kind in E. rewrite K, tkind_eqb_refl in E. discriminate.
Qed.

Ltac pball H :=
  repeat (let x := fresh "x" in let s := fresh "s" in let Hx := fresh "Hx" in pb H x s Hx).

Ltac finish_loc H :=
  match goal with
  | Hg : get_loc _ _ ?s = Ok (_, ?s') |- _ => apply get_loc_ok in Hg; destruct Hg as [? ?]; subst
  end;
  apply pret_ok in H; destruct H as [? ?]; subst.

Section Lookahead.
Variable fl : flags.
Variable n : nat.
Notation nl := (no_location fl).
Notation fv := (fragment_variables fl).

Definition la_ok (p : parser definition) : Prop :=
  forall st x st', p st = Ok (x, st') -> blockless x -> no_curly_head (toks st').

Ltac la_none := intros st x st' H Hb; pball H; finish_loc H; simpl in Hb; contradiction.

Lemma la_schema_def : la_ok (parse_schema_definition fl n).
Proof. unfold parse_schema_definition. la_none. Qed.
Lemma la_scalar_def : la_ok (parse_scalar_type_definition fl n).
Proof. unfold parse_scalar_type_definition. la_none. Qed.
Lemma la_union_def : la_ok (parse_union_type_definition fl n).
Proof. unfold parse_union_type_definition. la_none. Qed.
Lemma la_directive_def : la_ok (parse_directive_definition fl n).
Proof. unfold parse_directive_definition. la_none. Qed.

Ltac la_block blockfun :=
  intros st x st' H Hb; pball H; finish_loc H; simpl in Hb;
  match goal with
  | Hf : blockfun _ _ ?s = Ok (?fs, _) |- _ =>
      destruct fs; [|contradiction]; unfold blockfun in Hf; eapply opt_block_nil_state; exact Hf
  end.

Lemma la_object_def : la_ok (parse_object_type_definition fl n).
Proof. unfold parse_object_type_definition. la_block parse_fields_definition. Qed.
Lemma la_interface_def : la_ok (parse_interface_type_definition fl n).
Proof. unfold parse_interface_type_definition. la_block parse_fields_definition. Qed.
Lemma la_enum_def : la_ok (parse_enum_type_definition fl n).
Proof. unfold parse_enum_type_definition. la_block parse_enum_values_definition. Qed.
Lemma la_input_def : la_ok (parse_input_object_type_definition fl n).
Proof. unfold parse_input_object_type_definition. la_block parse_input_fields_definition. Qed.

Lemma la_tsd : la_ok (parse_type_system_definition fl n).
Proof.
  intros st x st' H Hb. unfold parse_type_system_definition in H.
  pb H next s0 Hp. apply peek_ok in Hp. destruct Hp as [-> _].
  pb H keyword s1 Hk.
  assert (s1 = st).
  { destruct (is_string_tok next); [apply peek2_ok in Hk; exact Hk|apply pret_ok in Hk; destruct Hk; auto]. }
  subst s1. clear Hk.
  destruct (is_kind KName keyword); [|exfalso; exact (unexpected_not_ok _ _ _ _ H)]. cbv zeta in H.
  destruct (is_kw "schema" (tval keyword)); [exact (la_schema_def _ _ _ H Hb)|].
  destruct (is_kw "scalar" (tval keyword)); [exact (la_scalar_def _ _ _ H Hb)|].
  destruct (is_kw "type" (tval keyword)); [exact (la_object_def _ _ _ H Hb)|].
  destruct (is_kw "interface" (tval keyword)); [exact (la_interface_def _ _ _ H Hb)|].
  destruct (is_kw "union" (tval keyword)); [exact (la_union_def _ _ _ H Hb)|].
  destruct (is_kw "enum" (tval keyword)); [exact (la_enum_def _ _ _ H Hb)|].
  destruct (is_kw "input" (tval keyword)); [exact (la_input_def _ _ _ H Hb)|].
  destruct (is_kw "directive" (tval keyword)); [exact (la_directive_def _ _ _ H Hb)|].
  exfalso; exact (unexpected_not_ok _ _ _ _ H).
Qed.

(* ---- extensions ---- *)
Ltac la_ext_none :=
  intros st x st' H Hb; pball H;
  match type of H with
  | (if ?c then _ else _) _ = _ => destruct c
  end;
  [try (pball H); exfalso; first [exact (unexpected_not_ok _ _ _ _ H)|exact (perr_not_ok _ _ _ _ H)]
  |pball H; finish_loc H; simpl in Hb; contradiction].

Ltac la_ext_block blockfun :=
  intros st x st' H Hb; pball H;
  match type of H with
  | (if ?c then _ else _) _ = _ => destruct c
  end;
  [try (pball H); exfalso; first [exact (unexpected_not_ok _ _ _ _ H)|exact (perr_not_ok _ _ _ _ H)]
  |pball H; finish_loc H; simpl in Hb;
   match goal with
   | Hf : blockfun _ _ ?s = Ok (?fs, _) |- _ =>
       destruct fs; [|contradiction]; unfold blockfun in Hf; eapply opt_block_nil_state; exact Hf
   end].

Lemma la_scalar_ext : la_ok (parse_scalar_type_extension fl n).
Proof. unfold parse_scalar_type_extension. la_ext_none. Qed.
Lemma la_union_ext : la_ok (parse_union_type_extension fl n).
Proof. unfold parse_union_type_extension. la_ext_none. Qed.
Lemma la_object_ext : la_ok (parse_object_type_extension fl n).
Proof. unfold parse_object_type_extension. la_ext_block parse_fields_definition. Qed.
Lemma la_interface_ext : la_ok (parse_interface_type_extension fl n).
Proof. unfold parse_interface_type_extension. la_ext_block parse_fields_definition. Qed.
Lemma la_enum_ext : la_ok (parse_enum_type_extension fl n).
Proof. unfold parse_enum_type_extension. la_ext_block parse_enum_values_definition. Qed.
Lemma la_input_ext : la_ok (parse_input_object_type_extension fl n).
Proof. unfold parse_input_object_type_extension. la_ext_block parse_input_fields_definition. Qed.

Lemma la_schema_ext : la_ok (parse_schema_extension fl n).
Proof.
  intros st x st' H Hb. unfold parse_schema_extension in H.
  pb H start s0 Hp0. pb H e s1 He. pb H k s2 Hk. pb H dirs s3 Hd.
  pb H t s4 Hp. apply peek_ok in Hp. destruct Hp as [-> [r Hr]].
  pb H ots s5 Ho.
  destruct (is_nil dirs && is_nil ots).
  { pb H tok s6 Hp6. exfalso; exact (unexpected_not_ok _ _ _ _ H). }
  pball H. finish_loc H. simpl in Hb. destruct ots; [|contradiction].
  destruct (is_kind KCurlyO t) eqn:E.
  - apply many_nonempty in Ho. congruence.
  - apply pret_ok in Ho. destruct Ho as [_ ->]. intros t' r' Ht'. rewrite Hr in Ht'. injection Ht' as <- _.
    intros K. unfold is_kind in E. rewrite K, tkind_eqb_refl in E. discriminate.
Qed.

Lemma la_tse : la_ok (parse_type_system_extension fl n).
Proof.
  intros st x st' H Hb. unfold parse_type_system_extension in H.
  pb H keyword s1 Hk. apply peek2_ok in Hk. subst s1.
  destruct (is_kind KName keyword); [|exfalso; exact (unexpected_not_ok _ _ _ _ H)]. cbv zeta in H.
  destruct (is_kw "schema" (tval keyword)); [exact (la_schema_ext _ _ _ H Hb)|].
  destruct (is_kw "scalar" (tval keyword)); [exact (la_scalar_ext _ _ _ H Hb)|].
  destruct (is_kw "type" (tval keyword)); [exact (la_object_ext _ _ _ H Hb)|].
  destruct (is_kw "interface" (tval keyword)); [exact (la_interface_ext _ _ _ H Hb)|].
  destruct (is_kw "union" (tval keyword)); [exact (la_union_ext _ _ _ H Hb)|].
  destruct (is_kw "enum" (tval keyword)); [exact (la_enum_ext _ _ _ H Hb)|].
  destruct (is_kw "input" (tval keyword)); [exact (la_input_ext _ _ _ H Hb)|].
  exfalso; exact (unexpected_not_ok _ _ _ _ H).
Qed.

Lemma la_exec : la_ok (parse_executable_definition fl n).
Proof.
  intros st x st' H Hb. apply parse_executable_definition_sound in H. destruct H as (ts & _ & D).
  destruct D as [ts0 d0 Do|ts0 d0 Df]; [destruct Do|destruct Df]; simpl in Hb; contradiction.
Qed.

Lemma la_definition : la_ok (parse_definition fl n).
Proof.
  intros st x st' H Hb. unfold parse_definition in H.
  pb H start s0 Hp. apply peek_ok in Hp. destruct Hp as [-> _].
  destruct (is_kind KName start).
  - destruct (mem_str (tval start) (map kw executable_keywords)); [exact (la_exec _ _ _ H Hb)|].
    destruct (allow_type_system fl); [|exfalso; exact (unexpected_not_ok _ _ _ _ H)].
    destruct (mem_str (tval start) (map kw schema_keywords)); [exact (la_tsd _ _ _ H Hb)|].
    destruct (is_kw "extend" (tval start)); [exact (la_tse _ _ _ H Hb)|exfalso; exact (unexpected_not_ok _ _ _ _ H)].
  - destruct (is_kind KCurlyO start); [exact (la_exec _ _ _ H Hb)|].
    destruct (allow_type_system fl); simpl in H; [|exfalso; exact (unexpected_not_ok _ _ _ _ H)].
    destruct (is_string_tok start); [exact (la_tsd _ _ _ H Hb)|exfalso; exact (unexpected_not_ok _ _ _ _ H)].
Qed.

(* ---- documents ---- *)
Lemma definitions_loop_sound_la : forall k st xs st', definitions_loop fl n k st = Ok (xs, st') ->
  exists body eof, step st (body ++ [eof]) st' /\ tk eof = KEOF
    /\ D_definitions_la nl fv (allow_type_system fl) body xs /\ xs <> [].
Proof.
  induction k as [|k IH]; intros st xs st' H; [discriminate|]. simpl in H.
  pb H d s1 Hd. pose proof (la_definition _ _ _ Hd) as Hla.
  apply parse_definition_sound_full in Hd. destruct Hd as (ts1 & S1 & D1).
  pb H b s2 Hs. apply skip_step in Hs. destruct Hs as [(-> & eof & S2 & Ke)|(-> & ->)].
  - apply pret_ok in H. destruct H as [-> ->].
    exists ts1, eof. split; [exact (S1 >> S2)|]. split; [exact Ke|]. split; [|discriminate].
    rewrite <- (app_nil_r ts1). constructor; [exact D1| |constructor].
    intros _ (t & r & E & _). discriminate.
  - pb H ds s3 Hds. apply IH in Hds. destruct Hds as (body & eof & S3 & Ke & Dl & _).
    apply pret_ok in H. destruct H as [-> ->].
    exists (ts1 ++ body), eof. split; [rewrite <- app_assoc; exact (S1 >> S3)|].
    split; [exact Ke|]. split; [|discriminate]. constructor; [exact D1| |exact Dl].
    intros Hb (t & r & -> & K). destruct S3 as [Ht _]. simpl in Ht.
    exact (Hla Hb t _ Ht K).
Qed.

Theorem parse_document_p_sound_la st d st' :
  parse_document_p fl n st = Ok (d, st') ->
  exists ts, step st ts st' /\ D_document_la nl fv (allow_type_system fl) ts d.
Proof.
  intros H. unfold parse_document_p in H. pk H start s0 r Hr.
  pex H sof s1 S0 Ks. pose proof (head_eq Hr S0) as E. subst sof.
  pb H defs s2 Hd. apply definitions_loop_sound_la in Hd. destruct Hd as (body & eof & S1 & Ke & Dl & Hne).
  pose proof (S0 >> S1) as S. simpl in S.
  pfin H fl start r st Hr S; [|discriminate].
  exists (start :: body ++ [eof]). split; [exact S|]. constructor; assumption.
Qed.

End Lookahead.
