(* C01 (7) / C02 shape+spans for types and values: the parser model is sound
   and complete for the derivation relations of Spec/GrammarSpec.v. *)
From PyGql Require Import Lang.Parser Spec.GrammarSpec.

(* end offset after consuming ts, starting from last_end = e *)
Definition lend (ts : list ptok) (e : nat) : nat :=
  match ts with [] => e | t :: r => tend (last r t) end.

Lemma last_default {A} (l : list A) (d d' : A) : l <> [] -> last l d = last l d'.
Proof.
  induction l as [|a l IH]; [congruence|]. intros _. simpl.
  destruct l as [|b l]; [reflexivity|]. apply IH. discriminate.
Qed.

Lemma last_app_cons {A} (l : list A) (x : A) (r : list A) (d : A) : last (l ++ x :: r) d = last r x.
Proof.
  induction l as [|a l IH]; simpl.
  - destruct r as [|y r]; [reflexivity|]. apply last_default. discriminate.
  - destruct (l ++ x :: r) eqn:E; [destruct l; discriminate|]. exact IH.
Qed.

Lemma last_snoc {A} (l : list A) (x d : A) : last (l ++ [x]) d = x.
Proof. apply last_app_cons. Qed.

Lemma lend_snoc ts x e : lend (ts ++ [x]) e = tend x.
Proof. destruct ts as [|t r]; simpl; [reflexivity|]. rewrite last_snoc. reflexivity. Qed.

Lemma lend_app ts1 ts2 e : lend (ts1 ++ ts2) e = lend ts2 (lend ts1 e).
Proof.
  destruct ts2 as [|t2 r2]; [rewrite app_nil_r; reflexivity|].
  destruct ts1 as [|t1 r1]; [reflexivity|]. simpl. rewrite last_app_cons. reflexivity.
Qed.

(* ---- inversion of the primitives ---- *)
Lemma pbind_ok {A B} (p : parser A) (f : A -> parser B) st r :
  pbind p f st = Ok r -> exists x st1, p st = Ok (x, st1) /\ f x st1 = Ok r.
Proof. unfold pbind. destruct (p st) as [[x st1]| | |]; try discriminate. eauto. Qed.

Lemma pret_ok {A} (a b : A) st st' : pret a st = Ok (b, st') -> b = a /\ st' = st.
Proof. unfold pret. intros H; inversion H; auto. Qed.

Lemma peek_ok st t st' : peek st = Ok (t, st') -> st' = st /\ exists r, toks st = LT t :: r.
Proof.
  unfold peek. destruct (toks st) as [|[x|k p|] r] eqn:E; try discriminate.
  intros H; inversion H; subst. eauto.
Qed.

Lemma advance_ok st t st' : advance st = Ok (t, st') ->
  toks st = LT t :: toks st' /\ last_end st' = tend t.
Proof.
  unfold advance. destruct (toks st) as [|[x|k p|] r] eqn:E; try discriminate.
  intros H; inversion H; subst. auto.
Qed.

Lemma expect_ok k st t st' : expect k st = Ok (t, st') ->
  toks st = LT t :: toks st' /\ last_end st' = tend t /\ tk t = k.
Proof.
  unfold expect, pbind, peek, advance, perr.
  destruct (toks st) as [|[x|? ?|] r] eqn:E; try discriminate.
  destruct (is_kind k x) eqn:Ek; [|discriminate]. rewrite E.
  intros H; inversion H; subst. simpl. repeat split; auto. apply tkind_eqb_eq. exact Ek.
Qed.

Lemma skip_ok k st b st' : skip k st = Ok (b, st') ->
  (b = true /\ exists t, toks st = LT t :: toks st' /\ tk t = k /\ last_end st' = tend t)
  \/ (b = false /\ st' = st /\ exists t r, toks st = LT t :: r /\ tk t <> k).
Proof.
  unfold skip, pbind, peek, advance, pret.
  destruct (toks st) as [|[x|? ?|] r] eqn:E; try discriminate.
  destruct (is_kind k x) eqn:Ek.
  - rewrite E. intros H; inversion H; subst. left. split; [reflexivity|].
    exists x. simpl. repeat split; auto. apply tkind_eqb_eq. exact Ek.
  - intros H; inversion H; subst. right. repeat split; auto. exists x, r. split; [reflexivity|].
    intros Hk. unfold is_kind in Ek. rewrite Hk, tkind_eqb_refl in Ek. discriminate.
Qed.

Lemma get_loc_ok fl start st l st' : get_loc fl start st = Ok (l, st') ->
  st' = st /\ l = if no_location fl then None else Some (tstart start, last_end st).
Proof. unfold get_loc. intros H; inversion H; auto. Qed.

Lemma parse_name_ok fl st nm st' : parse_name fl st = Ok (nm, st') ->
  exists t, toks st = LT t :: toks st' /\ tk t = KName /\ last_end st' = tend t
            /\ nm = name_node (no_location fl) t.
Proof.
  unfold parse_name. intros H.
  apply pbind_ok in H. destruct H as (t & st1 & He & H).
  apply expect_ok in He. destruct He as (Ht & Hl & Hk).
  apply pbind_ok in H. destruct H as (l & st2 & Hg & H).
  apply get_loc_ok in Hg. destruct Hg as [-> ->].
  apply pret_ok in H. destruct H as [-> ->].
  exists t. repeat split; auto. unfold name_node, mkloc. simpl. rewrite Hl. reflexivity.
Qed.

(* ---- evaluation of the primitives on an explicit stream ---- *)
Lemma peek_eval t r e : peek (PSt (LT t :: r) e) = Ok (t, PSt (LT t :: r) e).
Proof. reflexivity. Qed.

Lemma expect_eval k t r e : tk t = k -> expect k (PSt (LT t :: r) e) = Ok (t, PSt r (tend t)).
Proof.
  intros Hk. unfold expect, pbind, peek, advance. simpl.
  unfold is_kind. rewrite Hk, tkind_eqb_refl. reflexivity.
Qed.

Lemma skip_eval_yes k t r e : tk t = k -> skip k (PSt (LT t :: r) e) = Ok (true, PSt r (tend t)).
Proof.
  intros Hk. unfold skip, pbind, peek, advance, pret. simpl.
  unfold is_kind. rewrite Hk, tkind_eqb_refl. reflexivity.
Qed.

Lemma skip_eval_no k t r e : tk t <> k -> skip k (PSt (LT t :: r) e) = Ok (false, PSt (LT t :: r) e).
Proof.
  intros Hk. unfold skip, pbind, peek, advance, pret. simpl.
  unfold is_kind. destruct (tkind_eqb (tk t) k) eqn:E; [apply tkind_eqb_eq in E; contradiction|reflexivity].
Qed.

Lemma parse_name_eval fl t r e : tk t = KName ->
  parse_name fl (PSt (LT t :: r) e) = Ok (name_node (no_location fl) t, PSt r (tend t)).
Proof.
  intros Hk. unfold parse_name, pbind. rewrite (expect_eval KName t r e Hk).
  unfold get_loc, pret, name_node, mkloc. simpl. reflexivity.
Qed.

Lemma pbind_eval {A B} (p : parser A) (f : A -> parser B) st a st1 :
  p st = Ok (a, st1) -> pbind p f st = f a st1.
Proof. unfold pbind. intros ->. reflexivity. Qed.

Lemma get_loc_eval fl start st :
  get_loc fl start st = Ok (if no_location fl then None else Some (tstart start, last_end st), st).
Proof. reflexivity. Qed.

Ltac pstep tac := erewrite pbind_eval by tac; cbv beta iota.

Lemma parse_named_type_eval fl t r e : tk t = KName ->
  parse_named_type fl (PSt (LT t :: r) e)
  = Ok (TNamed (name_node (no_location fl) t) (mkloc (no_location fl) [t]), PSt r (tend t)).
Proof.
  intros Hk. unfold parse_named_type.
  pstep ltac:(apply peek_eval). pstep ltac:(apply parse_name_eval; exact Hk).
  pstep ltac:(apply get_loc_eval). reflexivity.
Qed.

(* ------------------------------------------------------------------ *)
(* Types *)
Section Types.
Variable fl : flags.
Notation nl := (no_location fl).

Lemma parse_named_type_ok st t st' : parse_named_type fl st = Ok (t, st') ->
  exists x, toks st = LT x :: toks st' /\ tk x = KName /\ last_end st' = tend x
            /\ t = TNamed (name_node nl x) (mkloc nl [x]).
Proof.
  unfold parse_named_type. intros H.
  apply pbind_ok in H. destruct H as (start & st1 & Hp & H).
  apply peek_ok in Hp. destruct Hp as [-> [r Hr]].
  apply pbind_ok in H. destruct H as (nm & st2 & Hn & H).
  apply parse_name_ok in Hn. destruct Hn as (x & Hx & Hk & Hl & ->).
  apply pbind_ok in H. destruct H as (l & st3 & Hg & H).
  apply get_loc_ok in Hg. destruct Hg as [-> ->].
  apply pret_ok in H. destruct H as [-> ->].
  exists x. repeat split; auto.
  rewrite Hr in Hx. inversion Hx; subst. unfold mkloc. simpl. rewrite Hl. reflexivity.
Qed.

Lemma DT_list' o ts c inner l :
  tk o = KBrackO -> tk c = KBrackC -> D_type nl ts inner -> l = mkloc nl (o :: ts ++ [c]) ->
  D_type nl (o :: ts ++ [c]) (TList inner l).
Proof. intros; subst; constructor; assumption. Qed.

Lemma DT_non_null' ts b inner l :
  tk b = KBang -> D_type nl ts inner -> not_non_null inner -> l = mkloc nl (ts ++ [b]) ->
  D_type nl (ts ++ [b]) (TNonNull inner l).
Proof. intros; subst; constructor; assumption. Qed.

Theorem parse_type_sound : forall n st t st',
  parse_type_reference fl n st = Ok (t, st') ->
  exists ts, ts <> [] /\ toks st = map LT ts ++ toks st' /\ D_type nl ts t
             /\ last_end st' = lend ts (last_end st).
Proof.
  induction n as [|n IH]; intros st t st' H; [discriminate|]. simpl in H.
  apply pbind_ok in H. destruct H as (start & st1 & Hp & H).
  apply peek_ok in Hp. destruct Hp as [-> [r Hr]].
  apply pbind_ok in H. destruct H as (b & st2 & Hs & H).
  apply pbind_ok in H. destruct H as (base & st3 & Hb & H).
  (* the part before the optional "!" *)
  assert (Hbase : exists ts, ts <> [] /\ toks st = map LT ts ++ toks st3 /\ D_type nl ts base
                             /\ last_end st3 = lend ts (last_end st) /\ not_non_null base
                             /\ exists r', ts = start :: r').
  { apply skip_ok in Hs. destruct Hs as [(-> & o & Ho & Hko & Hlo)|(-> & -> & _)].
    - apply pbind_ok in Hb. destruct Hb as (inner & st4 & Hi & Hb).
      apply IH in Hi. destruct Hi as (tsi & Hne & Hti & Hdi & Hli).
      apply pbind_ok in Hb. destruct Hb as (c & st5 & Hc & Hb).
      apply expect_ok in Hc. destruct Hc as (Htc & Hlc & Hkc).
      apply pbind_ok in Hb. destruct Hb as (l & st6 & Hg & Hb).
      apply get_loc_ok in Hg. destruct Hg as [-> ->].
      apply pret_ok in Hb. destruct Hb as [-> ->].
      rewrite Hr in Ho. injection Ho as E1 E2. subst o.
      exists (start :: tsi ++ [c]). repeat split.
      + discriminate.
      + rewrite Hr, E2, Hti, Htc. simpl. rewrite map_app, <- app_assoc. reflexivity.
      + apply DT_list'; auto. unfold mkloc. simpl. rewrite last_snoc, Hlc. reflexivity.
      + simpl. rewrite last_snoc. exact Hlc.
      + eauto.
    - apply parse_named_type_ok in Hb. destruct Hb as (x & Hx & Hk & Hl & ->).
      rewrite Hr in Hx. injection Hx as E1 E2. subst x.
      exists [start]. repeat split; try discriminate; auto.
      + rewrite Hr, E2. reflexivity.
      + constructor; assumption.
      + eauto. }
  destruct Hbase as (ts & Hne & Hts & Hd & Hl & Hnn & r' & Hr').
  apply pbind_ok in H. destruct H as (b2 & st4 & Hs2 & H).
  apply skip_ok in Hs2. destruct Hs2 as [(-> & x & Hx & Hkx & Hlx)|(-> & -> & _)].
  - apply pbind_ok in H. destruct H as (l & st5 & Hg & H).
    apply get_loc_ok in Hg. destruct Hg as [-> ->].
    apply pret_ok in H. destruct H as [-> ->].
    exists (ts ++ [x]). repeat split.
    + destruct ts; discriminate.
    + rewrite Hts, Hx, map_app, <- app_assoc. reflexivity.
    + apply DT_non_null'; auto. unfold mkloc. subst ts. simpl. rewrite last_snoc, Hlx. reflexivity.
    + rewrite lend_snoc. exact Hlx.
  - apply pret_ok in H. destruct H as [-> ->].
    exists ts. repeat split; auto.
Qed.

(* completeness: both continuations after the base part *)
Theorem parse_type_complete : forall ts t, D_type nl ts t ->
  forall n x rest e, length ts < n ->
    (not_non_null t -> tk x = KBang ->
       parse_type_reference fl n (PSt (map LT ts ++ LT x :: rest) e)
       = Ok (TNonNull t (mkloc nl (ts ++ [x])), PSt rest (tend x)))
    /\ (tk x <> KBang ->
       parse_type_reference fl n (PSt (map LT ts ++ LT x :: rest) e)
       = Ok (t, PSt (LT x :: rest) (lend ts e))).
Proof.
  induction 1 as [t Hk|o ts c inner Ho Hc Hd IH|ts b inner Hb Hd IH Hnn]; intros n x rest e Hn.
  - (* named *)
    destruct n as [|n]; [simpl in Hn; lia|].
    assert (Hne : tk t <> KBrackO) by (rewrite Hk; discriminate).
    split; [intros _ Hx|intros Hx]; cbn [parse_type_reference map app];
      pstep ltac:(apply peek_eval); pstep ltac:(apply skip_eval_no; exact Hne);
      pstep ltac:(apply parse_named_type_eval; exact Hk).
    + pstep ltac:(apply skip_eval_yes; exact Hx). pstep ltac:(apply get_loc_eval). reflexivity.
    + pstep ltac:(apply skip_eval_no; exact Hx). reflexivity.
  - (* list *)
    destruct n as [|n]; [simpl in Hn; lia|].
    assert (Hcb : tk c <> KBang) by (rewrite Hc; discriminate).
    assert (Hlen : length ts < n) by (simpl in Hn; rewrite app_length in Hn; simpl in Hn; lia).
    destruct (IH n c (LT x :: rest) (tend o) Hlen) as [_ IH2]. specialize (IH2 Hcb).
    assert (Hstream : map LT (o :: ts ++ [c]) ++ LT x :: rest
                      = LT o :: map LT ts ++ LT c :: LT x :: rest).
    { simpl. rewrite map_app, <- app_assoc. reflexivity. }
    rewrite Hstream.
    split; [intros _ Hx|intros Hx]; cbn [parse_type_reference];
      pstep ltac:(apply peek_eval); pstep ltac:(apply skip_eval_yes; exact Ho);
      pstep ltac:(erewrite pbind_eval by exact IH2; cbv beta;
                  erewrite pbind_eval by (apply expect_eval; exact Hc); cbv beta;
                  erewrite pbind_eval by apply get_loc_eval; cbv beta; reflexivity).
    + pstep ltac:(apply skip_eval_yes; exact Hx). pstep ltac:(apply get_loc_eval).
      unfold pret, mkloc. simpl. rewrite !last_snoc.
      replace (last ((ts ++ [c]) ++ [x]) o) with x by (symmetry; apply last_snoc). reflexivity.
    + pstep ltac:(apply skip_eval_no; exact Hx).
      unfold pret, mkloc. simpl. rewrite !last_snoc. reflexivity.
  - (* non-null *)
    split; [intros Hf; contradiction|intros Hx].
    assert (Hlen : length ts < n) by (rewrite app_length in Hn; simpl in Hn; lia).
    destruct (IH n b (LT x :: rest) e Hlen) as [IH1 _]. specialize (IH1 Hnn Hb).
    rewrite map_app, <- app_assoc. simpl. rewrite IH1. rewrite lend_snoc. reflexivity.
Qed.

End Types.

(* ------------------------------------------------------------------ *)
(* Values *)
Inductive Rlist {A} (R : list ptok -> A -> Prop) : list ptok -> list A -> Prop :=
| Rl_nil : Rlist R [] []
| Rl_cons ts x ts' xs : R ts x -> Rlist R ts' xs -> Rlist R (ts ++ ts') (x :: xs).

Definition psound {A} (p : parser A) (R : list ptok -> A -> Prop) : Prop :=
  forall st x st', p st = Ok (x, st') ->
    exists ts, ts <> [] /\ toks st = map LT ts ++ toks st' /\ R ts x
               /\ last_end st' = lend ts (last_end st).

Lemma any_loop_sound {A} (p : parser A) R close : psound p R ->
  forall n st xs st', any_loop n p close st = Ok (xs, st') ->
  exists ts cl, toks st = map LT ts ++ LT cl :: toks st' /\ tk cl = close
                /\ last_end st' = tend cl /\ Rlist R ts xs.
Proof.
  intros Hp. induction n as [|n IH]; intros st xs st' H; [discriminate|]. simpl in H.
  apply pbind_ok in H. destruct H as (b & st1 & Hs & H).
  apply skip_ok in Hs. destruct Hs as [(-> & cl & Hcl & Hk & Hl)|(-> & -> & _)].
  - apply pret_ok in H. destruct H as [-> ->]. exists [], cl. repeat split; auto. constructor.
  - apply pbind_ok in H. destruct H as (x & st2 & Hx & H).
    apply Hp in Hx. destruct Hx as (ts1 & _ & Ht1 & Hr1 & Hl1).
    apply pbind_ok in H. destruct H as (xs' & st3 & Hxs & H).
    apply IH in Hxs. destruct Hxs as (ts2 & cl & Ht2 & Hk & Hl & Hr2).
    apply pret_ok in H. destruct H as [-> ->].
    exists (ts1 ++ ts2), cl. repeat split; auto.
    + rewrite Ht1, Ht2, map_app, <- app_assoc. reflexivity.
    + constructor; assumption.
Qed.

Lemma unexpected_not_ok {A} t pos st (r : A * pst) : unexpected t pos st <> Ok r.
Proof. unfold unexpected. destruct (is_kind KEOF t); discriminate. Qed.

Section Values.
Variable fl : flags.
Notation nl := (no_location fl).

Lemma Rlist_values c ts vs : Rlist (D_value nl c) ts vs -> D_values nl c ts vs.
Proof. induction 1; constructor; assumption. Qed.

Definition R_field (c : bool) (ts : list ptok) (f : name * value * loc) : Prop :=
  exists nm colon vts v, ts = nm :: colon :: vts /\ tk nm = KName /\ tk colon = KColon
    /\ D_value nl c vts v /\ f = (name_node nl nm, v, mkloc nl ts).

Lemma Rlist_fields c ts fs : Rlist (R_field c) ts fs -> D_fields nl c ts fs.
Proof.
  induction 1 as [|ts x ts' xs Hx Hxs IH]; [constructor|].
  destruct Hx as (nm & colon & vts & v & -> & Hn & Hc & Hv & ->).
  simpl. constructor; assumption.
Qed.

Lemma parse_variable_ok st x st' : parse_variable fl st = Ok (x, st') ->
  exists d t, toks st = LT d :: LT t :: toks st' /\ tk d = KDollar /\ tk t = KName
              /\ last_end st' = tend t /\ x = (name_node nl t, mkloc nl [d; t]).
Proof.
  unfold parse_variable. intros H.
  apply pbind_ok in H. destruct H as (start & st1 & Hp & H).
  apply peek_ok in Hp. destruct Hp as [-> [r Hr]].
  apply pbind_ok in H. destruct H as (d & st2 & He & H).
  apply expect_ok in He. destruct He as (Hd & Hld & Hkd).
  apply pbind_ok in H. destruct H as (nm & st3 & Hn & H).
  apply parse_name_ok in Hn. destruct Hn as (t & Ht & Hkt & Hlt & ->).
  apply pbind_ok in H. destruct H as (l & st4 & Hg & H).
  apply get_loc_ok in Hg. destruct Hg as [-> ->].
  apply pret_ok in H. destruct H as [-> ->].
  rewrite Hr in Hd. injection Hd as E1 E2. subst d.
  exists start, t. repeat split; auto.
  - rewrite Hr, E2, Ht. reflexivity.
  - unfold mkloc. simpl. rewrite Hlt. reflexivity.
Qed.

Lemma last_cons2 (a b : ptok) ts e : ts <> [] -> tend (last (b :: ts) a) = lend ts e.
Proof.
  destruct ts as [|v0 vr]; [congruence|]. intros _. simpl.
  destruct vr as [|v1 vr]; [reflexivity|]. f_equal. apply last_default. discriminate.
Qed.

Lemma parse_object_field_sound c pv : psound pv (D_value nl c) ->
  psound (parse_object_field fl pv) (R_field c).
Proof.
  intros Hpv st x st' H. unfold parse_object_field in H.
  apply pbind_ok in H. destruct H as (fstart & st1 & Hp & H).
  apply peek_ok in Hp. destruct Hp as [-> [r Hr]].
  apply pbind_ok in H. destruct H as (nm & st2 & Hn & H).
  apply parse_name_ok in Hn. destruct Hn as (t & Ht & Hkt & Hlt & ->).
  apply pbind_ok in H. destruct H as (colon & st3 & He & H).
  apply expect_ok in He. destruct He as (Hc & Hlc & Hkc).
  apply pbind_ok in H. destruct H as (v & st4 & Hv & H).
  apply Hpv in Hv. destruct Hv as (vts & Hne & Hvt & Hdv & Hlv).
  apply pbind_ok in H. destruct H as (l & st5 & Hg & H).
  apply get_loc_ok in Hg. destruct Hg as [-> ->].
  apply pret_ok in H. destruct H as [-> ->].
  rewrite Hr in Ht. injection Ht as E1 E2. subst t.
  exists (fstart :: colon :: vts). repeat split.
  - discriminate.
  - rewrite Hr, E2, Hc, Hvt. reflexivity.
  - exists fstart, colon, vts, v. repeat split; auto.
    f_equal. unfold mkloc, span_of. rewrite Hlv. rewrite (last_cons2 fstart colon vts (last_end st3) Hne).
    reflexivity.
  - rewrite Hlv. unfold lend at 2. rewrite (last_cons2 fstart colon vts (last_end st3) Hne). reflexivity.
Qed.

Lemma DV_list' c o ts cl vs l :
  tk o = KBrackO -> tk cl = KBrackC -> D_values nl c ts vs -> l = mkloc nl (o :: ts ++ [cl]) ->
  D_value nl c (o :: ts ++ [cl]) (VList vs l).
Proof. intros; subst; constructor; assumption. Qed.

Lemma DV_object' c o ts cl fs l :
  tk o = KCurlyO -> tk cl = KCurlyC -> D_fields nl c ts fs -> l = mkloc nl (o :: ts ++ [cl]) ->
  D_value nl c (o :: ts ++ [cl]) (VObject fs l).
Proof. intros; subst; constructor; assumption. Qed.

Theorem parse_value_sound : forall n c, psound (parse_value_literal fl n c) (D_value nl c).
Proof.
  induction n as [|n IH]; intros c st v st' H; [discriminate|]. simpl in H.
  apply pbind_ok in H. destruct H as (t & st1 & Hp & H).
  apply peek_ok in Hp. destruct Hp as [-> [r Hr]].
  destruct (tk t) eqn:Ek; try (exfalso; exact (unexpected_not_ok _ _ _ _ H)).
  - (* variable *)
    destruct c; [exfalso; exact (unexpected_not_ok _ _ _ _ H)|].
    apply pbind_ok in H. destruct H as (x & st2 & Hv & H).
    apply parse_variable_ok in Hv. destruct Hv as (d & t' & Ht & Hkd & Hkt & Hl & ->).
    apply pret_ok in H. destruct H as [-> ->].
    exists [d; t']. repeat split; try discriminate; auto. simpl. constructor; assumption.
  - (* list *)
    apply pbind_ok in H. destruct H as (vs & st2 & Ha & H). unfold any_ in Ha.
    apply pbind_ok in Ha. destruct Ha as (o & st3 & He & Ha).
    apply expect_ok in He. destruct He as (Ho & Hlo & Hko).
    apply (any_loop_sound _ _ _ (IH c)) in Ha. destruct Ha as (ts & cl & Hts & Hkc & Hlc & Hrl).
    apply pbind_ok in H. destruct H as (l & st4 & Hg & H).
    apply get_loc_ok in Hg. destruct Hg as [-> ->].
    apply pret_ok in H. destruct H as [-> ->].
    rewrite Hr in Ho. injection Ho as E1 E2. subst o.
    exists (t :: ts ++ [cl]). repeat split.
    + discriminate.
    + rewrite Hr, E2, Hts. simpl. rewrite map_app, <- app_assoc. reflexivity.
    + apply DV_list'; auto; [apply Rlist_values; assumption|].
      unfold mkloc; simpl; rewrite last_snoc, Hlc; reflexivity.
    + simpl. rewrite last_snoc. exact Hlc.
  - (* object *)
    apply pbind_ok in H. destruct H as (o & st2 & He & H).
    apply expect_ok in He. destruct He as (Ho & Hlo & Hko).
    apply pbind_ok in H. destruct H as (fs & st3 & Ha & H).
    apply (any_loop_sound _ _ _ (parse_object_field_sound c _ (IH c))) in Ha.
    destruct Ha as (ts & cl & Hts & Hkc & Hlc & Hrl).
    apply pbind_ok in H. destruct H as (l & st4 & Hg & H).
    apply get_loc_ok in Hg. destruct Hg as [-> ->].
    apply pret_ok in H. destruct H as [-> ->].
    rewrite Hr in Ho. injection Ho as E1 E2. subst o.
    exists (t :: ts ++ [cl]). repeat split.
    + discriminate.
    + rewrite Hr, E2, Hts. simpl. rewrite map_app, <- app_assoc. reflexivity.
    + apply DV_object'; auto; [apply Rlist_fields; assumption|].
      unfold mkloc; simpl; rewrite last_snoc, Hlc; reflexivity.
    + simpl. rewrite last_snoc. exact Hlc.
  - (* int *)
    apply pbind_ok in H. destruct H as (t' & st2 & Ha & H).
    apply advance_ok in Ha. destruct Ha as (Ht & Hl).
    apply pbind_ok in H. destruct H as (l & st3 & Hg & H).
    apply get_loc_ok in Hg. destruct Hg as [-> ->].
    apply pret_ok in H. destruct H as [-> ->].
    rewrite Hr in Ht. injection Ht as E1 E2. subst t'.
    exists [t]. repeat split; try discriminate; auto.
    + rewrite Hr, E2. reflexivity.
    + rewrite Hl. apply (DV_int nl c t Ek).
  - (* float *)
    apply pbind_ok in H. destruct H as (t' & st2 & Ha & H).
    apply advance_ok in Ha. destruct Ha as (Ht & Hl).
    apply pbind_ok in H. destruct H as (l & st3 & Hg & H).
    apply get_loc_ok in Hg. destruct Hg as [-> ->].
    apply pret_ok in H. destruct H as [-> ->].
    rewrite Hr in Ht. injection Ht as E1 E2. subst t'.
    exists [t]. repeat split; try discriminate; auto.
    + rewrite Hr, E2. reflexivity.
    + rewrite Hl. apply (DV_float nl c t Ek).
  - (* name *)
    apply pbind_ok in H. destruct H as (t' & st2 & Ha & H).
    apply advance_ok in Ha. destruct Ha as (Ht & Hl).
    apply pbind_ok in H. destruct H as (l & st3 & Hg & H).
    apply get_loc_ok in Hg. destruct Hg as [-> ->].
    rewrite Hr in Ht. injection Ht as E1 E2. subst t'.
    assert (Hres : D_value nl c [t] v /\ st' = st2).
    { unfold is_kw in H. rewrite Hl in H.
      destruct (str_eqb_spec (tval t) (kw "true")) as [E|Nt].
      { apply pret_ok in H. destruct H as [-> ->]. split; [|reflexivity]. apply (DV_true nl c t Ek E). }
      destruct (str_eqb_spec (tval t) (kw "false")) as [E|Nf].
      { apply pret_ok in H. destruct H as [-> ->]. split; [|reflexivity]. apply (DV_false nl c t Ek E). }
      destruct (str_eqb_spec (tval t) (kw "null")) as [E|Nn].
      { apply pret_ok in H. destruct H as [-> ->]. split; [|reflexivity]. apply (DV_null nl c t Ek E). }
      apply pret_ok in H. destruct H as [-> ->]. split; [|reflexivity].
      apply (DV_enum nl c t Ek). unfold is_reserved, kw in *. tauto. }
    destruct Hres as [Hd ->].
    exists [t]. repeat split; try discriminate; auto. rewrite Hr, E2. reflexivity.
  - (* string *)
    apply pbind_ok in H. destruct H as (sv & st2 & Hsl & H). unfold parse_string_literal in Hsl.
    apply pbind_ok in Hsl. destruct Hsl as (t' & st3 & Ha & Hsl).
    apply advance_ok in Ha. destruct Ha as (Ht & Hl).
    apply pbind_ok in Hsl. destruct Hsl as (l & st4 & Hg & Hsl).
    apply get_loc_ok in Hg. destruct Hg as [-> ->].
    apply pret_ok in Hsl. destruct Hsl as [-> ->].
    apply pret_ok in H. destruct H as [-> ->]. simpl.
    rewrite Hr in Ht. injection Ht as E1 E2. subst t'.
    exists [t]. repeat split; try discriminate; auto.
    + rewrite Hr, E2. reflexivity.
    + rewrite Hl. unfold is_kind. rewrite Ek. simpl. apply (DV_string nl c t Ek).
  - (* block string *)
    apply pbind_ok in H. destruct H as (sv & st2 & Hsl & H). unfold parse_string_literal in Hsl.
    apply pbind_ok in Hsl. destruct Hsl as (t' & st3 & Ha & Hsl).
    apply advance_ok in Ha. destruct Ha as (Ht & Hl).
    apply pbind_ok in Hsl. destruct Hsl as (l & st4 & Hg & Hsl).
    apply get_loc_ok in Hg. destruct Hg as [-> ->].
    apply pret_ok in Hsl. destruct Hsl as [-> ->].
    apply pret_ok in H. destruct H as [-> ->]. simpl.
    rewrite Hr in Ht. injection Ht as E1 E2. subst t'.
    exists [t]. repeat split; try discriminate; auto.
    + rewrite Hr, E2. reflexivity.
    + rewrite Hl. unfold is_kind. rewrite Ek. simpl. apply (DV_block_string nl c t Ek).
Qed.

(* ---- completeness ---- *)
Lemma advance_eval t r e : advance (PSt (LT t :: r) e) = Ok (t, PSt r (tend t)).
Proof. reflexivity. Qed.

Lemma parse_variable_eval d t r e : tk d = KDollar -> tk t = KName ->
  parse_variable fl (PSt (LT d :: LT t :: r) e)
  = Ok ((name_node nl t, mkloc nl [d; t]), PSt r (tend t)).
Proof.
  intros Hd Ht. unfold parse_variable.
  pstep ltac:(apply peek_eval). pstep ltac:(apply expect_eval; exact Hd).
  pstep ltac:(apply parse_name_eval; exact Ht). pstep ltac:(apply get_loc_eval). reflexivity.
Qed.

Lemma parse_string_literal_eval t r e :
  parse_string_literal fl (PSt (LT t :: r) e)
  = Ok (StrVal (tval t) (is_kind KBlockString t) (mkloc nl [t]), PSt r (tend t)).
Proof.
  unfold parse_string_literal. pstep ltac:(apply advance_eval). pstep ltac:(apply get_loc_eval). reflexivity.
Qed.

Lemma D_value_head c ts v : D_value nl c ts v ->
  exists t r, ts = t :: r /\ tk t <> KBrackC /\ tk t <> KCurlyC.
Proof.
  intros H; destruct H;
    match goal with
    | |- exists t r, ?x :: ?y = _ /\ _ => exists x, y
    end; (split; [reflexivity|]);
    match goal with
    | Hk : tk ?x = _ |- tk ?x <> _ /\ _ => rewrite Hk; split; discriminate
    end.
Qed.

Lemma skip_no_on_value c ts v k rest e : D_value nl c ts v -> k = KBrackC \/ k = KCurlyC ->
  skip k (PSt (map LT ts ++ rest) e) = Ok (false, PSt (map LT ts ++ rest) e).
Proof.
  intros Hd Hk. destruct (D_value_head _ _ _ Hd) as (t & r & -> & H1 & H2). simpl.
  apply skip_eval_no. destruct Hk as [-> | ->]; assumption.
Qed.

Lemma D_value_nonempty c ts v : D_value nl c ts v -> ts <> [].
Proof. intros Hd. destruct (D_value_head _ _ _ Hd) as (t & r & -> & _). discriminate. Qed.

Lemma is_kw_true x (v : str) : v = str_of_string x -> is_kw x v = true.
Proof. intros ->. apply str_eqb_refl. Qed.

Lemma is_kw_false x (v : str) : v <> str_of_string x -> is_kw x v = false.
Proof. intros H. apply str_eqb_neq. exact H. Qed.

Theorem parse_value_complete_all :
  (forall c ts v, D_value nl c ts v ->
     forall n rest e, length ts < n ->
       parse_value_literal fl n c (PSt (map LT ts ++ rest) e) = Ok (v, PSt rest (lend ts e)))
  /\ (forall c ts vs, D_values nl c ts vs ->
     forall k n cl rest e, length ts < k -> length ts < n -> tk cl = KBrackC ->
       any_loop k (parse_value_literal fl n c) KBrackC (PSt (map LT ts ++ LT cl :: rest) e)
       = Ok (vs, PSt rest (tend cl)))
  /\ (forall c ts fs, D_fields nl c ts fs ->
     forall k n cl rest e, length ts < k -> length ts < n -> tk cl = KCurlyC ->
       any_loop k (parse_object_field fl (parse_value_literal fl n c)) KCurlyC
                (PSt (map LT ts ++ LT cl :: rest) e)
       = Ok (fs, PSt rest (tend cl))).
Proof.
  apply (D_value_mutind nl
    (fun c ts v => forall n rest e, length ts < n ->
       parse_value_literal fl n c (PSt (map LT ts ++ rest) e) = Ok (v, PSt rest (lend ts e)))
    (fun c ts vs => forall k n cl rest e, length ts < k -> length ts < n -> tk cl = KBrackC ->
       any_loop k (parse_value_literal fl n c) KBrackC (PSt (map LT ts ++ LT cl :: rest) e)
       = Ok (vs, PSt rest (tend cl)))
    (fun c ts fs => forall k n cl rest e, length ts < k -> length ts < n -> tk cl = KCurlyC ->
       any_loop k (parse_object_field fl (parse_value_literal fl n c)) KCurlyC
                (PSt (map LT ts ++ LT cl :: rest) e)
       = Ok (fs, PSt rest (tend cl)))).
  - (* variable *)
    intros d t Hd Ht n rest e Hn. destruct n as [|n]; [simpl in Hn; lia|].
    cbn [parse_value_literal map app]. pstep ltac:(apply peek_eval). rewrite Hd. cbv iota.
    pstep ltac:(apply parse_variable_eval; assumption). reflexivity.
  - (* int *)
    intros c t Hk n rest e Hn. destruct n as [|n]; [simpl in Hn; lia|].
    cbn [parse_value_literal map app]. pstep ltac:(apply peek_eval). rewrite Hk. cbv iota.
    pstep ltac:(apply advance_eval). pstep ltac:(apply get_loc_eval). reflexivity.
  - (* float *)
    intros c t Hk n rest e Hn. destruct n as [|n]; [simpl in Hn; lia|].
    cbn [parse_value_literal map app]. pstep ltac:(apply peek_eval). rewrite Hk. cbv iota.
    pstep ltac:(apply advance_eval). pstep ltac:(apply get_loc_eval). reflexivity.
  - (* string *)
    intros c t Hk n rest e Hn. destruct n as [|n]; [simpl in Hn; lia|].
    cbn [parse_value_literal map app]. pstep ltac:(apply peek_eval). rewrite Hk. cbv iota.
    pstep ltac:(apply parse_string_literal_eval). unfold pret. simpl. unfold is_kind. rewrite Hk. reflexivity.
  - (* block string *)
    intros c t Hk n rest e Hn. destruct n as [|n]; [simpl in Hn; lia|].
    cbn [parse_value_literal map app]. pstep ltac:(apply peek_eval). rewrite Hk. cbv iota.
    pstep ltac:(apply parse_string_literal_eval). unfold pret. simpl. unfold is_kind. rewrite Hk. reflexivity.
  - (* true *)
    intros c t Hk Hv n rest e Hn. destruct n as [|n]; [simpl in Hn; lia|].
    cbn [parse_value_literal map app]. pstep ltac:(apply peek_eval). rewrite Hk. cbv iota.
    pstep ltac:(apply advance_eval). pstep ltac:(apply get_loc_eval).
    rewrite (is_kw_true "true" _ Hv). reflexivity.
  - (* false *)
    intros c t Hk Hv n rest e Hn. destruct n as [|n]; [simpl in Hn; lia|].
    cbn [parse_value_literal map app]. pstep ltac:(apply peek_eval). rewrite Hk. cbv iota.
    pstep ltac:(apply advance_eval). pstep ltac:(apply get_loc_eval).
    rewrite (is_kw_false "true"), (is_kw_true "false" _ Hv); [reflexivity|].
    rewrite Hv. discriminate.
  - (* null *)
    intros c t Hk Hv n rest e Hn. destruct n as [|n]; [simpl in Hn; lia|].
    cbn [parse_value_literal map app]. pstep ltac:(apply peek_eval). rewrite Hk. cbv iota.
    pstep ltac:(apply advance_eval). pstep ltac:(apply get_loc_eval).
    rewrite (is_kw_false "true"), (is_kw_false "false"), (is_kw_true "null" _ Hv);
      [reflexivity| |]; rewrite Hv; discriminate.
  - (* enum *)
    intros c t Hk Hv n rest e Hn. destruct n as [|n]; [simpl in Hn; lia|].
    cbn [parse_value_literal map app]. pstep ltac:(apply peek_eval). rewrite Hk. cbv iota.
    pstep ltac:(apply advance_eval). pstep ltac:(apply get_loc_eval).
    unfold is_reserved in Hv.
    rewrite (is_kw_false "true"), (is_kw_false "false"), (is_kw_false "null"); [reflexivity| | |];
      intros E; apply Hv; auto.
  - (* list *)
    intros c o ts cl vs Ho Hc Hd IH n rest e Hn. destruct n as [|n]; [simpl in Hn; lia|].
    assert (Hlen : length ts < n) by (simpl in Hn; rewrite app_length in Hn; simpl in Hn; lia).
    assert (Hstream : map LT (o :: ts ++ [cl]) ++ rest = LT o :: map LT ts ++ LT cl :: rest).
    { simpl. rewrite map_app, <- app_assoc. reflexivity. }
    rewrite Hstream. cbn [parse_value_literal]. pstep ltac:(apply peek_eval). rewrite Ho. cbv iota.
    unfold any_. pstep ltac:(erewrite pbind_eval by (apply expect_eval; exact Ho); apply IH; assumption).
    pstep ltac:(apply get_loc_eval). unfold pret, mkloc. simpl. rewrite !last_snoc. reflexivity.
  - (* object *)
    intros c o ts cl fs Ho Hc Hd IH n rest e Hn. destruct n as [|n]; [simpl in Hn; lia|].
    assert (Hlen : length ts < n) by (simpl in Hn; rewrite app_length in Hn; simpl in Hn; lia).
    assert (Hstream : map LT (o :: ts ++ [cl]) ++ rest = LT o :: map LT ts ++ LT cl :: rest).
    { simpl. rewrite map_app, <- app_assoc. reflexivity. }
    rewrite Hstream. cbn [parse_value_literal]. pstep ltac:(apply peek_eval). rewrite Ho. cbv iota.
    pstep ltac:(apply expect_eval; exact Ho). pstep ltac:(apply IH; assumption).
    pstep ltac:(apply get_loc_eval). unfold pret, mkloc. simpl. rewrite !last_snoc. reflexivity.
  - (* no more values *)
    intros c k n cl rest e Hk _ Hc. destruct k as [|k]; [simpl in Hk; lia|].
    cbn [any_loop map app]. pstep ltac:(apply skip_eval_yes; exact Hc). reflexivity.
  - (* one more value *)
    intros c ts v ts' vs Hv IHv Hvs IHvs k n cl rest e Hk Hn Hc.
    pose proof (D_value_nonempty _ _ _ Hv) as Hne.
    rewrite app_length in Hk, Hn.
    destruct k as [|k]; [lia|]. cbn [any_loop]. rewrite map_app, <- app_assoc.
    pstep ltac:(eapply skip_no_on_value; [exact Hv|left; reflexivity]).
    pstep ltac:(apply IHv; lia).
    pstep ltac:(apply IHvs; [destruct ts; [congruence|simpl in *; lia]|lia|exact Hc]).
    reflexivity.
  - (* no more fields *)
    intros c k n cl rest e Hk _ Hc. destruct k as [|k]; [simpl in Hk; lia|].
    cbn [any_loop map app]. pstep ltac:(apply skip_eval_yes; exact Hc). reflexivity.
  - (* one more field *)
    intros c nm colon ts v ts' fs Hnm Hcol Hv IHv Hfs IHfs k n cl rest e Hk Hn Hc.
    pose proof (D_value_nonempty _ _ _ Hv) as Hne.
    assert (Hstream : map LT (nm :: colon :: ts ++ ts') ++ LT cl :: rest
                      = LT nm :: LT colon :: map LT ts ++ (map LT ts' ++ LT cl :: rest)).
    { simpl. rewrite map_app, <- app_assoc. reflexivity. }
    rewrite Hstream. simpl in Hk, Hn. rewrite app_length in Hk, Hn.
    destruct k as [|k]; [lia|]. cbn [any_loop].
    pstep ltac:(apply skip_eval_no; rewrite Hnm; discriminate).
    unfold parse_object_field at 1.
    pstep ltac:(erewrite pbind_eval by apply peek_eval; cbv beta;
                erewrite pbind_eval by (apply parse_name_eval; exact Hnm); cbv beta;
                erewrite pbind_eval by (apply expect_eval; exact Hcol); cbv beta;
                erewrite pbind_eval by (apply IHv; lia); cbv beta;
                erewrite pbind_eval by apply get_loc_eval; cbv beta; reflexivity).
    pstep ltac:(apply IHfs; [lia|lia|exact Hc]).
    unfold pret, mkloc, span_of. simpl last_end.
    rewrite <- (last_cons2 nm colon ts (tend colon) Hne). reflexivity.
Qed.

End Values.
