(* C02 (1): the model of parse_block_string computes BlockStringValue(). *)
From PyGql Require Import Lang.BlockString Spec.LexSpec.
Local Open Scope N_scope.

(* ---- lines ---- *)
Lemma spec_lines_nonempty raw : spec_lines raw <> [].
Proof.
  induction raw as [|c r IH]; simpl; [discriminate|].
  destruct (c =? 10); [discriminate|].
  destruct (c =? 13).
  - destruct r as [|d r']; [discriminate|]. destruct (d =? 10); [assumption|discriminate].
  - destruct (spec_lines r); discriminate.
Qed.

Lemma split_lines_acc_spec : forall n raw cur, (length raw <= n)%nat ->
  split_lines_acc cur raw =
  match spec_lines raw with l :: ls => (rev cur ++ l) :: ls | [] => [] end.
Proof.
  induction n as [|n IH]; intros raw cur Hn.
  - destruct raw; [|simpl in Hn; lia]. simpl. rewrite app_nil_r. reflexivity.
  - destruct raw as [|c r]; [simpl; rewrite app_nil_r; reflexivity|].
    simpl in Hn. cbn [split_lines_acc spec_lines].
    destruct (N.eqb_spec c 13) as [->|Hc13].
    + replace (13 =? 10) with false by reflexivity.
      destruct r as [|d r'].
      * simpl. rewrite app_nil_r. reflexivity.
      * destruct (N.eqb_spec d 10) as [->|Hd].
        -- rewrite (IH r' []) by (simpl in Hn; lia).
           cbn [spec_lines]. replace (10 =? 10) with true by reflexivity.
           rewrite app_nil_r. f_equal.
           destruct (spec_lines r'); reflexivity.
        -- rewrite (IH (d :: r') []) by lia. rewrite app_nil_r. f_equal.
           destruct (spec_lines (d :: r')); reflexivity.
    + destruct (N.eqb_spec c 10) as [->|Hc10].
      * rewrite (IH r []) by lia. rewrite app_nil_r. f_equal.
        destruct (spec_lines r); reflexivity.
      * rewrite (IH r (c :: cur)) by lia.
        pose proof (spec_lines_nonempty r) as Hne.
        destruct (spec_lines r) as [|l ls]; [congruence|].
        simpl. rewrite <- app_assoc. reflexivity.
Qed.

Lemma split_lines_spec raw : split_lines raw = spec_lines raw.
Proof.
  unfold split_lines. rewrite (split_lines_acc_spec (length raw)) by lia.
  destruct (spec_lines raw); reflexivity.
Qed.

(* ---- indentation ---- *)
Lemma is_ws_whitespace c : is_ws c = is_whitespace c.
Proof. unfold is_ws, is_whitespace. apply orb_comm. Qed.

Lemma lstrip_length l : length l = (leading_ws l + length (lstrip l))%nat.
Proof.
  induction l as [|c r IH]; simpl; [reflexivity|].
  rewrite <- is_ws_whitespace. destruct (is_ws c); simpl; lia.
Qed.

Lemma upd_indent_spec ci line : upd_indent ci line = spec_step ci line.
Proof.
  unfold upd_indent, spec_step. pose proof (lstrip_length line) as H.
  destruct (Nat.eqb_spec (length (lstrip line)) 0) as [E|E].
  - destruct (Nat.ltb_spec (leading_ws line) (length line)); [lia|reflexivity].
  - destruct (Nat.ltb_spec (leading_ws line) (length line)); [|lia].
    replace (length line - length (lstrip line))%nat with (leading_ws line) by lia.
    destruct ci as [m|]; [|reflexivity].
    destruct (Nat.ltb_spec (leading_ws line) m); f_equal; lia.
Qed.

Lemma fold_indent_spec lines init : fold_left upd_indent lines init = fold_left spec_step lines init.
Proof.
  revert init; induction lines as [|l ls IH]; intros init; simpl; [reflexivity|].
  rewrite upd_indent_spec. apply IH.
Qed.

(* ---- blank lines ---- *)
Lemma blank_line_spec l : blank_line l = only_whitespace l.
Proof.
  unfold blank_line, only_whitespace. induction l as [|c r IH]; simpl; [reflexivity|].
  rewrite <- is_ws_whitespace. destruct (is_ws c); simpl; [exact IH|reflexivity].
Qed.

Lemma pop_front_spec lines : pop_blank_front lines = strip_front lines.
Proof.
  induction lines as [|l ls IH]; simpl; [reflexivity|].
  rewrite blank_line_spec. destruct (only_whitespace l); [exact IH|reflexivity].
Qed.

Lemma strip_front_snoc a x :
  strip_front (a ++ [x]) =
  match strip_front a with
  | [] => if only_whitespace x then [] else [x]
  | a' => a' ++ [x]
  end.
Proof.
  induction a as [|y a IH]; simpl; [reflexivity|].
  destruct (only_whitespace y); [exact IH|reflexivity].
Qed.

Lemma strip_back_rev lines : strip_back lines = rev (strip_front (rev lines)).
Proof.
  induction lines as [|l ls IH]; simpl; [reflexivity|].
  rewrite strip_front_snoc. rewrite IH.
  destruct (strip_front (rev ls)) as [|y a'] eqn:E; simpl.
  - destruct (only_whitespace l); reflexivity.
  - rewrite rev_app_distr. simpl.
    destruct (rev a' ++ [y]) eqn:E2; [destruct (rev a'); discriminate|reflexivity].
Qed.

Lemma pop_back_spec lines : pop_blank_back lines = strip_back lines.
Proof.
  unfold pop_blank_back. rewrite strip_back_rev, pop_front_spec. reflexivity.
Qed.

(* ---- join ---- *)
Lemma join_fold rest : forall first,
  fold_left (fun formatted line => formatted ++ 10 :: line) rest first
  = first ++ flat_map (fun x => 10 :: x) rest.
Proof.
  induction rest as [|x rest IH]; intros first; simpl; [rewrite app_nil_r; reflexivity|].
  rewrite IH. rewrite <- app_assoc. reflexivity.
Qed.

Lemma join_lf_spec lines : join_lf lines = spec_join lines.
Proof. destruct lines as [|l ls]; simpl; [reflexivity|]. rewrite join_fold. reflexivity. Qed.

(* ---- the whole algorithm ---- *)
Theorem block_string_model_correct raw : block_string_model raw = block_string_value raw.
Proof.
  unfold block_string_model, block_string_value.
  rewrite join_lf_spec, pop_back_spec, pop_front_spec, split_lines_spec.
  f_equal. f_equal. f_equal.
  unfold spec_dedent, spec_common_indent, common_indent.
  destruct (spec_lines raw) as [|first rest]; simpl; [reflexivity|].
  rewrite fold_indent_spec. destruct (fold_left spec_step rest None); reflexivity.
Qed.
