(* Proofs for C13: covariance, resolver signatures, the memo machine, order
   independence. *)
From PyGql Require Import Schema.SchemaFull Schema.SchemaValidateModel Spec.SchemaValidSpec Proofs.SchemaFullLemmas.
From Coq Require Import Permutation.

(* ------------------------------------------------------------ subtype *)
Lemma ty_eqb_eq a b : ty_eqb a b = true <-> a = b.
Proof.
  revert b; induction a as [x|a IH|a IH]; intros [y|b|b]; simpl; try (split; [discriminate|congruence]).
  - rewrite str_eqb_eq. split; congruence.
  - rewrite IH. split; congruence.
  - rewrite IH. split; congruence.
Qed.

Lemma ty_eqb_refl a : ty_eqb a a = true.
Proof. apply ty_eqb_eq; reflexivity. Qed.

Lemma possible_spec ts b a : possible ts b a = true <-> possible_type ts b a.
Proof.
  unfold possible, possible_type. split.
  - destruct (find_type ts a) as [ot|] eqn:Eo; [|discriminate].
    destruct (t_body ot) as [|ifaces fs dr| | | |] eqn:Eb; try discriminate.
    destruct (find_type ts b) as [at_|] eqn:Ea; [|discriminate].
    intros H. exists ot, ifaces, fs, dr, at_. repeat split; try assumption.
    destruct (t_body at_) as [| |ifs|ms| |] eqn:Et; try discriminate.
    + right. exists ifs. split; [reflexivity|]. apply mem_str_In; exact H.
    + left. exists ms. split; [reflexivity|]. apply mem_str_In; exact H.
  - intros (ot & ifaces & fs & dr & at_ & Ho & Hb & Ha & H).
    rewrite Ho, Hb, Ha. destruct H as [(ms & -> & Hin)|(ifs & -> & Hin)]; apply mem_str_In; exact Hin.
Qed.

Lemma is_subtype_unfold ts t u :
  is_subtype_model ts t u =
  if ty_eqb t u then true else
  match t with
  | TyList a => match u with TyList b => is_subtype_model ts a b | _ => false end
  | TyNonNull a =>
      match u with
      | TyNonNull b => is_subtype_model ts a b
      | _ => is_subtype_model ts a u
      end
  | TyNamed a => match u with TyNamed b => possible ts b a | _ => false end
  end.
Proof. destruct t; reflexivity. Qed.

Lemma is_subtype_sound ts : forall t u, is_subtype_model ts t u = true -> subtype ts t u.
Proof.
  induction t as [a|a IH|a IH]; intros u; rewrite is_subtype_unfold;
    destruct (ty_eqb _ u) eqn:E; try (apply ty_eqb_eq in E; subst; intros _; apply sub_refl).
  - destruct u as [b| |]; try discriminate. intros H. apply sub_possible. apply possible_spec; exact H.
  - destruct u as [|b|]; try discriminate. intros H. apply sub_list. apply IH; exact H.
  - destruct u as [b|b|b]; intros H.
    + apply sub_non_null_left. apply IH; exact H.
    + apply sub_non_null_left. apply IH; exact H.
    + apply sub_non_null. apply IH; exact H.
Qed.

Lemma is_subtype_complete ts : forall t u, subtype ts t u -> wf_ty t -> is_subtype_model ts t u = true.
Proof.
  intros t u H. induction H as [t|t u H IH|t u H IH|t u H IH|a b H]; intros Hw;
    rewrite is_subtype_unfold.
  - rewrite ty_eqb_refl; reflexivity.
  - destruct (ty_eqb (TyNonNull t) u); [reflexivity|].
    simpl in Hw. destruct Hw as [Hnn Hw]. specialize (IH Hw).
    destruct u as [b|b|b]; try exact IH.
    (* u = TyNonNull b, t is not NonNull: the premise t <: b! is impossible unless equal *)
    rewrite is_subtype_unfold in IH.
    destruct t as [x|x|x]; [| |contradiction]; simpl in IH; discriminate.
  - destruct (ty_eqb (TyList t) (TyList u)); [reflexivity|]. apply IH; exact Hw.
  - destruct (ty_eqb (TyNonNull t) (TyNonNull u)); [reflexivity|]. apply IH; apply Hw.
  - destruct (ty_eqb (TyNamed a) (TyNamed b)); [reflexivity|]. apply possible_spec; exact H.
Qed.

Theorem subtype_iff ts t u : wf_ty t -> (is_subtype_model ts t u = true <-> subtype ts t u).
Proof. intros Hw; split; [apply is_subtype_sound|intros H; apply is_subtype_complete; assumption]. Qed.

(* ------------------------------------------------------------ memo *)
Definition fresh_verdict (s : schema) : step_result :=
  match validate_model s with [] => RAccepted | e => RInvalid e end.

Definition memo_ok (st : mstate) : Prop :=
  m_memo st = true -> validate_model (m_schema st) = [].

(* the states in which each operation of a history runs, with its result *)
Fixpoint trace (st : mstate) (ops : list op) : list (mstate * op * step_result) :=
  match ops with
  | [] => []
  | o :: ops' => let '(r, st') := step st o in (st, o, r) :: trace st' ops'
  end.

Lemma default_preserves st tn sg a b r st' :
  memo_ok st -> do_register_default st tn sg a b = (r, st') -> memo_ok st'.
Proof.
  unfold do_register_default, memo_ok. intros Hm H.
  destruct (mem_str tn (m_defs st) && negb b); [inversion H; subst; exact Hm|].
  destruct (find_type _ tn) as [t|]; [|inversion H; subst; exact Hm].
  destruct (t_body t) as [|ifs fs dr| | | |]; try (inversion H; subst; exact Hm).
  destruct dr; [destruct (negb a)|]; inversion H; subst; simpl; try exact Hm; discriminate.
Qed.

Lemma step_preserves st o r st' : memo_ok st -> step st o = (r, st') -> memo_ok st'.
Proof.
  intros Hm H. destruct o as [|rv|tn fn sg allow|tn sg allow|tn fn allow|sg]; simpl in H.
  - destruct (m_memo st) eqn:Em; [inversion H; subst; exact Hm|].
    destruct (validate_model (m_schema st)) eqn:Ev; inversion H; subst; unfold memo_ok; simpl; auto.
  - destruct (if rv then _ else _); inversion H; subst; exact Hm.
  - destruct (str_eqb fn _).
    + destruct (do_register_default st tn sg false false) as [r0 st0] eqn:Ed.
      apply default_preserves in Ed; [|exact Hm].
      destruct r0; inversion H; subst; exact Ed.
    + destruct (pair_mem (tn, fn) (m_reg st) && negb allow); [inversion H; subst; exact Hm|].
      destruct (find_type _ tn) as [t|]; [|inversion H; subst; exact Hm].
      destruct (t_body t) as [|ifs fs dr| | | |]; try (inversion H; subst; exact Hm).
      destruct (find_last _ fs) as [f|]; [|inversion H; subst; exact Hm].
      destruct (match f_resolver f with Some r1 => negb allow && negb (sig_eqb r1 sg) | None => false end);
        inversion H; subst; unfold memo_ok; simpl; try exact Hm; discriminate.
  - eapply default_preserves; eassumption.
  - destruct (pair_mem (tn, fn) (m_subs st) && negb allow); [inversion H; subst; exact Hm|].
    destruct (find_type _ tn) as [t|]; [|inversion H; subst; exact Hm].
    destruct (t_body t) as [|ifs fs dr| | | |]; try (inversion H; subst; exact Hm).
    destruct (find_last _ fs); inversion H; subst; unfold memo_ok; simpl; try exact Hm; discriminate.
  - inversion H; subst. unfold memo_ok. simpl. discriminate.
Qed.

Lemma validate_fresh st r st' :
  memo_ok st -> step st OpValidate = (r, st') -> r = fresh_verdict (m_schema st).
Proof.
  unfold memo_ok, fresh_verdict. simpl. intros Hm H.
  destruct (m_memo st).
  - rewrite (Hm eq_refl). inversion H; reflexivity.
  - destruct (validate_model (m_schema st)); inversion H; reflexivity.
Qed.

Theorem memo_recomputed : forall ops st, memo_ok st ->
  forall st1 r, In (st1, OpValidate, r) (trace st ops) -> r = fresh_verdict (m_schema st1).
Proof.
  induction ops as [|o ops IH]; intros st Hm st1 r Hin; [destruct Hin|].
  simpl in Hin. destruct (step st o) as [r0 st'] eqn:Es.
  destruct Hin as [He|Hin].
  - inversion He; subst. eapply validate_fresh; eassumption.
  - eapply IH; [|exact Hin]. eapply step_preserves; eassumption.
Qed.

(* direct validate_schema calls: the fresh verdict for the requested rule set *)
Definition direct_verdict (rv : bool) (s : schema) : step_result :=
  match (if rv then validate_model s else validate_structural s) with [] => RAccepted | e => RInvalid e end.

Theorem direct_fresh : forall ops st st1 rv r,
  In (st1, OpValidateSchema rv, r) (trace st ops) -> r = direct_verdict rv (m_schema st1).
Proof.
  induction ops as [|o ops IH]; intros st st1 rv r Hin; [destruct Hin|].
  simpl in Hin. destruct (step st o) as [r0 st'] eqn:Es. destruct Hin as [He|Hin].
  - inversion He; subst. simpl in Es. unfold direct_verdict.
    destruct (if rv then _ else _); inversion Es; reflexivity.
  - eapply IH; exact Hin.
Qed.

Lemma initial_memo_ok s : memo_ok (initial s).
Proof. unfold memo_ok; simpl; discriminate. Qed.

(* ------------------------------------------------------------ resolver signatures *)
Lemma kind_cases p :
  (variadic p = true) \/ (p_kind p = PosOnly) \/ (by_keyword p = true /\ variadic p = false /\ p_kind p <> PosOnly).
Proof. unfold variadic, by_keyword. destruct (p_kind p); auto; right; right; repeat split; congruence. Qed.

Lemma firstn_In {A} n (l : list A) x : In x (firstn n l) -> In x l.
Proof. intros H. rewrite <- (firstn_skipn n l). apply in_or_app; left; exact H. Qed.

Lemma head_incl sg p : In p (head_params sg) -> In p sg /\ positional p = true.
Proof.
  unfold head_params. intros H. apply firstn_In in H. apply filter_In in H. exact H.
Qed.

Lemma head_length sg : (length (head_params sg) <? 3) = negb (3 <=? length (filter positional sg)).
Proof.
  unfold head_params. rewrite firstn_length.
  change (filter is_positional sg) with (filter positional sg).
  destruct (Nat.leb_spec 3 (length (filter positional sg))) as [H|H]; unfold negb;
    [apply Nat.ltb_ge|apply Nat.ltb_lt]; lia.
Qed.

Lemma mem_map_pyname k args :
  mem_str k (map a_pyname args) = true <-> exists a, In a args /\ a_pyname a = k.
Proof.
  rewrite mem_str_In, in_map_iff. split; intros (a & H1 & H2); exists a; auto.
Qed.

Lemma existsb_false {A} (f : A -> bool) l : existsb f l = false -> forall x, In x l -> f x = false.
Proof.
  intros H x Hx. destruct (f x) eqn:E; [|reflexivity].
  assert (existsb f l = true) by (apply existsb_exists; exists x; auto). congruence.
Qed.

Section Signature.
  Variable path : list str.
  Variable sg : rsig.
  Variable args : list arg_def.
  Hypothesis sg_names : NoDup (map p_name sg).       (* a Python signature *)

  Let names := map a_pyname args.

  Definition arg_clause (a : arg_def) : list verr :=
    match find_param sg (a_pyname a) with
    | None => if has_var_kw sg then [] else [err LResMissing (path ++ [a_name a])]
    | Some p =>
        if is_var p then
          (if has_var_kw sg then [] else [err LResMissing (path ++ [a_name a])])
        else if pkind_eqb (p_kind p) PosOnly then [err LResPosOnly (path ++ [a_name a])]
        else if negb (p_default p) && negb (arg_always a)
             then [err LResNeedsDefault (path ++ [a_name a])]
             else []
    end.

  Definition head_clause : bool :=
    existsb (fun p => mem_str (p_name p) names) (head_params sg)
    || (negb (has_var_pos sg) && (length (head_params sg) <? 3)).

  Definition param_clause (p : param) : bool :=
    is_var p || mem_str (p_name p) (map p_name (head_params sg)) || mem_str (p_name p) names
    || p_default p.

  Lemma resolver_errors_nil :
    resolver_errors path sg args = [] <->
    (forall a, In a args -> arg_clause a = []) /\ head_clause = false
    /\ (forall p, In p sg -> param_clause p = true).
  Proof.
    unfold resolver_errors. fold names. split.
    - intros H. apply app_eq_nil in H. destruct H as [H1 H]. apply app_eq_nil in H. destruct H as [H2 H3].
      split; [|split].
      + intros a Ha. exact (flat_map_nil_inv _ _ H1 a Ha).
      + fold head_clause in H2. destruct head_clause; [discriminate|reflexivity].
      + intros p Hp. pose proof (flat_map_nil_inv _ _ H3 p Hp) as Hc. simpl in Hc.
        fold (param_clause p) in Hc. destruct (param_clause p); [reflexivity|discriminate].
    - intros (H1 & H2 & H3).
      rewrite (flat_map_nil _ args) by exact H1.
      fold head_clause. rewrite H2. simpl.
      apply flat_map_nil. intros p Hp. fold (param_clause p). rewrite (H3 p Hp). reflexivity.
  Qed.

  Lemma find_param_iff k p : find_param sg k = Some p <-> In p sg /\ p_name p = k.
  Proof. unfold find_param. apply find_name_iff. exact sg_names. Qed.

  Lemma find_param_none k : find_param sg k = None -> forall p, In p sg -> p_name p <> k.
  Proof.
    unfold find_param. intros H p Hp He. apply find_name_none in H. apply H.
    rewrite <- He. apply in_map; exact Hp.
  Qed.

  Lemma same_name_same_param p q : In p sg -> In q sg -> p_name p = p_name q -> p = q.
  Proof.
    intros Hp Hq He.
    assert (H1 : find_param sg (p_name p) = Some p) by (apply find_param_iff; auto).
    assert (H2 : find_param sg (p_name p) = Some q) by (apply find_param_iff; auto).
    congruence.
  Qed.

  (* accepted => every allowed call binds, and no positional-only clash *)
  Lemma accepted_sound : resolver_errors path sg args = [] -> sig_ok sg args.
  Proof.
    intros E. apply resolver_errors_nil in E. destruct E as (E1 & E2 & E3).
    unfold head_clause in E2. apply orb_false_iff in E2. destruct E2 as [E2a E2b].
    split.
    - intros K [HK1 HK2]. unfold binds.
      change (firstn 3 (filter positional sg)) with (head_params sg).
      repeat (apply andb_true_iff; split).
      + change (has_kind VarPos sg) with (has_var_pos sg).
        rewrite head_length in E2b. destruct (has_var_pos sg); [reflexivity|]. simpl in *.
        apply negb_false_iff in E2b. exact E2b.
      + apply forallb_forall. intros p Hp. apply negb_true_iff.
        destruct (by_keyword p && mem_str (p_name p) K) eqn:Eb; [|reflexivity].
        apply andb_true_iff in Eb. destruct Eb as [_ Hm]. apply mem_str_In in Hm. apply HK1 in Hm.
        pose proof (existsb_false _ _ E2a p Hp) as Hf. simpl in Hf.
        apply mem_str_In in Hm. fold names in Hm. congruence.
      + apply forallb_forall. intros k Hk. pose proof (HK1 k Hk) as Hn.
        apply in_map_iff in Hn. destruct Hn as (a & Ha & Hin).
        pose proof (E1 a Hin) as Hc. unfold arg_clause in Hc. rewrite Ha in Hc.
        change (has_kind VarKw sg) with (has_var_kw sg).
        destruct (find_param sg k) as [p|] eqn:Ef.
        * apply find_param_iff in Ef. destruct Ef as [Hp Hpn].
          change (is_var p) with (variadic p) in Hc.
          destruct (kind_cases p) as [Hv|[Hpo|(Hb & Hv & _)]].
          -- rewrite Hv in Hc. destruct (has_var_kw sg); [apply orb_true_r|discriminate].
          -- assert (variadic p = false) as Hv by (unfold variadic; rewrite Hpo; reflexivity).
             rewrite Hv, Hpo in Hc. simpl in Hc. discriminate.
          -- apply orb_true_iff. left. apply existsb_exists. exists p. split; [exact Hp|].
             rewrite <- Hpn, str_eqb_refl, Hb. reflexivity.
        * destruct (has_var_kw sg); [apply orb_true_r|discriminate].
      + apply forallb_forall. intros p Hp. pose proof (E3 p Hp) as Hc. unfold param_clause in Hc.
        change (is_var p) with (variadic p) in Hc.
        destruct (variadic p) eqn:Hv; [reflexivity|].
        destruct (mem_str (p_name p) (map p_name (head_params sg))) eqn:Hh; [reflexivity|].
        destruct (p_default p) eqn:Hd; [simpl; reflexivity|]. simpl in *.
        rewrite orb_false_r in Hc. apply mem_map_pyname in Hc. destruct Hc as (a & Hin & Ha).
        pose proof (E1 a Hin) as Hc. unfold arg_clause in Hc.
        assert (Ef : find_param sg (a_pyname a) = Some p) by (apply find_param_iff; auto).
        rewrite Ef in Hc. change (is_var p) with (variadic p) in Hc. rewrite Hv in Hc.
        destruct (kind_cases p) as [Hv'|[Hpo|(Hb & _ & Hnpo)]]; [congruence| |].
        * rewrite Hpo in Hc; simpl in Hc; discriminate.
        * destruct (pkind_eqb (p_kind p) PosOnly) eqn:Ek.
          { exfalso. apply Hnpo. destruct (p_kind p); simpl in Ek; congruence. }
          rewrite Hd in Hc. simpl in Hc.
          destruct (arg_always a) eqn:Eal; [|discriminate].
          rewrite Hb. simpl. apply mem_str_In. rewrite <- Ha. apply HK2; assumption.
    - intros a p Hin Hp Hn Hpo.
      pose proof (E1 a Hin) as Hc. unfold arg_clause in Hc.
      assert (Ef : find_param sg (a_pyname a) = Some p) by (apply find_param_iff; auto).
      rewrite Ef in Hc. unfold is_var in Hc. rewrite Hpo in Hc. simpl in Hc. discriminate.
  Qed.

  Hypothesis arg_names : NoDup (map a_pyname args).   (* keys of the kwargs dict are the arguments *)

  Definition K_all : list str := names.
  Definition K_min : list str := map a_pyname (filter arg_always args).

  Lemma K_all_allowed : allowed_call args K_all.
  Proof. split; [auto|]. intros a Ha _. unfold K_all, names. apply in_map; exact Ha. Qed.

  Lemma K_min_allowed : allowed_call args K_min.
  Proof.
    split.
    - intros k Hk. unfold K_min in Hk. apply in_map_iff in Hk. destruct Hk as (a & <- & Ha).
      apply filter_In in Ha. apply in_map; tauto.
    - intros a Ha Hal. unfold K_min. apply in_map. apply filter_In. split; assumption.
  Qed.

  Lemma K_min_In a : In a args -> In (a_pyname a) K_min -> arg_always a = true.
  Proof.
    intros Ha Hk. unfold K_min in Hk. apply in_map_iff in Hk. destruct Hk as (b & Hn & Hb).
    apply filter_In in Hb. destruct Hb as [Hb Hal].
    assert (b = a).
    { clear Hal. revert arg_names Ha Hb Hn. clear. induction args as [|x l IH]; simpl; intros Hnd Ha Hb Hn; [tauto|].
      inversion Hnd as [|? ? Hx Hnd']; subst.
      destruct Ha as [->|Ha], Hb as [->|Hb]; auto.
      - exfalso. apply Hx. rewrite <- Hn. apply in_map; exact Hb.
      - exfalso. apply Hx. rewrite Hn. apply in_map; exact Ha. }
    subst; exact Hal.
  Qed.

  Ltac binds_parts H K :=
    let B := fresh "B" in
    pose proof (H K) as B; unfold binds in B;
    change (firstn 3 (filter positional sg)) with (head_params sg) in B.

  (* every allowed call binds (+ the positional-only rule) => accepted *)
  Lemma accepted_complete : sig_ok sg args -> resolver_errors path sg args = [].
  Proof.
    intros [Hb Hpo]. apply resolver_errors_nil.
    pose proof (Hb K_all K_all_allowed) as Ball. pose proof (Hb K_min K_min_allowed) as Bmin.
    unfold binds in Ball, Bmin.
    change (firstn 3 (filter positional sg)) with (head_params sg) in Ball, Bmin.
    apply andb_true_iff in Ball. destruct Ball as [Ball A4].
    apply andb_true_iff in Ball. destruct Ball as [Ball A3].
    apply andb_true_iff in Ball. destruct Ball as [A1 A2].
    apply andb_true_iff in Bmin. destruct Bmin as [_ M4].
    rewrite forallb_forall in A2, A3, A4, M4.
    change (has_kind VarKw sg) with (has_var_kw sg) in A3.
    change (has_kind VarPos sg) with (has_var_pos sg) in A1.
    assert (Hall : forall a, In a args -> In (a_pyname a) K_all)
      by (intros a Ha; unfold K_all, names; apply in_map; exact Ha).
    split; [|split].
    - intros a Ha. unfold arg_clause. pose proof (A3 _ (Hall a Ha)) as H3.
      destruct (find_param sg (a_pyname a)) as [p|] eqn:Ef.
      + apply find_param_iff in Ef. destruct Ef as [Hp Hpn].
        change (is_var p) with (variadic p).
        destruct (kind_cases p) as [Hv|[Hk|(Hbk & Hv & Hnpo)]].
        * rewrite Hv. destruct (has_var_kw sg); [reflexivity|]. exfalso.
          rewrite orb_false_r in H3. apply existsb_exists in H3. destruct H3 as (q & Hq & Hqq).
          apply andb_true_iff in Hqq. destruct Hqq as [Hqn Hqb]. apply str_eqb_eq in Hqn.
          assert (q = p) by (apply same_name_same_param; congruence). subst q.
          unfold variadic, by_keyword in *. destruct (p_kind p); discriminate.
        * exfalso. exact (Hpo a p Ha Hp Hpn Hk).
        * rewrite Hv. destruct (pkind_eqb (p_kind p) PosOnly) eqn:Ek.
          { exfalso. apply Hnpo. destruct (p_kind p); simpl in Ek; congruence. }
          destruct (p_default p) eqn:Hd; [reflexivity|].
          destruct (arg_always a) eqn:Hal; [reflexivity|]. exfalso. simpl.
          destruct (mem_str (p_name p) (map p_name (head_params sg))) eqn:Hh.
          -- (* filled positionally and passed by keyword in K_all *)
             apply mem_str_In in Hh. apply in_map_iff in Hh. destruct Hh as (q & Hqn & Hq).
             pose proof (head_incl _ _ Hq) as [Hqs _].
             assert (q = p) by (apply same_name_same_param; auto). subst q.
             pose proof (A2 p Hq) as H2. rewrite Hbk in H2. simpl in H2.
             apply negb_true_iff in H2. rewrite Hpn in H2.
             assert (mem_str (a_pyname a) K_all = true) by (apply mem_str_In; auto). congruence.
          -- (* missing when the optional argument is left out *)
             pose proof (M4 p Hp) as H4. rewrite Hv, Hh, Hd, Hbk in H4. simpl in H4.
             apply mem_str_In in H4. rewrite Hpn in H4. apply K_min_In in H4; [congruence|exact Ha].
      + destruct (has_var_kw sg); [reflexivity|]. exfalso.
        rewrite orb_false_r in H3. apply existsb_exists in H3. destruct H3 as (q & Hq & Hqq).
        apply andb_true_iff in Hqq. destruct Hqq as [Hqn _]. apply str_eqb_eq in Hqn.
        exact (find_param_none _ Ef q Hq (eq_sym Hqn)).
    - unfold head_clause. apply orb_false_iff. split.
      + destruct (existsb (fun p => mem_str (p_name p) names) (head_params sg)) eqn:Ee; [|reflexivity].
        exfalso. apply existsb_exists in Ee. destruct Ee as (p & Hp & Hm).
        pose proof (head_incl _ _ Hp) as [Hps Hpos].
        apply mem_map_pyname in Hm. destruct Hm as (a & Ha & Han).
        destruct (p_kind p) eqn:Ek; unfold positional in Hpos; rewrite Ek in Hpos; try discriminate.
        * exact (Hpo a p Ha Hps (eq_sym Han) Ek).
        * pose proof (A2 p Hp) as H2. unfold by_keyword in H2. rewrite Ek in H2. simpl in H2.
          apply negb_true_iff in H2. rewrite <- Han in H2.
          assert (mem_str (a_pyname a) K_all = true) by (apply mem_str_In; auto). congruence.
      + rewrite head_length. destruct (has_var_pos sg); [reflexivity|]. simpl in *. rewrite A1. reflexivity.
    - intros p Hp. unfold param_clause. pose proof (A4 p Hp) as H4.
      change (is_var p) with (variadic p).
      destruct (variadic p); [reflexivity|].
      destruct (mem_str (p_name p) (map p_name (head_params sg))); [reflexivity|].
      destruct (p_default p); [apply orb_true_r|]. simpl in *. rewrite orb_false_r.
      apply andb_true_iff in H4. destruct H4 as [_ H4]. exact H4.
  Qed.

  Theorem signature_iff : resolver_errors path sg args = [] <-> sig_ok sg args.
  Proof. split; [apply accepted_sound|apply accepted_complete]. Qed.
End Signature.

(* ------------------------------------------------------------ order of types *)
Lemma loop_seen_ext {A} (name : A -> str) pre dup body pre' dup' body' :
  (forall x, pre x = pre' x) -> (forall x, dup x = dup' x) -> (forall x, body x = body' x) ->
  forall l seen, loop_seen name pre dup body seen l = loop_seen name pre' dup' body' seen l.
Proof.
  intros H1 H2 H3. induction l as [|x l IH]; intros seen; simpl; [reflexivity|].
  rewrite H1, H2, H3, !IH. reflexivity.
Qed.

Section LookupExt.
  Variables ts ts' : list type_def.
  Hypothesis Hf : forall k, find_type ts k = find_type ts' k.

  Lemma kind_of_ext k : kind_of ts k = kind_of ts' k.
  Proof. unfold kind_of. rewrite Hf. reflexivity. Qed.

  Lemma is_input_ext t : is_input_ty ts t = is_input_ty ts' t.
  Proof. unfold is_input_ty. rewrite kind_of_ext. reflexivity. Qed.

  Lemma is_output_ext t : is_output_ty ts t = is_output_ty ts' t.
  Proof. unfold is_output_ty. rewrite kind_of_ext. reflexivity. Qed.

  Lemma is_object_ext n : is_object_name ts n = is_object_name ts' n.
  Proof. unfold is_object_name. rewrite kind_of_ext. reflexivity. Qed.

  Lemma possible_ext a b : possible ts a b = possible ts' a b.
  Proof. unfold possible. rewrite !Hf. reflexivity. Qed.

  Lemma is_subtype_ext : forall t u, is_subtype_model ts t u = is_subtype_model ts' t u.
  Proof.
    induction t as [a|a IH|a IH]; intros u.
    - rewrite (is_subtype_unfold ts (TyNamed a)), (is_subtype_unfold ts' (TyNamed a)).
      destruct (ty_eqb _ u); try reflexivity. destruct u; try reflexivity. apply possible_ext.
    - rewrite (is_subtype_unfold ts (TyList a)), (is_subtype_unfold ts' (TyList a)).
      destruct (ty_eqb _ u); try reflexivity. destruct u; try reflexivity. apply IH.
    - rewrite (is_subtype_unfold ts (TyNonNull a)), (is_subtype_unfold ts' (TyNonNull a)).
      destruct (ty_eqb _ u); try reflexivity. destruct u; apply IH.
  Qed.

  Lemma validate_args_ext path args : validate_args ts path args = validate_args ts' path args.
  Proof.
    unfold validate_args. apply loop_seen_ext; intros a; try reflexivity.
    rewrite is_input_ext. reflexivity.
  Qed.

  Lemma validate_implementation_ext tn ofs i ifs :
    validate_implementation ts tn ofs i ifs = validate_implementation ts' tn ofs i ifs.
  Proof.
    unfold validate_implementation. apply flat_map_ext. intros f.
    destruct (find_last _ ofs); [|reflexivity]. rewrite is_subtype_ext. reflexivity.
  Qed.

  Lemma validate_interfaces_ext tn ofs ifaces :
    validate_interfaces ts tn ofs ifaces = validate_interfaces ts' tn ofs ifaces.
  Proof.
    unfold validate_interfaces. generalize (@nil str) as seen.
    induction ifaces as [|i l IH]; intros seen; [reflexivity|].
    simpl. rewrite <- Hf. destruct (find_type ts i) as [it|]; [|f_equal; apply IH].
    destruct (t_body it); try (f_equal; apply IH).
    destruct (mem_str i seen); [f_equal; apply IH|].
    rewrite validate_implementation_ext. f_equal. apply IH.
  Qed.

  Lemma validate_union_ext tn ms : validate_union_members ts tn ms = validate_union_members ts' tn ms.
  Proof.
    unfold validate_union_members. f_equal. generalize (@nil str) as seen.
    induction ms as [|m l IH]; intros seen; [reflexivity|].
    simpl. rewrite is_object_ext. destruct (is_object_name ts' m); simpl; f_equal; apply IH.
  Qed.

  Lemma validate_input_ext tn fs : validate_input_fields ts tn fs = validate_input_fields ts' tn fs.
  Proof.
    unfold validate_input_fields. f_equal. apply loop_seen_ext; intros a; try reflexivity.
    rewrite is_input_ext. reflexivity.
  Qed.

  Lemma validate_directives_ext ds : validate_directives ts ds = validate_directives ts' ds.
  Proof.
    unfold validate_directives. apply flat_map_ext. intros d. f_equal.
    apply loop_seen_ext; intros a; try reflexivity. rewrite is_input_ext. reflexivity.
  Qed.
End LookupExt.

Section SchemaExt.
  Variables s s' : schema.
  Hypothesis Hf : forall k, find_type (s_types s) k = find_type (s_types s') k.
  Hypothesis Hd : s_default_resolver s = s_default_resolver s'.

  Lemma validate_fields_ext tn dr fs : validate_fields s tn dr fs = validate_fields s' tn dr fs.
  Proof.
    unfold validate_fields. f_equal. apply loop_seen_ext; intros f; try reflexivity.
    rewrite (is_output_ext _ _ Hf), (validate_args_ext _ _ Hf), Hd. reflexivity.
  Qed.

  Lemma validate_type_ext t : validate_type s t = validate_type s' t.
  Proof.
    unfold validate_type. destruct (negb _); [reflexivity|].
    destruct (t_body t).
    - reflexivity.
    - rewrite validate_fields_ext, (validate_interfaces_ext _ _ Hf). reflexivity.
    - apply validate_fields_ext.
    - apply (validate_union_ext _ _ Hf).
    - reflexivity.
    - apply (validate_input_ext _ _ Hf).
  Qed.

  Lemma validate_roots_ext :
    s_query s = s_query s' -> s_mutation s = s_mutation s' -> s_subscription s = s_subscription s' ->
    validate_roots s = validate_roots s'.
  Proof.
    intros H1 H2 H3. unfold validate_roots. rewrite <- H1, <- H2, <- H3.
    destruct (s_query s), (s_mutation s), (s_subscription s);
      rewrite <- ?(is_object_ext _ _ Hf); reflexivity.
  Qed.
End SchemaExt.

Theorem validate_perm s s' :
  NoDup (map t_name (s_types s)) -> Permutation (s_types s) (s_types s') ->
  s_dirs s = s_dirs s' -> s_query s = s_query s' -> s_mutation s = s_mutation s' ->
  s_subscription s = s_subscription s' -> s_default_resolver s = s_default_resolver s' ->
  Permutation (validate_model s) (validate_model s').
Proof.
  intros Hnd Hp Hdirs Hq Hm Hs Hdr.
  assert (Hf : forall k, find_type (s_types s) k = find_type (s_types s') k)
    by (intros k; apply find_perm; assumption).
  unfold validate_model.
  rewrite (validate_roots_ext s s' Hf Hq Hm Hs), <- Hdirs, (validate_directives_ext _ _ Hf).
  apply Permutation_app_head. apply Permutation_app_tail.
  apply perm_flat_map_ext; [|exact Hp]. intros t. apply validate_type_ext; assumption.
Qed.

(* also the order of the directive definitions *)
Theorem validate_perm_full s s' :
  NoDup (map t_name (s_types s)) -> Permutation (s_types s) (s_types s') ->
  Permutation (s_dirs s) (s_dirs s') -> s_query s = s_query s' -> s_mutation s = s_mutation s' ->
  s_subscription s = s_subscription s' -> s_default_resolver s = s_default_resolver s' ->
  Permutation (validate_model s) (validate_model s').
Proof.
  intros Hnd Hp Hdirs Hq Hm Hs Hdr.
  pose (s1 := mkSchema (s_types s') (s_dirs s) (s_query s') (s_mutation s') (s_subscription s') (s_default_resolver s')).
  apply (Permutation_trans (l' := validate_model s1)).
  - apply validate_perm; try assumption; reflexivity.
  - unfold validate_model. simpl. apply Permutation_app; [apply Permutation_refl|].
    apply Permutation_app; [apply Permutation_refl|].
    unfold validate_directives. apply Permutation_flat_map. exact Hdirs.
Qed.
