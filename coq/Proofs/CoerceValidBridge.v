(* C07 <-> C05/C06: the per-usage test of the validation rule
   VariablesInAllowedPosition, as modelled by the C05/C06 builder in
   Valid/ValidRules.v ([bad_position], over [Schema.is_subtype]), implies the
   per-usage premise of [usage_ok] (Spec/CoerceSpec.v) that C07_exec_sound
   assumes. Read-only use of Valid/*.v (qualified names, nothing re-exported).

   Not bridged: that the usages the rule enumerates (VariablesCollector over
   the whole document, fragments included) are the occurrences [var_at]
   describes, and the translation between the two schema representations. *)
From PyGql Require Import Spec.CoerceSpec.
From PyGql Require Valid.ValidRules.

Module V := PyGql.Valid.ValidSchema.
Module R := PyGql.Valid.ValidRules.

Fixpoint ity_of_tref_nn (nn : bool) (t : V.tref) : ity :=
  match t with
  | V.RNamed n => INamed nn n
  | V.RList t' => IList nn (ity_of_tref_nn false t')
  | V.RNonNull t' => ity_of_tref_nn true t'
  end.
Definition ity_of_tref (t : V.tref) : ity := ity_of_tref_nn false t.

(* NonNull is never applied to NonNull (NonNullType refuses it) *)
Definition bare (t : V.tref) : bool := match t with V.RNonNull _ => false | _ => true end.
Fixpoint wf_tref (t : V.tref) : bool :=
  match t with
  | V.RNamed _ => true
  | V.RList t' => wf_tref t'
  | V.RNonNull t' => bare t' && wf_tref t'
  end.

Lemma tref_eqb_eq a : forall b, V.tref_eqb a b = true -> a = b.
Proof.
  induction a; intros [ | | ] H; simpl in H; try discriminate.
  - apply str_eqb_eq in H. congruence.
  - f_equal; auto.
  - f_equal; auto.
Qed.

Lemma sub_refl t : sub t t.
Proof. induction t; simpl; auto. Qed.

Lemma is_subtype_unfold s a b :
  V.is_subtype s a b =
  if V.tref_eqb a b then true else
  match a, b with
  | V.RList t', V.RList sup' => V.is_subtype s t' sup'
  | V.RNonNull t', V.RNonNull sup' => V.is_subtype s t' sup'
  | V.RNonNull t', _ => V.is_subtype s t' b
  | V.RList _, _ => false
  | V.RNamed n, V.RNamed m => V.is_abstract s m && V.is_possible_type s m n
  | V.RNamed _, _ => false
  end.
Proof. destruct a; reflexivity. Qed.

(* changing the top-level flags of bare types, keeping the implication *)
Lemma sub_flags a b na nb na' nb' :
  bare a = true -> bare b = true ->
  sub (ity_of_tref_nn na a) (ity_of_tref_nn nb b) -> (nb' = true -> na' = true) ->
  sub (ity_of_tref_nn na' a) (ity_of_tref_nn nb' b).
Proof.
  destruct a, b; simpl; intros Ha Hb H Hf; try discriminate; try contradiction;
    destruct H; auto.
Qed.

Lemma subtype_sub s : forall a b,
  wf_tref a = true -> wf_tref b = true -> V.is_abstract s (V.unwrap b) = false ->
  V.is_subtype s a b = true -> sub (ity_of_tref a) (ity_of_tref b).
Proof.
  induction a as [n|a IH|a IH]; intros b Wa Wb Hab H; rewrite is_subtype_unfold in H.
  - destruct (V.tref_eqb (V.RNamed n) b) eqn:E.
    + apply tref_eqb_eq in E. subst b. apply sub_refl.
    + destruct b; try discriminate. simpl in Hab. rewrite Hab in H. discriminate.
  - destruct (V.tref_eqb (V.RList a) b) eqn:E.
    + apply tref_eqb_eq in E. subst b. apply sub_refl.
    + destruct b; try discriminate. simpl in *. split; [auto|]. apply IH; auto.
  - simpl in Wa. apply andb_true_iff in Wa as (Ba & Wa).
    assert (Hsub : forall b', wf_tref b' = true -> V.is_abstract s (V.unwrap b') = false ->
                    V.is_subtype s a b' = true -> bare b' = true -> forall nb,
                    sub (ity_of_tref_nn true a) (ity_of_tref_nn nb b')).
    { intros b' Wb' Hab' Hs Bb' nb. apply (sub_flags a b' false false); auto;
        apply IH; auto. }
    destruct (V.tref_eqb (V.RNonNull a) b) eqn:E.
    + apply tref_eqb_eq in E. subst b. apply sub_refl.
    + destruct b as [m|b|b].
      * apply (Hsub (V.RNamed m)); auto.
      * apply (Hsub (V.RList b)); auto.
      * simpl in Wb. apply andb_true_iff in Wb as (Bb & Wb).
        unfold ity_of_tref; simpl. apply (Hsub b); auto.
Qed.

Lemma sub_nullable a b : sub a b -> sub (ity_nullable a) (ity_nullable b).
Proof. destruct a, b; simpl; intros H; try contradiction; destruct H; split; auto; discriminate. Qed.

Lemma ity_of_nullable t :
  wf_tref t = true -> ity_of_tref (V.nullable t) = ity_nullable (ity_of_tref t) \/ bare t = true.
Proof.
  destruct t; simpl; auto. intros H. apply andb_true_iff in H as (B & _). left.
  unfold ity_of_tref; simpl. destruct t; simpl in *; try discriminate; reflexivity.
Qed.

Lemma type_from_ast_ity s : forall t nn r,
  V.type_from_ast s t = Some r -> ity_of_tref_nn nn r = ity_of_ty_nn nn t.
Proof.
  induction t as [n l|t IH l|t IH l]; intros nn r H; simpl in H.
  - destruct (V.lookup_type s (n_val n)); inversion H; reflexivity.
  - destruct (V.type_from_ast s t) as [r'|]; inversion H; subst. simpl. f_equal. apply IH; reflexivity.
  - destruct (V.type_from_ast s t) as [r'|]; inversion H; subst. simpl. apply IH; reflexivity.
Qed.

(* Rule 24 passing for a recorded usage gives the premise of usage_ok for it *)
Theorem rule24_gives_usage s (vd : var_def) (u : R.usage) it vt :
  R.u_type u = Some it -> V.type_from_ast s (vd_type vd) = Some vt ->
  wf_tref it = true -> wf_tref vt = true -> V.is_abstract s (V.unwrap it) = false ->
  R.bad_position s vd u = false ->
  sub (ity_nullable (ity_of_ty (vd_type vd))) (ity_nullable (ity_of_tref it)).
Proof.
  intros Hu Hv Wi Wv Hab H. unfold R.bad_position in H. rewrite Hu, Hv in H.
  unfold ity_of_ty. rewrite <- (type_from_ast_ity s (vd_type vd) false vt Hv). fold (ity_of_tref vt).
  destruct (R.is_nonnull it && negb (R.is_nonnull vt)) eqn:C.
  - apply orb_false_iff in H as (_ & H). apply negb_false_iff in H.
    destruct it as [m|x|x]; simpl in C; try discriminate.
    simpl in Wi. apply andb_true_iff in Wi as (Bx & Wx). simpl in H, Hab.
    apply (subtype_sub s) in H; auto.
    apply sub_nullable in H.
    replace (ity_nullable (ity_of_tref (V.RNonNull x))) with (ity_nullable (ity_of_tref x)); auto.
    unfold ity_of_tref; simpl. destruct x; simpl in *; try discriminate; reflexivity.
  - apply negb_false_iff in H. apply sub_nullable. apply (subtype_sub s); auto.
Qed.
