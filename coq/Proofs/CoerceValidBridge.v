(* C07 <-> C05/C06: the per-usage test of the validation rule
   VariablesInAllowedPosition, as modelled by the C05/C06 builder in
   Valid/ValidRules.v ([bad_position], over [Schema.is_subtype]), implies the
   per-usage premise of [usage_ok] (Spec/CoerceSpec.v) that C07_exec_sound
   assumes. Read-only use of Valid/*.v (qualified names, nothing re-exported).

   Not bridged: that the usages the rule enumerates (VariablesCollector over
   the whole document, fragments included) are the occurrences [var_at]
   describes, and the translation between the two schema representations. *)
From PyGql Require Import Spec.CoerceSpec Proofs.CoerceAgreeCheck.
From PyGql Require Valid.ValidRules.

Module V := PyGql.Valid.ValidSchema.
Module R := PyGql.Valid.ValidRules.

Fixpoint ity_of_tref_nn (nn : bool) (t : V.tref) : ity :=
  match t with
  | V.RNamed n => INamed nn n
  | V.RList t' => IList nn (ity_of_tref_nn false t')
  | V.RNonNull t' => ity_of_tref_nn true t'
  end.
Definition ity_of_tref (t : V.tref) : ity := ity_of_tref_nn false t.

(* NonNull is never applied to NonNull (NonNullType refuses it) *)
Definition bare (t : V.tref) : bool := match t with V.RNonNull _ => false | _ => true end.
Fixpoint wf_tref (t : V.tref) : bool :=
  match t with
  | V.RNamed _ => true
  | V.RList t' => wf_tref t'
  | V.RNonNull t' => bare t' && wf_tref t'
  end.

Lemma sub_refl t : sub t t.
Proof. induction t; simpl; auto. Qed.

Lemma is_subtype_unfold s a b :
  V.is_subtype s a b =
  if V.tref_eqb a b then true else
  match a, b with
  | V.RList t', V.RList sup' => V.is_subtype s t' sup'
  | V.RNonNull t', V.RNonNull sup' => V.is_subtype s t' sup'
  | V.RNonNull t', _ => V.is_subtype s t' b
  | V.RList _, _ => false
  | V.RNamed n, V.RNamed m => V.is_abstract s m && V.is_possible_type s m n
  | V.RNamed _, _ => false
  end.
Proof. destruct a; reflexivity. Qed.

(* changing the top-level flags of bare types, keeping the implication *)
Lemma sub_flags a b na nb na' nb' :
  bare a = true -> bare b = true ->
  sub (ity_of_tref_nn na a) (ity_of_tref_nn nb b) -> (nb' = true -> na' = true) ->
  sub (ity_of_tref_nn na' a) (ity_of_tref_nn nb' b).
Proof.
  destruct a, b; simpl; intros Ha Hb H Hf; try discriminate; try contradiction;
    destruct H; auto.
Qed.

Lemma subtype_sub s : forall a b,
  wf_tref a = true -> wf_tref b = true -> V.is_abstract s (V.unwrap b) = false ->
  V.is_subtype s a b = true -> sub (ity_of_tref a) (ity_of_tref b).
Proof.
  induction a as [n|a IH|a IH]; intros b Wa Wb Hab H; rewrite is_subtype_unfold in H.
  - destruct (V.tref_eqb (V.RNamed n) b) eqn:E.
    + apply tref_eqb_eq in E. subst b. apply sub_refl.
    + destruct b; try discriminate. simpl in Hab. rewrite Hab in H. discriminate.
  - destruct (V.tref_eqb (V.RList a) b) eqn:E.
    + apply tref_eqb_eq in E. subst b. apply sub_refl.
    + destruct b; try discriminate. simpl in *. split; [auto|]. apply IH; auto.
  - simpl in Wa. apply andb_true_iff in Wa as (Ba & Wa).
    assert (Hsub : forall b', wf_tref b' = true -> V.is_abstract s (V.unwrap b') = false ->
                    V.is_subtype s a b' = true -> bare b' = true -> forall nb,
                    sub (ity_of_tref_nn true a) (ity_of_tref_nn nb b')).
    { intros b' Wb' Hab' Hs Bb' nb. apply (sub_flags a b' false false); auto;
        apply IH; auto. }
    destruct (V.tref_eqb (V.RNonNull a) b) eqn:E.
    + apply tref_eqb_eq in E. subst b. apply sub_refl.
    + destruct b as [m|b|b].
      * apply (Hsub (V.RNamed m)); auto.
      * apply (Hsub (V.RList b)); auto.
      * simpl in Wb. apply andb_true_iff in Wb as (Bb & Wb).
        unfold ity_of_tref; simpl. apply (Hsub b); auto.
Qed.

Lemma sub_nullable a b : sub a b -> sub (ity_nullable a) (ity_nullable b).
Proof. destruct a, b; simpl; intros H; try contradiction; destruct H; split; auto; discriminate. Qed.

Lemma ity_of_nullable t :
  wf_tref t = true -> ity_of_tref (V.nullable t) = ity_nullable (ity_of_tref t) \/ bare t = true.
Proof.
  destruct t; simpl; auto. intros H. apply andb_true_iff in H as (B & _). left.
  unfold ity_of_tref; simpl. destruct t; simpl in *; try discriminate; reflexivity.
Qed.

Lemma type_from_ast_ity s : forall t nn r,
  V.type_from_ast s t = Some r -> ity_of_tref_nn nn r = ity_of_ty_nn nn t.
Proof.
  induction t as [n l|t IH l|t IH l]; intros nn r H; simpl in H.
  - destruct (V.lookup_type s (n_val n)); inversion H; reflexivity.
  - destruct (V.type_from_ast s t) as [r'|]; inversion H; subst. simpl. f_equal. apply IH; reflexivity.
  - destruct (V.type_from_ast s t) as [r'|]; inversion H; subst. simpl. apply IH; reflexivity.
Qed.

(* Rule 24 passing for a recorded usage gives the premise of usage_ok for it *)
Theorem rule24_gives_usage s (vd : var_def) (u : R.usage) it vt :
  R.u_type u = Some it -> V.type_from_ast s (vd_type vd) = Some vt ->
  wf_tref it = true -> wf_tref vt = true -> V.is_abstract s (V.unwrap it) = false ->
  R.bad_position s vd u = false ->
  sub (ity_nullable (ity_of_ty (vd_type vd))) (ity_nullable (ity_of_tref it)).
Proof.
  intros Hu Hv Wi Wv Hab H. unfold R.bad_position in H. rewrite Hu, Hv in H.
  unfold ity_of_ty. rewrite <- (type_from_ast_ity s (vd_type vd) false vt Hv). fold (ity_of_tref vt).
  destruct (R.is_nonnull it && negb (R.is_nonnull vt)) eqn:C.
  - apply orb_false_iff in H as (_ & H). apply negb_false_iff in H.
    destruct it as [m|x|x]; simpl in C; try discriminate.
    simpl in Wi. apply andb_true_iff in Wi as (Bx & Wx). simpl in H, Hab.
    apply (subtype_sub s) in H; auto.
    apply sub_nullable in H.
    replace (ity_nullable (ity_of_tref (V.RNonNull x))) with (ity_nullable (ity_of_tref x)); auto.
    unfold ity_of_tref; simpl. destruct x; simpl in *; try discriminate; reflexivity.
  - apply negb_false_iff in H. apply sub_nullable. apply (subtype_sub s); auto.
Qed.

(* ====================================================================== *)
(* Part 2: composition with the document-level theorem of C06             *)
(*   C06_rule_equiv_VariablesInAllowedPosition (Properties/C06.v)         *)
From PyGql Require Spec.ValidSpec Spec.ValidLocalSpec Spec.ValidValueSpec Spec.ValidTypedSpec
     Proofs.ValidVarProofs Properties.C06.
From PyGql Require Import Proofs.CoerceProofs.

Module VS := PyGql.Spec.ValidSpec.
Module VL := PyGql.Spec.ValidLocalSpec.
Module VV := PyGql.Spec.ValidValueSpec.
Module VT := PyGql.Spec.ValidTypedSpec.
Module VP := PyGql.Proofs.ValidVarProofs.
Module C06 := PyGql.Properties.C06.

Lemma alookup_map_app {A B} (g : A -> B) (l : list (str * A)) (r : list (str * B)) n d :
  alookup n l = Some d -> alookup n (map (fun p => (fst p, g (snd p))) l ++ r) = Some (g d).
Proof.
  induction l as [|[k v] l IH]; simpl; [discriminate|].
  destruct (str_eqb n k); [intros H; inversion H; reflexivity|assumption].
Qed.

Theorem valid_schema_of_agree s outs q m sb dirs :
  schema_agree s (valid_schema_of s outs q m sb dirs).
Proof. intros n d H _. unfold V.lookup_type, valid_schema_of; simpl. apply alookup_map_app; assumption. Qed.

Lemma ity_of_tref_of t : ity_of_tref (tref_of t) = t.
Proof.
  unfold ity_of_tref. induction t as [[|] n|[|] t IH]; simpl; try reflexivity;
    unfold ity_of_tref in IH; rewrite IH; reflexivity.
Qed.

Lemma wf_tref_of t : wf_tref (tref_of t) = true.
Proof. induction t as [[|] n|[|] t IH]; simpl; auto. Qed.

Lemma unwrap_tref_of t : V.unwrap (tref_of t) = ity_name t.
Proof. induction t as [[|] n|[|] t IH]; simpl; auto. Qed.

Lemma nullable_tref_of t : V.nullable (tref_of t) = tref_of (ity_nullable t).
Proof. destruct t as [[|] n|[|] t]; reflexivity. Qed.

Lemma agree_input_named s s' t :
  schema_agree s s' -> usable s t -> V.is_input_named s' (ity_name t) = true
                                    /\ V.is_abstract s' (ity_name t) = false.
Proof.
  intros Ha (Hb & Hi). unfold bound in Hb. unfold input_ty in Hi.
  destruct (alookup (ity_name t) s) as [d|] eqn:E; [|congruence].
  assert (Hd : d <> TDOutput) by congruence.
  unfold V.is_input_named, V.is_abstract. rewrite (Ha _ _ E Hd).
  destruct d; simpl; auto; congruence.
Qed.

Lemma agree_input_type s s' t :
  schema_agree s s' -> usable s t -> V.is_input_type s' (tref_of t) = true.
Proof.
  intros Ha Hu. unfold V.is_input_type. rewrite unwrap_tref_of.
  apply (agree_input_named s s' t Ha Hu).
Qed.

(* is_subtype on translated input types is the covariance [sub] of the spec *)
Theorem subtype_agree s s' a b :
  schema_agree s s' -> usable s b ->
  V.is_subtype s' (tref_of a) (tref_of b) = true -> sub a b.
Proof.
  intros Ha Hu H. rewrite <- (ity_of_tref_of a), <- (ity_of_tref_of b).
  apply (subtype_sub s'); auto using wf_tref_of.
  rewrite unwrap_tref_of. apply (agree_input_named s s' b Ha Hu).
Qed.

(* ---- occurrences of variables: mine are among theirs ---- *)

Lemma find_arg_sarg_of fs f :
  NoDup (map f_name fs) -> In f fs -> V.find_arg (f_name f) (map sarg_of fs) = Some (sarg_of f).
Proof.
  unfold V.find_arg. induction fs as [|g fs IH]; simpl; [intros _ []|].
  intros Hnd Hin. inversion Hnd as [|? ? Hnin Hnd']; subst.
  destruct Hin as [->|Hin].
  - rewrite str_eqb_refl. reflexivity.
  - destruct (str_eqb_spec (f_name g) (f_name f)) as [E|_]; [|auto].
    exfalso. apply Hnin. rewrite E. apply in_map; assumption.
Qed.

Lemma usable_list s nn t : usable s (IList nn t) <-> usable s t.
Proof. unfold usable, bound, input_ty; simpl. tauto. Qed.

Lemma pos_field_unwrap s' a b k :
  V.unwrap a = V.unwrap b -> VT.pos_field s' (Some a) k = VT.pos_field s' (Some b) k.
Proof. intros E. unfold VT.pos_field. rewrite E. reflexivity. Qed.

Lemma var_at_included s s' :
  schema_agree s s' -> schema_closed s -> schema_inputs s -> fields_unique s ->
  forall t l x tp, var_at s t l x tp -> usable s t ->
    usable s tp /\ forall hd, exists hd', VT.var_at s' (Some (tref_of t)) hd l x (Some (tref_of tp)) hd'.
Proof.
  intros Ha Hc Hi Hu t l x tp H.
  induction H as [t y lc|nn t items lc i y tp Hin H IH|nn t l y tp Hp H IH
                 |nn n fs lfs lc nm v lc' f y tp Hn Hin Hf Hname H IH]; intros Hus.
  - split; [assumption|]. intros hd. exists hd. constructor.
  - apply usable_list in Hus. destruct (IH Hus) as (Hut & IH'). split; [assumption|].
    intros hd. destruct (IH' false) as (hd' & Hv). exists hd'.
    eapply VT.va_list; [exact Hin|].
    replace (VT.pos_item s' (Some (tref_of (IList nn t)))) with (Some (tref_of t)); [exact Hv|].
    unfold VT.pos_item. rewrite nullable_tref_of. simpl.
    unfold VT.pos_filter. rewrite (agree_input_type s s' t Ha Hus). reflexivity.
  - apply usable_list in Hus. destruct (IH Hus) as (Hut & IH'). split; [assumption|].
    intros hd. destruct (IH' hd) as (hd' & Hv). exists hd'.
    destruct l; simpl in Hp; try discriminate; inversion Hv; subst.
    eapply VT.va_obj; [eassumption|].
    rewrite (pos_field_unwrap s' (tref_of (IList nn t)) (tref_of t)); [eassumption|].
    rewrite !unwrap_tref_of. reflexivity.
  - assert (Huf : usable s (f_ty f)) by (split; [eapply Hc|eapply Hi]; eauto).
    destruct (IH Huf) as (Hut & IH'). split; [assumption|].
    assert (Hpf : VT.pos_field s' (Some (tref_of (INamed nn n))) (n_val nm)
                  = (Some (tref_of (f_ty f)), V.sa_default (sarg_of f))).
    { unfold VT.pos_field. rewrite unwrap_tref_of. simpl.
      assert (Hd : TDInput fs <> TDOutput) by discriminate.
      rewrite (Ha _ _ Hn Hd). simpl. rewrite <- Hname.
      rewrite (find_arg_sarg_of fs f (Hu _ _ Hn) Hf). simpl.
      unfold VT.pos_filter. rewrite (agree_input_type s s' _ Ha Huf). reflexivity. }
    intros hd. destruct (IH' (V.sa_default (sarg_of f))) as (hd' & Hv). exists hd'.
    eapply VT.va_obj; [exact Hin|]. rewrite Hpf. simpl. exact Hv.
Qed.

(* ---- IsVariableUsageAllowed gives the premise of usage_ok ---- *)
Lemma vv_wf_tref t : VV.wf_tref t -> wf_tref t = true.
Proof.
  induction t as [n|t IH|t IH]; simpl; auto.
  destruct t; simpl in *; try contradiction; auto.
Qed.

Lemma usage_allowed_sub s' (vd : var_def) it hd vt :
  V.type_from_ast s' (vd_type vd) = Some vt ->
  wf_tref it = true -> wf_tref vt = true -> V.is_abstract s' (V.unwrap it) = false ->
  VT.usage_allowed s' vd it hd ->
  sub (ity_nullable (ity_of_ty (vd_type vd))) (ity_nullable (ity_of_tref it)).
Proof.
  intros Hv Wi Wv Hab H. unfold VT.usage_allowed in H. rewrite Hv in H.
  unfold ity_of_ty. rewrite <- (type_from_ast_ity s' (vd_type vd) false vt Hv). fold (ity_of_tref vt).
  destruct (VT.is_nn it && negb (VT.is_nn vt)) eqn:C.
  - destruct H as (_ & H).
    destruct it as [m|y|y]; simpl in C; try discriminate.
    simpl in Wi. apply andb_true_iff in Wi as (By & Wy). simpl in H, Hab.
    apply (subtype_sub s') in H; auto. apply sub_nullable in H.
    replace (ity_nullable (ity_of_tref (V.RNonNull y))) with (ity_nullable (ity_of_tref y)); auto.
    unfold ity_of_tref; simpl. destruct y; simpl in *; try discriminate; reflexivity.
  - apply sub_nullable. apply (subtype_sub s'); auto.
Qed.

(* ---- arguments of a field node ---- *)
Lemma arg_lookup_In call k l :
  arg_lookup call k = Some l -> exists a, In a call /\ n_val (a_name a) = k /\ a_val a = l.
Proof.
  unfold arg_lookup, alookup_last. intros H. apply alookup_In in H. apply in_rev in H.
  apply in_map_iff in H as (a & E & Hin). inversion E; subst. eauto.
Qed.

Lemma type_from_ast_known s' : forall t,
  V.lookup_type s' (ity_name (ity_of_ty t)) <> None -> V.type_from_ast s' t <> None.
Proof.
  unfold ity_of_ty. intros t. generalize false.
  induction t as [n l|t IH l|t IH l]; intros nn H; simpl in *.
  - destruct (V.lookup_type s' (n_val n)); congruence.
  - specialize (IH false H). destruct (V.type_from_ast s' t); congruence.
  - specialize (IH true H). destruct (V.type_from_ast s' t); congruence.
Qed.

(* the field node is part of the operation: in its own body or in a fragment
   reachable from it *)
Definition node_in_operation (s' : V.schema) (d : document) (op : definition)
           (p : str) (z : selection) : Prop :=
  VT.reaches_in s' op (Some p) z
  \/ exists fr df, VS.frag_reach d (VS.def_sels op) fr /\ In df (doc_defs d)
                   /\ VS.fragment_named df fr /\ VT.reaches_in s' df (Some p) z.

(* core: once every typed position of the argument list is a position of the
   operation in the sense of the validation spec *)
Lemma usage_ok_core s s' d op sargs defs args :
  schema_agree s s' -> schema_closed s -> schema_inputs s -> fields_unique s ->
  VT.spec_variables_in_allowed_position s' d -> VT.wf_var_types s' d ->
  In op (doc_defs d) -> VS.is_operation op ->
  sargs = map sarg_of defs -> NoDup (map f_name defs) ->
  (forall d0, In d0 defs -> usable s (f_ty d0)) ->
  (forall vd, In vd (VL.op_vars op) -> V.type_from_ast s' (vd_type vd) <> None) ->
  (forall x it hd, VT.args_var_at s' sargs args x it hd -> VT.op_var_at s' d op x it hd) ->
  usage_ok s (VL.op_vars op) defs args.
Proof.
  intros Ha Hc Hi Hu H24 Hwv Hop Hisop Hargs Hnd Hus Hknown Hpos.
  intros d0 lit x tp vd Hd0 Hl Hat Hvd Hx.
  destruct (var_at_included s s' Ha Hc Hi Hu _ _ _ _ Hat (Hus d0 Hd0)) as (Hutp & Hincl).
  destruct (Hincl (V.sa_default (sarg_of d0))) as (hd' & Hv).
  apply arg_lookup_In in Hl as (arg & Harg & Hname & Hval). subst lit.
  assert (Hava : VT.args_var_at s' sargs args x (tref_of tp) hd').
  { exists arg, (sarg_of d0). split; [assumption|]. split.
    - rewrite Hargs, Hname. apply find_arg_sarg_of; assumption.
    - simpl. unfold VT.pos_filter. rewrite (agree_input_type s s' _ Ha (Hus d0 Hd0)). exact Hv. }
  pose proof (H24 op x (tref_of tp) hd' vd Hop Hisop (Hpos _ _ _ Hava) Hvd Hx) as Hall.
  destruct (V.type_from_ast s' (vd_type vd)) as [vt|] eqn:Evt; [|exfalso; eapply Hknown; eauto].
  rewrite <- (ity_of_tref_of tp) at 1.
  eapply (usage_allowed_sub s' vd (tref_of tp) hd' vt); auto using wf_tref_of.
  - apply vv_wf_tref. eapply Hwv; eauto.
  - rewrite unwrap_tref_of. apply (agree_input_named s s' tp Ha Hutp).
Qed.

Theorem usage_ok_from_validation s s' d op p a n args dirs sl sb l f defs :
  schema_agree s s' -> schema_closed s -> schema_inputs s -> fields_unique s ->
  (* the validation side: rule 24 of the C05/C06 model is silent on the document *)
  NoDup (VP.op_key_list d) -> VL.spec_unique_variable_names d -> VL.spec_known_directives s' d ->
  VT.wf_var_types s' d ->
  R.r24_variables_in_allowed_position s' d = Ok [] ->
  (* the request: operation op of d, a field node of it, its definition *)
  In op (doc_defs d) -> VS.is_operation op ->
  node_in_operation s' d op p (SField a n args dirs sl sb l) ->
  V.get_field_def s' p (n_val n) = Some f ->
  V.sf_args f = map sarg_of defs -> NoDup (map f_name defs) ->
  (forall d0, In d0 defs -> usable s (f_ty d0)) ->
  (forall vd, In vd (VL.op_vars op) -> V.type_from_ast s' (vd_type vd) <> None) ->
  usage_ok s (VL.op_vars op) defs args.
Proof.
  intros Ha Hc Hi Hu Hk Huv Hkd Hwv H24 Hop Hisop Hnode Hf Hargs Hnd Hus Hknown.
  apply (proj1 (C06.C06_rule_equiv_VariablesInAllowedPosition s' d Hk Huv Hkd)) in H24.
  eapply (usage_ok_core s s' d op (V.sf_args f)); eauto.
  intros x it hd Hava.
  destruct Hnode as [Hr|(fr & df & Hfr & Hdf & Hfn & Hr)].
  - left. left. exists p, a, n, args, dirs, sl, sb, l, f. auto.
  - right. exists fr, df. repeat split; auto. left. exists p, a, n, args, dirs, sl, sb, l, f. auto.
Qed.

(* the same for the arguments of a directive written on a node (or on the
   definition) of the operation or of a reachable fragment *)
Definition directive_in_operation (s' : V.schema) (d : document) (op : definition)
           (dr : directive) : Prop :=
  VT.directive_in s' op dr
  \/ exists fr df, VS.frag_reach d (VS.def_sels op) fr /\ In df (doc_defs d)
                   /\ VS.fragment_named df fr /\ VT.directive_in s' df dr.

Theorem usage_ok_directive_from_validation s s' d op dr dd defs :
  schema_agree s s' -> schema_closed s -> schema_inputs s -> fields_unique s ->
  NoDup (VP.op_key_list d) -> VL.spec_unique_variable_names d -> VL.spec_known_directives s' d ->
  VT.wf_var_types s' d ->
  R.r24_variables_in_allowed_position s' d = Ok [] ->
  In op (doc_defs d) -> VS.is_operation op ->
  directive_in_operation s' d op dr ->
  alookup (n_val (d_name dr)) (V.s_dirs s') = Some dd ->
  V.sd_args dd = map sarg_of defs -> NoDup (map f_name defs) ->
  (forall d0, In d0 defs -> usable s (f_ty d0)) ->
  (forall vd, In vd (VL.op_vars op) -> V.type_from_ast s' (vd_type vd) <> None) ->
  usage_ok s (VL.op_vars op) defs (d_args dr).
Proof.
  intros Ha Hc Hi Hu Hk Huv Hkd Hwv H24 Hop Hisop Hdir Hdd Hargs Hnd Hus Hknown.
  apply (proj1 (C06.C06_rule_equiv_VariablesInAllowedPosition s' d Hk Huv Hkd)) in H24.
  eapply (usage_ok_core s s' d op (V.sd_args dd)); eauto.
  intros x it hd Hava.
  destruct Hdir as [Hr|(fr & df & Hfr & Hdf & Hfn & Hr)].
  - left. right. exists dr, dd. auto.
  - right. exists fr, df. repeat split; auto. right. exists dr, dd. auto.
Qed.

(* ---- the whole request, with no usage_ok hypothesis left ---- *)
Lemma var_bindings_all_ok s raw vds asg :
  var_bindings s raw vds = Ok asg -> forall vd, In vd vds -> exists b, var_binding s raw vd = Ok b.
Proof.
  revert asg. induction vds as [|v vds IH]; simpl; intros asg H vd [].
  - subst v. destruct (var_binding s raw vd) as [b| | |]; try discriminate; eauto.
    destruct (var_bindings s raw vds); discriminate.
  - destruct (var_binding s raw v) as [b| | |]; try discriminate.
    + destruct (var_bindings s raw vds) as [l| | |] eqn:E; try discriminate. eapply IH; eauto.
    + destruct (var_bindings s raw vds); discriminate.
Qed.

Lemma var_binding_ok_known s s' raw vd b :
  schema_agree s s' -> var_binding s raw vd = Ok b -> V.type_from_ast s' (vd_type vd) <> None.
Proof.
  intros Ha H. apply type_from_ast_known. unfold var_binding in H.
  destruct (alookup (ity_name (ity_of_ty (vd_type vd))) s) as [d|] eqn:E; [|discriminate].
  destruct (is_input_def d) eqn:Ei; simpl in H; [|discriminate].
  assert (Hd : d <> TDOutput) by (intros ->; discriminate).
  rewrite (Ha _ _ E Hd). discriminate.
Qed.

Theorem validated_request_sound s s' d op p a n args dirs sl sb l f defs raw kw :
  schema_agree s s' -> schema_wf s -> schema_closed s -> fields_unique s ->
  NoDup (VP.op_key_list d) -> VL.spec_unique_variable_names d -> VL.spec_known_directives s' d ->
  VT.wf_var_types s' d ->
  R.r24_variables_in_allowed_position s' d = Ok [] ->
  In op (doc_defs d) -> VS.is_operation op ->
  node_in_operation s' d op p (SField a n args dirs sl sb l) ->
  V.get_field_def s' p (n_val n) = Some f ->
  V.sf_args f = map sarg_of defs -> NoDup (map f_name defs) ->
  args_wf s defs -> (forall d0, In d0 defs -> bound s (f_ty d0)) ->
  exec_kwargs s defs (VL.op_vars op) args raw = Ok kw ->
  NoDup (map fst kw)
  /\ forall k v, In (k, v) kw -> exists d0, In d0 defs /\ f_py d0 = k /\ conforms s (f_ty d0) v.
Proof.
  intros Ha Hwf Hc Hu Hk Huv Hkd Hwv H24 Hop Hisop Hnode Hf Hargs Hnd Hawf Hb Hex.
  assert (Hi : schema_inputs s) by (destruct Hwf as (_ & _ & Hi); exact Hi).
  eapply exec_sound; eauto.
  eapply usage_ok_from_validation; eauto.
  - intros d0 Hd0. split; [apply Hb; assumption|apply (proj2 Hawf); assumption].
  - intros vd Hvd. unfold exec_kwargs in Hex.
    destruct (coerce_variable_values s (VL.op_vars op) raw) as [vs| | |] eqn:Ev; try discriminate.
    unfold coerce_variable_values in Ev.
    destruct (var_bindings s raw (VL.op_vars op)) as [asg| | |] eqn:Eb; try discriminate.
    destruct (var_bindings_all_ok _ _ _ _ Eb vd Hvd) as (b & Hbv).
    eapply var_binding_ok_known; eauto.
Qed.

(* the same from the verdict of the 25 validation rules (all but
   OverlappingFieldsCanBeMerged) of the C05/C06 model: C06_verdict_25 *)
From PyGql Require Proofs.ValidVerdict25Proofs.
Module V25 := PyGql.Proofs.ValidVerdict25Proofs.
Module VO := PyGql.Valid.ValidOverlap.

Theorem validated25_request_sound fuel s s' d op p a n args dirs sl sb l f defs raw kw :
  schema_agree s s' -> schema_wf s -> schema_closed s -> fields_unique s ->
  VV.wf_inputs s' -> VT.wf_arg_types s' -> VT.wf_var_types s' d ->
  VO.validate_rules fuel s' d VO.rules_but_overlap = Ok [] ->
  In op (doc_defs d) -> VS.is_operation op ->
  node_in_operation s' d op p (SField a n args dirs sl sb l) ->
  V.get_field_def s' p (n_val n) = Some f ->
  V.sf_args f = map sarg_of defs -> NoDup (map f_name defs) ->
  args_wf s defs -> (forall d0, In d0 defs -> bound s (f_ty d0)) ->
  exec_kwargs s defs (VL.op_vars op) args raw = Ok kw ->
  NoDup (map fst kw)
  /\ forall k v, In (k, v) kw -> exists d0, In d0 defs /\ f_py d0 = k /\ conforms s (f_ty d0) v.
Proof.
  intros Ha Hwf Hc Hu Hwi Hwa Hwv Hval.
  apply (proj1 (C06.C06_verdict_25 fuel s' d Hwi Hwa Hwv)) in Hval.
  destruct Hval as (Hvs & _ & H24).
  destruct (V25.valid_spec_parts s' d Hvs) as (Hk & Huv & Hkd).
  apply (proj2 (C06.C06_rule_equiv_VariablesInAllowedPosition s' d Hk Huv Hkd)) in H24.
  eapply validated_request_sound; eauto.
Qed.

(* the arguments of a directive of a validated request conform *)
Theorem validated_directive_args_sound s s' d op dr dd defs dname ds raw kw :
  schema_agree s s' -> schema_wf s -> schema_closed s -> fields_unique s ->
  NoDup (VP.op_key_list d) -> VL.spec_unique_variable_names d -> VL.spec_known_directives s' d ->
  VT.wf_var_types s' d ->
  R.r24_variables_in_allowed_position s' d = Ok [] ->
  In op (doc_defs d) -> VS.is_operation op ->
  find_directive dname ds = Some dr -> directive_in_operation s' d op dr ->
  alookup (n_val (d_name dr)) (V.s_dirs s') = Some dd ->
  V.sd_args dd = map sarg_of defs -> NoDup (map f_name defs) ->
  args_wf s defs -> (forall d0, In d0 defs -> bound s (f_ty d0)) ->
  exec_directive_args s defs (VL.op_vars op) dname ds raw = Ok (Some kw) ->
  NoDup (map fst kw)
  /\ (forall k v, In (k, v) kw -> exists a, In a defs /\ f_py a = k /\ conforms s (f_ty a) v)
  /\ (forall a, In a defs -> f_default a <> None \/ ity_nn (f_ty a) = true -> In (f_py a) (map fst kw)).
Proof.
  intros Ha Hwf Hc Hu Hk Huv Hkd Hwv H24 Hop Hisop Hfind Hdir Hdd Hargs Hnd Hawf Hb Hex.
  assert (Hi : schema_inputs s) by (destruct Hwf as (_ & _ & Hi); exact Hi).
  eapply exec_directive_sound; eauto.
  intros d1 Hd1. rewrite Hfind in Hd1. inversion Hd1; subst d1.
  eapply usage_ok_directive_from_validation; eauto.
  - intros d0 Hd0. split; [apply Hb; assumption|apply (proj2 Hawf); assumption].
  - intros vd Hvd. unfold exec_directive_args in Hex.
    destruct (coerce_variable_values s (VL.op_vars op) raw) as [vs| | |] eqn:Ev; try discriminate.
    unfold coerce_variable_values in Ev.
    destruct (var_bindings s raw (VL.op_vars op)) as [asg| | |] eqn:Eb; try discriminate.
    destruct (var_bindings_all_ok _ _ _ _ Eb vd Hvd) as (b & Hbv).
    eapply var_binding_ok_known; eauto.
Qed.

(* non-vacuity of usage_ok: a list variable at a list argument, a stricter
   variable inside an object literal *)
Local Open Scope string_scope.
Example usage_ok_example :
  let S' x := str_of_string x in
  let nm x := Name (S' x) None in
  let s := [ (S' "Int", TDScalar KInt);
             (S' "P", TDInput [IField (S' "x") (S' "x") (INamed false (S' "Int")) None]) ] in
  let vds := [ VarDef (nm "v") None (TList (TNonNull (TNamed (nm "Int") None) None) None) None [] None;
               VarDef (nm "w") None (TNonNull (TNamed (nm "Int") None) None) None [] None ] in
  let defs := [ IField (S' "xs") (S' "xs") (IList false (INamed false (S' "Int"))) None;
                IField (S' "p") (S' "p") (INamed true (S' "P")) None ] in
  let call := [ Arg (nm "xs") (VVar (nm "v") None) None;
                Arg (nm "p") (VObject [(nm "x", VVar (nm "w") None, None)] None) None ] in
  usage_ok s vds defs call.
Proof.
  intros S' nm s vds defs call d0 l x tp vd Hd Hl Hat Hvd Hx.
  assert (Hvar : forall t y lc z tq, var_at s t (VVar y lc) z tq -> z = n_val y /\ tq = t).
  { intros t y lc z tq H. remember (VVar y lc) as lv. revert Heqlv.
    induction H; intros E; try discriminate.
    - inversion E; auto.
    - subst l0. discriminate. }
  destruct Hd as [<-|[<-|[]]]; vm_compute in Hl; inversion Hl; subst l; clear Hl.
  - apply Hvar in Hat as (-> & ->).
    destruct Hvd as [<-|[<-|[]]]; vm_compute in Hx; try discriminate. vm_compute. auto.
  - revert Hx. inversion Hat as [| | |nn n0 fs lfs lc nm0 v lc' f0 y tq Hn Hin Hf Hname Hsub]; subst.
    vm_compute in Hn. inversion Hn; subst fs; clear Hn.
    destruct Hf as [<-|[]]. destruct Hin as [E|[]]. inversion E; subst; clear E.
    apply Hvar in Hsub as (-> & ->). intros Hx.
    destruct Hvd as [<-|[<-|[]]]; vm_compute in Hx; try discriminate. vm_compute. auto.
Qed.

(* the converse of subtype_agree: on translated types Schema.is_subtype is
   exactly the covariance [sub] *)
Lemma tref_eqb_refl t : V.tref_eqb t t = true.
Proof. induction t; simpl; auto. apply str_eqb_refl. Qed.

Lemma is_subtype_refl s' t : V.is_subtype s' t t = true.
Proof. rewrite is_subtype_unfold, tref_eqb_refl. reflexivity. Qed.

Lemma is_subtype_list s' a b :
  V.is_subtype s' a b = true -> V.is_subtype s' (V.RList a) (V.RList b) = true.
Proof.
  intros H. rewrite is_subtype_unfold. destruct (V.tref_eqb (V.RList a) (V.RList b)); auto.
Qed.

Theorem sub_subtype s' : forall a b, sub a b -> V.is_subtype s' (tref_of a) (tref_of b) = true.
Proof.
  induction a as [na n|na a IH]; intros [nb m|nb b] H; simpl in H; try contradiction.
  - destruct H as (<- & Hn). destruct na, nb; cbn [tref_of]; try apply is_subtype_refl.
    + rewrite is_subtype_unfold. cbn [V.tref_eqb]. apply is_subtype_refl.
    + specialize (Hn eq_refl). discriminate.
  - destruct H as (Hn & Hs). specialize (IH b Hs).
    pose proof (is_subtype_list s' _ _ IH) as HL.
    destruct na, nb; cbn [tref_of]; try exact HL;
      try (specialize (Hn eq_refl); discriminate);
      rewrite is_subtype_unfold; cbn [V.tref_eqb]; try destruct (V.tref_eqb _ _); auto.
Qed.

(* ====================================================================== *)
(* Part 3: the remaining assumptions as decidable checks                   *)
(* The correspondence run evaluates them on the two serialisations of the *)
(* same real py_gql schema (harness/gen_coerce.py cschema, harness/       *)
(* ser_valid.py cschema): the validated-request theorems below have only  *)
(* boolean, harness-checked premises about the schema and the arguments.  *)
From PyGql Require Import Proofs.CoerceCheck.

(* the validated request, with boolean premises on the C07 side *)
Theorem validated_request_sound_checked fuel s s' d op p a n args dirs sl sb l defs raw kw :
  (* checked by the correspondence run on every generated request: *)
  schema_okb s = true -> args_okb s defs = true ->
  schema_agreeb s s' = true -> field_args_agreeb s' p (n_val n) defs = true ->
  (* the validation side (C06 model): *)
  VV.wf_inputs s' -> VT.wf_arg_types s' -> VT.wf_var_types s' d ->
  VO.validate_rules fuel s' d VO.rules_but_overlap = Ok [] ->
  In op (doc_defs d) -> VS.is_operation op ->
  node_in_operation s' d op p (SField a n args dirs sl sb l) ->
  exec_kwargs s defs (VL.op_vars op) args raw = Ok kw ->
  NoDup (map fst kw)
  /\ forall k v, In (k, v) kw -> exists d0, In d0 defs /\ f_py d0 = k /\ conforms s (f_ty d0) v.
Proof.
  intros Hs Hd Hag Hfa Hwi Hwa Hwv Hval Hop Hisop Hnode Hex.
  destruct (schema_okb_sound s Hs) as (Hwf & Hc & Hi & Hu).
  destruct (args_okb_sound s defs Hd) as (Hawf & Hus & Hnd & _).
  destruct (field_args_agreeb_sound s' p (n_val n) defs Hfa) as (f & Hf & Hargs).
  eapply (validated25_request_sound fuel s s'); eauto using schema_agreeb_sound.
  intros d0 Hd0. apply (proj1 (Hus d0 Hd0)).
Qed.
