(* C14 -- proofs about the store model, part 12: every element of the result of
   a visitor-based transform descends from an element of the source, with the
   same attributes (names mapped through the renaming [g]) and in the same
   relative order. *)
From PyGql Require Import Spec.StoreExtSpec Proofs.StoreProofs Proofs.StoreHeal Proofs.StoreLoop
     Proofs.StoreFrame Proofs.StoreClone Proofs.StoreOps Proofs.StoreTerm Proofs.StoreVis Proofs.StoreVisM.
Local Open Scope N_scope.

(* [l] is obtained from [srcs] by dropping some elements and replacing each of
   the others by a D-related one; the order is kept *)
Inductive subseq (D : oid -> oid -> Prop) : list oid -> list oid -> Prop :=
| ss_nil : subseq D [] []
| ss_drop s srcs l : subseq D l srcs -> subseq D l (s :: srcs)
| ss_keep y s l srcs : D y s -> subseq D l srcs -> subseq D (y :: l) (s :: srcs).

Lemma subseq_impl (D D' : oid -> oid -> Prop) l srcs :
  (forall y s, D y s -> D' y s) -> subseq D l srcs -> subseq D' l srcs.
Proof.
  intros H. induction 1 as [|s srcs l Hs IH|y s l srcs Hd Hs IH]; [constructor|constructor; exact IH|constructor; [apply H; exact Hd|exact IH]].
Qed.

Lemma subseq_filter D (f : oid -> bool) l srcs : subseq D l srcs -> subseq D (filter f l) srcs.
Proof.
  induction 1 as [|s srcs l Hs IH|y s l srcs Hd Hs IH]; simpl.
  - constructor.
  - constructor. exact IH.
  - destruct (f y); [apply ss_keep; assumption|apply ss_drop; assumption].
Qed.

Lemma Forall2_subseq (D : oid -> oid -> Prop) l srcs : Forall2 (fun s y => D y s) srcs l -> subseq D l srcs.
Proof. induction 1 as [|s y srcs l Hd Hf IH]; [constructor|apply ss_keep; assumption]. Qed.

Section Desc.
Variable src : oid -> option obj.       (* the source schema's heap, before the operation *)
Variable g : str -> str.                (* how the operation renames fields, arguments, input fields *)

(* v' has the attributes of the source member v *)
Definition gcopy (v v' : obj) : Prop :=
  match v, v' with
  | OField n py _ _ d dp r sb ds, OField n' py' _ _ d' dp' r' sb' ds' =>
      n' = g n /\ py' = py /\ d' = d /\ dp' = dp /\ r' = r /\ sb' = sb /\ ds' = ds
  | OInput a n py _ df d ds, OInput a' n' py' _ df' d' ds' =>
      a' = a /\ n' = g n /\ py' = py /\ df' = df /\ d' = d /\ ds' = ds
  | OEnumV _ _ _ _ _, OEnumV _ _ _ _ _ => v' = v
  | _, _ => False
  end.
(* the type reference of v' has the wrappers of the source member's and names
   the type the source member's reference names (in the source's heap) *)
Definition stname (o : oid) : option str :=
  match src o with Some (OType n _ _ _ _ _ _) => Some n | _ => None end.
Definition oty (v : obj) : option tref :=
  match v with
  | OField _ _ ty _ _ _ _ _ _ | OInput _ _ _ ty _ _ _ => Some ty
  | _ => None
  end.
Definition tylk (M : mem) (vs v' : obj) : Prop :=
  match oty vs, oty v' with
  | Some ts, Some ty =>
      ref_wrappers ty = ref_wrappers ts /\ forall nm, stname (unwrap ts) = Some nm -> tname M (unwrap ty) = Some nm
  | None, None => True
  | _, _ => False
  end.
Definition desc (M : mem) (y s : oid) : Prop :=
  exists vs vy, src s = Some vs /\ mget M y = Some vy /\ gcopy vs vy /\ tylk M vs vy.
Definition sargs (s : oid) : list oid :=
  match src s with Some (OField _ _ _ args _ _ _ _ _) => args | _ => [] end.
Definition mdesc (M : mem) (y s : oid) : Prop :=
  desc M y s /\ subseq (desc M) (oargs M y) (sargs s).
(* the type object o descends from the source's type t registered as n *)
Definition tdesc (M : mem) (n : str) (o t : oid) : Prop :=
  exists k d ms ifs r ds ms' ifs',
    src t = Some (OType n k d ms ifs r ds) /\
    mget M o = Some (OType n k d ms' ifs' r ds) /\ subseq (mdesc M) ms' ms.

(* memory steps that keep the attributes and the argument list of every
   existing member object *)
Definition tykeep (M' : mem) (v v' : obj) : Prop :=
  match oty v, oty v' with
  | Some ty, Some ty' => ty' = ty \/ (ref_wrappers ty' = ref_wrappers ty /\ same_name M' (unwrap ty) (unwrap ty'))
  | None, None => True
  | _, _ => False
  end.
Definition keepm (M M' : mem) : Prop :=
  (forall o n, tname M o = Some n -> tname M' o = Some n) /\
  forall y v, mget M y = Some v -> (forall n k d ms ifs r ds, v <> OType n k d ms ifs r ds) ->
    exists v', mget M' y = Some v' /\ same_attrs v v' /\ tykeep M' v v'.

Lemma tylk_fwd M M' vs v :
  (forall o n, tname M o = Some n -> tname M' o = Some n) -> tylk M vs v -> tylk M' vs v.
Proof.
  intros Hn. unfold tylk. destruct (oty vs); destruct (oty v); auto.
  intros (A & B). split; [assumption|]. intros nm C. apply Hn. apply B. exact C.
Qed.
Lemma tylk_oty M vs v v' : oty v' = oty v -> tylk M vs v -> tylk M vs v'.
Proof. unfold tylk. intros ->. auto. Qed.
Lemma tylk_keep M' vs v v' : tylk M' vs v -> tykeep M' v v' -> tylk M' vs v'.
Proof.
  unfold tylk, tykeep. destruct (oty vs) as [ts|]; destruct (oty v) as [ty|]; destruct (oty v') as [ty'|]; auto; try contradiction.
  intros (A & B) [->|(D & nm2 & E & F)].
  - split; assumption.
  - split; [congruence|]. intros nm C. rewrite (B nm C) in E. congruence.
Qed.
Lemma tykeep_refl M v : tykeep M v v.
Proof. unfold tykeep. destruct (oty v); auto. Qed.

Lemma gcopy_same vs v v' : gcopy vs v -> same_attrs v v' -> gcopy vs v'.
Proof.
  destruct vs, v; simpl; try contradiction; destruct v'; simpl; try contradiction; intros H1 H2.
  - destruct H1 as (-> & -> & -> & -> & -> & -> & ->). destruct H2 as (-> & -> & _ & -> & -> & -> & -> & ->). repeat split.
  - destruct H1 as (-> & -> & -> & -> & -> & ->). destruct H2 as (-> & -> & -> & -> & -> & ->). repeat split.
  - congruence.
Qed.

Lemma gcopy_nontype vs v : gcopy vs v -> forall n k d ms ifs r ds, v <> OType n k d ms ifs r ds.
Proof. destruct vs, v; simpl; try contradiction; intros _ ? ? ? ? ? ? ?; discriminate. Qed.

Lemma desc_keep M M' y s : keepm M M' -> desc M y s -> desc M' y s.
Proof.
  intros [Kn K] (vs & vy & Hs & Hy & Hc & Hl). destruct (K y vy Hy (gcopy_nontype _ _ Hc)) as (v' & Hy' & Ha & Ht).
  exists vs, v'. split; [assumption|]. split; [assumption|]. split; [eapply gcopy_same; eauto|].
  eapply tylk_keep; [eapply tylk_fwd; eauto|exact Ht].
Qed.

Lemma oargs_keep M M' y s : keepm M M' -> desc M y s -> oargs M' y = oargs M y.
Proof.
  intros [Kn K] (vs & vy & Hs & Hy & Hc & Hl). destruct (K y vy Hy (gcopy_nontype _ _ Hc)) as (v' & Hy' & Ha & _).
  unfold oargs. rewrite Hy, Hy'. destruct vy, v'; simpl in Ha; try contradiction; try reflexivity.
  destruct Ha as (_ & _ & -> & _). reflexivity.
Qed.

Lemma mdesc_keep M M' y s : keepm M M' -> mdesc M y s -> mdesc M' y s.
Proof.
  intros K [H1 H2]. split; [eapply desc_keep; eauto|]. rewrite (oargs_keep M M' y s K H1).
  eapply subseq_impl; [|exact H2]. intros a sa. apply desc_keep. exact K.
Qed.

End Desc.

(* ------------------------------------------------------ one-for-one descent *)
(* the type object [o] descends from the source's type [t]: same attributes,
   and its members are those of [t], one for one and in order, each with the
   (renamed) attributes of its source and with the source's arguments, one
   for one and in order *)
Definition tfull (src : oid -> option obj) (g : str -> str) (M : mem) (n : str) (o t : oid) : Prop :=
  exists k d ms ifs r ds ms' ifs',
    src t = Some (OType n k d ms ifs r ds) /\ mget M o = Some (OType n k d ms' ifs' r ds) /\
    Forall2 (fun s y => desc src g M y s /\
                        Forall2 (fun sa a => desc src g M a sa) (sargs src s) (oargs M y)) ms ms'.


(* the three kinds of memory steps of the development keep member objects *)
Lemma ext_keepm tm M M' : ext tm M M' -> keepm M M'.
Proof.
  intros He. split; [intros o n; apply (ext_tname tm); exact He|]. intros y v Hy _.
  destruct (ext_keeps tm M M' He y v Hy) as (v' & Hy' & Ha). exists v'. split; [assumption|]. split; [assumption|].
  destruct (proj2 He y v Hy) as (v2 & Hy2 & Hr). rewrite Hy' in Hy2. inversion Hy2; subst v2.
  destruct v, v'; simpl in Hr; try contradiction; unfold tykeep; simpl; auto.
  - destruct Hr as (_ & [->|(_ & A & B)] & _); [left; reflexivity|right; split; assumption].
  - destruct Hr as ([->|(_ & A & B)] & _); [left; reflexivity|right; split; assumption].
Qed.

Lemma same_attrs_refl' v : same_attrs v v.
Proof. destruct v; simpl; repeat split; auto. Qed.

Lemma tnr_keepm M M' : tnr M M' -> keepm M M'.
Proof.
  intros T. split; [intros o n; apply tnr_tname; exact T|]. destruct T as (_ & _ & P).
  intros y v Hy Hnt. exists v. split; [|split; [apply same_attrs_refl'|apply tykeep_refl]].
  apply P; [assumption|]. unfold tyi. rewrite Hy. destruct v; try reflexivity. exfalso. eapply Hnt; reflexivity.
Qed.

Lemma pres_keepm M M' : StoreVisM.pres M M' -> keepm M M'.
Proof. intros P. apply tnr_keepm. apply pres_tnr. exact P. Qed.

Lemma tname_vpres a b o n : StoreVisM.pres a b -> tname a o = Some n -> tname b o = Some n.
Proof.
  intros P. unfold tname. destruct (mget a o) as [v|] eqn:Hv; [|discriminate]. rewrite (proj2 P _ _ Hv). auto.
Qed.

(* map_and_filter: inputs descending (Din) from some of [srcs], in order, give
   outputs descending (Dout) from some of [srcs], in order *)
Section MapFilterSub.
Variables (I : mem -> Prop) (R : mem -> mem -> Prop).
Hypothesis R_refl : forall m, R m m.
Hypothesis R_trans : forall a b c, R a b -> R b c -> R a c.

Lemma map_filter_sub (f : hook) (Din Dout : mem -> oid -> oid -> Prop) :
  (forall m x s m' r, I m -> Din m x s -> f m x = Some (m', r) ->
     I m' /\ R m m' /\ (forall y, r = Some y -> Dout m' y s)) ->
  (forall m m' y s, R m m' -> Din m y s -> Din m' y s) ->
  (forall m m' y s, R m m' -> Dout m y s -> Dout m' y s) ->
  forall srcs l m m' rs, I m -> subseq (Din m) l srcs -> map_filter f m l = Some (m', rs) ->
    I m' /\ R m m' /\ subseq (Dout m') rs srcs.
Proof.
  intros Hf HDi HDo. induction srcs as [|s srcs IH]; intros l m m' rs Hi Hs H.
  - inversion Hs; subst. simpl in H. inversion H; subst. split; [assumption|]. split; [apply R_refl|constructor].
  - inversion Hs as [|s0 srcs0 l0 Hs0|y s0 l0 srcs0 Hd Hs0]; subst.
    + destruct (IH _ _ _ _ Hi Hs0 H) as (A & B & C). split; [assumption|]. split; [assumption|constructor; assumption].
    + simpl in H. destruct (f m y) as [[m1 r]|] eqn:Hfy; [|discriminate].
      destruct (map_filter f m1 l0) as [[m2 rs']|] eqn:Hr; [|discriminate]. inversion H; subst m' rs; clear H.
      destruct (Hf _ _ _ _ _ Hi Hd Hfy) as (I1 & R1 & Q1).
      assert (Hs1 : subseq (Din m1) l0 srcs) by (eapply subseq_impl; [|exact Hs0]; intros a b; apply HDi; exact R1).
      destruct (IH _ _ _ _ I1 Hs1 Hr) as (I2 & R2 & S2).
      split; [assumption|]. split; [eapply R_trans; eauto|].
      destruct r as [y'|]; [|constructor; assumption].
      constructor; [|assumption]. eapply HDo; [exact R2|]. apply Q1. reflexivity.
Qed.
End MapFilterSub.

(* ------------------------------------------- healing keeps the descent *)
Section HealDesc.
Variable src : oid -> option obj.
Variable g : str -> str.
Variable tm : list (str * oid).

Lemma heal_member_desc (D : mem -> oid -> oid -> Prop) m x s m' r :
  (forall a b y t, keepm a b -> D a y t -> D b y t) ->
  inv tm m -> D m x s -> heal_member tm m x = Some (m', r) ->
  inv tm m' /\ ext tm m m' /\ (forall y, r = Some y -> D m' y s).
Proof.
  intros HD Hi Hd H. destruct (heal_member_spec tm _ _ _ _ Hi H) as (Hi' & He & _ & Hr).
  split; [assumption|]. split; [assumption|]. intros y ->. destruct Hr as (-> & _).
  eapply HD; [apply (ext_keepm tm); exact He|exact Hd].
Qed.

Lemma heal_arg_desc m x s m' r :
  inv tm m -> desc src g m x s -> visit_arg (heal_visitor tm) m x = Some (m', r) ->
  inv tm m' /\ ext tm m m' /\ (forall y, r = Some y -> desc src g m' y s).
Proof.
  intros Hi Hd H. rewrite visit_arg_heal in H.
  eapply (heal_member_desc (desc src g)); eauto. intros a b y t K. apply desc_keep. exact K.
Qed.

Lemma heal_inf_desc m x s m' r :
  inv tm m -> mdesc src g m x s -> visit_inf (heal_visitor tm) m x = Some (m', r) ->
  inv tm m' /\ ext tm m m' /\ (forall y, r = Some y -> mdesc src g m' y s).
Proof.
  intros Hi Hd H. rewrite visit_inf_heal in H.
  eapply (heal_member_desc (mdesc src g)); eauto. intros a b y t K. apply mdesc_keep. exact K.
Qed.

Lemma heal_env_desc m x s m' r :
  inv tm m -> mdesc src g m x s -> visit_env (heal_visitor tm) m x = Some (m', r) ->
  inv tm m' /\ ext tm m m' /\ (forall y, r = Some y -> mdesc src g m' y s).
Proof.
  intros Hi Hd H. unfold visit_env, hseq, heal_visitor, hid in H; simpl in H. inversion H; subst.
  split; [assumption|]. split; [apply ext_refl|]. intros y Hy; inversion Hy; subst; assumption.
Qed.

Lemma desc_keepE a b y t : ext tm a b -> desc src g a y t -> desc src g b y t.
Proof. intros He. apply desc_keep. apply (ext_keepm tm). exact He. Qed.
Lemma mdesc_keepE a b y t : ext tm a b -> mdesc src g a y t -> mdesc src g b y t.
Proof. intros He. apply mdesc_keep. apply (ext_keepm tm). exact He. Qed.

Lemma heal_base_field_desc m x s m2 ro :
  inv tm m -> mdesc src g m x s -> base_field (heal_visitor tm) m x = Some (m2, ro) ->
  inv tm m2 /\ ext tm m m2 /\ exists y, ro = Some y /\ mdesc src g m2 y s.
Proof.
  intros Hi Hd Hb.
  unfold base_field in Hb. destruct (mget m x) as [v|] eqn:Hv; [|discriminate].
    destruct v as [|nf py ty args d dp rs sb ds| | |]; try discriminate.
    assert (Hargs : subseq (desc src g m) args (sargs src s)).
    { destruct Hd as [_ Ha]. unfold oargs in Ha. rewrite Hv in Ha. exact Ha. }
    destruct (map_filter (visit_arg (heal_visitor tm)) m args) as [[m1 args']|] eqn:Hmf; [|discriminate].
    destruct (map_filter_sub (inv tm) (ext tm) (ext_refl tm) (ext_trans tm) _ (desc src g) (desc src g)
                heal_arg_desc desc_keepE desc_keepE _ _ _ _ _ Hi Hargs Hmf) as (Hi1 & He1 & Hq1).
    destruct (oids_eqb args' args) eqn:Heq.
    - inversion Hb; subst m2 ro. split; [assumption|]. split; [assumption|]. exists x. split; [reflexivity|].
      eapply mdesc_keepE; eauto.
    - destruct (proj2 He1 x _ Hv) as (v1 & Hg1 & Hr1). rewrite Hg1 in Hb.
      destruct v1 as [|n1 py1 ty1 a1 d1 dp1 rs1 sb1 ds1| | |]; simpl in Hr1; try contradiction.
      destruct Hr1 as (_ & _ & -> & -> & -> & -> & -> & -> & ->).
      destruct (inv_alloc tm m1 (OField nf py ty1 args' d dp rs sb ds) Hi1) as (Hi2 & He2).
      unfold alloc in Hb. inversion Hb; subst m2 ro. clear Hb.
      split; [exact Hi2|]. split; [eapply ext_trans; eauto|]. exists (m_next m1). split; [reflexivity|].
      set (m2 := MkMem ((m_next m1, OField nf py ty1 args' d dp rs sb ds) :: m_heap m1) (N.succ (m_next m1))) in *.
      assert (Hy : mget m2 (m_next m1) = Some (OField nf py ty1 args' d dp rs sb ds)).
      { unfold mget, m2; simpl. rewrite N.eqb_refl. reflexivity. }
      split.
      + destruct (desc_keepE _ _ _ _ He1 (proj1 Hd)) as (vs & vy & Hs & Hvy & Hc & Hl). rewrite Hg1 in Hvy. inversion Hvy; subst vy.
        exists vs, (OField nf py ty1 args' d dp rs sb ds). split; [assumption|]. split; [exact Hy|]. split.
        * destruct vs; simpl in Hc; try contradiction. simpl. exact Hc.
        * eapply tylk_fwd; [intros o n; apply (ext_tname tm); exact He2|]. eapply tylk_oty; [|exact Hl]. reflexivity.
      + unfold oargs. rewrite Hy. eapply subseq_impl; [|exact Hq1]. intros a b. apply desc_keepE. exact He2. 
Qed.

Lemma heal_field_desc m x s m' r :
  inv tm m -> mdesc src g m x s -> visit_field (heal_visitor tm) m x = Some (m', r) ->
  inv tm m' /\ ext tm m m' /\ (forall y, r = Some y -> mdesc src g m' y s).
Proof.
  intros Hi Hd H.
  change (visit_field (heal_visitor tm) m x)
    with (match base_field (heal_visitor tm) m x with
          | None => None
          | Some (m2, None) => Some (m2, None)
          | Some (m2, Some o2) => heal_member tm m2 o2
          end) in H.
  destruct (base_field (heal_visitor tm) m x) as [[m2 ro]|] eqn:Hb; [|discriminate].
  destruct (heal_base_field_desc _ _ _ _ _ Hi Hd Hb) as (Hi2 & He2 & y & -> & Hy).
  destruct (heal_member_desc (mdesc src g) _ _ _ _ _ (fun a b y0 t K => mdesc_keep src g a b y0 t K) Hi2 Hy H) as (Hi' & He & Hr).
  split; [assumption|]. split; [eapply ext_trans; eauto|]. exact Hr.
Qed.

Lemma tdesc_ext m m' n o t : ext tm m m' -> tdesc src g m n o t -> tdesc src g m' n o t.
Proof.
  intros He (k & d & ms & ifs & r & ds & ms' & ifs' & Hs & Ho & Hm).
  destruct (proj2 He o _ Ho) as (v' & Hg' & Hr).
  destruct v' as [n2 k2 d2 ms2 ifs2 r2 ds2| | | |]; simpl in Hr; try contradiction.
  destruct Hr as (-> & -> & -> & _ & -> & -> & ->).
  exists k, d, ms, ifs, r, ds, ms', ifs2. split; [assumption|]. split; [assumption|].
  eapply subseq_impl; [|exact Hm]. intros a b. apply mdesc_keepE. exact He.
Qed.

(* on_<type> of the healing visitor *)
Lemma heal_type_desc m t m' r n st :
  inv tm m -> tdesc src g m n t st -> visit_type (heal_visitor tm) m t = Some (m', r) ->
  exists y, r = Some y /\ tdesc src g m' n y st.
Proof.
  intros Hi Hd H.
  change (visit_type (heal_visitor tm) m t)
    with (match base_type (heal_visitor tm) m t with
          | None => None
          | Some (m2, None) => Some (m2, None)
          | Some (m2, Some o2) => heal_type tm m2 o2
          end) in H.
  destruct (base_type (heal_visitor tm) m t) as [[m2 ro]|] eqn:Hb; [|discriminate].
  destruct (base_type_spec tm _ _ _ _ Hi Hb) as (Hi2 & He2 & y & n2 & k2 & d2 & ms2 & ifs2 & rs2 & ds2 & -> & Hg2 & Hmg & _ & _).
  assert (Hbase : tdesc src g m2 n y st).
  { destruct Hd as (k & d & ms & ifs & r0 & ds & ms' & ifs' & Hs & Ho & Hm).
    unfold base_type in Hb. rewrite Ho in Hb.
    assert (Hsame : m2 = m -> y = t -> tdesc src g m2 n y st).
    { intros -> ->. exists k, d, ms, ifs, r0, ds, ms', ifs'. auto. }
    assert (Hgen : forall h : hook,
      (forall m x s m' r, inv tm m -> mdesc src g m x s -> h m x = Some (m', r) ->
         inv tm m' /\ ext tm m m' /\ (forall y, r = Some y -> mdesc src g m' y s)) ->
      subseq (mdesc src g m) ms' ms ->
      match map_filter h m ms' with
      | None => None
      | Some (m1, members') =>
          if oids_eqb members' ms' then Some (m1, Some t)
          else match mget m1 t with
               | Some (OType n1 k1 d1 _ ifaces r1 ds1) =>
                   let (m3, t') := alloc m1 (OType n1 k1 d1 members' ifaces r1 ds1) in Some (m3, Some t')
               | _ => None
               end
      end = Some (m2, Some y) -> tdesc src g m2 n y st).
    { intros h Hh Hms H0. destruct (map_filter h m ms') as [[m1 ms'']|] eqn:Hmf; [|discriminate].
      destruct (map_filter_sub (inv tm) (ext tm) (ext_refl tm) (ext_trans tm) h (mdesc src g) (mdesc src g) Hh
                  mdesc_keepE mdesc_keepE _ _ _ _ _ Hi Hms Hmf) as (Hi1 & He1 & Hq1).
      destruct (proj2 He1 t _ Ho) as (v1 & Hg1 & Hr1).
      destruct v1 as [n1 k1 d1 ms1 ifs1 rs1 ds1| | | |]; simpl in Hr1; try contradiction.
      destruct Hr1 as (-> & -> & -> & _ & -> & -> & ->).
      destruct (oids_eqb ms'' ms') eqn:Heq.
      - inversion H0; subst m2 y. apply oids_eqb_eq in Heq. subst ms''.
        exists k, d, ms, ifs, r0, ds, ms', ifs1. split; [assumption|]. split; [assumption|]. exact Hq1.
      - rewrite Hg1 in H0.
        destruct (inv_alloc tm m1 (OType n k d ms'' ifs1 r0 ds) Hi1) as (Hi3 & He3).
        unfold alloc in H0. inversion H0; subst m2 y. clear H0.
        exists k, d, ms, ifs, r0, ds, ms'', ifs1. split; [assumption|].
        split; [unfold mget; simpl; rewrite N.eqb_refl; reflexivity|].
        eapply subseq_impl; [|exact Hq1]. intros a b. apply mdesc_keepE. exact He3. }
    destruct k.
    - inversion Hb; subst. apply Hsame; reflexivity.
    - apply (Hgen (visit_field (heal_visitor tm)) heal_field_desc Hm Hb).
    - apply (Hgen (visit_field (heal_visitor tm)) heal_field_desc Hm Hb).
    - inversion Hb; subst. apply Hsame; reflexivity.
    - apply (Hgen (visit_env (heal_visitor tm)) heal_env_desc Hm Hb).
    - apply (Hgen (visit_inf (heal_visitor tm)) heal_inf_desc Hm Hb). }
  destruct (heal_type_spec tm _ _ _ _ _ _ _ _ _ _ _ Hi2 Hg2 Hmg H) as (Hi' & He' & -> & _).
  exists y. split; [reflexivity|]. eapply tdesc_ext; eauto.
Qed.

End HealDesc.

Section LoopDesc.
Variable src : oid -> option obj.
Variable g : str -> str.
Variable S : list (str * oid).          (* the source's registry *)

(* every registered type descends from the source type of the same name *)
Definition redesc (m : mem) (tm : list (str * oid)) : Prop :=
  forall n o, In (n, o) tm -> is_builtin o = false -> exists t, In (n, t) S /\ tdesc src g m n o t.

Lemma tdesc_exists m n o t : tdesc src g m n o t -> exists v, mget m o = Some v.
Proof. intros (k & d & ms & ifs & r & ds & ms' & ifs' & _ & Ho & _). eauto. Qed.

Lemma traverse_types_desc tm0 : forall l m m' ups,
  inv tm0 m ->
  (forall n o, In (n, o) l -> is_builtin o = false -> exists t, In (n, t) S /\ tdesc src g m n o t) ->
  traverse_list (visit_type (heal_visitor tm0)) is_builtin m l = Some (m', ups) ->
  forall n y, In (n, Some y) ups -> exists t, In (n, t) S /\ tdesc src g m' n y t.
Proof.
  induction l as [|[n0 o0] l IH]; intros m m' ups Hi Hl H n y Hin; simpl in H.
  - inversion H; subst. destruct Hin.
  - assert (Hl' : forall n1 o1, In (n1, o1) l -> is_builtin o1 = false -> exists t, In (n1, t) S /\ tdesc src g m n1 o1 t)
      by (intros n1 o1 Hi1 Hb1; apply (Hl n1 o1); [right; assumption|assumption]).
    destruct (is_builtin o0) eqn:Hb0; [exact (IH m m' ups Hi Hl' H n y Hin)|].
    destruct (visit_type (heal_visitor tm0) m o0) as [[m1 r]|] eqn:Hv; [|discriminate].
    destruct (traverse_list (visit_type (heal_visitor tm0)) is_builtin m1 l) as [[m2 ups']|] eqn:Ht; [|discriminate].
    inversion H; subst m' ups; clear H.
    destruct (Hl n0 o0 (or_introl eq_refl) Hb0) as (t0 & Ht0 & Hd0).
    destruct (heal_type_hook tm0 _ _ _ _ Hi Hv) as (Hi1 & He1 & y1 & -> & _ & _).
    destruct (traverse_types_spec tm0 _ _ _ _ Hi1 Ht) as (Hi2 & He2 & _ & _).
    assert (Hl1 : forall n1 o1, In (n1, o1) l -> is_builtin o1 = false -> exists t, In (n1, t) S /\ tdesc src g m1 n1 o1 t).
    { intros n1 o1 Hin1 Hb1. destruct (Hl' n1 o1 Hin1 Hb1) as (t1 & A & B). exists t1. split; [assumption|eapply tdesc_ext; [exact He1|exact B]]. }
    assert (Hcases : (n, Some y) = (n0, Some y1) \/ In (n, Some y) ups').
    { destruct (ooid_eqb (Some y1) (Some o0)); [right; assumption|destruct Hin; auto]. }
    destruct Hcases as [Heq|Hin'].
    + inversion Heq; subst n y. destruct (heal_type_desc src g tm0 _ _ _ _ _ _ Hi Hd0 Hv) as (y2 & Hy2 & Hgood).
      inversion Hy2; subst y2. exists t0. split; [assumption|eapply tdesc_ext; [exact He2|exact Hgood]].
    + exact (IH m1 m2 ups' Hi1 Hl1 Ht n y Hin').
Qed.

(* the healing loop keeps the descent of every registered type *)
Lemma heal_from_desc : forall fuel m s m' s',
  fresh_ok m -> wf_reg m (s_types s) -> redesc m (s_types s) ->
  heal_from fuel m s = Ok (m', s') -> redesc m' (s_types s').
Proof.
  induction fuel as [|fuel IH]; intros m s m' s' Hf Hwf Hrd H; unfold heal_from in H.
  - destruct (traverse _ m s) as [[[m1 tu] du]|]; simpl in H; discriminate.
  - unfold traverse in H.
    destruct (traverse_list (visit_type (heal_visitor (s_types s))) is_builtin m (s_types s))
      as [[m1 tu]|] eqn:Ht; [|discriminate].
    destruct (traverse_list (visit_dir (heal_visitor (s_types s))) (fun _ => false) m1 (s_dirs s))
      as [[m2 du]|] eqn:Hd; [|discriminate].
    assert (Hi : inv (s_types s) m) by (split; [assumption|apply wf_reg_lookup; assumption]).
    destruct (traverse_types_spec _ _ _ _ _ Hi Ht) as (Hi1 & He1 & _ & Hups).
    destruct (traverse_dirs_spec _ _ _ _ _ Hi1 Hd) as (Hi2 & He2 & _ & _).
    assert (He : ext (s_types s) m m2) by (eapply ext_trans; eauto).
    assert (Hwf2 : wf_reg m2 (s_types s)) by (eapply wf_reg_ext; eauto).
    assert (Htu : forall n y, In (n, Some y) tu -> exists t, In (n, t) S /\ tdesc src g m2 n y t).
    { intros n y Hin. destruct (traverse_types_desc _ _ _ _ _ Hi Hrd Ht n y Hin) as (t & A & B).
      exists t. split; [assumption|eapply tdesc_ext; [exact He2|exact B]]. }
    rewrite replace_and_heal_S in H.
    destruct (replace_types m2 tu (s_types s) false) as [[tm' b]| | |] eqn:Hrt; simpl in H; try discriminate.
    destruct (replace_dirs du (s_dirs s)) as [dm| | |] eqn:Hrd2; simpl in H; try discriminate.
    assert (Hwf' : wf_reg m2 tm').
    { eapply replace_types_wf; [exact Hwf2| |exact Hrt].
      intros n y Hin. destruct (Hups n (Some y) Hin) as (o & y' & Ho & Hy & Ht'). inversion Hy; subst y'.
      eapply ext_tname; [exact He2|]. apply Ht'. destruct Hwf as [_ Hn]. auto. }
    assert (Hrd' : redesc m2 tm').
    { intros n o Hin Hb. destruct (replace_types_in _ _ _ _ _ _ _ _ Hrt Hin) as [Ha|Hb'].
      - destruct (Hrd n o Ha Hb) as (t & A & B). exists t. split; [assumption|eapply tdesc_ext; [exact He|exact B]].
      - apply Htu. assumption. }
    destruct b.
    + match type of H with obind (heal_from fuel m2 ?s1) _ = _ =>
        destruct (heal_from fuel m2 s1) as [[m3 s3]| | |] eqn:Hrec; simpl in H; try discriminate;
        pose proof (IH m2 s1 m3 s3 (proj1 Hi2) Hwf' Hrd' Hrec) as A end.
      inversion H; subst. exact A.
    + inversion H; subst. exact Hrd'.
Qed.

End LoopDesc.

(* ------------------------------------------------ the visibility pass *)
Section VisDesc.
Variable src : oid -> option obj.
Variable p : vis_preds.
Notation D := (desc src (fun n => n)).
Notation MD := (mdesc src (fun n => n)).
Notation TD := (tdesc src (fun n => n)).
Notation vpres := StoreVisM.pres.

Lemma D_pres a b y t : vpres a b -> D a y t -> D b y t.
Proof. intros P. apply desc_keep. apply pres_keepm. exact P. Qed.
Lemma MD_pres a b y t : vpres a b -> MD a y t -> MD b y t.
Proof. intros P. apply mdesc_keep. apply pres_keepm. exact P. Qed.

Lemma vis_arg_desc m x s m' r :
  vinv m -> D m x s -> visit_arg (vis_visitor p) m x = Some (m', r) ->
  vinv m' /\ vpres m m' /\ (forall y, r = Some y -> D m' y s).
Proof.
  intros Hi Hd H. unfold visit_arg, hseq in H. simpl in H.
  destruct (by_name (vp_arg p) m x) as [[m1 ro]|] eqn:E; [|discriminate].
  destruct (by_name_good _ _ _ _ _ E) as (-> & C).
  destruct ro as [o1|]; unfold hid in H; inversion H; subst; (split; [assumption|]; split; [apply pres_refl|]).
  - intros y Hy. inversion Hy; subst. destruct (C y eq_refl) as (_ & ->). assumption.
  - intros y Hy; discriminate.
Qed.

Lemma vis_field_desc m x s m' r :
  vinv m -> MD m x s -> visit_field (vis_visitor p) m x = Some (m', r) ->
  vinv m' /\ vpres m m' /\ (forall y, r = Some y -> MD m' y s).
Proof.
  intros Hi Hd H. unfold visit_field, hseq in H. simpl in H. unfold hid in H at 1.
  destruct (base_field (vis_visitor p) m x) as [[m2 ro]|] eqn:Hb; [|discriminate].
  assert (Hbase : vinv m2 /\ vpres m m2 /\ forall y, ro = Some y -> MD m2 y s).
  { unfold base_field in Hb. destruct (mget m x) as [v|] eqn:Hv; [|discriminate].
    destruct v as [|nf py ty args d dp rs sb ds| | |]; try discriminate.
    assert (Hargs : subseq (D m) args (sargs src s)).
    { destruct Hd as [_ Ha]. unfold oargs in Ha. rewrite Hv in Ha. exact Ha. }
    destruct (map_filter (visit_arg (vis_visitor p)) m args) as [[m1 args']|] eqn:Hmf; [|discriminate].
    destruct (map_filter_sub vinv vpres pres_refl pres_trans _ (desc src (fun n => n)) (desc src (fun n => n))
                vis_arg_desc D_pres D_pres _ _ _ _ _ Hi Hargs Hmf) as (Hi1 & R1 & Hq1).
    pose proof (proj2 R1 x _ Hv) as Hg1.
    destruct (oids_eqb args' args) eqn:Heq.
    - inversion Hb; subst m2 ro. split; [assumption|]. split; [assumption|]. intros y Hy. inversion Hy; subst y.
      eapply MD_pres; eauto.
    - rewrite Hg1 in Hb. destruct (pres_alloc m1 (OField nf py ty args' d dp rs sb ds) Hi1) as (Hi2 & R2).
      unfold alloc in Hb, Hi2, R2. simpl in Hi2, R2. inversion Hb; subst m2 ro.
      split; [assumption|]. split; [eapply pres_trans; eauto|]. intros y Hy. inversion Hy; subst y.
      set (m2 := MkMem ((m_next m1, OField nf py ty args' d dp rs sb ds) :: m_heap m1) (N.succ (m_next m1))) in *.
      assert (Hy2 : mget m2 (m_next m1) = Some (OField nf py ty args' d dp rs sb ds)).
      { unfold mget, m2; simpl. rewrite N.eqb_refl. reflexivity. }
      split.
      + destruct Hd as [(vs & vy & Hs & Hvy & Hc & Hl) _]. rewrite Hv in Hvy. inversion Hvy; subst vy.
        exists vs, (OField nf py ty args' d dp rs sb ds). split; [assumption|]. split; [exact Hy2|]. split.
        * destruct vs; simpl in Hc; try contradiction. simpl. exact Hc.
        * eapply tylk_fwd; [intros o0 n0 A; eapply tname_vpres; [exact R2|]; eapply tname_vpres; [exact R1|exact A]|].
          eapply tylk_oty; [|exact Hl]. reflexivity.
      + unfold oargs. rewrite Hy2. eapply subseq_impl; [|exact Hq1]. intros a b. apply D_pres. exact R2. }
  destruct Hbase as (A & B & C). destruct ro as [y|]; unfold hid in H; inversion H; subst.
  - split; [assumption|]. split; [assumption|]. intros z Hz. inversion Hz; subst. apply C. reflexivity.
  - split; [assumption|]. split; [assumption|]. intros z Hz; discriminate.
Qed.

Lemma vis_inf_desc m x s m' r :
  vinv m -> MD m x s -> visit_inf (vis_visitor p) m x = Some (m', r) ->
  vinv m' /\ vpres m m' /\ (forall y, r = Some y -> MD m' y s).
Proof.
  intros Hi Hd H. unfold visit_inf, hseq in H. simpl in H.
  unfold vis_inf_pre in H. destruct (mget m x) as [[| |ia nn py ty df dd dss| |]|]; try discriminate.
  destruct (type_visible p m (unwrap ty)); unfold hid in H; inversion H; subst;
    (split; [assumption|]; split; [apply pres_refl|]; intros y Hy; inversion Hy; subst). assumption.
Qed.

Lemma vis_env_desc m x s m' r :
  vinv m -> MD m x s -> visit_env (vis_visitor p) m x = Some (m', r) ->
  vinv m' /\ vpres m m' /\ (forall y, r = Some y -> MD m' y s).
Proof.
  intros Hi Hd H. unfold visit_env, hseq in H. simpl in H.
  destruct (by_name (vp_env p) m x) as [[m1 ro]|] eqn:E; [|discriminate].
  destruct (by_name_good _ _ _ _ _ E) as (-> & C).
  destruct ro as [o1|]; unfold hid in H; inversion H; subst; (split; [assumption|]; split; [apply pres_refl|]).
  - intros y Hy. inversion Hy; subst. destruct (C y eq_refl) as (_ & ->). assumption.
  - intros y Hy; discriminate.
Qed.

(* the pre hook keeps the type object but for a filtered member list *)
Lemma vis_type_pre_exact m o m1 n k d ms ifs r ds :
  mget m o = Some (OType n k d ms ifs r ds) -> vis_type_pre p m o = Some (m1, Some o) ->
  exists f, mget m1 o = Some (OType n k d (filter f ms) ifs r ds).
Proof.
  intros Hg Ep. unfold vis_type_pre in Ep. rewrite Hg in Ep.
  assert (Hw : forall q, exists f,
            mget (if oids_eqb (filter_by_name m q ms) ms then m else write m o (OType n k d (filter_by_name m q ms) ifs r ds)) o
              = Some (OType n k d (filter f ms) ifs r ds)).
  { intros q. destruct (oids_eqb (filter_by_name m q ms) ms) eqn:Heq.
    - apply oids_eqb_eq in Heq. exists (fun o0 => match oname m o0 with Some n0 => q n0 | None => false end).
      unfold filter_by_name in Heq. rewrite Heq. exact Hg.
    - exists (fun o0 => match oname m o0 with Some n0 => q n0 | None => false end).
      rewrite mget_write, N.eqb_refl. reflexivity. }
  assert (Hid : exists f, mget m o = Some (OType n k d (filter f ms) ifs r ds)).
  { exists (fun _ => true). rewrite Hg. f_equal. f_equal. clear. induction ms; simpl; congruence. }
  destruct k; try (inversion Ep; subst; exact Hid).
  - destruct (type_visible p m o); inversion Ep; subst. apply Hw.
  - destruct (type_visible p m o); inversion Ep; subst. apply Hw.
  - inversion Ep; subst. apply Hw.
Qed.

Lemma vis_base_type_desc m1 o m2 y2 n k d ms' ifs r ds ms :
  vinv m1 -> mget m1 o = Some (OType n k d ms' ifs r ds) -> subseq (MD m1) ms' ms ->
  base_type (vis_visitor p) m1 o = Some (m2, Some y2) ->
  vpres m1 m2 /\ exists ms2 ifs2, mget m2 y2 = Some (OType n k d ms2 ifs2 r ds) /\ subseq (MD m2) ms2 ms.
Proof.
  intros I1 Hg1 Hms Eb. unfold base_type in Eb. rewrite Hg1 in Eb.
  assert (Hgen : forall (h : hook),
    (forall m x s m' r, vinv m -> MD m x s -> h m x = Some (m', r) ->
       vinv m' /\ vpres m m' /\ (forall y, r = Some y -> MD m' y s)) ->
    match map_filter h m1 ms' with
    | None => None
    | Some (mx, members') =>
        if oids_eqb members' ms' then Some (mx, Some o)
        else match mget mx o with
             | Some (OType n1 k1 d1 _ ifaces r1 ds1) =>
                 let (m3, t') := alloc mx (OType n1 k1 d1 members' ifaces r1 ds1) in Some (m3, Some t')
             | _ => None
             end
    end = Some (m2, Some y2) ->
    vpres m1 m2 /\ exists ms2 ifs2, mget m2 y2 = Some (OType n k d ms2 ifs2 r ds) /\ subseq (MD m2) ms2 ms).
  { intros h Hh H0. destruct (map_filter h m1 ms') as [[mx ms'']|] eqn:Hmf; [|discriminate].
    destruct (map_filter_sub vinv vpres pres_refl pres_trans h (mdesc src (fun n0 => n0)) (mdesc src (fun n0 => n0)) Hh
                MD_pres MD_pres _ _ _ _ _ I1 Hms Hmf) as (Ix & Rx & Hqx).
    pose proof (proj2 Rx o _ Hg1) as Hgx.
    destruct (oids_eqb ms'' ms') eqn:Heq.
    - inversion H0; subst m2 y2. apply oids_eqb_eq in Heq. subst ms''. split; [assumption|]. exists ms', ifs. split; assumption.
    - rewrite Hgx in H0. unfold alloc in H0. inversion H0; subst m2 y2.
      destruct (pres_alloc mx (OType n k d ms'' ifs r ds) Ix) as (_ & R3). unfold alloc in R3; simpl in R3.
      split; [eapply pres_trans; eauto|].
      exists ms'', ifs. split; [unfold mget; simpl; rewrite N.eqb_refl; reflexivity|].
      eapply subseq_impl; [|exact Hqx]. intros a b. apply MD_pres. exact R3. }
  assert (Hsame : Some (m1, Some o) = Some (m2, Some y2) ->
            vpres m1 m2 /\ exists ms2 ifs2, mget m2 y2 = Some (OType n k d ms2 ifs2 r ds) /\ subseq (MD m2) ms2 ms).
  { intros H0. inversion H0; subst. split; [apply pres_refl|]. exists ms', ifs. split; assumption. }
  destruct k; [apply Hsame; exact Eb|apply (Hgen _ vis_field_desc Eb)|apply (Hgen _ vis_field_desc Eb)|
               apply Hsame; exact Eb|apply (Hgen _ vis_env_desc Eb)|apply (Hgen _ vis_inf_desc Eb)].
Qed.

Lemma vis_type_desc m o m' y n t :
  vinv m -> TD m n o t -> is_builtin o = false ->
  visit_type (vis_visitor p) m o = Some (m', Some y) -> TD m' n y t.
Proof.
  intros Hi (k & d & ms & ifs & r & ds & ms' & ifs' & Hs & Ho & Hm) Hb H.
  assert (Hty : tyi m o = Some (n, k)) by (unfold tyi; rewrite Ho; reflexivity).
  change (visit_type (vis_visitor p) m o) with (hseq (vis_type_pre p) (base_type (vis_visitor p)) (vis_type_post p) m o) in H.
  unfold hseq in H.
  destruct (vis_type_pre p m o) as [[m1 r1]|] eqn:Ep; [|discriminate].
  destruct (vis_type_pre_spec p _ _ _ _ _ _ Hi Hty Hb Ep) as (I1 & R1 & Hr1).
  destruct r1 as [o1|]; [|discriminate].
  assert (o1 = o) by (destruct k; try (inversion Hr1; reflexivity); destruct (vp_type p n); inversion Hr1; reflexivity).
  subst o1. destruct (vis_type_pre_exact _ _ _ _ _ _ _ _ _ _ Ho Ep) as (f & Hg1).
  assert (Hms1 : subseq (MD m1) (filter f ms') ms).
  { apply subseq_filter. eapply subseq_impl; [|exact Hm]. intros a b. apply mdesc_keep. apply tnr_keepm. exact R1. }
  destruct (base_type (vis_visitor p) m1 o) as [[m2 r2]|] eqn:Eb; [|discriminate].
  destruct r2 as [y2|]; [|discriminate].
  destruct (vis_base_type_desc _ _ _ _ _ _ _ _ _ _ _ _ I1 Hg1 Hms1 Eb) as (_ & ms2 & ifs2 & Hg2 & Hm2).
  unfold vis_type_post in H. destruct (tkind m2 y2) as [k2|]; [|discriminate].
  assert (Hres : m' = m2 /\ y = y2) by (destruct k2; try (destruct (type_visible p m2 y2)); inversion H; auto).
  destruct Hres as (-> & ->). exists k, d, ms, ifs, r, ds, ms2, ifs2. auto.
Qed.

End VisDesc.

Section VisDescFinal.
Variable src : oid -> option obj.
Variable p : vis_preds.
Variable S : list (str * oid).
Notation TD := (tdesc src (fun n => n)).

Lemma TD_keep m m' n y t v :
  tnr m m' -> mget m y = Some v -> mget m' y = Some v -> TD m n y t -> TD m' n y t.
Proof.
  intros R Hg Hg' (k & d & ms & ifs & r & ds & ms' & ifs' & Hs & Ho & Hm).
  exists k, d, ms, ifs, r, ds, ms', ifs'. split; [assumption|]. rewrite Hg in Ho. split; [rewrite Hg'; exact Ho|].
  eapply subseq_impl; [|exact Hm]. intros a b. apply mdesc_keep. apply tnr_keepm. exact R.
Qed.

Lemma vis_traverse_desc : forall l m m' ups,
  vinv m -> NoDup (map fst l) -> (forall n o, In (n, o) l -> tname m o = Some n) ->
  (forall n o, In (n, o) l -> is_builtin o = false -> exists t, In (n, t) S /\ TD m n o t) ->
  traverse_list (visit_type (vis_visitor p)) is_builtin m l = Some (m', ups) ->
  (forall n y, In (n, Some y) ups -> exists t, In (n, t) S /\ TD m' n y t) /\
  (forall n o, In (n, o) l -> is_builtin o = false -> (forall r, ~ In (n, r) ups) -> exists t, In (n, t) S /\ TD m' n o t).
Proof.
  induction l as [|[n0 o0] l IH]; intros m m' ups Hi Hnd Hnames Hd H; simpl in H.
  - inversion H; subst. split; [intros ? ? []|intros ? ? []].
  - inversion Hnd as [|? ? Hn0 Hnd']; subst.
    assert (Hnames' : forall n o, In (n, o) l -> tname m o = Some n) by (intros; apply Hnames; right; assumption).
    assert (Hd' : forall n o, In (n, o) l -> is_builtin o = false -> exists t, In (n, t) S /\ TD m n o t)
      by (intros n o Hin Hb; apply (Hd n o); [right; assumption|assumption]).
    destruct (is_builtin o0) eqn:Hb0.
    + destruct (IH _ _ _ Hi Hnd' Hnames' Hd' H) as (A & B). split; [assumption|].
      intros n o [Heq|Hin] Hb Hno; [inversion Heq; subst; congruence|eauto].
    + destruct (visit_type (vis_visitor p) m o0) as [[m1 r]|] eqn:Hv; [|discriminate].
      destruct (traverse_list (visit_type (vis_visitor p)) is_builtin m1 l) as [[m2 ups']|] eqn:Hl; [|discriminate].
      inversion H; subst m' ups; clear H.
      pose proof (Hnames n0 o0 (or_introl eq_refl)) as Ht0. destruct (tname_tyi _ _ _ Ht0) as (k0 & Hty0).
      destruct (vis_visit_type p _ _ _ _ _ Hi Ht0 Hb0 Hv) as (I1 & R1 & _ & _).
      assert (Hnames1 : forall n o, In (n, o) l -> tname m1 o = Some n)
        by (intros n o Hin; eapply tnr_tname; [exact R1|apply Hnames'; assumption]).
      (* the rest of the loop does not touch what the visit of o0 returned, nor the other entries' cells *)
      destruct (vis_traverse_good p _ _ _ _ I1 Hnd' Hnames1 Hl) as (I2 & R2 & C2 & _ & _).
      destruct (traverse_list_keys _ _ _ _ _ _ Hnd' Hl) as (_ & Hkeys).
      (* entries of the tail still descend in m1: the visit of o0 only wrote o0 and fresh cells *)
      assert (Hd1 : forall n o, In (n, o) l -> is_builtin o = false -> exists t, In (n, t) S /\ TD m1 n o t).
      { intros n o Hin Hb. destruct (Hd' n o Hin Hb) as (t & A & B). exists t. split; [assumption|].
        destruct (tdesc_exists _ _ _ _ _ _ B) as (v & Hvo).
        assert (Hne : o <> o0).
        { intros ->. pose proof (Hnames' n o0 Hin) as Hx. rewrite Ht0 in Hx. inversion Hx; subst n.
          apply Hn0. apply in_map_iff. exists (n0, o0); split; auto. }
        assert (Hkeep : mget m1 o = Some v).
        { destruct r as [y|].
          - destruct (vis_type_good p _ _ _ _ _ _ Hi Hty0 Hb0 Hv) as (_ & _ & Fr). apply Fr; assumption.
          - (* dropped: use the generic frame of the traversal of the singleton list *)
            assert (Hsing : traverse_list (visit_type (vis_visitor p)) is_builtin m [(n0, o0)] = Some (m1, [(n0, None)])).
            { simpl. rewrite Hb0, Hv. simpl. reflexivity. }
            destruct (vis_traverse_good p [(n0, o0)] m m1 _ Hi
                        (ltac:(simpl; constructor; [intros []|constructor]))
                        (fun n1 o1 Hin1 => match Hin1 with
                                           | or_introl e => eq_ind (n0, o0) (fun q => tname m (snd q) = Some (fst q)) Ht0 _ e
                                           | or_intror f => match f with end
                                           end) Hsing) as (_ & _ & C1 & _ & _).
            apply C1; [assumption|]. intros n1 o1 [He|[]] _. inversion He; subst. exact Hne. }
        eapply TD_keep; eauto. }
      destruct (IH _ _ _ I1 Hnd' Hnames1 Hd1 Hl) as (A2 & B2).
      assert (Hhead : forall y, r = Some y -> exists t, In (n0, t) S /\ TD m2 n0 y t).
      { intros y ->. destruct (Hd n0 o0 (or_introl eq_refl) Hb0) as (t0 & At & Bt). exists t0. split; [assumption|].
        pose proof (vis_type_desc src p _ _ _ _ _ _ Hi Bt Hb0 Hv) as Hg1.
        destruct (vis_type_good p _ _ _ _ _ _ Hi Hty0 Hb0 Hv) as (_ & Hty & _).
        destruct (tyi_exists _ _ _ Hty) as (v & Hvy).
        assert (Hkeep : mget m2 y = Some v).
        { apply C2; [assumption|]. intros n o Hin Hb Heq. subst o.
          pose proof (Hnames1 n y Hin) as Hny. destruct (tyi_tname _ _ _ _ Hty) as (Hny' & _).
          rewrite Hny in Hny'. inversion Hny'; subst n. apply Hn0. apply in_map_iff. exists (n0, y); split; auto. }
        eapply TD_keep; eauto. }
      split.
      * intros n y Hin. destruct (ooid_eqb r (Some o0)) eqn:Heq; [apply A2; assumption|].
        destruct Hin as [He|Hin]; [|apply A2; assumption]. inversion He; subst. apply Hhead. reflexivity.
      * intros n o [He|Hin] Hb Hno.
        -- inversion He; subst n o. destruct (ooid_eqb r (Some o0)) eqn:Heq.
           ++ apply ooid_eqb_eq in Heq. apply Hhead. assumption.
           ++ exfalso. apply (Hno r). left; reflexivity.
        -- apply B2; [assumption|assumption|]. intros r0 Hin0. apply (Hno r0).
           destruct (ooid_eqb r (Some o0)); [assumption|right; assumption].
Qed.

(* the visibility transform applied in place to a schema whose types descend
   from the source's: so do the types of the result *)
Theorem vis_desc fuel m s m' s' :
  fresh_ok m -> builtins_ok m -> NoDup (map fst (s_types s)) ->
  (forall n o, In (n, o) (s_types s) -> tname m o = Some n) ->
  redesc src (fun n => n) S m (s_types s) ->
  on_schema fuel (vis_visitor p) m s = Ok (m', s') ->
  redesc src (fun n => n) S m' (s_types s').
Proof.
  intros Hf Hb Hnd Hnames Hrd H.
  assert (Hi : vinv m).
  { split; [assumption|]. destruct (N.lt_ge_cases 5 (m_next m)) as [Hlt|Hle]; [assumption|].
    assert (Hin : In (str_of_string "ID", 5) builtin_types) by (simpl; auto 10).
    pose proof (Hb _ _ Hin) as Hg. rewrite (Hf 5 Hle) in Hg. discriminate. }
  unfold on_schema, traverse in H.
  destruct (traverse_list (visit_type (vis_visitor p)) is_builtin m (s_types s)) as [[m1 tu]|] eqn:Ht; [|discriminate].
  destruct (traverse_list (visit_dir (vis_visitor p)) (fun _ => false) m1 (s_dirs s)) as [[m2 du]|] eqn:Hd; [|discriminate].
  destruct (vis_traverse_good p _ _ _ _ Hi Hnd Hnames Ht) as (I1 & R1 & _ & Dt & _).
  destruct (vis_traverse_desc _ _ _ _ Hi Hnd Hnames Hrd Ht) as (Du & Dk).
  destruct (vis_traverse_dirs p _ _ _ _ I1 Hd) as (I2 & R2 & _ & _).
  pose proof (pres_tnr _ _ R2) as R2t.
  assert (Hkeep : forall n y t, TD m1 n y t -> TD m2 n y t).
  { intros n y t Hg. destruct (tdesc_exists _ _ _ _ _ _ Hg) as (v & Hv).
    eapply TD_keep; [exact R2t|exact Hv|apply (proj2 R2); exact Hv|exact Hg]. }
  destruct fuel as [|fuel]; [simpl in H; discriminate|].
  rewrite replace_and_heal_S in H.
  destruct (replace_types m2 tu (s_types s) false) as [[tm1 b]| | |] eqn:Hrt; simpl in H; try discriminate.
  destruct (replace_dirs du (s_dirs s)) as [dm| | |] eqn:Hrd2; simpl in H; try discriminate.
  assert (Hwf2 : wf_reg m2 (s_types s)).
  { split; [assumption|]. intros n o Hin. eapply tnr_tname; [exact R2t|]. eapply tnr_tname; [exact R1|]. auto. }
  assert (Hwf' : wf_reg m2 tm1).
  { eapply replace_types_wf; [exact Hwf2| |exact Hrt]. intros n y Hin.
    eapply tnr_tname; [exact R2t|]. exact (proj2 (Dt n y Hin)). }
  assert (Hrg : redesc src (fun n => n) S m2 tm1).
  { intros n o Hin Hbo. destruct (replace_types_in_strict _ _ _ _ _ _ _ _ Hnd Hrt Hin) as [Hu|[Ho Hno]].
    - destruct (Du n o Hu) as (t & A & B). exists t. split; [assumption|apply Hkeep; assumption].
    - destruct (Dk n o Ho Hbo Hno) as (t & A & B). exists t. split; [assumption|apply Hkeep; assumption]. }
  destruct b.
  - match type of H with obind (heal_from fuel m2 ?s1) _ = _ =>
      destruct (heal_from fuel m2 s1) as [[m3 s3]| | |] eqn:Hrec; simpl in H; try discriminate;
      pose proof (heal_from_desc src (fun n => n) S fuel m2 s1 m3 s3 (proj1 I2) Hwf' Hrg Hrec) as A end.
    inversion H; subst. exact A.
  - inversion H; subst. exact Hrg.
Qed.

End VisDescFinal.

(* ------------------------------------------------ the camel-casing pass *)
Lemma subseq_nil_l D srcs : subseq D [] srcs.
Proof. induction srcs; constructor; assumption. Qed.

Lemma subseq_src_and (D : oid -> oid -> Prop) (P : oid -> Prop) l srcs :
  (forall s, In s srcs -> P s) -> subseq D l srcs -> subseq (fun y s => D y s /\ P s) l srcs.
Proof.
  intros HP Hs. induction Hs as [|s srcs l Hs IH|y s l srcs Hd Hs IH].
  - constructor.
  - constructor. apply IH. intros s0 H0. apply HP. right; assumption.
  - constructor; [split; [assumption|apply HP; left; reflexivity]|]. apply IH. intros s0 H0. apply HP. right; assumption.
Qed.

Section CamelDesc.
Variable src : oid -> option obj.
Variable c : str -> str.
Notation Di := (desc src (fun n => n)).
Notation Dc := (desc src c).
Notation MDi := (mdesc src (fun n => n)).
Notation MDc := (mdesc src c).
Notation vpres := StoreVisM.pres.

Definition src_input (s : oid) : Prop := match src s with Some (OInput _ _ _ _ _ _ _) => True | _ => False end.
Definition src_enumv (s : oid) : Prop := match src s with Some (OEnumV _ _ _ _ _) => True | _ => False end.
Definition src_field (s : oid) : Prop := match src s with Some (OField _ _ _ _ _ _ _ _ _) => True | _ => False end.

Lemma Dc_pres a b y t : vpres a b -> Dc a y t -> Dc b y t.
Proof. intros P. apply desc_keep. apply pres_keepm. exact P. Qed.
Lemma Di_pres a b y t : vpres a b -> Di a y t -> Di b y t.
Proof. intros P. apply desc_keep. apply pres_keepm. exact P. Qed.
Lemma MDc_pres a b y t : vpres a b -> MDc a y t -> MDc b y t.
Proof. intros P. apply mdesc_keep. apply pres_keepm. exact P. Qed.
Lemma MDi_pres a b y t : vpres a b -> MDi a y t -> MDi b y t.
Proof. intros P. apply mdesc_keep. apply pres_keepm. exact P. Qed.

(* Argument / InputField / Field with the camel-cased name, all else equal *)
Lemma camel_member_desc m x s m' r :
  vinv m -> Di m x s -> camel_member c m x = Some (m', r) ->
  vinv m' /\ vpres m m' /\ exists y, r = Some y /\ Dc m' y s /\ oargs m' y = oargs m x.
Proof.
  intros Hi (vs & vx & Hs & Hx & Hc & Hl) H. unfold camel_member in H. rewrite Hx in H.
  destruct vx as [|n py ty args d dp rs sb ds|a n py ty df d ds| |]; try discriminate.
  - destruct (pres_alloc m (OField (c n) py ty args d dp rs sb ds) Hi) as (Hi2 & R2).
    unfold alloc in H, Hi2, R2. simpl in Hi2, R2. inversion H; subst m' r.
    split; [assumption|]. split; [assumption|]. exists (m_next m). split; [reflexivity|].
    assert (Hy : mget (MkMem ((m_next m, OField (c n) py ty args d dp rs sb ds) :: m_heap m) (N.succ (m_next m))) (m_next m)
                 = Some (OField (c n) py ty args d dp rs sb ds)) by (unfold mget; simpl; rewrite N.eqb_refl; reflexivity).
    split.
    + exists vs, (OField (c n) py ty args d dp rs sb ds). split; [assumption|]. split; [exact Hy|]. split.
      * destruct vs; simpl in Hc; try contradiction. simpl. destruct Hc as (-> & Hrest). split; [reflexivity|exact Hrest].
      * eapply tylk_fwd; [intros o0 n0 A; eapply tname_vpres; [exact R2|exact A]|]. eapply tylk_oty; [|exact Hl]. reflexivity.
    + unfold oargs. rewrite Hy, Hx. reflexivity.
  - destruct (pres_alloc m (OInput a (c n) py ty df d ds) Hi) as (Hi2 & R2).
    unfold alloc in H, Hi2, R2. simpl in Hi2, R2. inversion H; subst m' r.
    split; [assumption|]. split; [assumption|]. exists (m_next m). split; [reflexivity|].
    assert (Hy : mget (MkMem ((m_next m, OInput a (c n) py ty df d ds) :: m_heap m) (N.succ (m_next m))) (m_next m)
                 = Some (OInput a (c n) py ty df d ds)) by (unfold mget; simpl; rewrite N.eqb_refl; reflexivity).
    split.
    + exists vs, (OInput a (c n) py ty df d ds). split; [assumption|]. split; [exact Hy|]. split.
      * destruct vs; simpl in Hc; try contradiction. simpl. destruct Hc as (-> & -> & Hrest). split; [reflexivity|split; [reflexivity|exact Hrest]].
      * eapply tylk_fwd; [intros o0 n0 A; eapply tname_vpres; [exact R2|exact A]|]. eapply tylk_oty; [|exact Hl]. reflexivity.
    + unfold oargs. rewrite Hy, Hx. reflexivity.
Qed.

Lemma camel_arg_desc m x s m' r :
  vinv m -> Di m x s -> visit_arg (camel_visitor c) m x = Some (m', r) ->
  vinv m' /\ vpres m m' /\ (forall y, r = Some y -> Dc m' y s).
Proof.
  intros Hi Hd H. unfold visit_arg, hseq in H. simpl in H.
  destruct (camel_member c m x) as [[m1 r1]|] eqn:E; [|discriminate].
  destruct (camel_member_desc _ _ _ _ _ Hi Hd E) as (I1 & R1 & y & -> & Hy & _).
  unfold hid in H. inversion H; subst. split; [assumption|]. split; [assumption|].
  intros z Hz. inversion Hz; subst. exact Hy.
Qed.

(* input fields (sources that are input fields: no argument list) *)
Lemma camel_inf_desc m x s m' r :
  vinv m -> MDi m x s /\ src_input s -> visit_inf (camel_visitor c) m x = Some (m', r) ->
  vinv m' /\ vpres m m' /\ (forall y, r = Some y -> MDc m' y s).
Proof.
  intros Hi [[Hd Ha] Hsi] H. unfold visit_inf, hseq in H. simpl in H.
  destruct (camel_member c m x) as [[m1 r1]|] eqn:E; [|discriminate].
  destruct (camel_member_desc _ _ _ _ _ Hi Hd E) as (I1 & R1 & y & -> & Hy & Ho).
  unfold hid in H. inversion H; subst. split; [assumption|]. split; [assumption|].
  intros z Hz. inversion Hz; subst. split; [exact Hy|].
  assert (Hsa : sargs src s = []) by (unfold sargs, src_input in *; destruct (src s) as [[| | | |]|]; try contradiction; reflexivity).
  rewrite Hsa in *. inversion Ha as [Hnil| |]. rewrite Ho, <- Hnil. constructor.
Qed.

(* enum values are not renamed *)
Lemma camel_env_desc m x s m' r :
  vinv m -> MDi m x s /\ src_enumv s -> visit_env (camel_visitor c) m x = Some (m', r) ->
  vinv m' /\ vpres m m' /\ (forall y, r = Some y -> MDc m' y s).
Proof.
  intros Hi [[Hd Ha] Hse] H. unfold visit_env, hseq in H. simpl in H. unfold hid in H. inversion H; subst.
  split; [assumption|]. split; [apply pres_refl|]. intros y Hy. inversion Hy; subst.
  destruct Hd as (vs & vy & Hs & Hvy & Hc & Hl). unfold src_enumv in Hse. rewrite Hs in Hse.
  destruct vs as [| | |en ev ed edp eds|]; try contradiction. destruct vy; simpl in Hc; try contradiction.
  inversion Hc; subst.
  split; [exists (OEnumV en ev ed edp eds), (OEnumV en ev ed edp eds); split; [assumption|split; [assumption|split; [reflexivity|exact I]]]|].
  unfold oargs. rewrite Hvy. apply subseq_nil_l.
Qed.

Lemma camel_field_desc m x s m' r :
  vinv m -> MDi m x s -> visit_field (camel_visitor c) m x = Some (m', r) ->
  vinv m' /\ vpres m m' /\ (forall y, r = Some y -> MDc m' y s).
Proof.
  intros Hi [Hd Ha] H. unfold visit_field, hseq in H. simpl in H.
  destruct (camel_member c m x) as [[m0 r0]|] eqn:E; [|discriminate].
  destruct (camel_member_desc _ _ _ _ _ Hi Hd E) as (I0 & R0 & ya & -> & Hya & Hoa).
  destruct (base_field (camel_visitor c) m0 ya) as [[m2 ro]|] eqn:Hb; [|discriminate].
  assert (Hbase : vinv m2 /\ vpres m0 m2 /\ forall y, ro = Some y -> MDc m2 y s).
  { unfold base_field in Hb. destruct (mget m0 ya) as [v|] eqn:Hv; [|discriminate].
    destruct v as [|nf py ty args d dp rs sb ds| | |]; try discriminate.
    assert (Hargs : subseq (Di m0) args (sargs src s)).
    { unfold oargs in Hoa. rewrite Hv in Hoa. rewrite Hoa. eapply subseq_impl; [|exact Ha]. intros a b. apply Di_pres. exact R0. }
    destruct (map_filter (visit_arg (camel_visitor c)) m0 args) as [[m1 args']|] eqn:Hmf; [|discriminate].
    destruct (map_filter_sub vinv vpres pres_refl pres_trans _ (desc src (fun n => n)) (desc src c)
                camel_arg_desc Di_pres Dc_pres _ _ _ _ _ I0 Hargs Hmf) as (Hi1 & R1 & Hq1).
    pose proof (proj2 R1 ya _ Hv) as Hg1.
    destruct (oids_eqb args' args) eqn:Heq.
    - inversion Hb; subst m2 ro. split; [assumption|]. split; [assumption|]. intros y Hy. inversion Hy; subst y.
      apply oids_eqb_eq in Heq. subst args'. split; [eapply Dc_pres; eauto|]. unfold oargs. rewrite Hg1. exact Hq1.
    - rewrite Hg1 in Hb. destruct (pres_alloc m1 (OField nf py ty args' d dp rs sb ds) Hi1) as (Hi2 & R2).
      unfold alloc in Hb, Hi2, R2. simpl in Hi2, R2. inversion Hb; subst m2 ro.
      split; [assumption|]. split; [eapply pres_trans; eauto|]. intros y Hy. inversion Hy; subst y.
      set (m2 := MkMem ((m_next m1, OField nf py ty args' d dp rs sb ds) :: m_heap m1) (N.succ (m_next m1))) in *.
      assert (Hy2 : mget m2 (m_next m1) = Some (OField nf py ty args' d dp rs sb ds)).
      { unfold mget, m2; simpl. rewrite N.eqb_refl. reflexivity. }
      split.
      + destruct Hya as (vs & vy & Hs & Hvy & Hc & Hl). rewrite Hv in Hvy. inversion Hvy; subst vy.
        exists vs, (OField nf py ty args' d dp rs sb ds). split; [assumption|]. split; [exact Hy2|]. split.
        * destruct vs; simpl in Hc; try contradiction. simpl. exact Hc.
        * eapply tylk_fwd; [intros o0 n0 A; eapply tname_vpres; [exact R2|]; eapply tname_vpres; [exact R1|exact A]|].
          eapply tylk_oty; [|exact Hl]. reflexivity.
      + unfold oargs. rewrite Hy2. eapply subseq_impl; [|exact Hq1]. intros a b. apply Dc_pres. exact R2. }
  destruct Hbase as (A & B & C). destruct ro as [y|]; unfold hid in H; inversion H; subst.
  - split; [assumption|]. split; [eapply pres_trans; eauto|]. intros z Hz. inversion Hz; subst. apply C. reflexivity.
  - split; [assumption|]. split; [eapply pres_trans; eauto|]. intros z Hz; discriminate.
Qed.

End CamelDesc.

Section CamelFinal.
Variable src : oid -> option obj.
Variable c : str -> str.
Variable S : list (str * oid).
Notation MDi := (mdesc src (fun n => n)).
Notation MDc := (mdesc src c).
Notation TDi := (tdesc src (fun n => n)).
Notation TDc := (tdesc src c).
Notation vpres := StoreVisM.pres.

(* the source type is well-sorted: input objects hold input fields, enums
   enum values, scalars and unions nothing *)
Definition src_sorted (t : oid) : Prop :=
  match src t with
  | Some (OType _ k _ ms _ _ _) =>
      match k with
      | Kinput => forall x, In x ms -> src_input src x
      | Kenum => forall x, In x ms -> src_enumv src x
      | Kscalar | Kunion => ms = []
      | _ => True
      end
  | _ => True
  end.

Lemma TDc_pres a b n y t : vpres a b -> TDc a n y t -> TDc b n y t.
Proof.
  intros P (k & d & ms & ifs & r & ds & ms' & ifs' & Hs & Ho & Hm).
  exists k, d, ms, ifs, r, ds, ms', ifs'. split; [assumption|]. split; [apply (proj2 P); assumption|].
  eapply subseq_impl; [|exact Hm]. intros x z. apply mdesc_keep. apply pres_keepm. exact P.
Qed.
Lemma TDi_pres a b n y t : vpres a b -> TDi a n y t -> TDi b n y t.
Proof.
  intros P (k & d & ms & ifs & r & ds & ms' & ifs' & Hs & Ho & Hm).
  exists k, d, ms, ifs, r, ds, ms', ifs'. split; [assumption|]. split; [apply (proj2 P); assumption|].
  eapply subseq_impl; [|exact Hm]. intros x z. apply mdesc_keep. apply pres_keepm. exact P.
Qed.

Lemma camel_type_desc m o m' r n t :
  vinv m -> TDi m n o t -> src_sorted t ->
  visit_type (camel_visitor c) m o = Some (m', r) ->
  vinv m' /\ vpres m m' /\ exists y, r = Some y /\ TDc m' n y t.
Proof.
  intros Hi (k & d & ms & ifs & r0 & ds & ms' & ifs' & Hs & Ho & Hm) Hsort H.
  unfold src_sorted in Hsort. rewrite Hs in Hsort.
  unfold visit_type, hseq in H. simpl in H. unfold hid in H at 1.
  destruct (base_type (camel_visitor c) m o) as [[m2 r2]|] eqn:Eb; [|discriminate].
  assert (Hbase : vinv m2 /\ vpres m m2 /\ exists y, r2 = Some y /\ TDc m2 n y t).
  { unfold base_type in Eb. rewrite Ho in Eb.
    assert (Hgen : forall (h : hook) (Din : mem -> oid -> oid -> Prop),
      (forall m x s m' r, vinv m -> Din m x s -> h m x = Some (m', r) ->
         vinv m' /\ vpres m m' /\ (forall y, r = Some y -> MDc m' y s)) ->
      (forall a b y z, vpres a b -> Din a y z -> Din b y z) ->
      subseq (Din m) ms' ms ->
      match map_filter h m ms' with
      | None => None
      | Some (mx, members') =>
          if oids_eqb members' ms' then Some (mx, Some o)
          else match mget mx o with
               | Some (OType n1 k1 d1 _ ifaces r1 ds1) =>
                   let (m3, t') := alloc mx (OType n1 k1 d1 members' ifaces r1 ds1) in Some (m3, Some t')
               | _ => None
               end
      end = Some (m2, r2) ->
      vinv m2 /\ vpres m m2 /\ exists y, r2 = Some y /\ TDc m2 n y t).
    { intros h Din Hh HD Hin H0. destruct (map_filter h m ms') as [[mx ms'']|] eqn:Hmf; [|discriminate].
      destruct (map_filter_sub vinv vpres pres_refl pres_trans h Din (mdesc src c) Hh HD
                  (fun a b y z P => mdesc_keep src c a b y z (pres_keepm a b P)) _ _ _ _ _ Hi Hin Hmf) as (Ix & Rx & Hqx).
      pose proof (proj2 Rx o _ Ho) as Hgx.
      destruct (oids_eqb ms'' ms') eqn:Heq.
      - inversion H0; subst m2 r2. apply oids_eqb_eq in Heq. subst ms''. split; [assumption|]. split; [assumption|].
        exists o. split; [reflexivity|]. exists k, d, ms, ifs, r0, ds, ms', ifs'. auto.
      - rewrite Hgx in H0. destruct (pres_alloc mx (OType n k d ms'' ifs' r0 ds) Ix) as (I3 & R3).
        unfold alloc in H0, I3, R3. simpl in I3, R3. inversion H0; subst m2 r2.
        split; [assumption|]. split; [eapply pres_trans; eauto|]. exists (m_next mx). split; [reflexivity|].
        exists k, d, ms, ifs, r0, ds, ms'', ifs'. split; [assumption|].
        split; [unfold mget; simpl; rewrite N.eqb_refl; reflexivity|].
        eapply subseq_impl; [|exact Hqx]. intros a b. apply mdesc_keep. apply pres_keepm. exact R3. }
    assert (Hempty : ms = [] -> Some (m, Some o) = Some (m2, r2) ->
              vinv m2 /\ vpres m m2 /\ exists y, r2 = Some y /\ TDc m2 n y t).
    { intros -> H0. inversion H0; subst. split; [assumption|]. split; [apply pres_refl|]. exists o. split; [reflexivity|].
      inversion Hm; subst. exists k, d, [], ifs, r0, ds, [], ifs'. split; [assumption|]. split; [assumption|constructor]. }
    destruct k.
    - apply (Hempty Hsort Eb).
    - apply (Hgen _ _ (camel_field_desc src c) (fun a b y z P => mdesc_keep src (fun n0 => n0) a b y z (pres_keepm a b P)) Hm Eb).
    - apply (Hgen _ _ (camel_field_desc src c) (fun a b y z P => mdesc_keep src (fun n0 => n0) a b y z (pres_keepm a b P)) Hm Eb).
    - apply (Hempty Hsort Eb).
    - apply (Hgen _ (fun mm y z => MDi mm y z /\ src_enumv src z) (camel_env_desc src c)).
      + intros a b y z P [A B]. split; [apply (mdesc_keep src (fun n0 => n0) a b y z (pres_keepm a b P)); exact A|exact B].
      + apply subseq_src_and; assumption.
      + exact Eb.
    - apply (Hgen _ (fun mm y z => MDi mm y z /\ src_input src z) (camel_inf_desc src c)).
      + intros a b y z P [A B]. split; [apply (mdesc_keep src (fun n0 => n0) a b y z (pres_keepm a b P)); exact A|exact B].
      + apply subseq_src_and; assumption.
      + exact Eb. }
  destruct Hbase as (A & B & y & -> & Hy). unfold hid in H. inversion H; subst.
  split; [assumption|]. split; [assumption|]. exists y. auto.
Qed.

Lemma camel_traverse_desc : forall l m m' ups,
  vinv m ->
  (forall n o, In (n, o) l -> is_builtin o = false -> exists t, In (n, t) S /\ TDi m n o t /\ src_sorted t) ->
  traverse_list (visit_type (camel_visitor c)) is_builtin m l = Some (m', ups) ->
  vinv m' /\ vpres m m' /\
  (forall n y, In (n, Some y) ups -> exists t, In (n, t) S /\ TDc m' n y t) /\
  (forall n o, In (n, o) l -> is_builtin o = false -> (forall r, ~ In (n, r) ups) -> exists t, In (n, t) S /\ TDc m' n o t).
Proof.
  induction l as [|[n0 o0] l IH]; intros m m' ups Hi Hd H; simpl in H.
  - inversion H; subst. split; [assumption|]. split; [apply pres_refl|]. split; [intros ? ? []|intros ? ? []].
  - assert (Hd' : forall n o, In (n, o) l -> is_builtin o = false -> exists t, In (n, t) S /\ TDi m n o t /\ src_sorted t)
      by (intros n o Hin Hb; apply (Hd n o); [right; assumption|assumption]).
    destruct (is_builtin o0) eqn:Hb0.
    + destruct (IH _ _ _ Hi Hd' H) as (A & B & C & E). split; [assumption|]. split; [assumption|]. split; [assumption|].
      intros n o [Heq|Hin] Hb Hno; [inversion Heq; subst; congruence|eauto].
    + destruct (visit_type (camel_visitor c) m o0) as [[m1 r]|] eqn:Hv; [|discriminate].
      destruct (traverse_list (visit_type (camel_visitor c)) is_builtin m1 l) as [[m2 ups']|] eqn:Hl; [|discriminate].
      inversion H; subst m' ups; clear H.
      destruct (Hd n0 o0 (or_introl eq_refl) Hb0) as (t0 & At & Bt & Ct).
      destruct (camel_type_desc _ _ _ _ _ _ Hi Bt Ct Hv) as (I1 & R1 & y1 & -> & Hy1).
      assert (Hd1 : forall n o, In (n, o) l -> is_builtin o = false -> exists t, In (n, t) S /\ TDi m1 n o t /\ src_sorted t).
      { intros n o Hin Hb. destruct (Hd' n o Hin Hb) as (t & A & B & C). exists t. split; [assumption|]. split; [eapply TDi_pres; eauto|assumption]. }
      destruct (IH _ _ _ I1 Hd1 Hl) as (I2 & R2 & C2 & E2).
      split; [assumption|]. split; [eapply pres_trans; eauto|]. split.
      * intros n y Hin. destruct (ooid_eqb (Some y1) (Some o0)) eqn:Heq; [apply C2; assumption|].
        destruct Hin as [He|Hin]; [|apply C2; assumption]. inversion He; subst. exists t0. split; [assumption|eapply TDc_pres; eauto].
      * intros n o [He|Hin] Hb Hno.
        -- inversion He; subst n o. destruct (ooid_eqb (Some y1) (Some o0)) eqn:Heq.
           ++ apply ooid_eqb_eq in Heq. inversion Heq; subst y1. exists t0. split; [assumption|eapply TDc_pres; eauto].
           ++ exfalso. apply (Hno (Some y1)). left; reflexivity.
        -- apply E2; [assumption|assumption|]. intros r0 Hin0. apply (Hno r0).
           destruct (ooid_eqb (Some y1) (Some o0)); [assumption|right; assumption].
Qed.

(* the directive loop of the camel-casing visitor only allocates *)
Lemma camel_arg_pres m x m' r :
  vinv m -> True -> visit_arg (camel_visitor c) m x = Some (m', r) -> vinv m' /\ vpres m m' /\ (forall y, r = Some y -> True).
Proof.
  intros Hi _ H. unfold visit_arg, hseq in H. simpl in H. unfold camel_member in H.
  destruct (mget m x) as [[|n py ty args d dp rs sb ds|a n py ty df d ds| |]|]; try discriminate.
  - destruct (pres_alloc m (OField (c n) py ty args d dp rs sb ds) Hi) as (I2 & R2). unfold alloc in H, I2, R2. simpl in *.
    unfold hid in H. inversion H; subst. auto.
  - destruct (pres_alloc m (OInput a (c n) py ty df d ds) Hi) as (I2 & R2). unfold alloc in H, I2, R2. simpl in *.
    unfold hid in H. inversion H; subst. auto.
Qed.

Lemma camel_dirs_pres : forall l m m' ups,
  vinv m -> traverse_list (visit_dir (camel_visitor c)) (fun _ => false) m l = Some (m', ups) -> vinv m' /\ vpres m m'.
Proof.
  induction l as [|[n0 d0] l IH]; intros m m' ups Hi H; simpl in H.
  - inversion H; subst. split; [assumption|apply pres_refl].
  - destruct (visit_dir (camel_visitor c) m d0) as [[m1 r]|] eqn:Hv; [|discriminate].
    destruct (traverse_list (visit_dir (camel_visitor c)) (fun _ => false) m1 l) as [[m2 ups']|] eqn:Hl; [|discriminate].
    inversion H; subst.
    assert (Hd : vinv m1 /\ vpres m m1).
    { unfold visit_dir, hseq in Hv. simpl in Hv. unfold hid in Hv at 1. unfold base_dir in Hv.
      destruct (mget m d0) as [[| | | |nd dd locs args]|] eqn:Hg; try discriminate.
      destruct (map_filter (visit_arg (camel_visitor c)) m args) as [[mx args']|] eqn:Hmf; [|discriminate].
      destruct (map_filter_pre vinv vpres pres_refl pres_trans _ (fun _ _ => True) (fun _ _ => True)
                  camel_arg_pres (fun _ _ _ _ _ => Logic.I) (fun _ _ _ _ _ => Logic.I) _ _ _ _ Hi (Forall_triv' args) Hmf) as (Ix & Rx & _).
      destruct (oids_eqb args' args).
      - unfold hid in Hv. inversion Hv; subst. auto.
      - rewrite (proj2 Rx d0 _ Hg) in Hv. destruct (pres_alloc mx (ODir nd dd locs args') Ix) as (I3 & R3).
        unfold alloc in Hv, I3, R3. simpl in *. unfold hid in Hv. inversion Hv; subst. split; [assumption|eapply pres_trans; eauto]. }
    destruct Hd as (I1 & R1). destruct (IH _ _ _ I1 Hl) as (I2 & R2). split; [assumption|eapply pres_trans; eauto].
Qed.

(* the camel-casing visitor applied in place to a schema whose types descend
   (unrenamed) from the source's: the result's types descend from them with
   fields, arguments and input fields renamed *)
Theorem camel_desc fuel m s m' s' :
  fresh_ok m -> builtins_ok m -> NoDup (map fst (s_types s)) ->
  (forall n o, In (n, o) (s_types s) -> tname m o = Some n) ->
  (forall n o, In (n, o) (s_types s) -> is_builtin o = false -> exists t, In (n, t) S /\ TDi m n o t /\ src_sorted t) ->
  on_schema fuel (camel_visitor c) m s = Ok (m', s') ->
  redesc src c S m' (s_types s').
Proof.
  intros Hf Hb Hnd Hnames Hrd H.
  assert (Hi : vinv m).
  { split; [assumption|]. destruct (N.lt_ge_cases 5 (m_next m)) as [Hlt|Hle]; [assumption|].
    assert (Hin : In (str_of_string "ID", 5) builtin_types) by (simpl; auto 10).
    pose proof (Hb _ _ Hin) as Hg. rewrite (Hf 5 Hle) in Hg. discriminate. }
  unfold on_schema, traverse in H.
  destruct (traverse_list (visit_type (camel_visitor c)) is_builtin m (s_types s)) as [[m1 tu]|] eqn:Ht; [|discriminate].
  destruct (traverse_list (visit_dir (camel_visitor c)) (fun _ => false) m1 (s_dirs s)) as [[m2 du]|] eqn:Hd; [|discriminate].
  destruct (camel_traverse_desc _ _ _ _ Hi Hrd Ht) as (I1 & R1 & Du & Dk).
  destruct (camel_dirs_pres _ _ _ _ I1 Hd) as (I2 & R2).
  pose proof (pres_trans _ _ _ R1 R2) as R12.
  destruct fuel as [|fuel]; [simpl in H; discriminate|].
  rewrite replace_and_heal_S in H.
  destruct (replace_types m2 tu (s_types s) false) as [[tm1 b]| | |] eqn:Hrt; simpl in H; try discriminate.
  destruct (replace_dirs du (s_dirs s)) as [dm| | |] eqn:Hrd2; simpl in H; try discriminate.
  assert (Hwf2 : wf_reg m2 (s_types s)).
  { split; [assumption|]. intros n o Hin. eapply tnr_tname; [apply pres_tnr; exact R12|auto]. }
  assert (Hwf' : wf_reg m2 tm1).
  { eapply replace_types_wf; [exact Hwf2| |exact Hrt]. intros n y Hin.
    destruct (Du n y Hin) as (t & _ & (k & d & ms & ifs & r & ds & ms' & ifs' & _ & Ho & _)).
    unfold tname. rewrite (proj2 R2 _ _ Ho). reflexivity. }
  assert (Hrg : redesc src c S m2 tm1).
  { intros n o Hin Hbo. destruct (replace_types_in_strict _ _ _ _ _ _ _ _ Hnd Hrt Hin) as [Hu|[Ho Hno]].
    - destruct (Du n o Hu) as (t & A & B). exists t. split; [assumption|eapply TDc_pres; [exact R2|exact B]].
    - destruct (Dk n o Ho Hbo Hno) as (t & A & B). exists t. split; [assumption|eapply TDc_pres; [exact R2|exact B]]. }
  destruct b.
  - match type of H with obind (heal_from fuel m2 ?s1) _ = _ =>
      destruct (heal_from fuel m2 s1) as [[m3 s3]| | |] eqn:Hrec; simpl in H; try discriminate;
      pose proof (heal_from_desc src c S fuel m2 s1 m3 s3 (proj1 I2) Hwf' Hrg Hrec) as A end.
    inversion H; subst. exact A.
  - inversion H; subst. exact Hrg.
Qed.

End CamelFinal.
