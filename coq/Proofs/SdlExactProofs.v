(* C11_exact: a document that satisfies the rules, and whose default values
   coerce the same way at build time (eagerly, against the un-extended types)
   as at their declared type, builds exactly the declared schema. *)
From PyGql Require Import Schema.SdlBuild Spec.SdlSpec Proofs.SdlProofs.
From Coq Require Import Lia.

(* ------------------------------------------------------------------ *)
(* generic facts                                                        *)

Lemma str_eqb_sym a b : str_eqb a b = str_eqb b a.
Proof.
  destruct (str_eqb_spec a b) as [->|H]; [symmetry; apply str_eqb_refl|].
  symmetry; apply str_eqb_neq; congruence.
Qed.

Lemma mem_str_app x a b : mem_str x (a ++ b) = mem_str x a || mem_str x b.
Proof. unfold mem_str; apply existsb_app. Qed.

Lemma has_dup_app_false a b :
  has_dup (a ++ b) = false ->
  has_dup a = false /\ has_dup b = false /\ (forall x, mem_str x a = true -> mem_str x b = false).
Proof.
  induction a as [|y a IH]; simpl; intros H.
  - repeat split; [assumption|intros x Hx; discriminate].
  - apply Bool.orb_false_iff in H; destruct H as [Hm Hd].
    rewrite mem_str_app in Hm; apply Bool.orb_false_iff in Hm; destruct Hm as [Hma Hmb].
    destruct (IH Hd) as (Ha & Hb & Hab).
    repeat split; [rewrite Hma, Ha; reflexivity|assumption|].
    intros x Hx. unfold mem_str in Hx; simpl in Hx. apply Bool.orb_true_iff in Hx; destruct Hx as [Hx|Hx].
    + apply str_eqb_eq in Hx; subst; assumption.
    + apply Hab; exact Hx.
Qed.

Lemma has_dup_snoc a n b :
  has_dup (a ++ n :: b) = false -> mem_str n a = false /\ has_dup ((a ++ [n]) ++ b) = false.
Proof.
  intros H. split.
  - destruct (mem_str n a) eqn:Hm; [|reflexivity].
    destruct (has_dup_app_false _ _ H) as (_ & _ & Hab).
    specialize (Hab n Hm). unfold mem_str in Hab; simpl in Hab. rewrite str_eqb_refl in Hab; discriminate.
  - rewrite <- app_assoc; exact H.
Qed.

Lemma omap_map_ok {A B} (f : A -> outcome B) (g : A -> B) l :
  (forall x, In x l -> f x = Ok (g x)) -> omap f l = Ok (map g l).
Proof.
  induction l as [|x l IH]; intros H; simpl; [reflexivity|].
  rewrite (H x (or_introl eq_refl)); simpl. rewrite IH; [reflexivity|].
  intros y Hy; apply H; right; exact Hy.
Qed.

(* ------------------------------------------------------------------ *)
(* _collect_definitions on a document with unique names                 *)

Definition tnames (ds : list definition) : list str :=
  flat_map (fun d => match typedef_name d with Some n => [n] | None => [] end) ds.
Definition dnames (ds : list definition) : list str :=
  flat_map (fun d => match directive_name d with Some n => [n] | None => [] end) ds.
Definition is_dirdef (d : definition) : bool :=
  match d with DDirective _ _ _ _ _ => true | _ => false end.
Definition is_schemadef (d : definition) : bool :=
  match d with DSchema false _ _ _ => true | _ => false end.

Lemma existsb_tnames n l :
  existsb (fun d' => match typedef_name d' with Some m => str_eqb m n | None => false end) l
  = mem_str n (tnames l).
Proof.
  induction l as [|d l IH]; simpl; [reflexivity|].
  unfold tnames; simpl. destruct (typedef_name d) as [m|]; simpl.
  - fold (tnames l). rewrite IH. unfold mem_str; simpl. rewrite (str_eqb_sym m n). reflexivity.
  - exact IH.
Qed.

Lemma existsb_dnames n l :
  existsb (fun d' => match directive_name d' with Some m => str_eqb m n | None => false end) l
  = mem_str n (dnames l).
Proof.
  induction l as [|d l IH]; simpl; [reflexivity|].
  unfold dnames; simpl. destruct (directive_name d) as [m|]; simpl.
  - fold (dnames l). rewrite IH. unfold mem_str; simpl. rewrite (str_eqb_sym m n). reflexivity.
  - exact IH.
Qed.

Lemma tnames_app a b : tnames (a ++ b) = tnames a ++ tnames b.
Proof. unfold tnames; apply flat_map_app. Qed.
Lemma dnames_app a b : dnames (a ++ b) = dnames a ++ dnames b.
Proof. unfold dnames; apply flat_map_app. Qed.

Definition nschema (acc : collected) (ds : list definition) : nat :=
  (match c_schema acc with Some _ => 1 | None => 0 end) + length (filter is_schemadef ds).

Ltac typedef_case IH Ht Hd Hs ds :=
  cbn [collect typedef_name c_types c_dirs c_schema];
  cbn [tnames flat_map typedef_name app] in Ht; fold (tnames ds) in Ht;
  cbn [dnames flat_map directive_name app] in Hd; fold (dnames ds) in Hd;
  cbn [filter is_schemadef] in Hs;
  let Hm := fresh "Hm" in let Ht' := fresh "Ht'" in
  destruct (has_dup_snoc _ _ _ Ht) as [Hm Ht'];
  rewrite existsb_tnames, Hm; rewrite IH; cbn [c_types c_dirs c_schema];
  [ cbn [filter is_typedef typedef_name is_dirdef find is_schemadef]; rewrite <- app_assoc; reflexivity
  | rewrite tnames_app; exact Ht'
  | exact Hd
  | exact Hs ].

Lemma collect_spec ds : forall acc,
  has_dup (tnames (c_types acc) ++ tnames ds) = false ->
  has_dup (dnames (c_dirs acc) ++ dnames ds) = false ->
  nschema acc ds <= 1 ->
  collect ds acc =
  Ok (Coll (match c_schema acc with Some d => Some d | None => find is_schemadef ds end)
           (c_types acc ++ filter is_typedef ds) (c_dirs acc ++ filter is_dirdef ds)).
Proof.
  induction ds as [|d ds IH]; intros acc Ht Hd Hs.
  - simpl. rewrite !app_nil_r. destruct acc as [[s|] t dd]; reflexivity.
  - destruct acc as [sd ts dd]. unfold nschema in *. simpl c_schema in *; simpl c_types in *; simpl c_dirs in *.
    destruct d as [| | e ? ? ? | e ? ? ? ? | e ? ? ? ? ? ? | e ? ? ? ? ? | e ? ? ? ? ? | e ? ? ? ? ?
                   | e ? ? ? ? ? | ]; try destruct e;
      try (cbn [collect typedef_name tnames dnames flat_map directive_name app filter is_typedef is_dirdef is_schemadef] in *;
           rewrite IH; [reflexivity|exact Ht|exact Hd|exact Hs]).
    + (* schema definition *)
      simpl in Hs. destruct sd as [s|]; [simpl in Hs; lia|].
      cbn [collect c_schema c_types c_dirs]. rewrite IH; cbn [c_schema c_types c_dirs].
      * reflexivity.
      * exact Ht.
      * exact Hd.
      * unfold nschema; cbn [c_schema]. simpl in Hs. lia.
    + typedef_case IH Ht Hd Hs ds.
    + typedef_case IH Ht Hd Hs ds.
    + typedef_case IH Ht Hd Hs ds.
    + typedef_case IH Ht Hd Hs ds.
    + typedef_case IH Ht Hd Hs ds.
    + typedef_case IH Ht Hd Hs ds.
    + (* directive definition *)
      cbn [collect c_types c_dirs c_schema].
      cbn [dnames flat_map directive_name app] in Hd. fold (dnames ds) in Hd.
      cbn [tnames flat_map typedef_name app] in Ht. fold (tnames ds) in Ht.
      cbn [filter is_schemadef] in Hs.
      destruct (has_dup_snoc _ _ _ Hd) as [Hm Hd'].
      rewrite existsb_dnames, Hm. rewrite IH; cbn [c_types c_dirs c_schema].
      * cbn [filter is_dirdef is_typedef typedef_name find is_schemadef]. rewrite <- app_assoc. reflexivity.
      * exact Ht.
      * rewrite dnames_app. exact Hd'.
      * exact Hs.
Qed.

(* ------------------------------------------------------------------ *)
(* members: the builders compute the declared members                   *)

Section Members.
  Variables (fuel : nat) (K : list (str * kind)) (E Ed : env).

  Definition iv_good (iv : input_value_def) : Prop :=
    tref_is_input K (tref_of (iv_type iv)) = true
    /\ coercible Ed iv = true
    /\ (forall v, iv_default iv = Some v ->
          coerce fuel true E [] (tref_of (iv_type iv)) v
          = coerce spec_fuel false Ed [] (tref_of (iv_type iv)) v).

  Lemma build_ivalue_decl iv : iv_good iv -> build_ivalue fuel K E iv = Ok (decl_ivalue Ed iv).
  Proof.
    intros (Hi & Hc & Hs). unfold build_ivalue, decl_ivalue, decl_default, coercible in *.
    rewrite Hi; cbn [negb].
    destruct (iv_default iv) as [v|]; [|reflexivity].
    rewrite (Hs v eq_refl).
    destruct (coerce spec_fuel false Ed [] (tref_of (iv_type iv)) v); try discriminate; reflexivity.
  Qed.

  Lemma deprecation_decl ds : dep_ok ds = true -> deprecation_reason ds = Ok (decl_dep ds).
  Proof. unfold dep_ok, decl_dep; destruct (deprecation_reason ds); try discriminate; reflexivity. Qed.

  Lemma build_field_decl fd :
    (forall iv, In iv (fd_args fd) -> iv_good iv) -> dep_ok (fd_dirs fd) = true ->
    build_field fuel K E fd = Ok (decl_field Ed fd).
  Proof.
    intros Ha Hd. unfold build_field, decl_field.
    rewrite (omap_map_ok _ (decl_ivalue Ed)) by (intros; apply build_ivalue_decl; auto).
    simpl. rewrite (deprecation_decl _ Hd). reflexivity.
  Qed.

  Lemma build_enum_value_decl ev : dep_ok (ev_dirs ev) = true -> build_enum_value ev = Ok (decl_value ev).
  Proof. intros Hd; unfold build_enum_value, decl_value. rewrite (deprecation_decl _ Hd); reflexivity. Qed.

  Lemma check_known_ok ts :
    forallb (fun t => known K (ty_name t)) ts = true -> check_known K ts = Ok (map ty_name ts).
  Proof.
    intros H; unfold check_known. apply omap_map_ok. intros t Ht.
    rewrite forallb_forall in H. specialize (H t Ht). unfold ty_name in *. rewrite H; reflexivity.
  Qed.
End Members.

(* ------------------------------------------------------------------ *)
(* merged definitions                                                   *)

Lemma merged_name ds d : typedef_name (merged ds d) = typedef_name d.
Proof. destruct d; try reflexivity; destruct ext; reflexivity. Qed.

Lemma merged_kind ds d : def_kind (merged ds d) = def_kind d.
Proof. destruct d; try reflexivity; destruct ext; reflexivity. Qed.

Lemma kinds_merged ds tds : kinds_of [] (map (merged ds) tds) = kinds_of [] tds.
Proof.
  unfold kinds_of; simpl. induction tds as [|d tds IH]; simpl; [reflexivity|].
  rewrite merged_name, merged_kind, IH. reflexivity.
Qed.

Lemma def_ivalues_merged ds d iv : In iv (def_ivalues d) -> In iv (def_ivalues (merged ds d)).
Proof.
  destruct d; try (intros H; exact H); destruct ext; try (intros H; exact H); simpl; intros H.
  - rewrite flat_map_app; apply in_or_app; left; exact H.
  - rewrite flat_map_app; apply in_or_app; left; exact H.
  - apply in_or_app; left; exact H.
Qed.

(* a typedef's own declared type (decl_type is a singleton on type definitions) *)
Definition decl1 (E : env) (d : definition) : tdef :=
  match decl_type E d with t :: _ => t | [] => TScalar [] None [] end.

Lemma decl_type_typedef E d n : typedef_name d = Some n -> decl_type E d = [decl1 E d].
Proof. destruct d; try discriminate; intros _; reflexivity. Qed.

Lemma decl1_name E d n : typedef_name d = Some n -> tdef_name (decl1 E d) = n.
Proof. destruct d; try discriminate; destruct ext; try discriminate; intros H; inversion H; reflexivity. Qed.

Lemma find_typedef n tds d :
  has_dup (tnames tds) = false -> In d tds -> typedef_name d = Some n ->
  find (fun x => match typedef_name x with Some m => str_eqb m n | None => false end) tds = Some d.
Proof.
  induction tds as [|x tds IH]; intros Hd Hin Hn; [contradiction|].
  simpl. unfold tnames in Hd; simpl in Hd. fold (tnames tds) in Hd.
  destruct Hin as [->|Hin].
  - rewrite Hn, str_eqb_refl. reflexivity.
  - destruct (typedef_name x) as [m|] eqn:Hx.
    + simpl in Hd. apply Bool.orb_false_iff in Hd; destruct Hd as [Hm Hd].
      destruct (str_eqb_spec m n) as [->|Hne]; [|apply IH; assumption].
      exfalso. assert (Hc : mem_str n (tnames tds) = true).
      { apply mem_str_In. unfold tnames. apply in_flat_map. exists d; split; [assumption|].
        rewrite Hn; left; reflexivity. }
      congruence.
    + apply IH; assumption.
Qed.

Lemma close_additional_nil fuel : forall frontier acc, close_additional fuel [] frontier acc = acc.
Proof.
  induction fuel as [|f IH]; intros frontier acc; simpl; [reflexivity|].
  destruct frontier as [|n fr]; [reflexivity|].
  destruct (find_type n acc); apply IH.
Qed.

Lemma type_map_closure_nil ts ddefs r : type_map_closure [] ts ddefs r = ts.
Proof. unfold type_map_closure. apply close_additional_nil. Qed.

Lemma tnames_filter ds : tnames (filter is_typedef ds) = tnames ds.
Proof.
  induction ds as [|d ds IH]; [reflexivity|].
  cbn [filter]. unfold is_typedef at 1.
  destruct (typedef_name d) eqn:Hn.
  - unfold tnames; cbn [flat_map]. rewrite Hn. fold (tnames (filter is_typedef ds)). fold (tnames ds).
    rewrite IH; reflexivity.
  - unfold tnames at 2; cbn [flat_map]. rewrite Hn. fold (tnames ds). cbn [app]. exact IH.
Qed.

Lemma refs_incl E ds d x :
  In x (tdef_refs (decl1 E d)) -> In x (tdef_refs (decl1 E (merged ds d))).
Proof.
  destruct d; try (intros H; exact H); destruct ext; try (intros H; exact H);
    unfold decl1; simpl; intros H.
  - rewrite !map_app, flat_map_app. apply in_app_or in H; destruct H as [H|H].
    + apply in_or_app; left; apply in_or_app; left; exact H.
    + apply in_or_app; right; apply in_or_app; left; exact H.
  - rewrite map_app, flat_map_app. apply in_or_app; left; exact H.
  - rewrite map_app. apply in_or_app; left; exact H.
  - rewrite !map_app. apply in_or_app; left; exact H.
Qed.

Lemma deps_merged ds d : def_deps_ok (merged ds d) = true -> def_deps_ok d = true.
Proof.
  destruct d; try (intros H; exact H); destruct ext; try (intros H; exact H); simpl;
    rewrite forallb_app; intros H; apply andb_prop in H; destruct H as [H _]; exact H.
Qed.

(* what build_def returns before input fields are forced *)
Definition pre1 (E : env) (d : definition) : tdef :=
  match d with
  | DInput _ desc n dirs _ _ => TInput (n_val n) (desc_of desc) [] dirs
  | _ => decl1 E d
  end.

Lemma pre1_name E d : tdef_name (pre1 E d) = tdef_name (decl1 E d).
Proof. destruct d; reflexivity. Qed.
Lemma pre1_kind E d : tdef_kind (pre1 E d) = tdef_kind (decl1 E d).
Proof. destruct d; reflexivity. Qed.

(* ------------------------------------------------------------------ *)
(* root operation types                                                 *)

Definition pick (r : roots) (ots : list op_type_def) (k : op_kind) : option str :=
  match root_get r k with Some n => Some n | None => first_op k ots end.

Definition picked (r : roots) (ots : list op_type_def) : roots :=
  Roots (pick r ots OpQuery) (pick r ots OpMutation) (pick r ots OpSubscription).

Lemma op_eqb_refl k : op_eqb k k = true.
Proof. destruct k; reflexivity. Qed.

Lemma picked_nil r : picked r [] = r.
Proof. destruct r as [[q|] [m|] [s|]]; reflexivity. Qed.

Lemma add_ops_ok K err ots : forall r,
  (forall ot, In ot ots -> known K (ty_name (ot_type ot)) = true) ->
  (forall k, root_get r k <> None -> count_ops k ots = 0) ->
  (forall k, count_ops k ots <= 1) ->
  add_ops K err ots r = Ok (picked r ots).
Proof.
  induction ots as [|ot ots IH]; intros r Hk Hset Hcnt.
  - simpl. rewrite picked_nil. reflexivity.
  - cbn [add_ops].
    destruct (root_get r (ot_op ot)) eqn:Hg.
    + exfalso. assert (Hne : root_get r (ot_op ot) <> None) by (rewrite Hg; discriminate).
      specialize (Hset _ Hne). unfold count_ops in Hset; cbn [filter] in Hset.
      rewrite op_eqb_refl in Hset. discriminate.
    + pose proof (Hk ot (or_introl eq_refl)) as Hkn. unfold ty_name in Hkn. rewrite Hkn.
      rewrite IH.
      * f_equal. unfold picked, pick, first_op.
        destruct r as [q m sb]; destruct (ot_op ot) eqn:Hop; cbn [root_get root_set r_q r_m r_s] in *;
          cbn [find]; rewrite Hop; cbn [op_eqb option_map]; subst; try reflexivity;
          repeat match goal with |- context [match ?x with Some _ => _ | None => _ end] =>
                   is_var x; destruct x end; reflexivity.
      * intros o Ho; apply Hk; right; exact Ho.
      * intros k Hne.
        assert (Hc := Hcnt k). unfold count_ops in *; cbn [filter] in Hc.
        destruct (op_eqb (ot_op ot) k) eqn:He.
        -- cbn [length] in Hc. lia.
        -- assert (Hr : root_get r k <> None).
           { destruct r as [q m sb]; destruct (ot_op ot), k; cbn [root_get root_set r_q r_m r_s] in *;
               try discriminate; exact Hne. }
           specialize (Hset k Hr). unfold count_ops in Hset; cbn [filter] in Hset. rewrite He in Hset. exact Hset.
      * intros k. assert (Hc := Hcnt k). unfold count_ops in *; cbn [filter] in Hc.
        destruct (op_eqb (ot_op ot) k); cbn [length] in Hc; lia.
Qed.

Definition ots_of (d : definition) : list op_type_def :=
  match d with DSchema _ _ ots _ => ots | _ => [] end.

Lemma count_ops_app k a b : count_ops k (a ++ b) = count_ops k a + count_ops k b.
Proof. unfold count_ops. rewrite filter_app, app_length. reflexivity. Qed.

Lemma first_op_app k a b :
  first_op k (a ++ b) = match first_op k a with Some n => Some n | None => first_op k b end.
Proof.
  unfold first_op. induction a as [|x a IH]; [reflexivity|].
  cbn [app find]. destruct (op_eqb (ot_op x) k); [reflexivity|exact IH].
Qed.

Lemma picked_app r a b : picked (picked r a) b = picked r (a ++ b).
Proof.
  unfold picked, pick. cbn [root_get r_q r_m r_s]. rewrite !first_op_app.
  destruct r as [[q|] [m|] [sb|]]; cbn [root_get r_q r_m r_s];
    repeat match goal with |- context [first_op ?k a] => destruct (first_op k a) end; reflexivity.
Qed.

Lemma add_schema_exts_ok K xs : forall r,
  (forall ot, In ot (flat_map ots_of xs) -> known K (ty_name (ot_type ot)) = true) ->
  (forall k, root_get r k <> None -> count_ops k (flat_map ots_of xs) = 0) ->
  (forall k, count_ops k (flat_map ots_of xs) <= 1) ->
  add_schema_exts K xs r = Ok (picked r (flat_map ots_of xs)).
Proof.
  induction xs as [|x xs IH]; intros r Hk Hset Hcnt.
  - simpl. rewrite picked_nil; reflexivity.
  - cbn [flat_map] in *.
    assert (Hstep : add_ops K K_EXT (ots_of x) r = Ok (picked r (ots_of x))).
    { apply add_ops_ok.
      - intros ot Ho; apply Hk; apply in_or_app; left; exact Ho.
      - intros k Hne. specialize (Hset k Hne). rewrite count_ops_app in Hset. lia.
      - intros k. specialize (Hcnt k). rewrite count_ops_app in Hcnt. lia. }
    assert (Hrest : add_schema_exts K xs (picked r (ots_of x)) = Ok (picked r (ots_of x ++ flat_map ots_of xs))).
    { rewrite IH; [rewrite picked_app; reflexivity| | |].
      - intros ot Ho; apply Hk; apply in_or_app; right; exact Ho.
      - intros k Hne. specialize (Hcnt k). rewrite count_ops_app in Hcnt.
        unfold picked, pick in Hne.
        destruct (root_get r k) eqn:Hg.
        + assert (Hr : root_get r k <> None) by (rewrite Hg; discriminate).
          specialize (Hset k Hr). rewrite count_ops_app in Hset. lia.
        + assert (Hf : first_op k (ots_of x) <> None).
          { destruct r as [q m sb]; destruct k; cbn [root_get r_q r_m r_s] in *; subst; exact Hne. }
          assert (Hc : 1 <= count_ops k (ots_of x)).
          { unfold first_op in Hf. unfold count_ops.
            destruct (find (fun ot => op_eqb (ot_op ot) k) (ots_of x)) as [o|] eqn:Hfind; [|contradiction].
            apply find_some in Hfind. destruct Hfind as [Hin He].
            assert (Hi : In o (filter (fun ot => op_eqb (ot_op ot) k) (ots_of x))) by (apply filter_In; auto).
            destruct (filter (fun ot => op_eqb (ot_op ot) k) (ots_of x)); [contradiction|simpl; lia]. }
          lia.
      - intros k. specialize (Hcnt k). rewrite count_ops_app in Hcnt. lia. }
    destruct x; cbn [add_schema_exts ots_of app] in *;
      try (rewrite picked_nil in Hrest; exact Hrest).
    rewrite Hstep. cbn [obind]. exact Hrest.
Qed.

Lemma omap_map2 {A B C} (f : B -> outcome C) (pre : A -> B) (dec : A -> C) l :
  (forall x, In x l -> f (pre x) = Ok (dec x)) -> omap f (map pre l) = Ok (map dec l).
Proof.
  induction l as [|x l IH]; intros H; simpl; [reflexivity|].
  rewrite (H x (or_introl eq_refl)); simpl. rewrite IH; [reflexivity|].
  intros y Hy; apply H; right; exact Hy.
Qed.

Definition nondef (d : definition) : bool :=
  match typedef_name d with Some n => negb (default_type_name n) | None => false end.

Definition dd1 (E : env) (d : definition) : ddef :=
  match decl_directive E d with x :: _ => x | [] => DD [] None [] [] end.

Lemma decl_directives_map E ds : flat_map (decl_directive E) ds = map (dd1 E) (filter is_dirdef ds).
Proof.
  induction ds as [|d ds IH]; [reflexivity|].
  destruct d; cbn [flat_map decl_directive filter is_dirdef app]; try exact IH.
  cbn [map]. rewrite IH. reflexivity.
Qed.

Lemma decl_types_map E tds :
  (forall d, In d tds -> exists n, typedef_name d = Some n) ->
  decl_types E tds = map (decl1 E) (filter nondef tds).
Proof.
  unfold decl_types. induction tds as [|d tds IH]; intros H; [reflexivity|].
  destruct (H d (or_introl eq_refl)) as [n Hn].
  cbn [flat_map]. rewrite (decl_type_typedef E d n Hn). cbn [app filter].
  rewrite (decl1_name E d n Hn). unfold nondef at 1. rewrite Hn.
  destruct (default_type_name n); cbn [negb map]; rewrite IH by (intros; apply H; right; assumption); reflexivity.
Qed.

Lemma flat_map_opt {A B} (p : A -> bool) (g : A -> B) l :
  flat_map (fun o : option B => match o with Some t => [t] | None => [] end)
           (map (fun d => if p d then Some (g d) else None) l) = map g (filter p l).
Proof.
  induction l as [|x l IH]; [reflexivity|].
  cbn [map flat_map filter]. destruct (p x); cbn [app map]; rewrite IH; reflexivity.
Qed.

(* default roots only depend on the names and kinds of the types *)
Lemma default_root_kinds (f g : definition -> tdef) l n :
  (forall d, tdef_name (f d) = tdef_name (g d)) -> (forall d, tdef_kind (f d) = tdef_kind (g d)) ->
  default_root (map f l) n = default_root (map g l) n.
Proof.
  intros Hn Hk. unfold default_root.
  induction l as [|d l IH]; [reflexivity|].
  cbn [map find_type]. rewrite Hn.
  destruct (str_eqb n (tdef_name (g d))).
  - specialize (Hk d). destruct (f d), (g d); simpl in Hk; try discriminate; reflexivity.
  - exact IH.
Qed.

(* ------------------------------------------------------------------ *)
(* extensions: the member-appending folds succeed on fresh names        *)

Lemma mem_str_map_in {B} (nm : B -> str) b l : In b l -> mem_str (nm b) (map nm l) = true.
Proof. intros H; apply mem_str_In; apply in_map; exact H. Qed.

Lemma fresh_tail {B} (nm : B -> str) b bs have :
  has_dup (map nm (b :: bs)) = false ->
  (forall x, In x (b :: bs) -> mem_str (nm x) have = false) ->
  forall x, In x bs -> mem_str (nm x) (nm b :: have) = false.
Proof.
  intros Hd Hf x Hx. cbn [map has_dup] in Hd. apply Bool.orb_false_iff in Hd; destruct Hd as [Hm _].
  unfold mem_str; cbn [existsb]. apply Bool.orb_false_iff; split.
  - destruct (str_eqb_spec (nm x) (nm b)) as [He|]; [|reflexivity].
    rewrite <- He in Hm. rewrite (mem_str_map_in nm x bs Hx) in Hm. discriminate.
  - apply Hf; right; exact Hx.
Qed.

Definition mem_spec (h' : list str) (names have : list str) : Prop :=
  forall y, mem_str y h' = mem_str y names || mem_str y have.

Lemma mem_spec_nil have : mem_spec have [] have.
Proof. intros y; reflexivity. Qed.

Lemma mem_spec_cons h' n names have : mem_spec h' names (n :: have) -> mem_spec h' (n :: names) have.
Proof.
  intros H y. rewrite H. unfold mem_str; cbn [existsb].
  destruct (str_eqb y n), (existsb (str_eqb y) names); reflexivity.
Qed.

Section Adders.
  Variables (fuel : nat) (K : list (str * kind)) (E : env).

  Lemma add_fields_ok (g : field_def -> sfield) fds : forall have acc,
    (forall fd, In fd fds -> build_field fuel K E fd = Ok (g fd)) ->
    (forall fd, In fd fds -> mem_str (n_val (fd_name fd)) have = false) ->
    has_dup (map (fun f => n_val (fd_name f)) fds) = false ->
    exists h', add_fields fuel K E have acc fds = Ok (h', acc ++ map g fds)
               /\ mem_spec h' (map (fun f => n_val (fd_name f)) fds) have.
  Proof.
    induction fds as [|fd fds IH]; intros have acc Hb Hf Hd.
    - exists have; split; [simpl; rewrite app_nil_r; reflexivity|apply mem_spec_nil].
    - cbn [add_fields]. rewrite (Hf fd (or_introl eq_refl)), (Hb fd (or_introl eq_refl)). cbn [obind].
      destruct (IH (n_val (fd_name fd) :: have) (acc ++ [g fd])) as [h' [He Hm]].
      + intros x Hx; apply Hb; right; exact Hx.
      + apply (fresh_tail (fun f => n_val (fd_name f)) fd fds have Hd Hf).
      + cbn [map has_dup] in Hd. apply Bool.orb_false_iff in Hd; tauto.
      + exists h'; split; [rewrite He, <- app_assoc; reflexivity|apply mem_spec_cons; exact Hm].
  Qed.

  Lemma add_ifields_ok (g : input_value_def -> sivalue) ivs : forall have acc,
    (forall iv, In iv ivs -> build_ivalue fuel K E iv = Ok (g iv)) ->
    (forall iv, In iv ivs -> mem_str (n_val (iv_name iv)) have = false) ->
    has_dup (map (fun f => n_val (iv_name f)) ivs) = false ->
    exists h', add_ifields fuel K E have acc ivs = Ok (h', acc ++ map g ivs)
               /\ mem_spec h' (map (fun f => n_val (iv_name f)) ivs) have.
  Proof.
    induction ivs as [|iv ivs IH]; intros have acc Hb Hf Hd.
    - exists have; split; [simpl; rewrite app_nil_r; reflexivity|apply mem_spec_nil].
    - cbn [add_ifields]. rewrite (Hf iv (or_introl eq_refl)), (Hb iv (or_introl eq_refl)). cbn [obind].
      destruct (IH (n_val (iv_name iv) :: have) (acc ++ [g iv])) as [h' [He Hm]].
      + intros x Hx; apply Hb; right; exact Hx.
      + apply (fresh_tail (fun f => n_val (iv_name f)) iv ivs have Hd Hf).
      + cbn [map has_dup] in Hd. apply Bool.orb_false_iff in Hd; tauto.
      + exists h'; split; [rewrite He, <- app_assoc; reflexivity|apply mem_spec_cons; exact Hm].
  Qed.

  Lemma add_values_ok evs : forall have acc,
    (forall ev, In ev evs -> build_enum_value ev = Ok (decl_value ev)) ->
    (forall ev, In ev evs -> mem_str (n_val (ev_name ev)) have = false) ->
    has_dup (map (fun v => n_val (ev_name v)) evs) = false ->
    exists h', add_values have acc evs = Ok (h', acc ++ map decl_value evs)
               /\ mem_spec h' (map (fun v => n_val (ev_name v)) evs) have.
  Proof.
    induction evs as [|ev evs IH]; intros have acc Hb Hf Hd.
    - exists have; split; [simpl; rewrite app_nil_r; reflexivity|apply mem_spec_nil].
    - cbn [add_values]. rewrite (Hf ev (or_introl eq_refl)), (Hb ev (or_introl eq_refl)). cbn [obind].
      destruct (IH (n_val (ev_name ev) :: have) (acc ++ [decl_value ev])) as [h' [He Hm]].
      + intros x Hx; apply Hb; right; exact Hx.
      + apply (fresh_tail (fun v => n_val (ev_name v)) ev evs have Hd Hf).
      + cbn [map has_dup] in Hd. apply Bool.orb_false_iff in Hd; tauto.
      + exists h'; split; [rewrite He, <- app_assoc; reflexivity|apply mem_spec_cons; exact Hm].
  Qed.

  Lemma add_names_ok ts : forall have acc,
    (forall t, In t ts -> known K (ty_name t) = true) ->
    (forall t, In t ts -> mem_str (ty_name t) have = false) ->
    has_dup (map ty_name ts) = false ->
    exists h', add_names K have acc ts = Ok (h', acc ++ map ty_name ts)
               /\ mem_spec h' (map ty_name ts) have.
  Proof.
    induction ts as [|t ts IH]; intros have acc Hb Hf Hd.
    - exists have; split; [simpl; rewrite app_nil_r; reflexivity|apply mem_spec_nil].
    - cbn [add_names]. pose proof (Hf t (or_introl eq_refl)) as H1. pose proof (Hb t (or_introl eq_refl)) as H2.
      unfold ty_name in H1, H2. rewrite H1, H2. cbn [negb].
      destruct (IH (ty_name t :: have) (acc ++ [ty_name t])) as [h' [He Hm]].
      + intros x Hx; apply Hb; right; exact Hx.
      + apply (fresh_tail ty_name t ts have Hd Hf).
      + cbn [map has_dup] in Hd. apply Bool.orb_false_iff in Hd; tauto.
      + exists h'; split; [unfold ty_name in He; rewrite He, <- app_assoc; reflexivity|apply mem_spec_cons; exact Hm].
  Qed.
End Adders.

Lemma fold_exts_ok {A B} (step : list str -> list A -> definition -> outcome (list str * list A))
      (members : definition -> list B) (nm : B -> str) (g : B -> A) (good : B -> Prop) exts :
  (forall have acc x,
      (forall b, In b (members x) -> good b) ->
      (forall b, In b (members x) -> mem_str (nm b) have = false) ->
      has_dup (map nm (members x)) = false ->
      exists h', step have acc x = Ok (h', acc ++ map g (members x))
                 /\ mem_spec h' (map nm (members x)) have) ->
  forall have acc,
    (forall b, In b (flat_map members exts) -> good b) ->
    (forall b, In b (flat_map members exts) -> mem_str (nm b) have = false) ->
    has_dup (map nm (flat_map members exts)) = false ->
    fold_exts step have acc exts = Ok (acc ++ map g (flat_map members exts)).
Proof.
  intros Hstep. induction exts as [|x exts IH]; intros have acc Hg Hf Hd.
  - simpl. rewrite app_nil_r. reflexivity.
  - cbn [flat_map] in *. rewrite map_app in Hd.
    destruct (has_dup_app_false _ _ Hd) as (Hd1 & Hd2 & Hdisj).
    destruct (Hstep have acc x) as [h' [He Hm]].
    + intros b Hb; apply Hg; apply in_or_app; left; exact Hb.
    + intros b Hb; apply Hf; apply in_or_app; left; exact Hb.
    + exact Hd1.
    + cbn [fold_exts]. rewrite He. cbn [obind].
      rewrite IH.
      * rewrite map_app, app_assoc. reflexivity.
      * intros b Hb; apply Hg; apply in_or_app; right; exact Hb.
      * intros b Hb. rewrite Hm. apply Bool.orb_false_iff; split.
        -- destruct (mem_str (nm b) (map nm (members x))) eqn:Hc; [|reflexivity].
           specialize (Hdisj _ Hc). rewrite (mem_str_map_in nm b _ Hb) in Hdisj. discriminate.
        -- apply Hf; apply in_or_app; right; exact Hb.
      * exact Hd2.
Qed.

Lemma default_names_kind x : default_kind x = None -> default_type_name x = false.
Proof.
  unfold default_kind, default_type_name.
  destruct (mem_str x specified_scalars); [discriminate|].
  destruct (mem_str x introspection_objects) eqn:Ho; [discriminate|].
  destruct (mem_str x introspection_enums) eqn:He; [discriminate|]. intros _.
  unfold mem_str, introspection_names, introspection_objects, introspection_enums in *.
  unfold S_ in *. cbn [map existsb] in *.
  repeat match goal with |- context [str_eqb x ?l] => destruct (str_eqb x l) end;
    try discriminate; reflexivity.
Qed.

Lemma decl1_kind E d n : typedef_name d = Some n -> def_kind d = Some (tdef_kind (decl1 E d)).
Proof. destruct d; try discriminate; intros _; reflexivity. Qed.

Lemma alookup_kinds E x l :
  (forall d, In d l -> exists n, typedef_name d = Some n) ->
  default_type_name x = false ->
  alookup x (map (fun t => (tdef_name t, tdef_kind t)) (map (decl1 E) (filter nondef l)))
  = alookup x (kinds_of [] l).
Proof.
  intros Hall Hx. unfold kinds_of; cbn [map app].
  induction l as [|d l IH]; [reflexivity|].
  destruct (Hall d (or_introl eq_refl)) as [n Hn].
  cbn [flat_map filter]. rewrite Hn, (decl1_kind E d n Hn). cbn [app alookup].
  unfold nondef at 1. rewrite Hn.
  destruct (str_eqb_spec x n) as [->|Hne].
  - rewrite Hx. cbn [negb map alookup]. rewrite (decl1_name E d n Hn), str_eqb_refl. reflexivity.
  - destruct (negb (default_type_name n)); cbn [map alookup].
    + rewrite (decl1_name E d n Hn). destruct (str_eqb_spec x n); [contradiction|].
      apply IH; intros; apply Hall; right; assumption.
    + apply IH; intros; apply Hall; right; assumption.
Qed.

Lemma kind_eqb_eq a b : kind_eqb a b = true -> a = b.
Proof. destruct a, b; simpl; congruence. Qed.

Lemma exts_for_in n ds x : In x (exts_for n ds) -> In x ds /\ typeext_name x = Some n.
Proof.
  unfold exts_for; intros H; apply filter_In in H; destruct H as [Hin H]. split; [exact Hin|].
  destruct (typeext_name x) as [m|]; [|discriminate]. apply str_eqb_eq in H; subst; reflexivity.
Qed.

Lemma def_ivalues_ext ds d n x iv :
  typedef_name d = Some n -> In x (exts_for n ds) -> def_kind x = def_kind d ->
  In iv (def_ivalues x) -> In iv (def_ivalues (merged ds d)).
Proof.
  intros Hn Hx Hk Hiv.
  destruct d; try discriminate; destruct ext; try discriminate;
    cbn [typedef_name] in Hn; inversion Hn; subst n; clear Hn;
    destruct x; try discriminate; cbn [merged typedef_name def_ivalues] in *;
    try contradiction.
  - rewrite flat_map_app; apply in_or_app; right.
    apply in_flat_map in Hiv; destruct Hiv as [fd [Hfd Hiv]].
    apply in_flat_map; exists fd; split; [|exact Hiv].
    apply in_flat_map; eexists; split; [exact Hx|exact Hfd].
  - rewrite flat_map_app; apply in_or_app; right.
    apply in_flat_map in Hiv; destruct Hiv as [fd [Hfd Hiv]].
    apply in_flat_map; exists fd; split; [|exact Hiv].
    apply in_flat_map; eexists; split; [exact Hx|exact Hfd].
  - apply in_or_app; right. apply in_flat_map; eexists; split; [exact Hx|exact Hiv].
Qed.

Lemma filter_map_comm {A B} (p : B -> bool) (f : A -> B) l :
  filter p (map f l) = map f (filter (fun x => p (f x)) l).
Proof.
  induction l as [|x l IH]; [reflexivity|]. cbn [map filter].
  destruct (p (f x)); cbn [map]; rewrite IH; reflexivity.
Qed.

Lemma filter_ext_in {A} (p q : A -> bool) l : (forall x, In x l -> p x = q x) -> filter p l = filter q l.
Proof.
  induction l as [|x l IH]; intros H; [reflexivity|]. cbn [filter].
  rewrite (H x (or_introl eq_refl)), IH; [reflexivity|intros; apply H; right; assumption].
Qed.

Lemma find_type_some t l : In t l -> exists t', find_type (tdef_name t) l = Some t'.
Proof.
  induction l as [|x l IH]; intros H; [contradiction|]. cbn [find_type].
  destruct (str_eqb (tdef_name t) (tdef_name x)) eqn:He; [eauto|].
  destruct H as [->|H]; [rewrite str_eqb_refl in He; discriminate|apply IH; exact H].
Qed.

Lemma first_op_count k l : first_op k l <> None -> 1 <= count_ops k l.
Proof.
  unfold first_op, count_ops. intros Hf.
  destruct (find (fun ot => op_eqb (ot_op ot) k) l) as [o|] eqn:Hfind; [|contradiction].
  apply find_some in Hfind. destruct Hfind as [Hin He].
  assert (Hi : In o (filter (fun ot => op_eqb (ot_op ot) k) l)) by (apply filter_In; auto).
  destruct (filter (fun ot => op_eqb (ot_op ot) k) l); [contradiction|simpl; lia].
Qed.

Lemma exts_for_nil n ds : type_exts ds = [] -> exts_for n ds = [].
Proof.
  unfold type_exts, exts_for. induction ds as [|x ds IH]; [reflexivity|]. cbn [filter].
  destruct (typeext_name x); [discriminate|]. exact IH.
Qed.

Lemma merged_no_ext E ds d n :
  typedef_name d = Some n -> exts_for n ds = [] -> decl1 E (merged ds d) = decl1 E d.
Proof.
  intros Hn Hx.
  destruct d; try discriminate; destruct ext; try discriminate;
    cbn [typedef_name] in Hn; inversion Hn; subst n;
    unfold decl1; cbn [merged typedef_name]; rewrite Hx; cbn [flat_map decl_type];
    rewrite ?app_nil_r; reflexivity.
Qed.

Lemma roots_eta r : Roots (r_q r) (r_m r) (r_s r) = r.
Proof. destruct r; reflexivity. Qed.

Section Exact.
  Variable doc : document.
  Local Notation ds := (doc_defs doc).
  Local Notation tds := (filter is_typedef (doc_defs doc)).
  Local Notation K := (declared_kinds doc).
  Local Notation E0 := (base_env doc).
  Local Notation E1 := (declared_env doc).

  Hypothesis R_types : r_unique_types doc = true.
  Hypothesis R_dirs : r_unique_directives doc = true.
  Hypothesis R_schema : r_one_schema doc = true.
  Hypothesis R_ext : r_ext_targets doc = true.
  Hypothesis R_members : r_unique_members doc = true.
  Hypothesis R_refs : r_refs doc = true.
  Hypothesis R_inputs : r_input_types doc = true.
  Hypothesis R_defaults : r_defaults doc = true.
  Hypothesis R_once : r_ops_once doc = true.
  Hypothesis R_known : r_ops_known doc = true.
  Hypothesis R_droots : r_default_roots doc = true.
  Hypothesis R_override : r_no_override doc = true.
  Hypothesis R_valid : r_valid doc = true.
  Hypothesis Hstable : defaults_stable doc.

  Lemma K_is : K = kinds_of [] tds.
  Proof. unfold declared_kinds, declared_defs. apply kinds_merged. Qed.

  Lemma nodup_tds : has_dup (tnames tds) = false.
  Proof.
    rewrite tnames_filter. unfold r_unique_types in R_types.
    apply Bool.negb_true_iff in R_types. exact R_types.
  Qed.

  Lemma in_declared d : In d tds -> In (merged ds d) (declared_defs doc ++ dir_defs ds).
  Proof. intros H; apply in_or_app; left; unfold declared_defs; apply in_map; exact H. Qed.

  Lemma typedef_of d : In d tds -> exists n, typedef_name d = Some n.
  Proof.
    intros H; apply filter_In in H; destruct H as [_ H]. unfold is_typedef in H.
    destruct (typedef_name d); [eauto|discriminate].
  Qed.

  Lemma base_iv_good d iv :
    In d tds -> In iv (def_ivalues d) -> iv_good build_fuel K E0 E1 iv.
  Proof.
    intros Hd Hiv. pose proof (def_ivalues_merged ds d iv Hiv) as Hm.
    pose proof (in_declared d Hd) as Hin.
    repeat split.
    - unfold r_input_types in R_inputs. rewrite forallb_forall in R_inputs.
      specialize (R_inputs _ Hin). rewrite forallb_forall in R_inputs. apply R_inputs; exact Hm.
    - unfold r_defaults in R_defaults. rewrite forallb_forall in R_defaults.
      specialize (R_defaults _ Hin). apply andb_prop in R_defaults; destruct R_defaults as [Hc _].
      rewrite forallb_forall in Hc. apply Hc; exact Hm.
    - destruct Hstable as [Hs _]. apply Hs. unfold base_ivalues. apply in_flat_map.
      exists d; split; [apply in_or_app; left; exact Hd|exact Hiv].
  Qed.

  Lemma dir_iv_good d iv :
    In d (dir_defs ds) -> In iv (def_ivalues d) -> iv_good build_fuel K E0 E1 iv.
  Proof.
    intros Hd Hiv.
    assert (Hin : In d (declared_defs doc ++ dir_defs ds)) by (apply in_or_app; right; exact Hd).
    repeat split.
    - unfold r_input_types in R_inputs. rewrite forallb_forall in R_inputs.
      specialize (R_inputs _ Hin). rewrite forallb_forall in R_inputs. apply R_inputs; exact Hiv.
    - unfold r_defaults in R_defaults. rewrite forallb_forall in R_defaults.
      specialize (R_defaults _ Hin). apply andb_prop in R_defaults; destruct R_defaults as [Hc _].
      rewrite forallb_forall in Hc. apply Hc; exact Hiv.
    - destruct Hstable as [Hs _]. apply Hs. unfold base_ivalues. apply in_flat_map.
      exists d; split; [apply in_or_app; right; exact Hd|exact Hiv].
  Qed.

  Lemma base_deps d : In d tds -> def_deps_ok d = true.
  Proof.
    intros Hd. apply (deps_merged ds). pose proof (in_declared d Hd) as Hin.
    unfold r_defaults in R_defaults. rewrite forallb_forall in R_defaults.
    specialize (R_defaults _ Hin). apply andb_prop in R_defaults; tauto.
  Qed.

  Lemma merged_refs_known d n :
    In d tds -> typedef_name d = Some n -> default_type_name n = false ->
    forall x, In x (tdef_refs (decl1 E1 (merged ds d))) -> known K x = true.
  Proof.
    intros Hd Hn Hdef x Hx.
    unfold r_refs, refs_known in R_refs. rewrite forallb_forall in R_refs.
    assert (Hin : In (decl1 E1 (merged ds d)) (s_types (declared doc))).
    { unfold declared; cbn [s_types]. apply filter_In; split.
      - apply in_flat_map. exists (merged ds d); split.
        + unfold declared_defs; apply in_map; exact Hd.
        + rewrite (decl_type_typedef E1 _ n) by (rewrite merged_name; exact Hn). left; reflexivity.
      - rewrite (decl1_name E1 _ n) by (rewrite merged_name; exact Hn). rewrite Hdef; reflexivity. }
    specialize (R_refs _ Hin). rewrite forallb_forall in R_refs. apply R_refs; exact Hx.
  Qed.

  Lemma base_refs_known d n :
    In d tds -> typedef_name d = Some n -> default_type_name n = false ->
    forall x, In x (tdef_refs (decl1 E1 d)) -> known K x = true.
  Proof. intros Hd Hn Hdef x Hx. eapply merged_refs_known; eauto. apply refs_incl; exact Hx. Qed.

  Lemma unique_members d :
    In d tds ->
    has_dup (map (fun f => n_val (fd_name f)) (ext_fields (merged ds d))) = false
    /\ has_dup (map ty_name (ext_ifaces (merged ds d))) = false
    /\ has_dup (map ty_name (ext_members (merged ds d))) = false
    /\ has_dup (map (fun v => n_val (ev_name v)) (ext_values (merged ds d))) = false
    /\ has_dup (map (fun f => n_val (iv_name f)) (ext_ifields (merged ds d))) = false.
  Proof.
    intros Hd. pose proof R_members as Hm. unfold r_unique_members in Hm. rewrite forallb_forall in Hm.
    assert (Hin : In (merged ds d) (declared_defs doc)) by (unfold declared_defs; apply in_map; exact Hd).
    specialize (Hm _ Hin).
    apply andb_prop in Hm; destruct Hm as [Hm H5]. apply andb_prop in Hm; destruct Hm as [Hm H4].
    apply andb_prop in Hm; destruct Hm as [Hm H3]. apply andb_prop in Hm; destruct Hm as [H1 H2].
    apply Bool.negb_true_iff in H1, H2, H3, H4, H5.
    repeat split; assumption.
  Qed.

  Lemma build_def_pre d n :
    In d tds -> typedef_name d = Some n -> default_type_name n = false ->
    build_def build_fuel K E0 d = Ok (pre1 E1 d).
  Proof.
    intros Hd Hn Hdef.
    pose proof (base_deps d Hd) as Hdeps.
    pose proof (base_refs_known d n Hd Hn Hdef) as Hknown.
    pose proof (unique_members d Hd) as (_ & _ & _ & Hvals & _).
    destruct d; try discriminate; destruct ext; try discriminate; unfold pre1, decl1; cbn [build_def decl_type].
    - (* scalar *) reflexivity.
    - (* object *)
      rewrite (omap_map_ok _ (decl_field E1)).
      2:{ intros fd Hfd. apply build_field_decl.
          - intros iv Hiv. apply (base_iv_good _ iv Hd). cbn [def_ivalues]. apply in_flat_map; eauto.
          - cbn [def_deps_ok] in Hdeps. rewrite forallb_forall in Hdeps. apply Hdeps; exact Hfd. }
      cbn [obind]. rewrite check_known_ok; [reflexivity|].
      apply forallb_forall; intros t Ht. apply Hknown. unfold decl1; cbn [decl_type tdef_refs].
      apply in_or_app; left. apply in_map; exact Ht.
    - (* interface *)
      rewrite (omap_map_ok _ (decl_field E1)); [reflexivity|].
      intros fd Hfd. apply build_field_decl.
      + intros iv Hiv. apply (base_iv_good _ iv Hd). cbn [def_ivalues]. apply in_flat_map; eauto.
      + cbn [def_deps_ok] in Hdeps. rewrite forallb_forall in Hdeps. apply Hdeps; exact Hfd.
    - (* union *)
      rewrite check_known_ok; [reflexivity|].
      apply forallb_forall; intros t Ht. apply Hknown. unfold decl1; cbn [decl_type tdef_refs].
      apply in_map; exact Ht.
    - (* enum *)
      cbn [merged typedef_name ext_values] in Hvals. rewrite map_app in Hvals.
      apply has_dup_app_false in Hvals; destruct Hvals as [Hv _]. rewrite Hv.
      rewrite (omap_map_ok _ decl_value); [reflexivity|].
      intros ev Hev. apply build_enum_value_decl.
      cbn [def_deps_ok] in Hdeps. rewrite forallb_forall in Hdeps. apply Hdeps; exact Hev.
    - (* input *) reflexivity.
  Qed.

  Lemma force_pre d n :
    In d tds -> typedef_name d = Some n -> default_type_name n = false ->
    force_input build_fuel K E0 tds (pre1 E1 d) = Ok (decl1 E1 d).
  Proof.
    intros Hd Hn Hdef.
    destruct d; try discriminate; destruct ext; try discriminate; unfold pre1, decl1; cbn [decl_type];
      try reflexivity.
    (* input *)
    cbn [force_input]. cbn [typedef_name] in Hn. inversion Hn; subst n.
    rewrite (find_typedef _ _ _ nodup_tds Hd eq_refl).
    rewrite (omap_map_ok _ (decl_ivalue E1)); [reflexivity|].
    intros iv Hiv. apply build_ivalue_decl. apply (base_iv_good _ iv Hd). exact Hiv.
  Qed.

  (* ---- the un-extended schema ----------------------------------------- *)
  Definition base_roots : roots :=
    match find is_schemadef ds with
    | None => Roots (default_root (decl_types E1 tds) (S_ "Query"))
                    (default_root (decl_types E1 tds) (S_ "Mutation"))
                    (default_root (decl_types E1 tds) (S_ "Subscription"))
    | Some d => picked (Roots None None None) (ots_of d)
    end.

  Definition base_schema : schema :=
    Sch (decl_types E1 tds) (flat_map (decl_directive E1) ds)
        (r_q base_roots) (r_m base_roots) (r_s base_roots) (schema_dirs_of (find is_schemadef ds)).

  Lemma all_ops_split :
    all_ops ds = flat_map ots_of (match find is_schemadef ds with Some d => [d] | None => [] end ++ schema_exts ds).
  Proof. reflexivity. Qed.

  Lemma ops_once k : count_ops k (all_ops ds) <= 1.
  Proof.
    pose proof R_once as H. unfold r_ops_once in H. rewrite forallb_forall in H.
    apply Nat.leb_le. apply H. destruct k; simpl; auto.
  Qed.

  Lemma ops_known ot : In ot (all_ops ds) -> known K (ty_name (ot_type ot)) = true.
  Proof.
    pose proof R_known as H. unfold r_ops_known in H. rewrite forallb_forall in H. apply H.
  Qed.

  Lemma build_base_ok : build_base build_fuel [] doc = Ok base_schema.
  Proof.
    unfold build_base.
    rewrite collect_spec; cbn [c_types c_dirs c_schema app].
    2:{ cbn [tnames flat_map app]. fold (tnames ds). rewrite <- tnames_filter. exact nodup_tds. }
    2:{ cbn [dnames flat_map app]. pose proof R_dirs as H. unfold r_unique_directives in H.
        apply Bool.negb_true_iff in H. exact H. }
    2:{ unfold nschema; cbn [c_schema]. pose proof R_schema as H. unfold r_one_schema in H.
        apply Nat.leb_le in H. exact H. }
    cbn [obind c_types c_dirs c_schema].
    rewrite <- K_is. change (env_of [] tds) with E0.
    (* directives *)
    rewrite (omap_map_ok _ (dd1 E1)).
    2:{ intros d Hd. assert (Hdd : In d (dir_defs ds)) by exact Hd.
        apply filter_In in Hd; destruct Hd as [_ Hd]. destruct d; try discriminate.
        unfold dd1; cbn [build_directive decl_directive].
        rewrite (omap_map_ok _ (decl_ivalue E1)); [reflexivity|].
        intros iv Hiv. apply build_ivalue_decl. apply (dir_iv_good _ iv Hdd). exact Hiv. }
    cbn [obind].
    (* types *)
    rewrite (omap_map_ok _ (fun d => if nondef d then Some (pre1 E1 d) else None)).
    2:{ intros d Hd. destruct (typedef_of d Hd) as [n Hn]. unfold nondef. rewrite Hn.
        destruct (default_type_name n) eqn:Hdef; [reflexivity|]. cbn [negb find_type].
        rewrite (build_def_pre d n Hd Hn Hdef). reflexivity. }
    cbn [obind]. rewrite flat_map_opt.
    (* roots *)
    assert (Hroots :
      match find is_schemadef ds with
      | Some (DSchema _ _ ots _) => add_ops K K_SDL ots (Roots None None None)
      | Some _ => Crash 2
      | None => Ok (Roots (default_root (map (pre1 E1) (filter nondef tds)) (S_ "Query"))
                          (default_root (map (pre1 E1) (filter nondef tds)) (S_ "Mutation"))
                          (default_root (map (pre1 E1) (filter nondef tds)) (S_ "Subscription")))
      end = Ok base_roots).
    { unfold base_roots. rewrite (decl_types_map E1 tds typedef_of).
      destruct (find is_schemadef ds) as [sd|] eqn:Hsd.
      - pose proof (find_some _ _ Hsd) as [Hin Hs]. destruct sd; try discriminate.
        cbn [ots_of]. apply add_ops_ok.
        + intros ot Ho. apply ops_known. rewrite all_ops_split, Hsd. cbn [app flat_map ots_of].
          apply in_or_app; left; exact Ho.
        + intros k Hne. destruct k; cbn in Hne; congruence.
        + intros k. pose proof (ops_once k) as H. rewrite all_ops_split, Hsd in H.
          cbn [app flat_map ots_of] in H. rewrite count_ops_app in H. lia.
      - f_equal. f_equal; apply default_root_kinds; intros; try apply pre1_name; apply pre1_kind. }
    destruct (find is_schemadef ds) as [sd|] eqn:Hsd.
    all: (destruct sd; try discriminate) || idtac.
    all: rewrite Hroots; cbn [obind].
    all: rewrite <- decl_directives_map.
    all: pose proof R_override as Hov; unfold r_no_override in Hov; cbn [declared s_ddefs] in Hov;
         apply Bool.negb_true_iff in Hov; rewrite Hov.
    all: rewrite (omap_map2 _ (pre1 E1) (decl1 E1));
         [|intros d Hd; apply filter_In in Hd; destruct Hd as [Hd Hnd];
           destruct (typedef_of d Hd) as [n Hn]; unfold nondef in Hnd; rewrite Hn in Hnd;
           apply Bool.negb_true_iff in Hnd; apply (force_pre d n Hd Hn Hnd)].
    all: cbn [obind].
    all: assert (Hrk : refs_known K (map (decl1 E1) (filter nondef tds)) = true)
         by (unfold refs_known; apply forallb_forall; intros t Ht; apply in_map_iff in Ht;
             destruct Ht as [d [<- Hd]]; apply filter_In in Hd; destruct Hd as [Hd Hnd];
             destruct (typedef_of d Hd) as [n Hn]; unfold nondef in Hnd; rewrite Hn in Hnd;
             apply Bool.negb_true_iff in Hnd; apply forallb_forall; intros x Hx;
             eapply base_refs_known; eauto).
    all: rewrite Hrk; cbn [negb].
    all: rewrite type_map_closure_nil.
    all: unfold base_schema; rewrite (decl_types_map E1 tds typedef_of), Hsd; reflexivity.
  Qed.

  (* ---- the extension phase -------------------------------------------- *)
  Local Notation Eb := (built_env doc).
  Definition Kb : list (str * kind) :=
    map (fun t => (tdef_name t, tdef_kind t)) (decl_types E1 tds).

  Lemma kind_in_Kb x : kind_in Kb x = kind_in K x.
  Proof.
    unfold kind_in. destruct (default_kind x) eqn:Hd; [reflexivity|].
    unfold Kb. rewrite (decl_types_map E1 tds typedef_of), K_is.
    apply alookup_kinds; [exact typedef_of|apply default_names_kind; exact Hd].
  Qed.

  Lemma known_Kb x : known Kb x = known K x.
  Proof. unfold known; rewrite kind_in_Kb; reflexivity. Qed.

  Lemma input_Kb t : tref_is_input Kb t = tref_is_input K t.
  Proof. unfold tref_is_input; rewrite kind_in_Kb; reflexivity. Qed.

  Lemma nodup_ds : has_dup (tnames ds) = false.
  Proof. rewrite <- tnames_filter. exact nodup_tds. Qed.

  Lemma ext_kinds d n x :
    In d tds -> typedef_name d = Some n -> In x (exts_for n ds) -> def_kind x = def_kind d.
  Proof.
    intros Hd Hn Hx. destruct (exts_for_in _ _ _ Hx) as [Hin Hxn].
    pose proof R_ext as H. unfold r_ext_targets in H. rewrite forallb_forall in H.
    specialize (H x Hin). rewrite Hxn in H.
    apply filter_In in Hd; destruct Hd as [Hd _].
    rewrite (find_typedef n ds d nodup_ds Hd Hn) in H.
    destruct (def_kind d) as [a|], (def_kind x) as [b|]; try discriminate.
    apply kind_eqb_eq in H; subst; reflexivity.
  Qed.

  Lemma ext_kind_oks d n :
    In d tds -> typedef_name d = Some n ->
    forallb (ext_kind_ok (tdef_kind (decl1 E1 d))) (exts_for n ds) = true.
  Proof.
    intros Hd Hn. apply forallb_forall; intros x Hx.
    unfold ext_kind_ok. rewrite (ext_kinds d n x Hd Hn Hx), (decl1_kind E1 d n Hn).
    destruct (tdef_kind (decl1 E1 d)); reflexivity.
  Qed.

  Lemma ext_iv_good d n x iv :
    In d tds -> typedef_name d = Some n -> In x (exts_for n ds) -> In iv (def_ivalues x) ->
    iv_good build_fuel Kb Eb E1 iv.
  Proof.
    intros Hd Hn Hx Hiv.
    pose proof (def_ivalues_ext ds d n x iv Hn Hx (ext_kinds d n x Hd Hn Hx) Hiv) as Hm.
    pose proof (in_declared d Hd) as Hin.
    repeat split.
    - rewrite input_Kb. pose proof R_inputs as H. unfold r_input_types in H. rewrite forallb_forall in H.
      specialize (H _ Hin). rewrite forallb_forall in H. apply H; exact Hm.
    - pose proof R_defaults as H. unfold r_defaults in H. rewrite forallb_forall in H.
      specialize (H _ Hin). apply andb_prop in H; destruct H as [Hc _].
      rewrite forallb_forall in Hc. apply Hc; exact Hm.
    - destruct Hstable as [_ Hs]. apply Hs. unfold ext_ivalues. apply in_flat_map.
      exists x; split; [|exact Hiv].
      destruct (exts_for_in _ _ _ Hx) as [Hxin Hxn]. unfold type_exts. apply filter_In; split; [exact Hxin|].
      rewrite Hxn; reflexivity.
  Qed.

  Lemma merged_deps d : In d tds -> def_deps_ok (merged ds d) = true.
  Proof.
    intros Hd. pose proof (in_declared d Hd) as Hin.
    pose proof R_defaults as H. unfold r_defaults in H. rewrite forallb_forall in H.
    specialize (H _ Hin). apply andb_prop in H; tauto.
  Qed.

  Lemma disjoint_of_nodup {B} (nm : B -> str) (a b : list B) :
    has_dup (map nm (a ++ b)) = false ->
    has_dup (map nm b) = false /\ (forall y, In y b -> mem_str (nm y) (map nm a) = false).
  Proof.
    rewrite map_app. intros H. destruct (has_dup_app_false _ _ H) as (_ & Hb & Hdisj).
    split; [exact Hb|]. intros y Hy.
    destruct (mem_str (nm y) (map nm a)) eqn:Hc; [|reflexivity].
    specialize (Hdisj _ Hc). rewrite (mem_str_map_in nm y b Hy) in Hdisj. discriminate.
  Qed.

  Lemma extend_object_ok desc nm is_ dirs fs l :
    let d := DObject false desc nm is_ dirs fs l in
    In d tds -> default_type_name (n_val nm) = false ->
    extend_tdef build_fuel Kb Eb (exts_for (n_val nm) ds) (decl1 E1 d) = Ok (decl1 E1 (merged ds d)).
  Proof.
    intros d Hd Hdef. set (n := n_val nm). set (xs := exts_for n ds).
    assert (Hn : typedef_name d = Some n) by reflexivity.
    pose proof (ext_kind_oks d n Hd Hn) as Hk. fold xs in Hk.
    pose proof (unique_members d Hd) as (Hufields & Huifaces & _ & _ & _).
    pose proof (merged_deps d Hd) as Hdeps.
    pose proof (merged_refs_known d n Hd Hn Hdef) as Hknown.
    assert (Hobj : forall x, In x xs -> obj_fields x = ext_fields x).
    { intros x Hx. rewrite forallb_forall in Hk. specialize (Hk x Hx). unfold ext_kind_ok in Hk.
      destruct x; simpl in Hk; try discriminate; reflexivity. }
    subst d. unfold decl1 at 1; cbn [decl_type]. unfold extend_tdef. cbn [tdef_kind].
    unfold decl1 in Hk; cbn [decl_type tdef_kind] in Hk. rewrite Hk. cbn [negb].
    cbn [merged typedef_name ext_fields ext_ifaces] in Hufields, Huifaces. fold n xs in Hufields, Huifaces.
    destruct (disjoint_of_nodup (fun f => n_val (fd_name f)) fs (flat_map ext_fields xs) Hufields) as [Hf1 Hf2].
    destruct (disjoint_of_nodup ty_name is_ (flat_map ext_ifaces xs) Huifaces) as [Hi1 Hi2].
    (* fields *)
    rewrite (fold_exts_ok _ obj_fields (fun f => n_val (fd_name f)) (decl_field E1)
               (fun fd => build_field build_fuel Kb Eb fd = Ok (decl_field E1 fd))).
    - cbn [obind].
      (* interfaces *)
      rewrite (fold_exts_ok _ ext_ifaces ty_name ty_name (fun t => known Kb (ty_name t) = true)).
      + cbn [obind]. unfold decl1; cbn [merged typedef_name decl_type]. fold n xs.
        rewrite (flat_map_ext_in obj_fields ext_fields xs Hobj). rewrite !map_app. reflexivity.
      + intros have acc x Hg Hfr Hdup. destruct x; cbn [ext_ifaces] in *;
          try (exists have; split; [rewrite app_nil_r; reflexivity|apply mem_spec_nil]).
        apply add_names_ok; assumption.
      + intros t Ht. rewrite known_Kb. apply Hknown. unfold decl1; cbn [merged typedef_name decl_type tdef_refs].
        fold n xs. apply in_or_app; left. rewrite map_app. apply in_or_app; right. apply in_map; exact Ht.
      + intros t Ht. exact (Hi2 t Ht).
      + exact Hi1.
    - intros have acc x Hg Hfr Hdup. destruct x; cbn [obj_fields] in *;
        try (exists have; split; [rewrite app_nil_r; reflexivity|apply mem_spec_nil]).
      apply add_fields_ok; assumption.
    - intros fd Hfd. rewrite (flat_map_ext_in obj_fields ext_fields xs Hobj) in Hfd.
      apply in_flat_map in Hfd; destruct Hfd as [x [Hx Hfd]].
      apply build_field_decl.
      + intros iv Hiv. apply (ext_iv_good _ n x iv Hd Hn Hx).
        rewrite forallb_forall in Hk. specialize (Hk x Hx). unfold ext_kind_ok in Hk.
        destruct x; simpl in Hk; try discriminate. cbn [def_ivalues ext_fields] in *.
        apply in_flat_map; eauto.
      + cbn [merged typedef_name def_deps_ok] in Hdeps. fold n xs in Hdeps.
        rewrite forallb_forall in Hdeps. apply Hdeps. apply in_or_app; right.
        apply in_flat_map; eauto.
    - intros fd Hfd. rewrite (flat_map_ext_in obj_fields ext_fields xs Hobj) in Hfd.
      rewrite map_map. cbn [decl_field sf_name]. exact (Hf2 fd Hfd).
    - rewrite (flat_map_ext_in obj_fields ext_fields xs Hobj). exact Hf1.
  Qed.

  Lemma extend_interface_ok desc nm dirs fs l :
    let d := DInterface false desc nm dirs fs l in
    In d tds -> default_type_name (n_val nm) = false ->
    extend_tdef build_fuel Kb Eb (exts_for (n_val nm) ds) (decl1 E1 d) = Ok (decl1 E1 (merged ds d)).
  Proof.
    intros d Hd Hdef. set (n := n_val nm). set (xs := exts_for n ds).
    assert (Hn : typedef_name d = Some n) by reflexivity.
    pose proof (ext_kind_oks d n Hd Hn) as Hk. fold xs in Hk.
    pose proof (unique_members d Hd) as (Hufields & _).
    pose proof (merged_deps d Hd) as Hdeps.
    assert (Hif : forall x, In x xs -> iface_fields x = ext_fields x).
    { intros x Hx. rewrite forallb_forall in Hk. specialize (Hk x Hx). unfold ext_kind_ok in Hk.
      destruct x; simpl in Hk; try discriminate; reflexivity. }
    subst d. unfold decl1 at 1; cbn [decl_type]. unfold extend_tdef. cbn [tdef_kind].
    unfold decl1 in Hk; cbn [decl_type tdef_kind] in Hk. rewrite Hk. cbn [negb].
    cbn [merged typedef_name ext_fields] in Hufields. fold n xs in Hufields.
    destruct (disjoint_of_nodup (fun f => n_val (fd_name f)) fs (flat_map ext_fields xs) Hufields) as [Hf1 Hf2].
    rewrite (fold_exts_ok _ iface_fields (fun f => n_val (fd_name f)) (decl_field E1)
               (fun fd => build_field build_fuel Kb Eb fd = Ok (decl_field E1 fd))).
    - cbn [obind]. unfold decl1; cbn [merged typedef_name decl_type]. fold n xs.
      rewrite (flat_map_ext_in iface_fields ext_fields xs Hif). rewrite !map_app. reflexivity.
    - intros have acc x Hg Hfr Hdup. destruct x; cbn [iface_fields] in *;
        try (exists have; split; [rewrite app_nil_r; reflexivity|apply mem_spec_nil]).
      apply add_fields_ok; assumption.
    - intros fd Hfd. rewrite (flat_map_ext_in iface_fields ext_fields xs Hif) in Hfd.
      apply in_flat_map in Hfd; destruct Hfd as [x [Hx Hfd]].
      apply build_field_decl.
      + intros iv Hiv. apply (ext_iv_good _ n x iv Hd Hn Hx).
        rewrite forallb_forall in Hk. specialize (Hk x Hx). unfold ext_kind_ok in Hk.
        destruct x; simpl in Hk; try discriminate. cbn [def_ivalues ext_fields] in *.
        apply in_flat_map; eauto.
      + cbn [merged typedef_name def_deps_ok] in Hdeps. fold n xs in Hdeps.
        rewrite forallb_forall in Hdeps. apply Hdeps. apply in_or_app; right.
        apply in_flat_map; eauto.
    - intros fd Hfd. rewrite (flat_map_ext_in iface_fields ext_fields xs Hif) in Hfd.
      rewrite map_map. cbn [decl_field sf_name]. exact (Hf2 fd Hfd).
    - rewrite (flat_map_ext_in iface_fields ext_fields xs Hif). exact Hf1.
  Qed.

  Lemma extend_union_ok desc nm dirs ts l :
    let d := DUnion false desc nm dirs ts l in
    In d tds -> default_type_name (n_val nm) = false ->
    extend_tdef build_fuel Kb Eb (exts_for (n_val nm) ds) (decl1 E1 d) = Ok (decl1 E1 (merged ds d)).
  Proof.
    intros d Hd Hdef. set (n := n_val nm). set (xs := exts_for n ds).
    assert (Hn : typedef_name d = Some n) by reflexivity.
    pose proof (ext_kind_oks d n Hd Hn) as Hk. fold xs in Hk.
    pose proof (unique_members d Hd) as (_ & _ & Hum & _).
    pose proof (merged_refs_known d n Hd Hn Hdef) as Hknown.
    subst d. unfold decl1 at 1; cbn [decl_type]. unfold extend_tdef. cbn [tdef_kind].
    unfold decl1 in Hk; cbn [decl_type tdef_kind] in Hk. rewrite Hk. cbn [negb].
    cbn [merged typedef_name ext_members] in Hum. fold n xs in Hum.
    destruct (disjoint_of_nodup ty_name ts (flat_map ext_members xs) Hum) as [Hm1 Hm2].
    rewrite (fold_exts_ok _ ext_members ty_name ty_name (fun t => known Kb (ty_name t) = true)).
    - cbn [obind]. unfold decl1; cbn [merged typedef_name decl_type]. fold n xs. rewrite !map_app. reflexivity.
    - intros have acc x Hg Hfr Hdup. destruct x; cbn [ext_members] in *;
        try (exists have; split; [rewrite app_nil_r; reflexivity|apply mem_spec_nil]).
      apply add_names_ok; assumption.
    - intros t Ht. rewrite known_Kb. apply Hknown. unfold decl1; cbn [merged typedef_name decl_type tdef_refs].
      fold n xs. rewrite map_app. apply in_or_app; right. apply in_map; exact Ht.
    - intros t Ht. exact (Hm2 t Ht).
    - exact Hm1.
  Qed.

  Lemma extend_enum_ok desc nm dirs vs l :
    let d := DEnum false desc nm dirs vs l in
    In d tds -> default_type_name (n_val nm) = false ->
    extend_tdef build_fuel Kb Eb (exts_for (n_val nm) ds) (decl1 E1 d) = Ok (decl1 E1 (merged ds d)).
  Proof.
    intros d Hd Hdef. set (n := n_val nm). set (xs := exts_for n ds).
    assert (Hn : typedef_name d = Some n) by reflexivity.
    pose proof (ext_kind_oks d n Hd Hn) as Hk. fold xs in Hk.
    pose proof (unique_members d Hd) as (_ & _ & _ & Huv & _).
    pose proof (merged_deps d Hd) as Hdeps.
    subst d. unfold decl1 at 1; cbn [decl_type]. unfold extend_tdef. cbn [tdef_kind].
    unfold decl1 in Hk; cbn [decl_type tdef_kind] in Hk. rewrite Hk. cbn [negb].
    cbn [merged typedef_name ext_values] in Huv. fold n xs in Huv.
    destruct (disjoint_of_nodup (fun v => n_val (ev_name v)) vs (flat_map ext_values xs) Huv) as [Hv1 Hv2].
    rewrite (fold_exts_ok _ ext_values (fun v => n_val (ev_name v)) decl_value
               (fun ev => build_enum_value ev = Ok (decl_value ev))).
    - cbn [obind]. unfold decl1; cbn [merged typedef_name decl_type]. fold n xs. rewrite !map_app. reflexivity.
    - intros have acc x Hg Hfr Hdup. destruct x; cbn [ext_values] in *;
        try (exists have; split; [rewrite app_nil_r; reflexivity|apply mem_spec_nil]).
      apply add_values_ok; assumption.
    - intros ev Hev. apply build_enum_value_decl.
      cbn [merged typedef_name def_deps_ok] in Hdeps. fold n xs in Hdeps.
      rewrite forallb_forall in Hdeps. apply Hdeps. apply in_or_app; right. exact Hev.
    - intros ev Hev. rewrite map_map. cbn [decl_value sev_name]. exact (Hv2 ev Hev).
    - exact Hv1.
  Qed.

  Lemma extend_input_ok desc nm dirs fs l :
    let d := DInput false desc nm dirs fs l in
    In d tds -> default_type_name (n_val nm) = false ->
    extend_tdef build_fuel Kb Eb (exts_for (n_val nm) ds) (decl1 E1 d) = Ok (decl1 E1 (merged ds d)).
  Proof.
    intros d Hd Hdef. set (n := n_val nm). set (xs := exts_for n ds).
    assert (Hn : typedef_name d = Some n) by reflexivity.
    pose proof (ext_kind_oks d n Hd Hn) as Hk. fold xs in Hk.
    pose proof (unique_members d Hd) as (_ & _ & _ & _ & Hui).
    subst d. unfold decl1 at 1; cbn [decl_type]. unfold extend_tdef. cbn [tdef_kind].
    unfold decl1 in Hk; cbn [decl_type tdef_kind] in Hk. rewrite Hk. cbn [negb].
    cbn [merged typedef_name ext_ifields] in Hui. fold n xs in Hui.
    destruct (disjoint_of_nodup (fun f => n_val (iv_name f)) fs (flat_map ext_ifields xs) Hui) as [Hi1 Hi2].
    rewrite (fold_exts_ok _ ext_ifields (fun f => n_val (iv_name f)) (decl_ivalue E1)
               (fun iv => build_ivalue build_fuel Kb Eb iv = Ok (decl_ivalue E1 iv))).
    - cbn [obind]. unfold decl1; cbn [merged typedef_name decl_type]. fold n xs. rewrite !map_app. reflexivity.
    - intros have acc x Hg Hfr Hdup. destruct x; cbn [ext_ifields] in *;
        try (exists have; split; [rewrite app_nil_r; reflexivity|apply mem_spec_nil]).
      apply add_ifields_ok; assumption.
    - intros iv Hiv. apply in_flat_map in Hiv; destruct Hiv as [x [Hx Hiv]].
      apply build_ivalue_decl. apply (ext_iv_good _ n x iv Hd Hn Hx).
      rewrite forallb_forall in Hk. specialize (Hk x Hx). unfold ext_kind_ok in Hk.
      destruct x; simpl in Hk; try discriminate. exact Hiv.
    - intros iv Hiv. rewrite map_map. cbn [decl_ivalue siv_name]. exact (Hi2 iv Hiv).
    - exact Hi1.
  Qed.

  Lemma extend_scalar_ok desc nm dirs l :
    let d := DScalar false desc nm dirs l in
    In d tds ->
    extend_tdef build_fuel Kb Eb (exts_for (n_val nm) ds) (decl1 E1 d) = Ok (decl1 E1 (merged ds d)).
  Proof.
    intros d Hd. set (n := n_val nm).
    assert (Hn : typedef_name d = Some n) by reflexivity.
    pose proof (ext_kind_oks d n Hd Hn) as Hk.
    subst d. unfold decl1 at 1; cbn [decl_type]. unfold extend_tdef. cbn [tdef_kind].
    unfold decl1 in Hk; cbn [decl_type tdef_kind] in Hk. rewrite Hk. reflexivity.
  Qed.

  Lemma extend_def_ok d n :
    In d tds -> typedef_name d = Some n -> default_type_name n = false ->
    extend_tdef build_fuel Kb Eb (exts_for n ds) (decl1 E1 d) = Ok (decl1 E1 (merged ds d)).
  Proof.
    intros Hd Hn Hdef.
    destruct d; try discriminate; destruct ext; try discriminate;
      cbn [typedef_name] in Hn; inversion Hn; subst n.
    - apply extend_scalar_ok; exact Hd.
    - apply extend_object_ok; assumption.
    - apply extend_interface_ok; assumption.
    - apply extend_union_ok; assumption.
    - apply extend_enum_ok; assumption.
    - apply extend_input_ok; assumption.
  Qed.

  (* ---- the declared schema, and the whole build ------------------------ *)
  Definition final_types : list tdef := map (fun d => decl1 E1 (merged ds d)) (filter nondef tds).

  Lemma declared_types_eq : s_types (declared doc) = final_types.
  Proof.
    unfold declared; cbn [s_types]. change (filter _ (flat_map (decl_type E1) (declared_defs doc)))
      with (decl_types E1 (declared_defs doc)).
    rewrite decl_types_map.
    - unfold declared_defs, final_types. rewrite filter_map_comm, map_map.
      f_equal. apply filter_ext_in. intros d _. unfold nondef. rewrite merged_name. reflexivity.
    - intros d Hd. unfold declared_defs in Hd. apply in_map_iff in Hd. destruct Hd as [d0 [<- Hd0]].
      rewrite merged_name. apply typedef_of; exact Hd0.
  Qed.

  Lemma default_root_final nm :
    default_root (decl_types E1 tds) nm = default_root (s_types (declared doc)) nm.
  Proof.
    rewrite declared_types_eq, (decl_types_map E1 tds typedef_of). unfold final_types.
    apply default_root_kinds; intros d.
    - destruct d; try reflexivity; destruct ext; reflexivity.
    - destruct d; try reflexivity; destruct ext; reflexivity.
  Qed.

  Definition ext_ops : list op_type_def := flat_map ots_of (schema_exts ds).

  Lemma base_roots_set k : root_get base_roots k <> None -> count_ops k ext_ops = 0.
  Proof.
    intros Hne. pose proof (ops_once k) as Hc. rewrite all_ops_split in Hc.
    rewrite flat_map_app, count_ops_app in Hc. fold ext_ops in Hc.
    unfold base_roots in Hne. destruct (find is_schemadef ds) as [sd|] eqn:Hsd.
    - cbn [flat_map app] in Hc. rewrite app_nil_r in Hc.
      assert (Hf : first_op k (ots_of sd) <> None).
      { destruct k; cbn [picked pick root_get r_q r_m r_s] in Hne; exact Hne. }
      pose proof (first_op_count _ _ Hf). lia.
    - pose proof R_droots as H. unfold r_default_roots in H.
      change (schema_def_of ds) with (find is_schemadef ds) in H. rewrite Hsd in H.
      rewrite forallb_forall in H.
      destruct k; cbn [root_get r_q r_m r_s] in Hne.
      + specialize (H (OpQuery, S_ "Query") ltac:(simpl; auto)). cbn beta iota in H.
        rewrite <- default_root_final in H. destruct (default_root _ _); [|contradiction].
        apply Nat.eqb_eq in H. rewrite all_ops_split, Hsd in H. exact H.
      + specialize (H (OpMutation, S_ "Mutation") ltac:(simpl; auto)). cbn beta iota in H.
        rewrite <- default_root_final in H. destruct (default_root _ _); [|contradiction].
        apply Nat.eqb_eq in H. rewrite all_ops_split, Hsd in H. exact H.
      + specialize (H (OpSubscription, S_ "Subscription") ltac:(simpl; auto)). cbn beta iota in H.
        rewrite <- default_root_final in H. destruct (default_root _ _); [|contradiction].
        apply Nat.eqb_eq in H. rewrite all_ops_split, Hsd in H. exact H.
  Qed.

  Lemma final_roots k dn :
    (k, dn) = (OpQuery, S_ "Query") \/ (k, dn) = (OpMutation, S_ "Mutation")
    \/ (k, dn) = (OpSubscription, S_ "Subscription") ->
    pick base_roots ext_ops k = declared_root ds (s_types (declared doc)) k dn.
  Proof.
    intros Hk. unfold declared_root, base_roots. change (schema_def_of ds) with (find is_schemadef ds).
    rewrite all_ops_split.
    destruct (find is_schemadef ds) as [sd|] eqn:Hsd.
    - cbn [app flat_map]. fold ext_ops. unfold pick.
      rewrite first_op_app.
      destruct k; cbn [picked pick root_get r_q r_m r_s]; destruct (first_op _ (ots_of sd)); reflexivity.
    - cbn [app]. fold ext_ops. unfold pick. rewrite <- default_root_final.
      destruct Hk as [H|[H|H]]; inversion H; subst; cbn [root_get r_q r_m r_s]; reflexivity.
  Qed.

  Lemma has_types_ok :
    forallb (fun d => match typeext_name d with Some n => has_type base_schema n | None => true end) ds = true.
  Proof.
    apply forallb_forall; intros x Hx. destruct (typeext_name x) as [n|] eqn:Hn; [|reflexivity].
    pose proof R_ext as H. unfold r_ext_targets in H. rewrite forallb_forall in H.
    specialize (H x Hx). rewrite Hn in H.
    destruct (find _ ds) as [d|] eqn:Hf; [|discriminate].
    apply find_some in Hf; destruct Hf as [Hd Hdn].
    destruct (typedef_name d) as [m|] eqn:Hm; [|discriminate]. apply str_eqb_eq in Hdn; subst m.
    unfold has_type. destruct (default_type_name n) eqn:Hdef; [reflexivity|]. cbn [orb].
    assert (Hdt : In d tds) by (apply filter_In; split; [exact Hd|unfold is_typedef; rewrite Hm; reflexivity]).
    assert (Hin : In (decl1 E1 d) (s_types base_schema)).
    { cbn [base_schema s_types]. rewrite (decl_types_map E1 tds typedef_of). apply in_map.
      apply filter_In; split; [exact Hdt|]. unfold nondef; rewrite Hm, Hdef; reflexivity. }
    destruct (find_type_some _ _ Hin) as [t' Ht']. rewrite (decl1_name E1 d n Hm) in Ht'. rewrite Ht'. reflexivity.
  Qed.

  Lemma declared_eq_parts :
    declared doc =
    Sch final_types (flat_map (decl_directive E1) ds)
        (pick base_roots ext_ops OpQuery) (pick base_roots ext_ops OpMutation)
        (pick base_roots ext_ops OpSubscription)
        (schema_dirs_of (find is_schemadef ds)
         ++ flat_map (fun d => match d with DSchema _ dirs _ _ => dirs | _ => [] end) (schema_exts ds)).
  Proof.
    rewrite (final_roots OpQuery (S_ "Query")) by auto.
    rewrite (final_roots OpMutation (S_ "Mutation")) by auto.
    rewrite (final_roots OpSubscription (S_ "Subscription")) by auto.
    rewrite <- declared_types_eq.
    unfold declared at 1. cbn [s_types]. f_equal.
    change (schema_def_of ds) with (find is_schemadef ds).
    destruct (find is_schemadef ds) as [sd|] eqn:Hsd; [|reflexivity].
    apply find_some in Hsd; destruct Hsd as [_ Hs]. destruct sd; try discriminate. reflexivity.
  Qed.

  Definition ext_body (sx : list definition) : outcome schema :=
    let sc := base_schema in
    let pool := [] ++ s_types sc in
    let K' := map (fun t => (tdef_name t, tdef_kind t)) pool in
    let E' := map (fun t => (tdef_name t, tinfo_of_tdef t)) pool in
    do ts <- omap (fun t => extend_tdef build_fuel K' E' (exts_for (tdef_name t) ds) t) (s_types sc);
    do r <- add_schema_exts K' sx (Roots (s_query sc) (s_mutation sc) (s_subscription sc));
    if negb (refs_known K' ts) then rej K_SDL else
    Ok (Sch (type_map_closure [] ts (s_ddefs sc) r) (s_ddefs sc) (r_q r) (r_m r) (r_s r)
            (s_dirs sc ++ flat_map (fun d => match d with DSchema _ dirs _ _ => dirs | _ => [] end) sx)).

  Lemma ext_body_ok : ext_body (schema_exts ds) = Ok (declared doc).
  Proof.
    unfold ext_body. cbn zeta. cbn [app base_schema s_types s_ddefs s_query s_mutation s_subscription s_dirs].
    change (map (fun t => (tdef_name t, tdef_kind t)) (decl_types E1 tds)) with Kb.
    change (map (fun t => (tdef_name t, tinfo_of_tdef t)) (decl_types E1 tds)) with Eb.
    (* types *)
    rewrite (decl_types_map E1 tds typedef_of).
    rewrite (omap_map2 _ (decl1 E1) (fun d => decl1 E1 (merged ds d))).
    2:{ intros d Hd. apply filter_In in Hd; destruct Hd as [Hd Hnd].
        destruct (typedef_of d Hd) as [n Hn]. unfold nondef in Hnd; rewrite Hn in Hnd.
        apply Bool.negb_true_iff in Hnd. rewrite (decl1_name E1 d n Hn).
        apply (extend_def_ok d n Hd Hn Hnd). }
    cbn [obind]. fold final_types.
    (* roots *)
    rewrite roots_eta.
    rewrite (add_schema_exts_ok Kb (schema_exts ds) base_roots).
    2:{ intros ot Ho. rewrite known_Kb. apply ops_known. rewrite all_ops_split, flat_map_app.
        apply in_or_app; right; exact Ho. }
    2:{ exact base_roots_set. }
    2:{ intros k. pose proof (ops_once k) as H. rewrite all_ops_split, flat_map_app, count_ops_app in H.
        fold ext_ops in H. unfold ext_ops in H. lia. }
    cbn [obind]. fold ext_ops.
    (* references *)
    assert (Hrk : refs_known Kb final_types = true).
    { unfold refs_known. apply forallb_forall; intros t Ht. unfold final_types in Ht.
      apply in_map_iff in Ht. destruct Ht as [d [<- Hd]]. apply filter_In in Hd; destruct Hd as [Hd Hnd].
      destruct (typedef_of d Hd) as [n Hn]. unfold nondef in Hnd; rewrite Hn in Hnd.
      apply Bool.negb_true_iff in Hnd. apply forallb_forall; intros x Hx. rewrite known_Kb.
      eapply merged_refs_known; eauto. }
    rewrite Hrk. cbn [negb]. rewrite type_map_closure_nil.
    rewrite declared_eq_parts. reflexivity.
  Qed.

  Lemma extend_model_ok : extend_model build_fuel [] base_schema doc = Ok (declared doc).
  Proof.
    unfold extend_model. rewrite has_types_ok. cbn [negb].
    destruct (schema_exts ds) as [|sx0 sxs] eqn:Hsx; destruct (type_exts ds) as [|tx0 txs] eqn:Htx.
    - (* no extension at all *)
      rewrite declared_eq_parts.
      f_equal. unfold base_schema. f_equal.
      + rewrite (decl_types_map E1 tds typedef_of). unfold final_types. apply map_ext_in.
        intros d Hd. apply filter_In in Hd; destruct Hd as [Hd _]. destruct (typedef_of d Hd) as [n Hn].
        symmetry. apply (merged_no_ext E1 ds d n Hn). apply exts_for_nil; exact Htx.
      + unfold ext_ops; rewrite Hsx. cbn [flat_map]. unfold pick. cbn [root_get].
        destruct (r_q base_roots); reflexivity.
      + unfold ext_ops; rewrite Hsx. cbn [flat_map]. unfold pick. cbn [root_get].
        destruct (r_m base_roots); reflexivity.
      + unfold ext_ops; rewrite Hsx. cbn [flat_map]. unfold pick. cbn [root_get].
        destruct (r_s base_roots); reflexivity.
      + rewrite Hsx. cbn [flat_map]. rewrite app_nil_r. reflexivity.
    - pose proof ext_body_ok as H. rewrite Hsx in H. exact H.
    - pose proof ext_body_ok as H. rewrite Hsx in H. exact H.
    - pose proof ext_body_ok as H. rewrite Hsx in H. exact H.
  Qed.

  Theorem exact_build : build_model (BOpts false []) doc = Ok (declared doc).
  Proof.
    unfold build_model, build_model_fuel. cbn [bo_additional bo_ignore_extensions].
    rewrite build_base_ok. cbn [obind]. rewrite extend_model_ok. cbn [obind].
    pose proof R_valid as H. unfold r_valid in H. rewrite H. reflexivity.
  Qed.
End Exact.

Theorem exact_build_rules doc :
  sdl_rules_ok doc -> defaults_stable doc -> build_model (BOpts false []) doc = Ok (declared doc).
Proof.
  unfold sdl_rules_ok, sdl_rules_okb. intros H Hs.
  repeat (apply andb_prop in H; destruct H as [H ?]).
  apply exact_build; assumption.
Qed.

(* ------------------------------------------------------------------ *)
(* schema_equiv is reflexive on schemas with unique names               *)

Fixpoint pv_eqb_refl (v : pv) : pv_eqb v v = true.
Proof.
  destruct v; simpl; try reflexivity.
  - apply Bool.eqb_reflx.
  - apply Z.eqb_refl.
  - apply str_eqb_refl.
  - apply str_eqb_refl.
  - induction l as [|x l IH]; [reflexivity|]. rewrite (pv_eqb_refl x), IH. reflexivity.
  - induction kvs as [|[k x] kvs IH]; [reflexivity|]. rewrite str_eqb_refl, (pv_eqb_refl x), IH. reflexivity.
Qed.

Fixpoint value_eqb_refl (v : value) : value_eqb v v = true.
Proof.
  destruct v; simpl; try reflexivity; try apply str_eqb_refl.
  - rewrite str_eqb_refl. apply Bool.eqb_reflx.
  - apply Bool.eqb_reflx.
  - induction vs as [|x vs IH]; [reflexivity|]. rewrite (value_eqb_refl x), IH. reflexivity.
  - induction fs as [|[[k x] lf] fs IH]; [reflexivity|].
    rewrite str_eqb_refl, (value_eqb_refl x), IH. reflexivity.
Qed.

Lemma leqb_refl {A} (e : A -> A -> bool) l : (forall x, e x x = true) -> leqb e l l = true.
Proof. intros H; induction l as [|x l IH]; [reflexivity|]. simpl. rewrite H, IH. reflexivity. Qed.

Lemma oeqb_refl {A} (e : A -> A -> bool) o : (forall x, e x x = true) -> oeqb e o o = true.
Proof. intros H; destruct o; simpl; auto. Qed.

Lemma dir_eqb_refl d : dir_eqb d d = true.
Proof.
  unfold dir_eqb. rewrite str_eqb_refl. apply leqb_refl. intros a. unfold arg_eqb.
  rewrite str_eqb_refl, value_eqb_refl. reflexivity.
Qed.

Lemma tref_eqb_refl t : tref_eqb t t = true.
Proof. induction t; simpl; auto using str_eqb_refl. Qed.

Lemma siv_eqb_refl a : siv_eqb a a = true.
Proof.
  unfold siv_eqb. rewrite !str_eqb_refl, tref_eqb_refl, (oeqb_refl pv_eqb _ pv_eqb_refl),
    (oeqb_refl str_eqb _ str_eqb_refl), (leqb_refl dir_eqb _ dir_eqb_refl). reflexivity.
Qed.

Lemma sf_eqb_refl f : sf_eqb f f = true.
Proof.
  unfold sf_eqb. rewrite !str_eqb_refl, tref_eqb_refl, (leqb_refl siv_eqb _ siv_eqb_refl),
    !(oeqb_refl str_eqb _ str_eqb_refl), (leqb_refl dir_eqb _ dir_eqb_refl). reflexivity.
Qed.

Lemma sev_eqb_refl v : sev_eqb v v = true.
Proof.
  unfold sev_eqb. rewrite str_eqb_refl, pv_eqb_refl, !(oeqb_refl str_eqb _ str_eqb_refl),
    (leqb_refl dir_eqb _ dir_eqb_refl). reflexivity.
Qed.

Lemma tdef_eqb_refl t : tdef_eqb t t = true.
Proof.
  destruct t; simpl; rewrite str_eqb_refl, (oeqb_refl str_eqb _ str_eqb_refl),
    ?(leqb_refl str_eqb _ str_eqb_refl), ?(leqb_refl sf_eqb _ sf_eqb_refl),
    ?(leqb_refl sev_eqb _ sev_eqb_refl), ?(leqb_refl siv_eqb _ siv_eqb_refl),
    (leqb_refl dir_eqb _ dir_eqb_refl); reflexivity.
Qed.

Lemma ddef_eqb_refl d : ddef_eqb d d = true.
Proof.
  unfold ddef_eqb. rewrite str_eqb_refl, (oeqb_refl str_eqb _ str_eqb_refl),
    (leqb_refl str_eqb _ str_eqb_refl), (leqb_refl siv_eqb _ siv_eqb_refl). reflexivity.
Qed.

Lemma find_type_unique l t :
  has_dup (map tdef_name l) = false -> In t l -> find_type (tdef_name t) l = Some t.
Proof.
  induction l as [|x l IH]; intros Hd Hin; [contradiction|]. cbn [find_type].
  cbn [map has_dup] in Hd. apply Bool.orb_false_iff in Hd; destruct Hd as [Hm Hd].
  destruct Hin as [->|Hin]; [rewrite str_eqb_refl; reflexivity|].
  destruct (str_eqb_spec (tdef_name t) (tdef_name x)) as [He|]; [|apply IH; assumption].
  rewrite <- He in Hm. rewrite (mem_str_map_in tdef_name t l Hin) in Hm. discriminate.
Qed.

Lemma find_ddef_unique l d :
  has_dup (map dd_name l) = false -> In d l -> find_ddef (dd_name d) l = Some d.
Proof.
  induction l as [|x l IH]; intros Hd Hin; [contradiction|]. cbn [find_ddef].
  cbn [map has_dup] in Hd. apply Bool.orb_false_iff in Hd; destruct Hd as [Hm Hd].
  destruct Hin as [->|Hin]; [rewrite str_eqb_refl; reflexivity|].
  destruct (str_eqb_spec (dd_name d) (dd_name x)) as [He|]; [|apply IH; assumption].
  rewrite <- He in Hm. rewrite (mem_str_map_in dd_name d l Hin) in Hm. discriminate.
Qed.

Theorem schema_equiv_refl sc :
  has_dup (map tdef_name (s_types sc)) = false -> has_dup (map dd_name (s_ddefs sc)) = false ->
  schema_equiv sc sc = true.
Proof.
  intros Ht Hd. unfold schema_equiv.
  assert (Hts : types_sub (s_types sc) (s_types sc) = true).
  { unfold types_sub. apply forallb_forall; intros t Hin.
    rewrite (find_type_unique _ _ Ht Hin). apply tdef_eqb_refl. }
  assert (Hds : ddefs_sub (s_ddefs sc) (s_ddefs sc) = true).
  { unfold ddefs_sub. apply forallb_forall; intros d Hin.
    rewrite (find_ddef_unique _ _ Hd Hin). apply ddef_eqb_refl. }
  rewrite Hts, Hds, !Nat.eqb_refl, !(oeqb_refl str_eqb _ str_eqb_refl), (leqb_refl dir_eqb _ dir_eqb_refl).
  reflexivity.
Qed.

Lemma mem_filter_map {A} (g : A -> str) (nm : A -> list str) (p : A -> bool) l x :
  (forall a, In a l -> nm a = [g a]) ->
  mem_str x (map g (filter p l)) = true -> mem_str x (flat_map nm l) = true.
Proof.
  intros Hn H. apply mem_str_In in H. apply in_map_iff in H. destruct H as [a [<- Ha]].
  apply filter_In in Ha; destruct Ha as [Ha _]. apply mem_str_In. apply in_flat_map.
  exists a; split; [exact Ha|]. rewrite (Hn a Ha); left; reflexivity.
Qed.

Lemma has_dup_filter_map {A} (g : A -> str) (nm : A -> list str) (p : A -> bool) l :
  (forall a, In a l -> nm a = [g a]) ->
  has_dup (flat_map nm l) = false -> has_dup (map g (filter p l)) = false.
Proof.
  induction l as [|a l IH]; intros Hn Hd; [reflexivity|].
  cbn [flat_map] in Hd. rewrite (Hn a (or_introl eq_refl)) in Hd. cbn [app has_dup] in Hd.
  apply Bool.orb_false_iff in Hd; destruct Hd as [Hm Hd].
  assert (Hn' : forall b, In b l -> nm b = [g b]) by (intros; apply Hn; right; assumption).
  cbn [filter]. destruct (p a); [|apply IH; assumption].
  cbn [map has_dup]. rewrite (IH Hn' Hd), Bool.orb_false_r.
  destruct (mem_str (g a) (map g (filter p l))) eqn:Hc; [|reflexivity].
  rewrite (mem_filter_map g nm p l (g a) Hn' Hc) in Hm. discriminate.
Qed.

Lemma declared_unique_names doc :
  r_unique_types doc = true -> r_unique_directives doc = true ->
  has_dup (map tdef_name (s_types (declared doc))) = false
  /\ has_dup (map dd_name (s_ddefs (declared doc))) = false.
Proof.
  intros Rt Rd. split.
  - rewrite declared_types_eq. unfold final_types. rewrite map_map.
    apply (has_dup_filter_map _ (fun d => match typedef_name d with Some n => [n] | None => [] end)).
    + intros d Hd. apply filter_In in Hd; destruct Hd as [_ Hd]. unfold is_typedef in Hd.
      destruct (typedef_name d) as [n|] eqn:Hn; [|discriminate].
      rewrite (decl1_name _ _ n) by (rewrite merged_name; exact Hn). reflexivity.
    + fold (tnames (filter is_typedef (doc_defs doc))). rewrite tnames_filter.
      unfold r_unique_types in Rt. apply Bool.negb_true_iff in Rt. exact Rt.
  - unfold declared; cbn [s_ddefs]. rewrite decl_directives_map.
    assert (H : has_dup (map (fun d => dd_name (dd1 (declared_env doc) d))
                             (filter (fun _ => true) (filter is_dirdef (doc_defs doc)))) = false).
    { apply (has_dup_filter_map _ (fun d => match directive_name d with Some n => [n] | None => [] end)).
      - intros d Hd. apply filter_In in Hd; destruct Hd as [_ Hd]. destruct d; try discriminate. reflexivity.
      - unfold r_unique_directives in Rd. apply Bool.negb_true_iff in Rd.
        fold (dnames (filter is_dirdef (doc_defs doc))).
        assert (He : dnames (filter is_dirdef (doc_defs doc)) = dnames (doc_defs doc)).
        { generalize (doc_defs doc). intros l. induction l as [|d l IH]; [reflexivity|].
          destruct d; cbn [filter is_dirdef]; unfold dnames in *; cbn [flat_map directive_name app];
            rewrite ?IH; reflexivity. }
        rewrite He. exact Rd. }
    rewrite map_map. clear -H.
    assert (Hf : forall l : list definition, filter (fun _ => true) l = l).
    { induction l as [|x l IH]; [reflexivity|]. cbn [filter]. rewrite IH; reflexivity. }
    rewrite Hf in H. exact H.
Qed.

(* C11_exact, with the guard *)
Theorem exact_equiv doc :
  sdl_rules_ok doc -> defaults_stable doc ->
  exists sc, build_model (BOpts false []) doc = Ok sc /\ schema_equiv sc (declared doc) = true.
Proof.
  intros Hr Hs. exists (declared doc). split; [apply exact_build_rules; assumption|].
  unfold sdl_rules_ok, sdl_rules_okb in Hr.
  repeat (apply andb_prop in Hr; destruct Hr as [Hr ?]).
  destruct (declared_unique_names doc) as [Ht Hd]; try assumption.
  apply schema_equiv_refl; assumption.
Qed.

(* ------------------------------------------------------------------ *)
(* C11_reject, for the rules _collect_definitions enforces               *)

Lemma has_dup_snoc_eq a n : has_dup (a ++ [n]) = has_dup a || mem_str n a.
Proof.
  induction a as [|x a IH]; [reflexivity|]. cbn [app has_dup]. rewrite IH, mem_str_app.
  change (mem_str x [n]) with (str_eqb x n || false).
  change (mem_str n (x :: a)) with (str_eqb n x || mem_str n a).
  rewrite (str_eqb_sym n x).
  destruct (mem_str x a), (str_eqb x n), (has_dup a), (mem_str n a); reflexivity.
Qed.

Definition acc_clean (acc : collected) : Prop :=
  has_dup (tnames (c_types acc)) = false /\ has_dup (dnames (c_dirs acc)) = false.

Definition breaks (acc : collected) (ds : list definition) : Prop :=
  has_dup (tnames (c_types acc) ++ tnames ds) = true
  \/ has_dup (dnames (c_dirs acc) ++ dnames ds) = true
  \/ 2 <= nschema acc ds.

Ltac typedef_reject IH Hc1 Hc2 Hb ds :=
  cbn [collect typedef_name c_types c_dirs c_schema];
  rewrite existsb_tnames;
  match goal with |- context [mem_str ?n (tnames ?ts)] =>
    destruct (mem_str n (tnames ts)) eqn:Hm; [reflexivity|];
    apply IH; [split; cbn [c_types c_dirs];
                 [rewrite tnames_app; cbn [tnames flat_map typedef_name app]; rewrite has_dup_snoc_eq;
                  rewrite Hc1, Hm; reflexivity
                 |exact Hc2]
              |unfold breaks in *; unfold nschema in *; cbn [c_types c_dirs c_schema] in *;
               cbn [tnames dnames flat_map typedef_name directive_name app filter is_schemadef] in Hb;
               fold (tnames ds) in Hb; fold (dnames ds) in Hb;
               rewrite tnames_app; cbn [tnames flat_map typedef_name app];
               rewrite <- app_assoc; exact Hb]
  end.

Lemma collect_rejects ds : forall acc,
  acc_clean acc -> breaks acc ds -> collect ds acc = Rejected K_SDL 0.
Proof.
  induction ds as [|d ds IH]; intros acc Hc Hb.
  - exfalso. destruct Hc as [Hc1 Hc2]. unfold breaks, nschema in Hb.
    cbn [tnames dnames flat_map filter length] in Hb. rewrite !app_nil_r in Hb.
    destruct Hb as [H|[H|H]]; try congruence. destruct (c_schema acc); simpl in H; lia.
  - destruct acc as [sd ts dd]. pose proof Hc as Hc0.
    unfold acc_clean in Hc; cbn [c_types c_dirs] in Hc; destruct Hc as [Hc1 Hc2].
    destruct d as [| | e ? ? ? | e ? ? ? ? | e ? ? ? ? ? ? | e ? ? ? ? ? | e ? ? ? ? ? | e ? ? ? ? ?
                   | e ? ? ? ? ? | ]; try destruct e;
      try (cbn [collect typedef_name]; apply IH; [exact Hc0|exact Hb]).
    + (* schema definition *)
      cbn [collect c_schema c_types c_dirs]. destruct sd as [s0|]; [reflexivity|].
      apply IH; [exact Hc0|].
      unfold breaks, nschema in *; cbn [c_types c_dirs c_schema] in *.
      cbn [tnames dnames flat_map typedef_name directive_name app filter is_schemadef length] in Hb.
      fold (tnames ds) in Hb; fold (dnames ds) in Hb.
      destruct Hb as [H|[H|H]]; [left; exact H|right; left; exact H|right; right; simpl in *; lia].
    + typedef_reject IH Hc1 Hc2 Hb ds.
    + typedef_reject IH Hc1 Hc2 Hb ds.
    + typedef_reject IH Hc1 Hc2 Hb ds.
    + typedef_reject IH Hc1 Hc2 Hb ds.
    + typedef_reject IH Hc1 Hc2 Hb ds.
    + typedef_reject IH Hc1 Hc2 Hb ds.
    + (* directive definition *)
      cbn [collect c_types c_dirs c_schema]. rewrite existsb_dnames.
      destruct (mem_str (n_val n) (dnames dd)) eqn:Hm; [reflexivity|].
      apply IH.
      * split; cbn [c_types c_dirs]; [exact Hc1|].
        rewrite dnames_app; cbn [dnames flat_map directive_name app]. rewrite has_dup_snoc_eq.
        rewrite Hc2, Hm; reflexivity.
      * unfold breaks, nschema in *; cbn [c_types c_dirs c_schema] in *.
        cbn [tnames dnames flat_map typedef_name directive_name app filter is_schemadef] in Hb.
        fold (tnames ds) in Hb; fold (dnames ds) in Hb.
        rewrite dnames_app; cbn [dnames flat_map directive_name app]. rewrite <- app_assoc. exact Hb.
Qed.

Theorem reject_duplicates o doc :
  r_unique_types doc = false \/ r_unique_directives doc = false \/ r_one_schema doc = false ->
  build_model o doc = Rejected K_SDL 0.
Proof.
  intros H. unfold build_model, build_model_fuel, build_base.
  rewrite collect_rejects; [reflexivity|split; reflexivity|].
  unfold breaks, nschema; cbn [c_types c_dirs c_schema tnames dnames flat_map app].
  fold (tnames (doc_defs doc)); fold (dnames (doc_defs doc)).
  destruct H as [H|[H|H]].
  - left. unfold r_unique_types in H. apply Bool.negb_false_iff in H. exact H.
  - right; left. unfold r_unique_directives in H. apply Bool.negb_false_iff in H. exact H.
  - right; right. unfold r_one_schema in H. apply Nat.leb_gt in H. simpl. exact H.
Qed.
