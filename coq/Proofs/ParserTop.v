(* From the invariants to statements about the entry points on source text. *)
From PyGql Require Import Lang.Parser Spec.LexSpec Spec.OutcomeSpec Spec.LocSpec Proofs.LexProofs Proofs.LexTotal
  Proofs.ParserFramework Proofs.ParserTotal.

(* ---- the token stream of a text is well formed ---- *)
Lemma lex_from_nonempty fuel rest pos : lex_from fuel rest pos <> [].
Proof.
  destruct fuel; simpl; [discriminate|].
  destruct (skip_ws false rest pos) as [r1 p1].
  destruct (next_token r1 p1) as [[t r2]| | |]; discriminate.
Qed.

Lemma lex_from_ok N (T : Prop) : forall fuel rest pos,
  length rest < fuel -> pos + length rest = N -> (trunc_esc rest -> T) ->
  Forall (lx_ok N T) (lex_from fuel rest pos) /\ wf_stream (lex_from fuel rest pos).
Proof.
  induction fuel as [|f IH]; intros rest pos Hf HN HT; [lia|]. simpl.
  destruct (skip_ws false rest pos) as [r1 p1] eqn:Ews.
  destruct (skip_ws_spec _ _ _ _ _ Ews) as (c & Hc & Hp1).
  assert (HN1 : p1 + length r1 = N) by (subst rest p1; rewrite app_length in HN; lia).
  assert (HT1 : trunc_esc r1 -> T) by (intros H; apply HT; subst rest; apply trunc_esc_prefix; exact H).
  pose proof (next_token_spec r1 p1) as Hnt.
  destruct (next_token r1 p1) as [[t r2]| |k p|]; try contradiction.
  - destruct Hnt as (c' & Hc' & Hs & He & Hne & Heof).
    assert (Htok : tok_ok N t).
    { unfold tok_ok. subst r1. rewrite app_length in HN1. lia. }
    destruct (is_kind KEOF t) eqn:Ek.
    + split; [constructor; [exact Htok|constructor]|]. simpl. split; [|exact I].
      apply tkind_eqb_eq. exact Ek.
    + assert (Hr1 : r1 <> []).
      { intros E. apply Heof in E. unfold is_kind in Ek. rewrite E in Ek. discriminate. }
      specialize (Hne Hr1).
      assert (Hlen : length r2 < f).
      { subst r1 rest. rewrite !app_length in Hf. destruct c'; [congruence|simpl in Hf; lia]. }
      destruct (IH r2 (tend t) Hlen) as [Hfa Hwf].
      * subst r1. rewrite app_length in HN1. lia.
      * intros H. apply HT1. subst r1. apply trunc_esc_prefix; exact H.
      * split; [constructor; [exact Htok|exact Hfa]|].
        pose proof (lex_from_nonempty f r2 (tend t)) as Hnel.
        remember (lex_from f r2 (tend t)) as l eqn:El. clear El.
        destruct l; [congruence|]. simpl. split; [exact I|exact Hwf].
  - split; [|simpl; auto]. constructor; [|constructor]. simpl.
    destruct Hnt as [Hnt|(-> & -> & Ht)]; [left; lia|right]. repeat split; [lia|auto].
Qed.

Lemma lex_stream_ok s :
  Forall (lx_ok (length s) (trunc_esc s)) (lex_stream s) /\ wf_stream (lex_stream s).
Proof.
  unfold lex_stream, lex_fuel.
  destruct (lex_from_ok (length s) (trunc_esc s) (S (length s)) s 0) as [Hf Hw]; auto.
  pose proof (lex_from_nonempty (S (length s)) s 0) as Hne.
  remember (lex_from (S (length s)) s 0) as l eqn:El. clear El.
  split; [constructor; [|exact Hf]|].
  - simpl. unfold tok_ok. simpl. lia.
  - destruct l; [congruence|]. simpl. split; [exact I|exact Hw].
Qed.

(* ---- the lexer alone ---- *)
Lemma collect_ok N (T : Prop) l : Forall (lx_ok N T) l ->
  match collect l with
  | Ok ts => Forall (tok_ok N) ts
  | Rejected k p => err_ok N T k p
  | _ => False
  end.
Proof.
  induction 1 as [|x l Hx Hl IH]; simpl; [constructor|].
  destruct x as [t|k p|]; simpl in *; [|assumption|contradiction].
  destruct (collect l); simpl; auto.
Qed.

Theorem lex_total s :
  match lex s with
  | Ok ts => Forall (tok_ok (length s)) ts
  | Rejected k p => err_ok (length s) (trunc_esc s) k p
  | _ => False
  end.
Proof. unfold lex. apply collect_ok. apply lex_stream_ok. Qed.

(* ---- running a production on a text ---- *)
Section Run.
Variable fl : flags.
Variable s : str.
Variable phi : loc -> Prop.
Hypothesis Hphi : forall t e, tok_ok (length s) t -> e <= length s ->
  phi (if no_location fl then None else Some (tstart t, e)).

Lemma run_good {A} (Q : A -> Prop) (p : flags -> nat -> parser A) :
  (forall n m, m < n ->
     pgoodP (length s) (trunc_esc s) (fun _ => True) Q true m (p fl n)) ->
  match run p fl s with
  | Ok a => Q a
  | Rejected k pos => err_ok (length s) (trunc_esc s) k pos
  | _ => False
  end.
Proof.
  intros Hp. unfold run, parse_fuel.
  destruct (lex_stream_ok s) as [Hf Hw].
  pose proof (Hp (S (length (lex_stream s))) (length (lex_stream s)) (le_n _)
                 (PSt (lex_stream s) 0) (conj Hf (conj Hw (Nat.le_0_l _))) I (le_n _)) as H.
  destruct (p fl (S (length (lex_stream s))) (PSt (lex_stream s) 0)) as [[a st']| | |]; auto.
  destruct H as (_ & Hq & _). exact Hq.
Qed.

Theorem parse_document_good :
  match parse_document fl s with
  | Ok d => q_doc phi d
  | Rejected k pos => err_ok (length s) (trunc_esc s) k pos
  | _ => False
  end.
Proof.
  apply (run_good (q_doc phi) parse_document_p). intros n m Hm.
  apply (pg_parse_document_p (length s) (trunc_esc s) fl phi Hphi n m Hm).
Qed.

Theorem parse_value_good :
  match parse_value_str fl s with
  | Ok v => q_value phi v
  | Rejected k pos => err_ok (length s) (trunc_esc s) k pos
  | _ => False
  end.
Proof.
  apply (run_good (q_value phi) parse_value_p). intros n m Hm.
  apply (pg_parse_value_p (length s) (trunc_esc s) fl phi Hphi n m Hm).
Qed.

Theorem parse_type_good :
  match parse_type_str fl s with
  | Ok t => q_ty phi t
  | Rejected k pos => err_ok (length s) (trunc_esc s) k pos
  | _ => False
  end.
Proof.
  apply (run_good (q_ty phi) parse_type_p). intros n m Hm.
  apply (pg_parse_type_p (length s) (trunc_esc s) fl phi Hphi n m Hm).
Qed.
End Run.

(* ---- consequences stated against Spec/OutcomeSpec.v ---- *)
Lemma trunc_esc_spec s : trunc_esc s -> ends_in_truncated_escape s.
Proof. intros H; exact H. Qed.

Lemma err_ok_position s k p : err_ok (length s) (trunc_esc s) k p -> position_ok s k p.
Proof. intros H; exact H. Qed.

Theorem total_outcome fl s :
  ok_or_rejected (parse_document fl s) /\ ok_or_rejected (parse_value_str fl s)
  /\ ok_or_rejected (parse_type_str fl s).
Proof.
  repeat split.
  - pose proof (parse_document_good fl s (fun _ => True) (fun _ _ _ _ => I)) as H.
    destruct (parse_document fl s); simpl; auto.
  - pose proof (parse_value_good fl s (fun _ => True) (fun _ _ _ _ => I)) as H.
    destruct (parse_value_str fl s); simpl; auto.
  - pose proof (parse_type_good fl s (fun _ => True) (fun _ _ _ _ => I)) as H.
    destruct (parse_type_str fl s); simpl; auto.
Qed.

Theorem error_position fl s :
  rejected_at_ok s (parse_document fl s) /\ rejected_at_ok s (parse_value_str fl s)
  /\ rejected_at_ok s (parse_type_str fl s).
Proof.
  repeat split.
  - pose proof (parse_document_good fl s (fun _ => True) (fun _ _ _ _ => I)) as H.
    destruct (parse_document fl s); simpl; auto.
  - pose proof (parse_value_good fl s (fun _ => True) (fun _ _ _ _ => I)) as H.
    destruct (parse_value_str fl s); simpl; auto.
  - pose proof (parse_type_good fl s (fun _ => True) (fun _ _ _ _ => I)) as H.
    destruct (parse_type_str fl s); simpl; auto.
Qed.

Theorem lexer_total s :
  match lex s with
  | Ok ts => Forall (fun t => tstart t <= tend t /\ tend t <= length s) ts
  | Rejected k p => position_ok s k p
  | OutOfFuel => False
  | Crash _ => False
  end.
Proof. exact (lex_total s). Qed.

(* every loc of an accepted tree satisfies [phi], for the two instances of
   interest *)

Theorem no_location_trees fl s : no_location fl = true ->
  match parse_document fl s with Ok d => q_doc loc_absent d | _ => True end
  /\ match parse_value_str fl s with Ok v => q_value loc_absent v | _ => True end
  /\ match parse_type_str fl s with Ok t => q_ty loc_absent t | _ => True end.
Proof.
  intros Hn.
  assert (Hphi : forall t e, tok_ok (length s) t -> e <= length s ->
            loc_absent (if no_location fl then None else Some (tstart t, e))).
  { intros. rewrite Hn. reflexivity. }
  repeat split.
  - pose proof (parse_document_good fl s loc_absent Hphi) as H. destruct (parse_document fl s); auto.
  - pose proof (parse_value_good fl s loc_absent Hphi) as H. destruct (parse_value_str fl s); auto.
  - pose proof (parse_type_good fl s loc_absent Hphi) as H. destruct (parse_type_str fl s); auto.
Qed.

Theorem spans_within_text fl s :
  match parse_document fl s with Ok d => q_doc (loc_within (length s)) d | _ => True end
  /\ match parse_value_str fl s with Ok v => q_value (loc_within (length s)) v | _ => True end
  /\ match parse_type_str fl s with Ok t => q_ty (loc_within (length s)) t | _ => True end.
Proof.
  assert (Hphi : forall t e, tok_ok (length s) t -> e <= length s ->
            loc_within (length s) (if no_location fl then None else Some (tstart t, e))).
  { intros t e [H1 H2] He. destruct (no_location fl); simpl; [exact I|lia]. }
  repeat split.
  - pose proof (parse_document_good fl s _ Hphi) as H. destruct (parse_document fl s); auto.
  - pose proof (parse_value_good fl s _ Hphi) as H. destruct (parse_value_str fl s); auto.
  - pose proof (parse_type_good fl s _ Hphi) as H. destruct (parse_type_str fl s); auto.
Qed.
