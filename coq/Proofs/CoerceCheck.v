(* C07 -- executable checkers for the declarative judgements, proved sound:
   [conformsb] decides (soundly) [conforms], [schema_okb] the hypotheses
   schema_wf / schema_closed / fields_unique / scalars-behaved-or-not of the
   theorems. The correspondence run applies them to every schema it generates
   and to every value the IMPLEMENTATION handed out, so that (a) the theorems
   are not vacuous on the generated schemas and (b) the implementation's
   observables are checked against the Spec directly, not only against the
   model. *)
From PyGql Require Import Spec.CoerceSpec Proofs.CoerceProofs.
From Coq Require Import ZArith Lia.

Section PvInd.
  Variable P : pv -> Prop.
  Hypothesis Hnone : P PNone.
  Hypothesis Hbool : forall b, P (PBool b).
  Hypothesis Hint : forall z, P (PInt z).
  Hypothesis Hfloat : forall r, P (PFloat r).
  Hypothesis Hstr : forall x, P (PStr x).
  Hypothesis Hlist : forall l, Forall P l -> P (PList l).
  Hypothesis Hdict : forall kvs, Forall (fun kv => P (snd kv)) kvs -> P (PDict kvs).
  Fixpoint pv_ind' (v : pv) : P v :=
    match v with
    | PNone => Hnone
    | PBool b => Hbool b
    | PInt z => Hint z
    | PFloat r => Hfloat r
    | PStr x => Hstr x
    | PList l => Hlist l ((fix go (l : list pv) : Forall P l :=
                             match l with
                             | [] => Forall_nil P
                             | x :: l' => Forall_cons x (pv_ind' x) (go l')
                             end) l)
    | PDict kvs => Hdict kvs ((fix go (l : list (str * pv)) : Forall (fun kv => P (snd kv)) l :=
                                 match l with
                                 | [] => Forall_nil _
                                 | (k, x) :: l' => Forall_cons (k, x) (pv_ind' x) (go l')
                                 end) kvs)
    end.
End PvInd.

(* structural equality of Python values (ordered dicts) *)
Fixpoint pveq (a b : pv) {struct a} : bool :=
  match a, b with
  | PNone, PNone => true
  | PBool x, PBool y => Bool.eqb x y
  | PInt x, PInt y => Z.eqb x y
  | PFloat x, PFloat y => str_eqb x y
  | PStr x, PStr y => str_eqb x y
  | PList x, PList y =>
      (fix go (x y : list pv) : bool :=
         match x, y with
         | [], [] => true
         | u :: x', w :: y' => pveq u w && go x' y'
         | _, _ => false
         end) x y
  | PDict x, PDict y =>
      (fix go (x y : list (str * pv)) : bool :=
         match x, y with
         | [], [] => true
         | (k, u) :: x', (k', w) :: y' => str_eqb k k' && pveq u w && go x' y'
         | _, _ => false
         end) x y
  | _, _ => false
  end.

Lemma pveq_eq : forall a b, pveq a b = true -> a = b.
Proof.
  induction a using pv_ind'; intros [ | | | | | |] E; simpl in E; try discriminate; try reflexivity.
  - apply Bool.eqb_prop in E. congruence.
  - apply Z.eqb_eq in E. congruence.
  - apply str_eqb_eq in E. congruence.
  - apply str_eqb_eq in E. congruence.
  - f_equal. revert l0 E. induction H as [|x l Hx Hl IH]; intros [|y l0] E; try discriminate; auto.
    apply andb_true_iff in E as (E1 & E2). f_equal; auto.
  - f_equal. revert kvs0 E. induction H as [|[k x] l Hx Hl IH]; intros [|[k' y] l0] E;
      try discriminate; auto.
    apply andb_true_iff in E as (E1 & E3). apply andb_true_iff in E1 as (E1 & E2).
    apply str_eqb_eq in E1. simpl in Hx. rewrite (Hx _ E2), E1. f_equal. auto.
Qed.

Definition scalar_okb (k : scalar_kind) (v : pv) : bool :=
  match k, v with
  | KInt, PInt z => in_int32 z
  | KFloat, PFloat _ => true
  | (KString | KID), PStr _ => true
  | KBoolean, PBool _ => true
  | KAny, PNone => false
  | KAny, _ => true
  | KTag, PStr (_ :: _) => true
  | KOdd, PInt z => Z.odd z
  | _, _ => false
  end.

Lemma scalar_okb_sound k v : scalar_okb k v = true -> scalar_ok k v.
Proof.
  destruct k, v; simpl; intros H; try discriminate H; eauto; try (intros E; discriminate E).
  - exists z. split; [reflexivity|apply in_int32_spec; assumption].
  - destruct s as [|c x]; [discriminate|]. exists (c :: x). split; [reflexivity|discriminate].
Qed.

Fixpoint nodupb (l : list str) : bool :=
  match l with [] => true | x :: l' => negb (mem_str x l') && nodupb l' end.
Lemma nodupb_sound l : nodupb l = true -> NoDup l.
Proof.
  induction l as [|x l IH]; simpl; intros H; [constructor|].
  apply andb_true_iff in H as (H1 & H2). constructor; [|auto].
  intros Hin. apply mem_str_In in Hin. rewrite Hin in H1. discriminate.
Qed.

Definition find_py (k : str) (fs : list ifield) : option ifield :=
  find (fun f => str_eqb k (f_py f)) fs.

Definition has_default (f : ifield) : bool := match f_default f with Some _ => true | None => false end.

(* what is not an input-object / list position: scalars and enums *)
Definition leafb (s : schema) (n : str) (v : pv) : bool :=
  match alookup n s with
  | Some (TDScalar k) => scalar_okb k v
  | Some (TDEnum vals) => existsb (fun p => pveq (snd p) v) vals
  | _ => false
  end.

Fixpoint conformsb (s : schema) (t : ity) (v : pv) {struct v} : bool :=
  match v with
  | PNone => negb (ity_nn t) || match t with INamed _ n => leafb s n PNone | _ => false end
  | PList l =>
      match t with
      | IList _ t' => forallb (conformsb s t') l
      | INamed _ n => leafb s n v
      end
  | PDict kvs =>
      match t with
      | IList _ _ => false
      | INamed _ n =>
          match alookup n s with
          | Some (TDInput fs) =>
              nodupb (map fst kvs)
              && (fix go (x : list (str * pv)) : bool :=
                    match x with
                    | [] => true
                    | (k, w) :: x' =>
                        match find_py k fs with
                        | Some f => conformsb s (f_ty f) w
                        | None => false
                        end && go x'
                    end) kvs
              && forallb (fun f => negb (has_default f || ity_nn (f_ty f)) || mem_str (f_py f) (map fst kvs)) fs
          | _ => leafb s n v
          end
      end
  | _ => match t with INamed _ n => leafb s n v | IList _ _ => false end
  end.

Lemma leafb_sound s nn n v : leafb s n v = true -> conforms s (INamed nn n) v.
Proof.
  unfold leafb. destruct (alookup n s) as [[k|vals|fs|]|] eqn:E; intros H; try discriminate.
  - eapply CF_scalar; [exact E|]. apply scalar_okb_sound; assumption.
  - apply existsb_exists in H as ((nm, w) & Hin & Heq). simpl in Heq. apply pveq_eq in Heq. subst w.
    eapply CF_enum; eauto.
Qed.

Theorem conformsb_sound s : forall v t, conformsb s t v = true -> conforms s t v.
Proof.
  induction v as [|b|z|r|x|l IHl|kvs IHk] using pv_ind'; intros t H;
    try (destruct t as [nn n|nn t']; simpl in H; [apply leafb_sound; assumption|discriminate]).
  - (* None *)
    simpl in H. apply orb_true_iff in H as [H|H].
    + destruct t as [[|] n|[|] t']; simpl in H; try discriminate; constructor.
    + destruct t as [nn n|nn t']; [apply leafb_sound; assumption|discriminate].
  - (* list *)
    destruct t as [nn n|nn t']; simpl in H; [apply leafb_sound; assumption|].
    constructor. rewrite forallb_forall in H. rewrite Forall_forall in *. intros x Hx. apply IHl; auto.
  - (* dict *)
    destruct t as [nn n|nn t']; simpl in H; [|discriminate].
    destruct (alookup n s) as [[k|vals|fs|]|] eqn:E;
      try (apply leafb_sound; assumption).
    apply andb_true_iff in H as (H1 & H3). apply andb_true_iff in H1 as (H1 & H2).
    eapply CF_input; [exact E|apply nodupb_sound; assumption| | |].
    + clear H1 H3. induction kvs as [|[k w] kvs IH]; [intros ? ? []|].
      inversion IHk as [|? ? Hw Hrest]; subst.
      apply andb_true_iff in H2 as (Hk & Hgo).
      intros k0 v0 [Heq|Hin].
      * inversion Heq; subst. destruct (find_py k0 fs) as [f|] eqn:Ef; [|discriminate].
        apply find_some in Ef as (Hf & Hn). apply str_eqb_eq in Hn.
        exists f. repeat split; auto; try (apply Hw; assumption).
      * apply IH; auto.
    + intros f Hf Hd. rewrite forallb_forall in H3. specialize (H3 f Hf).
      apply mem_str_In. unfold has_default in H3.
      destruct (f_default f); [|congruence]. simpl in H3. assumption.
    + intros f Hf Hn. rewrite forallb_forall in H3. specialize (H3 f Hf).
      apply mem_str_In. rewrite Hn, orb_true_r in H3. simpl in H3. assumption.
Qed.

(* ---- the hypotheses of the theorems, as a checker on schemas ---- *)
Definition boundb (s : schema) (t : ity) : bool :=
  match alookup (ity_name t) s with Some _ => true | None => false end.
Definition input_tyb (s : schema) (t : ity) : bool :=
  match alookup (ity_name t) s with Some TDOutput => false | _ => true end.

Definition fields_okb (s : schema) (fs : list ifield) : bool :=
  nodupb (map f_name fs)
  && forallb (fun f => boundb s (f_ty f) && input_tyb s (f_ty f)
                       && match f_default f with Some d => conformsb s (f_ty f) d | None => true end) fs.

Definition tdef_okb (s : schema) (d : tdef) : bool :=
  match d with
  | TDInput fs => fields_okb s fs
  | TDEnum vals => forallb (fun p => negb (pveq (snd p) PNone)) vals
  | _ => true
  end.

(* every binding of the association list is checked (also shadowed ones) *)
Definition schema_okb (s : schema) : bool := forallb (fun p => tdef_okb s (snd p)) s.

Lemma schema_okb_lookup s n d : schema_okb s = true -> alookup n s = Some d -> tdef_okb s d = true.
Proof.
  unfold schema_okb. rewrite forallb_forall. intros H Hl. apply alookup_In in Hl.
  exact (H (n, d) Hl).
Qed.

Theorem schema_okb_sound s :
  schema_okb s = true -> schema_wf s /\ schema_closed s /\ schema_inputs s /\ fields_unique s.
Proof.
  intros H.
  assert (Hf : forall n fs f, alookup n s = Some (TDInput fs) -> In f fs ->
                 boundb s (f_ty f) = true /\ input_tyb s (f_ty f) = true
                 /\ (forall d, f_default f = Some d -> conformsb s (f_ty f) d = true)).
  { intros n fs f Hn Hin. pose proof (schema_okb_lookup s n _ H Hn) as Hd. simpl in Hd.
    unfold fields_okb in Hd. apply andb_true_iff in Hd as (_ & Hd).
    rewrite forallb_forall in Hd. specialize (Hd f Hin).
    apply andb_true_iff in Hd as (Hd & Hc). apply andb_true_iff in Hd as (Hb & Hi).
    repeat split; auto. intros d Ed. rewrite Ed in Hc. assumption. }
  assert (Hin : schema_inputs s).
  { intros n fs f Hn Hi. destruct (Hf n fs f Hn Hi) as (_ & Hi' & _).
    unfold input_tyb in Hi'. unfold input_ty. destruct (alookup (ity_name (f_ty f)) s) as [[]|];
      try discriminate; congruence. }
  repeat split.
  - intros n fs Hn f d Hi Hd. apply conformsb_sound. eapply Hf; eauto.
  - intros n vals nm v Hn Hi Hv. pose proof (schema_okb_lookup s n _ H Hn) as Hd. simpl in Hd.
    rewrite forallb_forall in Hd. specialize (Hd (nm, v) Hi). simpl in Hd. subst v. discriminate.
  - exact Hin.
  - intros n fs f Hn Hi. destruct (Hf n fs f Hn Hi) as (Hb & _).
    unfold boundb in Hb. unfold bound. destruct (alookup (ity_name (f_ty f)) s); congruence.
  - exact Hin.
  - intros n fs Hn. pose proof (schema_okb_lookup s n _ H Hn) as Hd. simpl in Hd.
    unfold fields_okb in Hd. apply andb_true_iff in Hd as (Hd & _). apply nodupb_sound; assumption.
Qed.

(* argument definitions of a field / directive *)
Definition args_okb (s : schema) (defs : list ifield) : bool :=
  nodupb (map f_name defs) && nodupb (map f_py defs)
  && forallb (fun f => boundb s (f_ty f) && input_tyb s (f_ty f)
                       && match f_default f with Some d => conformsb s (f_ty f) d | None => true end) defs.

Theorem args_okb_sound s defs :
  args_okb s defs = true ->
  args_wf s defs /\ (forall d, In d defs -> usable s (f_ty d))
  /\ NoDup (map f_name defs) /\ NoDup (map f_py defs).
Proof.
  unfold args_okb. intros H. apply andb_true_iff in H as (H & Hall).
  apply andb_true_iff in H as (Hn & Hp). rewrite forallb_forall in Hall.
  assert (Hu : forall d, In d defs -> usable s (f_ty d)).
  { intros d Hd. specialize (Hall d Hd). apply andb_true_iff in Hall as (Hall & _).
    apply andb_true_iff in Hall as (Hb & Hi). unfold boundb in Hb. unfold input_tyb in Hi.
    split; [unfold bound|unfold input_ty]; destruct (alookup (ity_name (f_ty d)) s) as [[]|];
      try discriminate; congruence. }
  split; [split|split; [exact Hu|split; apply nodupb_sound; assumption]].
  - intros f d Hf Hd. specialize (Hall f Hf). apply andb_true_iff in Hall as (_ & Hc).
    rewrite Hd in Hc. apply conformsb_sound; assumption.
  - intros d Hd. apply (Hu d Hd).
Qed.
