(* C13: every reported error belongs to a part of the schema that really
   violates the Spec's rules. *)
From PyGql Require Import Schema.SchemaFull Schema.SchemaValidateModel Spec.SchemaValidSpec
  Proofs.SchemaFullLemmas Proofs.SchemaValProofs Proofs.SchemaVerdictProofs.

Theorem errors_sound s e :
  sigs_wf s -> types_wf s -> In e (validate_model s) ->
  (In e (validate_roots s) /\ ~ roots_ok s)
  \/ (exists t, In t (s_types s) /\ In e (validate_type s t) /\ ~ type_ok_with s (implementation_ok s) t)
  \/ (In e (validate_directives (s_types s) (s_dirs s)) /\ ~ directives_ok s).
Proof.
  intros Hs Hw He. unfold validate_model in He.
  apply in_app_iff in He. destruct He as [He|He].
  - left. split; [exact He|]. intros Hok. apply roots_rule in Hok. rewrite Hok in He. destruct He.
  - apply in_app_iff in He. destruct He as [He|He].
    + right; left. apply in_flat_map in He. destruct He as (t & Hin & He). exists t. split; [exact Hin|].
      split; [exact He|]. intros Hok.
      apply (type_ok_with_iff s t) in Hok;
        [|intros ifaces fields dr Eb g Hg; exact (Hw t ifaces fields dr Hin Eb g Hg)].
      apply type_rule in Hok; [|intros; eapply Hs; eauto]. rewrite Hok in He. destruct He.
    + right; right. split; [exact He|]. intros Hok. apply directives_rule in Hok. rewrite Hok in He. destruct He.
Qed.
