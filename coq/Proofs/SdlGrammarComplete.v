(* C01 at document level, completeness for type-system definitions and
   extensions (with the [lookahead != {] disambiguation of D_document_la). *)
From PyGql Require Import Lang.Parser Spec.GrammarSpec Spec.DocGrammarSpec Spec.SdlGrammarSpec
  Proofs.GrammarProofs Proofs.DocGrammarSound Proofs.DocGrammarComplete.

Ltac kinds2 := let k := fresh in let H := fresh in
  intros k H; simpl in H;
  repeat (destruct H as [<-|H]; [apply not_in_kinds; reflexivity|]); contradiction.

Ltac sub_fol HF := eapply fol_weaken; [|exact HF]; let x := fresh in let H := fresh in
  intros x H; simpl in H |- *; repeat (destruct H as [<-|H]; [tauto|]); contradiction.

Ltac norm_stream :=
  repeat first [rewrite map_app | rewrite <- app_assoc | progress cbn [map app]].

(* ---- generic pieces ---- *)
Lemma delimited_loop_complete {A} (p : parser A) (R : list ptok -> A -> Prop) delim bound :
  (forall ts x, R ts x -> length ts < bound -> forall rest e,
      p (PSt (map LT ts ++ rest) e) = Ok (x, PSt rest (lend ts e))) ->
  forall ts xs, D_sep_list R delim ts xs -> forall m rest e, length ts < m -> length ts < bound ->
    fol [delim] rest ->
    delimited_loop m delim p (PSt (map LT ts ++ rest) e) = Ok (xs, PSt rest (lend ts e)).
Proof.
  intros Hp ts xs Hl. induction Hl as [ts x Hx|ts x d ts' xs Hx Kd Hxs IH]; intros m rest e Hm Hb HF.
  - destruct m as [|m]; [lia|]. cbn [delimited_loop].
    pstep ltac:(apply (Hp _ _ Hx Hb)).
    destruct HF as (t & r & -> & Hn).
    pstep ltac:(apply skip_eval_no; intros E; apply Hn; left; auto). reflexivity.
  - rewrite app_length in Hm, Hb. simpl in Hm, Hb.
    destruct m as [|m]; [lia|]. cbn [delimited_loop]. norm_stream.
    pstep ltac:(apply (Hp _ _ Hx); lia).
    pstep ltac:(apply skip_eval_yes; exact Kd).
    pstep ltac:(apply IH; [lia|lia|exact HF]).
    unfold pret. rewrite lend_app, lend_cons'. reflexivity.
Qed.

Lemma opt_block_complete {A} (p : parser A) (R : list ptok -> A -> Prop) open close
      (P : tkind -> Prop) (Fi : list lx -> Prop) n :
  (forall ts x, R ts x -> exists t r, ts = t :: r /\ P (tk t)) ->
  (forall k, P k -> k <> close) ->
  (forall t r, P (tk t) \/ tk t = close -> Fi (LT t :: r)) ->
  pcomplete p R Fi n ->
  forall ts xs, D_opt_block R open close ts xs -> length ts < n -> forall rest e,
    (ts = [] -> fol [open] rest) ->
    (pdo t <- peek; if is_kind open t then many n open p close else pret [])
      (PSt (map LT ts ++ rest) e) = Ok (xs, PSt rest (lend ts e)).
Proof.
  intros Hfirst HP Hfi Hp ts xs Hd Hn rest e HF. destruct Hd as [|o body cl xs Ko Kc Hl Hne].
  - destruct (HF eq_refl) as (t & r & -> & Hnot). cbn [map app]. pstep ltac:(apply peek_eval).
    rewrite is_kind_no; [reflexivity|]. intros E; apply Hnot; left; auto.
  - assert (Hb : length body < n) by (simpl in Hn; rewrite app_length in Hn; simpl in Hn; lia).
    pose proof (many_complete p R open close P Fi n n Hfirst HP Hfi Hp o body cl xs rest e Ko Kc Hl Hne Hb Hb) as Hm.
    replace (lend (o :: body ++ [cl]) e) with (tend cl) by (rewrite lend_cons', lend_app; reflexivity).
    pstep ltac:(apply peek_eval_map). rewrite (is_kind_yes _ _ Ko). exact Hm.
Qed.

Lemma skip_lead_complete delim lead ts rest e t0 r0 :
  D_opt_lead delim lead -> ts = t0 :: r0 -> tk t0 <> delim ->
  skip delim (PSt (map LT lead ++ map LT ts ++ rest) e)
  = Ok (match lead with [] => false | _ => true end, PSt (map LT ts ++ rest) (lend lead e)).
Proof.
  intros [|d Kd] -> Hk.
  - simpl. apply skip_eval_no. exact Hk.
  - simpl. apply skip_eval_yes. exact Kd.
Qed.

Section SdlComplete.
Variable fl : flags.
Variable n : nat.
Notation nl := (no_location fl).
Notation fv := (fragment_variables fl).

Lemma D_description_starts ts d : D_description nl ts d -> starts [KString; KBlockString] ts.
Proof.
  intros [|t Kt|t Kt]; [left; reflexivity| |]; right; exists t, []; (split; [reflexivity|]); rewrite Kt; simpl; auto.
Qed.

Lemma parse_description_complete dsts desc rest e :
  D_description nl dsts desc -> (dsts = [] -> fol [KString; KBlockString] rest) ->
  parse_description fl (PSt (map LT dsts ++ rest) e) = Ok (desc, PSt rest (lend dsts e)).
Proof.
  intros Hd HF. unfold parse_description. destruct Hd as [|t Kt|t Kt].
  - destruct (HF eq_refl) as (t & r & -> & Hn). cbn [map app]. pstep ltac:(apply peek_eval).
    unfold is_string_tok. rewrite !is_kind_no; [reflexivity| |]; intros E; apply Hn; simpl; auto.
  - cbn [map app]. pstep ltac:(apply peek_eval). unfold is_string_tok. rewrite (is_kind_yes _ _ Kt). cbn [orb].
    pstep ltac:(apply parse_string_literal_eval). unfold pret.
    rewrite (is_kind_no KBlockString t) by (rewrite Kt; discriminate). reflexivity.
  - cbn [map app]. pstep ltac:(apply peek_eval). unfold is_string_tok.
    rewrite (is_kind_yes KBlockString _ Kt), orb_true_r.
    pstep ltac:(apply parse_string_literal_eval). unfold pret. rewrite (is_kind_yes _ _ Kt). reflexivity.
Qed.

Lemma fol_name bad t r : tk t = KName -> ~ In KName bad -> fol bad (LT t :: r).
Proof. intros K H. apply fol_cons. rewrite K. exact H. Qed.

(* ---- members ---- *)
Definition Fiv : list lx -> Prop := fol [KBang; KEquals; KParenO; KAt].

Lemma default_complete defts dv rest e :
  D_default nl defts dv -> length defts < n -> (defts = [] -> fol [KEquals] rest) ->
  (pdo b <- skip KEquals;
   if b then (pdo x <- parse_value_literal fl n true; pret (Some x)) else pret None)
    (PSt (map LT defts ++ rest) e) = Ok (dv, PSt rest (lend defts e)).
Proof.
  intros Hd Hn HF. destruct Hd as [|eq vts v Ke Dv].
  - destruct (HF eq_refl) as (t & r & -> & Hne). cbn [map app].
    pstep ltac:(apply skip_eval_no; intros E; apply Hne; left; auto). reflexivity.
  - cbn [map app]. pstep ltac:(apply skip_eval_yes; exact Ke).
    pstep ltac:(apply (value_complete fl n true _ _ Dv); [simpl in Hn; lia|exact I]).
    unfold pret. rewrite lend_cons'. reflexivity.
Qed.

Lemma parse_input_value_definition_complete :
  pcomplete (parse_input_value_definition fl n) (D_input_value nl) Fiv n.
Proof.
  intros ts iv Hd Hn rest e HF.
  destruct Hd as [dsts desc nm colon tyts t defts dv dts dirs Ddesc Kn Kc Dt Ddef Dd].
  rewrite !app_length in Hn. simpl in Hn. rewrite !app_length in Hn.
  pose proof (D_default_starts fl _ _ Ddef) as Sdef. pose proof (D_directives_starts fl _ _ _ Dd) as Sd.
  assert (Hstream : map LT (dsts ++ nm :: colon :: tyts ++ defts ++ dts) ++ rest
                    = map LT dsts ++ LT nm :: LT colon :: map LT tyts ++ map LT defts ++ map LT dts ++ rest).
  { norm_stream. reflexivity. }
  rewrite Hstream. unfold parse_input_value_definition.
  assert (HF1 : fol [KBang] (map LT defts ++ map LT dts ++ rest)).
  { apply (fol_app _ [KEquals]); [exact Sdef|kinds2|]. apply (fol_app _ [KAt]); [exact Sd|kinds2|]. sub_fol HF. }
  assert (HF2 : fol [KParenO; KAt] rest) by (sub_fol HF).
  assert (HF3 : defts = [] -> fol [KEquals] (map LT dts ++ rest)).
  { intros _. apply (fol_app _ [KAt]); [exact Sd|kinds2|]. sub_fol HF. }
  assert (Hstart : exists start r0, map LT dsts ++ LT nm :: LT colon :: map LT tyts ++ map LT defts ++ map LT dts ++ rest
                                    = LT start :: r0 /\ mkloc nl (dsts ++ nm :: colon :: tyts ++ defts ++ dts)
                                      = if nl then None else Some (tstart start, lend (dsts ++ nm :: colon :: tyts ++ defts ++ dts) e)).
  { destruct Ddesc as [|t0 K0|t0 K0]; cbn [map app]; eexists _, _; (split; [reflexivity|]); apply mkloc_lend. }
  destruct Hstart as (start & r0 & Er0 & Eloc).
  pstep ltac:(rewrite Er0; apply peek_eval). rewrite <- Er0.
  pstep ltac:(apply (parse_description_complete _ _ _ _ Ddesc); intros _; apply fol_name; [exact Kn|kinds2 || (simpl; intros [H|[H|[]]]; discriminate)]).
  pstep ltac:(apply parse_name_eval; exact Kn). pstep ltac:(apply expect_eval; exact Kc).
  pstep ltac:(apply (type_complete fl n _ _ Dt); [lia|exact HF1]).
  assert (Hdef := default_complete defts dv (map LT dts ++ rest) (lend tyts (tend colon)) Ddef ltac:(lia) HF3).
  unfold pbind at 1 in Hdef.
  destruct (skip KEquals (PSt (map LT defts ++ map LT dts ++ rest) (lend tyts (tend colon)))) as [[b sb]| | |] eqn:Es;
    try discriminate.
  pstep ltac:(exact Es). pstep ltac:(exact Hdef).
  pstep ltac:(apply (parse_directives_complete fl n true _ _ Dd); [lia|exact HF2]).
  pstep ltac:(apply get_loc_eval). unfold pret. cbn [last_end]. rewrite Eloc. lnorm. reflexivity.
Qed.

Lemma desc_start dsts desc (x : ptok) (tl : list lx) :
  D_description nl dsts desc ->
  exists start r0, map LT dsts ++ LT x :: tl = LT start :: r0 /\
    forall more e, mkloc nl (dsts ++ x :: more)
                   = if nl then None else Some (tstart start, lend (dsts ++ x :: more) e).
Proof.
  intros [|t0 K0|t0 K0]; cbn [map app]; eexists _, _; (split; [reflexivity|]); intros; apply mkloc_lend.
Qed.

Ltac desc_follow Kn :=
  intros _; apply fol_name; [exact Kn|simpl; intros [H|[H|[]]]; discriminate].

Lemma D_input_value_first ts iv : D_input_value nl ts iv ->
  exists t r, ts = t :: r /\ (tk t = KName \/ tk t = KString \/ tk t = KBlockString).
Proof.
  intros [dsts desc nm colon tyts t defts dv dts dirs Ddesc Kn _ _ _ _].
  destruct Ddesc as [|t0 K0|t0 K0]; cbn [app]; eauto 7.
Qed.

Definition member_start (k : tkind) : Prop := k = KName \/ k = KString \/ k = KBlockString.

Lemma input_values_block_complete open close ts ivs rest e :
  close = KParenC \/ close = KCurlyC ->
  D_opt_block (D_input_value nl) open close ts ivs -> length ts < n -> (ts = [] -> fol [open] rest) ->
  (pdo t <- peek; if is_kind open t then many n open (parse_input_value_definition fl n) close else pret [])
    (PSt (map LT ts ++ rest) e) = Ok (ivs, PSt rest (lend ts e)).
Proof.
  intros Hc Hd Hn HF.
  apply (opt_block_complete (parse_input_value_definition fl n) (D_input_value nl) open close member_start Fiv n);
    auto.
  - apply D_input_value_first.
  - intros k [->|[->| ->]]; destruct Hc as [-> | ->]; discriminate.
  - intros t r [[H|[H|H]]|H]; apply fol_cons; rewrite H; try (apply not_in_kinds; reflexivity);
      destruct Hc as [-> | ->]; apply not_in_kinds; reflexivity.
  - apply parse_input_value_definition_complete.
Qed.

Definition Ffd : list lx -> Prop := fol [KBang; KParenO; KAt].

Lemma parse_field_definition_complete :
  pcomplete (parse_field_definition fl n) (D_field_def nl) Ffd n.
Proof.
  intros ts fd Hd Hn rest e HF.
  destruct Hd as [dsts desc nm ats args colon tyts t dts dirs Ddesc Kn Da Kc Dt Dd].
  rewrite !app_length in Hn. simpl in Hn. rewrite !app_length in Hn. simpl in Hn. rewrite !app_length in Hn.
  pose proof (D_directives_starts fl _ _ _ Dd) as Sd.
  assert (Hstream : map LT (dsts ++ nm :: ats ++ colon :: tyts ++ dts) ++ rest
                    = map LT dsts ++ LT nm :: map LT ats ++ LT colon :: map LT tyts ++ map LT dts ++ rest).
  { norm_stream. reflexivity. }
  rewrite Hstream. unfold parse_field_definition.
  assert (HF1 : fol [KBang] (map LT dts ++ rest)).
  { apply (fol_app _ [KAt]); [exact Sd|kinds2|]. sub_fol HF. }
  assert (HF2 : fol [KParenO; KAt] rest) by (sub_fol HF).
  destruct (desc_start dsts desc nm (map LT ats ++ LT colon :: map LT tyts ++ map LT dts ++ rest) Ddesc)
    as (start & r0 & Er0 & Eloc).
  pstep ltac:(rewrite Er0; apply peek_eval). rewrite <- Er0.
  pstep ltac:(apply (parse_description_complete _ _ _ _ Ddesc); desc_follow Kn).
  pstep ltac:(apply parse_name_eval; exact Kn).
  pstep ltac:(apply (input_values_block_complete KParenO KParenC ats args _ _ (or_introl eq_refl) Da); [lia|];
              intros _; apply fol_cons; rewrite Kc; apply not_in_kinds; reflexivity).
  pstep ltac:(apply expect_eval; exact Kc).
  pstep ltac:(apply (type_complete fl n _ _ Dt); [lia|exact HF1]).
  pstep ltac:(apply (parse_directives_complete fl n true _ _ Dd); [lia|exact HF2]).
  pstep ltac:(apply get_loc_eval). unfold pret. cbn [last_end]. rewrite (Eloc _ e). lnorm. reflexivity.
Qed.

Lemma D_field_def_first ts fd : D_field_def nl ts fd ->
  exists t r, ts = t :: r /\ member_start (tk t).
Proof.
  intros [dsts desc nm ats args colon tyts t dts dirs Ddesc Kn _ _ _ _]. unfold member_start.
  destruct Ddesc as [|t0 K0|t0 K0]; cbn [app]; eauto 7.
Qed.

Lemma parse_fields_definition_complete fts fs rest e :
  D_fields_def nl fts fs -> length fts < n -> (fts = [] -> fol [KCurlyO] rest) ->
  parse_fields_definition fl n (PSt (map LT fts ++ rest) e) = Ok (fs, PSt rest (lend fts e)).
Proof.
  intros Hd Hn HF. unfold parse_fields_definition.
  apply (opt_block_complete (parse_field_definition fl n) (D_field_def nl) KCurlyO KCurlyC member_start Ffd n); auto.
  - apply D_field_def_first.
  - intros k [->|[->| ->]]; discriminate.
  - intros t r [[H|[H|H]]|H]; apply fol_cons; rewrite H; apply not_in_kinds; reflexivity.
  - apply parse_field_definition_complete.
Qed.

Lemma not_reserved_kw v : ~ is_reserved v ->
  is_kw "true" v || is_kw "false" v || is_kw "null" v = false.
Proof.
  unfold is_reserved. intros H.
  rewrite (is_kw_false "true"), (is_kw_false "false"), (is_kw_false "null"); [reflexivity| | |]; intros E; apply H; auto.
Qed.

Lemma parse_enum_value_definition_complete :
  pcomplete (parse_enum_value_definition fl n) (D_enum_value nl) (fol [KParenO; KAt]) n.
Proof.
  intros ts ev Hd Hn rest e HF.
  destruct Hd as [dsts desc nm dts dirs Ddesc Kn Hres Dd].
  rewrite !app_length in Hn. simpl in Hn.
  assert (Hstream : map LT (dsts ++ nm :: dts) ++ rest = map LT dsts ++ LT nm :: map LT dts ++ rest).
  { norm_stream. reflexivity. }
  rewrite Hstream. unfold parse_enum_value_definition.
  destruct (desc_start dsts desc nm (map LT dts ++ rest) Ddesc) as (start & r0 & Er0 & Eloc).
  pstep ltac:(rewrite Er0; apply peek_eval). rewrite <- Er0.
  pstep ltac:(apply (parse_description_complete _ _ _ _ Ddesc); desc_follow Kn).
  pstep ltac:(apply peek_eval). rewrite (not_reserved_kw _ Hres), andb_false_r.
  pstep ltac:(apply parse_name_eval; exact Kn).
  pstep ltac:(apply (parse_directives_complete fl n true _ _ Dd); [lia|exact HF]).
  pstep ltac:(apply get_loc_eval). unfold pret. cbn [last_end]. rewrite (Eloc _ e). lnorm. reflexivity.
Qed.

Lemma D_enum_value_first ts ev : D_enum_value nl ts ev -> exists t r, ts = t :: r /\ member_start (tk t).
Proof.
  intros [dsts desc nm dts dirs Ddesc Kn _ _]. unfold member_start.
  destruct Ddesc as [|t0 K0|t0 K0]; cbn [app]; eauto 7.
Qed.

Lemma parse_enum_values_definition_complete vts vs rest e :
  D_enum_values nl vts vs -> length vts < n -> (vts = [] -> fol [KCurlyO] rest) ->
  parse_enum_values_definition fl n (PSt (map LT vts ++ rest) e) = Ok (vs, PSt rest (lend vts e)).
Proof.
  intros Hd Hn HF. unfold parse_enum_values_definition.
  apply (opt_block_complete (parse_enum_value_definition fl n) (D_enum_value nl) KCurlyO KCurlyC member_start
           (fol [KParenO; KAt]) n); auto.
  - apply D_enum_value_first.
  - intros k [->|[->| ->]]; discriminate.
  - intros t r [[H|[H|H]]|H]; apply fol_cons; rewrite H; apply not_in_kinds; reflexivity.
  - apply parse_enum_value_definition_complete.
Qed.

Lemma parse_operation_type_definition_complete :
  pcomplete (parse_operation_type_definition fl) (D_op_type_def nl) Ftrue n.
Proof.
  intros ts o Hd Hn rest e _. destruct Hd as [k kind colon nm Dk Kc Kn].
  destruct (op_kind_of_complete _ _ Dk) as [Kk Ek]. unfold parse_operation_type_definition. cbn [map app].
  pstep ltac:(apply peek_eval).
  pstep ltac:(unfold parse_operation_type; erewrite pbind_eval by (apply expect_eval; exact Kk);
              cbv beta; rewrite Ek; reflexivity).
  pstep ltac:(apply expect_eval; exact Kc). pstep ltac:(apply parse_named_type_eval; exact Kn).
  pstep ltac:(apply get_loc_eval). reflexivity.
Qed.

Lemma op_types_complete ts ots rest e : D_op_types nl ts ots -> length ts < n ->
  many n KCurlyO (parse_operation_type_definition fl) KCurlyC (PSt (map LT ts ++ rest) e)
  = Ok (ots, PSt rest (lend ts e)).
Proof.
  intros [o body cl ots0 Ko Kc Hl Hne] Hn.
  assert (Hb : length body < n) by (simpl in Hn; rewrite app_length in Hn; simpl in Hn; lia).
  rewrite (many_complete (parse_operation_type_definition fl) (D_op_type_def nl) KCurlyO KCurlyC
             (fun k => k = KName) Ftrue n n) with (cl := cl) (xs := ots0); auto.
  - rewrite lend_cons', lend_app. reflexivity.
  - intros ts0 x [k kind colon nm Dk _ _]. destruct (op_kind_of_complete _ _ Dk) as [Kk _]. eauto.
  - intros k ->. discriminate.
  - intros; exact I.
  - apply parse_operation_type_definition_complete.
Qed.

Lemma named_type_complete : forall ts x, D_named_type nl ts x -> length ts < n -> forall rest e,
  parse_named_type fl (PSt (map LT ts ++ rest) e) = Ok (x, PSt rest (lend ts e)).
Proof. intros ts x [t Kt] _ rest e. cbn [map app]. apply parse_named_type_eval. exact Kt. Qed.

Lemma D_sep_named_first delim ts tys : D_sep_list (D_named_type nl) delim ts tys ->
  exists t r, ts = t :: r /\ tk t = KName.
Proof. intros [ts0 x [t Kt]|ts0 x d ts' xs [t Kt] _ _]; simpl; eauto. Qed.

Lemma parse_implements_interfaces_complete its ifs rest e :
  D_implements nl its ifs -> length its < n ->
  (its = [] -> exists t r, rest = LT t :: r /\ ~ is_word "implements" t) ->
  (its <> [] -> fol [KAmp] rest) ->
  parse_implements_interfaces fl n (PSt (map LT its ++ rest) e) = Ok (ifs, PSt rest (lend its e)).
Proof.
  intros Hd Hn HF0 HF1. unfold parse_implements_interfaces. destruct Hd as [|k lead ts tys [Kk Vk] Dl Ds].
  - destruct (HF0 eq_refl) as (t & r & -> & Hnw). cbn [map app]. pstep ltac:(apply peek_eval).
    destruct (is_kind KName t && is_kw "implements" (tval t)) eqn:E; [|reflexivity].
    exfalso. apply Hnw. apply andb_true_iff in E. destruct E as [E1 E2].
    split; [apply tkind_eqb_eq; exact E1|apply str_eqb_eq; exact E2].
  - simpl in Hn. rewrite app_length in Hn.
    destruct (D_sep_named_first _ _ _ Ds) as (t0 & r0 & Ets & K0).
    assert (Hstream : map LT (k :: lead ++ ts) ++ rest = LT k :: map LT lead ++ map LT ts ++ rest).
    { norm_stream. reflexivity. }
    rewrite Hstream. pstep ltac:(apply peek_eval).
    rewrite (is_kind_yes _ _ Kk), (is_kw_true "implements" _ Vk). cbn [andb].
    pstep ltac:(apply advance_eval).
    pstep ltac:(apply (skip_lead_complete KAmp lead ts rest _ t0 r0 Dl Ets); rewrite K0; discriminate).
    rewrite (delimited_loop_complete (parse_named_type fl) (D_named_type nl) KAmp n named_type_complete
               ts tys Ds n rest _ ltac:(lia) ltac:(lia) (HF1 ltac:(discriminate))).
    lnorm. reflexivity.
Qed.

Lemma parse_union_member_types_complete mts tys rest e :
  D_union_members nl mts tys -> length mts < n ->
  (mts = [] -> fol [KEquals] rest) -> (mts <> [] -> fol [KPipe] rest) ->
  parse_union_member_types fl n (PSt (map LT mts ++ rest) e) = Ok (tys, PSt rest (lend mts e)).
Proof.
  intros Hd Hn HF0 HF1. unfold parse_union_member_types. destruct Hd as [|eq lead ts tys0 Ke Dl Ds].
  - destruct (HF0 eq_refl) as (t & r & -> & Hne). cbn [map app].
    pstep ltac:(apply skip_eval_no; intros E; apply Hne; left; auto). reflexivity.
  - simpl in Hn. rewrite app_length in Hn.
    destruct (D_sep_named_first _ _ _ Ds) as (t0 & r0 & Ets & K0).
    assert (Hstream : map LT (eq :: lead ++ ts) ++ rest = LT eq :: map LT lead ++ map LT ts ++ rest).
    { norm_stream. reflexivity. }
    rewrite Hstream. pstep ltac:(apply skip_eval_yes; exact Ke). unfold delimited_list.
    pstep ltac:(apply (skip_lead_complete KPipe lead ts rest _ t0 r0 Dl Ets); rewrite K0; discriminate).
    rewrite (delimited_loop_complete (parse_named_type fl) (D_named_type nl) KPipe n named_type_complete
               ts tys0 Ds n rest _ ltac:(lia) ltac:(lia) (HF1 ltac:(discriminate))).
    lnorm. reflexivity.
Qed.

Lemma directive_location_complete : forall ts x, D_directive_location nl ts x -> length ts < n ->
  forall rest e, parse_directive_location fl (PSt (map LT ts ++ rest) e) = Ok (x, PSt rest (lend ts e)).
Proof.
  intros ts x [t Kt Hin] _ rest e. cbn [map app]. unfold parse_directive_location.
  pstep ltac:(apply peek_eval). pstep ltac:(apply parse_name_eval; exact Kt).
  assert (Hm : mem_str (n_val (name_node nl t)) (map kw directive_locations) = true).
  { apply mem_str_In. exact Hin. }
  rewrite Hm. reflexivity.
Qed.

(* ---- what may follow a definition ---- *)
Definition Fdef (rest : list lx) : Prop :=
  exists t r, rest = LT t :: r /\ ~ In (tk t) [KAmp; KParenO; KAt; KPipe; KEquals; KBang]
              /\ ~ is_word "implements" t.

Lemma Fdef_fol bad rest : incl bad [KAmp; KParenO; KAt; KPipe; KEquals; KBang] -> Fdef rest -> fol bad rest.
Proof. intros Hi (t & r & -> & Hk & _). exists t, r. split; [reflexivity|]. intros H; apply Hk, Hi, H. Qed.

Ltac from_Fdef HF := apply (fun H => Fdef_fol _ _ H HF); let x := fresh in let H := fresh in
  intros x H; simpl in H |- *; repeat (destruct H as [<-|H]; [tauto|]); contradiction.

Lemma not_word_app (w : String.string) ks ts rest :
  starts ks ts -> ~ In KName ks ->
  (exists t r, rest = LT t :: r /\ ~ is_word w t) ->
  exists t r, map LT ts ++ rest = LT t :: r /\ ~ is_word w t.
Proof.
  intros [->|(t & r & -> & Hk)] Hn Hr; [exact Hr|]. simpl. exists t. eexists. split; [reflexivity|].
  intros [K _]. apply Hn. rewrite <- K. exact Hk.
Qed.

Lemma Fdef_not_word rest : Fdef rest -> exists t r, rest = LT t :: r /\ ~ is_word "implements" t.
Proof. intros (t & r & -> & _ & H). eauto. Qed.

Lemma D_fields_def_starts ts fs : D_fields_def nl ts fs -> starts [KCurlyO] ts.
Proof. intros [|o body cl xs Ko _ _ _]; [left; reflexivity|right]. exists o, (body ++ [cl]). simpl; auto. Qed.

Lemma opt_block_starts {A} (R : list ptok -> A -> Prop) open close ts xs :
  D_opt_block R open close ts xs -> starts [open] ts.
Proof. intros [|o body cl ys Ko _ _ _]; [left; reflexivity|right]. exists o, (body ++ [cl]). simpl; auto. Qed.

Lemma opt_block_nil {A} (R : list ptok -> A -> Prop) open close ts xs :
  D_opt_block R open close ts xs -> xs = [] -> ts = [].
Proof. intros [|o body cl ys _ _ _ Hne]; [reflexivity|congruence]. Qed.

Lemma D_implements_starts ts ifs : D_implements nl ts ifs -> starts [KName] ts.
Proof. intros [|k lead ts0 tys [Kk _] _ _]; [left; reflexivity|right]. exists k, (lead ++ ts0). simpl; auto. Qed.

Lemma D_union_members_starts ts tys : D_union_members nl ts tys -> starts [KEquals] ts.
Proof. intros [|eq lead ts0 tys0 Ke _ _]; [left; reflexivity|right]. exists eq, (lead ++ ts0). simpl; auto. Qed.

(* ---- the dispatch of parse_type_system_definition ---- *)
Definition tsd_branch (keyword : ptok) : parser definition :=
  if is_kind KName keyword then
    let v := tval keyword in
    if is_kw "schema" v then parse_schema_definition fl n
    else if is_kw "scalar" v then parse_scalar_type_definition fl n
    else if is_kw "type" v then parse_object_type_definition fl n
    else if is_kw "interface" v then parse_interface_type_definition fl n
    else if is_kw "union" v then parse_union_type_definition fl n
    else if is_kw "enum" v then parse_enum_type_definition fl n
    else if is_kw "input" v then parse_input_object_type_definition fl n
    else if is_kw "directive" v then parse_directive_definition fl n
    else unexpected keyword (tstart keyword)
  else unexpected keyword (tstart keyword).

Lemma tsd_dispatch_eval dsts desc k tl e :
  D_description nl dsts desc -> tk k = KName ->
  parse_type_system_definition fl n (PSt (map LT dsts ++ LT k :: tl) e)
  = tsd_branch k (PSt (map LT dsts ++ LT k :: tl) e).
Proof.
  intros Hd Kk. unfold parse_type_system_definition. destruct Hd as [|t Kt|t Kt]; cbn [map app].
  - pstep ltac:(apply peek_eval). unfold is_string_tok.
    rewrite !(is_kind_no _ k) by (rewrite Kk; discriminate). cbn [orb]. pstep ltac:(reflexivity). reflexivity.
  - pstep ltac:(apply peek_eval). unfold is_string_tok. rewrite (is_kind_yes _ _ Kt). cbn [orb].
    pstep ltac:(reflexivity). reflexivity.
  - pstep ltac:(apply peek_eval). unfold is_string_tok. rewrite (is_kind_yes KBlockString _ Kt), orb_true_r.
    pstep ltac:(reflexivity). reflexivity.
Qed.

Ltac kwcompute :=
  repeat match goal with
         | |- context [is_kw ?a (str_of_string ?b)] =>
             let v := eval vm_compute in (is_kw a (str_of_string b)) in
             change (is_kw a (str_of_string b)) with v
         end; cbv iota.

Ltac pick_branch Kk Vk := unfold tsd_branch; rewrite (is_kind_yes _ _ Kk); cbv zeta; rewrite Vk; kwcompute.

Ltac lens Hn := repeat (rewrite app_length in Hn || simpl length in Hn).

Theorem tsd_complete ts d rest e :
  D_type_system_definition nl ts d -> length ts < n -> Fdef rest ->
  (blockless d -> fol [KCurlyO] rest) ->
  parse_type_system_definition fl n (PSt (map LT ts ++ rest) e) = Ok (d, PSt rest (lend ts e)).
Proof.
  intros Hd Hn HF Hbl.
  assert (HFd : fol [KParenO; KAt] rest) by (from_Fdef HF).
  destruct Hd as [k dts dirs ots_ts ots [Kk Vk] Dd Do
                 |dsts desc k nm dts dirs Ddesc [Kk Vk] Kn Dd
                 |dsts desc k nm its ifs dts dirs fts fs Ddesc [Kk Vk] Kn Di Dd Df
                 |dsts desc k nm dts dirs fts fs Ddesc [Kk Vk] Kn Dd Df
                 |dsts desc k nm dts dirs mts tys Ddesc [Kk Vk] Kn Dd Dm
                 |dsts desc k nm dts dirs vts vs Ddesc [Kk Vk] Kn Dd Dv
                 |dsts desc k nm dts dirs fts fs Ddesc [Kk Vk] Kn Dd Df
                 |dsts desc k a nm ats args o lead lts locs Ddesc [Kk Vk] Ka Kn Da Wo Dl Dls];
    lens Hn.
  - (* schema *)
    assert (Hstream : map LT (k :: dts ++ ots_ts) ++ rest = map LT (@nil ptok) ++ LT k :: map LT dts ++ map LT ots_ts ++ rest).
    { norm_stream. reflexivity. }
    rewrite Hstream, (tsd_dispatch_eval [] None k _ e (DDesc_none nl) Kk). pick_branch Kk Vk.
    cbn [map app]. unfold parse_schema_definition.
    destruct Do as [o body cl ots0 Ko Kc Hl Hne].
    pstep ltac:(apply peek_eval). pstep ltac:(apply expect_keyword_eval; split; assumption).
    pstep ltac:(apply (parse_directives_complete fl n true _ _ Dd); [lia|];
                simpl; apply fol_cons; rewrite Ko; apply not_in_kinds; reflexivity).
    pstep ltac:(apply (op_types_complete _ _ rest _ (DOts nl o body cl ots0 Ko Kc Hl Hne)); simpl in *; lia).
    pstep ltac:(apply get_loc_eval). unfold pret. cbn [last_end].
    rewrite (mkloc_lend nl k (dts ++ o :: body ++ [cl]) e). lnorm. reflexivity.
  - (* scalar *)
    assert (Hstream : map LT (dsts ++ k :: nm :: dts) ++ rest = map LT dsts ++ LT k :: LT nm :: map LT dts ++ rest).
    { norm_stream. reflexivity. }
    rewrite Hstream, (tsd_dispatch_eval dsts desc k _ e Ddesc Kk). pick_branch Kk Vk.
    unfold parse_scalar_type_definition.
    destruct (desc_start dsts desc k (LT nm :: map LT dts ++ rest) Ddesc) as (start & r0 & Er0 & Eloc).
    pstep ltac:(rewrite Er0; apply peek_eval). rewrite <- Er0.
    pstep ltac:(apply (parse_description_complete _ _ _ _ Ddesc); desc_follow Kk).
    pstep ltac:(apply expect_keyword_eval; split; assumption).
    pstep ltac:(apply parse_name_eval; exact Kn).
    pstep ltac:(apply (parse_directives_complete fl n true _ _ Dd); [lia|exact HFd]).
    pstep ltac:(apply get_loc_eval). unfold pret. cbn [last_end]. rewrite (Eloc _ e). lnorm. reflexivity.
  - (* object *)
    pose proof (D_directives_starts fl _ _ _ Dd) as Sd. pose proof (D_fields_def_starts _ _ Df) as Sf.
    assert (Hstream : map LT (dsts ++ k :: nm :: its ++ dts ++ fts) ++ rest
                      = map LT dsts ++ LT k :: LT nm :: map LT its ++ map LT dts ++ map LT fts ++ rest).
    { norm_stream. reflexivity. }
    rewrite Hstream, (tsd_dispatch_eval dsts desc k _ e Ddesc Kk). pick_branch Kk Vk.
    unfold parse_object_type_definition.
    destruct (desc_start dsts desc k (LT nm :: map LT its ++ map LT dts ++ map LT fts ++ rest) Ddesc)
      as (start & r0 & Er0 & Eloc).
    assert (Hbl' : fts = [] -> fol [KCurlyO] rest).
    { intros ->. apply Hbl. inversion Df; subst. exact I. }
    pstep ltac:(rewrite Er0; apply peek_eval). rewrite <- Er0.
    pstep ltac:(apply (parse_description_complete _ _ _ _ Ddesc); desc_follow Kk).
    pstep ltac:(apply expect_keyword_eval; split; assumption).
    pstep ltac:(apply parse_name_eval; exact Kn).
    pstep ltac:(apply (parse_implements_interfaces_complete its ifs _ _ Di); [lia| |];
                [intros _; apply (not_word_app _ [KAt]); [exact Sd|simpl; intros [H|[]]; discriminate|];
                 apply (not_word_app _ [KCurlyO]); [exact Sf|simpl; intros [H|[]]; discriminate|];
                 apply Fdef_not_word; exact HF
                |intros _; apply (fol_app _ [KAt]); [exact Sd|kinds2|]; apply (fol_app _ [KCurlyO]); [exact Sf|kinds2|];
                 from_Fdef HF]).
    pstep ltac:(apply (parse_directives_complete fl n true _ _ Dd); [lia|];
                apply (fol_app _ [KCurlyO]); [exact Sf|kinds2|exact HFd]).
    pstep ltac:(apply (parse_fields_definition_complete fts fs rest _ Df); [lia|exact Hbl']).
    pstep ltac:(apply get_loc_eval). unfold pret. cbn [last_end]. rewrite (Eloc _ e). lnorm. reflexivity.
  - (* interface *)
    pose proof (D_fields_def_starts _ _ Df) as Sf.
    assert (Hstream : map LT (dsts ++ k :: nm :: dts ++ fts) ++ rest
                      = map LT dsts ++ LT k :: LT nm :: map LT dts ++ map LT fts ++ rest).
    { norm_stream. reflexivity. }
    rewrite Hstream, (tsd_dispatch_eval dsts desc k _ e Ddesc Kk). pick_branch Kk Vk.
    unfold parse_interface_type_definition.
    destruct (desc_start dsts desc k (LT nm :: map LT dts ++ map LT fts ++ rest) Ddesc) as (start & r0 & Er0 & Eloc).
    assert (Hbl' : fts = [] -> fol [KCurlyO] rest).
    { intros ->. apply Hbl. inversion Df; subst. exact I. }
    pstep ltac:(rewrite Er0; apply peek_eval). rewrite <- Er0.
    pstep ltac:(apply (parse_description_complete _ _ _ _ Ddesc); desc_follow Kk).
    pstep ltac:(apply expect_keyword_eval; split; assumption).
    pstep ltac:(apply parse_name_eval; exact Kn).
    pstep ltac:(apply (parse_directives_complete fl n true _ _ Dd); [lia|];
                apply (fol_app _ [KCurlyO]); [exact Sf|kinds2|exact HFd]).
    pstep ltac:(apply (parse_fields_definition_complete fts fs rest _ Df); [lia|exact Hbl']).
    pstep ltac:(apply get_loc_eval). unfold pret. cbn [last_end]. rewrite (Eloc _ e). lnorm. reflexivity.
  - (* union *)
    pose proof (D_union_members_starts _ _ Dm) as Sm.
    assert (Hstream : map LT (dsts ++ k :: nm :: dts ++ mts) ++ rest
                      = map LT dsts ++ LT k :: LT nm :: map LT dts ++ map LT mts ++ rest).
    { norm_stream. reflexivity. }
    rewrite Hstream, (tsd_dispatch_eval dsts desc k _ e Ddesc Kk). pick_branch Kk Vk.
    unfold parse_union_type_definition.
    destruct (desc_start dsts desc k (LT nm :: map LT dts ++ map LT mts ++ rest) Ddesc) as (start & r0 & Er0 & Eloc).
    pstep ltac:(rewrite Er0; apply peek_eval). rewrite <- Er0.
    pstep ltac:(apply (parse_description_complete _ _ _ _ Ddesc); desc_follow Kk).
    pstep ltac:(apply expect_keyword_eval; split; assumption).
    pstep ltac:(apply parse_name_eval; exact Kn).
    pstep ltac:(apply (parse_directives_complete fl n true _ _ Dd); [lia|];
                apply (fol_app _ [KEquals]); [exact Sm|kinds2|exact HFd]).
    pstep ltac:(apply (parse_union_member_types_complete mts tys rest _ Dm); [lia| |];
                intros _; from_Fdef HF).
    pstep ltac:(apply get_loc_eval). unfold pret. cbn [last_end]. rewrite (Eloc _ e). lnorm. reflexivity.
  - (* enum *)
    pose proof (opt_block_starts _ _ _ _ _ Dv) as Sv.
    assert (Hstream : map LT (dsts ++ k :: nm :: dts ++ vts) ++ rest
                      = map LT dsts ++ LT k :: LT nm :: map LT dts ++ map LT vts ++ rest).
    { norm_stream. reflexivity. }
    rewrite Hstream, (tsd_dispatch_eval dsts desc k _ e Ddesc Kk). pick_branch Kk Vk.
    unfold parse_enum_type_definition.
    destruct (desc_start dsts desc k (LT nm :: map LT dts ++ map LT vts ++ rest) Ddesc) as (start & r0 & Er0 & Eloc).
    assert (Hbl' : vts = [] -> fol [KCurlyO] rest).
    { intros ->. apply Hbl. inversion Dv; subst. exact I. }
    pstep ltac:(rewrite Er0; apply peek_eval). rewrite <- Er0.
    pstep ltac:(apply (parse_description_complete _ _ _ _ Ddesc); desc_follow Kk).
    pstep ltac:(apply expect_keyword_eval; split; assumption).
    pstep ltac:(apply parse_name_eval; exact Kn).
    pstep ltac:(apply (parse_directives_complete fl n true _ _ Dd); [lia|];
                apply (fol_app _ [KCurlyO]); [exact Sv|kinds2|exact HFd]).
    pstep ltac:(apply (parse_enum_values_definition_complete vts vs rest _ Dv); [lia|exact Hbl']).
    pstep ltac:(apply get_loc_eval). unfold pret. cbn [last_end]. rewrite (Eloc _ e). lnorm. reflexivity.
  - (* input *)
    pose proof (opt_block_starts _ _ _ _ _ Df) as Sf.
    assert (Hstream : map LT (dsts ++ k :: nm :: dts ++ fts) ++ rest
                      = map LT dsts ++ LT k :: LT nm :: map LT dts ++ map LT fts ++ rest).
    { norm_stream. reflexivity. }
    rewrite Hstream, (tsd_dispatch_eval dsts desc k _ e Ddesc Kk). pick_branch Kk Vk.
    unfold parse_input_object_type_definition, parse_input_fields_definition.
    destruct (desc_start dsts desc k (LT nm :: map LT dts ++ map LT fts ++ rest) Ddesc) as (start & r0 & Er0 & Eloc).
    assert (Hbl' : fts = [] -> fol [KCurlyO] rest).
    { intros ->. apply Hbl. inversion Df; subst. exact I. }
    pstep ltac:(rewrite Er0; apply peek_eval). rewrite <- Er0.
    pstep ltac:(apply (parse_description_complete _ _ _ _ Ddesc); desc_follow Kk).
    pstep ltac:(apply expect_keyword_eval; split; assumption).
    pstep ltac:(apply parse_name_eval; exact Kn).
    pstep ltac:(apply (parse_directives_complete fl n true _ _ Dd); [lia|];
                apply (fol_app _ [KCurlyO]); [exact Sf|kinds2|exact HFd]).
    pstep ltac:(apply (input_values_block_complete KCurlyO KCurlyC fts fs rest _ (or_intror eq_refl) Df); [lia|exact Hbl']).
    pstep ltac:(apply get_loc_eval). unfold pret. cbn [last_end]. rewrite (Eloc _ e). lnorm. reflexivity.
  - (* directive *)
    destruct Wo as [Ko Vo].
    assert (Hlts : exists t0 r0, lts = t0 :: r0 /\ tk t0 = KName).
    { destruct Dls as [ts0 x [t Kt _]|ts0 x d0 ts' xs [t Kt _] _ _]; simpl; eauto. }
    destruct Hlts as (t0 & rl & Elts & K0).
    assert (Hstream : map LT (dsts ++ k :: a :: nm :: ats ++ o :: lead ++ lts) ++ rest
                      = map LT dsts ++ LT k :: LT a :: LT nm :: map LT ats ++ LT o :: map LT lead ++ map LT lts ++ rest).
    { norm_stream. reflexivity. }
    rewrite Hstream, (tsd_dispatch_eval dsts desc k _ e Ddesc Kk). pick_branch Kk Vk.
    unfold parse_directive_definition, parse_argument_definitions.
    destruct (desc_start dsts desc k (LT a :: LT nm :: map LT ats ++ LT o :: map LT lead ++ map LT lts ++ rest) Ddesc)
      as (start & r0 & Er0 & Eloc).
    pstep ltac:(rewrite Er0; apply peek_eval). rewrite <- Er0.
    pstep ltac:(apply (parse_description_complete _ _ _ _ Ddesc); desc_follow Kk).
    pstep ltac:(apply expect_keyword_eval; split; assumption).
    pstep ltac:(apply expect_eval; exact Ka).
    pstep ltac:(apply parse_name_eval; exact Kn).
    pstep ltac:(apply (input_values_block_complete KParenO KParenC ats args _ _ (or_introl eq_refl) Da); [lia|];
                intros _; apply fol_cons; rewrite Ko; apply not_in_kinds; reflexivity).
    pstep ltac:(apply expect_keyword_eval; split; assumption).
    unfold delimited_list.
    pstep ltac:(erewrite pbind_eval by (apply (skip_lead_complete KPipe lead lts rest _ t0 rl Dl Elts); rewrite K0; discriminate);
                cbv beta;
                apply (delimited_loop_complete (parse_directive_location fl) (D_directive_location nl) KPipe n
                         directive_location_complete lts locs Dls n rest _); [lia|lia|from_Fdef HF]).
    pstep ltac:(apply get_loc_eval). unfold pret. cbn [last_end]. rewrite (Eloc _ e). lnorm. reflexivity.
Qed.

(* ---- extensions ---- *)
Lemma peek2_eval a b r e : peek2 (PSt (LT a :: LT b :: r) e) = Ok (b, PSt (LT a :: LT b :: r) e).
Proof. reflexivity. Qed.

Lemma is_nil_ne {A} (l : list A) : l <> [] -> is_nil l = false.
Proof. destruct l; [congruence|reflexivity]. Qed.

Lemma nils2 {A B} (a : list A) (b : list B) : ~ (a = [] /\ b = []) -> is_nil a && is_nil b = false.
Proof. destruct a, b; simpl; auto. intros H; exfalso; apply H; auto. Qed.

Ltac ext_prefix We Wk Kn :=
  pstep ltac:(apply peek_eval);
  pstep ltac:(apply expect_keyword_eval; exact We);
  pstep ltac:(apply expect_keyword_eval; exact Wk);
  pstep ltac:(apply parse_name_eval; exact Kn).

Theorem tse_complete ts d rest e :
  D_type_system_extension nl ts d -> length ts < n -> Fdef rest ->
  (blockless d -> fol [KCurlyO] rest) ->
  parse_type_system_extension fl n (PSt (map LT ts ++ rest) e) = Ok (d, PSt rest (lend ts e)).
Proof.
  intros Hd Hn HF Hbl.
  assert (HFd : fol [KParenO; KAt] rest) by (from_Fdef HF).
  unfold parse_type_system_extension.
  destruct Hd as [ex k dts dirs ots_ts ots We Wk Dd Do Hne
                 |ex k nm dts dirs We Wk Kn Dd Hne
                 |ex k nm its ifs dts dirs fts fs We Wk Kn Di Dd Df Hne
                 |ex k nm dts dirs fts fs We Wk Kn Dd Df Hne
                 |ex k nm dts dirs mts tys We Wk Kn Dd Dm Hne
                 |ex k nm dts dirs vts vs We Wk Kn Dd Dv Hne
                 |ex k nm dts dirs fts fs We Wk Kn Dd Df Hne];
    lens Hn; pose proof Wk as [Kk Vk].
  - (* schema *)
    assert (Hstream : map LT (ex :: k :: dts ++ ots_ts) ++ rest = LT ex :: LT k :: map LT dts ++ map LT ots_ts ++ rest).
    { norm_stream. reflexivity. }
    rewrite Hstream. pstep ltac:(apply peek2_eval). rewrite (is_kind_yes _ _ Kk). cbv zeta. rewrite Vk. kwcompute.
    unfold parse_schema_extension.
    pstep ltac:(apply peek_eval). pstep ltac:(apply expect_keyword_eval; exact We).
    pstep ltac:(apply expect_keyword_eval; exact Wk).
    destruct Do as [|ots_ts ots [o body cl ots0 Ko Kc Hl Hne0]].
    + assert (Hc : fol [KCurlyO] rest) by (apply Hbl; exact I).
      pstep ltac:(apply (parse_directives_complete fl n true _ _ Dd); [lia|exact HFd]).
      destruct Hc as (t & r & -> & Hnc). cbn [map app].
      pstep ltac:(apply peek_eval). rewrite (is_kind_no KCurlyO t) by (intros E; apply Hnc; left; auto).
      pstep ltac:(reflexivity).
      rewrite (nils2 dirs (@nil op_type_def) Hne).
      pstep ltac:(apply get_loc_eval). unfold pret. cbn [last_end]. rewrite app_nil_r.
      rewrite (mkloc_lend nl ex (k :: dts) e). lnorm. reflexivity.
    + pstep ltac:(apply (parse_directives_complete fl n true _ _ Dd); [lia|];
                  simpl; apply fol_cons; rewrite Ko; apply not_in_kinds; reflexivity).
      pstep ltac:(apply peek_eval_map). rewrite (is_kind_yes _ _ Ko).
      pstep ltac:(apply (op_types_complete _ _ rest _ (DOts nl o body cl ots0 Ko Kc Hl Hne0)); simpl in *; lia).
      rewrite (nils2 dirs ots0 Hne).
      pstep ltac:(apply get_loc_eval). unfold pret. cbn [last_end].
      rewrite (mkloc_lend nl ex (k :: dts ++ o :: body ++ [cl]) e). lnorm. reflexivity.
  - (* scalar *)
    assert (Hstream : map LT (ex :: k :: nm :: dts) ++ rest = LT ex :: LT k :: LT nm :: map LT dts ++ rest).
    { norm_stream. reflexivity. }
    rewrite Hstream. pstep ltac:(apply peek2_eval). rewrite (is_kind_yes _ _ Kk). cbv zeta. rewrite Vk. kwcompute.
    unfold parse_scalar_type_extension. ext_prefix We Wk Kn.
    pstep ltac:(apply (parse_directives_complete fl n true _ _ Dd); [lia|exact HFd]).
    rewrite (is_nil_ne dirs Hne).
    pstep ltac:(apply get_loc_eval). unfold pret. cbn [last_end].
    rewrite (mkloc_lend nl ex (k :: nm :: dts) e). lnorm. reflexivity.
  - (* object *)
    pose proof (D_directives_starts fl _ _ _ Dd) as Sd. pose proof (D_fields_def_starts _ _ Df) as Sf.
    assert (Hstream : map LT (ex :: k :: nm :: its ++ dts ++ fts) ++ rest
                      = LT ex :: LT k :: LT nm :: map LT its ++ map LT dts ++ map LT fts ++ rest).
    { norm_stream. reflexivity. }
    rewrite Hstream. pstep ltac:(apply peek2_eval). rewrite (is_kind_yes _ _ Kk). cbv zeta. rewrite Vk. kwcompute.
    unfold parse_object_type_extension. ext_prefix We Wk Kn.
    assert (Hbl' : fts = [] -> fol [KCurlyO] rest).
    { intros ->. apply Hbl. inversion Df; subst. exact I. }
    pstep ltac:(apply (parse_implements_interfaces_complete its ifs _ _ Di); [lia| |];
                [intros _; apply (not_word_app _ [KAt]); [exact Sd|simpl; intros [H|[]]; discriminate|];
                 apply (not_word_app _ [KCurlyO]); [exact Sf|simpl; intros [H|[]]; discriminate|];
                 apply Fdef_not_word; exact HF
                |intros _; apply (fol_app _ [KAt]); [exact Sd|kinds2|]; apply (fol_app _ [KCurlyO]); [exact Sf|kinds2|];
                 from_Fdef HF]).
    pstep ltac:(apply (parse_directives_complete fl n true _ _ Dd); [lia|];
                apply (fol_app _ [KCurlyO]); [exact Sf|kinds2|exact HFd]).
    pstep ltac:(apply (parse_fields_definition_complete fts fs rest _ Df); [lia|exact Hbl']).
    assert (En : is_nil ifs && is_nil dirs && is_nil fs = false).
    { destruct ifs, dirs, fs; simpl; auto. exfalso; apply Hne; auto. }
    rewrite En.
    pstep ltac:(apply get_loc_eval). unfold pret. cbn [last_end].
    rewrite (mkloc_lend nl ex (k :: nm :: its ++ dts ++ fts) e). lnorm. reflexivity.
  - (* interface *)
    pose proof (D_fields_def_starts _ _ Df) as Sf.
    assert (Hstream : map LT (ex :: k :: nm :: dts ++ fts) ++ rest
                      = LT ex :: LT k :: LT nm :: map LT dts ++ map LT fts ++ rest).
    { norm_stream. reflexivity. }
    rewrite Hstream. pstep ltac:(apply peek2_eval). rewrite (is_kind_yes _ _ Kk). cbv zeta. rewrite Vk. kwcompute.
    unfold parse_interface_type_extension. ext_prefix We Wk Kn.
    assert (Hbl' : fts = [] -> fol [KCurlyO] rest).
    { intros ->. apply Hbl. inversion Df; subst. exact I. }
    pstep ltac:(apply (parse_directives_complete fl n true _ _ Dd); [lia|];
                apply (fol_app _ [KCurlyO]); [exact Sf|kinds2|exact HFd]).
    pstep ltac:(apply (parse_fields_definition_complete fts fs rest _ Df); [lia|exact Hbl']).
    rewrite (nils2 dirs fs Hne).
    pstep ltac:(apply get_loc_eval). unfold pret. cbn [last_end].
    rewrite (mkloc_lend nl ex (k :: nm :: dts ++ fts) e). lnorm. reflexivity.
  - (* union *)
    pose proof (D_union_members_starts _ _ Dm) as Sm.
    assert (Hstream : map LT (ex :: k :: nm :: dts ++ mts) ++ rest
                      = LT ex :: LT k :: LT nm :: map LT dts ++ map LT mts ++ rest).
    { norm_stream. reflexivity. }
    rewrite Hstream. pstep ltac:(apply peek2_eval). rewrite (is_kind_yes _ _ Kk). cbv zeta. rewrite Vk. kwcompute.
    unfold parse_union_type_extension. ext_prefix We Wk Kn.
    pstep ltac:(apply (parse_directives_complete fl n true _ _ Dd); [lia|];
                apply (fol_app _ [KEquals]); [exact Sm|kinds2|exact HFd]).
    pstep ltac:(apply (parse_union_member_types_complete mts tys rest _ Dm); [lia| |]; intros _; from_Fdef HF).
    rewrite (nils2 dirs tys Hne).
    pstep ltac:(apply get_loc_eval). unfold pret. cbn [last_end].
    rewrite (mkloc_lend nl ex (k :: nm :: dts ++ mts) e). lnorm. reflexivity.
  - (* enum *)
    pose proof (opt_block_starts _ _ _ _ _ Dv) as Sv.
    assert (Hstream : map LT (ex :: k :: nm :: dts ++ vts) ++ rest
                      = LT ex :: LT k :: LT nm :: map LT dts ++ map LT vts ++ rest).
    { norm_stream. reflexivity. }
    rewrite Hstream. pstep ltac:(apply peek2_eval). rewrite (is_kind_yes _ _ Kk). cbv zeta. rewrite Vk. kwcompute.
    unfold parse_enum_type_extension. ext_prefix We Wk Kn.
    assert (Hbl' : vts = [] -> fol [KCurlyO] rest).
    { intros ->. apply Hbl. inversion Dv; subst. exact I. }
    pstep ltac:(apply (parse_directives_complete fl n true _ _ Dd); [lia|];
                apply (fol_app _ [KCurlyO]); [exact Sv|kinds2|exact HFd]).
    pstep ltac:(apply (parse_enum_values_definition_complete vts vs rest _ Dv); [lia|exact Hbl']).
    rewrite (nils2 dirs vs Hne).
    pstep ltac:(apply get_loc_eval). unfold pret. cbn [last_end].
    rewrite (mkloc_lend nl ex (k :: nm :: dts ++ vts) e). lnorm. reflexivity.
  - (* input *)
    pose proof (opt_block_starts _ _ _ _ _ Df) as Sf.
    assert (Hstream : map LT (ex :: k :: nm :: dts ++ fts) ++ rest
                      = LT ex :: LT k :: LT nm :: map LT dts ++ map LT fts ++ rest).
    { norm_stream. reflexivity. }
    rewrite Hstream. pstep ltac:(apply peek2_eval). rewrite (is_kind_yes _ _ Kk). cbv zeta. rewrite Vk. kwcompute.
    unfold parse_input_object_type_extension, parse_input_fields_definition. ext_prefix We Wk Kn.
    assert (Hbl' : fts = [] -> fol [KCurlyO] rest).
    { intros ->. apply Hbl. inversion Df; subst. exact I. }
    pstep ltac:(apply (parse_directives_complete fl n true _ _ Dd); [lia|];
                apply (fol_app _ [KCurlyO]); [exact Sf|kinds2|exact HFd]).
    pstep ltac:(apply (input_values_block_complete KCurlyO KCurlyC fts fs rest _ (or_intror eq_refl) Df); [lia|exact Hbl']).
    rewrite (nils2 dirs fs Hne).
    pstep ltac:(apply get_loc_eval). unfold pret. cbn [last_end].
    rewrite (mkloc_lend nl ex (k :: nm :: dts ++ fts) e). lnorm. reflexivity.
Qed.

(* ---- definitions ---- *)
Definition def_keywords : list String.string :=
  ["query"%string; "mutation"%string; "subscription"%string; "fragment"%string;
   "schema"%string; "scalar"%string; "type"%string; "interface"%string; "union"%string; "enum"%string; "input"%string; "directive"%string; "extend"%string].

Definition def_first (t : ptok) : Prop :=
  tk t = KCurlyO \/ tk t = KString \/ tk t = KBlockString \/
  (tk t = KName /\ In (tval t) (map str_of_string def_keywords)).

Lemma word_in (w : String.string) t : is_word w t -> In w def_keywords -> def_first t.
Proof. intros [K V] Hin. right. right. right. split; [exact K|]. rewrite V. apply in_map. exact Hin. Qed.

Lemma D_description_first dsts desc (k : ptok) tl : D_description nl dsts desc -> def_first k ->
  exists t r, dsts ++ k :: tl = t :: r /\ def_first t.
Proof.
  intros [|t0 K0|t0 K0] Hk; cbn [app]; eexists _, _; (split; [reflexivity|]); auto;
    unfold def_first; rewrite K0; auto.
Qed.

Lemma D_definition_first en ts d : D_definition nl fv en ts d -> exists t r, ts = t :: r /\ def_first t.
Proof.
  intros [ts0 d0 He|ts0 d0 _ Ht|ts0 d0 _ Ht].
  - destruct He as [ts1 d1 [ts2 sels l Dss|k kind nts nm vdts vds dts dirs ssts sels ssl Dk _ _ _ _]|ts1 d1 Df].
    + destruct (D_selection_set_first fl _ _ _ Dss) as (o & r & -> & Ko). exists o, r. split; [reflexivity|left; exact Ko].
    + eexists _, _. split; [reflexivity|].
      destruct Dk as [t W|t W|t W]; eapply word_in; try exact W; simpl; auto 14.
    + destruct Df as [f nm vdts vds o tcn dts dirs ssts sels ssl W _ _ _ _ _ _ _].
      eexists _, _. split; [reflexivity|]. eapply word_in; [exact W|simpl; auto 14].
  - destruct Ht; try (eapply D_description_first; [eassumption|]);
      try (eexists _, _; split; [reflexivity|]);
      match goal with W : is_word _ ?k |- def_first ?k => eapply word_in; [exact W|simpl; auto 14] end.
  - destruct Ht; eexists _, _; (split; [reflexivity|]);
      match goal with W : is_word "extend" ?k |- def_first ?k => eapply word_in; [exact W|simpl; auto 14] end.
Qed.

Lemma def_first_Fdef t r : def_first t \/ tk t = KEOF -> Fdef (LT t :: r).
Proof.
  intros H. exists t, r. split; [reflexivity|].
  destruct H as [[K|[K|[K|[K Hin]]]]|K]; (split; [rewrite K; apply not_in_kinds; reflexivity|]);
    try (intros [K2 _]; rewrite K in K2; discriminate).
  intros [_ V]. rewrite V in Hin. simpl in Hin.
  repeat (destruct Hin as [Hin|Hin]; [discriminate Hin|]). contradiction.
Qed.

Lemma D_tsd_start ts d : D_type_system_definition nl ts d ->
  exists t r, ts = t :: r /\
    (is_string_tok t = true /\ tk t <> KName /\ tk t <> KCurlyO \/
     tk t = KName /\ mem_str (tval t) (map kw executable_keywords) = false
     /\ mem_str (tval t) (map kw schema_keywords) = true).
Proof.
  assert (Hd : forall dsts desc (k : ptok) tl, D_description nl dsts desc ->
            (tk k = KName /\ mem_str (tval k) (map kw executable_keywords) = false
             /\ mem_str (tval k) (map kw schema_keywords) = true) ->
            exists t r, dsts ++ k :: tl = t :: r /\
              (is_string_tok t = true /\ tk t <> KName /\ tk t <> KCurlyO \/
               tk t = KName /\ mem_str (tval t) (map kw executable_keywords) = false
               /\ mem_str (tval t) (map kw schema_keywords) = true)).
  { intros dsts desc k tl [|t0 K0|t0 K0] Hk; cbn [app]; eexists _, _; (split; [reflexivity|]); auto; left;
      unfold is_string_tok, is_kind; rewrite K0; repeat split; try reflexivity; discriminate. }
  intros Ht; destruct Ht; try (eapply Hd; [eassumption|]); try (eexists _, _; split; [reflexivity|right]);
    match goal with W : is_word _ ?k |- _ => destruct W as [K V]; rewrite V; repeat split; (exact K || reflexivity) end.
Qed.

Theorem definition_complete ts d rest e :
  D_definition nl fv (allow_type_system fl) ts d -> length ts < n -> Fdef rest ->
  (blockless d -> fol [KCurlyO] rest) ->
  parse_definition fl n (PSt (map LT ts ++ rest) e) = Ok (d, PSt rest (lend ts e)).
Proof.
  intros Hd Hn HF Hbl. destruct Hd as [ts d He|ts d Hen Ht|ts d Hen Ht].
  - apply (parse_definition_complete fl n _ _ He Hn). exact I.
  - destruct (D_tsd_start _ _ Ht) as (t & r & Ets & Hs). unfold parse_definition.
    rewrite Ets. pstep ltac:(apply peek_eval_map). rewrite <- Ets.
    destruct Hs as [(Hs & Hnn & Hnc)|(K & Hm1 & Hm2)].
    + rewrite (is_kind_no KName t Hnn), (is_kind_no KCurlyO t Hnc), Hen, Hs. cbn [andb].
      apply tsd_complete; assumption.
    + rewrite (is_kind_yes _ _ K), Hm1, Hen, Hm2. apply tsd_complete; assumption.
  - assert (Hx : exists ex r, ts = ex :: r /\ is_word "extend" ex).
    { destruct Ht; eexists _, _; (split; [reflexivity|]); assumption. }
    destruct Hx as (ex & r & Ets & [K V]). unfold parse_definition.
    rewrite Ets. pstep ltac:(apply peek_eval_map). rewrite <- Ets.
    rewrite (is_kind_yes _ _ K), V, Hen. kwcompute.
    replace (mem_str (str_of_string "extend") (map kw executable_keywords)) with false by reflexivity.
    replace (mem_str (str_of_string "extend") (map kw schema_keywords)) with false by reflexivity.
    apply tse_complete; assumption.
Qed.

Lemma definitions_loop_complete : forall body defs,
  D_definitions_la nl fv (allow_type_system fl) body defs -> defs <> [] ->
  forall m eof rest e, length body < m -> length body < n -> tk eof = KEOF ->
    definitions_loop fl n m (PSt (map LT body ++ LT eof :: rest) e) = Ok (defs, PSt rest (tend eof)).
Proof.
  intros body defs Hl. induction Hl as [|ts d ts' ds Hd Hla Hds IH]; intros Hne m eof rest e Hm Hn Ke; [congruence|].
  rewrite app_length in Hm, Hn. destruct (D_definition_first _ _ _ Hd) as (t0 & r0 & E0 & _).
  destruct m as [|m]; [lia|]. cbn [definitions_loop]. rewrite map_app, <- app_assoc.
  assert (Hnext : exists t r, map LT ts' ++ LT eof :: rest = LT t :: r /\ (def_first t \/ tk t = KEOF)
                              /\ (tk t = KCurlyO -> starts_with_curly ts')).
  { destruct Hds as [|ts2 d2 ts3 ds2 Hd2 _ _].
    - simpl. exists eof. eexists. split; [reflexivity|]. split; [right; exact Ke|]. intros E. rewrite Ke in E. discriminate.
    - destruct (D_definition_first _ _ _ Hd2) as (t2 & r2 & -> & F2). simpl. exists t2. eexists.
      split; [reflexivity|]. split; [left; exact F2|]. intros E. exists t2, (r2 ++ ts3). auto. }
  destruct Hnext as (t & r & Er & Hf & Hc).
  assert (Hblf : blockless d -> fol [KCurlyO] (map LT ts' ++ LT eof :: rest)).
  { intros Hb. rewrite Er. apply fol_cons. intros [E|[]]. apply (Hla Hb). apply Hc. auto. }
  pstep ltac:(apply (definition_complete _ _ _ _ Hd); [lia|rewrite Er; apply def_first_Fdef; exact Hf|exact Hblf]).
  destruct Hds as [|ts2 d2 ts3 ds2 Hd2 Hla2 Hds2].
  - simpl. pstep ltac:(apply skip_eval_yes; exact Ke). reflexivity.
  - destruct (D_definition_first _ _ _ Hd2) as (t2 & r2 & E2 & F2).
    assert (Hskip : skip KEOF (PSt (map LT (ts2 ++ ts3) ++ LT eof :: rest) (lend ts e))
                    = Ok (false, PSt (map LT (ts2 ++ ts3) ++ LT eof :: rest) (lend ts e))).
    { rewrite E2. simpl. apply skip_eval_no.
      destruct F2 as [K|[K|[K|[K _]]]]; rewrite K; discriminate. }
    pstep ltac:(exact Hskip).
    pstep ltac:(apply IH; [discriminate|subst ts; simpl in *; lia|lia|exact Ke]).
    reflexivity.
Qed.

Theorem parse_document_p_complete_full ts d rest e :
  D_document_la nl fv (allow_type_system fl) ts d -> length ts < n ->
  parse_document_p fl n (PSt (map LT ts ++ rest) e) = Ok (d, PSt rest (lend ts e)).
Proof.
  intros [sof body eof defs Ks Ke Hl Hne] Hn. unfold parse_document_p.
  assert (Hb : length body < n) by (simpl in Hn; rewrite app_length in Hn; simpl in Hn; lia).
  pstep ltac:(apply peek_eval_map).
  pstep ltac:(cbn [map app]; apply expect_eval; exact Ks).
  rewrite map_app, <- app_assoc. cbn [map app].
  pstep ltac:(apply (definitions_loop_complete body defs Hl Hne n eof rest (tend sof) Hb Hb Ke)).
  pstep ltac:(apply get_loc_eval). unfold pret. cbn [last_end].
  rewrite (mkloc_lend nl sof (body ++ [eof]) e). lnorm. reflexivity.
Qed.

End SdlComplete.
