(* C14 -- proofs about the store model, part 21: a schema the constructor
   built lists its types, when rebuilt from them, in the same order.  This is
   the registry-order premise of C14_clone_observe_equal, for every schema
   that came out of Schema(...). *)
From PyGql Require Import Spec.StoreExtSpec Proofs.StoreProofs Proofs.StoreHeal Proofs.StoreLoop
     Proofs.StoreFrame Proofs.StoreClone Proofs.StoreOps Proofs.StoreTerm Proofs.StoreExtendP Proofs.StoreExtPres
     Proofs.StoreVis Proofs.StoreVisM Proofs.StoreCloneP Proofs.StoreBuildO Proofs.StoreObserve Proofs.StoreSim Proofs.StoreCloneO.
Local Open Scope N_scope.

Lemma NoDup_snoc {A} (l : list A) x : NoDup l -> ~ In x l -> NoDup (l ++ [x]).
Proof.
  induction l as [|y l IH]; simpl; intros Hnd Hx; [constructor; [intros []|constructor]|].
  inversion Hnd; subst. constructor.
  - intros Hin. apply in_app_or in Hin. destruct Hin as [Hin|[->|[]]]; [contradiction|apply Hx; left; reflexivity].
  - apply IH; [assumption|]. intros Hin. apply Hx. right; exact Hin.
Qed.

Lemma build_dirs_wf m : forall ds acc dm,
  (forall n d, In (n, d) acc -> dname m d = Some n) -> NoDup (map fst acc) ->
  build_dirs m ds acc = Ok dm ->
  (forall n d, In (n, d) dm -> dname m d = Some n) /\ NoDup (map fst dm).
Proof.
  induction ds as [|d ds IH]; intros acc dm Hn Hnd H; simpl in H; [inversion H; subst; auto|].
  destruct (dname m d) as [n|] eqn:Hdn; [|discriminate].
  destruct (alookup n acc) as [d'|] eqn:Hl.
  - destruct (N.eqb d d'); [exact (IH _ _ Hn Hnd H)|discriminate].
  - eapply IH; [| |exact H].
    + intros n1 d1 Hin. apply in_app_or in Hin. destruct Hin as [Hin|[He|[]]]; [auto|inversion He; subst; exact Hdn].
    + rewrite map_app. simpl. apply NoDup_snoc; [exact Hnd|]. intros Hin. exact (alookup_none_key _ _ Hl Hin).
Qed.

Theorem build_order_stable f1 f2 m q mu su ds ts s s0 :
  builtins_ok m ->
  build f1 m q mu su ds ts = Ok s ->
  build f2 m (s_query s) (s_mut s) (s_sub s) (map snd (s_dirs s)) (map snd (s_types s)) = Ok s0 ->
  s_types s0 = s_types s.
Proof.
  intros Hb H1 H2. unfold build in H1.
  destruct (build_dirs m ds []) as [dm| | |] eqn:Hd; simpl in H1; try discriminate.
  match type of H1 with obind (build_map ?f ?mm ?st ?t0) _ = _ =>
    destruct (build_map f mm st t0) as [tm| | |] eqn:Hm; simpl in H1; try discriminate end.
  inversion H1; subst s; clear H1. simpl in H2. unfold build in H2.
  assert (Hnil : forall (n : str) (d : oid), In (n, d) (@nil (str * oid)) -> dname m d = Some n) by (intros n d []).
  destruct (build_dirs_wf m _ _ _ Hnil (NoDup_nil _) Hd) as (Hdn & Hdnd).
  rewrite (build_dirs_exact m dm [] Hdn Hdnd) in H2. simpl in H2.
  match type of H2 with obind (build_map ?f ?mm ?st ?t0) _ = _ =>
    destruct (build_map f mm st t0) as [tm2| | |] eqn:Hm2; simpl in H2; try discriminate end.
  inversion H2; subst s0; clear H2. simpl.
  (* facts about the first registry *)
  set (tail0 := (otolist q ++ otolist mu ++ otolist su ++ flat_map (member_type m) (flat_map (dir_args m) (map snd dm)))%list) in *.
  pose proof (build_map_nodup _ _ _ _ _ builtin_nodup Hm) as Hnd.
  assert (Hinv : forall n o, In (n, o) builtin_types -> forall c, In c (children m o) -> reg m builtin_types c \/ In c (ts ++ tail0)).
  { intros n o Hin c Hc. rewrite (builtin_children m Hb n o Hin) in Hc. destruct Hc. }
  destruct (build_map_closed m _ _ _ _ (builtin_names_ok m Hb) Hinv Hm) as (Hnames & _).
  assert (Hnm : forall n o, In (n, o) tm -> tname m o = Some n) by (intros n o Hin; exact (proj1 (Hnames n o Hin))).
  destruct (bm_ext _ _ _ _ _ Hm) as (R' & HR).
  set (tail := tail0).
  (* replay *)
  assert (S1 : build_map (S (length (map snd builtin_types))) m (map snd builtin_types) builtin_types = Ok builtin_types).
  { apply bm_skip. intros o Ho. apply in_map_iff in Ho. destruct Ho as ([n o'] & <- & Hin). simpl.
    destruct (builtin_names_ok m Hb n o' Hin) as (A & B). exists n. auto. }
  destruct (bm_replay m _ _ _ _ Hm Hnd Hnm (length R') R' [] (le_n _)) as (F1 & S2); [rewrite HR; reflexivity|].
  rewrite app_nil_r in S2.
  assert (S3 : build_map (S (length tail)) m tail tm = Ok tm).
  { apply bm_skip. intros o Ho.
    apply (bm_stack_reg m _ _ _ _ Hm).
    - intros n o' Hin. exact (proj2 (builtin_names_ok m Hb n o' Hin)).
    - intros n o' Hin. apply nodup_lookup; assumption.
    - apply in_or_app. right. exact Ho. }
  pose proof (bm_join m _ _ _ _ _ _ _ S2 S3) as J1.
  pose proof (bm_join m _ _ _ _ _ _ _ S1 J1) as J2.
  rewrite app_assoc in J2. rewrite <- map_app, <- HR in J2. unfold tail in J2.
  match type of Hm2 with build_map ?f _ _ _ = _ =>
    pose proof (bm_fuel m _ _ _ _ f J2) as K1;
    pose proof (bm_fuel m _ _ _ _ (S (length (map snd builtin_types)) + (F1 + S (length tail0))) Hm2) as K2 end.
  rewrite Nat.add_comm in K2. rewrite K1 in K2. inversion K2; reflexivity.
Qed.

(* for a schema the constructor built, [clone_ok] needs no assumption on the
   registry order *)
Theorem clone_ok_built fuel f1 m q mu su ds ts s :
  builtins_ok m -> build f1 m q mu su ds ts = Ok s ->
  forall s0, build fuel m (s_query s) (s_mut s) (s_sub s) (map snd (s_dirs s)) (map snd (s_types s)) = Ok s0 ->
    map fst (s_types s0) = map fst (s_types s).
Proof. intros Hb H1 s0 H2. rewrite (build_order_stable _ _ _ _ _ _ _ _ _ _ Hb H1 H2). reflexivity. Qed.
