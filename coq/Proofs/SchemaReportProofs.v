(* C13: every violated rule instance is reported unless a reported error of
   the same member may mask it. *)
From PyGql Require Import Schema.SchemaFull Schema.SchemaValidateModel Spec.SchemaReportSpec
  Proofs.SchemaFullLemmas.

(* ------------------------------------------------------------ covers *)
Lemma covers_refl r : covers r r.
Proof. intros e He. left; exact He. Qed.

Lemma covers_nil r : covers r [].
Proof. intros e []. Qed.

Lemma covers_incl r r' a : (forall e, In e r -> In e r') -> covers r a -> covers r' a.
Proof.
  intros Hi Hc e He. destruct (Hc e He) as [H|(m & Hm & Hk)]; [left; auto|right; exists m; auto].
Qed.

Lemma covers_app r1 r2 a1 a2 : covers r1 a1 -> covers r2 a2 -> covers (r1 ++ r2) (a1 ++ a2).
Proof.
  intros H1 H2 e He. apply in_app_iff in He. destruct He as [He|He].
  - destruct (H1 e He) as [H|(m & Hm & Hk)]; [left|right; exists m; split; [|exact Hk]];
      apply in_or_app; left; assumption.
  - destruct (H2 e He) as [H|(m & Hm & Hk)]; [left|right; exists m; split; [|exact Hk]];
      apply in_or_app; right; assumption.
Qed.

Lemma covers_masked m r a : In m r -> (forall e, In e a -> masks m e) -> covers r a.
Proof. intros Hm H e He. right. exists m. split; [exact Hm|exact (H e He)]. Qed.

Lemma covers_flat_map {A} (f g : A -> list verr) l :
  (forall x, In x l -> covers (f x) (g x)) -> covers (flat_map f l) (flat_map g l).
Proof.
  induction l as [|x l IH]; intros H; simpl; [apply covers_nil|].
  apply covers_app; [apply H; left; reflexivity|apply IH; intros y Hy; apply H; right; exact Hy].
Qed.

(* ------------------------------------------------------------ subjects *)
Definition under (p : list str) (e : verr) : Prop :=
  (exists rest, v_subject e = p ++ rest) \/ v_label e = LInvalidName.

Lemma under_err l p q : under p (err l (p ++ q)).
Proof. left. exists q. reflexivity. Qed.

Lemma under_weaken p q e : under (p ++ q) e -> under p e.
Proof. intros [(r & H)|H]; [left; exists (q ++ r); rewrite H, app_assoc; reflexivity|right; exact H]. Qed.

Lemma under_name p n : Forall (under p) (check_valid_name n).
Proof.
  unfold check_valid_name. destruct (valid_name n); constructor; [|constructor]. right; reflexivity.
Qed.

Lemma Forall_loop_all {A} (P : verr -> Prop) (name : A -> str) pre dup body :
  (forall x, Forall P (pre x)) -> (forall x, Forall P (dup x)) -> (forall x, Forall P (body x)) ->
  forall l seen, Forall P (loop_all name pre dup body seen l).
Proof.
  intros H1 H2 H3. induction l as [|x l IH]; intros seen; simpl; [constructor|].
  apply Forall_app. split; [apply H1|]. apply Forall_app. split.
  - destruct (mem_str (name x) seen); [apply H2|constructor].
  - apply Forall_app. split; [apply H3|apply IH].
Qed.

Lemma Forall_flat_map {A} (P : verr -> Prop) (f : A -> list verr) l :
  (forall x, Forall P (f x)) -> Forall P (flat_map f l).
Proof.
  intros H. induction l as [|x l IH]; simpl; [constructor|]. apply Forall_app. split; [apply H|exact IH].
Qed.

Lemma one_under l p q : Forall (under p) [err l (p ++ q)].
Proof. constructor; [apply under_err|constructor]. Qed.

Lemma if_under (b : bool) l p q : Forall (under p) (if b then [] else [err l (p ++ q)]).
Proof. destruct b; [constructor|apply one_under]. Qed.

Lemma under_args ts path args : Forall (under path) (validate_args_all ts path args).
Proof.
  unfold validate_args_all. apply Forall_loop_all; intros a.
  - apply under_name.
  - apply one_under.
  - apply if_under.
Qed.

Lemma under_resolver path sg args : Forall (under path) (resolver_errors path sg args).
Proof.
  unfold resolver_errors. apply Forall_app. split; [|apply Forall_app; split].
  - apply Forall_flat_map. intros a.
    destruct (find_param sg (a_pyname a)) as [p|];
      repeat match goal with |- Forall _ (if ?c then _ else _) => destruct c end;
      try constructor; try apply under_err; constructor.
  - match goal with |- Forall _ (if ?c then _ else _) => destruct c end; [|constructor].
    constructor; [left; exists []; rewrite app_nil_r; reflexivity|constructor].
  - apply Forall_flat_map. intros p.
    match goal with |- Forall _ (if ?c then _ else _) => destruct c end; [constructor|apply one_under].
Qed.

Lemma under_field_body s tn tdr f :
  Forall (under [tn; f_name f])
    ((if is_output_ty (s_types s) (f_type f) then [] else [err LFieldNotOutput [tn; f_name f]])
     ++ validate_args_all (s_types s) [tn; f_name f] (f_args f)
     ++ match or_else (f_resolver f) (or_else tdr (s_default_resolver s)) with
        | Some sg => resolver_errors [tn; f_name f] sg (f_args f)
        | None => []
        end).
Proof.
  apply Forall_app. split.
  - destruct (is_output_ty _ _); [constructor|].
    constructor; [left; exists []; rewrite app_nil_r; reflexivity|constructor].
  - apply Forall_app. split; [apply under_args|].
    destruct (or_else _ _); [apply under_resolver|constructor].
Qed.

Lemma under2 a b e : under [a; b] e -> under [a] e.
Proof. apply (under_weaken [a] [b]). Qed.
Lemma under3 a b c e : under [a; b; c] e -> under [a] e.
Proof. apply (under_weaken [a] [b; c]). Qed.

Lemma Forall_under_weaken p q l : Forall (under (p ++ q)) l -> Forall (under p) l.
Proof. intros H. eapply Forall_impl; [|exact H]. intros e. apply under_weaken. Qed.

Lemma under_fields_all s tn tdr fields : Forall (under [tn]) (validate_fields_all s tn tdr fields).
Proof.
  unfold validate_fields_all. apply Forall_app. split.
  - destruct fields; [|constructor]. constructor; [left; exists []; reflexivity|constructor].
  - apply Forall_loop_all; intros f.
    + apply under_name.
    + apply (one_under _ [tn] [f_name f]).
    + apply (Forall_under_weaken [tn] [f_name f]). apply under_field_body.
Qed.

Lemma under_implementation ts tn ofs i ifs :
  Forall (under [tn; i]) (validate_implementation_all ts tn ofs i ifs).
Proof.
  unfold validate_implementation_all. apply Forall_flat_map. intros f.
  destruct (find_last _ ofs) as [g|]; [|apply (one_under _ [tn; i] [f_name f])].
  apply Forall_app. split.
  - destruct (negb _); [apply (one_under _ [tn; i] [f_name f])|constructor].
  - apply Forall_app. split; apply Forall_flat_map; intros a.
    + destruct (find_last _ (f_args g)) as [b|]; [|apply (one_under _ [tn; i] [f_name f; a_name a])].
      destruct (ty_eqb _ _); [constructor|apply (one_under _ [tn; i] [f_name f; a_name a])].
    + destruct (find_last _ (f_args f)); [constructor|].
      destruct (is_non_null _); [apply (one_under _ [tn; i] [f_name f; a_name a])|constructor].
Qed.

Lemma under_ifaces_all ts tn ofs : forall l seen, Forall (under [tn]) (ifaces_all ts tn ofs seen l).
Proof.
  induction l as [|i l IH]; intros seen; simpl; [constructor|].
  destruct (find_type ts i) as [it|]; [|constructor; [apply (under_err _ [tn] [i])|apply IH]].
  destruct (t_body it); try (constructor; [apply (under_err _ [tn] [i])|apply IH]).
  apply Forall_app. split; [destruct (mem_str i seen); [apply (one_under _ [tn] [i])|constructor]|].
  apply Forall_app. split; [|apply IH].
  apply (Forall_under_weaken [tn] [i]). apply under_implementation.
Qed.

Lemma under_union_all ts tn : forall l seen, Forall (under [tn]) (union_all ts tn seen l).
Proof.
  induction l as [|m l IH]; intros seen; simpl; [constructor|].
  apply Forall_app. split; [destruct (negb _); [apply (one_under _ [tn] [m])|constructor]|].
  apply Forall_app. split; [destruct (mem_str m seen); [apply (one_under _ [tn] [m])|constructor]|apply IH].
Qed.

Lemma under_type_body s t :
  Forall (under [t_name t])
    match t_body t with
    | BObject ifaces fields dr =>
        validate_fields_all s (t_name t) dr fields ++ ifaces_all (s_types s) (t_name t) fields [] ifaces
    | BInterface fields => validate_fields_all s (t_name t) None fields
    | BUnion ms =>
        (match ms with [] => [err LUnionEmpty [t_name t]] | _ => [] end) ++ union_all (s_types s) (t_name t) [] ms
    | BEnum vs => validate_enum_values (t_name t) vs
    | BInput fs => validate_input_fields_all (s_types s) (t_name t) fs
    | BScalar => []
    end.
Proof.
  destruct (t_body t) as [|ifaces fields dr|fields|ms|vs|fs].
  - constructor.
  - apply Forall_app. split; [apply under_fields_all|apply under_ifaces_all].
  - apply under_fields_all.
  - apply Forall_app. split; [|apply under_union_all].
    destruct ms; [|constructor]. constructor; [left; exists []; reflexivity|constructor].
  - unfold validate_enum_values. apply Forall_app. split.
    + destruct vs; [|constructor]. constructor; [left; exists []; reflexivity|constructor].
    + apply Forall_flat_map. intros v. apply under_name.
  - unfold validate_input_fields_all. apply Forall_app. split.
    + destruct fs; [|constructor]. constructor; [left; exists []; reflexivity|constructor].
    + apply Forall_loop_all; intros f; [apply under_name|apply (one_under _ [t_name t] [i_name f])|].
      apply (if_under _ _ [t_name t] [i_name f]).
Qed.

(* ------------------------------------------------------------ the loops *)
Lemma covers_loop {A} (name : A -> str) pre dup body body_all :
  (forall x, covers (body x) (body_all x)) ->
  (forall x, exists d, dup x = [d] /\ forall e, In e (body_all x) -> masks d e) ->
  forall l seen,
    covers (loop_seen name pre dup body seen l) (loop_all name pre dup body_all seen l).
Proof.
  intros Hb Hd. induction l as [|x l IH]; intros seen; simpl; [apply covers_nil|].
  apply covers_app; [apply covers_refl|].
  destruct (mem_str (name x) seen).
  - destruct (Hd x) as (d & Ed & Hm). rewrite Ed. simpl.
    intros e [<-|He]; [left; left; reflexivity|].
    apply in_app_iff in He. destruct He as [He|He].
    + right. exists d. split; [left; reflexivity|exact (Hm e He)].
    + destruct (IH seen e He) as [H|(m & Hin & Hk)]; [left; right; exact H|right; exists m; split; [right; exact Hin|exact Hk]].
  - simpl. apply covers_app; [apply Hb|apply IH].
Qed.

Ltac mask_lbl := split; [simpl; constructor|].

Lemma masks_under m e :
  masked_by (v_label m) (v_label e) -> under (v_subject m) e -> masks m e.
Proof. intros H1 H2. split; assumption. Qed.

Lemma covers_args ts path args :
  covers (validate_args ts path args) (validate_args_all ts path args).
Proof.
  unfold validate_args, validate_args_all. apply covers_loop.
  - intros a. apply covers_refl.
  - intros a. eexists. split; [reflexivity|]. intros e He.
    destruct (is_input_ty ts (a_type a)); [destruct He|]. destruct He as [<-|[]].
    apply masks_under; [constructor|]. left. exists []. simpl. rewrite app_nil_r. reflexivity.
Qed.

Lemma covers_dir_args ts dn args :
  covers (loop_seen a_name (fun a => check_valid_name (a_name a))
            (fun a => [err LDirDuplicateArg [dn; a_name a]])
            (fun a => if is_input_ty ts (a_type a) then [] else [err LDirArgNotInput [dn; a_name a]]) [] args)
         (loop_all a_name (fun a => check_valid_name (a_name a))
            (fun a => [err LDirDuplicateArg [dn; a_name a]])
            (fun a => if is_input_ty ts (a_type a) then [] else [err LDirArgNotInput [dn; a_name a]]) [] args).
Proof.
  apply covers_loop.
  - intros a. apply covers_refl.
  - intros a. eexists. split; [reflexivity|]. intros e He.
    destruct (is_input_ty ts (a_type a)); [destruct He|]. destruct He as [<-|[]].
    apply masks_under; [constructor|]. left. exists []. reflexivity.
Qed.

(* what a duplicate field hides: everything of the field's own checks *)
Lemma dup_field_masks s tn tdr f e :
  In e ((if is_output_ty (s_types s) (f_type f) then [] else [err LFieldNotOutput [tn; f_name f]])
        ++ validate_args_all (s_types s) [tn; f_name f] (f_args f)
        ++ match or_else (f_resolver f) (or_else tdr (s_default_resolver s)) with
           | Some sg => resolver_errors [tn; f_name f] sg (f_args f)
           | None => []
           end) ->
  masks (err LDuplicateField [tn; f_name f]) e.
Proof.
  intros He. apply masks_under.
  - simpl. apply in_app_iff in He. destruct He as [He|He].
    { destruct (is_output_ty _ _); [destruct He|]. destruct He as [<-|[]]. constructor. }
    apply in_app_iff in He. destruct He as [He|He].
    + (* labels of the argument loop *)
      assert (Hl : Forall (fun e => v_label e = LInvalidName \/ v_label e = LDuplicateArg \/ v_label e = LArgNotInput)
                          (validate_args_all (s_types s) [tn; f_name f] (f_args f))).
      { unfold validate_args_all. apply Forall_loop_all; intros a.
        - unfold check_valid_name. destruct (valid_name _); constructor; [left; reflexivity|constructor].
        - constructor; [right; left; reflexivity|constructor].
        - destruct (is_input_ty _ _); constructor; [right; right; reflexivity|constructor]. }
      rewrite Forall_forall in Hl. destruct (Hl e He) as [->|[->| ->]]; constructor.
    + destruct (or_else _ _) as [sg|]; [|destruct He].
      assert (Hl : Forall (fun e => v_label e = LResMissing \/ v_label e = LResPosOnly \/ v_label e = LResNeedsDefault
                                    \/ v_label e = LResPositional \/ v_label e = LResExtraRequired)
                          (resolver_errors [tn; f_name f] sg (f_args f))).
      { unfold resolver_errors. apply Forall_app. split; [|apply Forall_app; split].
        - apply Forall_flat_map. intros a.
          destruct (find_param sg (a_pyname a)) as [p|];
            repeat match goal with |- Forall _ (if ?c then _ else _) => destruct c end;
            try constructor; simpl; auto; constructor.
        - match goal with |- Forall _ (if ?c then _ else _) => destruct c end; [|constructor].
          constructor; [simpl; auto|constructor].
        - apply Forall_flat_map. intros p.
          match goal with |- Forall _ (if ?c then _ else _) => destruct c end; [constructor|].
          constructor; [simpl; auto 6|constructor]. }
      rewrite Forall_forall in Hl. destruct (Hl e He) as [->|[->|[->|[->| ->]]]]; constructor.
  - pose proof (under_field_body s tn tdr f) as Hu. rewrite Forall_forall in Hu. exact (Hu e He).
Qed.

Lemma covers_fields s tn tdr fields :
  covers (validate_fields s tn tdr fields) (validate_fields_all s tn tdr fields).
Proof.
  unfold validate_fields, validate_fields_all. apply covers_app; [apply covers_refl|].
  apply covers_loop.
  - intros f. apply covers_app; [apply covers_refl|]. apply covers_app; [apply covers_args|apply covers_refl].
  - intros f. eexists. split; [reflexivity|]. intros e He. exact (dup_field_masks s tn tdr f e He).
Qed.

Lemma covers_input_fields ts tn fs :
  covers (validate_input_fields ts tn fs) (validate_input_fields_all ts tn fs).
Proof.
  unfold validate_input_fields, validate_input_fields_all. apply covers_app; [apply covers_refl|].
  apply covers_loop.
  - intros f. apply covers_refl.
  - intros f. eexists. split; [reflexivity|]. intros e He.
    destruct (is_input_ty ts (i_type f)); [destruct He|]. destruct He as [<-|[]].
    apply masks_under; [constructor|]. left. exists []. reflexivity.
Qed.

Lemma covers_directives ts ds : covers (validate_directives ts ds) (validate_directives_all ts ds).
Proof.
  unfold validate_directives, validate_directives_all. apply covers_flat_map. intros d _.
  apply covers_app; [apply covers_refl|apply covers_dir_args].
Qed.

Lemma covers_implementation ts tn ofs i ifs :
  covers (validate_implementation ts tn ofs i ifs) (validate_implementation_all ts tn ofs i ifs).
Proof.
  unfold validate_implementation, validate_implementation_all. apply covers_flat_map. intros f _.
  destruct (find_last _ ofs) as [g|]; [|apply covers_refl].
  destruct (negb (is_subtype_model ts (f_type g) (f_type f))); [|apply covers_refl].
  intros e [<-|He]; [left; left; reflexivity|]. right. eexists. split; [left; reflexivity|].
  change (In e (flat_map (fun a : arg_def =>
             match find_last (fun b : arg_def => str_eqb (a_name a) (a_name b)) (f_args g) with
             | Some b => if ty_eqb (a_type a) (a_type b) then []
                         else [err LIfaceArgType [tn; i; f_name f; a_name a]]
             | None => [err LIfaceArgMissing [tn; i; f_name f; a_name a]]
             end) (f_args f) ++
           flat_map (fun b : arg_def =>
             match find_last (fun a : arg_def => str_eqb (a_name b) (a_name a)) (f_args f) with
             | Some _ => []
             | None => if is_non_null (a_type b)
                       then [err LIfaceExtraRequiredArg [tn; i; f_name f; a_name b]] else []
             end) (f_args g))) in He.
  apply in_app_iff in He. destruct He as [He|He]; apply in_flat_map in He; destruct He as (a & _ & He).
  - destruct (find_last _ (f_args g)) as [b|].
    + destruct (ty_eqb _ _); [destruct He|]. destruct He as [<-|[]].
      apply masks_under; [constructor|]. left. exists [a_name a]. reflexivity.
    + destruct He as [<-|[]]. apply masks_under; [constructor|]. left. exists [a_name a]. reflexivity.
  - destruct (find_last _ (f_args f)); [destruct He|].
    destruct (is_non_null _); [|destruct He]. destruct He as [<-|[]].
    apply masks_under; [constructor|]. left. exists [a_name a]. reflexivity.
Qed.

Lemma twice_masks ts tn ofs i ifs e :
  In e (validate_implementation_all ts tn ofs i ifs) -> masks (err LInterfaceTwice [tn; i]) e.
Proof.
  intros He. apply masks_under.
  - unfold validate_implementation_all in He. apply in_flat_map in He. destruct He as (f & _ & He).
    destruct (find_last _ ofs) as [g|]; [|destruct He as [<-|[]]; constructor].
    apply in_app_iff in He. destruct He as [He|He].
    { destruct (negb _); [|destruct He]. destruct He as [<-|[]]. constructor. }
    apply in_app_iff in He. destruct He as [He|He]; apply in_flat_map in He; destruct He as (a & _ & He).
    + destruct (find_last _ (f_args g)); [|destruct He as [<-|[]]; constructor].
      destruct (ty_eqb _ _); [destruct He|]. destruct He as [<-|[]]. constructor.
    + destruct (find_last _ (f_args f)); [destruct He|].
      destruct (is_non_null _); [|destruct He]. destruct He as [<-|[]]. constructor.
  - pose proof (under_implementation ts tn ofs i ifs) as Hu. rewrite Forall_forall in Hu. exact (Hu e He).
Qed.

Lemma covers_ifaces ts tn ofs : forall l seen,
  covers (ifaces_go ts tn ofs seen l) (ifaces_all ts tn ofs seen l).
Proof.
  induction l as [|i l IH]; intros seen; simpl; [apply covers_nil|].
  destruct (find_type ts i) as [it|].
  - destruct (t_body it) as [| |ifields| | |];
      try (apply (covers_app [_] _ [_] _); [apply covers_refl|apply IH]).
    destruct (mem_str i seen).
    + intros e He. simpl in He. destruct He as [<-|He]; [left; left; reflexivity|].
      apply in_app_iff in He. destruct He as [He|He].
      * right. eexists. split; [left; reflexivity|exact (twice_masks ts tn ofs i ifields e He)].
      * destruct (IH seen e He) as [H|(m & Hm & Hk)]; [left; right; exact H|right; exists m; split; [right; exact Hm|exact Hk]].
    + simpl. apply covers_app; [apply covers_implementation|apply IH].
  - apply (covers_app [_] _ [_] _); [apply covers_refl|apply IH].
Qed.

Lemma covers_union ts tn : forall l seen_go seen_all,
  (forall m, is_object_name ts m = true -> mem_str m seen_go = mem_str m seen_all) ->
  covers (union_go ts tn seen_go l) (union_all ts tn seen_all l).
Proof.
  induction l as [|m l IH]; intros sg sa Hinv; simpl; [apply covers_nil|].
  destruct (is_object_name ts m) eqn:Eo; simpl.
  - rewrite (Hinv m Eo). apply covers_app; [apply covers_refl|]. apply IH.
    intros x Hx. simpl. rewrite (Hinv x Hx). reflexivity.
  - assert (Hinv' : forall x, is_object_name ts x = true -> mem_str x sg = mem_str x (m :: sa)).
    { intros x Hx. simpl. destruct (str_eqb_spec x m) as [->|_]; [congruence|]. simpl. apply Hinv; exact Hx. }
    intros e [<-|He]; [left; left; reflexivity|].
    apply in_app_iff in He. destruct He as [He|He].
    + destruct (mem_str m sa); [|destruct He]. destruct He as [<-|[]].
      right. eexists. split; [left; reflexivity|].
      apply masks_under; [constructor|]. left. exists []. reflexivity.
    + destruct (IH sg (m :: sa) Hinv' e He) as [H|(x & Hx & Hk)];
        [left; right; exact H|right; exists x; split; [right; exact Hx|exact Hk]].
Qed.

Lemma covers_type s t : covers (validate_type s t) (validate_type_all s t).
Proof.
  unfold validate_type, validate_type_all.
  destruct (negb (t_intro t || t_spec t || valid_name (t_name t))).
  - (* invalid type name: everything else about the type is hidden by it *)
    intros e [<-|He]; [left; left; reflexivity|]. right. eexists. split; [left; reflexivity|].
    apply masks_under; [constructor|].
    pose proof (under_type_body s t) as Hu. rewrite Forall_forall in Hu. exact (Hu e He).
  - simpl. destruct (t_body t) as [|ifaces fields dr|fields|ms|vs|fs].
    + apply covers_nil.
    + apply covers_app; [apply covers_fields|apply covers_ifaces].
    + apply covers_fields.
    + unfold validate_union_members. apply covers_app; [apply covers_refl|].
      apply covers_union. intros m _. reflexivity.
    + apply covers_refl.
    + apply covers_input_fields.
Qed.

(* every violated rule instance is reported, or a reported error of the same
   member that the code lets take precedence stands for it *)
Theorem all_reported s : covers (validate_model s) (validate_all s).
Proof.
  unfold validate_model, validate_all. apply covers_app; [apply covers_refl|].
  apply covers_app; [|apply covers_directives].
  apply covers_flat_map. intros t _. apply covers_type.
Qed.

(* and nothing is reported that is not a violated rule instance *)
Lemma loop_seen_incl {A} (name : A -> str) pre dup body body_all :
  (forall x e, In e (body x) -> In e (body_all x)) ->
  forall l seen e, In e (loop_seen name pre dup body seen l) -> In e (loop_all name pre dup body_all seen l).
Proof.
  intros Hb. induction l as [|x l IH]; intros seen e He; simpl in *; [exact He|].
  apply in_app_iff in He. apply in_or_app. destruct He as [He|He]; [left; exact He|right].
  destruct (mem_str (name x) seen).
  - apply in_app_iff in He. apply in_or_app. destruct He as [He|He]; [left; exact He|right].
    apply in_or_app. right. apply IH; exact He.
  - simpl. apply in_app_iff in He. apply in_or_app. destruct He as [He|He]; [left; apply Hb; exact He|right].
    apply IH; exact He.
Qed.

Definition sub (a b : list verr) : Prop := forall e, In e a -> In e b.
Lemma sub_refl a : sub a a. Proof. intros e H; exact H. Qed.
Lemma sub_app a1 a2 b1 b2 : sub a1 b1 -> sub a2 b2 -> sub (a1 ++ a2) (b1 ++ b2).
Proof.
  intros H1 H2 e He. apply in_app_iff in He. apply in_or_app. destruct He; [left; apply H1|right; apply H2]; assumption.
Qed.
Lemma sub_flat_map {A} (f g : A -> list verr) l : (forall x, sub (f x) (g x)) -> sub (flat_map f l) (flat_map g l).
Proof.
  intros H. induction l as [|x l IH]; simpl; [apply sub_refl|]. apply sub_app; [apply H|exact IH].
Qed.

Lemma sub_implementation ts tn ofs i ifs :
  sub (validate_implementation ts tn ofs i ifs) (validate_implementation_all ts tn ofs i ifs).
Proof.
  unfold validate_implementation, validate_implementation_all. apply sub_flat_map. intros f.
  destruct (find_last _ ofs) as [g|]; [|apply sub_refl].
  destruct (negb _); [|apply sub_refl]. intros e [<-|[]]. left; reflexivity.
Qed.

Lemma sub_ifaces ts tn ofs : forall l seen, sub (ifaces_go ts tn ofs seen l) (ifaces_all ts tn ofs seen l).
Proof.
  induction l as [|i l IH]; intros seen; simpl; [apply sub_refl|].
  destruct (find_type ts i) as [it|]; [|apply (sub_app [_] _ [_] _); [apply sub_refl|apply IH]].
  destruct (t_body it); try (apply (sub_app [_] _ [_] _); [apply sub_refl|apply IH]).
  destruct (mem_str i seen).
  - intros e [<-|He]; [left; reflexivity|]. right. simpl. apply in_or_app; right. apply (IH seen); exact He.
  - simpl. apply sub_app; [apply sub_implementation|apply IH].
Qed.

Lemma sub_union ts tn : forall l sg sa,
  (forall m, is_object_name ts m = true -> mem_str m sg = mem_str m sa) ->
  sub (union_go ts tn sg l) (union_all ts tn sa l).
Proof.
  induction l as [|m l IH]; intros sg sa Hinv; simpl; [apply sub_refl|].
  destruct (is_object_name ts m) eqn:Eo; simpl.
  - rewrite (Hinv m Eo). apply sub_app; [apply sub_refl|]. apply IH.
    intros x Hx. simpl. rewrite (Hinv x Hx). reflexivity.
  - intros e [<-|He]; [left; reflexivity|]. right. simpl. apply in_or_app; right. apply (IH sg (m :: sa)); [|exact He].
    intros x Hx. simpl. destruct (str_eqb_spec x m) as [->|_]; [congruence|]. simpl. apply Hinv; exact Hx.
Qed.

(* nothing is reported that is not a violated rule instance *)
Theorem reported_are_violations s : sub (validate_model s) (validate_all s).
Proof.
  unfold validate_model, validate_all. apply sub_app; [apply sub_refl|]. apply sub_app.
  - apply sub_flat_map. intros t. unfold validate_type, validate_type_all.
    destruct (negb _); [intros e [<-|[]]; left; reflexivity|]. simpl.
    assert (Hf : forall tdr fields, sub (validate_fields s (t_name t) tdr fields) (validate_fields_all s (t_name t) tdr fields)).
    { intros tdr fields. unfold validate_fields, validate_fields_all. apply sub_app; [apply sub_refl|].
      intros e. apply loop_seen_incl. intros f e' He'.
      apply in_app_iff in He'. apply in_or_app. destruct He' as [H|H]; [left; exact H|right].
      apply in_app_iff in H. apply in_or_app. destruct H as [H|H]; [left|right; exact H].
      unfold validate_args in H. unfold validate_args_all. revert H. apply loop_seen_incl. auto. }
    destruct (t_body t).
    + apply sub_refl.
    + apply sub_app; [apply Hf|apply sub_ifaces].
    + apply Hf.
    + unfold validate_union_members. apply sub_app; [apply sub_refl|]. apply sub_union. reflexivity.
    + apply sub_refl.
    + unfold validate_input_fields, validate_input_fields_all. apply sub_app; [apply sub_refl|].
      intros e. apply loop_seen_incl. auto.
  - unfold validate_directives, validate_directives_all. apply sub_flat_map. intros d.
    apply sub_app; [apply sub_refl|]. intros e. apply loop_seen_incl. auto.
Qed.
