(* C13, label by label: the continue-free walk [validate_all] lists exactly the
   errors whose claim holds. *)
From PyGql Require Import Schema.SchemaFull Schema.SchemaValidateModel Spec.SchemaValidSpec
  Spec.SchemaReportSpec Spec.SchemaClaimSpec
  Proofs.SchemaFullLemmas Proofs.SchemaValProofs Proofs.SchemaVerdictProofs Proofs.SchemaReportProofs.

Lemma in_check_name e n : In e (check_valid_name n) <-> ~ name_ok n /\ e = err LInvalidName [n].
Proof.
  unfold check_valid_name. destruct (valid_name n) eqn:E.
  - apply valid_name_spec in E. split; [intros []|intros [H _]; contradiction].
  - split.
    + intros [<-|[]]. split; [|reflexivity]. intros H. apply valid_name_spec in H. congruence.
    + intros [_ ->]. left; reflexivity.
Qed.

Lemma in_loop_all {A} (name : A -> str) pre dup body e :
  forall l seen,
    In e (loop_all name pre dup body seen l) <->
    exists l1 x l2, l = l1 ++ x :: l2 /\
      (In e (pre x)
       \/ (In e (dup x) /\ (In (name x) seen \/ In (name x) (map name l1)))
       \/ In e (body x)).
Proof.
  induction l as [|x l IH]; intros seen; simpl.
  - split; [intros []|]. intros (l1 & y & l2 & H & _). destruct l1; discriminate.
  - rewrite !in_app_iff, IH. split.
    + intros [H|[H|[H|H]]].
      * exists [], x, l. split; [reflexivity|left; exact H].
      * destruct (mem_str (name x) seen) eqn:E; [|destruct H].
        exists [], x, l. split; [reflexivity|]. right; left. split; [exact H|left; apply mem_str_In; exact E].
      * exists [], x, l. split; [reflexivity|right; right; exact H].
      * destruct H as (l1 & y & l2 & -> & Hy). exists (x :: l1), y, l2. split; [reflexivity|].
        destruct Hy as [Hy|[[Hd Hs]|Hy]]; [left; exact Hy| |right; right; exact Hy].
        right; left. split; [exact Hd|]. simpl.
        destruct (mem_str (name x) seen) eqn:E; [destruct Hs; [left; assumption|right; right; assumption]|].
        destruct Hs as [[Hs|Hs]|Hs]; [right; left; exact Hs|left; exact Hs|right; right; exact Hs].
    + intros (l1 & y & l2 & Hl & Hy). destruct l1 as [|z l1]; simpl in Hl; inversion Hl; subst.
      * destruct Hy as [Hy|[[Hd [Hs|[]]]|Hy]]; [left; exact Hy| |right; right; left; exact Hy].
        right; left. apply mem_str_In in Hs. rewrite Hs. exact Hd.
      * right; right; right. exists l1, y, l2. split; [reflexivity|].
        destruct Hy as [Hy|[[Hd Hs]|Hy]]; [left; exact Hy| |right; right; exact Hy].
        right; left. split; [exact Hd|]. simpl in Hs.
        destruct (mem_str (name z) seen) eqn:E.
        -- destruct Hs as [Hs|[Hs|Hs]]; [left; exact Hs| |right; exact Hs].
           left. rewrite <- Hs. apply mem_str_In; exact E.
        -- destruct Hs as [Hs|[Hs|Hs]]; [left; right; exact Hs|left; left; exact Hs|right; exact Hs].
Qed.

Lemma in_loop_all_nil {A} (name : A -> str) pre dup body e l :
  In e (loop_all name pre dup body [] l) <->
  (exists x, In x l /\ In e (pre x))
  \/ (exists x, repeated name l x /\ In e (dup x))
  \/ (exists x, In x l /\ In e (body x)).
Proof.
  rewrite in_loop_all. split.
  - intros (l1 & x & l2 & -> & [H|[[H Hs]|H]]).
    + left. exists x. split; [apply in_or_app; right; left; reflexivity|exact H].
    + destruct Hs as [Hs|Hs]; [destruct Hs|].
      right; left. exists x. split; [exists l1, l2; auto|exact H].
    + right; right. exists x. split; [apply in_or_app; right; left; reflexivity|exact H].
  - intros [(x & Hin & H)|[(x & (l1 & l2 & -> & Hs) & H)|(x & Hin & H)]].
    + apply in_split in Hin. destruct Hin as (l1 & l2 & ->). exists l1, x, l2. split; [reflexivity|left; exact H].
    + exists l1, x, l2. split; [reflexivity|right; left; auto].
    + apply in_split in Hin. destruct Hin as (l1 & l2 & ->). exists l1, x, l2. split; [reflexivity|right; right; exact H].
Qed.

Lemma in_unless (b : bool) (x e : verr) : In e (if b then [] else [x]) <-> b = false /\ e = x.
Proof.
  destruct b; simpl.
  - split; [intros []|intros [H _]; discriminate].
  - split; [intros [<-|[]]; auto|intros [_ ->]; left; reflexivity].
Qed.
Lemma in_when (b : bool) (x e : verr) : In e (if b then [x] else []) <-> b = true /\ e = x.
Proof.
  destruct b; simpl.
  - split; [intros [<-|[]]; auto|intros [_ ->]; left; reflexivity].
  - split; [intros []|intros [H _]; discriminate].
Qed.

Section Claim.
  Variable s : schema.
  Notation ts := (s_types s).

  Lemma not_input t : is_input_ty ts t = false <-> ~ input_position s t.
  Proof. rewrite <- (is_input_spec s). destruct (is_input_ty ts t); split; congruence. Qed.
  Lemma not_output t : is_output_ty ts t = false <-> ~ output_position s t.
  Proof. rewrite <- (is_output_spec s). destruct (is_output_ty ts t); split; congruence. Qed.
  Lemma not_object n : is_object_name ts n = false <-> ~ kind_is s n [1%N].
  Proof. rewrite <- (is_object_spec s). destruct (is_object_name ts n); split; congruence. Qed.

  Lemma in_args_all path args e :
    In e (validate_args_all ts path args) <->
    (exists a, In a args /\ ~ name_ok (a_name a) /\ e = err LInvalidName [a_name a])
    \/ (exists a, repeated a_name args a /\ e = err LDuplicateArg (path ++ [a_name a]))
    \/ (exists a, In a args /\ ~ input_position s (a_type a) /\ e = err LArgNotInput (path ++ [a_name a])).
  Proof.
    unfold validate_args_all. rewrite in_loop_all_nil. split.
    - intros [(a & Ha & H)|[(a & Ha & H)|(a & Ha & H)]].
      + apply in_check_name in H. left. exists a. tauto.
      + destruct H as [<-|[]]. right; left. exists a. auto.
      + apply in_unless in H. destruct H as [Hb ->]. right; right. exists a. rewrite <- not_input. auto.
    - intros [(a & Ha & Hn & ->)|[(a & Ha & ->)|(a & Ha & Hn & ->)]].
      + left. exists a. split; [exact Ha|]. apply in_check_name. auto.
      + right; left. exists a. split; [exact Ha|left; reflexivity].
      + right; right. exists a. split; [exact Ha|]. apply in_unless. rewrite not_input. auto.
  Qed.

  Lemma in_dir_args_all dn args e :
    In e (loop_all a_name (fun a => check_valid_name (a_name a))
            (fun a => [err LDirDuplicateArg [dn; a_name a]])
            (fun a => if is_input_ty ts (a_type a) then [] else [err LDirArgNotInput [dn; a_name a]]) [] args) <->
    (exists a, In a args /\ ~ name_ok (a_name a) /\ e = err LInvalidName [a_name a])
    \/ (exists a, repeated a_name args a /\ e = err LDirDuplicateArg [dn; a_name a])
    \/ (exists a, In a args /\ ~ input_position s (a_type a) /\ e = err LDirArgNotInput [dn; a_name a]).
  Proof.
    rewrite in_loop_all_nil. split.
    - intros [(a & Ha & H)|[(a & Ha & H)|(a & Ha & H)]].
      + apply in_check_name in H. left. exists a. tauto.
      + destruct H as [<-|[]]. right; left. exists a. auto.
      + apply in_unless in H. destruct H as [Hb ->]. right; right. exists a. rewrite <- not_input. auto.
    - intros [(a & Ha & Hn & ->)|[(a & Ha & ->)|(a & Ha & Hn & ->)]].
      + left. exists a. split; [exact Ha|]. apply in_check_name. auto.
      + right; left. exists a. split; [exact Ha|left; reflexivity].
      + right; right. exists a. split; [exact Ha|]. apply in_unless. rewrite not_input. auto.
  Qed.

  (* the checks of one field *)
  Definition field_body_all tn tdr (f : field_def) : list verr :=
    (if is_output_ty ts (f_type f) then [] else [err LFieldNotOutput [tn; f_name f]])
    ++ validate_args_all ts [tn; f_name f] (f_args f)
    ++ match or_else (f_resolver f) (or_else tdr (s_default_resolver s)) with
       | Some sg => resolver_errors [tn; f_name f] sg (f_args f)
       | None => []
       end.

  Lemma resolver_of_eq tdr f : or_else (f_resolver f) (or_else tdr (s_default_resolver s)) = resolver_of s tdr f.
  Proof. unfold or_else, resolver_of. destruct (f_resolver f), tdr; reflexivity. Qed.

  Lemma in_fields_all tn tdr fs e :
    In e (validate_fields_all s tn tdr fs) <->
    (fs = [] /\ e = err LNoFields [tn])
    \/ (exists f, In f fs /\ ~ name_ok (f_name f) /\ e = err LInvalidName [f_name f])
    \/ (exists f, repeated f_name fs f /\ e = err LDuplicateField [tn; f_name f])
    \/ (exists f, In f fs /\ In e (field_body_all tn tdr f)).
  Proof.
    unfold validate_fields_all. rewrite in_app_iff, in_loop_all_nil. fold (field_body_all tn tdr). split.
    - intros [H|[(f & Hf & H)|[(f & Hf & H)|(f & Hf & H)]]].
      + left. destruct fs; [destruct H as [<-|[]]; auto|destruct H].
      + apply in_check_name in H. right; left. exists f. tauto.
      + destruct H as [<-|[]]. right; right; left. exists f. auto.
      + right; right; right. exists f. auto.
    - intros [[-> ->]|[(f & Hf & Hn & ->)|[(f & Hf & ->)|(f & Hf & H)]]].
      + left. left; reflexivity.
      + right; left. exists f. split; [exact Hf|apply in_check_name; auto].
      + right; right; left. exists f. split; [exact Hf|left; reflexivity].
      + right; right; right. exists f. auto.
  Qed.

  Lemma in_type_all t e : In t ts -> In e (validate_type_all s t) -> In e (validate_all s).
  Proof.
    intros Hin He. unfold validate_all. apply in_or_app; right. apply in_or_app; left.
    apply in_flat_map. exists t. auto.
  Qed.

  Lemma in_type_body t e :
    In e match t_body t with
         | BObject ifaces fields dr =>
             validate_fields_all s (t_name t) dr fields ++ ifaces_all ts (t_name t) fields [] ifaces
         | BInterface fields => validate_fields_all s (t_name t) None fields
         | BUnion ms =>
             (match ms with [] => [err LUnionEmpty [t_name t]] | _ => [] end) ++ union_all ts (t_name t) [] ms
         | BEnum vs => validate_enum_values (t_name t) vs
         | BInput fs => validate_input_fields_all ts (t_name t) fs
         | BScalar => []
         end -> In e (validate_type_all s t).
  Proof. intros H. unfold validate_type_all. apply in_or_app; right. exact H. Qed.
End Claim.

Section Claim2.
  Variable s : schema.
  Notation ts := (s_types s).

  Definition is_iface (i : str) : bool :=
    match find_type ts i with
    | Some it => match t_body it with BInterface _ => true | _ => false end
    | None => false
    end.

  Lemma is_iface_spec i : is_iface i = true <-> kind_is s i [2%N].
  Proof.
    unfold is_iface, kind_is. destruct (find_type ts i) as [it|].
    - destruct (t_body it) eqn:Eb; split; try discriminate; try (intros _; exists it; rewrite Eb; simpl; auto);
        intros (t & He & Hk); inversion He; subst; rewrite Eb in Hk; simpl in Hk; intuition discriminate.
    - split; [discriminate|intros (t & He & _); discriminate].
  Qed.

  Lemma in_union_all tn e : forall l seen,
    In e (union_all ts tn seen l) <->
    exists l1 m l2, l = l1 ++ m :: l2 /\
      ((is_object_name ts m = false /\ e = err LUnionMemberNotObject [tn; m])
       \/ ((In m seen \/ In m l1) /\ e = err LUnionMemberTwice [tn; m])).
  Proof.
    induction l as [|x l IH]; intros seen; simpl.
    - split; [intros []|]. intros (l1 & y & l2 & H & _). destruct l1; discriminate.
    - rewrite !in_app_iff, IH, in_when, in_when. split.
      + intros [[Hb ->]|[[Hm ->]|(l1 & m & l2 & -> & H)]].
        * exists [], x, l. split; [reflexivity|left]. apply negb_true_iff in Hb. auto.
        * exists [], x, l. split; [reflexivity|right]. apply mem_str_In in Hm. auto.
        * exists (x :: l1), m, l2. split; [reflexivity|].
          destruct H as [H|[[[Hs|Hs]|Hs] ->]]; [left; exact H|right..]; split; auto; simpl; auto.
      + intros (l1 & m & l2 & Hl & H). destruct l1 as [|z l1]; simpl in Hl; inversion Hl; subst.
        * destruct H as [[Hb ->]|[[Hs|[]] ->]].
          -- left. split; [apply negb_true_iff; exact Hb|reflexivity].
          -- right; left. split; [apply mem_str_In; exact Hs|reflexivity].
        * right; right. exists l1, m, l2. split; [reflexivity|].
          destruct H as [H|[[Hs|[Hs|Hs]] ->]]; [left; exact H|right..]; split; auto; simpl; auto.
  Qed.

  Lemma in_implementation_all tn ofs i ifs e :
    In e (validate_implementation_all ts tn ofs i ifs) <->
    exists f, In f ifs /\
      ((last_named f_name ofs (f_name f) = None /\ e = err LIfaceFieldMissing [tn; i; f_name f])
       \/ exists g, last_named f_name ofs (f_name f) = Some g /\
            ((is_subtype_model ts (f_type g) (f_type f) = false /\ e = err LIfaceFieldType [tn; i; f_name f])
             \/ (exists a, In a (f_args f) /\
                   ((last_named a_name (f_args g) (a_name a) = None
                     /\ e = err LIfaceArgMissing [tn; i; f_name f; a_name a])
                    \/ (exists b, last_named a_name (f_args g) (a_name a) = Some b
                          /\ ty_eqb (a_type a) (a_type b) = false
                          /\ e = err LIfaceArgType [tn; i; f_name f; a_name a])))
             \/ (exists b, In b (f_args g) /\ last_named a_name (f_args f) (a_name b) = None
                   /\ is_non_null (a_type b) = true
                   /\ e = err LIfaceExtraRequiredArg [tn; i; f_name f; a_name b]))).
  Proof.
    unfold validate_implementation_all, last_named. rewrite in_flat_map. split.
    - intros (f & Hf & H). exists f. split; [exact Hf|].
      destruct (find_last _ ofs) as [g|]; [|destruct H as [<-|[]]; left; auto].
      right. exists g. split; [reflexivity|]. apply in_app_iff in H. destruct H as [H|H].
      + apply in_when in H. destruct H as [Hb ->]. apply negb_true_iff in Hb. left; auto.
      + apply in_app_iff in H. destruct H as [H|H]; apply in_flat_map in H; destruct H as (a & Ha & H).
        * right; left. exists a. split; [exact Ha|].
          destruct (find_last _ (f_args g)) as [b|]; [|destruct H as [<-|[]]; left; auto].
          apply in_unless in H. destruct H as [Hb ->]. right. exists b. auto.
        * right; right. exists a. split; [exact Ha|].
          destruct (find_last _ (f_args f)); [destruct H|]. apply in_when in H. destruct H as [Hb ->]. auto.
    - intros (f & Hf & H). exists f. split; [exact Hf|].
      destruct H as [[Hn ->]|(g & Hg & H)]; [rewrite Hn; left; reflexivity|]. rewrite Hg.
      apply in_or_app. destruct H as [[Hb ->]|[(a & Ha & H)|(b & Hb & Hl & Hnn & ->)]].
      + left. apply in_when. split; [apply negb_true_iff; exact Hb|reflexivity].
      + right. apply in_or_app; left. apply in_flat_map. exists a. split; [exact Ha|].
        destruct H as [[Hn ->]|(b & Hb & Ht & ->)]; [rewrite Hn; left; reflexivity|].
        rewrite Hb. apply in_unless. auto.
      + right. apply in_or_app; right. apply in_flat_map. exists b. split; [exact Hb|].
        rewrite Hl. apply in_when. auto.
  Qed.

  Lemma iface_lookup i : is_iface i = true ->
    exists it ifs, find_type ts i = Some it /\ t_body it = BInterface ifs.
  Proof.
    unfold is_iface. destruct (find_type ts i) as [it|]; [|discriminate].
    destruct (t_body it) eqn:E; try discriminate. eauto.
  Qed.

  Lemma in_ifaces_all tn ofs e : forall l seen,
    (forall x, In x seen -> is_iface x = true) ->
    (In e (ifaces_all ts tn ofs seen l) <->
     exists l1 i l2, l = l1 ++ i :: l2 /\
       ((is_iface i = false /\ e = err LNotInterface [tn; i])
        \/ (exists it ifs, find_type ts i = Some it /\ t_body it = BInterface ifs /\
              ((e = err LInterfaceTwice [tn; i] /\ (In i seen \/ In i l1))
               \/ In e (validate_implementation_all ts tn ofs i ifs))))).
  Proof.
    induction l as [|x l IH]; intros seen Hseen; simpl.
    - split; [intros []|]. intros (l1 & y & l2 & H & _). destruct l1; discriminate.
    - destruct (is_iface x) eqn:Ex.
      + destruct (iface_lookup x Ex) as (it & ifs & Hf & Hb). rewrite Hf, Hb.
        assert (Hseen' : forall y, In y (if mem_str x seen then seen else x :: seen) -> is_iface y = true).
        { intros y Hy. destruct (mem_str x seen); [auto|]. destruct Hy as [<-|Hy]; auto. }
        rewrite !in_app_iff, in_when, (IH _ Hseen'). split.
        * intros [[Hm ->]|[H|(l1 & i & l2 & -> & H)]].
          -- exists [], x, l. split; [reflexivity|right]. exists it, ifs. apply mem_str_In in Hm. auto 6.
          -- exists [], x, l. split; [reflexivity|right]. exists it, ifs. auto.
          -- exists (x :: l1), i, l2. split; [reflexivity|].
             destruct H as [H|(it' & ifs' & Hf' & Hb' & H)]; [left; exact H|right].
             exists it', ifs'. split; [exact Hf'|]. split; [exact Hb'|].
             destruct H as [[-> Hs]|H]; [left|right; exact H]. split; [reflexivity|].
             destruct (mem_str x seen) eqn:Em.
             ++ destruct Hs; [left; assumption|right; right; assumption].
             ++ destruct Hs as [[<-|Hs]|Hs]; [right; left; reflexivity|left; exact Hs|right; right; exact Hs].
        * intros (l1 & i & l2 & Hl & H). destruct l1 as [|z l1]; simpl in Hl; inversion Hl; subst.
          -- destruct H as [[Hb' _]|(it' & ifs' & Hf' & Hb' & H)]; [congruence|].
             assert (it' = it) by congruence. subst it'. assert (ifs' = ifs) by congruence. subst ifs'.
             destruct H as [[-> [Hs|[]]]|H]; [left; split; [apply mem_str_In; exact Hs|reflexivity]|right; left; exact H].
          -- right; right. exists l1, i, l2. split; [reflexivity|].
             destruct H as [H|(it' & ifs' & Hf' & Hb' & H)]; [left; exact H|right].
             exists it', ifs'. split; [exact Hf'|]. split; [exact Hb'|].
             destruct H as [[-> Hs]|H]; [left|right; exact H]. split; [reflexivity|].
             destruct (mem_str z seen) eqn:Em.
             ++ destruct Hs as [Hs|[<-|Hs]]; [left; exact Hs|left; apply mem_str_In; exact Em|right; exact Hs].
             ++ destruct Hs as [Hs|[<-|Hs]]; [left; right; exact Hs|left; left; reflexivity|right; exact Hs].
      + assert (Hgo : ifaces_all ts tn ofs seen (x :: l) = err LNotInterface [tn; x] :: ifaces_all ts tn ofs seen l).
        { simpl. unfold is_iface in Ex. destruct (find_type ts x) as [it|]; [|reflexivity].
          destruct (t_body it); try reflexivity. discriminate. }
        simpl in Hgo. rewrite Hgo. simpl. rewrite (IH _ Hseen). split.
        * intros [<-|(l1 & i & l2 & -> & H)].
          -- exists [], x, l. split; [reflexivity|left; auto].
          -- exists (x :: l1), i, l2. split; [reflexivity|].
             destruct H as [H|(it' & ifs' & Hf' & Hb' & H)]; [left; exact H|right].
             exists it', ifs'. split; [exact Hf'|]. split; [exact Hb'|].
             destruct H as [[-> Hs]|H]; [left|right; exact H]. split; [reflexivity|].
             destruct Hs; [left; assumption|right; right; assumption].
        * intros (l1 & i & l2 & Hl & H). destruct l1 as [|z l1]; simpl in Hl; inversion Hl; subst.
          -- destruct H as [[_ ->]|(it' & ifs' & Hf' & Hb' & _)]; [left; reflexivity|].
             exfalso. unfold is_iface in Ex. rewrite Hf', Hb' in Ex. discriminate.
          -- right. exists l1, i, l2. split; [reflexivity|].
             destruct H as [H|(it' & ifs' & Hf' & Hb' & H)]; [left; exact H|right].
             exists it', ifs'. split; [exact Hf'|]. split; [exact Hb'|].
             destruct H as [[-> Hs]|H]; [left|right; exact H]. split; [reflexivity|].
             destruct Hs as [Hs|[<-|Hs]]; [left; exact Hs| |right; exact Hs].
             exfalso. unfold is_iface in Ex. rewrite Hf', Hb' in Ex. discriminate.
  Qed.
End Claim2.

Section Main.
  Variable s : schema.
  Notation ts := (s_types s).
  Hypothesis Hwf : types_wf s.     (* no doubly non-null type (py_gql cannot build one) *)

  Lemma repeated_id l i l1 l2 : l = l1 ++ i :: l2 -> In i l1 -> repeated (fun x : str => x) l i.
  Proof. intros -> H. exists l1, l2. split; [reflexivity|]. rewrite map_id. exact H. Qed.

  Lemma split_In {A} (l l1 l2 : list A) x : l = l1 ++ x :: l2 -> In x l.
  Proof. intros ->. apply in_or_app; right; left; reflexivity. Qed.

  (* the errors of the fields of one composite type *)
  Lemma fields_claims t fs dr e :
    In t ts -> comp_body t = Some (fs, dr) ->
    In e (validate_fields_all s (t_name t) dr fs) -> claim s e.
  Proof.
    intros Hin Hc He. apply in_fields_all in He.
    destruct He as [[-> ->]|[(f & Hf & Hn & ->)|[(f & Hf & ->)|(f & Hf & He)]]].
    - eapply cl_no_fields; eassumption.
    - eapply cl_field_name; eassumption.
    - eapply cl_dup_field; eassumption.
    - unfold field_body_all in He. apply in_app_iff in He. destruct He as [He|He].
      + apply in_unless in He. destruct He as [Hb ->]. eapply cl_field_output; try eassumption.
        apply not_output; exact Hb.
      + apply in_app_iff in He. destruct He as [He|He].
        * apply in_args_all in He. destruct He as [(a & Ha & Hn & ->)|[(a & Ha & ->)|(a & Ha & Hn & ->)]].
          -- eapply cl_arg_name; eassumption.
          -- eapply (cl_dup_arg s t fs dr f a); eassumption.
          -- eapply (cl_arg_input s t fs dr f a); eassumption.
        * rewrite resolver_of_eq in He. destruct (resolver_of s dr f) as [sg|] eqn:Er; [|destruct He].
          eapply cl_resolver; eassumption.
  Qed.

  Theorem claims_sound e : In e (validate_all s) -> claim s e.
  Proof.
    intros He. unfold validate_all in He. apply in_app_iff in He. destruct He as [He|He].
    - (* roots *)
      unfold validate_roots in He. apply in_app_iff in He. destruct He as [He|He].
      + destruct (s_query s) as [q|] eqn:Eq.
        * apply in_unless in He. destruct He as [Hb ->]. apply cl_query; [exact Eq|apply not_object; exact Hb].
        * destruct He as [<-|[]]. apply cl_no_query; exact Eq.
      + apply in_app_iff in He. destruct He as [He|He].
        * destruct (s_mutation s) as [q|] eqn:Eq; [|destruct He].
          apply in_unless in He. destruct He as [Hb ->]. apply cl_mutation; [exact Eq|apply not_object; exact Hb].
        * destruct (s_subscription s) as [q|] eqn:Eq; [|destruct He].
          apply in_unless in He. destruct He as [Hb ->]. apply cl_subscription; [exact Eq|apply not_object; exact Hb].
    - apply in_app_iff in He. destruct He as [He|He].
      + (* one type *)
        apply in_flat_map in He. destruct He as (t & Hin & He). unfold validate_type_all in He.
        apply in_app_iff in He. destruct He as [He|He].
        * apply in_when in He. destruct He as [Hb ->]. apply negb_true_iff in Hb.
          apply orb_false_iff in Hb. destruct Hb as [Hb Hv]. apply orb_false_iff in Hb. destruct Hb as [Hi Hs].
          apply cl_type_name; try assumption. intros H. apply valid_name_spec in H. congruence.
        * destruct (t_body t) as [|is_ fs dr|fs|ms|vs|fs] eqn:Eb.
          -- destruct He.
          -- apply in_app_iff in He. destruct He as [He|He].
             ++ apply (fields_claims t fs dr e Hin); [unfold comp_body; rewrite Eb; reflexivity|exact He].
             ++ apply in_ifaces_all in He; [|intros x []].
                destruct He as (l1 & i & l2 & Hl & [[Hni ->]|(it & ifs & Hf & Hb & [[-> Hs]|He])]).
                ** eapply cl_not_interface; [exact Hin|exact Eb|eapply split_In; exact Hl|].
                   intros H. apply is_iface_spec in H. congruence.
                ** destruct Hs as [[]|Hs]. eapply cl_interface_twice; [exact Hin|exact Eb|eapply repeated_id; eassumption|].
                   exists it. split; [exact Hf|]. rewrite Hb. simpl. auto.
                ** pose proof (split_In _ _ _ _ Hl) as Hi.
                   apply in_implementation_all in He. destruct He as (f & Hff & [[Hn ->]|(g & Hg & H)]).
                   --- eapply cl_iface_field_missing; eassumption.
                   --- destruct H as [[Hb' ->]|[(a & Ha & [[Hn ->]|(b & Hb' & Ht & ->)])|(b & Hb' & Hl' & Hnn & ->)]].
                       +++ eapply cl_iface_field_type; try eassumption. intros Hsub.
                           assert (Hgin : In g fs) by (apply (find_last_some _ _ _ Hg)).
                           rewrite (is_subtype_complete ts _ _ Hsub (Hwf t is_ fs dr Hin Eb g Hgin)) in Hb'. discriminate.
                       +++ eapply cl_iface_arg_missing; eassumption.
                       +++ eapply cl_iface_arg_type; try eassumption. intros E. rewrite E, ty_eqb_refl in Ht. discriminate.
                       +++ eapply cl_iface_extra_arg; eassumption.
          -- apply (fields_claims t fs None e Hin); [unfold comp_body; rewrite Eb; reflexivity|exact He].
          -- apply in_app_iff in He. destruct He as [He|He].
             ++ destruct ms; [|destruct He]. destruct He as [<-|[]]. apply cl_union_empty; assumption.
             ++ apply in_union_all in He. destruct He as (l1 & m & l2 & Hl & [[Hb ->]|[[[]|Hs] ->]]).
                ** eapply cl_union_member; [exact Hin|exact Eb|eapply split_In; exact Hl|apply not_object; exact Hb].
                ** eapply cl_union_twice; [exact Hin|exact Eb|eapply repeated_id; eassumption].
          -- unfold validate_enum_values in He. apply in_app_iff in He. destruct He as [He|He].
             ++ destruct vs; [|destruct He]. destruct He as [<-|[]]. apply cl_enum_empty; assumption.
             ++ apply in_flat_map in He. destruct He as (v & Hv & He). apply in_check_name in He.
                destruct He as [Hn ->]. eapply cl_enum_value_name; eassumption.
          -- unfold validate_input_fields_all in He. apply in_app_iff in He. destruct He as [He|He].
             ++ destruct fs; [|destruct He]. destruct He as [<-|[]]. apply cl_input_empty; assumption.
             ++ apply in_loop_all_nil in He. destruct He as [(f & Hf & He)|[(f & Hf & He)|(f & Hf & He)]].
                ** apply in_check_name in He. destruct He as [Hn ->]. eapply cl_input_field_name; eassumption.
                ** destruct He as [<-|[]]. eapply cl_dup_input_field; eassumption.
                ** apply in_unless in He. destruct He as [Hb ->]. eapply cl_input_field_input; try eassumption.
                   apply not_input; exact Hb.
      + (* directives *)
        unfold validate_directives_all in He. apply in_flat_map in He. destruct He as (d & Hd & He).
        apply in_app_iff in He. destruct He as [He|He].
        * apply in_check_name in He. destruct He as [Hn ->]. apply cl_directive_name; assumption.
        * apply in_dir_args_all in He. destruct He as [(a & Ha & Hn & ->)|[(a & Ha & ->)|(a & Ha & Hn & ->)]].
          -- eapply cl_dir_arg_name; eassumption.
          -- eapply cl_dup_dir_arg; eassumption.
          -- eapply cl_dir_arg_input; eassumption.
  Qed.
End Main.

Section Complete.
  Variable s : schema.
  Notation ts := (s_types s).

  Lemma roots_in e : In e (validate_roots s) -> In e (validate_all s).
  Proof. intros H. unfold validate_all. apply in_or_app; left; exact H. Qed.

  Lemma dirs_in e : In e (validate_directives_all ts (s_dirs s)) -> In e (validate_all s).
  Proof. intros H. unfold validate_all. apply in_or_app; right. apply in_or_app; right; exact H. Qed.

  Lemma comp_fields_in t fs dr e :
    In t ts -> comp_body t = Some (fs, dr) ->
    In e (validate_fields_all s (t_name t) dr fs) -> In e (validate_all s).
  Proof.
    intros Hin Hc He. apply (in_type_all s t e Hin). apply in_type_body. unfold comp_body in Hc.
    destruct (t_body t) as [|is_ fs' dr'|fs'| | |]; try discriminate; inversion Hc; subst.
    - apply in_or_app; left; exact He.
    - exact He.
  Qed.

  Lemma object_ifaces_in t is_ fs dr e :
    In t ts -> t_body t = BObject is_ fs dr ->
    In e (ifaces_all ts (t_name t) fs [] is_) -> In e (validate_all s).
  Proof.
    intros Hin Hb He. apply (in_type_all s t e Hin). apply in_type_body. rewrite Hb.
    apply in_or_app; right; exact He.
  Qed.

  Lemma field_body_in t fs dr f e :
    In t ts -> comp_body t = Some (fs, dr) -> In f fs ->
    In e (field_body_all s (t_name t) dr f) -> In e (validate_all s).
  Proof.
    intros Hin Hc Hf He. apply (comp_fields_in t fs dr e Hin Hc). apply in_fields_all.
    right; right; right. exists f. auto.
  Qed.

  Lemma impl_in t is_ fs dr i it ifs e :
    In t ts -> t_body t = BObject is_ fs dr -> In i is_ ->
    find_type ts i = Some it -> t_body it = BInterface ifs ->
    In e (validate_implementation_all ts (t_name t) fs i ifs) -> In e (validate_all s).
  Proof.
    intros Hin Hb Hi Hf Hbi He. apply (object_ifaces_in t is_ fs dr e Hin Hb).
    apply in_ifaces_all; [intros x []|]. apply in_split in Hi. destruct Hi as (l1 & l2 & ->).
    exists l1, i, l2. split; [reflexivity|right]. exists it, ifs. auto.
  Qed.

  Theorem claims_complete e : claim s e -> In e (validate_all s).
  Proof.
    intros H. destruct H.
    - apply roots_in. unfold validate_roots. rewrite H. apply in_or_app; left; left; reflexivity.
    - apply roots_in. unfold validate_roots. rewrite H. apply in_or_app; left.
      apply in_unless. split; [apply not_object; assumption|reflexivity].
    - apply roots_in. unfold validate_roots. rewrite H. apply in_or_app; right. apply in_or_app; left.
      apply in_unless. split; [apply not_object; assumption|reflexivity].
    - apply roots_in. unfold validate_roots. rewrite H. apply in_or_app; right. apply in_or_app; right.
      apply in_unless. split; [apply not_object; assumption|reflexivity].
    - apply (in_type_all s t _ H). unfold validate_type_all. apply in_or_app; left. apply in_when.
      split; [|reflexivity]. rewrite H0, H1. simpl. apply negb_true_iff.
      destruct (valid_name (t_name t)) eqn:E; [|reflexivity]. apply valid_name_spec in E. contradiction.
    - apply (comp_fields_in t [] dr _ H H0). apply in_fields_all. left; auto.
    - apply (comp_fields_in t fs dr _ H H0). apply in_fields_all. right; left. exists f; auto.
    - apply (comp_fields_in t fs dr _ H H0). apply in_fields_all. right; right; left. exists f; auto.
    - apply (field_body_in t fs dr f _ H H0 H1). unfold field_body_all. apply in_or_app; left.
      apply in_unless. split; [apply not_output; assumption|reflexivity].
    - apply (field_body_in t fs dr f _ H H0 H1). unfold field_body_all. apply in_or_app; right. apply in_or_app; left.
      apply in_args_all. left. exists a; auto.
    - apply (field_body_in t fs dr f _ H H0 H1). unfold field_body_all. apply in_or_app; right. apply in_or_app; left.
      apply in_args_all. right; left. exists a; auto.
    - apply (field_body_in t fs dr f _ H H0 H1). unfold field_body_all. apply in_or_app; right. apply in_or_app; left.
      apply in_args_all. right; right. exists a; auto.
    - apply (field_body_in t fs dr f _ H H0 H1). unfold field_body_all. apply in_or_app; right. apply in_or_app; right.
      rewrite resolver_of_eq, H2. assumption.
    - apply (object_ifaces_in t is_ fs dr _ H H0). apply in_ifaces_all; [intros x []|].
      apply in_split in H1. destruct H1 as (l1 & l2 & ->). exists l1, i, l2. split; [reflexivity|left].
      split; [|reflexivity]. destruct (is_iface s i) eqn:E; [|reflexivity]. apply is_iface_spec in E. contradiction.
    - apply (object_ifaces_in t is_ fs dr _ H H0). apply in_ifaces_all; [intros x []|].
      destruct H1 as (l1 & l2 & -> & Hs). rewrite map_id in Hs. exists l1, i, l2. split; [reflexivity|right].
      apply is_iface_spec in H2. destruct (iface_lookup s i H2) as (it & ifs & Hf & Hb). exists it, ifs. auto 6.
    - apply (impl_in t is_ fs dr i it ifs _ H H0 H1 H2 H3). apply in_implementation_all. exists f. auto.
    - apply (impl_in t is_ fs dr i it ifs _ H H0 H1 H2 H3). apply in_implementation_all. exists f. split; [assumption|right].
      exists g. split; [assumption|left]. split; [|reflexivity].
      destruct (is_subtype_model ts (f_type g) (f_type f)) eqn:E; [|reflexivity].
      apply is_subtype_sound in E. contradiction.
    - apply (impl_in t is_ fs dr i it ifs _ H H0 H1 H2 H3). apply in_implementation_all. exists f. split; [assumption|right].
      exists g. split; [assumption|right; left]. exists a. auto.
    - apply (impl_in t is_ fs dr i it ifs _ H H0 H1 H2 H3). apply in_implementation_all. exists f. split; [assumption|right].
      exists g. split; [assumption|right; left]. exists a. split; [assumption|right]. exists b.
      split; [assumption|]. split; [|reflexivity].
      destruct (ty_eqb (a_type a) (a_type b)) eqn:E; [|reflexivity]. apply ty_eqb_eq in E. contradiction.
    - apply (impl_in t is_ fs dr i it ifs _ H H0 H1 H2 H3). apply in_implementation_all. exists f. split; [assumption|right].
      exists g. split; [assumption|right; right]. exists b. auto.
    - apply (in_type_all s t _ H). apply in_type_body. rewrite H0. left; reflexivity.
    - apply (in_type_all s t _ H). apply in_type_body. rewrite H0. apply in_or_app; right.
      apply in_union_all. apply in_split in H1. destruct H1 as (l1 & l2 & ->). exists l1, m, l2.
      split; [reflexivity|left]. split; [apply not_object; assumption|reflexivity].
    - apply (in_type_all s t _ H). apply in_type_body. rewrite H0. apply in_or_app; right.
      apply in_union_all. destruct H1 as (l1 & l2 & -> & Hs). rewrite map_id in Hs. exists l1, m, l2.
      split; [reflexivity|right]. auto.
    - apply (in_type_all s t _ H). apply in_type_body. rewrite H0. left; reflexivity.
    - apply (in_type_all s t _ H). apply in_type_body. rewrite H0. unfold validate_enum_values.
      apply in_or_app; right. apply in_flat_map. exists v. split; [assumption|apply in_check_name; auto].
    - apply (in_type_all s t _ H). apply in_type_body. rewrite H0. left; reflexivity.
    - apply (in_type_all s t _ H). apply in_type_body. rewrite H0. unfold validate_input_fields_all.
      apply in_or_app; right. apply in_loop_all_nil. left. exists f. split; [assumption|apply in_check_name; auto].
    - apply (in_type_all s t _ H). apply in_type_body. rewrite H0. unfold validate_input_fields_all.
      apply in_or_app; right. apply in_loop_all_nil. right; left. exists f. split; [assumption|left; reflexivity].
    - apply (in_type_all s t _ H). apply in_type_body. rewrite H0. unfold validate_input_fields_all.
      apply in_or_app; right. apply in_loop_all_nil. right; right. exists f. split; [assumption|].
      apply in_unless. split; [apply not_input; assumption|reflexivity].
    - apply dirs_in. unfold validate_directives_all. apply in_flat_map. exists d. split; [assumption|].
      apply in_or_app; left. apply in_check_name; auto.
    - apply dirs_in. unfold validate_directives_all. apply in_flat_map. exists d. split; [assumption|].
      apply in_or_app; right. apply in_dir_args_all. left. exists a; auto.
    - apply dirs_in. unfold validate_directives_all. apply in_flat_map. exists d. split; [assumption|].
      apply in_or_app; right. apply in_dir_args_all. right; left. exists a; auto.
    - apply dirs_in. unfold validate_directives_all. apply in_flat_map. exists d. split; [assumption|].
      apply in_or_app; right. apply in_dir_args_all. right; right. exists a; auto.
  Qed.
End Complete.
