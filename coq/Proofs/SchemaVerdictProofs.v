(* C13: the verdict of the validator model, rule by rule. *)
From PyGql Require Import Schema.SchemaFull Schema.SchemaValidateModel Spec.SchemaValidSpec
  Proofs.SchemaFullLemmas Proofs.SchemaValProofs.

(* ------------------------------------------------------------ names *)
Lemma is_letter_spec c :
  is_letter c = true <-> ((65 <= c <= 90) \/ (97 <= c <= 122) \/ c = 95)%N.
Proof.
  unfold is_letter. rewrite !orb_true_iff, !andb_true_iff, !N.leb_le, N.eqb_eq. tauto.
Qed.

Lemma is_digit_spec c : is_digit c = true <-> (48 <= c <= 57)%N.
Proof. unfold is_digit. rewrite andb_true_iff, !N.leb_le. tauto. Qed.

Lemma valid_name_spec n : valid_name n = true <-> name_ok n.
Proof.
  destruct n as [|c r]; simpl; [split; [discriminate|tauto]|].
  rewrite !andb_true_iff, is_letter_spec, forallb_forall, Forall_forall, negb_true_iff.
  assert (Hr : (forall x, In x r -> is_letter x || is_digit x = true) <->
               (forall x, In x r -> ((65 <= x <= 90)%N \/ (97 <= x <= 122)%N \/ x = 95%N) \/ (48 <= x <= 57)%N)).
  { split; intros H x Hx; specialize (H x Hx);
      rewrite orb_true_iff, is_letter_spec, is_digit_spec in *; exact H. }
  rewrite Hr.
  assert (Hu : ((c =? 95)%N && match r with d :: _ => (d =? 95)%N | [] => false end) = false <->
               ~ (exists r', c :: r = 95%N :: 95%N :: r')).
  { split.
    - intros H (r' & He). inversion He; subst. simpl in H. discriminate.
    - intros H. destruct (N.eqb_spec c 95) as [->|]; [|reflexivity]. simpl.
      destruct r as [|d r']; [reflexivity|]. destruct (N.eqb_spec d 95) as [->|]; [|reflexivity].
      exfalso. apply H. exists r'. reflexivity. }
  rewrite Hu. tauto.
Qed.

Lemma check_valid_name_nil n : check_valid_name n = [] <-> name_ok n.
Proof.
  unfold check_valid_name. rewrite <- valid_name_spec.
  destruct (valid_name n); split; try reflexivity; try discriminate.
Qed.

(* ------------------------------------------------------------ positions *)
Section Positions.
  Variable s : schema.
  Let ts := s_types s.

  Lemma kind_is_spec n ks :
    kind_is s n ks <-> exists k, kind_of ts n = Some k /\ In k ks.
  Proof.
    unfold kind_is, kind_of. fold ts. destruct (find_type ts n) as [t|].
    - split; [intros (t' & He & Hin); inversion He; subst; eauto|].
      intros (k & He & Hin). inversion He; subst. eauto.
    - split; [intros (t' & He & _); discriminate|intros (k & He & _); discriminate].
  Qed.

  Lemma is_input_spec t : is_input_ty ts t = true <-> input_position s t.
  Proof.
    unfold input_position. rewrite kind_is_spec. unfold is_input_ty.
    destruct (kind_of ts (unwrap t)) as [k|].
    - rewrite !orb_true_iff, !N.eqb_eq. split.
      + intros H. exists k. split; [reflexivity|]. simpl. intuition.
      + intros (k' & He & Hin). inversion He; subst. simpl in Hin. intuition.
    - split; [discriminate|intros (k & He & _); discriminate].
  Qed.

  Lemma is_output_spec t : is_output_ty ts t = true <-> output_position s t.
  Proof.
    unfold output_position. rewrite kind_is_spec. unfold is_output_ty.
    destruct (kind_of ts (unwrap t)) as [k|].
    - rewrite !orb_true_iff, !N.eqb_eq. split.
      + intros H. exists k. split; [reflexivity|]. simpl. intuition.
      + intros (k' & He & Hin). inversion He; subst. simpl in Hin. intuition.
    - split; [discriminate|intros (k & He & _); discriminate].
  Qed.

  Lemma is_object_spec n : is_object_name ts n = true <-> kind_is s n [1%N].
  Proof.
    rewrite kind_is_spec. unfold is_object_name.
    destruct (kind_of ts n) as [k|].
    - split.
      + intros H. exists k. split; [reflexivity|]. simpl. left.
        destruct k as [|p]; [discriminate|]. destruct p; try discriminate. reflexivity.
      + intros (k' & He & [<-|[]]). inversion He; subst. reflexivity.
    - split; [discriminate|intros (k & He & _); discriminate].
  Qed.
End Positions.

(* ------------------------------------------------------------ loops *)
Lemma app_nil_iff {A} (a b : list A) : a ++ b = [] <-> a = [] /\ b = [].
Proof. split; [apply app_eq_nil|intros [-> ->]; reflexivity]. Qed.

Lemma loop_seen_nil {A} (name : A -> str) pre dup body :
  (forall x, dup x <> []) ->
  forall l seen,
    loop_seen name pre dup body seen l = [] <->
    (forall x, In x l -> pre x = [] /\ body x = [])
    /\ NoDup (map name l) /\ (forall x, In x l -> ~ In (name x) seen).
Proof.
  intros Hdup. induction l as [|a l IH]; intros seen; simpl.
  - split; [intros _|reflexivity]. split; [intros x []|]. split; [constructor|intros x []].
  - destruct (mem_str (name a) seen) eqn:E.
    + split.
      * intros H. apply app_eq_nil in H. destruct H as [_ H]. apply app_eq_nil in H.
        destruct H as [H _]. exfalso. exact (Hdup a H).
      * intros (_ & _ & H). exfalso. apply (H a (or_introl eq_refl)). apply mem_str_In; exact E.
    + assert (Hns : ~ In (name a) seen) by (intros Hc; apply mem_str_In in Hc; congruence).
      rewrite !app_nil_iff, IH. split.
      * intros (Hp & Hb & Hall & Hnd & Hs). split; [|split].
        -- intros x [<-|H]; [split; assumption|apply (Hall x H)].
        -- constructor; [|exact Hnd]. intros Hc. apply in_map_iff in Hc. destruct Hc as (x & Hx & Hin).
           apply (Hs x Hin). left. symmetry; exact Hx.
        -- intros x [<-|H]; [exact Hns|]. intros Hc. apply (Hs x H). right; exact Hc.
      * intros (Hall & Hnd & Hs). inversion Hnd as [|? ? Hni Hnd']; subst.
        destruct (Hall a (or_introl eq_refl)) as [Hp Hb].
        split; [exact Hp|]. split; [exact Hb|]. split; [|split].
        -- intros x H. apply (Hall x (or_intror H)).
        -- exact Hnd'.
        -- intros x H [Hc|Hc]; [apply Hni; rewrite Hc; apply in_map; exact H|exact (Hs x (or_intror H) Hc)].
Qed.

Lemma if_nil_true {A} (b : bool) (e : list A) : e <> [] -> ((if b then [] else e) = [] <-> b = true).
Proof. intros He. destruct b; split; try reflexivity; try discriminate. intros H; contradiction. Qed.

Lemma forall_In_Forall {A} (P : A -> Prop) l : (forall x, In x l -> P x) <-> Forall P l.
Proof. symmetry. apply Forall_forall. Qed.

Lemma nonempty_nil {A B} (l : list A) (e : B) :
  (match l with [] => [e] | _ => [] end) = [] <-> l <> [].
Proof. destruct l; split; try discriminate; try reflexivity; intros H; congruence. Qed.

Lemma no_seen {A} (name : A -> str) (l : list A) :
  (forall x, In x l -> ~ In (name x) (@nil str)) <-> True.
Proof. split; [trivial|intros _ x _ []]. Qed.

(* ------------------------------------------------------------ rule by rule *)
Section Rules.
  Variable s : schema.
  Let ts := s_types s.

  Lemma arg_loop_rule (dupf : arg_def -> list verr) (e : arg_def -> verr) args :
    (forall x, dupf x <> []) ->
    (loop_seen a_name (fun a => check_valid_name (a_name a)) dupf
               (fun a => if is_input_ty ts (a_type a) then [] else [e a]) [] args = []
     <-> args_ok s args).
  Proof.
    intros Hd. unfold args_ok. rewrite loop_seen_nil by exact Hd.
    rewrite no_seen, forall_In_Forall. split.
    - intros (Hf & Hnd & _). split; [exact Hnd|]. eapply Forall_impl; [|exact Hf]. intros a [H1 H2].
      split; [apply check_valid_name_nil; exact H1|].
      apply (is_input_spec s). apply if_nil_true in H2; [exact H2|discriminate].
    - intros (Hnd & Hf). split; [|split; [exact Hnd|exact I]]. eapply Forall_impl; [|exact Hf].
      intros a [H1 H2]. split; [apply check_valid_name_nil; exact H1|].
      apply if_nil_true; [discriminate|]. apply (is_input_spec s); exact H2.
  Qed.

  Lemma args_rule path args : validate_args ts path args = [] <-> args_ok s args.
  Proof. unfold validate_args. apply arg_loop_rule. intros x; discriminate. Qed.

  Lemma directives_rule : validate_directives ts (s_dirs s) = [] <-> directives_ok s.
  Proof.
    unfold validate_directives, directives_ok. split.
    - intros H. apply Forall_forall. intros d Hd.
      pose proof (flat_map_nil_inv _ _ H d Hd) as Hc. simpl in Hc. apply app_nil_iff in Hc.
      destruct Hc as [H1 H2]. split; [apply check_valid_name_nil; exact H1|].
      apply arg_loop_rule in H2; [exact H2|intros x; discriminate].
    - intros H. rewrite Forall_forall in H. apply flat_map_nil. intros d Hd.
      destruct (H d Hd) as [H1 H2]. apply app_nil_iff. split; [apply check_valid_name_nil; exact H1|].
      apply arg_loop_rule; [intros x; discriminate|exact H2].
  Qed.

  Lemma input_fields_rule tn fs : validate_input_fields ts tn fs = [] <-> input_fields_ok s fs.
  Proof.
    unfold validate_input_fields, input_fields_ok.
    rewrite app_nil_iff, nonempty_nil, loop_seen_nil by (intros x; discriminate).
    rewrite no_seen, forall_In_Forall. split.
    - intros (Hne & Hf & Hnd & _). split; [exact Hne|]. split; [exact Hnd|].
      eapply Forall_impl; [|exact Hf]. intros a [H1 H2].
      split; [apply check_valid_name_nil; exact H1|].
      apply (is_input_spec s). apply if_nil_true in H2; [exact H2|discriminate].
    - intros (Hne & Hnd & Hf). split; [exact Hne|]. split; [|split; [exact Hnd|exact I]].
      eapply Forall_impl; [|exact Hf]. intros a [H1 H2].
      split; [apply check_valid_name_nil; exact H1|].
      apply if_nil_true; [discriminate|]. apply (is_input_spec s); exact H2.
  Qed.

  Lemma enum_rule tn vs : validate_enum_values tn vs = [] <-> enum_ok vs.
  Proof.
    unfold validate_enum_values, enum_ok. rewrite app_nil_iff, nonempty_nil. split.
    - intros [Hne H]. split; [exact Hne|]. apply Forall_forall. intros v Hv.
      apply check_valid_name_nil. exact (flat_map_nil_inv _ _ H v Hv).
    - intros [Hne H]. split; [exact Hne|]. rewrite Forall_forall in H. apply flat_map_nil.
      intros v Hv. apply check_valid_name_nil. exact (H v Hv).
  Qed.

  Lemma union_go_nil tn : forall l seen,
    union_go ts tn seen l = [] <->
    (forall m, In m l -> is_object_name ts m = true) /\ NoDup l /\ (forall m, In m l -> ~ In m seen).
  Proof.
    induction l as [|m l IH]; intros seen; simpl.
    - split; [intros _|reflexivity]. split; [intros x []|]. split; [constructor|intros x []].
    - destruct (is_object_name ts m) eqn:Eo; simpl.
      + rewrite app_nil_iff, IH. destruct (mem_str m seen) eqn:Es.
        * split; [intros [H _]; discriminate|].
          intros (_ & _ & H). exfalso. apply (H m (or_introl eq_refl)). apply mem_str_In; exact Es.
        * assert (Hns : ~ In m seen) by (intros Hc; apply mem_str_In in Hc; congruence).
          split.
          -- intros (_ & Hall & Hnd & Hs). split; [|split].
             ++ intros x [<-|H]; [exact Eo|exact (Hall x H)].
             ++ constructor; [|exact Hnd]. intros Hc. apply (Hs m Hc). left; reflexivity.
             ++ intros x [<-|H]; [exact Hns|]. intros Hc. apply (Hs x H). right; exact Hc.
          -- intros (Hall & Hnd & Hs). inversion Hnd as [|? ? Hni Hnd']; subst.
             split; [reflexivity|]. split; [|split].
             ++ intros x H. exact (Hall x (or_intror H)).
             ++ exact Hnd'.
             ++ intros x H [Hc|Hc]; [subst; contradiction|exact (Hs x (or_intror H) Hc)].
      + split; [discriminate|]. intros (H & _). specialize (H m (or_introl eq_refl)). congruence.
  Qed.

  Lemma union_rule tn ms : validate_union_members ts tn ms = [] <-> union_ok s ms.
  Proof.
    unfold validate_union_members, union_ok. rewrite app_nil_iff, nonempty_nil, union_go_nil.
    split.
    - intros (Hne & Hall & Hnd & _). split; [exact Hne|]. split; [exact Hnd|].
      apply Forall_forall. intros m Hm. apply (is_object_spec s). exact (Hall m Hm).
    - intros (Hne & Hnd & Hall). rewrite Forall_forall in Hall. split; [exact Hne|]. split; [|split].
      + intros m Hm. apply (is_object_spec s). exact (Hall m Hm).
      + exact Hnd.
      + intros m _ [].
  Qed.

  Lemma roots_rule : validate_roots s = [] <-> roots_ok s.
  Proof.
    unfold validate_roots, roots_ok. fold ts. rewrite !app_nil_iff.
    destruct (s_query s) as [q|], (s_mutation s) as [m|], (s_subscription s) as [u|];
      repeat match goal with
      | |- context [is_object_name ts ?x] =>
          let E := fresh "E" in destruct (is_object_name ts x) eqn:E
      end;
      split; intros H;
      try (destruct H as (H1 & H2 & H3); discriminate);
      try (destruct H as ((q0 & Hq & _) & _); discriminate);
      try (destruct H as ((q0 & Hq & Hk) & Hm & Hs); exfalso;
           first [ inversion Hq; subst; apply (is_object_spec s) in Hk; fold ts in Hk; congruence
                 | specialize (Hm _ eq_refl); apply (is_object_spec s) in Hm; fold ts in Hm; congruence
                 | specialize (Hs _ eq_refl); apply (is_object_spec s) in Hs; fold ts in Hs; congruence ]);
      try (repeat split; reflexivity);
      try (split; [eexists; split; [reflexivity|apply (is_object_spec s); assumption]|];
           split; intros x Hx; inversion Hx; subst; apply (is_object_spec s); assumption).
  Qed.

  (* interfaces: the loop; the implementation check itself is the parameter *)
  Lemma ifaces_go_nil tn ofs : forall l seen,
    ifaces_go ts tn ofs seen l = [] <->
    (forall i, In i l -> exists it ifields, find_type ts i = Some it /\ t_body it = BInterface ifields
                                          /\ validate_implementation ts tn ofs i ifields = [])
    /\ NoDup l /\ (forall i, In i l -> ~ In i seen).
  Proof.
    induction l as [|i l IH]; intros seen; simpl.
    - split; [intros _|reflexivity]. split; [intros x []|]. split; [constructor|intros x []].
    - destruct (find_type ts i) as [it|] eqn:Ef.
      + destruct (t_body it) as [| |ifields| | |] eqn:Eb;
          try (split; [discriminate|intros (H & _); destruct (H i (or_introl eq_refl)) as (it' & fs' & He & Hb' & _);
                                    inversion He; subst; congruence]).
        destruct (mem_str i seen) eqn:Es.
        * split; [discriminate|]. intros (_ & _ & H). exfalso.
          apply (H i (or_introl eq_refl)). apply mem_str_In; exact Es.
        * assert (Hns : ~ In i seen) by (intros Hc; apply mem_str_In in Hc; congruence).
          rewrite app_nil_iff, IH. split.
          -- intros (Hv & Hall & Hnd & Hs). split; [|split].
             ++ intros x [<-|H]; [exists it, ifields; auto|exact (Hall x H)].
             ++ constructor; [|exact Hnd]. intros Hc. apply (Hs i Hc). left; reflexivity.
             ++ intros x [<-|H]; [exact Hns|]. intros Hc. apply (Hs x H). right; exact Hc.
          -- intros (Hall & Hnd & Hs). inversion Hnd as [|? ? Hni Hnd']; subst.
             destruct (Hall i (or_introl eq_refl)) as (it' & fs' & He & Hb' & Hv).
             assert (it' = it) by congruence. subst it'.
             assert (fs' = ifields) by congruence. subst fs'.
             split; [exact Hv|]. split; [|split].
             ++ intros x H. exact (Hall x (or_intror H)).
             ++ exact Hnd'.
             ++ intros x H [Hc|Hc]; [subst; contradiction|exact (Hs x (or_intror H) Hc)].
      + split; [discriminate|]. intros (H & _).
        destruct (H i (or_introl eq_refl)) as (it' & fs' & He & _). congruence.
  Qed.

  Definition impl_by_model (ofs ifs : list field_def) : Prop :=
    forall tn i, validate_implementation ts tn ofs i ifs = [].

  Lemma validate_implementation_labels tn i tn' i' ofs ifs :
    validate_implementation ts tn ofs i ifs = [] -> validate_implementation ts tn' ofs i' ifs = [].
  Proof.
    unfold validate_implementation. intros H. apply flat_map_nil. intros f Hf.
    pose proof (flat_map_nil_inv _ _ H f Hf) as Hc. simpl in Hc.
    destruct (find_last _ ofs) as [g|]; [|discriminate].
    destruct (negb (is_subtype_model ts (f_type g) (f_type f))); [discriminate|].
    apply app_nil_iff in Hc. destruct Hc as [H1 H2]. apply app_nil_iff. split.
    - apply flat_map_nil. intros a Ha. pose proof (flat_map_nil_inv _ _ H1 a Ha) as Hc. simpl in Hc.
      destruct (find_last _ (f_args g)) as [b|]; [|discriminate].
      destruct (ty_eqb (a_type a) (a_type b)); [reflexivity|discriminate].
    - apply flat_map_nil. intros b Hb. pose proof (flat_map_nil_inv _ _ H2 b Hb) as Hc. simpl in Hc.
      destruct (find_last _ (f_args f)); [reflexivity|].
      destruct (is_non_null (a_type b)); [discriminate|reflexivity].
  Qed.

  Lemma interfaces_rule tn ofs ifaces :
    validate_interfaces ts tn ofs ifaces = [] <-> implements_ok_with s impl_by_model ofs ifaces.
  Proof.
    unfold validate_interfaces, implements_ok_with. rewrite ifaces_go_nil. fold ts. split.
    - intros (Hall & Hnd & _). split; [exact Hnd|]. apply Forall_forall. intros i Hi.
      destruct (Hall i Hi) as (it & ifs & He & Hb & Hv). exists it, ifs. repeat split; try assumption.
      intros tn' i'. eapply validate_implementation_labels; exact Hv.
    - intros (Hnd & Hall). rewrite Forall_forall in Hall. split; [|split; [exact Hnd|intros i _ []]].
      intros i Hi. destruct (Hall i Hi) as (it & ifs & He & Hb & Hv). exists it, ifs. auto.
  Qed.

  (* fields, with the resolver the executor would pick *)
  Lemma fields_rule tn tdr fields :
    (forall f, In f fields -> forall sg, resolver_of s tdr f = Some sg ->
               NoDup (map p_name sg) /\ NoDup (map a_pyname (f_args f))) ->
    (validate_fields s tn tdr fields = [] <-> fields_ok s fields /\ resolvers_ok s tdr fields).
  Proof.
    intros Hsig. unfold validate_fields, fields_ok, resolvers_ok.
    rewrite app_nil_iff, nonempty_nil, loop_seen_nil by (intros x; discriminate).
    rewrite no_seen, forall_In_Forall.
    assert (Hres : forall f, or_else (f_resolver f) (or_else tdr (s_default_resolver s)) = resolver_of s tdr f).
    { intros f. unfold or_else, resolver_of. destruct (f_resolver f), tdr; reflexivity. }
    split.
    - intros (Hne & Hf & Hnd & _). rewrite Forall_forall in Hf. split.
      + split; [exact Hne|]. split; [exact Hnd|]. apply Forall_forall. intros f Hin.
        destruct (Hf f Hin) as [H1 H2]. apply app_nil_iff in H2. destruct H2 as [H2 H3].
        apply app_nil_iff in H3. destruct H3 as [H3 _].
        split; [apply check_valid_name_nil; exact H1|]. split.
        * apply (is_output_spec s). apply if_nil_true in H2; [exact H2|discriminate].
        * apply (args_rule [tn; f_name f]). exact H3.
      + apply Forall_forall. intros f Hin. destruct (Hf f Hin) as [_ H2].
        apply app_nil_iff in H2. destruct H2 as [_ H3]. apply app_nil_iff in H3. destruct H3 as [_ H4].
        rewrite Hres in H4. destruct (resolver_of s tdr f) as [sg|] eqn:Er; [|exact I].
        destruct (Hsig f Hin sg Er) as [N1 N2].
        apply (signature_iff [tn; f_name f] sg (f_args f) N1 N2). exact H4.
    - intros ((Hne & Hnd & Hf) & Hr). rewrite Forall_forall in Hf, Hr.
      split; [exact Hne|]. split; [|split; [exact Hnd|exact I]].
      apply Forall_forall. intros f Hin. destruct (Hf f Hin) as (H1 & H2 & H3).
      split; [apply check_valid_name_nil; exact H1|].
      apply app_nil_iff. split; [apply if_nil_true; [discriminate|apply (is_output_spec s); exact H2]|].
      apply app_nil_iff. split; [apply (args_rule [tn; f_name f]); exact H3|].
      rewrite Hres. specialize (Hr f Hin). destruct (resolver_of s tdr f) as [sg|] eqn:Er; [|reflexivity].
      destruct (Hsig f Hin sg Er) as [N1 N2].
      apply (signature_iff [tn; f_name f] sg (f_args f) N1 N2). exact Hr.
  Qed.
End Rules.

(* ------------------------------------------------------------ assembling *)
(* what inspect.signature and the kwargs dict guarantee: parameter names are
   unique within a signature, python names of a field's arguments are unique *)
Definition sigs_wf (s : schema) : Prop :=
  forall t, In t (s_types s) ->
    forall tdr fields,
      (exists ifaces, t_body t = BObject ifaces fields tdr) \/ (t_body t = BInterface fields /\ tdr = None) ->
      forall f, In f fields -> forall sg, resolver_of s tdr f = Some sg ->
        NoDup (map p_name sg) /\ NoDup (map a_pyname (f_args f)).

Lemma type_rule s t :
  (forall tdr fields,
      (exists ifaces, t_body t = BObject ifaces fields tdr) \/ (t_body t = BInterface fields /\ tdr = None) ->
      forall f, In f fields -> forall sg, resolver_of s tdr f = Some sg ->
        NoDup (map p_name sg) /\ NoDup (map a_pyname (f_args f))) ->
  (validate_type s t = [] <-> type_ok_with s (impl_by_model s) t).
Proof.
  intros Hsig. unfold validate_type, type_ok_with.
  destruct (t_intro t) eqn:Ei; [|destruct (t_spec t) eqn:Es; [|destruct (valid_name (t_name t)) eqn:Ev]];
    simpl.
  4: { split; [discriminate|]. intros [[H|[H|H]] _]; try discriminate.
       apply valid_name_spec in H. congruence. }
  all: assert (Hn : true = true \/ true = true \/ name_ok (t_name t) -> True) by trivial.
  all: destruct (t_body t) as [|ifaces fields dr|fields|ms|vs|fs] eqn:Eb.
  all: try (split; [intros _; split; [first [left; reflexivity|right; left; reflexivity|right; right; apply valid_name_spec; exact Ev]|exact I]|reflexivity]).
  all: try rewrite app_nil_iff.
  all: try rewrite (fields_rule s (t_name t) dr fields) by (intros f Hf sg Hr; apply (Hsig dr fields); eauto).
  all: try rewrite (fields_rule s (t_name t) None fields) by (intros f Hf sg Hr; apply (Hsig None fields); auto).
  all: try rewrite interfaces_rule.
  all: try rewrite union_rule.
  all: try rewrite enum_rule.
  all: try rewrite input_fields_rule.
  all: split; [intros H; split; [first [left; reflexivity|right; left; reflexivity|right; right; apply valid_name_spec; exact Ev]|tauto]|intros [_ H]; tauto].
Qed.

Theorem verdict_upto_implementation s :
  sigs_wf s -> (validate_model s = [] <-> schema_ok_with s (impl_by_model s)).
Proof.
  intros Hw. unfold validate_model, schema_ok_with.
  rewrite !app_nil_iff, roots_rule, directives_rule.
  assert (Ht : flat_map (validate_type s) (s_types s) = [] <->
               Forall (type_ok_with s (impl_by_model s)) (s_types s)).
  { rewrite Forall_forall. split.
    - intros H t Hin. apply type_rule; [intros; eapply Hw; eauto|]. exact (flat_map_nil_inv _ _ H t Hin).
    - intros H. apply flat_map_nil. intros t Hin. apply type_rule; [intros; eapply Hw; eauto|]. exact (H t Hin). }
  rewrite Ht. tauto.
Qed.

(* ------------------------------------------------------------ violations are reported together *)
Lemma type_errors_reported s t e :
  In t (s_types s) -> In e (validate_type s t) -> In e (validate_model s).
Proof.
  intros Hin He. unfold validate_model. apply in_or_app; right. apply in_or_app; left.
  apply in_flat_map. exists t. auto.
Qed.

Lemma loop_pre_reported {A} (name : A -> str) pre dup body e x :
  forall l seen, In x l -> In e (pre x) -> In e (loop_seen name pre dup body seen l).
Proof.
  induction l as [|a l IH]; intros seen Hin He; [destruct Hin|]. simpl.
  destruct Hin as [->|Hin]; [apply in_or_app; left; exact He|].
  apply in_or_app; right.
  destruct (mem_str (name a) seen); apply in_or_app; right; apply IH; assumption.
Qed.

(* a bad field name is reported whatever else is wrong with the type *)
Lemma bad_field_name_reported s tn dr fields f :
  In f fields -> ~ name_ok (f_name f) ->
  In (err LInvalidName [f_name f]) (validate_fields s tn dr fields).
Proof.
  intros Hin Hn. unfold validate_fields. apply in_or_app; right.
  apply (loop_pre_reported f_name _ _ _ _ f); [exact Hin|].
  unfold check_valid_name. destruct (valid_name (f_name f)) eqn:E; [|left; reflexivity].
  apply valid_name_spec in E. contradiction.
Qed.

(* ------------------------------------------------------------ interface implementation *)
Section FindLast.
  Context {A : Type}.
  Variable name : A -> str.

  Lemma find_last_some (p : A -> bool) l x : find_last p l = Some x -> In x l /\ p x = true.
  Proof.
    induction l as [|a l IH]; simpl; [discriminate|].
    destruct (find_last p l) as [y|] eqn:E.
    - intros H; inversion H; subst. destruct (IH eq_refl); auto.
    - destruct (p a) eqn:Ep; [|discriminate]. intros H; inversion H; subst. auto.
  Qed.

  Lemma find_last_none (p : A -> bool) l : find_last p l = None -> forall x, In x l -> p x = false.
  Proof.
    induction l as [|a l IH]; simpl; [intros _ x []|].
    destruct (find_last p l) as [y|] eqn:E; [discriminate|].
    destruct (p a) eqn:Ep; [discriminate|]. intros _ x [<-|H]; [exact Ep|apply IH; auto].
  Qed.

  Lemma find_last_unique l x :
    NoDup (map name l) -> In x l -> find_last (fun y => str_eqb (name x) (name y)) l = Some x.
  Proof.
    intros Hnd Hin.
    destruct (find_last (fun y => str_eqb (name x) (name y)) l) as [y|] eqn:E.
    - apply find_last_some in E. destruct E as [Hy He]. apply str_eqb_eq in He.
      f_equal. revert Hnd Hin Hy He. clear. induction l as [|a l IH]; simpl; intros Hnd Hx Hy He; [tauto|].
      inversion Hnd as [|? ? Hni Hnd']; subst.
      destruct Hx as [->|Hx], Hy as [->|Hy]; auto.
      + exfalso. apply Hni. rewrite He. apply in_map; exact Hy.
      + exfalso. apply Hni. rewrite <- He. apply in_map; exact Hx.
    - pose proof (find_last_none _ _ E x Hin) as H. simpl in H. rewrite str_eqb_refl in H. discriminate.
  Qed.
End FindLast.

Section Implementation.
  Variable s : schema.
  Let ts := s_types s.

  Lemma implementation_rule ofs ifs :
    NoDup (map f_name ofs) ->
    (forall g, In g ofs -> NoDup (map a_name (f_args g)) /\ wf_ty (f_type g)) ->
    (impl_by_model s ofs ifs <-> implementation_ok s ofs ifs).
  Proof.
    intros Hnd Hg. unfold impl_by_model, implementation_ok. fold ts. split.
    - intros H. specialize (H [] []). apply Forall_forall. intros f Hf.
      pose proof (flat_map_nil_inv _ _ H f Hf) as Hc. simpl in Hc.
      destruct (find_last _ ofs) as [g|] eqn:Eg; [|discriminate].
      apply find_last_some in Eg. destruct Eg as [Hgin Hgn]. apply str_eqb_eq in Hgn.
      destruct (is_subtype_model ts (f_type g) (f_type f)) eqn:Est; [|discriminate]. simpl in Hc.
      apply app_nil_iff in Hc. destruct Hc as [H1 H2].
      exists g. split; [exact Hgin|]. split; [symmetry; exact Hgn|]. split.
      { apply subtype_iff; [apply (Hg g Hgin)|exact Est]. }
      split; apply Forall_forall.
      + intros a Ha. pose proof (flat_map_nil_inv _ _ H1 a Ha) as Hc. simpl in Hc.
        destruct (find_last _ (f_args g)) as [b|] eqn:Eb; [|discriminate].
        apply find_last_some in Eb. destruct Eb as [Hb Hbn]. apply str_eqb_eq in Hbn.
        destruct (ty_eqb (a_type a) (a_type b)) eqn:Et; [|discriminate]. apply ty_eqb_eq in Et.
        exists b. auto.
      + intros b Hb. pose proof (flat_map_nil_inv _ _ H2 b Hb) as Hc. simpl in Hc.
        destruct (find_last _ (f_args f)) as [a|] eqn:Ea.
        * apply find_last_some in Ea. destruct Ea as [Ha Han]. apply str_eqb_eq in Han.
          left. exists a. auto.
        * right. destruct (is_non_null (a_type b)); [discriminate|reflexivity].
    - intros H tn i. rewrite Forall_forall in H. unfold validate_implementation. apply flat_map_nil.
      intros f Hf. destruct (H f Hf) as (g & Hgin & Hgn & Hst & Ha & Hb).
      rewrite <- Hgn, (find_last_unique f_name ofs g Hnd Hgin).
      destruct (Hg g Hgin) as [Hga Hgw].
      apply (subtype_iff ts _ _ Hgw) in Hst. rewrite Hst. simpl.
      rewrite Forall_forall in Ha, Hb. apply app_nil_iff. split; apply flat_map_nil.
      + intros a Hain. destruct (Ha a Hain) as (b & Hbin & Hbn & Hbt).
        rewrite <- Hbn, (find_last_unique a_name (f_args g) b Hga Hbin), Hbt, ty_eqb_refl. reflexivity.
      + intros b Hbin. destruct (find_last _ (f_args f)) as [a|] eqn:Ea; [reflexivity|].
        destruct (Hb b Hbin) as [(a & Hain & Han)|Hnn]; [|rewrite Hnn; reflexivity].
        pose proof (find_last_none _ _ Ea a Hain) as Hc. simpl in Hc. rewrite Han, str_eqb_refl in Hc.
        discriminate.
  Qed.
End Implementation.

(* py_gql cannot build a doubly non-null type *)
Definition types_wf (s : schema) : Prop :=
  forall t ifaces fields dr, In t (s_types s) -> t_body t = BObject ifaces fields dr ->
    forall g, In g fields -> wf_ty (f_type g).

Lemma args_ok_nodup s args : args_ok s args -> NoDup (map a_name args).
Proof. intros [H _]; exact H. Qed.

Lemma type_ok_with_iff s t :
  (forall ifaces fields dr, t_body t = BObject ifaces fields dr -> forall g, In g fields -> wf_ty (f_type g)) ->
  (type_ok_with s (impl_by_model s) t <-> type_ok_with s (implementation_ok s) t).
Proof.
  intros Hw. unfold type_ok_with. destruct (t_body t) as [|ifaces fields dr| | | |] eqn:Eb; try tauto.
  assert (Hi : fields_ok s fields ->
               (implements_ok_with s (impl_by_model s) fields ifaces <->
                implements_ok_with s (implementation_ok s) fields ifaces)).
  { intros (Hne & Hnd & Hf). rewrite Forall_forall in Hf. unfold implements_ok_with.
    assert (Hr : forall ifs, impl_by_model s fields ifs <-> implementation_ok s fields ifs).
    { intros ifs. apply implementation_rule; [exact Hnd|]. intros g Hg.
      split; [apply (args_ok_nodup s); apply (Hf g Hg)|apply (Hw ifaces fields dr eq_refl g Hg)]. }
    split; intros [H1 H2]; (split; [exact H1|]); rewrite Forall_forall in *; intros i Hin;
      destruct (H2 i Hin) as (it & ifs & He & Hb & Hp); exists it, ifs; repeat split; try assumption;
      apply Hr; exact Hp. }
  tauto.
Qed.

Theorem verdict_full s :
  sigs_wf s -> types_wf s -> (validate_model s = [] <-> schema_ok s).
Proof.
  intros Hs Hw. rewrite (verdict_upto_implementation s Hs). unfold schema_ok, schema_ok_with.
  assert (Ht : Forall (type_ok_with s (impl_by_model s)) (s_types s) <->
               Forall (type_ok_with s (implementation_ok s)) (s_types s)).
  { rewrite !Forall_forall. split; intros H t Hin; apply (type_ok_with_iff s t);
      try (intros ifaces fields dr Eb g Hg; exact (Hw t ifaces fields dr Hin Eb g Hg)); exact (H t Hin). }
  rewrite Ht. tauto.
Qed.
