(* The field collector's directive handling (Exec/Collect.v, shared by the
   C19 / C04 models) is a hand-specialisation of directive argument coercion
   for the single argument `if: Boolean!` of @skip / @include. This file shows
   that it IS C07's general model: [Collect.dir_if] = [directive_arguments]
   instantiated at the directive definition [if_arg], for every directive
   list and variable assignment; hence [Collect.skip_selection] =
   [skip_selection_args]. Read-only use of Exec/Collect.v. *)
From PyGql Require Import Exec.Collect Spec.CoerceSpec Proofs.CoerceProofs.

Local Open Scope string_scope.

Lemma find_dir_is_find_directive dname ds : find_dir dname ds = find_directive dname ds.
Proof. induction ds as [|d ds IH]; simpl; [reflexivity|]. rewrite IH. reflexivity. Qed.

Lemma str_eqb_sym a b : str_eqb a b = str_eqb b a.
Proof.
  destruct (str_eqb_spec a b) as [->|Hn].
  - symmetry. apply str_eqb_refl.
  - symmetry. apply str_eqb_neq. congruence.
Qed.

Lemma alookup_app {A} k (l1 l2 : list (str * A)) :
  alookup k (l1 ++ l2) = match alookup k l1 with Some v => Some v | None => alookup k l2 end.
Proof.
  induction l1 as [|[k0 v0] l1 IH]; simpl; [reflexivity|].
  destruct (str_eqb k k0); [reflexivity|assumption].
Qed.

(* {a.name.value: a for a in node.arguments}[k]: both models take the last *)
Lemma arg_lookup_is_find_arg_last call k :
  arg_lookup call k = option_map a_val (find_arg_last k call).
Proof.
  unfold arg_lookup, alookup_last. induction call as [|a call IH]; simpl; [reflexivity|].
  rewrite alookup_app, IH. destruct (find_arg_last k call) as [a'|]; simpl; [reflexivity|].
  rewrite (str_eqb_sym k). destruct (str_eqb (n_val (a_name a)) k); reflexivity.
Qed.

Section DirIf.
  Variable s : schema.
  Hypothesis HBool : alookup (str_of_string "Boolean") s = Some (TDScalar KBoolean).

  Lemma vfa_boolean_nn vs l :
    plain_value l = true ->
    value_from_ast s vs l (INamed true (str_of_string "Boolean"))
    = match l with VBool b _ => Ok (PBool b) | _ => rejI end.
  Proof.
    intros Hp. rewrite vfa_named_eq by assumption. unfold vfa_named. rewrite HBool.
    destruct l; simpl in *; try discriminate; reflexivity.
  Qed.

  (* one `if` argument: what coerce_argument_values does with it *)
  Lemma cav_if call vs :
    coerce_argument_values s [if_arg] call vs
    = match find_arg_last str_if call with
      | None => rejC
      | Some a =>
          match a_val a with
          | VVar n _ => match alookup (n_val n) vs with
                        | Some PNone => rejC
                        | Some v => Ok [(str_if, v)]
                        | None => rejC
                        end
          | VBool b _ => Ok [(str_if, PBool b)]
          | _ => rejC
          end
      end.
  Proof.
    unfold coerce_argument_values, arg_bindings, arg_binding.
    change (f_name if_arg) with str_if. rewrite arg_lookup_is_find_arg_last.
    destruct (find_arg_last str_if call) as [a|]; simpl; [|reflexivity].
    change (f_ty if_arg) with (INamed true (str_of_string "Boolean")).
    destruct (a_val a) as [n lc|x lc|x lc|x b lc|b lc|lc|x lc|xs lc|fs lc] eqn:Ea;
      try (rewrite vfa_boolean_nn by reflexivity; reflexivity).
    - destruct (alookup (n_val n) vs) as [v|]; [|reflexivity].
      destruct v; reflexivity.
    - rewrite vfa_null. reflexivity.
  Qed.

  Theorem dir_if_is_directive_arguments dname ds vs :
    dir_if dname ds vs
    = match directive_arguments s [if_arg] dname ds vs with
      | Ok None => Ok None
      | Ok (Some kw) => match alookup str_if kw with Some v => Ok (Some v) | None => Crash 3 end
      | OutOfFuel => OutOfFuel
      | Rejected k p => Rejected k p
      | Crash c => Crash c
      end.
  Proof.
    unfold dir_if, directive_arguments. rewrite find_dir_is_find_directive.
    destruct (find_directive dname ds) as [d|]; [|reflexivity].
    rewrite cav_if. change s_if with str_if.
    destruct (find_arg_last str_if (d_args d)) as [a|]; [|reflexivity].
    destruct (a_val a) as [n lc|x lc|x lc|x b lc|b lc|lc|x lc|xs lc|fs lc]; try reflexivity.
    destruct (alookup (n_val n) vs) as [v|]; [|reflexivity]. destruct v; reflexivity.
  Qed.

  Lemma directive_arguments_if_shape dname ds vs kw :
    directive_arguments s [if_arg] dname ds vs = Ok (Some kw) -> exists v, kw = [(str_if, v)].
  Proof.
    unfold directive_arguments. destruct (find_directive dname ds) as [d|]; [|discriminate].
    rewrite cav_if. destruct (find_arg_last str_if (d_args d)) as [a|]; [|discriminate].
    destruct (a_val a) as [n lc|x lc|x lc|x b lc|b lc|lc|x lc|xs lc|fs lc]; try discriminate.
    - destruct (alookup (n_val n) vs) as [v|]; [|discriminate].
      destruct v; try discriminate; intros H; inversion H; eauto.
    - intros H; inversion H; eauto.
  Qed.

  Lemma alookup_if_single (v : pv) : alookup str_if [(str_if, v)] = Some v.
  Proof. reflexivity. Qed.

  Theorem skip_selection_is_skip_selection_args ds vs :
    skip_selection ds vs = skip_selection_args s ds vs.
  Proof.
    unfold skip_selection, skip_selection_args, obind.
    change s_skip with (str_of_string "skip"). change s_include with (str_of_string "include").
    rewrite !dir_if_is_directive_arguments.
    destruct (directive_arguments s [if_arg] (str_of_string "skip") ds vs) as [[kw|]| |k p|c] eqn:Es;
      try reflexivity.
    - destruct (directive_arguments_if_shape _ _ _ _ Es) as (v & ->).
      unfold if_value. rewrite alookup_if_single.
      destruct (directive_arguments s [if_arg] (str_of_string "include") ds vs) as [[kw'|]| |k p|c] eqn:Ei;
        try reflexivity.
      destruct (directive_arguments_if_shape _ _ _ _ Ei) as (v' & ->).
      rewrite alookup_if_single. reflexivity.
    - destruct (directive_arguments s [if_arg] (str_of_string "include") ds vs) as [[kw'|]| |k p|c] eqn:Ei;
        try reflexivity.
      destruct (directive_arguments_if_shape _ _ _ _ Ei) as (v' & ->).
      unfold if_value. rewrite alookup_if_single. reflexivity.
  Qed.
End DirIf.
