(* C14 -- proofs about the store model, part 18: the observable dump of a clone
   is the observable dump of its source.  The element-wise correspondence of
   part 10 (clone_preserved) and the closedness of both schemas give the
   alignment of part 17 (observe_sim) in the heap after the clone; the frame
   property gives that the source's own dump did not change. *)
From PyGql Require Import Spec.StoreExtSpec Proofs.StoreProofs Proofs.StoreHeal Proofs.StoreLoop
     Proofs.StoreFrame Proofs.StoreClone Proofs.StoreOps Proofs.StoreTerm Proofs.StoreObserve
     Proofs.StoreExtendP Proofs.StoreExtPres Proofs.StoreVis Proofs.StoreVisM Proofs.StoreCloneP Proofs.StoreSim.
Local Open Scope N_scope.

(* two association lists with the same keys in the same order, related key by key *)
Lemma aligned_F2 {A} (R : str * A -> str * A -> Prop) : forall (l l' : list (str * A)),
  NoDup (map fst l) -> map fst l' = map fst l ->
  (forall n o, In (n, o) l -> exists o', alookup n l' = Some o' /\ R (n, o) (n, o')) ->
  Forall2 R l l'.
Proof.
  induction l as [|[n o] l IH]; intros [|[n' o'] l'] Hnd Hk H; simpl in Hk; try discriminate; [constructor|].
  inversion Hk as [[Hn Hk']]. subst n'. inversion Hnd as [|? ? Hnin Hnd']; subst.
  constructor.
  - destruct (H n o (or_introl eq_refl)) as (o2 & Hl & Hr). simpl in Hl. rewrite str_eqb_refl in Hl. inversion Hl; subst. exact Hr.
  - apply IH; [assumption|assumption|]. intros n1 o1 Hin. destruct (H n1 o1 (or_intror Hin)) as (o2 & Hl & Hr).
    exists o2. split; [|exact Hr]. simpl in Hl. destruct (str_eqb_spec n1 n) as [->|]; [|exact Hl].
    exfalso. apply Hnin. apply in_map_iff. exists (n, o1). auto.
Qed.

Lemma F2_lookup {A} (R : str * A -> str * A -> Prop) (l l' : list (str * A)) n o :
  Forall2 R l l' -> (forall e e', R e e' -> fst e' = fst e) -> alookup n l = Some o ->
  exists o', alookup n l' = Some o' /\ R (n, o) (n, o').
Proof.
  intros H Hk. induction H as [|[k v] [k' v'] l l' Hr Hl IH]; simpl; [discriminate|].
  pose proof (Hk _ _ Hr) as E. simpl in E. subst k'. destruct (str_eqb_spec n k) as [->|]; [|exact IH].
  intros E. inversion E; subst. exists v'. auto.
Qed.

Lemma F2_and {A B} (P Q : A -> B -> Prop) l l' :
  Forall2 P l l' -> Forall2 Q l l' -> Forall2 (fun a b => P a b /\ Q a b) l l'.
Proof.
  intros H. induction H as [|a b l l' Hab Hl IH]; intros H2; [constructor|].
  inversion H2; subst. constructor; [split; assumption|auto].
Qed.

Lemma Forall2_in_both {A B} (R : A -> B -> Prop) l l' :
  Forall2 R l l' -> Forall2 (fun a b => In a l /\ In b l' /\ R a b) l l'.
Proof.
  induction 1 as [|a b l l' Hab Hl IH]; constructor.
  - split; [left; reflexivity|split; [left; reflexivity|assumption]].
  - eapply Forall2_impl; [|exact IH]. intros x y (A1 & B1 & C1). split; [right; assumption|split; [right; assumption|assumption]].
Qed.

Section CloneSim.
Variable M : mem.
Variables tm tm' : list (str * oid).

Lemma link_rsim ty ty' :
  (ty' = ty \/ rkept tm' M ty ty') -> reg M tm (unwrap ty) -> reg M tm' (unwrap ty') -> rsim M tm tm' ty ty'.
Proof.
  intros [->|(_ & W & Sn)] R1 R2.
  - split; [reflexivity|]. split; [|split; assumption]. destruct R1 as (nm & A & _). exists nm. auto.
  - split; [exact W|]. split; [exact Sn|split; assumption].
Qed.

(* a copied leaf (argument / input field) *)
Lemma copy_isim a a' :
  xcopy M a a' -> olink tm' M a a' ->
  (forall ia n py ty df d ds, mget M a = Some (OInput ia n py ty df d ds) -> reg M tm (unwrap ty)) ->
  (forall ia n py ty df d ds, mget M a' = Some (OInput ia n py ty df d ds) -> reg M tm' (unwrap ty)) ->
  (exists ia n py ty df d ds, mget M a = Some (OInput ia n py ty df d ds)) ->
  isim M tm tm' a a'.
Proof.
  intros (v & v' & Hv & Hv' & Hac) (w & w' & Hw & Hw' & Hl) R1 R2 (ia & n & py & ty & df & d & ds & Hg).
  rewrite Hv in Hw. inversion Hw; subst w. rewrite Hv' in Hw'. inversion Hw'; subst w'.
  rewrite Hg in Hv. inversion Hv; subst v. destruct v' as [| |ia' n' py' ty' df' d' ds'| |]; simpl in Hac; try contradiction.
  destruct Hac as (-> & -> & -> & -> & -> & ->). simpl in Hl.
  exists ia, n, py, ty, df, d, ds, ia, ty'. split; [assumption|]. split; [assumption|].
  apply link_rsim; [exact Hl|eapply R1; eauto|eapply R2; eauto].
Qed.

End CloneSim.

Lemma fold_left_ext_in {A B} (f g : A -> B -> A) l : forall acc,
  (forall a e, In e l -> f a e = g a e) -> fold_left f l acc = fold_left g l acc.
Proof.
  induction l as [|e l IH]; intros acc H; simpl; [reflexivity|].
  rewrite (H acc e (or_introl eq_refl)). apply IH. intros a e0 He0. apply H. right; exact He0.
Qed.

(* the observable dump of a clone is that of its source *)
Theorem clone_observe_equal fuel m s m' s' :
  fresh_ok m -> builtins_ok m -> closed m s -> wf_schema m s -> wf_builtins s ->
  (exists n o, In (n, o) (s_types s) /\ is_builtin o = false) ->
  (* the registry is in the order Schema(...) produces from its own types *)
  (forall s0, build fuel m (s_query s) (s_mut s) (s_sub s) (map snd (s_dirs s)) (map snd (s_types s)) = Ok s0 ->
     map fst (s_types s0) = map fst (s_types s)) ->
  (* the derived indexes of the source are up to date *)
  s_impls s = fold_left (impls_of_type m) (s_types s) [] -> poss_ok m s ->
  (* only object types have interfaces, only unions member types *)
  (forall n t k d ms ifs r ds, In (n, t) (s_types s) -> is_builtin t = false ->
     mget m t = Some (OType n k d ms ifs r ds) -> k <> Kobject -> k <> Kunion -> ifs = []) ->
  (* input objects hold input fields, enums enum values; arguments are arguments *)
  (forall n t k d ms ifs r ds x, In (n, t) (s_types s) -> is_builtin t = false ->
     mget m t = Some (OType n k d ms ifs r ds) -> In x ms ->
     match k with
     | Kinput => exists ia nn py ty df dd dss, mget m x = Some (OInput ia nn py ty df dd dss)
     | Kenum => exists nn v dd dp dss, mget m x = Some (OEnumV nn v dd dp dss)
     | Kobject | Kinterface =>
         forall a, In a (args_of m x) -> exists ia nn py ty df dd dss, mget m a = Some (OInput ia nn py ty df dd dss)
     | _ => True
     end) ->
  (forall n d a, In (n, d) (s_dirs s) -> In a (dir_args m d) ->
     exists ia nn py ty df dd dss, mget m a = Some (OInput ia nn py ty df dd dss)) ->
  Forall (fun o => mget m o <> None) (footprint m (touch_poss m s)) ->
  clone fuel m s = Ok (m', s') ->
  observe m' (touch_poss m' s') = observe m (touch_poss m s).
Proof.
  intros Hf Hb Hcl Hwf Hbi Hne Hstable Himpls Hposs Hifs Hsorted Hdsorted Hfoot H.
  destruct (clone_owned _ _ _ _ _ Hf Hb Hcl Hwf Hbi H) as (Fown & _).
  destruct (clone_preserved _ _ _ _ _ Hf Hb Hcl Hwf Hbi H) as ((Hf' & Hwf' & Hback & _) & Hfw & Hfd & Hst).
  destruct (Hst Hne) as (Hcl' & Hkeys & Hdkeys & Hq & Hmu & Hsu & Himpls' & Hposs').
  assert (Hex : forall x v, mget m x = Some v -> mget m' x = Some v).
  { intros x v Hx. rewrite (fr_frame _ _ _ Fown); [exact Hx|].
    destruct (N.lt_ge_cases x (m_next m)) as [Hlt|Hge]; [assumption|]. rewrite (Hf x Hge) in Hx. discriminate. }
  assert (Htn : forall o n, tname m o = Some n -> tname m' o = Some n).
  { intros o n. unfold tname. destruct (mget m o) as [v|] eqn:Hv; [|discriminate]. rewrite (Hex _ _ Hv). auto. }
  assert (Hreg : forall o, reg m (s_types s) o -> reg m' (s_types s) o).
  { intros o (nm & A & B). exists nm. split; [apply Htn; assumption|assumption]. }
  (* the source's own dump is unchanged *)
  transitivity (observe m' (touch_poss m' s)).
  2:{ eapply frame_observe; [exact Hf|reflexivity| |exact Hfoot]. intros o Ho. apply (fr_frame _ _ _ Fown). exact Ho. }
  (* the clone against the source, both in the final heap *)
  set (tm := s_types s) in *. set (tm' := s_types s') in *.
  assert (Hb' : builtins_ok m') by (intros n b Hnb; apply Hex; apply Hb; exact Hnb).
  assert (Hbuilt : exists s0, build fuel m (s_query s) (s_mut s) (s_sub s) (map snd (s_dirs s)) (map snd (s_types s)) = Ok s0).
  { unfold clone in H. destruct (build fuel m (s_query s) (s_mut s) (s_sub s) (map snd (s_dirs s)) (map snd (s_types s))) as [s0| | |];
      simpl in H; try discriminate. eauto. }
  destruct Hbuilt as (s0 & Hb0).
  assert (Hkeq : map fst tm' = map fst tm).
  { unfold tm', tm. transitivity (map fst (s_types s0)); [exact (Hkeys s0 Hb0)|exact (Hstable s0 Hb0)]. }
  (* closedness of both sides, member by member *)
  assert (Htok : forall n t, In (n, t) tm -> is_builtin t = false -> Forall (reg m' tm) (children m' t)).
  { intros n t Hin Hbt. pose proof (cl_types _ _ Hcl) as Hty. rewrite Forall_forall in Hty. specialize (Hty _ Hin Hbt).
    unfold type_ok in Hty. simpl in Hty.
    assert (Hch : children m' t = children m t).
    { pose proof (wf_typed _ _ Hwf _ _ Hin Hbt) as Htt. unfold type_typed in Htt. unfold children.
      destruct (mget m t) as [v|] eqn:Hv; [|contradiction]. rewrite (Hex _ _ Hv).
      destruct v as [n1 k d ms ifs r ds| | | |]; try contradiction.
      assert (Hmt : forall a, leaf m a -> member_type m' a = member_type m a).
      { intros a Ha. unfold leaf in Ha. unfold member_type. destruct (mget m a) as [w|] eqn:Hw; [|contradiction]. rewrite (Hex _ _ Hw). reflexivity. }
      assert (Hfc : forall f, field_typed m f -> field_children m' f = field_children m f).
      { intros f Hft. unfold field_typed in Hft. unfold field_children. destruct (mget m f) as [w|] eqn:Hw; [|contradiction].
        rewrite (Hex _ _ Hw). destruct w; try contradiction. f_equal. apply flat_map_ext_in. intros a Ha.
        rewrite Forall_forall in Hft. apply Hmt. apply Hft. exact Ha. }
      destruct k; try reflexivity.
      - f_equal. apply flat_map_ext_in. intros f Hfin. rewrite Forall_forall in Htt. apply Hfc. apply Htt. exact Hfin.
      - apply flat_map_ext_in. intros f Hfin. rewrite Forall_forall in Htt. apply Hfc. apply Htt. exact Hfin.
      - apply flat_map_ext_in. intros a Ha. rewrite Forall_forall in Htt. apply Hmt. apply Htt. exact Ha. }
    rewrite Hch. eapply Forall_impl; [|exact Hty]. intros a. apply Hreg. }
  assert (Htok' : forall n t', In (n, t') tm' -> is_builtin t' = false -> Forall (reg m' tm') (children m' t')).
  { intros n t' Hin Hbt. pose proof (cl_types _ _ Hcl') as Hty. rewrite Forall_forall in Hty. exact (Hty _ Hin Hbt). }
  (* entries *)
  assert (Hent : Forall2 (entry_sim m' tm tm') tm tm').
  { apply aligned_F2; [exact (wf_keys _ _ Hwf)|exact Hkeq|]. intros n t Hin.
    assert (Hlk : alookup n tm = Some t) by (apply nodup_lookup; [exact (wf_keys _ _ Hwf)|exact Hin]).
    pose proof (wf_names _ _ Hwf _ _ Hin) as Hnt.
    destruct (is_builtin t) eqn:Hbt.
    - (* a specified scalar: the same object on both sides *)
      assert (Hk' : In n (map fst tm')) by (rewrite Hkeq; apply in_map_iff; exists (n, t); auto).
      destruct (alookup_exists _ _ Hk') as (t' & Hl').
      assert (Hin' : In (n, t') tm') by (apply alookup_In; exact Hl').
      assert (Hbt' : is_builtin t' = true).
      { destruct (is_builtin t') eqn:E; [reflexivity|]. exfalso. destruct (Hback n t' Hin' E) as (t2 & Ht2 & Hb2).
        pose proof (nodup_lookup _ _ _ (wf_keys _ _ Hwf) Ht2) as A. fold tm in A. rewrite Hlk in A. inversion A; subst. congruence. }
      destruct (is_builtin_in _ Hbt) as (bn & Hbn). destruct (is_builtin_in _ Hbt') as (bn' & Hbn').
      assert (bn = n). { pose proof (Hb _ _ Hbn) as G. unfold tname in Hnt. rewrite G in Hnt. inversion Hnt; reflexivity. }
      assert (bn' = n). { pose proof (proj2 Hwf' n t' Hin') as G. unfold tname in G. rewrite (Hb' _ _ Hbn') in G. inversion G; reflexivity. }
      subst bn bn'.
      assert (t' = t).
      { pose proof (nodup_lookup _ _ _ builtin_nodup Hbn) as A. pose proof (nodup_lookup _ _ _ builtin_nodup Hbn') as B. congruence. }
      subst t'. exists t. split; [exact Hl'|]. split; [reflexivity|]. simpl.
      split; [|left; split; [exact Hbt|split; [reflexivity|unfold tkind; rewrite (Hb' _ _ Hbn); reflexivity]]].
      split; [exists n; split; apply Htn; exact Hnt|].
      split; [exists n; split; [apply Htn; exact Hnt|exact Hlk]|exists n; split; [apply Htn; exact Hnt|exact Hl']].
    - destruct (Hfw n t Hin Hbt) as (t' & Hl' & Hc & Hlk2 & Hik).
      assert (Hin' : In (n, t') tm') by (apply alookup_In; exact Hl').
      assert (Hbt' : is_builtin t' = false).
      { destruct (is_builtin t') eqn:E; [|reflexivity]. exfalso. destruct (is_builtin_in _ E) as (bn & Hbn).
        pose proof (proj2 Hwf' n t' Hin') as G. unfold tname in G. rewrite (Hb' _ _ Hbn) in G. inversion G; subst bn.
        pose proof (nodup_lookup _ _ _ (wf_keys _ _ Hwf) (Hbi _ Hbn)) as A. fold tm in A. rewrite Hlk in A. inversion A; subst. congruence. }
      exists t'. split; [exact Hl'|]. split; [reflexivity|]. simpl.
      split; [split; [exists n; split; [apply Htn; exact Hnt|exact (proj2 Hwf' n t' Hin')]|
                      split; [exists n; split; [apply Htn; exact Hnt|exact Hlk]|exists n; split; [exact (proj2 Hwf' n t' Hin')|exact Hl']]]|].
      right. split; [exact Hbt|]. split; [exact Hbt'|].
      (* the type objects *)
      destruct Hc as (k & d & ms & ifs & r & ds & ms' & ifs' & Hgt & Hgt' & Hm).
      destruct Hlk2 as (n2 & k2 & d2 & ms2 & ifs2 & r2 & ds2 & n3 & k3 & d3 & ms3 & ifs3 & r3 & ds3 & A2 & B2 & _ & Hlm).
      rewrite Hgt in A2. inversion A2; subst n2 k2 d2 ms2 ifs2 r2 ds2. rewrite Hgt' in B2. inversion B2; subst n3 k3 d3 ms3 ifs3 r3 ds3.
      clear A2 B2.
      assert (Hsrc : mget m t = Some (OType n k d ms ifs r ds)).
      { unfold tname in Hnt. destruct (mget m t) as [v|] eqn:Hv; [|discriminate]. rewrite (Hex _ _ Hv) in Hgt. exact Hgt. }
      pose proof (Htok n t Hin Hbt) as Hch. pose proof (Htok' n t' Hin' Hbt') as Hch'.
      unfold children in Hch, Hch'. rewrite Hgt in Hch. rewrite Hgt' in Hch'.
      rewrite Forall_forall in Hch, Hch'.
      exists n, k, d, ms, ifs, r, ds, ms', ifs'. split; [exact Hgt|]. split; [exact Hgt'|].
      (* arguments / input fields *)
      assert (Hleaf : forall a a', mcopy m' a a' /\ mlink tm' m' a a' ->
                (forall ty, (exists ia nn py df dd dss, mget m' a = Some (OInput ia nn py ty df dd dss)) -> reg m' tm (unwrap ty)) ->
                (forall ty, (exists ia nn py df dd dss, mget m' a' = Some (OInput ia nn py ty df dd dss)) -> reg m' tm' (unwrap ty)) ->
                (exists ia nn py ty df dd dss, mget m' a = Some (OInput ia nn py ty df dd dss)) ->
                isim m' tm tm' a a').
      { intros a a' [[Hx _] [Hl _]] R1 R2 Hinp. eapply copy_isim; [exact Hx|exact Hl| | |exact Hinp].
        - intros ia nn py ty df dd dss G. apply R1. eauto 10.
        - intros ia nn py ty df dd dss G. apply R2. eauto 10. }
      assert (Hifaces : Forall2 (nsim m' tm tm') ifs ifs').
      { specialize (Hik _ _ _ _ _ _ Hsrc). destruct Hik as (n4 & k4 & d4 & ms4 & ifs4 & r4 & ds4 & G4 & Hk4).
        rewrite Hgt' in G4. inversion G4; subst n4 k4 d4 ms4 ifs4 r4 ds4.
        assert (Hou : Forall2 (same_name m') ifs ifs' -> (forall i, In i ifs -> reg m' tm i) -> (forall i, In i ifs' -> reg m' tm' i) ->
                  Forall2 (nsim m' tm tm') ifs ifs').
        { intros F R1 R2. eapply Forall2_impl; [|exact (Forall2_in_both _ _ _ F)]. intros i i' (A1 & B1 & C1).
          split; [exact C1|split; [apply R1; exact A1|apply R2; exact B1]]. }
        destruct k.
        - subst ifs'. rewrite (Hifs n t _ _ _ _ _ _ Hin Hbt Hsrc); [constructor|discriminate|discriminate].
        - apply Hou; [exact (proj1 Hk4)| |]; intros i Hi; [apply Hch|apply Hch']; apply in_or_app; left; exact Hi.
        - subst ifs'. rewrite (Hifs n t _ _ _ _ _ _ Hin Hbt Hsrc); [constructor|discriminate|discriminate].
        - apply Hou; [exact (proj1 Hk4)| |]; intros i Hi; [apply Hch|apply Hch']; exact Hi.
        - subst ifs'. rewrite (Hifs n t _ _ _ _ _ _ Hin Hbt Hsrc); [constructor|discriminate|discriminate].
        - subst ifs'. rewrite (Hifs n t _ _ _ _ _ _ Hin Hbt Hsrc); [constructor|discriminate|discriminate]. }
      split; [exact Hifaces|].
      (* fields *)
      assert (Hfields : (k = Kobject \/ k = Kinterface) ->
                        (forall c, In c (flat_map (field_children m') ms) -> reg m' tm c) ->
                        (forall c, In c (flat_map (field_children m') ms') -> reg m' tm' c) ->
                        Forall (field_typed m) ms ->
                        Forall2 (mcopy m') ms ms' -> Forall2 (mlink tm' m') ms ms' -> Forall2 (fsim m' tm tm') ms ms').
      { intros Hko R1 R2 Hft F1 F2. pose proof (Forall2_in_both _ _ _ (F2_and _ _ _ _ F1 F2)) as F.
        eapply Forall2_impl; [|exact F]. intros f f' (Af & Bf & [[Hx Ha] [Hl Hla]]).
        rewrite Forall_forall in Hft. pose proof (Hft f Af) as Hf1. unfold field_typed in Hf1.
        destruct (mget m f) as [[|nf py ty args df dp rf sb dsf| | |]|] eqn:Hvf; try contradiction.
        pose proof (Hex _ _ Hvf) as Hvf'.
        destruct Hx as (v & v' & Hv & Hv' & Hac). rewrite Hvf' in Hv. inversion Hv; subst v.
        destruct v' as [|nf' py' ty' args' df' dp' rf' sb' dsf'| | |]; simpl in Hac; try contradiction.
        destruct Hac as (-> & -> & -> & -> & -> & -> & ->).
        destruct Hl as (w & w' & Hw & Hw' & Hty). rewrite Hvf' in Hw. inversion Hw; subst w. rewrite Hv' in Hw'. inversion Hw'; subst w'.
        simpl in Hty.
        assert (Rf : forall c, In c (field_children m' f) -> reg m' tm c) by (intros c Hc; apply R1; apply in_flat_map; exists f; auto).
        assert (Rf' : forall c, In c (field_children m' f') -> reg m' tm' c) by (intros c Hc; apply R2; apply in_flat_map; exists f'; auto).
        unfold field_children in Rf, Rf'. rewrite Hvf' in Rf. rewrite Hv' in Rf'.
        exists nf, py, ty, args, df, dp, rf, sb, dsf, ty', args'. split; [exact Hvf'|]. split; [exact Hv'|].
        split; [apply link_rsim; [exact Hty|apply Rf; left; reflexivity|apply Rf'; left; reflexivity]|].
        unfold oargs in Ha, Hla. rewrite Hvf', Hv' in Ha, Hla.
        pose proof (Forall2_in_both _ _ _ (F2_and _ _ _ _ Ha Hla)) as Fa.
        eapply Forall2_impl; [|exact Fa]. intros a a' (Aa & Ba & [Xa La]).
        rewrite Forall_forall in Hf1. pose proof (Hf1 a Aa) as Hla1. unfold leaf in Hla1.
        eapply copy_isim; [exact Xa|exact La| | |].
        - intros ia nn pya tya dfa dda dssa G. apply Rf. right. apply in_flat_map. exists a. split; [exact Aa|].
          unfold member_type. rewrite G. left; reflexivity.
        - intros ia nn pya tya dfa dda dssa G. apply Rf'. right. apply in_flat_map. exists a'. split; [exact Ba|].
          unfold member_type. rewrite G. left; reflexivity.
        - assert (Hargs_in : exists ia nn pya tya dfa dda dssa, mget m a = Some (OInput ia nn pya tya dfa dda dssa)).
          { pose proof (Hsorted n t _ _ _ _ _ _ f Hin Hbt Hsrc Af) as Hs1.
            assert (Hin_a : In a (args_of m f)) by (unfold args_of; rewrite Hvf; exact Aa).
            destruct Hko as [-> | ->]; exact (Hs1 a Hin_a). }
          destruct Hargs_in as (ia & nn & pya & tya & dfa & dda & dssa & Hva).
          exists ia, nn, pya, tya, dfa, dda, dssa. apply Hex. exact Hva. }
      pose proof (wf_typed _ _ Hwf _ _ Hin Hbt) as Htt. unfold type_typed in Htt. rewrite Hsrc in Htt.
      destruct k; try exact I.
      + apply Hfields; [left; reflexivity|intros c Hc; apply Hch; apply in_or_app; right; exact Hc|intros c Hc; apply Hch'; apply in_or_app; right; exact Hc|exact Htt|exact Hm|exact Hlm].
      + apply Hfields; [right; reflexivity|intros c Hc; apply Hch; exact Hc|intros c Hc; apply Hch'; exact Hc|exact Htt|exact Hm|exact Hlm].
      + (* enum values *)
        pose proof (Forall2_in_both _ _ _ Hm) as F. eapply Forall2_impl; [|exact F]. intros x x' (Ax & _ & [Hx _]).
        destruct (Hsorted n t _ _ _ _ _ _ x Hin Hbt Hsrc Ax) as (nn & v & dd & dp & dss & Hvx).
        destruct Hx as (u & u' & Hu & Hu' & Hac). rewrite (Hex _ _ Hvx) in Hu. inversion Hu; subst u.
        destruct u'; simpl in Hac; try contradiction. inversion Hac; subst.
        exists nn, v, dd, dp, dss. split; [apply Hex; exact Hvx|exact Hu'].
      + (* input fields *)
        pose proof (Forall2_in_both _ _ _ (F2_and _ _ _ _ Hm Hlm)) as F. eapply Forall2_impl; [|exact F].
        intros x x' (Ax & Bx & [[Xx _] [Lx _]]).
        destruct (Hsorted n t _ _ _ _ _ _ x Hin Hbt Hsrc Ax) as (ia & nn & py & ty & df & dd & dss & Hvx).
        eapply copy_isim; [exact Xx|exact Lx| | |].
        * intros ia1 nn1 py1 ty1 df1 dd1 dss1 G. apply Hch. apply in_flat_map. exists x. split; [exact Ax|].
          unfold member_type. rewrite G. left; reflexivity.
        * intros ia1 nn1 py1 ty1 df1 dd1 dss1 G. apply Hch'. apply in_flat_map. exists x'. split; [exact Bx|].
          unfold member_type. rewrite G. left; reflexivity.
        * exists ia, nn, py, ty, df, dd, dss. apply Hex. exact Hvx. }
  (* directives *)
  assert (Hdir : Forall2 (fun e e' => dsim m' tm tm' (snd e) (snd e')) (s_dirs s) (s_dirs s')).
  { apply (aligned_F2 (fun e e' : str * oid => dsim m' tm tm' (snd e) (snd e'))); [exact (wf_dkeys _ _ Hwf)|exact Hdkeys|].
    intros n d Hin. destruct (Hfd n d Hin) as (d' & Hl' & (nd & ds & locs & args & args' & A & B & C & D)).
    exists d'. split; [exact Hl'|]. simpl. exists nd, ds, locs, args, args'. split; [exact A|]. split; [exact B|].
    assert (Hsrcd : mget m d = Some (ODir nd ds locs args)).
    { pose proof (wf_dnames _ _ Hwf _ _ Hin) as Hdn. unfold dname in Hdn. destruct (mget m d) as [v|] eqn:Hv; [|discriminate].
      rewrite (Hex _ _ Hv) in A. exact A. }
    pose proof (cl_dirs _ _ Hcl) as Hdo. rewrite Forall_forall in Hdo. specialize (Hdo _ Hin). simpl in Hdo.
    unfold dir_ok in Hdo. rewrite Forall_forall in Hdo. unfold dir_args in Hdo. rewrite Hsrcd in Hdo.
    pose proof (cl_dirs _ _ Hcl') as Hdo'. rewrite Forall_forall in Hdo'. specialize (Hdo' _ (alookup_In _ _ _ Hl')). simpl in Hdo'.
    unfold dir_ok in Hdo'. rewrite Forall_forall in Hdo'. unfold dir_args in Hdo'. rewrite B in Hdo'.
    pose proof (Forall2_in_both _ _ _ (F2_and _ _ _ _ C D)) as Fa.
    eapply Forall2_impl; [|exact Fa]. intros a a' (Aa & Ba & [Xa La]).
    destruct (Hdsorted n d a Hin) as (ia & nn & py & ty & df & dd & dss & Hva); [unfold dir_args; rewrite Hsrcd; exact Aa|].
    eapply copy_isim; [exact Xa|exact La| | |].
    - intros ia1 nn1 py1 ty1 df1 dd1 dss1 G. apply Hreg. apply Hdo. apply in_flat_map. exists a. split; [exact Aa|].
      unfold member_type. rewrite Hva. rewrite (Hex _ _ Hva) in G. inversion G; subst. left; reflexivity.
    - intros ia1 nn1 py1 ty1 df1 dd1 dss1 G. apply Hdo'. apply in_flat_map. exists a'. split; [exact Ba|].
      unfold member_type. rewrite G. left; reflexivity.
    - exists ia, nn, py, ty, df, dd, dss. apply Hex. exact Hva. }
  (* roots *)
  assert (Hroot : forall r r', root_ok m tm r -> r' = reroot m tm' r -> root_sim m' tm tm' r r').
  { intros [q|] r' Hr ->; simpl; [|exact I]. simpl in Hr. destruct Hr as (nm & Hn & Hl). rewrite Hn.
    destruct (F2_lookup (entry_sim m' tm tm') _ _ nm q Hent (fun e e' E => proj1 E) Hl) as (q' & Hl' & Hs).
    rewrite Hl'. exact (proj1 (proj2 Hs)). }
  (* the implementations index of the source, read in the final heap *)
  assert (Hi6 : s_impls s = fold_left (impls_of_type m') tm []).
  { rewrite Himpls. apply fold_left_ext_in. intros acc [n t] Hin. unfold impls_of_type. simpl.
    pose proof (wf_names _ _ Hwf _ _ Hin) as Hnt. unfold tname in Hnt.
    destruct (mget m t) as [v|] eqn:Hv; [|discriminate]. rewrite (Hex _ _ Hv).
    destruct v as [n1 k d ms ifs r ds| | | |]; try reflexivity. destruct k; try reflexivity.
    destruct (is_builtin t) eqn:Hbt.
    - destruct (is_builtin_in _ Hbt) as (bn & Hbn). rewrite (Hb _ _ Hbn) in Hv. discriminate.
    - pose proof (cl_types _ _ Hcl) as Hty. rewrite Forall_forall in Hty. specialize (Hty _ Hin Hbt).
      unfold type_ok in Hty. rewrite Forall_forall in Hty. unfold children in Hty. simpl in Hty. rewrite Hv in Hty.
      apply fold_left_ext_in. intros a i Hi. destruct (Hty i (in_or_app _ _ _ (or_introl Hi))) as (nm & Hn & _).
      rewrite Hn, (Htn _ _ Hn). reflexivity. }
  assert (Hp8 : poss_ok m' s).
  { intros o l Hn. pose proof (Hposs o l Hn) as Hp. unfold possible_of in *.
    destruct (mget m o) as [v|] eqn:Hv; [|discriminate]. rewrite (Hex _ _ Hv). exact Hp. }
  assert (Hp9 : poss_ok m' s') by (intros o l Hn; rewrite Hposs' in Hn; discriminate).
  exact (observe_sim m' s s' Hent Hdir
           (Hroot _ _ (cl_query _ _ Hcl) Hq) (Hroot _ _ (cl_mut _ _ Hcl) Hmu) (Hroot _ _ (cl_sub _ _ Hcl) Hsu)
           Hi6 Himpls' Hp8 Hp9).
Qed.

(* the hypotheses of [clone_observe_equal], bundled *)
Definition clone_ok (fuel : nat) (m : mem) (s : schema) : Prop :=
  fresh_ok m /\ builtins_ok m /\ closed m s /\ wf_schema m s /\ wf_builtins s /\
  (exists n o, In (n, o) (s_types s) /\ is_builtin o = false) /\
  (forall s0, build fuel m (s_query s) (s_mut s) (s_sub s) (map snd (s_dirs s)) (map snd (s_types s)) = Ok s0 ->
     map fst (s_types s0) = map fst (s_types s)) /\
  s_impls s = fold_left (impls_of_type m) (s_types s) [] /\ poss_ok m s /\
  (forall n t k d ms ifs r ds, In (n, t) (s_types s) -> is_builtin t = false ->
     mget m t = Some (OType n k d ms ifs r ds) -> k <> Kobject -> k <> Kunion -> ifs = []) /\
  (forall n t k d ms ifs r ds x, In (n, t) (s_types s) -> is_builtin t = false ->
     mget m t = Some (OType n k d ms ifs r ds) -> In x ms ->
     match k with
     | Kinput => exists ia nn py ty df dd dss, mget m x = Some (OInput ia nn py ty df dd dss)
     | Kenum => exists nn v dd dp dss, mget m x = Some (OEnumV nn v dd dp dss)
     | Kobject | Kinterface =>
         forall a, In a (args_of m x) -> exists ia nn py ty df dd dss, mget m a = Some (OInput ia nn py ty df dd dss)
     | _ => True
     end) /\
  (forall n d a, In (n, d) (s_dirs s) -> In a (dir_args m d) ->
     exists ia nn py ty df dd dss, mget m a = Some (OInput ia nn py ty df dd dss)) /\
  Forall (fun o => mget m o <> None) (footprint m (touch_poss m s)).

Theorem clone_observe_equal_ok fuel m s m' s' :
  clone_ok fuel m s -> clone fuel m s = Ok (m', s') ->
  observe m' (touch_poss m' s') = observe m (touch_poss m s).
Proof.
  intros (A & B & C & D & E & F & G & H & I & J & K & L & N) Hc.
  eapply clone_observe_equal; eauto.
Qed.

(* cloning again later -- after any operations on other clones -- gives the
   same observable result *)
Theorem clone_repeatable fuel m s ops m1 c m' c' ma ra mb rb :
  clone_ok fuel m s -> clone_ok fuel m' s ->
  Forall (vop_ok (m_next m)) ops ->
  clone fuel m s = Ok (m1, c) -> run_vops fuel ops m1 c = Ok (m', c') ->
  clone fuel m s = Ok (ma, ra) -> clone fuel m' s = Ok (mb, rb) ->
  observe mb (touch_poss mb rb) = observe ma (touch_poss ma ra).
Proof.
  intros Hok Hok' Hops Hc Hrun Ha Hb.
  rewrite (clone_observe_equal_ok _ _ _ _ _ Hok Ha), (clone_observe_equal_ok _ _ _ _ _ Hok' Hb).
  destruct Hok as (A & B & C & D & E & _ & _ & _ & _ & _ & _ & _ & N).
  destruct (clone_then_ops_frame _ _ _ _ _ _ _ _ A B C D E Hops Hc Hrun) as (Hfr & _).
  eapply frame_observe; eauto.
Qed.
