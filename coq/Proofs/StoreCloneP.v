(* C14 -- proofs about the store model, part 11: Schema.clone preserves
   everything: each type of the source is registered again under its name as a
   new object with the same kind, description, default / type resolver and
   directives, whose members are -- one for one, in order -- copies with the
   same attributes (C14_clone_preserved). *)
From PyGql Require Import Spec.StoreExtSpec Proofs.StoreProofs Proofs.StoreHeal Proofs.StoreLoop
     Proofs.StoreFrame Proofs.StoreClone Proofs.StoreOps Proofs.StoreTerm Proofs.StoreExtendP Proofs.StoreExtPres Proofs.StoreVis Proofs.StoreVisM.
Local Open Scope N_scope.

Lemma Forall2_impl {A B} (P Q : A -> B -> Prop) l l' :
  (forall a b, P a b -> Q a b) -> Forall2 P l l' -> Forall2 Q l l'.
Proof. intros H. induction 1; constructor; auto. Qed.

Lemma Forall2_impl_in {A B} (P Q : A -> B -> Prop) l l' :
  (forall a b, In a l -> P a b -> Q a b) -> Forall2 P l l' -> Forall2 Q l l'.
Proof.
  intros H Hf. induction Hf as [|a b l l' Hab Hl IH]; constructor.
  - apply H; [left; reflexivity|assumption].
  - apply IH. intros a0 b0 Hin. apply H. right; assumption.
Qed.

(* v' is a copy of the member v with the same attributes (type references
   and argument lists aside) *)
Definition acopy (v v' : obj) : Prop :=
  match v, v' with
  | OField n py _ _ d dp r sb ds, OField n' py' _ _ d' dp' r' sb' ds' =>
      n' = n /\ py' = py /\ d' = d /\ dp' = dp /\ r' = r /\ sb' = sb /\ ds' = ds
  | OInput a n py _ df d ds, OInput a' n' py' _ df' d' ds' =>
      a' = a /\ n' = n /\ py' = py /\ df' = df /\ d' = d /\ ds' = ds
  | OEnumV _ _ _ _ _, OEnumV _ _ _ _ _ => v' = v
  | _, _ => False
  end.
Definition xcopy (m : mem) (x x' : oid) : Prop :=
  exists v v', mget m x = Some v /\ mget m x' = Some v' /\ acopy v v'.
Definition mcopy (m : mem) (x x' : oid) : Prop :=
  xcopy m x x' /\ Forall2 (xcopy m) (oargs m x) (oargs m x').

(* the type object t' is a clone of t: same name, kind, description, default /
   type resolver, directives; members one for one, in order, with the same
   attributes (arguments likewise) *)
Definition type_cloned (m : mem) (n : str) (t t' : oid) : Prop :=
  exists k d ms ifs r ds ms' ifs',
    mget m t = Some (OType n k d ms ifs r ds) /\
    mget m t' = Some (OType n k d ms' ifs' r ds) /\
    match k with
    | Kobject | Kinterface | Kinput | Kenum => Forall2 (mcopy m) ms ms'
    | _ => ms' = ms
    end.

(* ------------------------------------------------ what the copying does *)
Section Copy.
Variable n0 : oid.
Notation cpres := StoreClone.pres.

(* a verbatim copy *)
Definition is_leafv (v : obj) : Prop :=
  match v with OInput _ _ _ _ _ _ _ | OEnumV _ _ _ _ _ => True | _ => False end.
Definition vcopy (m : mem) (x x' : oid) : Prop :=
  exists v, mget m x = Some v /\ mget m x' = Some v /\ is_leafv v.
(* a field copied with copied arguments *)
Definition fcopy (m : mem) (f f' : oid) : Prop :=
  exists n py ty args args' d dp r sb ds,
    mget m f = Some (OField n py ty args d dp r sb ds) /\
    mget m f' = Some (OField n py ty args' d dp r sb ds) /\ Forall2 (vcopy m) args args'.

Lemma vcopy_pres m m' x x' : cpres m m' -> vcopy m x x' -> vcopy m' x x'.
Proof. intros P (v & A & B & C). exists v. split; [apply P; assumption|split; [apply P; assumption|assumption]]. Qed.
Lemma fcopy_pres m m' f f' : cpres m m' -> fcopy m f f' -> fcopy m' f f'.
Proof.
  intros P (n & py & ty & args & args' & d & dp & r & sb & ds & A & B & C).
  exists n, py, ty, args, args', d, dp, r, sb, ds. split; [apply P; assumption|]. split; [apply P; assumption|].
  eapply Forall2_impl; [|exact C]. intros a b. apply vcopy_pres. exact P.
Qed.

Lemma alloc_pres m v : fresh_ok m -> cpres m (fst (alloc m v)).
Proof.
  intros Hf x w Hx. rewrite mget_alloc. destruct (N.eqb_spec x (m_next m)) as [->|]; [|assumption].
  rewrite (Hf (m_next m)) in Hx; [discriminate|lia].
Qed.

Lemma copy_all_v : forall l m m' r,
  gok n0 m -> Forall (leaf m) l -> copy_all m l = (m', r) -> Forall2 (vcopy m') l r.
Proof.
  induction l as [|a l IH]; intros m m' r Hg Hl H; simpl in H.
  - inversion H; subst. constructor.
  - inversion Hl as [|? ? Ha Hl']; subst. unfold leaf in Ha.
    destruct (mget m a) as [v|] eqn:Hv; [|contradiction].
    assert (Hsub : above n0 (subs v)) by (destruct v; try contradiction; constructor).
    destruct (alloc_grow n0 m v Hg Hsub) as (G1 & Hn). unfold alloc in H, G1. simpl in G1.
    match type of H with (let (m2, r0) := copy_all ?m1 l in _) = _ =>
      destruct (copy_all m1 l) as [m2 r2] eqn:Hc end.
    inversion H; subst m' r.
    pose proof (gok_grow n0 _ _ Hg G1) as Hg1.
    assert (Hl1 := Forall_leaf_pres _ _ _ (g_pres _ _ _ G1) Hl').
    destruct (copy_all_grow n0 _ _ _ _ Hg1 Hl1 Hc) as (G2 & _).
    constructor; [|eapply IH; eauto].
    exists v. split; [apply (g_pres _ _ _ G2); apply (g_pres _ _ _ G1); assumption|].
    split; [apply (g_pres _ _ _ G2); unfold mget; simpl; rewrite N.eqb_refl; reflexivity|].
    destruct v; try contradiction; exact I.
Qed.

Lemma clone_field_v m f m' r :
  gok n0 m -> field_typed m f -> clone_field m f = (m', r) -> exists f', r = [f'] /\ fcopy m' f f'.
Proof.
  intros Hg Hf H. unfold clone_field in H. unfold field_typed in Hf.
  destruct (mget m f) as [[|n py ty args d dp rs sb ds| | |]|] eqn:Hv; try contradiction.
  destruct (copy_all m args) as [m1 args'] eqn:Hc.
  destruct (copy_all_grow n0 _ _ _ _ Hg Hf Hc) as (G1 & A1).
  pose proof (copy_all_v _ _ _ _ Hg Hf Hc) as V1.
  pose proof (gok_grow n0 _ _ Hg G1) as Hg1.
  unfold alloc in H. inversion H; subst. exists (m_next m1). split; [reflexivity|].
  pose proof (alloc_pres m1 (OField n py ty args' d dp rs sb ds) (proj1 Hg1)) as P2. unfold alloc in P2; simpl in P2.
  exists n, py, ty, args, args', d, dp, rs, sb, ds.
  split; [apply P2; apply (g_pres _ _ _ G1); assumption|].
  split; [unfold mget; simpl; rewrite N.eqb_refl; reflexivity|].
  eapply Forall2_impl; [|exact V1]. intros a b. apply vcopy_pres. exact P2.
Qed.

Lemma clone_fields_v : forall l m m' r,
  gok n0 m -> Forall (field_typed m) l -> clone_fields m l = (m', r) -> Forall2 (fcopy m') l r.
Proof.
  induction l as [|f l IH]; intros m m' r Hg Hl H; simpl in H.
  - inversion H; subst. constructor.
  - inversion Hl as [|? ? Hf Hl']; subst.
    destruct (clone_field m f) as [m1 r1] eqn:H1. destruct (clone_fields m1 l) as [m2 r2] eqn:H2.
    inversion H; subst. destruct (clone_field_grow n0 _ _ _ _ Hg Hf H1) as (G1 & _).
    destruct (clone_field_v _ _ _ _ Hg Hf H1) as (f' & -> & Hc).
    assert (Hl1 : Forall (field_typed m1) l).
    { eapply Forall_impl; [|exact Hl']. intros a. apply field_typed_pres. exact (g_pres _ _ _ G1). }
    pose proof (gok_grow n0 _ _ Hg G1) as Hg1.
    destruct (clone_fields_grow n0 _ _ _ _ Hg1 Hl1 H2) as (G2 & _).
    simpl. constructor; [eapply fcopy_pres; [exact (g_pres _ _ _ G2)|exact Hc]|eapply IH; eauto].
Qed.

(* a cloned type object right after clone_type *)
Definition tcopy (m : mem) (n : str) (t t' : oid) : Prop :=
  exists k d ms ifs r ds ms',
    mget m t = Some (OType n k d ms ifs r ds) /\
    mget m t' = Some (OType n k d ms' ifs r ds) /\
    match k with
    | Kobject | Kinterface => Forall2 (fcopy m) ms ms'
    | Kinput | Kenum => Forall2 (vcopy m) ms ms'
    | _ => ms' = ms
    end.

Lemma tcopy_pres m m' n t t' : cpres m m' -> tcopy m n t t' -> tcopy m' n t t'.
Proof.
  intros P (k & d & ms & ifs & r & ds & ms' & A & B & C). exists k, d, ms, ifs, r, ds, ms'.
  split; [apply P; assumption|]. split; [apply P; assumption|].
  destruct k; auto; eapply Forall2_impl; try exact C; intros a b; first [apply fcopy_pres|apply vcopy_pres]; exact P.
Qed.

Lemma clone_type_v m t m' r n :
  gok n0 m -> tname m t = Some n -> type_typed m t -> clone_type m t = (m', r) ->
  exists t', r = Some t' /\ tcopy m' n t t'.
Proof.
  intros Hg Hn Ht H. unfold clone_type in H. unfold type_typed in Ht. unfold tname in Hn.
  destruct (mget m t) as [[n1 k d ms ifs rs ds| | | |]|] eqn:Hv; try contradiction. inversion Hn; subst n1.
  assert (Hm : exists m1 ms', (match k with
                               | Kobject | Kinterface => clone_fields m ms
                               | Kinput | Kenum => copy_all m ms
                               | _ => (m, ms)
                               end) = (m1, ms') /\ grow n0 m m1 /\
                              match k with
                              | Kobject | Kinterface => Forall2 (fcopy m1) ms ms'
                              | Kinput | Kenum => Forall2 (vcopy m1) ms ms'
                              | _ => ms' = ms
                              end).
  { destruct k.
    - exists m, ms. split; [reflexivity|]. split; [apply grow_refl; assumption|reflexivity].
    - destruct (clone_fields m ms) as [m1 ms'] eqn:E. exists m1, ms'. split; [reflexivity|].
      split; [exact (proj1 (clone_fields_grow n0 _ _ _ _ Hg Ht E))|eapply clone_fields_v; eauto].
    - destruct (clone_fields m ms) as [m1 ms'] eqn:E. exists m1, ms'. split; [reflexivity|].
      split; [exact (proj1 (clone_fields_grow n0 _ _ _ _ Hg Ht E))|eapply clone_fields_v; eauto].
    - exists m, ms. split; [reflexivity|]. split; [apply grow_refl; assumption|reflexivity].
    - destruct (copy_all m ms) as [m1 ms'] eqn:E. exists m1, ms'. split; [reflexivity|].
      split; [exact (proj1 (copy_all_grow n0 _ _ _ _ Hg Ht E))|eapply copy_all_v; eauto].
    - destruct (copy_all m ms) as [m1 ms'] eqn:E. exists m1, ms'. split; [reflexivity|].
      split; [exact (proj1 (copy_all_grow n0 _ _ _ _ Hg Ht E))|eapply copy_all_v; eauto]. }
  destruct Hm as (m1 & ms' & E & G1 & C1). rewrite E in H.
  pose proof (gok_grow n0 _ _ Hg G1) as Hg1.
  unfold alloc in H. inversion H; subst. exists (m_next m1). split; [reflexivity|].
  pose proof (alloc_pres m1 (OType n k d ms' ifs rs ds) (proj1 Hg1)) as P2. unfold alloc in P2; simpl in P2.
  exists k, d, ms, ifs, rs, ds, ms'.
  split; [apply P2; apply (g_pres _ _ _ G1); assumption|].
  split; [unfold mget; simpl; rewrite N.eqb_refl; reflexivity|].
  destruct k; auto; eapply Forall2_impl; try exact C1; intros a b; first [apply fcopy_pres|apply vcopy_pres]; exact P2.
Qed.

Lemma clone_entries_v : forall l m m' ups,
  gok n0 m ->
  (forall n o, In (n, o) l -> is_builtin o = false -> tname m o = Some n /\ type_typed m o) ->
  clone_entries clone_type is_builtin m l = (m', ups) ->
  forall n o, In (n, o) l -> is_builtin o = false -> exists t', In (n, Some t') ups /\ tcopy m' n o t'.
Proof.
  induction l as [|[n1 o1] l IH]; intros m m' ups Hg Hl H n o Hin Hb; simpl in H; [destruct Hin|].
  assert (Hl' : forall n2 o2, In (n2, o2) l -> is_builtin o2 = false -> tname m o2 = Some n2 /\ type_typed m o2)
    by (intros; apply Hl; [right; assumption|assumption]).
  destruct (is_builtin o1) eqn:Hb1.
  - destruct Hin as [He|Hin]; [inversion He; subst; congruence|]. eapply IH; eauto.
  - destruct (clone_type m o1) as [m1 r] eqn:E1. destruct (clone_entries clone_type is_builtin m1 l) as [m2 ups'] eqn:E2.
    inversion H; subst m' ups; clear H.
    destruct (Hl n1 o1 (or_introl eq_refl) Hb1) as (Hn1 & Ht1).
    destruct (clone_type_grow n0 _ _ _ _ Hg Ht1 E1) as (G1 & _).
    pose proof (gok_grow n0 _ _ Hg G1) as Hg1.
    assert (Hl1 : forall n2 o2, In (n2, o2) l -> is_builtin o2 = false -> tname m1 o2 = Some n2 /\ type_typed m1 o2).
    { intros n2 o2 Hin2 Hb2. destruct (Hl' n2 o2 Hin2 Hb2) as (A & B).
      split; [|eapply type_typed_pres; [exact (g_pres _ _ _ G1)|exact B]].
      unfold tname in *. destruct (mget m o2) as [v|] eqn:Hv; [|discriminate]. rewrite (g_pres _ _ _ G1 o2 v Hv). exact A. }
    destruct (clone_entries_grow n0 clone_type is_builtin type_typed (clone_type_grow n0)
                (fun a b o0 Hp => type_typed_pres a b o0 Hp) _ _ _ _ Hg1
                (fun n2 o2 Hin2 Hs2 => proj2 (Hl1 n2 o2 Hin2 Hs2)) E2) as (G2 & _).
    destruct Hin as [He|Hin].
    + inversion He; subst n1 o1. destruct (clone_type_v _ _ _ _ _ Hg Hn1 Ht1 E1) as (t' & -> & Hc).
      exists t'. split; [left; reflexivity|]. eapply tcopy_pres; [exact (g_pres _ _ _ G2)|exact Hc].
    + destruct (IH _ _ _ Hg1 Hl1 E2 n o Hin Hb) as (t' & Hi & Hc). exists t'. split; [|assumption].
      destruct r; [right; assumption|assumption].
Qed.

End Copy.

(* ------------------------------------- healing a closed clone drops nothing *)
Section NoDrop.
Variable tm : list (str * oid).

(* the type reference of a member can be healed *)
Definition resm (m : mem) (x : oid) : Prop :=
  match mget m x with
  | Some (OField _ _ ty _ _ _ _ _ _) | Some (OInput _ _ _ ty _ _ _) => healed m tm ty <> None
  | Some _ => True
  | None => False
  end.
Definition resf (m : mem) (f : oid) : Prop := resm m f /\ Forall (resm m) (args_of m f).

Lemma healed_ext m m' r x : ext tm m m' -> healed m tm r = Some x -> healed m' tm r = Some x.
Proof.
  intros He. revert x. induction r as [o|r IH|r IH]; intros x H; simpl in *.
  - destruct (tname m o) as [n|] eqn:Hn; [|discriminate]. rewrite (ext_tname tm m m' o n He Hn). exact H.
  - destruct (healed m tm r) as [y|]; [|discriminate]. rewrite (IH y eq_refl). exact H.
  - destruct (healed m tm r) as [y|]; [|discriminate]. rewrite (IH y eq_refl). exact H.
Qed.

Lemma reg_healed m r : reg m tm (unwrap r) -> healed m tm r <> None.
Proof.
  induction r as [o|r IH|r IH]; simpl; intros H.
  - destruct H as (n & Hn & Hl). rewrite Hn, Hl. discriminate.
  - destruct (healed m tm r); [discriminate|exact (IH H)].
  - destruct (healed m tm r); [discriminate|exact (IH H)].
Qed.

Lemma resm_ext m m' x : ext tm m m' -> resm m x -> resm m' x.
Proof.
  intros He H. unfold resm in *. destruct (mget m x) as [v|] eqn:Hg; [|contradiction].
  destruct (proj2 He x v Hg) as (v' & Hg' & Hr). rewrite Hg'.
  assert (Hk : forall ty ty', healed m tm ty <> None -> (ty' = ty \/ rkept tm m' ty ty') -> healed m' tm ty' <> None).
  { intros ty ty' Hh [->|[Hreg _]]; [|apply reg_healed; assumption].
    destruct (healed m tm ty) as [y|] eqn:E; [|congruence]. rewrite (healed_ext m m' ty y He E). discriminate. }
  destruct v, v'; simpl in Hr; try contradiction; auto.
  - destruct Hr as (_ & Hr & _). eapply Hk; eauto.
  - destruct Hr as (Hr & _). eapply Hk; eauto.
Qed.

Lemma resf_ext m m' f : ext tm m m' -> resf m f -> resf m' f.
Proof.
  intros He [H1 H2]. split; [eapply resm_ext; eauto|].
  assert (Hx : exists v, mget m f = Some v) by (unfold resm in H1; destruct (mget m f); [eauto|contradiction]).
  destruct Hx as (v & Hv). rewrite (args_of_ext tm m m' f v He Hv).
  eapply Forall_impl; [|exact H2]. intros a. apply resm_ext. exact He.
Qed.

Lemma heal_member_nodrop m x m' r :
  inv tm m -> resm m x -> heal_member tm m x = Some (m', r) -> r = Some x /\ inv tm m' /\ ext tm m m'.
Proof.
  intros Hi Hr H. destruct (heal_member_spec tm _ _ _ _ Hi H) as (Hi' & He & _ & _).
  split; [|split; assumption]. unfold heal_member in H. unfold resm in Hr.
  destruct (mget m x) as [[| | | |]|]; try discriminate;
    (destruct (healed m tm ty); [inversion H; reflexivity|congruence]).
Qed.

(* map_and_filter of hooks that give back what they get returns the same list *)
Lemma map_filter_same (h : hook) (P : mem -> oid -> Prop) :
  (forall m x m' r, inv tm m -> P m x -> h m x = Some (m', r) -> r = Some x /\ inv tm m' /\ ext tm m m') ->
  (forall m m' x, ext tm m m' -> P m x -> P m' x) ->
  forall l m m' rs, inv tm m -> Forall (P m) l -> map_filter h m l = Some (m', rs) ->
    rs = l /\ inv tm m' /\ ext tm m m'.
Proof.
  intros Hh HP. induction l as [|x l IH]; intros m m' rs Hi Hl H; simpl in H.
  - inversion H; subst. split; [reflexivity|split; [assumption|apply ext_refl]].
  - inversion Hl as [|? ? Hx Hl']; subst.
    destruct (h m x) as [[m1 r]|] eqn:E1; [|discriminate].
    destruct (map_filter h m1 l) as [[m2 rs']|] eqn:E2; [|discriminate]. inversion H; subst.
    destruct (Hh _ _ _ _ Hi Hx E1) as (-> & I1 & R1).
    assert (Hl1 : Forall (P m1) l) by (eapply Forall_impl; [|exact Hl']; intros a; apply HP; exact R1).
    destruct (IH _ _ _ I1 Hl1 E2) as (-> & I2 & R2).
    split; [reflexivity|split; [assumption|eapply ext_trans; eauto]].
Qed.

Lemma oids_eqb_refl l : oids_eqb l l = true.
Proof. induction l as [|a l IH]; simpl; [reflexivity|]. rewrite N.eqb_refl, IH. reflexivity. Qed.

Lemma arg_nodrop m x m' r :
  inv tm m -> resm m x -> visit_arg (heal_visitor tm) m x = Some (m', r) -> r = Some x /\ inv tm m' /\ ext tm m m'.
Proof. intros Hi Hr H. rewrite visit_arg_heal in H. eapply heal_member_nodrop; eauto. Qed.
Lemma inf_nodrop m x m' r :
  inv tm m -> resm m x -> visit_inf (heal_visitor tm) m x = Some (m', r) -> r = Some x /\ inv tm m' /\ ext tm m m'.
Proof. intros Hi Hr H. rewrite visit_inf_heal in H. eapply heal_member_nodrop; eauto. Qed.
Lemma env_nodrop m x m' r :
  inv tm m -> True -> visit_env (heal_visitor tm) m x = Some (m', r) -> r = Some x /\ inv tm m' /\ ext tm m m'.
Proof.
  intros Hi _ H. unfold visit_env, hseq, heal_visitor, hid in H; simpl in H. inversion H; subst.
  split; [reflexivity|split; [assumption|apply ext_refl]].
Qed.

Lemma field_nodrop m f m' r :
  inv tm m -> resf m f -> visit_field (heal_visitor tm) m f = Some (m', r) -> r = Some f /\ inv tm m' /\ ext tm m m'.
Proof.
  intros Hi [Hr Ha] H.
  change (visit_field (heal_visitor tm) m f)
    with (match base_field (heal_visitor tm) m f with
          | None => None
          | Some (m2, None) => Some (m2, None)
          | Some (m2, Some o2) => heal_member tm m2 o2
          end) in H.
  unfold base_field in H. destruct (mget m f) as [v|] eqn:Hv; [|discriminate].
  destruct v as [|n py ty args d dp rs sb ds| | |]; try discriminate.
  assert (Hargs : Forall (resm m) args) by (unfold args_of in Ha; rewrite Hv in Ha; exact Ha).
  destruct (map_filter (visit_arg (heal_visitor tm)) m args) as [[m1 args']|] eqn:Hmf; [|discriminate].
  destruct (map_filter_same _ resm arg_nodrop resm_ext _ _ _ _ Hi Hargs Hmf) as (-> & I1 & R1).
  rewrite oids_eqb_refl in H.
  destruct (heal_member_nodrop m1 f m' r I1 (resm_ext _ _ _ R1 Hr) H) as (-> & I2 & R2).
  split; [reflexivity|split; [assumption|eapply ext_trans; eauto]].
Qed.

Definition tres (m : mem) (t : oid) : Prop :=
  match mget m t with
  | Some (OType _ k _ ms _ _ _) =>
      match k with
      | Kobject | Kinterface => Forall (resf m) ms
      | Kinput => Forall (resm m) ms
      | _ => True
      end
  | _ => False
  end.

Lemma tres_ext m m' t : ext tm m m' -> tres m t -> tres m' t.
Proof.
  intros He H. unfold tres in *. destruct (mget m t) as [v|] eqn:Hg; [|contradiction].
  destruct (proj2 He t v Hg) as (v' & Hg' & Hr). rewrite Hg'.
  destruct v; try contradiction. destruct v'; simpl in Hr; try contradiction.
  destruct Hr as (_ & -> & -> & _).
  destruct k; auto; (eapply Forall_impl; [|exact H]; intros a; first [apply resf_ext|apply resm_ext]; exact He).
Qed.

Lemma type_nodrop m t m' r :
  inv tm m -> tres m t -> visit_type (heal_visitor tm) m t = Some (m', r) -> r = Some t /\ inv tm m' /\ ext tm m m'.
Proof.
  intros Hi Ht H.
  destruct (heal_type_hook tm _ _ _ _ Hi H) as (Hi' & He & _).
  split; [|split; assumption].
  change (visit_type (heal_visitor tm) m t)
    with (match base_type (heal_visitor tm) m t with
          | None => None
          | Some (m2, None) => Some (m2, None)
          | Some (m2, Some o2) => heal_type tm m2 o2
          end) in H.
  assert (Hb : exists m2, base_type (heal_visitor tm) m t = Some (m2, Some t)).
  { unfold base_type. unfold tres in Ht. destruct (mget m t) as [[n k d ms ifs rs ds| | | |]|] eqn:Hg; try contradiction.
    assert (Hgen : forall (h : hook) (P : mem -> oid -> Prop),
      (forall m x m' r, inv tm m -> P m x -> h m x = Some (m', r) -> r = Some x /\ inv tm m' /\ ext tm m m') ->
      (forall m m' x, ext tm m m' -> P m x -> P m' x) -> Forall (P m) ms ->
      forall res, match map_filter h m ms with
      | None => None
      | Some (m1, members') =>
          if oids_eqb members' ms then Some (m1, Some t)
          else match mget m1 t with
               | Some (OType n1 k1 d1 _ ifaces r1 ds1) =>
                   let (m3, t') := alloc m1 (OType n1 k1 d1 members' ifaces r1 ds1) in Some (m3, Some t')
               | _ => None
               end
      end = res -> res <> None -> exists m2, res = Some (m2, Some t)).
    { intros h P Hh HP Hl res Hres Hne. destruct (map_filter h m ms) as [[m1 ms']|] eqn:Hmf; [|congruence].
      destruct (map_filter_same h P Hh HP _ _ _ _ Hi Hl Hmf) as (-> & _ & _).
      rewrite oids_eqb_refl in Hres. subst res. eauto. }
    assert (Hne : forall x, match x with Some (m2, Some o2) => heal_type tm m2 o2 | Some (m2, None) => Some (m2, None) | None => None end = Some (m', r) -> x <> None)
      by (intros x Hx; destruct x; [discriminate|discriminate]).
    unfold base_type in H. rewrite Hg in H.
    destruct k.
    - eauto.
    - eapply (Hgen _ resf field_nodrop resf_ext Ht); [reflexivity|]. apply (Hne _ H).
    - eapply (Hgen _ resf field_nodrop resf_ext Ht); [reflexivity|]. apply (Hne _ H).
    - eauto.
    - eapply (Hgen _ (fun _ _ => True) env_nodrop (fun _ _ _ _ _ => I)); [clear; induction ms; constructor; auto|reflexivity|]. apply (Hne _ H).
    - eapply (Hgen _ resm inf_nodrop resm_ext Ht); [reflexivity|]. apply (Hne _ H). }
  destruct Hb as (m2 & Hb). rewrite Hb in H. unfold heal_type in H.
  destruct (mget m2 t) as [[n k d ms ifs rs ds| | | |]|]; try discriminate.
  destruct k; inversion H; reflexivity.
Qed.

Lemma traverse_nodrop : forall l m m' ups,
  inv tm m -> (forall n o, In (n, o) l -> is_builtin o = false -> tres m o) ->
  traverse_list (visit_type (heal_visitor tm)) is_builtin m l = Some (m', ups) -> ups = [].
Proof.
  induction l as [|[n o] l IH]; intros m m' ups Hi Hl H; simpl in H.
  - inversion H; reflexivity.
  - assert (Hl' : forall n1 o1, In (n1, o1) l -> is_builtin o1 = false -> tres m o1) by (intros n1 o1 Hi1 Hb1; apply (Hl n1 o1); [right; assumption|assumption]).
    destruct (is_builtin o) eqn:Hb; [exact (IH m m' ups Hi Hl' H)|].
    destruct (visit_type (heal_visitor tm) m o) as [[m1 r]|] eqn:Hv; [|discriminate].
    destruct (traverse_list (visit_type (heal_visitor tm)) is_builtin m1 l) as [[m2 ups']|] eqn:Ht; [|discriminate].
    inversion H; subst. destruct (type_nodrop _ _ _ _ Hi (Hl n o (or_introl eq_refl) Hb) Hv) as (-> & I1 & R1).
    simpl. rewrite N.eqb_refl. eapply IH; [exact I1| |exact Ht].
    intros n1 o1 Hin Hb1. eapply tres_ext; [exact R1|]. apply (Hl' n1 o1); assumption.
Qed.

End NoDrop.

(* ------------------------------------------------------------- assembly *)
Lemma replace_types_other m n : forall ups tm b tm' b',
  (forall r, ~ In (n, r) ups) -> replace_types m ups tm b = Ok (tm', b') -> alookup n tm' = alookup n tm.
Proof.
  induction ups as [|[n1 nw] ups IH]; intros tm b tm' b' Hno H; simpl in H; [inversion H; reflexivity|].
  assert (Hne : n <> n1) by (intros ->; apply (Hno nw); left; reflexivity).
  assert (Hno' : forall r, ~ In (n, r) ups) by (intros r Hr; apply (Hno r); right; assumption).
  assert (Hset : forall y, alookup n (aset n1 y tm) = alookup n tm).
  { intros y. clear - Hne. induction tm as [|[k v] tm IHt]; simpl.
    - destruct (str_eqb_spec n n1); [contradiction|reflexivity].
    - destruct (str_eqb_spec n1 k) as [->|]; simpl.
      + destruct (str_eqb_spec n k); [contradiction|reflexivity].
      + destruct (str_eqb n k); [reflexivity|assumption]. }
  assert (Hdel : alookup n (adel n1 tm) = alookup n tm).
  { clear - Hne. induction tm as [|[k v] tm IHt]; simpl; [reflexivity|].
    destruct (str_eqb_spec n1 k) as [->|]; simpl.
    - destruct (str_eqb_spec n k); [contradiction|reflexivity].
    - destruct (str_eqb n k); [reflexivity|assumption]. }
  destruct (alookup n1 tm) as [orig|]; [|eapply IH; eauto].
  destruct (is_builtin orig); [discriminate|]. destruct nw as [y|].
  - destruct (tkind m orig); [|discriminate]. destruct (tkind m y); [|discriminate].
    destruct (kind_eqb k k0); [|discriminate]. rewrite (IH _ _ _ _ Hno' H). apply Hset.
  - rewrite (IH _ _ _ _ Hno' H). apply Hdel.
Qed.

Lemma replace_types_lookup m n y : forall ups tm b tm' b',
  NoDup (map fst ups) -> In (n, Some y) ups -> alookup n tm <> None ->
  replace_types m ups tm b = Ok (tm', b') -> alookup n tm' = Some y.
Proof.
  induction ups as [|[n1 nw] ups IH]; intros tm b tm' b' Hnd Hin Hex H; [destruct Hin|].
  inversion Hnd as [|? ? Hn1 Hnd']; subst. destruct Hin as [He|Hin].
  - inversion He; subst n1 nw. simpl in H. destruct (alookup n tm) as [orig|] eqn:Hl; [|congruence].
    destruct (is_builtin orig); [discriminate|].
    destruct (tkind m orig); [|discriminate]. destruct (tkind m y); [|discriminate].
    destruct (kind_eqb k k0); [|discriminate].
    rewrite (replace_types_other m n _ _ _ _ _ (fun r Hr => Hn1 (in_map fst _ _ Hr)) H).
    clear. induction tm as [|[k1 v] tm IHt]; simpl; [rewrite str_eqb_refl; reflexivity|].
    destruct (str_eqb_spec n k1) as [->|Hne]; simpl; [rewrite str_eqb_refl; reflexivity|].
    destruct (str_eqb_spec n k1); [contradiction|assumption].
  - assert (Hne : n <> n1) by (intros ->; apply Hn1; apply in_map_iff; exists (n1, Some y); split; auto).
    simpl in H. destruct (alookup n1 tm) as [orig|] eqn:Hl; [|eapply IH; eauto].
    destruct (is_builtin orig); [discriminate|]. destruct nw as [y1|].
    + destruct (tkind m orig); [|discriminate]. destruct (tkind m y1); [|discriminate].
      destruct (kind_eqb k k0); [|discriminate]. eapply IH; [exact Hnd'|exact Hin| |exact H].
      intros Hc. apply Hex. rewrite <- Hc. symmetry.
      clear - Hne. induction tm as [|[k1 v] tm IHt]; simpl.
      * destruct (str_eqb_spec n n1); [contradiction|reflexivity].
      * destruct (str_eqb_spec n1 k1) as [->|]; simpl.
        -- destruct (str_eqb_spec n k1); [contradiction|reflexivity].
        -- destruct (str_eqb n k1); [reflexivity|assumption].
    + eapply IH; [exact Hnd'|exact Hin| |exact H]. intros Hc. apply Hex. rewrite <- Hc. symmetry.
      clear - Hne. induction tm as [|[k1 v] tm IHt]; simpl; [reflexivity|].
      destruct (str_eqb_spec n1 k1) as [->|]; simpl.
      * destruct (str_eqb_spec n k1); [contradiction|reflexivity].
      * destruct (str_eqb n k1); [reflexivity|assumption].
Qed.

Lemma clone_entries_keys (c : mem -> oid -> mem * option oid) skip : forall l m m' ups,
  NoDup (map fst l) -> clone_entries c skip m l = (m', ups) ->
  NoDup (map fst ups) /\ forall k, In k (map fst ups) -> In k (map fst l).
Proof.
  induction l as [|[n o] l IH]; intros m m' ups Hnd H; simpl in H.
  - inversion H; subst. split; [constructor|intros k []].
  - inversion Hnd as [|? ? Hn Hnd']; subst. destruct (skip o).
    + destruct (IH _ _ _ Hnd' H) as (A & B). split; [assumption|]. intros k Hk. right. auto.
    + destruct (c m o) as [m1 r]. destruct (clone_entries c skip m1 l) as [m2 ups'] eqn:E. inversion H; subst.
      destruct (IH _ _ _ Hnd' E) as (A & B). destruct r as [o'|]; simpl.
      * split; [constructor; [intros Hk; apply Hn; auto|assumption]|]. intros k [<-|Hk]; [left; reflexivity|right; auto].
      * split; [assumption|]. intros k Hk. right. auto.
Qed.

(* every update produced by the cloning loop is the clone of a source entry *)
Lemma clone_entries_v' n0 : forall l m m' ups,
  gok n0 m ->
  (forall n o, In (n, o) l -> is_builtin o = false -> tname m o = Some n /\ type_typed m o) ->
  clone_entries clone_type is_builtin m l = (m', ups) ->
  forall n t', In (n, Some t') ups -> exists o, In (n, o) l /\ is_builtin o = false /\ tcopy m' n o t'.
Proof.
  induction l as [|[n1 o1] l IH]; intros m m' ups Hg Hl H n t' Hin; simpl in H; [inversion H; subst; destruct Hin|].
  assert (Hl' : forall n2 o2, In (n2, o2) l -> is_builtin o2 = false -> tname m o2 = Some n2 /\ type_typed m o2)
    by (intros n2 o2 Hi2 Hb2; apply (Hl n2 o2); [right; assumption|assumption]).
  destruct (is_builtin o1) eqn:Hb1.
  - destruct (IH _ _ _ Hg Hl' H n t' Hin) as (o & A & B & C). exists o. split; [right; assumption|auto].
  - destruct (clone_type m o1) as [m1 r] eqn:E1. destruct (clone_entries clone_type is_builtin m1 l) as [m2 ups'] eqn:E2.
    inversion H; subst m' ups; clear H.
    destruct (Hl n1 o1 (or_introl eq_refl) Hb1) as (Hn1 & Ht1).
    destruct (clone_type_grow n0 _ _ _ _ Hg Ht1 E1) as (G1 & _).
    pose proof (gok_grow n0 _ _ Hg G1) as Hg1.
    assert (Hl1 : forall n2 o2, In (n2, o2) l -> is_builtin o2 = false -> tname m1 o2 = Some n2 /\ type_typed m1 o2).
    { intros n2 o2 Hin2 Hb2. destruct (Hl' n2 o2 Hin2 Hb2) as (A & B).
      split; [|eapply type_typed_pres; [exact (g_pres _ _ _ G1)|exact B]].
      unfold tname in *. destruct (mget m o2) as [v|] eqn:Hv; [|discriminate]. rewrite (g_pres _ _ _ G1 o2 v Hv). exact A. }
    destruct (clone_entries_grow n0 clone_type is_builtin type_typed (clone_type_grow n0)
                (fun a b o0 Hp => type_typed_pres a b o0 Hp) _ _ _ _ Hg1
                (fun n2 o2 Hin2 Hs2 => proj2 (Hl1 n2 o2 Hin2 Hs2)) E2) as (G2 & _).
    destruct (clone_type_v n0 _ _ _ _ _ Hg Hn1 Ht1 E1) as (t1 & -> & Hc).
    destruct Hin as [He|Hin].
    + inversion He; subst n t'. exists o1. split; [left; reflexivity|]. split; [assumption|].
      eapply tcopy_pres; [exact (g_pres _ _ _ G2)|exact Hc].
    + destruct (IH _ _ _ Hg1 Hl1 E2 n t' Hin) as (o & A & B & C). exists o. split; [right; assumption|auto].
Qed.

Lemma heal_rel_acopy tm m v v' : heal_rel tm m v v' -> is_leafv v \/ (exists n py ty a d dp r sb ds, v = OField n py ty a d dp r sb ds) -> acopy v v'.
Proof.
  intros Hr Hk. destruct v, v'; simpl in Hr; try contradiction; simpl.
  - destruct Hk as [[]|(? & ? & ? & ? & ? & ? & ? & ? & ? & Hc)]; discriminate.
  - destruct Hr as (_ & _ & -> & -> & -> & -> & -> & -> & ->). repeat split.
  - destruct Hr as (_ & -> & -> & -> & -> & -> & ->). repeat split.
  - assumption.
  - destruct Hk as [[]|(? & ? & ? & ? & ? & ? & ? & ? & ? & Hc)]; discriminate.
Qed.

(* a fresh clone, healed, is a clone in the sense of the statement; S: cells
   the healing did not touch (the source's) *)
Lemma vcopy_xcopy tm m2 mf (S : oid -> Prop) a a' :
  ext tm m2 mf -> (forall x, S x -> mget mf x = mget m2 x) -> S a -> vcopy m2 a a' ->
  xcopy mf a a' /\ oargs mf a = [] /\ oargs mf a' = [].
Proof.
  intros He HS Sa (v & Hv & Hv' & Hleaf).
  destruct (proj2 He a' v Hv') as (v'' & Hg'' & Hr).
  assert (Ha : mget mf a = Some v) by (rewrite (HS a Sa); exact Hv).
  split; [exists v, v''; split; [assumption|split; [assumption|eapply heal_rel_acopy; eauto]]|].
  unfold oargs. rewrite Ha, Hg''. destruct v; try contradiction; destruct v''; simpl in Hr; try contradiction; auto.
Qed.

Lemma tcopy_cloned tm m2 mf (S : oid -> Prop) n t t' :
  ext tm m2 mf -> (forall x, S x -> mget mf x = mget m2 x) ->
  S t -> (forall k d ms ifs r ds, mget m2 t = Some (OType n k d ms ifs r ds) ->
            forall x, In x ms -> S x /\ forall a, In a (oargs m2 x) -> S a) ->
  tcopy m2 n t t' -> type_cloned mf n t t'.
Proof.
  intros He HS St Hmem (k & d & ms & ifs & r & ds & ms' & Ht & Ht' & Hc).
  destruct (proj2 He t' _ Ht') as (v'' & Hg'' & Hr).
  destruct v'' as [n2 k2 d2 ms2 ifs2 r2 ds2| | | |]; simpl in Hr; try contradiction.
  destruct Hr as (-> & -> & -> & _ & -> & -> & ->).
  exists k, d, ms, ifs, r, ds, ms', ifs2.
  split; [rewrite (HS t St); exact Ht|]. split; [exact Hg''|].
  pose proof (Hmem _ _ _ _ _ _ Ht) as Hm.
  assert (Hleafs : Forall2 (vcopy m2) ms ms' -> Forall2 (mcopy mf) ms ms').
  { apply Forall2_impl_in. intros x x' Hin Hx.
    destruct (vcopy_xcopy tm m2 mf S x x' He HS (proj1 (Hm x Hin)) Hx) as (A & B & C).
    split; [assumption|]. rewrite B, C. constructor. }
  assert (Hfields : Forall2 (fcopy m2) ms ms' -> Forall2 (mcopy mf) ms ms').
  { apply Forall2_impl_in. intros f f' Hin Hf.
    destruct Hf as (nf & py & ty & args & args' & df & dp & rf & sb & dsf & Hgf & Hgf' & Hargs).
    destruct (Hm f Hin) as (Sf & Sargs).
    destruct (proj2 He f' _ Hgf') as (w & Hw & Hrw).
    destruct w as [|n3 py3 ty3 a3 d3 dp3 r3 sb3 ds3| | |]; simpl in Hrw; try contradiction.
    destruct Hrw as (-> & _ & -> & -> & -> & -> & -> & -> & ->).
    assert (Hff : mget mf f = Some (OField nf py ty args df dp rf sb dsf)) by (rewrite (HS f Sf); exact Hgf).
    split; [exists (OField nf py ty args df dp rf sb dsf), (OField nf py ty3 args' df dp rf sb dsf); simpl; repeat split; auto|].
    unfold oargs. rewrite Hff, Hw.
    assert (Sa : forall a, In a args -> S a) by (intros a Ha; apply Sargs; unfold oargs; rewrite Hgf; exact Ha).
    eapply Forall2_impl_in; [|exact Hargs]. intros a a' Hina Ha.
    exact (proj1 (vcopy_xcopy tm m2 mf S a a' He HS (Sa a Hina) Ha)). }
  destruct k; auto.
Qed.

(* the type references of the clone: each member of the clone refers to a type
   registered in the clone's registry, with the wrappers and under the name of
   the type its source refers to (or to the very same object: the specified
   scalars are shared); the interfaces / union members likewise, in order *)
Definition tyl (tm : list (str * oid)) (m : mem) (v v' : obj) : Prop :=
  match v, v' with
  | OField _ _ ty _ _ _ _ _ _, OField _ _ ty' _ _ _ _ _ _ => ty' = ty \/ rkept tm m ty ty'
  | OInput _ _ _ ty _ _ _, OInput _ _ _ ty' _ _ _ => ty' = ty \/ rkept tm m ty ty'
  | _, _ => True
  end.
Definition olink tm (m : mem) (x x' : oid) : Prop :=
  exists v v', mget m x = Some v /\ mget m x' = Some v' /\ tyl tm m v v'.
Definition mlink tm (m : mem) (x x' : oid) : Prop :=
  olink tm m x x' /\ Forall2 (olink tm m) (oargs m x) (oargs m x').
Definition type_linked tm (m : mem) (t t' : oid) : Prop :=
  exists n k d ms ifs r ds n' k' d' ms' ifs' r' ds',
    mget m t = Some (OType n k d ms ifs r ds) /\
    mget m t' = Some (OType n' k' d' ms' ifs' r' ds') /\
    (ifs' = ifs \/ ikept tm m ifs ifs') /\
    match k with
    | Kobject | Kinterface | Kinput | Kenum => Forall2 (mlink tm m) ms ms'
    | _ => True
    end.

Lemma heal_rel_tyl tm m v v' : heal_rel tm m v v' -> tyl tm m v v'.
Proof.
  intros Hr. destruct v, v'; simpl in Hr; try contradiction; simpl; auto.
  - exact (proj1 (proj2 Hr)).
  - exact (proj1 Hr).
Qed.

Lemma vcopy_olink tm m2 mf (S : oid -> Prop) a a' :
  ext tm m2 mf -> (forall x, S x -> mget mf x = mget m2 x) -> S a -> vcopy m2 a a' -> olink tm mf a a'.
Proof.
  intros He HS Sa (v & Hv & Hv' & Hleaf).
  destruct (proj2 He a' v Hv') as (v'' & Hg'' & Hr).
  exists v, v''. split; [rewrite (HS a Sa); exact Hv|]. split; [assumption|apply heal_rel_tyl; assumption].
Qed.

Lemma tcopy_linked tm m2 mf (S : oid -> Prop) n t t' :
  ext tm m2 mf -> (forall x, S x -> mget mf x = mget m2 x) ->
  S t -> (forall k d ms ifs r ds, mget m2 t = Some (OType n k d ms ifs r ds) ->
            forall x, In x ms -> S x /\ forall a, In a (oargs m2 x) -> S a) ->
  tcopy m2 n t t' -> type_linked tm mf t t'.
Proof.
  intros He HS St Hmem (k & d & ms & ifs & r & ds & ms' & Ht & Ht' & Hc).
  destruct (proj2 He t' _ Ht') as (v'' & Hg'' & Hr).
  destruct v'' as [n2 k2 d2 ms2 ifs2 r2 ds2| | | |]; simpl in Hr; try contradiction.
  destruct Hr as (-> & -> & -> & Hifs & -> & -> & ->).
  exists n, k, d, ms, ifs, r, ds, n, k, d, ms', ifs2, r, ds.
  split; [rewrite (HS t St); exact Ht|]. split; [exact Hg''|]. split; [exact Hifs|].
  pose proof (Hmem _ _ _ _ _ _ Ht) as Hm.
  assert (Hleafs : Forall2 (vcopy m2) ms ms' -> Forall2 (mlink tm mf) ms ms').
  { apply Forall2_impl_in. intros x x' Hin Hx.
    destruct (vcopy_xcopy tm m2 mf S x x' He HS (proj1 (Hm x Hin)) Hx) as (_ & B & C).
    split; [eapply vcopy_olink; eauto; exact (proj1 (Hm x Hin))|]. rewrite B, C. constructor. }
  assert (Hfields : Forall2 (fcopy m2) ms ms' -> Forall2 (mlink tm mf) ms ms').
  { apply Forall2_impl_in. intros f f' Hin Hf.
    destruct Hf as (nf & py & ty & args & args' & df & dp & rf & sb & dsf & Hgf & Hgf' & Hargs).
    destruct (Hm f Hin) as (Sf & Sargs).
    destruct (proj2 He f' _ Hgf') as (w & Hw & Hrw).
    pose proof (heal_rel_tyl _ _ _ _ Hrw) as Hty.
    destruct w as [|n3 py3 ty3 a3 d3 dp3 r3 sb3 ds3| | |]; simpl in Hrw; try contradiction.
    destruct Hrw as (-> & _ & -> & -> & -> & -> & -> & -> & ->).
    assert (Hff : mget mf f = Some (OField nf py ty args df dp rf sb dsf)) by (rewrite (HS f Sf); exact Hgf).
    split; [exists (OField nf py ty args df dp rf sb dsf), (OField nf py ty3 args' df dp rf sb dsf); auto|].
    unfold oargs. rewrite Hff, Hw.
    assert (Sa : forall a, In a args -> S a) by (intros a Ha; apply Sargs; unfold oargs; rewrite Hgf; exact Ha).
    eapply Forall2_impl_in; [|exact Hargs]. intros a a' Hina Ha.
    exact (vcopy_olink tm m2 mf S a a' He HS (Sa a Hina) Ha). }
  destruct k; auto.
Qed.

Lemma healed_some tm m r n :
  tname m (unwrap r) = Some n -> alookup n tm <> None -> healed m tm r <> None.
Proof.
  induction r as [o|r IH|r IH]; simpl; intros Hn Hl.
  - rewrite Hn. destruct (alookup n tm); [discriminate|congruence].
  - destruct (healed m tm r); [discriminate|exact (IH Hn Hl)].
  - destruct (healed m tm r); [discriminate|exact (IH Hn Hl)].
Qed.

(* ------------------------- type cells and interface lists under healing *)
Section TypeCells.
Variable tm : list (str * oid).

(* every existing type object is verbatim what it was *)
Definition tkeep (m m' : mem) : Prop :=
  forall o n k d ms ifs r ds, mget m o = Some (OType n k d ms ifs r ds) -> mget m' o = Some (OType n k d ms ifs r ds).
Lemma tkeep_refl m : tkeep m m.
Proof. intros o n k d ms ifs r ds H. exact H. Qed.
Lemma tkeep_trans a b c : tkeep a b -> tkeep b c -> tkeep a c.
Proof. intros H1 H2 o n k d ms ifs r ds H. apply H2. apply H1. exact H. Qed.
Lemma tkeep_alloc m v : fresh_ok m -> tkeep m (fst (alloc m v)).
Proof. intros Hf o n k d ms ifs r ds H. apply (alloc_pres m v Hf). exact H. Qed.

Lemma heal_member_tkeep m x m' r : heal_member tm m x = Some (m', r) -> tkeep m m'.
Proof.
  intros H. unfold heal_member in H. destruct (mget m x) as [v|] eqn:Hv; [|discriminate].
  destruct v as [|n py ty args d dp rs sb ds|a n py ty df d ds| |]; try discriminate.
  - destruct (healed m tm ty); inversion H; subst; [|apply tkeep_refl].
    intros o n1 k1 d1 ms1 ifs1 r1 ds1 Ho. rewrite mget_write. destruct (N.eqb_spec o x) as [->|]; [congruence|exact Ho].
  - destruct (healed m tm ty); inversion H; subst; [|apply tkeep_refl].
    intros o n1 k1 d1 ms1 ifs1 r1 ds1 Ho. rewrite mget_write. destruct (N.eqb_spec o x) as [->|]; [congruence|exact Ho].
Qed.

Lemma heal_arg_tk m x m' r :
  inv tm m -> True -> visit_arg (heal_visitor tm) m x = Some (m', r) -> inv tm m' /\ tkeep m m' /\ (forall y, r = Some y -> True).
Proof.
  intros Hi _ H. rewrite visit_arg_heal in H. destruct (heal_member_spec tm _ _ _ _ Hi H) as (Hi' & _).
  split; [assumption|]. split; [eapply heal_member_tkeep; eauto|auto].
Qed.
Lemma heal_inf_tk m x m' r :
  inv tm m -> True -> visit_inf (heal_visitor tm) m x = Some (m', r) -> inv tm m' /\ tkeep m m' /\ (forall y, r = Some y -> True).
Proof.
  intros Hi _ H. rewrite visit_inf_heal in H. destruct (heal_member_spec tm _ _ _ _ Hi H) as (Hi' & _).
  split; [assumption|]. split; [eapply heal_member_tkeep; eauto|auto].
Qed.
Lemma heal_env_tk m x m' r :
  inv tm m -> True -> visit_env (heal_visitor tm) m x = Some (m', r) -> inv tm m' /\ tkeep m m' /\ (forall y, r = Some y -> True).
Proof.
  intros Hi _ H. unfold visit_env, hseq, heal_visitor, hid in H; simpl in H. inversion H; subst.
  split; [assumption|]. split; [apply tkeep_refl|auto].
Qed.

Lemma heal_field_tk m f m' r :
  inv tm m -> True -> visit_field (heal_visitor tm) m f = Some (m', r) -> inv tm m' /\ tkeep m m' /\ (forall y, r = Some y -> True).
Proof.
  intros Hi _ H. destruct (heal_field_hook tm _ _ _ _ Hi H) as (Hi' & _). split; [assumption|]. split; [|auto].
  change (visit_field (heal_visitor tm) m f)
    with (match base_field (heal_visitor tm) m f with
          | None => None
          | Some (m2, None) => Some (m2, None)
          | Some (m2, Some o2) => heal_member tm m2 o2
          end) in H.
  unfold base_field in H. destruct (mget m f) as [v|] eqn:Hv; [|discriminate].
  destruct v as [|n py ty args d dp rs sb ds| | |]; try discriminate.
  destruct (map_filter (visit_arg (heal_visitor tm)) m args) as [[m1 args']|] eqn:Hmf; [|discriminate].
  destruct (map_filter_pre (inv tm) tkeep tkeep_refl tkeep_trans _ (fun _ _ => True) (fun _ _ => True)
              heal_arg_tk (fun _ _ _ _ _ => I) (fun _ _ _ _ _ => I) _ _ _ _ Hi (Forall_triv' args) Hmf) as (Hi1 & K1 & _).
  destruct (oids_eqb args' args).
  - eapply tkeep_trans; [exact K1|]. eapply heal_member_tkeep; eauto.
  - destruct (mget m1 f) as [[|n1 py1 ty1 a1 d1 dp1 rs1 sb1 ds1| | |]|]; try discriminate.
    pose proof (tkeep_alloc m1 (OField n1 py1 ty1 args' d1 dp1 rs1 sb1 ds1) (proj1 Hi1)) as K2.
    unfold alloc in H, K2. simpl in K2.
    eapply tkeep_trans; [exact K1|]. eapply tkeep_trans; [exact K2|]. eapply heal_member_tkeep; eauto.
Qed.

Lemma base_type_tk m t m2 ro : inv tm m -> base_type (heal_visitor tm) m t = Some (m2, ro) -> tkeep m m2.
Proof.
  intros Hi H. unfold base_type in H. destruct (mget m t) as [[n k d ms ifs rs ds| | | |]|] eqn:Hg; try discriminate.
  assert (Hgen : forall h : hook,
    (forall m x m' r, inv tm m -> True -> h m x = Some (m', r) -> inv tm m' /\ tkeep m m' /\ (forall y, r = Some y -> True)) ->
    match map_filter h m ms with
    | None => None
    | Some (m1, members') =>
        if oids_eqb members' ms then Some (m1, Some t)
        else match mget m1 t with
             | Some (OType n1 k1 d1 _ ifaces r1 ds1) =>
                 let (m3, t') := alloc m1 (OType n1 k1 d1 members' ifaces r1 ds1) in Some (m3, Some t')
             | _ => None
             end
    end = Some (m2, ro) -> tkeep m m2).
  { intros h Hh H0. destruct (map_filter h m ms) as [[m1 ms']|] eqn:Hmf; [|discriminate].
    destruct (map_filter_pre (inv tm) tkeep tkeep_refl tkeep_trans _ (fun _ _ => True) (fun _ _ => True)
                Hh (fun _ _ _ _ _ => I) (fun _ _ _ _ _ => I) _ _ _ _ Hi (Forall_triv' ms) Hmf) as (Hi1 & K1 & _).
    destruct (oids_eqb ms' ms); [inversion H0; subst; exact K1|].
    destruct (mget m1 t) as [[n1 k1 d1 ms1 ifs1 r1 ds1| | | |]|]; try discriminate.
    pose proof (tkeep_alloc m1 (OType n1 k1 d1 ms' ifs1 r1 ds1) (proj1 Hi1)) as K2. unfold alloc in H0, K2. simpl in K2.
    inversion H0; subst. eapply tkeep_trans; eauto. }
  destruct k; try (inversion H; subst; apply tkeep_refl).
  - apply (Hgen _ heal_field_tk H).
  - apply (Hgen _ heal_field_tk H).
  - apply (Hgen _ heal_env_tk H).
  - apply (Hgen _ heal_inf_tk H).
Qed.

(* the interface / union-member list of a type object, relative to the list
   L it started from: for object and union types (whose list is healed) the
   same names in the same order, every one resolvable; otherwise untouched *)
Definition ires (m : mem) (ifs : list oid) : Prop :=
  Forall (fun i => exists nm, tname m i = Some nm /\ alookup nm tm <> None) ifs.
Definition IK (m : mem) (o : oid) (L : list oid) : Prop :=
  exists n k d ms ifs r ds, mget m o = Some (OType n k d ms ifs r ds) /\
    match k with Kobject | Kunion => Forall2 (same_name m) L ifs /\ ires m ifs | _ => ifs = L end.

Lemma F2_same_trans m : forall a b c, Forall2 (same_name m) a b -> Forall2 (same_name m) b c -> Forall2 (same_name m) a c.
Proof.
  intros a b c H. revert c. induction H as [|x y a b Hxy Hab IH]; intros c Hc; inversion Hc; subst; constructor.
  - eapply same_name_trans; eauto.
  - apply IH. assumption.
Qed.

Lemma heal_oids_full m ifs :
  lookup_ok m tm -> ires m ifs -> Forall2 (same_name m) ifs (heal_oids m tm ifs) /\ ires m (heal_oids m tm ifs).
Proof.
  intros Hl. induction 1 as [|i ifs (nm & Hn & Ha) Hr IH]; simpl; [split; constructor|].
  unfold healed_oid. rewrite Hn. destruct (alookup nm tm) as [i'|] eqn:E; [|congruence]. simpl.
  destruct IH as (A & B). split; constructor; auto.
  - exists nm. split; [assumption|apply Hl; assumption].
  - exists nm. split; [apply Hl; assumption|congruence].
Qed.

Lemma IK_step m m' o L :
  (forall a n, tname m a = Some n -> tname m' a = Some n) ->
  (forall v, mget m o = Some v -> mget m' o = Some v) -> IK m o L -> IK m' o L.
Proof.
  intros Hn Hc (n & k & d & ms & ifs & r & ds & Hg & Hk). exists n, k, d, ms, ifs, r, ds. split; [apply Hc; exact Hg|].
  assert (Hs : forall a b, same_name m a b -> same_name m' a b) by (intros a b (nm & A & B); exists nm; split; apply Hn; assumption).
  assert (Hi : ires m ifs -> ires m' ifs).
  { apply Forall_impl. intros i (nm & A & B). exists nm. split; [apply Hn; assumption|assumption]. }
  destruct k; auto; destruct Hk as [A B]; (split; [eapply Forall2_impl; [|exact A]; exact Hs|exact (Hi B)]).
Qed.

Lemma visit_type_IK m t m' r :
  inv tm m -> visit_type (heal_visitor tm) m t = Some (m', r) -> forall o L, IK m o L -> IK m' o L.
Proof.
  intros Hi H o L Hik.
  change (visit_type (heal_visitor tm) m t)
    with (match base_type (heal_visitor tm) m t with
          | None => None
          | Some (m2, None) => Some (m2, None)
          | Some (m2, Some o2) => heal_type tm m2 o2
          end) in H.
  destruct (base_type (heal_visitor tm) m t) as [[m2 ro]|] eqn:Hb; [|discriminate].
  destruct (base_type_spec tm _ _ _ _ Hi Hb) as (Hi2 & He2 & y & n2 & k2 & d2 & ms2 & ifs2 & rs2 & ds2 & -> & Hg2 & _ & _ & _).
  pose proof (base_type_tk _ _ _ _ Hi Hb) as K2.
  assert (Hik2 : IK m2 o L).
  { eapply IK_step; [intros a n; apply (ext_tname tm); exact He2| |exact Hik].
    intros v Hv. destruct Hik as (n & k & d & ms & ifs & r0 & ds & Hg & _). rewrite Hg in Hv. inversion Hv; subst. apply K2. exact Hg. }
  unfold heal_type in H. rewrite Hg2 in H.
  assert (Hsame : Some (m2, Some y) = Some (m', r) -> IK m' o L) by (intros E; inversion E; subst; exact Hik2).
  assert (Hwr : Some (write m2 y (OType n2 k2 d2 ms2 (heal_oids m2 tm ifs2) rs2 ds2), Some y) = Some (m', r) ->
            (k2 = Kobject \/ k2 = Kunion) -> IK m' o L).
  { intros E Hk. inversion E; subst m' r. clear E.
    set (v' := OType n2 k2 d2 ms2 (heal_oids m2 tm ifs2) rs2 ds2).
    assert (Hn : forall a n, tname m2 a = Some n -> tname (write m2 y v') a = Some n).
    { intros a n Ha. eapply tname_write; [exact Hg2|reflexivity|exact Ha]. }
    destruct (N.eq_dec o y) as [->|Hne].
    - destruct Hik2 as (n & k & d & ms & ifs & r0 & ds & Hg & Hkk). rewrite Hg2 in Hg. inversion Hg; subst n k d ms ifs r0 ds.
      exists n2, k2, d2, ms2, (heal_oids m2 tm ifs2), rs2, ds2. split; [rewrite mget_write, N.eqb_refl; reflexivity|].
      assert (Hkk' : Forall2 (same_name m2) L ifs2 /\ ires m2 ifs2) by (destruct Hk as [-> | ->]; exact Hkk).
      destruct Hkk' as (A & B). destruct (heal_oids_full m2 ifs2 (proj2 Hi2) B) as (C & D).
      assert (Hres : Forall2 (same_name (write m2 y v')) L (heal_oids m2 tm ifs2) /\ ires (write m2 y v') (heal_oids m2 tm ifs2)).
      { split.
        - eapply Forall2_impl; [|exact (F2_same_trans _ _ _ _ A C)]. intros a b (nm & P & Q). exists nm. split; apply Hn; assumption.
        - eapply Forall_impl; [|exact D]. intros i (nm & P & Q). exists nm. split; [apply Hn; assumption|assumption]. }
      destruct Hk as [-> | ->]; exact Hres.
    - eapply IK_step; [exact Hn| |exact Hik2]. intros v Hv. rewrite mget_write. destruct (N.eqb_spec o y); [contradiction|exact Hv]. }
  destruct k2; first [exact (Hsame H)|apply (Hwr H); auto].
Qed.

Lemma traverse_types_IK : forall l m m' ups,
  inv tm m -> traverse_list (visit_type (heal_visitor tm)) is_builtin m l = Some (m', ups) ->
  forall o L, IK m o L -> IK m' o L.
Proof.
  induction l as [|[n0 o0] l IH]; intros m m' ups Hi H o L Hik; simpl in H.
  - inversion H; subst. exact Hik.
  - destruct (is_builtin o0); [exact (IH _ _ _ Hi H o L Hik)|].
    destruct (visit_type (heal_visitor tm) m o0) as [[m1 r]|] eqn:Hv; [|discriminate].
    destruct (traverse_list (visit_type (heal_visitor tm)) is_builtin m1 l) as [[m2 ups']|] eqn:Ht; [|discriminate].
    inversion H; subst. destruct (heal_type_hook tm _ _ _ _ Hi Hv) as (Hi1 & _).
    apply (IH _ _ _ Hi1 Ht o L). exact (visit_type_IK _ _ _ _ Hi Hv o L Hik).
Qed.

Lemma visit_dir_tk m d m' r : inv tm m -> visit_dir (heal_visitor tm) m d = Some (m', r) -> tkeep m m'.
Proof.
  intros Hi H.
  change (visit_dir (heal_visitor tm) m d)
    with (match base_dir (heal_visitor tm) m d with
          | None => None
          | Some (m2, None) => Some (m2, None)
          | Some (m2, Some o2) => Some (m2, Some o2)
          end) in H.
  unfold base_dir in H. destruct (mget m d) as [v|] eqn:Hg; [|discriminate].
  destruct v as [| | | |n ds locs args]; try discriminate.
  destruct (map_filter (visit_arg (heal_visitor tm)) m args) as [[m1 args']|] eqn:Hmf; [|discriminate].
  destruct (map_filter_pre (inv tm) tkeep tkeep_refl tkeep_trans _ (fun _ _ => True) (fun _ _ => True)
              heal_arg_tk (fun _ _ _ _ _ => I) (fun _ _ _ _ _ => I) _ _ _ _ Hi (Forall_triv' args) Hmf) as (Hi1 & K1 & _).
  destruct (oids_eqb args' args); [inversion H; subst; exact K1|].
  destruct (mget m1 d) as [[| | | |n1 ds1 locs1 a1]|]; try discriminate.
  pose proof (tkeep_alloc m1 (ODir n1 ds1 locs1 args') (proj1 Hi1)) as K2. unfold alloc in H, K2. simpl in K2.
  inversion H; subst. eapply tkeep_trans; eauto.
Qed.

Lemma traverse_dirs_IK : forall l m m' ups,
  inv tm m -> traverse_list (visit_dir (heal_visitor tm)) (fun _ => false) m l = Some (m', ups) ->
  forall o L, IK m o L -> IK m' o L.
Proof.
  induction l as [|[n0 d0] l IH]; intros m m' ups Hi H o L Hik; simpl in H.
  - inversion H; subst. exact Hik.
  - destruct (visit_dir (heal_visitor tm) m d0) as [[m1 r]|] eqn:Hv; [|discriminate].
    destruct (traverse_list (visit_dir (heal_visitor tm)) (fun _ => false) m1 l) as [[m2 ups']|] eqn:Ht; [|discriminate].
    inversion H; subst. destruct (heal_dir_hook tm _ _ _ _ Hi Hv) as (Hi1 & He1 & _).
    apply (IH _ _ _ Hi1 Ht o L). eapply IK_step; [intros a n; apply (ext_tname tm); exact He1| |exact Hik].
    intros v Hg. destruct Hik as (n & k & d & ms & ifs & r0 & ds & Hg0 & _). rewrite Hg0 in Hg. inversion Hg; subst.
    apply (visit_dir_tk _ _ _ _ Hi Hv). exact Hg0.
Qed.

(* directives whose arguments can be re-resolved are returned as they are *)
Definition dres (m : mem) (d : oid) : Prop :=
  match mget m d with Some (ODir _ _ _ args) => Forall (resm tm m) args | _ => False end.
Lemma dres_ext m m' d : ext tm m m' -> dres m d -> dres m' d.
Proof.
  intros He H. unfold dres in *. destruct (mget m d) as [v|] eqn:Hg; [|contradiction].
  destruct (proj2 He d v Hg) as (v' & Hg' & Hr). rewrite Hg'.
  destruct v; try contradiction. destruct v'; simpl in Hr; try contradiction. inversion Hr; subst.
  eapply Forall_impl; [|exact H]. intros a. apply resm_ext. exact He.
Qed.
Lemma dir_nodrop m d m' r :
  inv tm m -> dres m d -> visit_dir (heal_visitor tm) m d = Some (m', r) -> r = Some d.
Proof.
  intros Hi Hd H.
  change (visit_dir (heal_visitor tm) m d)
    with (match base_dir (heal_visitor tm) m d with
          | None => None
          | Some (m2, None) => Some (m2, None)
          | Some (m2, Some o2) => Some (m2, Some o2)
          end) in H.
  unfold base_dir in H. unfold dres in Hd. destruct (mget m d) as [v|] eqn:Hg; [|contradiction].
  destruct v as [| | | |n ds locs args]; try contradiction.
  destruct (map_filter (visit_arg (heal_visitor tm)) m args) as [[m1 args']|] eqn:Hmf; [|discriminate].
  destruct (map_filter_same tm _ (resm tm) (arg_nodrop tm) (resm_ext tm) _ _ _ _ Hi Hd Hmf) as (-> & _ & _).
  rewrite oids_eqb_refl in H. inversion H; reflexivity.
Qed.
Lemma traverse_dirs_nodrop : forall l m m' ups,
  inv tm m -> (forall n d, In (n, d) l -> dres m d) ->
  traverse_list (visit_dir (heal_visitor tm)) (fun _ => false) m l = Some (m', ups) -> ups = [].
Proof.
  induction l as [|[n d] l IH]; intros m m' ups Hi Hl H; simpl in H.
  - inversion H; reflexivity.
  - destruct (visit_dir (heal_visitor tm) m d) as [[m1 r]|] eqn:Hv; [|discriminate].
    destruct (traverse_list (visit_dir (heal_visitor tm)) (fun _ => false) m1 l) as [[m2 ups']|] eqn:Ht; [|discriminate].
    inversion H; subst. rewrite (dir_nodrop _ _ _ _ Hi (Hl n d (or_introl eq_refl)) Hv) in *.
    destruct (heal_dir_hook tm _ _ _ _ Hi Hv) as (Hi1 & He1 & _).
    simpl. rewrite N.eqb_refl. eapply IH; [exact Hi1| |exact Ht].
    intros n1 d1 Hin. eapply dres_ext; [exact He1|]. apply (Hl n1 d1). right; assumption.
Qed.

End TypeCells.

Lemma heal_from_nodrop tm0 : forall fuel m s m' s',
  tm0 = s_types s -> fresh_ok m -> wf_reg m tm0 ->
  (forall n o, In (n, o) tm0 -> is_builtin o = false -> tres tm0 m o) ->
  heal_from fuel m s = Ok (m', s') -> s_types s' = tm0 /\ ext tm0 m m' /\ fresh_ok m'.
Proof.
  intros fuel m s m' s' -> Hf Hwf Hres H. unfold heal_from, traverse in H.
  destruct (traverse_list (visit_type (heal_visitor (s_types s))) is_builtin m (s_types s)) as [[m1 tu]|] eqn:Ht; [|discriminate].
  destruct (traverse_list (visit_dir (heal_visitor (s_types s))) (fun _ => false) m1 (s_dirs s)) as [[m2 du]|] eqn:Hd; [|discriminate].
  assert (Hi : inv (s_types s) m) by (split; [assumption|apply wf_reg_lookup; assumption]).
  pose proof (traverse_nodrop _ _ _ _ _ Hi Hres Ht) as ->.
  destruct (traverse_types_spec _ _ _ _ _ Hi Ht) as (Hi1 & He1 & _ & _).
  destruct (traverse_dirs_spec _ _ _ _ _ Hi1 Hd) as (Hi2 & He2 & _ & _).
  destruct fuel as [|fuel]; [simpl in H; discriminate|].
  rewrite replace_and_heal_S in H. simpl in H.
  destruct (replace_dirs du (s_dirs s)) as [dm| | |]; simpl in H; try discriminate.
  inversion H; subst. simpl. split; [reflexivity|]. split; [eapply ext_trans; eauto|exact (proj1 Hi2)].
Qed.

Lemma heal_from_nodrop_IK tm0 : forall fuel m s m' s',
  tm0 = s_types s -> fresh_ok m -> wf_reg m tm0 ->
  (forall n o, In (n, o) tm0 -> is_builtin o = false -> tres tm0 m o) ->
  heal_from fuel m s = Ok (m', s') -> forall o L, IK tm0 m o L -> IK tm0 m' o L.
Proof.
  intros fuel m s m' s' -> Hf Hwf Hres H. unfold heal_from, traverse in H.
  destruct (traverse_list (visit_type (heal_visitor (s_types s))) is_builtin m (s_types s)) as [[m1 tu]|] eqn:Ht; [|discriminate].
  destruct (traverse_list (visit_dir (heal_visitor (s_types s))) (fun _ => false) m1 (s_dirs s)) as [[m2 du]|] eqn:Hd; [|discriminate].
  assert (Hi : inv (s_types s) m) by (split; [assumption|apply wf_reg_lookup; assumption]).
  pose proof (traverse_nodrop _ _ _ _ _ Hi Hres Ht) as ->.
  destruct (traverse_types_spec _ _ _ _ _ Hi Ht) as (Hi1 & He1 & _ & _).
  destruct fuel as [|fuel]; [simpl in H; discriminate|].
  rewrite replace_and_heal_S in H. simpl in H.
  destruct (replace_dirs du (s_dirs s)) as [dm| | |]; simpl in H; try discriminate.
  inversion H; subst.
  intros o L Hik. eapply traverse_dirs_IK; [exact Hi1|exact Hd|]. eapply traverse_types_IK; [exact Hi|exact Ht|exact Hik].
Qed.

Lemma heal_from_nodrop_full tm0 : forall fuel m s m' s',
  tm0 = s_types s -> fresh_ok m -> wf_reg m tm0 ->
  (forall n o, In (n, o) tm0 -> is_builtin o = false -> tres tm0 m o) ->
  (forall n d, In (n, d) (s_dirs s) -> dres tm0 m d) ->
  heal_from fuel m s = Ok (m', s') ->
  s_types s' = tm0 /\ s_dirs s' = s_dirs s /\ ext tm0 m m' /\ fresh_ok m' /\
  forall o L, IK tm0 m o L -> IK tm0 m' o L.
Proof.
  intros fuel m s m' s' -> Hf Hwf Hres Hdres H. unfold heal_from, traverse in H.
  destruct (traverse_list (visit_type (heal_visitor (s_types s))) is_builtin m (s_types s)) as [[m1 tu]|] eqn:Ht; [|discriminate].
  destruct (traverse_list (visit_dir (heal_visitor (s_types s))) (fun _ => false) m1 (s_dirs s)) as [[m2 du]|] eqn:Hd; [|discriminate].
  assert (Hi : inv (s_types s) m) by (split; [assumption|apply wf_reg_lookup; assumption]).
  pose proof (traverse_nodrop _ _ _ _ _ Hi Hres Ht) as ->.
  destruct (traverse_types_spec _ _ _ _ _ Hi Ht) as (Hi1 & He1 & _ & _).
  assert (Hd1 : forall n d, In (n, d) (s_dirs s) -> dres (s_types s) m1 d).
  { intros n d Hin. eapply dres_ext; [exact He1|]. eapply Hdres; eauto. }
  pose proof (traverse_dirs_nodrop _ _ _ _ _ Hi1 Hd1 Hd) as ->.
  destruct (traverse_dirs_spec _ _ _ _ _ Hi1 Hd) as (Hi2 & He2 & _ & _).
  destruct fuel as [|fuel]; [simpl in H; discriminate|].
  rewrite replace_and_heal_S in H. simpl in H.
  inversion H; subst. simpl. split; [reflexivity|]. split; [reflexivity|]. split; [eapply ext_trans; eauto|]. split; [exact (proj1 Hi2)|].
  intros o L Hik. eapply traverse_dirs_IK; [exact Hi1|exact Hd|]. eapply traverse_types_IK; [exact Hi|exact Ht|exact Hik].
Qed.

Lemma resm_same tm m x x' : mget m x' = mget m x -> resm tm m x -> resm tm m x'.
Proof. unfold resm. intros ->. auto. Qed.

Lemma vcopy_resm tm m a a' : vcopy m a a' -> resm tm m a -> resm tm m a'.
Proof. intros (v & A & B & _). apply resm_same. rewrite A, B. reflexivity. Qed.

Lemma tcopy_tres tm m n o1 o : tcopy m n o1 o -> tres tm m o1 -> tres tm m o.
Proof.
  intros (k & d & ms & ifs & r & ds & ms' & A & B & C) H. unfold tres in *. rewrite A in H. rewrite B.
  destruct k; auto.
  - clear A B. induction C as [|f f' l l' Hf Hl IH]; [constructor|]. inversion H as [|? ? Hrf Hrl]; subst.
    constructor; [|auto].
    destruct Hf as (nf & py & ty & args & args' & df & dp & rf & sb & dsf & Hgf & Hgf' & Hargs).
    destruct Hrf as (R1 & R2). split.
    + unfold resm in *. rewrite Hgf'. rewrite Hgf in R1. exact R1.
    + unfold args_of in *. rewrite Hgf'. rewrite Hgf in R2.
      clear - Hargs R2. induction Hargs as [|a a' la la' Ha Hla IHa]; [constructor|].
      inversion R2; subst. constructor; [eapply vcopy_resm; eauto|auto].
  - clear A B. induction C as [|f f' l l' Hf Hl IH]; [constructor|]. inversion H as [|? ? Hrf Hrl]; subst.
    constructor; [|auto].
    destruct Hf as (nf & py & ty & args & args' & df & dp & rf & sb & dsf & Hgf & Hgf' & Hargs).
    destruct Hrf as (R1 & R2). split.
    + unfold resm in *. rewrite Hgf'. rewrite Hgf in R1. exact R1.
    + unfold args_of in *. rewrite Hgf'. rewrite Hgf in R2.
      clear - Hargs R2. induction Hargs as [|a a' la la' Ha Hla IHa]; [constructor|].
      inversion R2; subst. constructor; [eapply vcopy_resm; eauto|auto].
  - clear A B. induction C as [|a a' la la' Ha Hla IHa]; [constructor|].
    inversion H; subst. constructor; [eapply vcopy_resm; eauto|auto].
Qed.

Lemma replace_types_keeps m k : forall ups tm b tm' b',
  (forall n r, In (n, r) ups -> r <> None) -> alookup k tm <> None ->
  replace_types m ups tm b = Ok (tm', b') -> alookup k tm' <> None.
Proof.
  induction ups as [|[n1 nw] ups IH]; intros tm b tm' b' Hs Hk H; simpl in H; [inversion H; subst; assumption|].
  assert (Hs' : forall n r, In (n, r) ups -> r <> None) by (intros n r Hr; apply (Hs n r); right; assumption).
  destruct (alookup n1 tm) as [orig|] eqn:Hl; [|eapply IH; eauto].
  destruct (is_builtin orig); [discriminate|].
  destruct nw as [y|]; [|exfalso; apply (Hs n1 None); [left; reflexivity|reflexivity]].
  destruct (tkind m orig); [|discriminate]. destruct (tkind m y); [|discriminate].
  destruct (kind_eqb k0 k1); [|discriminate]. eapply IH; [exact Hs'| |exact H].
  clear - Hk. induction tm as [|[k2 v] tm IHt]; simpl in *; [congruence|].
  destruct (str_eqb_spec n1 k2) as [->|]; simpl.
  - destruct (str_eqb k k2); [discriminate|assumption].
  - destruct (str_eqb k k2); [assumption|auto].
Qed.

Lemma leaf_resm tm m m2 s a :
  StoreClone.pres m m2 -> (forall k, In k (map fst (s_types s)) -> alookup k tm <> None) ->
  leaf m a -> (forall c, In c (member_type m a) -> reg m (s_types s) c) -> resm tm m2 a.
Proof.
  intros P Hkeys Ha Hc. unfold leaf in Ha. unfold resm. destruct (mget m a) as [v|] eqn:Hv; [|contradiction].
  rewrite (P _ _ Hv). destruct v; try contradiction; auto.
  assert (Hr : reg m (s_types s) (unwrap ty)) by (apply Hc; unfold member_type; rewrite Hv; left; reflexivity).
  destruct Hr as (nx & Hnx & Hlx). eapply healed_some.
  - unfold tname in *. destruct (mget m (unwrap ty)) as [w|] eqn:Hw; [|discriminate]. rewrite (P _ _ Hw). exact Hnx.
  - apply Hkeys. apply in_map_iff. exists (nx, unwrap ty). split; [reflexivity|apply alookup_In; assumption].
Qed.

(* in a closed, well-sorted schema every reference of every member can be
   re-resolved in any registry that has all the names *)
Lemma closed_tres tm m m2 s n o :
  closed m s -> wf_schema m s -> StoreClone.pres m m2 ->
  (forall k, In k (map fst (s_types s)) -> alookup k tm <> None) ->
  In (n, o) (s_types s) -> is_builtin o = false -> tres tm m2 o.
Proof.
  intros Hcl Hwf P Hkeys Hin Hb.
  pose proof (cl_types _ _ Hcl) as Hty. rewrite Forall_forall in Hty. specialize (Hty _ Hin Hb).
  unfold type_ok in Hty. rewrite Forall_forall in Hty.
  pose proof (wf_typed _ _ Hwf _ _ Hin Hb) as Htt. unfold type_typed in Htt. unfold children in Hty.
  assert (Hres : forall r, reg m (s_types s) (unwrap r) -> healed m2 tm r <> None).
  { intros r (nx & Hnx & Hlx). eapply healed_some.
    - unfold tname in *. destruct (mget m (unwrap r)) as [v|] eqn:Hv; [|discriminate]. rewrite (P _ _ Hv). exact Hnx.
    - apply Hkeys. apply in_map_iff. exists (nx, unwrap r). split; [reflexivity|apply alookup_In; assumption]. }
  assert (Hleaf : forall a, leaf m a -> (forall c, In c (member_type m a) -> reg m (s_types s) c) -> resm tm m2 a).
  { intros a Ha Hc. unfold leaf in Ha. unfold resm. destruct (mget m a) as [v|] eqn:Hv; [|contradiction].
    rewrite (P _ _ Hv). destruct v; try contradiction; auto.
    apply Hres. apply Hc. unfold member_type. rewrite Hv. left; reflexivity. }
  assert (Hfield : forall f, field_typed m f -> (forall c, In c (field_children m f) -> reg m (s_types s) c) -> resf tm m2 f).
  { intros f Hf Hc. unfold field_typed in Hf. destruct (mget m f) as [v|] eqn:Hv; [|contradiction].
    destruct v as [|nf py ty args d dp r sb ds| | |]; try contradiction.
    assert (Hv2 := P _ _ Hv). split.
    - unfold resm. rewrite Hv2. apply Hres. apply Hc. unfold field_children. rewrite Hv. left; reflexivity.
    - unfold args_of. rewrite Hv2. rewrite Forall_forall in Hf. apply Forall_forall. intros a Ha.
      apply Hleaf; [auto|]. intros c Hca. apply Hc. unfold field_children. rewrite Hv. right.
      apply in_flat_map. exists a. split; assumption. }
  simpl in Hty, Htt. unfold tres. destruct (mget m o) as [v|] eqn:Hv; [|contradiction]. rewrite (P _ _ Hv).
  destruct v as [nt k d ms ifs r ds| | | |]; try contradiction.
  destruct k; auto.
  - rewrite Forall_forall in Htt. apply Forall_forall. intros f Hfin. apply Hfield; [auto|].
    intros c Hc. apply Hty. apply in_or_app. right. apply in_flat_map. exists f; split; assumption.
  - rewrite Forall_forall in Htt. apply Forall_forall. intros f Hfin. apply Hfield; [auto|].
    intros c Hc. apply Hty. apply in_flat_map. exists f; split; assumption.
  - rewrite Forall_forall in Htt. apply Forall_forall. intros a Hain. apply Hleaf; [auto|].
    intros c Hc. apply Hty. apply in_flat_map. exists a; split; assumption.
Qed.

(* in a closed schema Schema(...) over all its types registers nothing else *)
Lemma build_sub fuel m s s0 :
  builtins_ok m -> closed m s -> wf_schema m s -> wf_builtins s ->
  build fuel m (s_query s) (s_mut s) (s_sub s) (map snd (s_dirs s)) (map snd (s_types s)) = Ok s0 ->
  forall e, In e (s_types s0) -> In e (s_types s).
Proof.
  intros Hb Hcl Hwf Hbi H. unfold build in H.
  destruct (build_dirs m (map snd (s_dirs s)) []) as [dm0| | |] eqn:Hbd; simpl in H; try discriminate.
  destruct (build_dirs_sub m s Hwf _ _ _
              (fun d Hd => match proj1 (in_map_iff _ _ _) Hd with
                           | ex_intro _ (n, d') (conj Heq Hin) =>
                               ex_intro _ n (eq_ind d' (fun x => In (n, x) (s_dirs s)) Hin d Heq)
                           end)
              (fun e (He : In e []) => match He with end) (NoDup_nil _) Hbd) as (Hdsub & _).
  match type of H with context [build_map fuel m ?st builtin_types] =>
    destruct (build_map fuel m st builtin_types) as [tm0| | |] eqn:Hbm; simpl in H; try discriminate;
    assert (Hst : forall c, In c st -> exists n, In (n, c) (s_types s)) end.
  { intros c Hc. apply in_app_or in Hc. destruct Hc as [Hc|Hc].
    - apply in_map_iff in Hc. destruct Hc as ([n c'] & <- & Hin). exists n; assumption.
    - apply in_app_or in Hc. destruct Hc as [Hc|Hc]; [eapply root_in; [apply (cl_query _ _ Hcl)|exact Hc]|].
      apply in_app_or in Hc. destruct Hc as [Hc|Hc]; [eapply root_in; [apply (cl_mut _ _ Hcl)|exact Hc]|].
      apply in_app_or in Hc. destruct Hc as [Hc|Hc]; [eapply root_in; [apply (cl_sub _ _ Hcl)|exact Hc]|].
      apply in_flat_map in Hc. destruct Hc as (a & Ha & Hc).
      apply in_flat_map in Ha. destruct Ha as (d & Hd & Ha).
      apply in_map_iff in Hd. destruct Hd as ([n d'] & Heq & Hin). simpl in Heq; subst d'.
      pose proof (cl_dirs _ _ Hcl) as Hdo. rewrite Forall_forall in Hdo. specialize (Hdo _ (Hdsub _ Hin)).
      unfold dir_ok in Hdo. rewrite Forall_forall in Hdo. eapply reg_in. apply Hdo.
      apply in_flat_map. exists a; split; assumption. }
  destruct (build_map_sub m s Hb Hcl Hwf _ _ _ _ Hst Hbi builtin_nodup Hbm) as (Htsub & _).
  inversion H; subst. simpl. exact Htsub.
Qed.

Lemma build_map_nodup m : forall fuel stack tm tm',
  NoDup (map fst tm) -> build_map fuel m stack tm = Ok tm' -> NoDup (map fst tm').
Proof.
  induction fuel as [|fuel IH]; intros stack tm tm' Hnd H; simpl in H; [discriminate|].
  destruct stack as [|o rest]; [inversion H; subst; assumption|].
  destruct (tname m o) as [n|]; [|discriminate].
  destruct (alookup n tm) as [o'|] eqn:Hl.
  - destruct (N.eqb o o'); [eapply IH; eauto|discriminate].
  - eapply IH; [|exact H]. rewrite map_app. simpl. apply nodup_snoc; [assumption|apply alookup_none_key; assumption].
Qed.

Lemma build_nodup fuel m q mu su dirs types s0 :
  build fuel m q mu su dirs types = Ok s0 -> NoDup (map fst (s_types s0)).
Proof.
  intros H. unfold build in H.
  destruct (build_dirs m dirs []) as [dm| | |]; simpl in H; try discriminate.
  match type of H with obind (build_map ?f ?mm ?st ?t0) _ = _ =>
    destruct (build_map f mm st t0) as [tm| | |] eqn:Hm; simpl in H; try discriminate end.
  inversion H; subst. simpl. eapply build_map_nodup; [exact builtin_nodup|exact Hm].
Qed.

(* ------------------------------------------------ the directive objects *)
Lemma build_dirs_exact m : forall dirs acc,
  (forall n d, In (n, d) dirs -> dname m d = Some n) -> NoDup (map fst (acc ++ dirs)) ->
  build_dirs m (map snd dirs) acc = Ok (acc ++ dirs).
Proof.
  induction dirs as [|[n d] dirs IH]; intros acc Hn Hnd; simpl.
  - rewrite app_nil_r. reflexivity.
  - rewrite (Hn n d (or_introl eq_refl)).
    assert (Hno : alookup n acc = None).
    { destruct (alookup n acc) as [x|] eqn:E; [|reflexivity]. exfalso.
      rewrite map_app in Hnd. simpl in Hnd. apply NoDup_remove_2 in Hnd. apply Hnd. apply in_or_app. left.
      apply in_map_iff. exists (n, x). split; [reflexivity|apply alookup_In; exact E]. }
    rewrite Hno. replace (acc ++ (n, d) :: dirs) with ((acc ++ [(n, d)]) ++ dirs) by (rewrite <- app_assoc; reflexivity).
    apply IH; [intros n1 d1 Hin; apply Hn; right; exact Hin|]. rewrite <- app_assoc. exact Hnd.
Qed.

Lemma alookup_aset_same {A} n (y : A) dm : alookup n (aset n y dm) = Some y.
Proof.
  induction dm as [|[k v] dm IH]; simpl; [rewrite str_eqb_refl; reflexivity|].
  destruct (str_eqb_spec n k) as [->|Hne]; simpl; [rewrite str_eqb_refl; reflexivity|].
  destruct (str_eqb_spec n k); [contradiction|exact IH].
Qed.
Lemma alookup_aset_other {A} n n1 (y : A) dm : n <> n1 -> alookup n (aset n1 y dm) = alookup n dm.
Proof.
  intros Hne. induction dm as [|[k v] dm IH]; simpl.
  - destruct (str_eqb_spec n n1); [contradiction|reflexivity].
  - destruct (str_eqb_spec n1 k) as [->|Hk]; simpl.
    + destruct (str_eqb_spec n k); [contradiction|reflexivity].
    + destruct (str_eqb_spec n k); [reflexivity|exact IH].
Qed.
Lemma alookup_adel_other {A} n n1 (dm : list (str * A)) : n <> n1 -> alookup n (adel n1 dm) = alookup n dm.
Proof.
  intros Hne. induction dm as [|[k v] dm IH]; simpl; [reflexivity|].
  destruct (str_eqb_spec n1 k) as [->|Hk]; simpl.
  - destruct (str_eqb_spec n k); [contradiction|reflexivity].
  - destruct (str_eqb_spec n k); [reflexivity|exact IH].
Qed.

Lemma replace_dirs_other n : forall du dm dm',
  (forall r, ~ In (n, r) du) -> replace_dirs du dm = Ok dm' -> alookup n dm' = alookup n dm.
Proof.
  induction du as [|[n1 nw] du IH]; intros dm dm' Hno H; simpl in H; [inversion H; reflexivity|].
  assert (Hne : n <> n1) by (intros ->; apply (Hno nw); left; reflexivity).
  assert (Hno' : forall r, ~ In (n, r) du) by (intros r Hr; apply (Hno r); right; assumption).
  destruct nw as [y|].
  - rewrite (IH _ _ Hno' H). apply alookup_aset_other. exact Hne.
  - destruct (ahas n1 dm); [|discriminate]. rewrite (IH _ _ Hno' H). apply alookup_adel_other. exact Hne.
Qed.
Lemma replace_dirs_lookup n y : forall du dm dm',
  NoDup (map fst du) -> In (n, Some y) du -> replace_dirs du dm = Ok dm' -> alookup n dm' = Some y.
Proof.
  induction du as [|[n1 nw] du IH]; intros dm dm' Hnd Hin H; [destruct Hin|].
  inversion Hnd as [|? ? Hn1 Hnd']; subst. simpl in H. destruct Hin as [He|Hin].
  - inversion He; subst n1 nw. rewrite (replace_dirs_other n du _ _ (fun r Hr => Hn1 (in_map fst _ _ Hr)) H).
    apply alookup_aset_same.
  - destruct nw as [y1|]; [eapply IH; eauto|]. destruct (ahas n1 dm); [eapply IH; eauto|discriminate].
Qed.

Section DirCopy.
Variable n0 : oid.
Notation cpres := StoreClone.pres.

Definition dcopy (m : mem) (d d' : oid) : Prop :=
  exists n ds locs args args',
    mget m d = Some (ODir n ds locs args) /\ mget m d' = Some (ODir n ds locs args') /\ Forall2 (vcopy m) args args'.
Lemma dcopy_pres m m' d d' : cpres m m' -> dcopy m d d' -> dcopy m' d d'.
Proof.
  intros P (n & ds & locs & args & args' & A & B & C). exists n, ds, locs, args, args'.
  split; [apply P; assumption|]. split; [apply P; assumption|].
  eapply Forall2_impl; [|exact C]. intros a b. apply vcopy_pres. exact P.
Qed.

Lemma clone_dir_v m d m' r :
  gok n0 m -> dir_typed m d -> clone_dir m d = (m', r) -> exists d', r = Some d' /\ dcopy m' d d'.
Proof.
  intros Hg Hd H. unfold clone_dir in H. unfold dir_typed in Hd.
  destruct (mget m d) as [[| | | |n ds locs args]|] eqn:Hv; try contradiction.
  destruct (copy_all m args) as [m1 args'] eqn:Hc.
  destruct (copy_all_grow n0 _ _ _ _ Hg Hd Hc) as (G1 & A1).
  pose proof (copy_all_v n0 _ _ _ _ Hg Hd Hc) as V1.
  pose proof (gok_grow n0 _ _ Hg G1) as Hg1.
  unfold alloc in H. inversion H; subst. exists (m_next m1). split; [reflexivity|].
  pose proof (alloc_pres m1 (ODir n ds locs args') (proj1 Hg1)) as P2. unfold alloc in P2; simpl in P2.
  exists n, ds, locs, args, args'.
  split; [apply P2; apply (g_pres _ _ _ G1); assumption|].
  split; [unfold mget; simpl; rewrite N.eqb_refl; reflexivity|].
  eapply Forall2_impl; [|exact V1]. intros a b. apply vcopy_pres. exact P2.
Qed.

Lemma clone_dentries_v : forall l m m' ups,
  gok n0 m -> (forall n d, In (n, d) l -> dir_typed m d) ->
  clone_entries clone_dir (fun _ => false) m l = (m', ups) ->
  (forall n d, In (n, d) l -> exists d', In (n, Some d') ups /\ dcopy m' d d') /\
  (forall n d', In (n, Some d') ups -> exists d, In (n, d) l /\ dcopy m' d d').
Proof.
  induction l as [|[n1 d1] l IH]; intros m m' ups Hg Hl H; simpl in H.
  - inversion H; subst. split; [intros ? ? []|intros ? ? []].
  - destruct (clone_dir m d1) as [m1 r] eqn:E1. destruct (clone_entries clone_dir (fun _ => false) m1 l) as [m2 ups'] eqn:E2.
    inversion H; subst m' ups; clear H.
    pose proof (Hl n1 d1 (or_introl eq_refl)) as Ht1.
    destruct (clone_dir_grow n0 _ _ _ _ Hg Ht1 E1) as (G1 & _).
    pose proof (gok_grow n0 _ _ Hg G1) as Hg1.
    assert (Hl1 : forall n d, In (n, d) l -> dir_typed m1 d).
    { intros n d Hin. eapply dir_typed_pres; [exact (g_pres _ _ _ G1)|]. apply (Hl n d). right; exact Hin. }
    destruct (clone_entries_grow n0 clone_dir (fun _ => false) dir_typed (clone_dir_grow n0)
                (fun a b o0 Hp => dir_typed_pres a b o0 Hp) _ _ _ _ Hg1 (fun n d Hin _ => Hl1 n d Hin) E2) as (G2 & _).
    destruct (clone_dir_v _ _ _ _ Hg Ht1 E1) as (d1' & -> & Hc1).
    destruct (IH _ _ _ Hg1 Hl1 E2) as (A & B). split.
    + intros n d [He|Hin].
      * inversion He; subst n d. exists d1'. split; [left; reflexivity|]. eapply dcopy_pres; [exact (g_pres _ _ _ G2)|exact Hc1].
      * destruct (A n d Hin) as (d' & P & Q). exists d'. split; [right; exact P|exact Q].
    + intros n d' [He|Hin].
      * inversion He; subst n d'. exists d1. split; [left; reflexivity|]. eapply dcopy_pres; [exact (g_pres _ _ _ G2)|exact Hc1].
      * destruct (B n d' Hin) as (d & P & Q). exists d. split; [right; exact P|exact Q].
Qed.
End DirCopy.

(* the directive object d' is a clone of d: same name, description,
   locations; arguments one for one with the same attributes and linked types *)
Definition dir_cloned tm (m : mem) (d d' : oid) : Prop :=
  exists n ds locs args args',
    mget m d = Some (ODir n ds locs args) /\ mget m d' = Some (ODir n ds locs args') /\
    Forall2 (xcopy m) args args' /\ Forall2 (olink tm m) args args'.

Lemma dcopy_cloned tm m2 mf (S : oid -> Prop) d d' :
  ext tm m2 mf -> (forall x, S x -> mget mf x = mget m2 x) ->
  S d -> (forall n ds locs args, mget m2 d = Some (ODir n ds locs args) -> forall a, In a args -> S a) ->
  dcopy m2 d d' -> dir_cloned tm mf d d'.
Proof.
  intros He HS Sd Hargs (n & ds & locs & args & args' & A & B & C).
  destruct (proj2 He d' _ B) as (v' & Hv' & Hr). destruct v'; simpl in Hr; try contradiction. inversion Hr; subst.
  exists n, ds, locs, args, args'. split; [rewrite (HS d Sd); exact A|]. split; [exact Hv'|].
  pose proof (Hargs _ _ _ _ A) as Sa. split.
  - eapply Forall2_impl_in; [|exact C]. intros a a' Hin Hc. exact (proj1 (vcopy_xcopy tm m2 mf S a a' He HS (Sa a Hin) Hc)).
  - eapply Forall2_impl_in; [|exact C]. intros a a' Hin Hc. exact (vcopy_olink tm m2 mf S a a' He HS (Sa a Hin) Hc).
Qed.

(* ------------------------------------------- the structure of the result *)
Lemma replace_types_keys_eq m : forall ups tm b tm' b',
  (forall n r, In (n, r) ups -> r <> None) -> replace_types m ups tm b = Ok (tm', b') -> map fst tm' = map fst tm.
Proof.
  induction ups as [|[n nw] ups IH]; intros tm b tm' b' Hs H; simpl in H; [inversion H; reflexivity|].
  assert (Hs' : forall n1 r, In (n1, r) ups -> r <> None) by (intros n1 r Hr; apply (Hs n1 r); right; assumption).
  destruct (alookup n tm) as [orig|] eqn:Hl; [|eapply IH; eauto].
  destruct (is_builtin orig); [discriminate|].
  destruct nw as [y|]; [|exfalso; apply (Hs n None); [left; reflexivity|reflexivity]].
  destruct (tkind m orig); [|discriminate]. destruct (tkind m y); [|discriminate].
  destruct (kind_eqb k k0); [|discriminate].
  rewrite (IH _ _ _ _ Hs' H). apply (aset_keys n y orig tm Hl).
Qed.

Lemma replace_dirs_keys_eq : forall du dm dm',
  (forall n r, In (n, r) du -> r <> None /\ In n (map fst dm)) -> replace_dirs du dm = Ok dm' -> map fst dm' = map fst dm.
Proof.
  induction du as [|[n nw] du IH]; intros dm dm' Hs H; simpl in H; [inversion H; reflexivity|].
  destruct (Hs n nw (or_introl eq_refl)) as (Hne & Hin).
  destruct nw as [y|]; [|congruence].
  destruct (alookup_exists _ _ Hin) as (v & Hv).
  assert (Hk : map fst (aset n y dm) = map fst dm) by (apply (aset_keys n y v dm Hv)).
  rewrite (IH (aset n y dm) dm'); [exact Hk| |exact H].
  intros n1 r Hr. destruct (Hs n1 r (or_intror Hr)) as (A & B). split; [assumption|]. rewrite Hk. exact B.
Qed.

Lemma build_roots fuel m q mu su dirs types s0 :
  build fuel m q mu su dirs types = Ok s0 ->
  s_query s0 = q /\ s_mut s0 = mu /\ s_sub s0 = su /\ s_poss s0 = [] /\
  s_impls s0 = fold_left (impls_of_type m) (s_types s0) [].
Proof.
  intros H. unfold build in H. destruct (build_dirs m dirs []) as [dm| | |]; simpl in H; try discriminate.
  match type of H with obind ?x _ = _ => destruct x; simpl in H; try discriminate end.
  inversion H; subst. simpl. auto.
Qed.

Lemma heal_from_nodrop_roots tm0 : forall fuel m s m' s',
  tm0 = s_types s -> fresh_ok m -> wf_reg m tm0 ->
  (forall n o, In (n, o) tm0 -> is_builtin o = false -> tres tm0 m o) ->
  heal_from fuel m s = Ok (m', s') ->
  s_query s' = reroot m' tm0 (s_query s) /\ s_mut s' = reroot m' tm0 (s_mut s) /\ s_sub s' = reroot m' tm0 (s_sub s).
Proof.
  intros fuel m s m' s' -> Hf Hwf Hres H. unfold heal_from, traverse in H.
  destruct (traverse_list (visit_type (heal_visitor (s_types s))) is_builtin m (s_types s)) as [[m1 tu]|] eqn:Ht; [|discriminate].
  destruct (traverse_list (visit_dir (heal_visitor (s_types s))) (fun _ => false) m1 (s_dirs s)) as [[m2 du]|] eqn:Hd; [|discriminate].
  assert (Hi : inv (s_types s) m) by (split; [assumption|apply wf_reg_lookup; assumption]).
  pose proof (traverse_nodrop _ _ _ _ _ Hi Hres Ht) as ->.
  destruct fuel as [|fuel]; [simpl in H; discriminate|].
  rewrite replace_and_heal_S in H. simpl in H.
  destruct (replace_dirs du (s_dirs s)) as [dm| | |]; simpl in H; try discriminate.
  inversion H; subst. simpl. auto.
Qed.

Lemma reroot_twice m m' tm r :
  lookup_ok m' tm -> reroot m' tm (reroot m tm r) = reroot m tm r.
Proof.
  intros Hl. destruct r as [o|]; simpl; [|reflexivity]. destruct (tname m o) as [n|]; [|reflexivity].
  destruct (alookup n tm) as [o'|] eqn:E; [|reflexivity]. simpl. rewrite (Hl _ _ E). exact E.
Qed.

Theorem clone_preserved fuel m s m' s' :
  fresh_ok m -> builtins_ok m -> closed m s -> wf_schema m s -> wf_builtins s ->
  clone fuel m s = Ok (m', s') ->
  (fresh_ok m' /\ wf_reg m' (s_types s') /\
   (forall n o, In (n, o) (s_types s') -> is_builtin o = false -> exists t, In (n, t) (s_types s) /\ is_builtin t = false) /\
   (forall n o, In (n, o) (s_types s') -> is_builtin o = false -> tres (s_types s') m' o)) /\
  (forall n t, In (n, t) (s_types s) -> is_builtin t = false ->
    exists t', alookup n (s_types s') = Some t' /\ type_cloned m' n t t' /\ type_linked (s_types s') m' t t' /\
      forall k d ms ifs r ds, mget m t = Some (OType n k d ms ifs r ds) -> IK (s_types s') m' t' ifs) /\
  (forall n d, In (n, d) (s_dirs s) ->
    exists d', alookup n (s_dirs s') = Some d' /\ dir_cloned (s_types s') m' d d') /\
  ((exists n o, In (n, o) (s_types s) /\ is_builtin o = false) ->
   closed m' s' /\
   (forall s0, build fuel m (s_query s) (s_mut s) (s_sub s) (map snd (s_dirs s)) (map snd (s_types s)) = Ok s0 ->
      map fst (s_types s') = map fst (s_types s0)) /\
   map fst (s_dirs s') = map fst (s_dirs s) /\
   s_query s' = reroot m (s_types s') (s_query s) /\ s_mut s' = reroot m (s_types s') (s_mut s) /\
   s_sub s' = reroot m (s_types s') (s_sub s) /\
   s_impls s' = fold_left (impls_of_type m') (s_types s') [] /\ s_poss s' = []).
Proof.
  intros Hf Hb Hcl Hwf Hbi H.
  destruct (clone_owned _ _ _ _ _ Hf Hb Hcl Hwf Hbi H) as (Fown & _).
  set (n0 := m_next m) in *.
  assert (Hgok : gok n0 m).
  { split; [assumption|]. split; [|unfold n0; lia].
    intros o v Ho Hg. unfold n0 in Ho. rewrite (Hf o Ho) in Hg. discriminate. }
  assert (Hex : forall x v, mget m x = Some v -> x < n0).
  { intros x v Hx. destruct (N.lt_ge_cases x n0) as [Hlt|Hge]; [assumption|]. unfold n0 in Hge. rewrite (Hf x Hge) in Hx. discriminate. }
  unfold clone in H.
  destruct (build fuel m (s_query s) (s_mut s) (s_sub s) (map snd (s_dirs s)) (map snd (s_types s))) as [s0| | |] eqn:Hb0;
    simpl in H; try discriminate.
  assert (Hreg0 : forall n1 o1, In (n1, o1) (s_types s) -> alookup n1 (s_types s0) = Some o1).
  { intros n1 o1 Hi1. destruct (build_registers _ _ _ _ _ _ _ _ Hb Hb0 o1) as (nx & Hnx & Hlx).
    - apply in_map_iff. exists (n1, o1); auto.
    - rewrite (wf_names _ _ Hwf _ _ Hi1) in Hnx. inversion Hnx; subst. exact Hlx. }
  destruct (build_closed _ _ _ _ _ _ _ _ Hb Hb0) as (_ & Hnames0).
  destruct (clone_entries clone_type is_builtin m (s_types s)) as [m1 tu] eqn:Hct.
  destruct (clone_entries clone_dir (fun _ => false) m1 (s_dirs s)) as [m2 du] eqn:Hcd.
  assert (Hsrc : forall n1 o1, In (n1, o1) (s_types s) -> is_builtin o1 = false -> tname m o1 = Some n1 /\ type_typed m o1)
    by (intros n1 o1 Hi1 Hb1; split; [exact (wf_names _ _ Hwf _ _ Hi1)|exact (wf_typed _ _ Hwf _ _ Hi1 Hb1)]).
  destruct (clone_entries_grow n0 clone_type is_builtin type_typed
              (clone_type_grow n0) (fun a b o Hp => type_typed_pres a b o Hp)
              _ _ _ _ Hgok (fun n1 o1 Hi1 Hs1 => wf_typed _ _ Hwf n1 o1 Hi1 Hs1) Hct) as (G1 & U1 & K1 & N1).
  destruct (clone_entries_grow n0 clone_dir (fun _ => false) dir_typed
              (clone_dir_grow n0) (fun a b o Hp => dir_typed_pres a b o Hp)
              _ _ _ _ (gok_grow _ _ _ Hgok G1)
              (fun n1 o1 Hi1 _ => dir_typed_pres _ _ _ (g_pres _ _ _ G1) (wf_dtyped _ _ Hwf n1 o1 Hi1)) Hcd)
    as (G2 & U2 & K2 & N2).
  pose proof (grow_trans _ _ _ _ G1 G2) as G12.
  pose proof (g_pres _ _ _ G12) as P12.
  destruct (clone_entries_keys _ _ _ _ _ _ (wf_keys _ _ Hwf) Hct) as (Hndu & _).
  destruct fuel as [|fuel]; [simpl in H; discriminate|].
  pose proof H as H0. rewrite replace_and_heal_S in H.
  destruct (replace_types m2 tu (s_types s0) false) as [[tm' b]| | |] eqn:Hrt; simpl in H; try discriminate.
  destruct (replace_dirs du (s_dirs s0)) as [dm'| | |] eqn:Hrd; simpl in H; try discriminate.
  assert (Hwf0 : wf_reg m2 (s_types s0)).
  { split.
    - exact (build_nodup _ _ _ _ _ _ _ _ Hb0).
    - intros n1 o1 Hi1. destruct (Hnames0 n1 o1 Hi1) as (Hn & _). unfold tname in *.
      destruct (mget m o1) as [v|] eqn:Hv; [|discriminate]. rewrite (P12 _ _ Hv). exact Hn. }
  assert (Hwf' : wf_reg m2 tm').
  { eapply replace_types_wf; [exact Hwf0| |exact Hrt]. intros n1 y Hin1.
    destruct (clone_entries_v' n0 _ _ _ _ Hgok Hsrc Hct n1 y Hin1) as (o1 & _ & _ & Hc).
    apply (tcopy_pres _ _ _ _ _ (g_pres _ _ _ G2)) in Hc.
    destruct Hc as (k & d & ms & ifs & r & ds & ms' & _ & B & _). unfold tname. rewrite B. reflexivity. }
  (* the source's cells *)
  set (S := fun x => mget m x <> None).
  assert (HS2 : forall x, S x -> mget m2 x = mget m x).
  { intros x Hx. unfold S in Hx. destruct (mget m x) as [v|] eqn:Hv; [|congruence]. apply P12. exact Hv. }
  assert (Hkeys : forall k, In k (map fst (s_types s)) -> alookup k tm' <> None).
  { intros k Hk. apply in_map_iff in Hk. destruct Hk as ([k1 o1] & <- & Hi1). simpl.
    eapply replace_types_keeps; [exact N1| |exact Hrt]. rewrite (Hreg0 _ _ Hi1). discriminate. }
  assert (Hmain : forall mf, ext tm' m2 mf -> (forall x, S x -> mget mf x = mget m2 x) ->
            (forall o L, IK tm' m2 o L -> IK tm' mf o L) ->
            forall n t, In (n, t) (s_types s) -> is_builtin t = false ->
              exists t', alookup n tm' = Some t' /\ type_cloned mf n t t' /\ type_linked tm' mf t t' /\
                forall k d ms ifs r ds, mget m t = Some (OType n k d ms ifs r ds) -> IK tm' mf t' ifs).
  { intros mf Hemf HSmf Hikmf n t Hin Hnb.
    destruct (clone_entries_v n0 _ _ _ _ Hgok Hsrc Hct n t Hin Hnb) as (t' & Htu & Hc1).
    pose proof (tcopy_pres _ _ _ _ _ (g_pres _ _ _ G2) Hc1) as Hc2.
    assert (Hlk : alookup n tm' = Some t').
    { eapply replace_types_lookup; [exact Hndu|exact Htu| |exact Hrt]. rewrite (Hreg0 n t Hin). discriminate. }
    exists t'. split; [exact Hlk|].
    assert (St : S t).
    { unfold S. pose proof (wf_names _ _ Hwf _ _ Hin) as Hn. unfold tname in Hn. destruct (mget m t); [discriminate|discriminate]. }
    assert (Hmem : forall k d ms ifs r ds, mget m2 t = Some (OType n k d ms ifs r ds) ->
              forall x, In x ms -> S x /\ forall a, In a (oargs m2 x) -> S a).
    { intros k d ms ifs r ds Hg2.
      rewrite (HS2 t St) in Hg2. pose proof (wf_typed _ _ Hwf _ _ Hin Hnb) as Htt. unfold type_typed in Htt. rewrite Hg2 in Htt.
      assert (Hleaf : forall l, Forall (leaf m) l -> forall x, In x l -> S x /\ oargs m x = []).
      { intros l Hl x Hx. rewrite Forall_forall in Hl. specialize (Hl x Hx). unfold leaf in Hl. unfold S, oargs.
        destruct (mget m x) as [[| | | |]|]; try contradiction; split; try discriminate; reflexivity. }
      assert (Hfld : Forall (field_typed m) ms -> forall x, In x ms -> S x /\ forall a, In a (oargs m2 x) -> S a).
      { intros Hl x Hx. rewrite Forall_forall in Hl. specialize (Hl x Hx). unfold field_typed in Hl.
        assert (Sx : S x) by (unfold S; destruct (mget m x); [discriminate|contradiction]).
        split; [assumption|]. intros a Ha. unfold oargs in Ha. rewrite (HS2 x Sx) in Ha.
        destruct (mget m x) as [[| | | |]|]; try contradiction. exact (proj1 (Hleaf _ Hl a Ha)). }
      assert (Hlf : Forall (leaf m) ms -> forall x, In x ms -> S x /\ forall a, In a (oargs m2 x) -> S a).
      { intros Hl x Hx. destruct (Hleaf _ Hl x Hx) as (Sx & Ho). split; [assumption|].
        intros a Ha. unfold oargs in Ha, Ho. rewrite (HS2 x Sx) in Ha. rewrite Ho in Ha. destruct Ha. }
      destruct k; auto; subst ms; intros x []. }
    split; [eapply (tcopy_cloned tm' m2 mf S); [exact Hemf|exact HSmf|exact St|exact Hmem|exact Hc2]|].
    split; [eapply (tcopy_linked tm' m2 mf S); [exact Hemf|exact HSmf|exact St|exact Hmem|exact Hc2]|].
    intros k d ms ifs r ds Hgt. apply Hikmf.
    destruct Hc2 as (k2 & d2 & ms2 & ifs2 & r2 & ds2 & ms2' & A & B & _).
    rewrite (P12 _ _ Hgt) in A. inversion A; subst k2 d2 ms2 ifs2 r2 ds2.
    exists n, k, d, ms2', ifs, r, ds. split; [exact B|].
    pose proof (cl_types _ _ Hcl) as Hty. rewrite Forall_forall in Hty. specialize (Hty _ Hin Hnb).
    unfold type_ok in Hty. rewrite Forall_forall in Hty. unfold children in Hty. simpl in Hty. rewrite Hgt in Hty.
    assert (Hall : (forall i, In i ifs -> reg m (s_types s) i) -> Forall2 (same_name m2) ifs ifs /\ ires tm' m2 ifs).
    { intros Hr.
      assert (Hnm : forall i, In i ifs -> exists nm, tname m2 i = Some nm /\ alookup nm tm' <> None).
      { intros i Hi. destruct (Hr i Hi) as (nm & Hn & Hl). exists nm. split.
        - unfold tname in *. destruct (mget m i) as [v|] eqn:Hv; [|discriminate]. rewrite (P12 _ _ Hv). exact Hn.
        - apply Hkeys. apply in_map_iff. exists (nm, i). split; [reflexivity|apply alookup_In; exact Hl]. }
      split.
      - clear - Hnm. induction ifs as [|i l IH]; constructor.
        + destruct (Hnm i (or_introl eq_refl)) as (nm & A & _). exists nm. auto.
        + apply IH. intros j Hj. apply Hnm. right; exact Hj.
      - apply Forall_forall. exact Hnm. }
    destruct k; try reflexivity.
    - apply Hall. intros i Hi. apply Hty. apply in_or_app. left. exact Hi.
    - apply Hall. intros i Hi. apply Hty. exact Hi. }
  pose proof (build_sub _ _ _ _ Hb Hcl Hwf Hbi Hb0) as Hsub0.
  assert (Hback : forall n1 o, In (n1, o) tm' -> is_builtin o = false -> exists t, In (n1, t) (s_types s) /\ is_builtin t = false).
  { intros n1 o Hi1 Hbo.
    destruct (replace_types_in_strict _ _ _ _ _ _ _ _ (proj1 Hwf0) Hrt Hi1) as [Hu|[Ho Hno]].
    - destruct (clone_entries_v' n0 _ _ _ _ Hgok Hsrc Hct n1 o Hu) as (o1 & Hio1 & Hbo1 & _). exists o1. auto.
    - exfalso. destruct (K1 n1 o (Hsub0 _ Ho) Hbo) as (y & Hy). exact (Hno _ Hy). }
  assert (Htres : forall n1 o, In (n1, o) tm' -> is_builtin o = false -> tres tm' m2 o).
  { intros n1 o Hi1 Hbo.
    destruct (replace_types_in_strict _ _ _ _ _ _ _ _ (proj1 Hwf0) Hrt Hi1) as [Hu|[Ho Hno]].
    - destruct (clone_entries_v' n0 _ _ _ _ Hgok Hsrc Hct n1 o Hu) as (o1 & Hio1 & Hbo1 & Hc).
      apply (tcopy_pres _ _ _ _ _ (g_pres _ _ _ G2)) in Hc.
      eapply tcopy_tres; [exact Hc|]. eapply closed_tres; eauto.
    - exfalso. destruct (K1 n1 o (Hsub0 _ Ho) Hbo) as (y & Hy). exact (Hno _ Hy). }
  (* the directive objects *)
  assert (Hd0 : s_dirs s0 = s_dirs s).
  { clear - Hb0 Hwf. unfold build in Hb0.
    rewrite (build_dirs_exact m (s_dirs s) [] (wf_dnames _ _ Hwf) (wf_dkeys _ _ Hwf)) in Hb0.
    unfold obind in Hb0 at 1.
    match type of Hb0 with obind ?x _ = _ => destruct x; simpl in Hb0; try discriminate end.
    inversion Hb0; reflexivity. }
  destruct (clone_dentries_v n0 _ _ _ _ (gok_grow _ _ _ Hgok G1)
              (fun n1 d1 Hi1 => dir_typed_pres _ _ _ (g_pres _ _ _ G1) (wf_dtyped _ _ Hwf n1 d1 Hi1)) Hcd) as (Dfw & Dbw).
  destruct (clone_entries_keys _ _ _ _ _ _ (wf_dkeys _ _ Hwf) Hcd) as (Hnddu & _).
  assert (Hdmain : forall mf, ext tm' m2 mf -> (forall x, S x -> mget mf x = mget m2 x) ->
            forall n d, In (n, d) (s_dirs s) -> exists d', alookup n dm' = Some d' /\ dir_cloned tm' mf d d').
  { intros mf Hemf HSmf n d Hin. destruct (Dfw n d Hin) as (d' & Hu & Hc). exists d'.
    split; [eapply replace_dirs_lookup; eauto|].
    pose proof (wf_dtyped _ _ Hwf _ _ Hin) as Hdt. unfold dir_typed in Hdt.
    assert (Sd : S d) by (unfold S; destruct (mget m d); [discriminate|contradiction]).
    eapply (dcopy_cloned tm' m2 mf S); [exact Hemf|exact HSmf|exact Sd| |exact Hc].
    intros nd ds locs args Hg2 a Ha. rewrite (HS2 d Sd) in Hg2. rewrite Hg2 in Hdt.
    rewrite Forall_forall in Hdt. specialize (Hdt a Ha). unfold leaf in Hdt. unfold S.
    destruct (mget m a); [discriminate|contradiction]. }
  assert (Hdres : forall n d', In (n, d') dm' -> dres tm' m2 d').
  { intros n d' Hin.
    assert (Hnd0 : NoDup (map fst (s_dirs s0))) by (rewrite Hd0; exact (wf_dkeys _ _ Hwf)).
    destruct (proj2 (replace_dirs_spec _ _ _ Hnd0 Hrd) n d' Hin) as [Hu|[Ho Hno]].
    - destruct (Dbw n d' Hu) as (d & Hd & (nd & ds & locs & args & args' & A & B & C)).
      unfold dres. rewrite B.
      pose proof (wf_dtyped _ _ Hwf _ _ Hd) as Hdt. unfold dir_typed in Hdt.
      assert (Sd : S d) by (unfold S; destruct (mget m d); [discriminate|contradiction]).
      rewrite (HS2 d Sd) in A. rewrite A in Hdt.
      pose proof (cl_dirs _ _ Hcl) as Hdo. rewrite Forall_forall in Hdo. specialize (Hdo _ Hd). simpl in Hdo.
      unfold dir_ok in Hdo. rewrite Forall_forall in Hdo. unfold dir_args in Hdo. rewrite A in Hdo.
      assert (Hsrc_args : Forall (resm tm' m2) args).
      { rewrite Forall_forall in Hdt. apply Forall_forall. intros a Ha.
        eapply (leaf_resm tm' m m2 s); [exact P12|exact Hkeys|exact (Hdt a Ha)|].
        intros c Hc. apply Hdo. apply in_flat_map. exists a. split; assumption. }
      clear - C Hsrc_args. induction C as [|a a' l l' Ha Hl IH]; [constructor|].
      inversion Hsrc_args; subst. constructor; [eapply vcopy_resm; eauto|auto].
    - exfalso. rewrite Hd0 in Ho. destruct (K2 n d' Ho eq_refl) as (y & Hy). exact (Hno _ Hy). }
  destruct b.
  - (* the references of the copies are healed; nothing is dropped *)
    match type of H with obind (heal_from fuel m2 ?s1) _ = _ =>
      destruct (heal_from fuel m2 s1) as [[m3 s3]| | |] eqn:Hrec; simpl in H; try discriminate;
      destruct (heal_from_nodrop_full tm' fuel m2 s1 m3 s3 eq_refl (g_fresh _ _ _ G12) Hwf' Htres Hdres Hrec) as (Hreg3 & Hdirs3 & He3 & Hf3 & Hik3);
      destruct (heal_from_nodrop_roots tm' fuel m2 s1 m3 s3 eq_refl (g_fresh _ _ _ G12) Hwf' Htres Hrec) as (Q3 & M3 & S3) end.
    inversion H; subst m' s'. cbn [s_types s_dirs s_query s_mut s_sub s_impls s_poss rebuild_caches]. rewrite Hreg3, Hdirs3.
    cbn [s_types s_dirs s_query s_mut s_sub s_impls s_poss].
    assert (HS3 : forall x, S x -> mget m3 x = mget m2 x).
    { intros x Sx. rewrite (HS2 x Sx). unfold S in Sx. destruct (mget m x) as [v|] eqn:Hv; [|congruence].
      rewrite <- Hv. apply (fr_frame _ _ _ Fown). eapply Hex; eauto. }
    split; [split; [exact Hf3|split; [eapply wf_reg_ext; eauto|split; [exact Hback|]]]|].
    { intros n1 o Hi1 Hbo. eapply tres_ext; [exact He3|]. apply (Htres n1 o Hi1 Hbo). }
    split; [apply (Hmain m3 He3); [exact HS3|exact Hik3]|]. split; [apply (Hdmain m3 He3 HS3)|].
    intros _.
    assert (Hups : forall n1 y, In (n1, Some y) tu -> tname m2 y = Some n1).
    { intros n1 y Hin1. destruct (clone_entries_v' n0 _ _ _ _ Hgok Hsrc Hct n1 y Hin1) as (o1 & _ & _ & Hc).
      apply (tcopy_pres _ _ _ _ _ (g_pres _ _ _ G2)) in Hc.
      destruct Hc as (k & d & ms & ifs & r & ds & ms' & _ & B & _). unfold tname. rewrite B. reflexivity. }
    assert (Hnd0 : NoDup (map fst (s_dirs s0))) by (rewrite Hd0; exact (wf_dkeys _ _ Hwf)).
    split; [exact (replace_busted_closed _ _ _ _ _ _ _ _ (g_fresh _ _ _ G12) Hwf0 Hnd0 Hups Hrt H0)|].
    destruct (build_roots _ _ _ _ _ _ _ _ Hb0) as (Rq & Rm & Rs & _ & _).
    simpl in Q3, M3, S3.
    assert (Hl3 : lookup_ok m3 tm') by (apply wf_reg_lookup; eapply wf_reg_ext; eauto).
    assert (Hroot : forall r, root_ok m (s_types s) r -> reroot m2 tm' r = reroot m tm' r).
    { intros [o|] Hr; [|reflexivity]. simpl in Hr. destruct Hr as (nm & Hn & _). simpl. rewrite Hn.
      unfold tname in *. destruct (mget m o) as [v|] eqn:Hv; [|discriminate]. rewrite (P12 _ _ Hv). rewrite Hn. reflexivity. }
    split.
    { intros s0' Hb0'. inversion Hb0'; subst s0'.
      eapply replace_types_keys_eq; [exact N1|exact Hrt]. }
    split.
    { rewrite <- Hd0. eapply replace_dirs_keys_eq; [|exact Hrd]. intros n1 r1 Hr1. split; [exact (N2 n1 r1 Hr1)|].
      rewrite Hd0. destruct (clone_entries_keys _ _ _ _ _ _ (wf_dkeys _ _ Hwf) Hcd) as (_ & Hsub).
      apply Hsub. apply in_map_iff. exists (n1, r1). split; [reflexivity|exact Hr1]. }
    split; [rewrite Q3, (reroot_twice m2 m3 tm' _ Hl3), Rq; apply Hroot; exact (cl_query _ _ Hcl)|].
    split; [rewrite M3, (reroot_twice m2 m3 tm' _ Hl3), Rm; apply Hroot; exact (cl_mut _ _ Hcl)|].
    split; [rewrite S3, (reroot_twice m2 m3 tm' _ Hl3), Rs; apply Hroot; exact (cl_sub _ _ Hcl)|].
    split; reflexivity.
  - inversion H; subst m' s'. cbn [s_types s_dirs s_query s_mut s_sub s_impls s_poss]. split; [split; [exact (g_fresh _ _ _ G12)|split; [exact Hwf'|split; [exact Hback|exact Htres]]]|].
    split; [apply (Hmain m2 (ext_refl tm' m2)); auto|]. split; [apply (Hdmain m2 (ext_refl tm' m2)); auto|].
    intros (n1 & o1 & Hin1 & Hbo1). exfalso.
    destruct (K1 n1 o1 Hin1 Hbo1) as (y & Hy).
    destruct (replace_types_unbusted _ _ _ _ _ Hrt) as (_ & _ & Hall).
    pose proof (Hall n1 (Some y) o1 Hy (Hreg0 n1 o1 Hin1)) as He. inversion He; subst y.
    pose proof (U1 n1 o1 Hy) as Hge.
    pose proof (wf_names _ _ Hwf _ _ Hin1) as Hn1. unfold tname in Hn1.
    destruct (mget m o1) as [v|] eqn:Hv; [|discriminate]. pose proof (Hex _ _ Hv). lia.
Qed.
