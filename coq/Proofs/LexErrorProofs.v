(* The lexer model rejects a text with class k at offset p exactly when
   Spec/LexErrorSpec.v says so. *)
From PyGql Require Import Lang.Lexer Spec.LexSpec Spec.LexicalSpec Spec.LexErrorSpec
  Proofs.LexProofs Proofs.LexTotal Proofs.LexicalProofs.
Local Open Scope N_scope.

Ltac inv_rej H := injection H as <- <-.

(* ---- "..." ---- *)
Lemma read_ellipsis_bad r pos k p :
  read_ellipsis (46 :: r) pos = Rejected k p -> exists off, p = (pos + off)%nat /\ bad_dots (46 :: r) k off.
Proof.
  unfold read_ellipsis. simpl.
  destruct r as [|c2 r2]; [intros H; inv_rej H; exists 1%nat; split; [reflexivity|constructor]|].
  destruct (N.eqb_spec c2 46) as [->|H2]; simpl.
  2:{ intros H; inv_rej H. exists 2%nat. split; [reflexivity|constructor; exact H2]. }
  destruct r2 as [|c3 r3]; [intros H; inv_rej H; exists 2%nat; split; [reflexivity|constructor]|].
  destruct (N.eqb_spec c3 46) as [->|H3]; simpl; [discriminate|].
  intros H; inv_rej H. exists 3%nat. split; [reflexivity|constructor; exact H3].
Qed.

(* ---- character classes ---- *)
Lemma is_hex_true c : is_hex c = true <-> HexChar c.
Proof.
  split; [intros H; exists (hex_val c); apply is_hex_spec; exact H|].
  intros [v H]. apply (HexDigit_is_hex c v H).
Qed.

Lemma is_hex_false c : is_hex c = false <-> ~ HexChar c.
Proof. rewrite <- is_hex_true. destruct (is_hex c); split; congruence. Qed.

Lemma quoted_char_none e : quoted_char e = None <-> ~ EscapeLetter e.
Proof.
  split.
  - intros H [d Hd]. apply quoted_char_spec in Hd. congruence.
  - intros H. destruct (quoted_char e) as [d|] eqn:E; [|reflexivity].
    exfalso. apply H. exists d. apply quoted_char_spec. exact E.
Qed.

Lemma not_printable_not_source c : c <> 10 -> c <> 13 -> (is_printable c = false <-> ~ SourceCharacter c).
Proof.
  intros H1 H2. unfold is_printable, SourceCharacter.
  rewrite orb_false_iff, N.leb_gt, N.eqb_neq. split; [lia|]. intros H. split; lia.
Qed.

(* ---- quoted strings ---- *)
Lemma read_string_bad : forall n rest pos acc k p, (length rest <= n)%nat ->
  read_string rest pos acc = Rejected k p -> exists off, p = (pos + off)%nat /\ bad_string rest k off.
Proof.
  induction n as [|n IH]; intros rest pos acc k p Hn H.
  - destruct rest; [|simpl in Hn; lia]. simpl in H. inv_rej H.
    exists 0%nat. split; [lia|]. constructor. constructor.
  - destruct rest as [|c r].
    { simpl in H. inv_rej H. exists 0%nat. split; [lia|]. constructor. constructor. }
    simpl in Hn. simpl in H.
    destruct (N.eqb_spec c 34) as [->|Hq]; [discriminate|].
    destruct (N.eqb_spec c 92) as [->|Hb].
    { destruct r as [|x r2].
      { inv_rej H. exists 2%nat. split; [reflexivity|]. constructor. constructor. }
      simpl in Hn.
      destruct (quoted_char x) as [d|] eqn:Eq.
      - apply IH in H; [|lia]. destruct H as (off & -> & Hbs).
        exists (2 + off)%nat. split; [lia|]. apply BS_esc with d; [apply quoted_char_spec; exact Eq|exact Hbs].
      - apply quoted_char_none in Eq.
        destruct (N.eqb_spec x 117) as [->|Hx]; simpl in H.
        2:{ inv_rej H. exists 1%nat. split; [reflexivity|]. constructor. constructor; assumption. }
        destruct r2 as [|h1 r3].
        { inv_rej H. exists 3%nat. split; [reflexivity|]. constructor.
          apply (BST_uni_eof []); [constructor|simpl; lia]. }
        destruct (is_hex h1) eqn:E1; simpl in H.
        2:{ inv_rej H. exists 1%nat. split; [reflexivity|]. constructor.
            apply (BST_uni_bad [] h1 r3); [constructor|simpl; lia|apply is_hex_false; exact E1]. }
        apply is_hex_true in E1.
        destruct r3 as [|h2 r4].
        { inv_rej H. exists 4%nat. split; [reflexivity|]. constructor.
          apply (BST_uni_eof [h1]); [repeat constructor; assumption|simpl; lia]. }
        destruct (is_hex h2) eqn:E2; simpl in H.
        2:{ inv_rej H. exists 1%nat. split; [reflexivity|]. constructor.
            apply (BST_uni_bad [h1] h2 r4); [repeat constructor; assumption|simpl; lia|apply is_hex_false; exact E2]. }
        apply is_hex_true in E2.
        destruct r4 as [|h3 r5].
        { inv_rej H. exists 5%nat. split; [reflexivity|]. constructor.
          apply (BST_uni_eof [h1; h2]); [repeat constructor; assumption|simpl; lia]. }
        destruct (is_hex h3) eqn:E3; simpl in H.
        2:{ inv_rej H. exists 1%nat. split; [reflexivity|]. constructor.
            apply (BST_uni_bad [h1; h2] h3 r5); [repeat constructor; assumption|simpl; lia|apply is_hex_false; exact E3]. }
        apply is_hex_true in E3.
        destruct r5 as [|h4 r6].
        { inv_rej H. exists 6%nat. split; [reflexivity|]. constructor.
          apply (BST_uni_eof [h1; h2; h3]); [repeat constructor; assumption|simpl; lia]. }
        destruct (is_hex h4) eqn:E4; simpl in H.
        2:{ inv_rej H. exists 1%nat. split; [reflexivity|]. constructor.
            apply (BST_uni_bad [h1; h2; h3] h4 r6); [repeat constructor; assumption|simpl; lia|apply is_hex_false; exact E4]. }
        apply is_hex_true in E4. simpl in Hn.
        apply IH in H; [|lia]. destruct H as (off & -> & Hbs).
        exists (6 + off)%nat. split; [lia|]. apply BS_uni; assumption. }
    destruct ((c =? 10) || (c =? 13)) eqn:Enl.
    { inv_rej H. exists 0%nat. split; [lia|]. constructor. apply BST_newline.
      apply orb_true_iff in Enl. rewrite !N.eqb_eq in Enl. exact Enl. }
    apply orb_false_iff in Enl. rewrite !N.eqb_neq in Enl. destruct Enl as [Hlf Hcr].
    destruct (is_printable c) eqn:Ep; simpl in H.
    2:{ inv_rej H. exists 0%nat. split; [lia|]. constructor. apply BST_invalid.
        apply not_printable_not_source; assumption. }
    apply IH in H; [|lia]. destruct H as (off & -> & Hbs).
    exists (S off). split; [lia|]. apply BS_char; [apply printable_plain; assumption|exact Hbs].
Qed.

(* ---- block strings ---- *)
Lemma read_block_bad : forall n rest pos acc k p, (length rest <= n)%nat ->
  read_block rest pos acc = Rejected k p -> exists off, p = (pos + off)%nat /\ bad_block rest k off.
Proof.
  induction n as [|n IH]; intros rest pos acc k p Hn H.
  - destruct rest; [|simpl in Hn; lia]. simpl in H. inv_rej H. exists 0%nat. split; [lia|constructor].
  - destruct rest as [|c r]. { simpl in H. inv_rej H. exists 0%nat. split; [lia|constructor]. }
    simpl in Hn. cbn [read_block] in H.
    destruct (starts_3q (c :: r)) eqn:E3; [discriminate|]. apply starts_3q_false in E3.
    assert (Hplain : forall (Hnesc : ~ (c = 92 /\ triple_quote r)),
              SourceCharacter c -> read_block r (S pos) (c :: acc) = Rejected k p ->
              exists off, p = (pos + off)%nat /\ bad_block (c :: r) k off).
    { intros Hnesc Hsc Hr. apply IH in Hr; [|lia]. destruct Hr as (off & -> & Hb).
      exists (S off). split; [lia|]. apply BB_char; assumption. }
    destruct (N.eqb_spec c 92) as [->|Hc].
    + assert (Hsc : SourceCharacter 92) by (unfold SourceCharacter; lia).
      destruct r as [|q1 [|q2 [|q3 r3]]];
        try (apply Hplain; [intros [_ [x Hx]]; discriminate|exact Hsc|exact H]).
      destruct ((q1 =? 34) && (q2 =? 34) && (q3 =? 34)) eqn:Eq.
      * rewrite !andb_true_iff, !N.eqb_eq in Eq. destruct Eq as [[-> ->] ->].
        apply IH in H; [|simpl in Hn; lia]. destruct H as (off & -> & Hb).
        exists (4 + off)%nat. split; [lia|]. apply BB_esc; exact Hb.
      * apply Hplain; [|exact Hsc|exact H].
        intros [_ [x Hx]]. inversion Hx; subst. simpl in Eq. discriminate.
    + destruct (negb ((32 <=? c) || (c =? 9) || (c =? 10) || (c =? 13))) eqn:Es.
      * inv_rej H. exists 0%nat. split; [lia|]. apply BB_invalid. intros Hs.
        apply block_source_char in Hs. congruence.
      * apply Hplain; [intros [? _]; contradiction|apply block_source_char; exact Es|exact H].
Qed.

(* ---- numbers ---- *)
Lemma read_over_digits_bad rest pos k p :
  read_over_digits rest pos = Rejected k p -> p = pos /\ no_digits rest k.
Proof.
  unfold read_over_digits. destruct rest as [|c r]; [intros H; inv_rej H; split; [reflexivity|constructor]|].
  destruct (is_digit c) eqn:Ed; [destruct (span is_digit (c :: r)); discriminate|].
  intros H; inv_rej H. split; [reflexivity|]. constructor. apply is_digit_false; exact Ed.
Qed.

Lemma read_over_integer_bad rest pos k p :
  read_over_integer rest pos = Rejected k p ->
  (p = pos /\ no_digits rest k)
  \/ (exists d r, rest = 48 :: d :: r /\ Digit d /\ k = E_UnexpectedCharacter /\ p = S pos).
Proof.
  unfold read_over_integer. destruct rest as [|c r]; [intros H; inv_rej H; left; split; [reflexivity|constructor]|].
  destruct (N.eqb_spec c 48) as [->|Hc].
  - destruct r as [|d r']; [discriminate|]. destruct (is_digit d) eqn:Ed; [|discriminate].
    intros H; inv_rej H. right. exists d, r'. split; [reflexivity|split; [apply is_digit_spec; exact Ed|split; reflexivity]].
  - intros H. left. apply read_over_digits_bad; exact H.
Qed.

Lemma exp_indicator_b c : (c =? 101) || (c =? 69) = true <-> exp_indicator c.
Proof. unfold exp_indicator. rewrite orb_true_iff, !N.eqb_eq. tauto. Qed.

(* fraction, exponent and look-ahead stages, after an integer part *)
Lemma number_rest_bad ip r2 pos k p :
  IntegerPart ip ->
  (do x3 <- read_fraction r2 (pos + length ip);
   do x4 <- read_exponent (fst (fst x3)) (snd (fst x3)) (snd x3);
   number_lookahead x4) = Rejected k p ->
  exists off, p = (pos + off)%nat /\ bad_number (ip ++ r2) k off.
Proof.
  intros Hip.
  destruct (read_fraction r2 (pos + length ip)) as [[[fl3 r3] p3]| |k3 p3'|] eqn:E3; cbn [obind fst snd]; try discriminate.
  2:{ intros H; inv_rej H. unfold read_fraction in E3.
      destruct r2 as [|c r]; [discriminate|]. destruct (N.eqb_spec c 46) as [->|]; [|discriminate].
      destruct (read_over_digits r (S (pos + length ip))) as [[r' p']| |k' p''|] eqn:E; cbn [obind] in E3; try discriminate.
      inv_rej E3. apply read_over_digits_bad in E. destruct E as [-> Hnd].
      exists (length ip + 1)%nat. split; [lia|]. apply BN_frac; assumption. }
  (* the mantissa *)
  assert (Hm : exists m, Mantissa m /\ ip ++ r2 = m ++ r3 /\ p3 = (pos + length m)%nat).
  { destruct (read_fraction_sound _ _ _ _ _ E3) as [(_ & -> & -> & _)|(_ & fp & -> & Hfp & -> & _)].
    - exists ip. split; [constructor; exact Hip|split; reflexivity].
    - exists (ip ++ fp). split; [constructor; assumption|]. rewrite app_assoc, app_length. split; [reflexivity|lia]. }
  destruct Hm as (m & Hm & -> & ->). clear E3.
  unfold read_exponent. destruct r3 as [|c r].
  { cbn [obind]. unfold number_lookahead. simpl. discriminate. }
  destruct ((c =? 101) || (c =? 69)) eqn:Ec.
  - apply exp_indicator_b in Ec.
    destruct (read_over_digits (fst (read_exp_sign r (S (pos + length m)))) (snd (read_exp_sign r (S (pos + length m)))))
      as [[r' p']| |k' p''|] eqn:E; cbn [obind fst snd]; try discriminate.
    + (* exponent read: look-ahead *)
      destruct (read_over_digits_sound _ _ _ _ E) as (ds & Hl & Hd & -> & Hr).
      unfold number_lookahead. cbn [fst snd]. destruct r' as [|c' r'']; [discriminate|].
      destruct (is_name_start c') eqn:En; [|discriminate]. intros H; inv_rej H.
      apply is_name_start_spec in En.
      unfold read_exp_sign in Hl |- *. destruct r as [|sg r0].
      { simpl in Hl. destruct ds; [destruct Hd; congruence|discriminate]. }
      destruct ((sg =? 43) || (sg =? 45)) eqn:Es; cbn [fst snd] in Hl |- *.
      * exists (length m + length (c :: [sg] ++ ds))%nat. split; [simpl; lia|].
        rewrite Hl. change (m ++ c :: sg :: ds ++ c' :: r'') with (m ++ (c :: [sg] ++ ds) ++ c' :: r'').
        apply BN_follow_exp; [exact Hm| |exact En].
        constructor; [exact Ec| |exact Hd]. apply orb_true_iff in Es. rewrite !N.eqb_eq in Es. destruct Es as [->| ->]; auto.
      * exists (length m + length (c :: [] ++ ds))%nat. split; [simpl; lia|].
        rewrite Hl. change (m ++ c :: ds ++ c' :: r'') with (m ++ (c :: [] ++ ds) ++ c' :: r'').
        apply BN_follow_exp; [exact Hm| |exact En]. constructor; [exact Ec|auto|exact Hd].
    + (* no digits in the exponent *)
      intros H; inv_rej H. apply read_over_digits_bad in E. destruct E as [-> Hnd].
      unfold read_exp_sign in Hnd |- *. destruct r as [|sg r0].
      { cbn [fst snd] in *. exists (length m + 1 + 0)%nat. split; [lia|].
        apply (BN_exp m c [] []); auto. }
      destruct ((sg =? 43) || (sg =? 45)) eqn:Es; cbn [fst snd] in Hnd |- *.
      * exists (length m + 1 + 1)%nat. split; [lia|].
        apply (BN_exp m c [sg] r0); auto.
        -- apply orb_true_iff in Es. rewrite !N.eqb_eq in Es. destruct Es as [->| ->]; auto.
        -- intros; discriminate.
      * exists (length m + 1 + 0)%nat. split; [lia|].
        apply (BN_exp m c [] (sg :: r0)); auto.
        intros _ Hs. simpl in Hs. apply orb_false_iff in Es. rewrite !N.eqb_neq in Es. destruct Es. destruct Hs; contradiction.
  - (* no exponent: look-ahead *)
    cbn [obind]. unfold number_lookahead. cbn [fst snd].
    destruct (is_name_start c) eqn:En; [|discriminate]. intros H; inv_rej H.
    exists (length m). split; [reflexivity|]. apply BN_follow_mantissa; [exact Hm|apply is_name_start_spec; exact En|].
    intros He. apply exp_indicator_b in He. congruence.
Qed.

Lemma read_number_bad c r pos k p : c = 45 \/ Digit c ->
  read_number (c :: r) pos = Rejected k p -> exists off, p = (pos + off)%nat /\ bad_number (c :: r) k off.
Proof.
  intros Hc. unfold read_number, read_sign.
  destruct (N.eqb_spec c 45) as [->|Hne]; cbn [fst snd].
  - destruct (read_over_integer r (S pos)) as [[r2 p2]| |k2 p2'|] eqn:E2; cbn [obind fst snd]; try discriminate.
    + destruct (read_over_integer_sound _ _ _ _ E2) as (u & -> & Hu & -> & _).
      replace (S pos + length u)%nat with (pos + length (45%N :: u))%nat by (unfold str, char in *; simpl; lia).
      intros H. apply (number_rest_bad (45 :: u) r2 pos k p) in H; [exact H|constructor 2; exact Hu].
    + intros H; inv_rej H. destruct (read_over_integer_bad _ _ _ _ E2) as [[-> Hnd]|(d & r' & -> & Hd & -> & ->)].
      * exists 1%nat. split; [lia|]. constructor. exact Hnd.
      * exists 2%nat. split; [lia|]. apply (BN_zero [45] d r'); auto.
  - assert (Hd : Digit c) by (destruct Hc; [contradiction|assumption]).
    destruct (read_over_integer (c :: r) pos) as [[r2 p2]| |k2 p2'|] eqn:E2; cbn [obind fst snd]; try discriminate.
    + destruct (read_over_integer_sound _ _ _ _ E2) as (u & Eu & Hu & -> & _). rewrite Eu.
      intros H. apply (number_rest_bad u r2 pos k p) in H; [exact H|constructor 1; exact Hu].
    + intros H; inv_rej H. destruct (read_over_integer_bad _ _ _ _ E2) as [[-> Hnd]|(d & r' & E & Hd' & -> & ->)].
      * inversion Hnd; subst. contradiction.
      * injection E as -> ->. exists 1%nat. split; [lia|]. apply (BN_zero [] d r'); auto.
Qed.

(* ---- one lexeme ---- *)
Lemma token_start_lexeme_start r : token_start r <-> lexeme_start r.
Proof.
  destruct r as [|c r]; simpl; [tauto|]. rewrite <- is_ignored_spec.
  destruct (is_ignored c); split; intros [H1 H2]; split; congruence.
Qed.

Lemma printable_source c : is_printable c = true -> SourceCharacter c.
Proof. unfold is_printable, SourceCharacter. rewrite orb_true_iff, N.leb_le, N.eqb_eq. lia. Qed.

Lemma next_token_bad rest pos k p : token_start rest ->
  next_token rest pos = Rejected k p -> exists off, p = (pos + off)%nat /\ bad_lexeme rest k off.
Proof.
  intros Hts H. unfold next_token in H. destruct rest as [|c r]; [discriminate|].
  simpl in Hts. destruct Hts as [Hig Hh].
  assert (Hnl : c <> 10 /\ c <> 13).
  { unfold is_ignored in Hig. rewrite !orb_false_iff, !N.eqb_neq in Hig. tauto. }
  destruct (is_printable c) eqn:Ep; cbn [negb] in H; cbv iota in H.
  2:{ inv_rej H. exists 1%nat. split; [lia|]. apply BL_invalid. apply not_printable_not_source; tauto. }
  destruct (symbol_kind c) as [kd|] eqn:Es; [discriminate|].
  destruct (N.eqb_spec c 46) as [->|H46].
  { destruct (read_ellipsis_bad _ _ _ _ H) as (off & -> & Hb). exists off. split; [reflexivity|]. apply BL_dots; exact Hb. }
  destruct (starts_3q (c :: r)) eqn:E3.
  { apply starts_3q_spec in E3. destruct E3 as [r0 E3]. rewrite E3 in *. cbn [skipn] in H. cbv iota in H.
    destruct (read_block r0 (pos + 3) []) as [[[raw r'] e]| |k' p'|] eqn:Eb; cbn [obind] in H; try discriminate.
    inv_rej H. apply (read_block_bad (length r0)) in Eb; [|apply le_n]. destruct Eb as (off & -> & Hb).
    exists (3 + off)%nat. split; [lia|]. apply BL_block; exact Hb. }
  apply starts_3q_false in E3.
  destruct (N.eqb_spec c 34) as [->|H34].
  { destruct (read_string r (S pos) []) as [[[v r'] e]| |k' p'|] eqn:Eb; cbn [obind] in H; try discriminate.
    inv_rej H. apply (read_string_bad (length r)) in Eb; [|apply le_n]. destruct Eb as (off & -> & Hb).
    exists (1 + off)%nat. split; [lia|]. apply BL_string; assumption. }
  destruct ((c =? 45) || is_digit c) eqn:En.
  { assert (Hc : c = 45 \/ Digit c).
    { apply orb_true_iff in En. rewrite N.eqb_eq, is_digit_spec in En. exact En. }
    destruct (read_number (c :: r) pos) as [[[fl r'] e]| |k' p'|] eqn:Eb; cbn [obind] in H; try discriminate.
    inv_rej H. destruct (read_number_bad _ _ _ _ _ Hc Eb) as (off & -> & Hb).
    exists off. split; [reflexivity|]. apply BL_number; assumption. }
  apply orb_false_iff in En. rewrite N.eqb_neq, is_digit_false in En. destruct En as [H45 Hnd].
  destruct (is_name_start c) eqn:Ens.
  { destruct (span is_name_cont (c :: r)); discriminate. }
  inv_rej H. exists 0%nat. split; [lia|]. apply BL_other; [apply printable_source; exact Ep|].
  repeat split; auto.
  - intros kd Hp. apply symbol_kind_punct in Hp. congruence.
  - apply is_name_start_false; exact Ens.
Qed.

(* ---- the whole text ---- *)
Lemma lex_from_bad : forall fuel rest pos k p,
  collect (lex_from fuel rest pos) = Rejected k p -> lex_error_from rest pos k p.
Proof.
  induction fuel as [|f IH]; intros rest pos k p H; [discriminate|]. simpl in H.
  destruct (skip_ws false rest pos) as [r1 p1] eqn:Ews.
  destruct (skip_ws_sound _ _ _ _ _ Ews) as (Hts & Hf & _).
  destruct (Hf eq_refl) as (ign & -> & Hi & ->).
  destruct (next_token r1 (pos + length ign)) as [[t r2]| |k' p'|] eqn:Ent; try discriminate.
  - destruct (next_token_Token _ _ _ _ Ent) as [[-> ->]|(lexeme & -> & Htok & Hs & He & Hk)].
    + simpl in H. discriminate.
    + assert (Ek : is_kind KEOF t = false).
      { unfold is_kind. destruct (tkind_eqb (tk t) KEOF) eqn:E; [apply tkind_eqb_eq in E; contradiction|reflexivity]. }
      rewrite Ek in H. simpl in H.
      destruct (collect (lex_from f r2 (tend t))) as [ts'| |k'' p''|] eqn:Ec; simpl in H; try discriminate.
      inv_rej H. apply IH in Ec. rewrite He in Ec. econstructor 2; eassumption.
  - simpl in H. inv_rej H. destruct (next_token_bad _ _ _ _ Hts Ent) as (off & -> & Hb).
    constructor; [exact Hi|apply token_start_lexeme_start; exact Hts|exact Hb].
Qed.

Theorem lex_error_sound s k p : lex s = Rejected k p -> lex_error s k p.
Proof.
  unfold lex, lex_stream, lex_error. cbn [collect]. intros H.
  destruct (collect (lex_from (lex_fuel s) s 0)) as [ts'| |k' p'|] eqn:E; cbn [obind] in H; try discriminate.
  inv_rej H. apply lex_from_bad with (fuel := lex_fuel s). exact E.
Qed.
