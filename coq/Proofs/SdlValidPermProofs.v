(* validate_schema (Schema/SdlBuild.v) does not depend on the order of the
   types / directive definitions of the schema (names being unique). *)
From PyGql Require Import Schema.SdlBuild Spec.SdlSpec Proofs.SdlProofs Proofs.SdlExactProofs Proofs.SdlOrderProofs.
From Coq Require Import Lia Sorting.Permutation.

Lemma forallb_ext {A} (p q : A -> bool) l : (forall x, p x = q x) -> forallb p l = forallb q l.
Proof. intros H. induction l as [|x l IH]; [reflexivity|]. cbn [forallb]. rewrite H, IH. reflexivity. Qed.

Lemma forallb_map {A B} (f : A -> B) (p : B -> bool) l : forallb p (map f l) = forallb (fun x => p (f x)) l.
Proof. induction l as [|x l IH]; [reflexivity|]. cbn [map forallb]. rewrite IH. reflexivity. Qed.

(* ---- (II) invariance under equal lookups / permutation ------------------ *)
Section Lookup.
  Variables sc sc' : schema.
  Hypothesis L : forall n, find_type n (s_types sc) = find_type n (s_types sc').

  Lemma skind_lookup n : skind sc n = skind sc' n.
  Proof. unfold skind. rewrite L. reflexivity. Qed.

  Lemma s_is_input_lookup t : s_is_input sc t = s_is_input sc' t.
  Proof. unfold s_is_input. rewrite skind_lookup. reflexivity. Qed.
  Lemma s_is_output_lookup t : s_is_output sc t = s_is_output sc' t.
  Proof. unfold s_is_output. rewrite skind_lookup. reflexivity. Qed.
  Lemma s_is_object_lookup n : s_is_object sc n = s_is_object sc' n.
  Proof. unfold s_is_object. rewrite skind_lookup. reflexivity. Qed.

  Lemma possible_type_lookup a b : possible_type sc a b = possible_type sc' a b.
  Proof. unfold possible_type. rewrite !L. reflexivity. Qed.

  Lemma is_subtype_lookup t : forall s, is_subtype sc t s = is_subtype sc' t s.
  Proof.
    induction t as [a|a IH|a IH]; intros s; cbn [is_subtype].
    - destruct s; try reflexivity. rewrite possible_type_lookup. reflexivity.
    - destruct s; try reflexivity. rewrite IH. reflexivity.
    - destruct s; rewrite ?IH; reflexivity.
  Qed.

  Lemma valid_args_lookup args : valid_args sc args = valid_args sc' args.
  Proof.
    unfold valid_args. f_equal. apply forallb_ext. intros a. rewrite s_is_input_lookup. reflexivity.
  Qed.

  Lemma valid_fields_lookup fs : valid_fields sc fs = valid_fields sc' fs.
  Proof.
    unfold valid_fields. f_equal. apply forallb_ext. intros f.
    rewrite s_is_output_lookup, valid_args_lookup. reflexivity.
  Qed.

  Lemma valid_implementation_lookup ofs i : valid_implementation sc ofs i = valid_implementation sc' ofs i.
  Proof.
    unfold valid_implementation. rewrite L. destruct (find_type i (s_types sc')) as [[]|]; try reflexivity.
    apply forallb_ext. intros f. destruct (find_field (sf_name f) ofs); [|reflexivity].
    rewrite is_subtype_lookup. reflexivity.
  Qed.

  Lemma valid_type_lookup t : valid_type sc t = valid_type sc' t.
  Proof.
    unfold valid_type. f_equal. destruct t; try reflexivity.
    - rewrite valid_fields_lookup. f_equal. apply forallb_ext. intros i. apply valid_implementation_lookup.
    - apply valid_fields_lookup.
    - f_equal. f_equal. apply forallb_ext. intros m. apply s_is_object_lookup.
    - f_equal. apply forallb_ext. intros f. rewrite s_is_input_lookup. reflexivity.
  Qed.

  Lemma valid_root_lookup r : valid_root sc r = valid_root sc' r.
  Proof. destruct r; [apply s_is_object_lookup|reflexivity]. Qed.
End Lookup.

Lemma forallb_perm {A} (p : A -> bool) l l' : Permutation l l' -> forallb p l = forallb p l'.
Proof.
  induction 1 as [|x l l' _ IH|x y l|l l' l'' _ IH1 _ IH2]; cbn [forallb].
  - reflexivity.
  - rewrite IH. reflexivity.
  - destruct (p x), (p y); reflexivity.
  - rewrite IH1. exact IH2.
Qed.

Lemma existsb_perm {A} (p : A -> bool) l l' : Permutation l l' -> existsb p l = existsb p l'.
Proof.
  induction 1 as [|x l l' _ IH|x y l|l l' l'' _ IH1 _ IH2]; cbn [existsb].
  - reflexivity.
  - rewrite IH. reflexivity.
  - destruct (p x), (p y); reflexivity.
  - rewrite IH1. exact IH2.
Qed.

Theorem validate_schema_perm sc sc' :
  Permutation (s_types sc) (s_types sc') -> Permutation (s_ddefs sc) (s_ddefs sc') ->
  NoDup (map tdef_name (s_types sc)) ->
  s_query sc = s_query sc' -> s_mutation sc = s_mutation sc' -> s_subscription sc = s_subscription sc' ->
  validate_schema sc = validate_schema sc'.
Proof.
  intros Pt Pd Hnd Rq Rm Rs.
  assert (L : forall n, find_type n (s_types sc) = find_type n (s_types sc')).
  { intros n. apply find_type_perm; assumption. }
  unfold validate_schema. rewrite <- Rq, <- Rm, <- Rs.
  rewrite !(valid_root_lookup sc sc' L).
  rewrite (forallb_perm _ _ _ Pt), (forallb_perm _ _ _ Pd).
  rewrite (forallb_ext _ _ (s_types sc') (valid_type_lookup sc sc' L)).
  f_equal. apply forallb_ext. intros d. rewrite (valid_args_lookup sc sc' L). reflexivity.
Qed.

