(* Fuel adequacy of collect_fields for every fragment-type test and both
   missing-fragment behaviours (the typed instance used by the executor):
   with acyclic fragments (a rank decreasing along spreads, what
   NoFragmentCycles guarantees) the traversal never runs out of fuel once it
   has enough. Same rank-based argument as Proofs/DepthTermination.v (whose
   definitions [spreads_list], [bounded], [acyclic] are reused), carried out
   for arbitrary [applies] / [missing_crashes]. *)
From PyGql Require Import Spec.DepthSpec Proofs.DepthProofs Proofs.DepthTermination.

Section TypedTermination.
  Variable applies : option ty -> bool.
  Variable frags : frag_table.
  Variable vs : vars.
  Variable mc : bool.
  Variable rank : str -> nat.
  Hypothesis Hacyc : acyclic frags rank.

  Notation cinto := (collect_into applies frags vs mc).
  Notation bounded := (bounded frags rank).

  Definition cinto_body (rec : list selection -> groups -> list str -> outcome (groups * list str))
             (ss : list selection) (g : groups) (local : list str) : outcome (groups * list str) :=
    match ss with
    | [] => Ok (g, local)
    | SField alias n args dirs sl sub l as f :: ss' =>
        do sk <- skip_selection dirs vs;
        if sk then rec ss' g local
        else rec ss' (add_group (response_name alias n) [f] g) local
    | SInline tc dirs ssl sub l :: ss' =>
        do sk <- skip_selection dirs vs;
        if sk || negb (applies tc) then rec ss' g local
        else
          do r <- rec sub [] local;
          rec ss' (merge_groups (fst r) g) (caller_view local (snd r))
    | SSpread n dirs l :: ss' =>
        let nm := n_val n in
        match alookup nm frags with
        | None => if mc then Crash CRASH_KEYERROR
                  else do sk <- skip_selection dirs vs; rec ss' g local
        | Some (tc, fsels) =>
            do sk <- skip_selection dirs vs;
            if sk || mem_str nm local || negb (applies (Some tc)) then rec ss' g local
            else
              do r <- rec fsels [] local;
              rec ss' (merge_groups (fst r) g) (nm :: caller_view local (snd r))
        end
    end.

  Lemma cinto_S_eq f ss g l : cinto (S f) ss g l = cinto_body (cinto f) ss g l.
  Proof. destruct ss as [|[| |] ss]; reflexivity. Qed.

  Lemma cinto_mono_S : forall f ss g l,
    cinto f ss g l <> OutOfFuel -> cinto (S f) ss g l = cinto f ss g l.
  Proof.
    induction f as [|f IH]; intros ss g l H; [exfalso; apply H; reflexivity|].
    remember (S f) as f1 eqn:Hf1. rewrite (cinto_S_eq f1). subst f1.
    rewrite (cinto_S_eq f ss g l). rewrite (cinto_S_eq f ss g l) in H.
    unfold cinto_body in *.
    destruct ss as [|sel ss]; [reflexivity|].
    destruct sel as [alias n args dirs sl sub lo | n dirs lo | tc dirs ssl sub lo].
    - destruct (skip_selection dirs vs) as [sk| | |]; cbn [obind] in *; try reflexivity.
      destruct sk; apply IH; exact H.
    - cbv zeta in *. destruct (alookup (n_val n) frags) as [[tc fsels]|].
      + destruct (skip_selection dirs vs) as [sk| | |]; cbn [obind] in *; try reflexivity.
        destruct (sk || mem_str (n_val n) l || negb (applies (Some tc))); [apply IH; exact H|].
        assert (Hn : cinto f fsels [] l <> OutOfFuel).
        { intro E. rewrite E in H. apply H; reflexivity. }
        rewrite (IH _ _ _ Hn).
        destruct (cinto f fsels [] l) as [r| | |]; cbn [obind] in *; try reflexivity.
        apply IH; exact H.
      + destruct mc; [reflexivity|].
        destruct (skip_selection dirs vs) as [sk| | |]; cbn [obind] in *; try reflexivity.
        apply IH; exact H.
    - destruct (skip_selection dirs vs) as [sk| | |]; cbn [obind] in *; try reflexivity.
      destruct (sk || negb (applies tc)); [apply IH; exact H|].
      assert (Hn : cinto f sub [] l <> OutOfFuel).
      { intro E. rewrite E in H. apply H; reflexivity. }
      rewrite (IH _ _ _ Hn).
      destruct (cinto f sub [] l) as [r| | |]; cbn [obind] in *; try reflexivity.
      apply IH; exact H.
  Qed.

  Lemma cinto_mono : forall k f ss g l,
    cinto f ss g l <> OutOfFuel -> cinto (k + f) ss g l = cinto f ss g l.
  Proof.
    induction k as [|k IH]; intros f ss g l H; [reflexivity|].
    change (S k + f) with (S (k + f)).
    rewrite cinto_mono_S; [apply IH; exact H|]. rewrite IH; exact H.
  Qed.

  Definition collect_terminates (ss : list selection) : Prop :=
    exists f0, forall f g l, f0 <= f -> cinto f ss g l <> OutOfFuel.

  Lemma collect_terminates_intro ss f0 :
    (forall g l, cinto f0 ss g l <> OutOfFuel) -> collect_terminates ss.
  Proof.
    intros H. exists f0. intros f g l Hle.
    replace f with ((f - f0) + f0) by lia. rewrite cinto_mono; apply H.
  Qed.

  (* ---- collect_fields terminates ---- *)
  Lemma collect_term : forall r ss, bounded r ss -> collect_terminates ss.
  Proof.
    induction r as [r IHr] using lt_wf_ind.
    assert (Hsel : forall sel, bounded r [sel] ->
              forall ss', collect_terminates ss' -> collect_terminates (sel :: ss')).
    { induction sel as [alias n args dirs sl sub lo Hsub | n dirs lo | tc dirs ssl sub lo Hsub]
        using selection_ind'; intros Hb ss' [f1 H1].
      - apply (collect_terminates_intro _ (S f1)). intros g l. rewrite cinto_S_eq; unfold cinto_body; cbv zeta.
        destruct (skip_selection dirs vs) as [sk| | |] eqn:Hsk; cbn [obind]; try discriminate;
          [|exfalso; eapply (skip_selection_not_oof vs); exact Hsk].
        destruct sk; apply H1; lia.
      - destruct (alookup (n_val n) frags) as [[tc fsels]|] eqn:Hlk.
        + assert (Hr : rank (n_val n) < r).
          { apply Hb; [left; reflexivity|congruence]. }
          destruct (IHr _ Hr fsels (Hacyc _ _ _ Hlk)) as [f2 H2].
          apply (collect_terminates_intro _ (S (Nat.max f1 f2))). intros g l. rewrite cinto_S_eq; unfold cinto_body; cbv zeta.
          rewrite Hlk.
          destruct (skip_selection dirs vs) as [sk| | |] eqn:Hsk; cbn [obind]; try discriminate;
          [|exfalso; eapply (skip_selection_not_oof vs); exact Hsk].
          destruct (sk || mem_str (n_val n) l || negb (applies (Some tc))); [apply H1; lia|].
          destruct (cinto (Nat.max f1 f2) fsels [] l) as [x| | |] eqn:Hn; cbn [obind]; try discriminate.
          * apply H1; lia.
          * exfalso. eapply H2; [|exact Hn]. lia.
        + apply (collect_terminates_intro _ (S f1)). intros g l. rewrite cinto_S_eq; unfold cinto_body; cbv zeta. rewrite Hlk.
          destruct mc; [discriminate|].
          destruct (skip_selection dirs vs) as [sk| | |] eqn:Hsk; cbn [obind]; try discriminate;
          [|exfalso; eapply (skip_selection_not_oof vs); exact Hsk].
          apply H1; lia.
      - assert (Hsubt : collect_terminates sub).
        { assert (Hbs : bounded r sub).
          { intros m Hm. apply Hb. unfold spreads_list; simpl. rewrite app_nil_r. exact Hm. }
          clear Hb. induction Hsub as [|x xs Hx _ IHxs].
          - apply (collect_terminates_intro _ 1). intros g l; discriminate.
          - apply bounded_cons in Hbs. destruct Hbs as [Hbx Hbxs]. apply Hx; auto. }
        destruct Hsubt as [f2 H2].
        apply (collect_terminates_intro _ (S (Nat.max f1 f2))). intros g l. rewrite cinto_S_eq; unfold cinto_body; cbv zeta.
        destruct (skip_selection dirs vs) as [sk| | |] eqn:Hsk; cbn [obind]; try discriminate;
          [|exfalso; eapply (skip_selection_not_oof vs); exact Hsk].
        destruct (sk || negb (applies tc)); [apply H1; lia|].
        destruct (cinto (Nat.max f1 f2) sub [] l) as [x| | |] eqn:Hn; cbn [obind]; try discriminate.
        + apply H1; lia.
        + exfalso. eapply H2; [|exact Hn]. lia. }
    induction ss as [|sel ss IHss]; intros Hb.
    - apply (collect_terminates_intro _ 1). intros g l; discriminate.
    - apply bounded_cons in Hb. destruct Hb as [Hb1 Hb2]. apply Hsel; auto.
  Qed.


  Lemma bounded_any ss : exists r, bounded r ss.
  Proof.
    unfold DepthTermination.bounded. induction (spreads_list ss) as [|m l [r IH]].
    - exists 0. intros m [].
    - exists (Nat.max r (S (rank m))). intros m' [<-|Hi] Hl; [lia|]. specialize (IH m' Hi Hl). lia.
  Qed.

  Theorem collect_fuel_adequate ss :
    exists f0, forall f g l, f0 <= f -> cinto f ss g l <> OutOfFuel.
  Proof. destruct (bounded_any ss) as [r Hr]. exact (collect_term r ss Hr). Qed.
End TypedTermination.
