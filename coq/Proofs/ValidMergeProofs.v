(* OverlappingFieldsCanBeMerged: what a silent model guarantees for every
   pair of fields with one response key inside a selection set (the pairwise
   core of FieldsInSetCanMerge). *)
From PyGql Require Import Valid.ValidOverlap Spec.ValidSpec Proofs.ValidCloseProofs Proofs.ValidVarProofs.
From Coq Require Import Lia.

Lemma same_value_sound : forall a b, same_value a b = true -> same_value_spec a b.
Proof.
  induction a as [n l|y l|y l|y bl l|bo l|l|y l|vs l IH|fs l IH] using value_ind';
    intros b H; destruct b; simpl in H; try discriminate.
  - apply str_eqb_eq in H. constructor. exact H.
  - apply str_eqb_eq in H. subst. constructor.
  - apply str_eqb_eq in H. subst. constructor.
  - apply str_eqb_eq in H. subst. constructor.
  - apply Bool.eqb_prop in H. subst. constructor.
  - constructor.
  - apply str_eqb_eq in H. subst. constructor.
  - constructor. revert vs0 H. induction vs as [|x xs IHxs]; intros [|y ys] H; try discriminate.
    + constructor.
    + apply andb_prop in H. destruct H as [H1 H2]. inversion IH; subst. constructor; [auto|]. apply IHxs; assumption.
  - constructor. revert fs0 H. induction fs as [|[[n x] fl] xs IHxs]; intros [|[[m y] gl] ys] H; try discriminate.
    + constructor.
    + apply andb_prop in H. destruct H as [H12 H3]. apply andb_prop in H12. destruct H12 as [H1 H2].
      inversion IH; subst. constructor.
      * simpl. split; [apply str_eqb_eq; exact H1|]. simpl in *. auto.
      * apply IHxs; assumption.
Qed.

Lemma arg_insert_In a x l : In a (arg_insert x l) <-> a = x \/ In a l.
Proof.
  induction l as [|b l IH]; simpl; [split; [intros [H|[]]; left; congruence|intros [H|[]]; left; congruence]|].
  destruct (str_ltb (n_val (a_name b)) (n_val (a_name x))); simpl.
  - rewrite IH. split; [intros [H|[H|H]]; auto|intros [H|[H|H]]; auto].
  - split; [intros [H|[H|H]]; auto|intros [H|[H|H]]; auto].
Qed.
Lemma arg_sort_In a l : In a (arg_sort l) <-> In a l.
Proof.
  unfold arg_sort. induction l as [|b l IH]; simpl; [tauto|].
  rewrite arg_insert_In, IH. split; [intros [H|H]; auto|intros [H|H]; auto].
Qed.

Lemma args_pairwise_sound : forall l1 l2, args_pairwise l1 l2 = true ->
  (forall a, In a l1 -> exists b, In b l2 /\ n_val (a_name a) = n_val (a_name b) /\ same_value (a_val a) (a_val b) = true) /\
  (forall b, In b l2 -> exists a, In a l1 /\ n_val (a_name a) = n_val (a_name b) /\ same_value (a_val a) (a_val b) = true).
Proof.
  induction l1 as [|x l1 IH]; intros [|y l2] H; simpl in H; try discriminate.
  - split; intros ? [].
  - apply andb_prop in H. destruct H as [H12 H3]. apply andb_prop in H12. destruct H12 as [H1 H2].
    apply str_eqb_eq in H1. destruct (IH l2 H3) as [IH1 IH2]. split.
    + intros a [<-|Ha]; [exists y; simpl; tauto|]. destruct (IH1 a Ha) as [b Hb]. exists b. simpl. tauto.
    + intros b [<-|Hb]; [exists x; simpl; tauto|]. destruct (IH2 b Hb) as [a Ha]. exists a. simpl. tauto.
Qed.

Theorem same_arguments_sound l1 l2 : same_arguments l1 l2 = true -> same_arguments_spec l1 l2.
Proof.
  unfold same_arguments, same_arguments_spec. intros H. apply andb_prop in H. destruct H as [Hlen Hp].
  apply Nat.eqb_eq in Hlen. destruct (args_pairwise_sound _ _ Hp) as [H1 H2].
  split; [exact Hlen|]. split.
  - intros a Ha. destruct (H1 a) as [b [Hb [Hn Hv]]]; [apply arg_sort_In; exact Ha|].
    exists b. split; [apply (proj1 (arg_sort_In _ _)) in Hb; exact Hb|]. split; [exact Hn|apply same_value_sound; exact Hv].
  - intros b Hb. destruct (H2 b) as [a [Ha [Hn Hv]]]; [apply arg_sort_In; exact Hb|].
    exists a. split; [apply (proj1 (arg_sort_In _ _)) in Ha; exact Ha|]. split; [exact Hn|apply same_value_sound; exact Hv].
Qed.

Theorem types_conflict_sound s : forall a b, types_conflict s a b = false -> same_shape s a b.
Proof.
  induction a as [x|a IH|a IH]; intros [y|b|b] H; simpl in H; try discriminate.
  - destruct (is_leaf s x) eqn:Hx; simpl in H.
    + destruct (str_eqb_spec x y) as [->|]; [constructor|discriminate].
    + destruct (is_leaf s y) eqn:Hy; simpl in H.
      * destruct (str_eqb_spec x y) as [->|]; [constructor|discriminate].
      * apply shape_composite; assumption.
  - constructor. apply IH. exact H.
  - constructor. apply IH. exact H.
Qed.

(* parents that can never apply to the same object *)
Definition exclusive_parents (s : schema) (p1 p2 : option str) : Prop :=
  opt_name_eqb p1 p2 = false /\ opt_is_object s p1 = true /\ opt_is_object s p2 = true.

Definition pair_mergeable (s : schema) (f1 f2 : finfo) : Prop :=
  (exclusive_parents s (fi_parent f1) (fi_parent f2)
   \/ (fi_name f1 = fi_name f2 /\ same_arguments_spec (fi_args f1) (fi_args f2)))
  /\ (forall d1 d2, fi_def f1 = Some d1 -> fi_def f2 = Some d2 -> same_shape s (sf_type d1) (sf_type d2)).

Theorem find_conflict_silent fuel s frs f1 f2 st st' :
  run fuel s frs (CFind false f1 f2) st = Ok (false, st') -> pair_mergeable s f1 f2.
Proof.
  destruct fuel as [|f]; [discriminate|]. simpl. unfold pair_mergeable, exclusive_parents.
  destruct (negb (opt_name_eqb (fi_parent f1) (fi_parent f2)) && opt_is_object s (fi_parent f1)
            && opt_is_object s (fi_parent f2)) eqn:Hmex; simpl.
  - apply andb_prop in Hmex. destruct Hmex as [H12 H3]. apply andb_prop in H12. destruct H12 as [H1 H2].
    apply Bool.negb_true_iff in H1.
    destruct (match fi_def f1 with Some d => Some (sf_type d) | None => None end) as [t1|] eqn:Ht1;
    destruct (match fi_def f2 with Some d => Some (sf_type d) | None => None end) as [t2|] eqn:Ht2;
      try (intros _; split; [left; tauto|intros d1 d2 E1 E2; rewrite E1, E2 in *; discriminate]).
    destruct (types_conflict s t1 t2) eqn:Htc; [discriminate|].
    intros _. split; [left; tauto|]. intros d1 d2 E1 E2. rewrite E1 in Ht1. rewrite E2 in Ht2.
    inversion Ht1; inversion Ht2; subst. apply types_conflict_sound. exact Htc.
  - destruct (str_eqb_spec (fi_name f1) (fi_name f2)) as [Hn|]; simpl; [|discriminate].
    destruct (same_arguments (fi_args f1) (fi_args f2)) eqn:Hsa; simpl; [|discriminate].
    destruct (match fi_def f1 with Some d => Some (sf_type d) | None => None end) as [t1|] eqn:Ht1;
    destruct (match fi_def f2 with Some d => Some (sf_type d) | None => None end) as [t2|] eqn:Ht2;
      try (intros _; split; [right; split; [exact Hn|apply same_arguments_sound; exact Hsa]
                            |intros d1 d2 E1 E2; rewrite E1, E2 in *; discriminate]).
    destruct (types_conflict s t1 t2) eqn:Htc; [discriminate|].
    intros _. split; [right; split; [exact Hn|apply same_arguments_sound; exact Hsa]|].
    intros d1 d2 E1 E2. rewrite E1 in Ht1. rewrite E2 in Ht2.
    inversion Ht1; inversion Ht2; subst. apply types_conflict_sound. exact Htc.
Qed.

Lemma run_list_silent fuel s frs : forall cs st b st',
  run_list fuel s frs cs st b = Ok (false, st') ->
  b = false /\ forall c, In c cs -> exists st1 st2, run fuel s frs c st1 = Ok (false, st2).
Proof.
  induction cs as [|c cs IH]; intros st b st' H; simpl in H.
  - inversion H; subst. split; [reflexivity|intros c []].
  - destruct (run fuel s frs c st) as [[b1 st1]| | |] eqn:Hr; simpl in H; try discriminate.
    destruct (IH _ _ _ H) as [Hb Hall]. apply Bool.orb_false_iff in Hb. destruct Hb as [-> ->].
    split; [reflexivity|]. intros c' [<-|Hc]; [eauto|apply Hall; exact Hc].
Qed.

(* every two fields collected under one response key in a selection set
   (through inline fragments) are pairwise mergeable when the rule is silent
   on that selection set *)
Theorem within_silent fuel s frs parent l sels st st' :
  run_list fuel s frs (selset_calls s parent l sels) st false = Ok (false, st') ->
  forall key fs f1 f2,
    In (key, fs) (fst (fields_and_fragments s parent sels)) -> In (f1, f2) (perms fs) ->
    pair_mergeable s f1 f2.
Proof.
  intros H key fs f1 f2 Hk Hp. destruct (run_list_silent _ _ _ _ _ _ _ H) as [_ Hall].
  destruct (Hall (CFind false f1 f2)) as [st1 [st2 Hr]].
  - unfold selset_calls. apply in_or_app. left. apply in_flat_map. exists (key, fs).
    split; [exact Hk|]. simpl. apply in_map_iff. exists (f1, f2). split; [reflexivity|exact Hp].
  - eapply find_conflict_silent. exact Hr.
Qed.
