(* C11_order: the type-system rules [sdl_rules_ok] and the guard
   [defaults_stable] are themselves invariant under permutations of the
   definitions that keep, for every target, the sequence of its extensions
   (and the sequence of schema extensions). *)
From PyGql Require Import Schema.SdlBuild Spec.SdlSpec Proofs.SdlProofs Proofs.SdlExactProofs Proofs.SdlOrderProofs.
From PyGql Require Import Proofs.SdlValidPermProofs.
From Coq Require Import Lia Sorting.Permutation.

Lemma kinds_keys tds : map fst (kinds_of [] tds) = tnames tds.
Proof.
  unfold kinds_of, tnames; cbn [map app]. induction tds as [|d l IH]; [reflexivity|].
  cbn [flat_map]. rewrite map_app, IH. f_equal.
  destruct d; try reflexivity; destruct ext; reflexivity.
Qed.

Lemma has_dup_perm l l' : Permutation l l' -> has_dup l = has_dup l'.
Proof.
  intros Hp. destruct (has_dup l) eqn:H1, (has_dup l') eqn:H2; try reflexivity.
  - apply has_dup_NoDup in H2. apply (Permutation_NoDup (Permutation_sym Hp)) in H2. apply has_dup_NoDup in H2. congruence.
  - apply has_dup_NoDup in H1. apply (Permutation_NoDup Hp) in H1. apply has_dup_NoDup in H1. congruence.
Qed.

Section OrderFacts.
  Variables doc doc' : document.
  Let ds := doc_defs doc.
  Let ds' := doc_defs doc'.
  Hypothesis Hp : Permutation ds ds'.
  Hypothesis Hx : forall n, exts_for n ds = exts_for n ds'.
  Hypothesis Hsx : schema_exts ds = schema_exts ds'.
  Hypothesis Rt : r_unique_types doc = true.
  Hypothesis Rd : r_unique_directives doc = true.
  Hypothesis Rs : r_one_schema doc = true.

  Lemma of_typedefs : Permutation (filter is_typedef ds) (filter is_typedef ds').
  Proof. apply Permutation_filter; exact Hp. Qed.

  Lemma of_dd : Permutation (declared_defs doc) (declared_defs doc').
  Proof.
    unfold declared_defs. fold ds ds'.
    rewrite (map_ext (merged ds') (merged ds)) by (intros; symmetry; apply merged_ext; exact Hx).
    apply Permutation_map; exact of_typedefs.
  Qed.

  Lemma of_nd : NoDup (tnames ds).
  Proof. apply has_dup_NoDup. unfold r_unique_types in Rt. apply Bool.negb_true_iff in Rt. exact Rt. Qed.

  Lemma of_env n : alookup n (declared_env doc) = alookup n (declared_env doc').
  Proof.
    apply alookup_perm.
    - unfold declared_env, env_of; cbn [map app]. apply Permutation_flat_map; exact of_dd.
    - unfold declared_env. rewrite env_keys. unfold declared_defs. fold ds.
      rewrite tnames_merged, tnames_filter. exact of_nd.
  Qed.

  Lemma of_base_env n : alookup n (base_env doc) = alookup n (base_env doc').
  Proof.
    apply alookup_perm.
    - unfold base_env, env_of; cbn [map app]. apply Permutation_flat_map; exact of_typedefs.
    - unfold base_env. rewrite env_keys. fold ds. rewrite tnames_filter. exact of_nd.
  Qed.

  Lemma of_kinds n : kind_in (declared_kinds doc) n = kind_in (declared_kinds doc') n.
  Proof.
    unfold kind_in. f_equal. destruct (default_kind n); [reflexivity|].
    apply alookup_perm.
    - unfold declared_kinds, kinds_of; cbn [map app]. apply Permutation_flat_map; exact of_dd.
    - unfold declared_kinds. rewrite kinds_keys. unfold declared_defs. fold ds.
      rewrite tnames_merged, tnames_filter. exact of_nd.
  Qed.

  Lemma of_types : Permutation (s_types (declared doc)) (s_types (declared doc')).
  Proof.
    unfold declared; cbn [s_types]. apply Permutation_filter.
    rewrite (flat_map_ext_all (decl_type (declared_env doc')) (decl_type (declared_env doc)))
      by (intros; symmetry; apply decl_type_ext; exact of_env).
    apply Permutation_flat_map; exact of_dd.
  Qed.

  Lemma of_ddefs : Permutation (s_ddefs (declared doc)) (s_ddefs (declared doc')).
  Proof.
    unfold declared; cbn [s_ddefs]. fold ds ds'.
    rewrite (flat_map_ext_all (decl_directive (declared_env doc')) (decl_directive (declared_env doc)))
      by (intros; symmetry; apply decl_directive_ext; exact of_env).
    apply Permutation_flat_map; exact Hp.
  Qed.

  Lemma of_sd : schema_def_of ds = schema_def_of ds'.
  Proof.
    unfold schema_def_of. rewrite !find_filter.
    set (p := fun d => match d with DSchema false _ _ _ => true | _ => false end).
    assert (Hpf : Permutation (filter p ds) (filter p ds')) by (apply Permutation_filter; exact Hp).
    pose proof Rs as Rs'. unfold r_one_schema in Rs'. fold ds p in Rs'. apply Nat.leb_le in Rs'.
    destruct (filter p ds) as [|a [|b r]] eqn:Hf.
    - apply Permutation_nil in Hpf. rewrite Hpf. reflexivity.
    - apply Permutation_length_1_inv in Hpf. rewrite Hpf. reflexivity.
    - simpl in Rs'. lia.
  Qed.

  Lemma of_ops : all_ops ds = all_ops ds'.
  Proof. unfold all_ops. rewrite of_sd, Hsx. reflexivity. Qed.

  Lemma of_tnd : NoDup (map tdef_name (s_types (declared doc))).
  Proof. apply has_dup_NoDup. apply (declared_unique_names doc Rt Rd). Qed.

  Lemma of_root k dn : declared_root ds (s_types (declared doc)) k dn = declared_root ds' (s_types (declared doc')) k dn.
  Proof.
    unfold declared_root. rewrite of_sd, of_ops. unfold default_root.
    rewrite (find_type_perm _ _ dn of_types of_tnd). reflexivity.
  Qed.
End OrderFacts.

Definition named_typedef (n : str) (d : definition) : bool :=
  match typedef_name d with Some m => str_eqb m n | None => false end.

Lemma filter_named_nil n ds : ~ In n (tnames ds) -> filter (named_typedef n) ds = [].
Proof.
  induction ds as [|d ds IH]; intros Hn; [reflexivity|]. cbn [filter]. unfold named_typedef at 1.
  unfold tnames in Hn. cbn [flat_map] in Hn. fold (tnames ds) in Hn.
  destruct (typedef_name d) as [m|].
  - destruct (str_eqb_spec m n) as [->|Hne].
    + exfalso. apply Hn. left. reflexivity.
    + apply IH. intros H. apply Hn. right. exact H.
  - apply IH. exact Hn.
Qed.

Lemma filter_named_le1 n ds : NoDup (tnames ds) -> length (filter (named_typedef n) ds) <= 1.
Proof.
  induction ds as [|d ds IH]; intros Hnd; [cbn; lia|]. cbn [filter]. unfold named_typedef at 1.
  unfold tnames in Hnd. cbn [flat_map] in Hnd. fold (tnames ds) in Hnd.
  destruct (typedef_name d) as [m|].
  - cbn [app] in Hnd. apply NoDup_cons_iff in Hnd. destruct Hnd as [Hnot Hnd].
    destruct (str_eqb_spec m n) as [->|Hne]; [|apply IH; exact Hnd].
    rewrite (filter_named_nil n ds Hnot). cbn. lia.
  - apply IH. exact Hnd.
Qed.

Lemma find_named_perm n ds ds' :
  Permutation ds ds' -> NoDup (tnames ds) -> find (named_typedef n) ds = find (named_typedef n) ds'.
Proof.
  intros Hp Hnd. rewrite !find_filter.
  assert (Hpf : Permutation (filter (named_typedef n) ds) (filter (named_typedef n) ds')) by (apply Permutation_filter; exact Hp).
  pose proof (filter_named_le1 n ds Hnd) as Hle.
  destruct (filter (named_typedef n) ds) as [|a [|b r]] eqn:Hf.
  - apply Permutation_nil in Hpf. rewrite Hpf. reflexivity.
  - apply Permutation_length_1_inv in Hpf. rewrite Hpf. reflexivity.
  - cbn in Hle. lia.
Qed.

Theorem rules_order doc doc' :
  Permutation (doc_defs doc) (doc_defs doc') ->
  (forall n, exts_for n (doc_defs doc) = exts_for n (doc_defs doc')) ->
  schema_exts (doc_defs doc) = schema_exts (doc_defs doc') ->
  sdl_rules_ok doc -> sdl_rules_ok doc'.
Proof.
  intros Hp Hx Hsx Hr. unfold sdl_rules_ok, sdl_rules_okb in Hr |- *.
  apply andb_prop in Hr; destruct Hr as [Hr R13]. apply andb_prop in Hr; destruct Hr as [Hr R12].
  apply andb_prop in Hr; destruct Hr as [Hr R11]. apply andb_prop in Hr; destruct Hr as [Hr R10].
  apply andb_prop in Hr; destruct Hr as [Hr R9]. apply andb_prop in Hr; destruct Hr as [Hr R8].
  apply andb_prop in Hr; destruct Hr as [Hr R7]. apply andb_prop in Hr; destruct Hr as [Hr R6].
  apply andb_prop in Hr; destruct Hr as [Hr R5]. apply andb_prop in Hr; destruct Hr as [Hr R4].
  apply andb_prop in Hr; destruct Hr as [Hr R3]. apply andb_prop in Hr; destruct Hr as [R1 R2].
  set (ds := doc_defs doc) in *. set (ds' := doc_defs doc') in *.
  pose proof (of_dd doc doc' Hp Hx) as Hdd.
  pose proof (of_env doc doc' Hp Hx R1) as Henv.
  pose proof (of_kinds doc doc' Hp Hx R1) as Hkinds.
  pose proof (of_types doc doc' Hp Hx R1) as HT.
  pose proof (of_ddefs doc doc' Hp Hx R1) as HD.
  pose proof (of_sd doc doc' Hp R3) as Hsd.
  pose proof (of_ops doc doc' Hp Hsx R3) as Hops.
  pose proof (of_tnd doc R1 R2) as Htnd.
  pose proof (of_nd doc R1) as Hnd.
  fold ds ds' in Hsd, Hops.
  assert (Hknown : forall n, known (declared_kinds doc') n = known (declared_kinds doc) n).
  { intros n. unfold known. rewrite Hkinds. reflexivity. }
  assert (Hdirdefs : Permutation (dir_defs ds) (dir_defs ds')) by (apply Permutation_filter; exact Hp).
  assert (Hall : Permutation (declared_defs doc ++ dir_defs ds) (declared_defs doc' ++ dir_defs ds'))
    by (apply Permutation_app; assumption).
  (* 1 *)
  assert (E1 : r_unique_types doc' = true).
  { unfold r_unique_types in R1 |- *. fold ds ds' in R1 |- *.
    rewrite <- (has_dup_perm _ _ (Permutation_flat_map _ Hp)). exact R1. }
  assert (E2 : r_unique_directives doc' = true).
  { unfold r_unique_directives in R2 |- *. fold ds ds' in R2 |- *.
    rewrite <- (has_dup_perm _ _ (Permutation_flat_map _ Hp)). exact R2. }
  assert (E3 : r_one_schema doc' = true).
  { unfold r_one_schema in R3 |- *. fold ds ds' in R3 |- *.
    rewrite <- (Permutation_length (Permutation_filter _ _ _ Hp)). exact R3. }
  assert (E4 : r_ext_targets doc' = true).
  { set (F := fun (l : list definition) (x : definition) =>
                match typeext_name x with
                | None => true
                | Some n => match find (named_typedef n) l with
                            | Some d => match def_kind d, def_kind x with
                                        | Some a, Some b => kind_eqb a b
                                        | _, _ => false
                                        end
                            | None => false
                            end
                end).
    change (forallb (F ds) ds = true) in R4. change (forallb (F ds') ds' = true).
    rewrite <- (forallb_perm (F ds') ds ds' Hp).
    rewrite (forallb_ext (F ds') (F ds) ds); [exact R4|].
    intros x. unfold F. destruct (typeext_name x) as [n|]; [|reflexivity].
    rewrite (find_named_perm n ds ds' Hp Hnd). reflexivity. }
  assert (E5 : r_unique_members doc' = true).
  { unfold r_unique_members in R5 |- *. rewrite <- (forallb_perm _ _ _ Hdd). exact R5. }
  assert (E6 : r_refs doc' = true).
  { unfold r_refs, refs_known in R6 |- *. rewrite <- (forallb_perm _ _ _ HT). rewrite <- R6.
    apply forallb_ext. intros t. apply forallb_ext. intros n. apply Hknown. }
  assert (E7 : r_input_types doc' = true).
  { unfold r_input_types in R7 |- *. fold ds ds' in R7 |- *. rewrite <- (forallb_perm _ _ _ Hall). rewrite <- R7.
    apply forallb_ext. intros x. apply forallb_ext. intros iv. unfold tref_is_input. rewrite Hkinds. reflexivity. }
  assert (E8 : r_defaults doc' = true).
  { unfold r_defaults in R8 |- *. fold ds ds' in R8 |- *. rewrite <- (forallb_perm _ _ _ Hall). rewrite <- R8.
    apply forallb_ext. intros x. f_equal. apply forallb_ext. intros iv. unfold coercible.
    destruct (iv_default iv); [|reflexivity].
    rewrite (coerce_ext spec_fuel false (declared_env doc') (declared_env doc)); [reflexivity|].
    intros n. symmetry. apply Henv. }
  assert (E9 : r_ops_once doc' = true).
  { unfold r_ops_once in R9 |- *. fold ds ds' in R9 |- *. rewrite <- Hops. exact R9. }
  assert (E10 : r_ops_known doc' = true).
  { unfold r_ops_known in R10 |- *. fold ds ds' in R10 |- *. rewrite <- Hops, <- R10.
    apply forallb_ext. intros ot. apply Hknown. }
  assert (E11 : r_default_roots doc' = true).
  { unfold r_default_roots in R11 |- *. fold ds ds' in R11 |- *. rewrite <- Hsd, <- Hops.
    destruct (schema_def_of ds); [reflexivity|]. cbn [forallb] in R11 |- *. unfold default_root in R11 |- *.
    rewrite <- !(find_type_perm (s_types (declared doc)) (s_types (declared doc')) _ HT Htnd). exact R11. }
  assert (E12 : r_no_override doc' = true).
  { unfold r_no_override, overrides_specified_directive in R12 |- *.
    rewrite <- (existsb_perm _ _ _ HD). exact R12. }
  assert (E13 : r_valid doc' = true).
  { unfold r_valid in R13 |- *. rewrite <- R13. symmetry. apply validate_schema_perm; try assumption.
    - unfold declared; cbn [s_query]. apply (of_root doc doc' Hp Hx Hsx R1 R2 R3).
    - unfold declared; cbn [s_mutation]. apply (of_root doc doc' Hp Hx Hsx R1 R2 R3).
    - unfold declared; cbn [s_subscription]. apply (of_root doc doc' Hp Hx Hsx R1 R2 R3). }
  rewrite E1, E2, E3, E4, E5, E6, E7, E8, E9, E10, E11, E12, E13. reflexivity.
Qed.

(* ---- the guard --------------------------------------------------------- *)
Lemma decl_type_names E tds :
  Forall (fun d => is_typedef d = true) tds -> map tdef_name (flat_map (decl_type E) tds) = tnames tds.
Proof.
  induction 1 as [|d l Hd _ IH]; [reflexivity|]. unfold tnames in *. cbn [flat_map]. rewrite map_app, IH. f_equal.
  unfold is_typedef in Hd. destruct d; try discriminate; destruct ext; try discriminate; reflexivity.
Qed.

Lemma NoDup_map_filter {A B} (f : A -> B) (p : A -> bool) l : NoDup (map f l) -> NoDup (map f (filter p l)).
Proof.
  induction l as [|x l IH]; intros H; [constructor|]. cbn [map] in H. apply NoDup_cons_iff in H. destruct H as [Hn H].
  cbn [filter]. destruct (p x); [|apply IH; exact H]. cbn [map]. constructor; [|apply IH; exact H].
  intros Hin. apply Hn. apply in_map_iff in Hin. destruct Hin as (y & <- & Hy). apply filter_In in Hy.
  apply in_map. apply Hy.
Qed.

Lemma filter_typedefs_all ds : Forall (fun d => is_typedef d = true) (filter is_typedef ds).
Proof. apply Forall_forall. intros x Hx. apply filter_In in Hx. apply Hx. Qed.

Theorem stable_order doc doc' :
  Permutation (doc_defs doc) (doc_defs doc') ->
  (forall n, exts_for n (doc_defs doc) = exts_for n (doc_defs doc')) ->
  r_unique_types doc = true ->
  defaults_stable doc -> defaults_stable doc'.
Proof.
  intros Hp Hx R1 [Hb He].
  set (ds := doc_defs doc) in *. set (ds' := doc_defs doc') in *.
  pose proof (of_env doc doc' Hp Hx R1) as Henv.
  pose proof (of_base_env doc doc' Hp R1) as Hbenv.
  pose proof (of_typedefs doc doc' Hp) as Htd. fold ds ds' in Htd.
  pose proof (of_nd doc R1) as Hnd. fold ds in Hnd.
  assert (Hbuilt : forall n, alookup n (built_env doc) = alookup n (built_env doc')).
  { apply alookup_perm.
    - unfold built_env. apply Permutation_map. unfold decl_types. apply Permutation_filter. fold ds ds'.
      rewrite (flat_map_ext_all (decl_type (declared_env doc')) (decl_type (declared_env doc)))
        by (intros; symmetry; apply decl_type_ext; exact Henv).
      apply Permutation_flat_map; exact Htd.
    - unfold built_env. rewrite map_map. cbn [fst]. unfold decl_types. apply NoDup_map_filter. fold ds.
      rewrite (decl_type_names _ _ (filter_typedefs_all ds)), tnames_filter. exact Hnd. }
  split; intros iv Hin v Hv.
  - assert (Hin' : In iv (base_ivalues doc)).
    { unfold base_ivalues in Hin |- *. fold ds ds' in Hin |- *. apply in_flat_map in Hin. destruct Hin as (x & Hx' & Hiv).
      apply in_flat_map. exists x. split; [|exact Hiv].
      apply in_app_or in Hx'. apply in_or_app.
      destruct Hx' as [Hx'|Hx']; [left|right];
        (eapply Permutation_in; [apply Permutation_sym; apply Permutation_filter; exact Hp|exact Hx']). }
    pose proof (Hb iv Hin' v Hv) as H.
    rewrite (coerce_ext build_fuel true (base_env doc') (base_env doc)) by (intros n; symmetry; apply Hbenv).
    rewrite (coerce_ext spec_fuel false (declared_env doc') (declared_env doc)) by (intros n; symmetry; apply Henv).
    exact H.
  - assert (Hin' : In iv (ext_ivalues doc)).
    { unfold ext_ivalues, type_exts in Hin |- *. fold ds ds' in Hin |- *. apply in_flat_map in Hin.
      destruct Hin as (x & Hx' & Hiv). apply in_flat_map. exists x. split; [|exact Hiv].
      eapply Permutation_in; [apply Permutation_sym; apply Permutation_filter; exact Hp|exact Hx']. }
    pose proof (He iv Hin' v Hv) as H.
    rewrite (coerce_ext build_fuel true (built_env doc') (built_env doc)) by (intros n; symmetry; apply Hbuilt).
    rewrite (coerce_ext spec_fuel false (declared_env doc') (declared_env doc)) by (intros n; symmetry; apply Henv).
    exact H.
Qed.

(* C11_order for the builder, without assuming anything of the second document *)
Theorem order_build_full doc doc' :
  Permutation (doc_defs doc) (doc_defs doc') ->
  (forall n, exts_for n (doc_defs doc) = exts_for n (doc_defs doc')) ->
  schema_exts (doc_defs doc) = schema_exts (doc_defs doc') ->
  sdl_rules_ok doc -> defaults_stable doc ->
  sdl_rules_ok doc' /\ defaults_stable doc'
  /\ exists sc sc', build_model (BOpts false []) doc = Ok sc /\ build_model (BOpts false []) doc' = Ok sc'
                    /\ schema_equiv sc sc' = true.
Proof.
  intros Hp Hx Hsx Hr Hs.
  pose proof (rules_order doc doc' Hp Hx Hsx Hr) as Hr'.
  assert (R1 : r_unique_types doc = true).
  { unfold sdl_rules_ok, sdl_rules_okb in Hr. repeat (apply andb_prop in Hr; destruct Hr as [Hr ?]). exact Hr. }
  pose proof (stable_order doc doc' Hp Hx R1 Hs) as Hs'.
  split; [exact Hr'|]. split; [exact Hs'|]. apply order_build; assumption.
Qed.
