(* Token offsets increase along the token list and stay inside the text, so the
   span of every non-empty token segment is ordered and inside the text. *)
From PyGql Require Import Lang.Parser Spec.LexSpec Spec.LexicalSpec Spec.GrammarSpec Spec.LocSpec
  Proofs.LexicalProofs Proofs.GrammarProofs.

Inductive chain : nat -> list ptok -> nat -> Prop :=
| chain_nil lo hi : lo <= hi -> chain lo [] hi
| chain_cons lo t ts hi :
    lo <= tstart t -> tstart t <= tend t -> chain (tend t) ts hi -> chain lo (t :: ts) hi.

Lemma chain_hi lo ts hi : chain lo ts hi -> lo <= hi.
Proof. induction 1; lia. Qed.

Lemma chain_weaken lo lo' ts hi : lo' <= lo -> chain lo ts hi -> chain lo' ts hi.
Proof. intros Hl H. destruct H; constructor; auto; lia. Qed.

Lemma lexes_from_chain F txt pos ts : lexes_from F txt pos ts -> chain pos ts (pos + length txt).
Proof.
  induction 1 as [ign pos Hi|ign lexeme rest k v ts pos Hi Htok Hl IH].
  - constructor; simpl; try lia. constructor. simpl. lia.
  - constructor; simpl; try lia. rewrite !app_length.
    replace (pos + (length ign + (length lexeme + length rest)))
      with (pos + length ign + length lexeme + length rest) by lia. exact IH.
Qed.

Lemma chain_app lo a b hi : chain lo (a ++ b) hi -> exists mid, chain lo a mid /\ chain mid b hi.
Proof.
  revert lo; induction a as [|t a IH]; intros lo H; simpl in H.
  - exists lo. split; [constructor; lia|exact H].
  - inversion H as [|? ? ? ? Hlo Hte Hc]; subst. destruct (IH _ Hc) as (mid & Ha & Hb).
    exists mid. split; [constructor; auto|exact Hb].
Qed.

Lemma chain_span lo t r hi : chain lo (t :: r) hi -> tstart t <= tend (last r t) /\ tend (last r t) <= hi.
Proof.
  revert lo t; induction r as [|a r IH]; intros lo t H; inversion H as [|? ? ? ? Hlo Hte Hc]; subst; simpl.
  - apply chain_hi in Hc. lia.
  - destruct (IH _ _ Hc) as [G1 G2]. inversion Hc as [|? ? ? ? Hlo2 Hte2 Hc2]; subst.
    assert (E : last r a = match r with [] => a | _ :: _ => last r t end) by
      (destruct r; [reflexivity|apply last_default; discriminate]).
    rewrite <- E. lia.
Qed.

Theorem segment_span_ok nl s ts pre seg post :
  lex s = Ok ts -> ts = pre ++ seg ++ post -> seg <> [] ->
  loc_span_ok nl (length s) (mkloc nl seg).
Proof.
  intros Hl -> Hne. apply lex_lexes_slack in Hl. destruct Hl as (ts' & Ets & Hl).
  apply lexes_from_chain in Hl. simpl in Hl.
  assert (Hc : chain 0 (pre ++ seg ++ post) (length s)).
  { rewrite Ets. constructor; simpl; auto. }
  destruct (chain_app _ _ _ _ Hc) as (m1 & _ & H2). destruct (chain_app _ _ _ _ H2) as (m2 & Hs & Hp).
  apply chain_hi in Hp. destruct seg as [|t r]; [congruence|].
  destruct (chain_span _ _ _ _ Hs) as [H3 H4].
  unfold mkloc, loc_span_ok. destruct nl; simpl; [reflexivity|]. repeat split; lia.
Qed.
