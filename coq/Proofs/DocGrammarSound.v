(* C01 / C02 at document level, soundness: whatever the parser model accepts
   as an executable document is derivable in Spec/DocGrammarSpec.v, with the
   tree (kinds, order, names, literal values, every span) of the derivation. *)
From PyGql Require Import Lang.Parser Spec.GrammarSpec Spec.DocGrammarSpec Proofs.GrammarProofs.

(* the parser went from st to st' consuming exactly ts *)
Definition step (st : pst) (ts : list ptok) (st' : pst) : Prop :=
  toks st = map LT ts ++ toks st' /\ last_end st' = lend ts (last_end st).

Lemma step_nil st : step st [] st.
Proof. split; reflexivity. Qed.

Lemma step_trans {st ts1 st1 ts2 st2} :
  step st ts1 st1 -> step st1 ts2 st2 -> step st (ts1 ++ ts2) st2.
Proof.
  intros [H1 L1] [H2 L2]. split.
  - rewrite H1, H2, map_app, <- app_assoc. reflexivity.
  - rewrite L2, L1, lend_app. reflexivity.
Qed.
Notation "a >> b" := (step_trans a b) (at level 60, right associativity).

Lemma step_one st t st' : toks st = LT t :: toks st' -> last_end st' = tend t -> step st [t] st'.
Proof. intros H L. split; [exact H|exact L]. Qed.

Lemma get_loc_mk fl start r st ts st' l st'' :
  toks st = LT start :: r -> step st ts st' -> ts <> [] ->
  get_loc fl start st' = Ok (l, st'') -> st'' = st' /\ l = mkloc (no_location fl) ts.
Proof.
  intros Hr [Ht Hl] Hne Hg. unfold get_loc in Hg. inversion Hg; subst. split; [reflexivity|].
  destruct ts as [|t0 r0]; [congruence|].
  rewrite Hr in Ht. simpl in Ht. injection Ht as E _. subst t0.
  unfold mkloc. simpl. simpl in Hl. rewrite Hl. reflexivity.
Qed.

Definition psound2 {A} (p : parser A) (R : list ptok -> A -> Prop) : Prop :=
  forall st x st', p st = Ok (x, st') -> exists ts, step st ts st' /\ R ts x.

Lemma psound_psound2 {A} (p : parser A) R : psound p R -> psound2 p (fun ts x => ts <> [] /\ R ts x).
Proof.
  intros H st x st' Hp. destruct (H st x st' Hp) as (ts & Hne & Ht & HR & Hl).
  exists ts. split; [split; assumption|]. auto.
Qed.

(* ---- primitives in step form ---- *)
Lemma expect_step k st t st' : expect k st = Ok (t, st') -> step st [t] st' /\ tk t = k.
Proof. intros H. apply expect_ok in H. destruct H as (H1 & H2 & H3). split; [apply step_one|]; auto. Qed.

Lemma expect_keyword_ok w st t st' : expect_keyword w st = Ok (t, st') ->
  step st [t] st' /\ is_word w t.
Proof.
  unfold expect_keyword, pbind, peek, advance, perr.
  destruct (toks st) as [|[x|? ?|] r] eqn:E; try discriminate.
  destruct (is_kind KName x && is_kw w (tval x)) eqn:Ek; [|discriminate]. rewrite E.
  intros H; inversion H; subst. apply andb_true_iff in Ek. destruct Ek as [E1 E2].
  split; [apply step_one; [exact E|reflexivity]|].
  split; [apply tkind_eqb_eq; exact E1|apply str_eqb_eq; exact E2].
Qed.

Lemma advance_step st t st' : advance st = Ok (t, st') -> step st [t] st'.
Proof. intros H. apply advance_ok in H. destruct H. apply step_one; auto. Qed.

Lemma skip_step k st b st' : skip k st = Ok (b, st') ->
  (b = true /\ exists t, step st [t] st' /\ tk t = k) \/
  (b = false /\ st' = st).
Proof.
  intros H. apply skip_ok in H. destruct H as [(-> & t & H1 & H2 & H3)|(-> & -> & _)].
  - left. split; [reflexivity|]. exists t. split; [apply step_one|]; auto.
  - right. auto.
Qed.

Lemma parse_name_step fl st nm st' : parse_name fl st = Ok (nm, st') ->
  exists t, step st [t] st' /\ tk t = KName /\ nm = name_node (no_location fl) t.
Proof.
  intros H. apply parse_name_ok in H. destruct H as (t & H1 & H2 & H3 & H4).
  exists t. split; [apply step_one; auto|]. auto.
Qed.

Ltac pb H x st Hx := apply pbind_ok in H; destruct H as (x & st & Hx & H).

Lemma head_eq {st : pst} {a b : ptok} {r ts st'} :
  toks st = LT a :: r -> step st (b :: ts) st' -> a = b.
Proof. intros Hr [Ht _]. rewrite Hr in Ht. simpl in Ht. injection Ht as E _. exact E. Qed.

(* ---- loops ---- *)
Lemma many_loop_sound {A} (p : parser A) R close : psound2 p R ->
  forall n st xs st', many_loop n p close st = Ok (xs, st') ->
  exists body cl, step st (body ++ [cl]) st' /\ tk cl = close /\ D_list R body xs /\ xs <> [].
Proof.
  intros Hp. induction n as [|n IH]; intros st xs st' H; [discriminate|]. simpl in H.
  pb H x s1 Hx. apply Hp in Hx. destruct Hx as (ts1 & S1 & R1).
  pb H b s2 Hs. apply skip_step in Hs. destruct Hs as [(-> & cl & S2 & Hk)|(-> & ->)].
  - apply pret_ok in H. destruct H as [-> ->].
    exists ts1, cl. split; [exact (S1 >> S2)|]. split; [exact Hk|]. split; [|discriminate].
    rewrite <- (app_nil_r ts1). constructor; [exact R1|constructor].
  - pb H xs' s3 Hxs. apply IH in Hxs. destruct Hxs as (body & cl & S3 & Hk & Hl & _).
    apply pret_ok in H. destruct H as [-> ->].
    exists (ts1 ++ body), cl. split; [rewrite <- app_assoc; exact (S1 >> S3)|].
    split; [exact Hk|]. split; [constructor; assumption|discriminate].
Qed.

Lemma many_sound {A} (p : parser A) R n open close : psound2 p R ->
  psound2 (many n open p close)
    (fun ts xs => exists o body cl, ts = o :: body ++ [cl] /\ tk o = open /\ tk cl = close
                                    /\ D_list R body xs /\ xs <> []).
Proof.
  intros Hp st xs st' H. unfold many in H. pb H o s1 Ho. apply expect_step in Ho. destruct Ho as [S1 Ko].
  apply (many_loop_sound p R close Hp) in H. destruct H as (body & cl & S2 & Kc & Hl & Hne).
  exists (o :: body ++ [cl]). split; [exact (S1 >> S2)|]. exists o, body, cl. auto.
Qed.

Lemma while_kind_sound {A} (p : parser A) R k : psound2 p R ->
  forall n, psound2 (while_kind n k p) (D_list R).
Proof.
  intros Hp. induction n as [|n IH]; intros st xs st' H; [discriminate|]. simpl in H.
  pb H t s1 Ht. apply peek_ok in Ht. destruct Ht as [-> _].
  destruct (is_kind k t).
  - pb H x s2 Hx. apply Hp in Hx. destruct Hx as (ts1 & S1 & R1).
    pb H xs' s3 Hxs. apply IH in Hxs. destruct Hxs as (ts2 & S2 & R2).
    apply pret_ok in H. destruct H as [-> ->].
    exists (ts1 ++ ts2). split; [exact (S1 >> S2)|constructor; assumption].
  - apply pret_ok in H. destruct H as [-> ->]. exists []. split; [apply step_nil|constructor].
Qed.

Section Sound.
Variable fl : flags.
Variable n : nat.
Notation nl := (no_location fl).

Lemma value_sound2 k c : psound2 (parse_value_literal fl k c) (fun ts v => ts <> [] /\ D_value nl c ts v).
Proof. apply psound_psound2. apply parse_value_sound. Qed.

Lemma type_sound2 k : psound2 (parse_type_reference fl k) (fun ts t => ts <> [] /\ D_type nl ts t).
Proof.
  intros st t st' H. destruct (parse_type_sound fl k st t st' H) as (ts & Hne & Ht & Hd & Hl).
  exists ts. split; [split; assumption|]. auto.
Qed.

(* ---- arguments and directives ---- *)
Lemma parse_argument_sound c : psound2 (parse_argument fl n c) (D_argument nl c).
Proof.
  intros st x st' H. unfold parse_argument in H.
  pb H start s1 Hp. apply peek_ok in Hp. destruct Hp as [-> [r Hr]].
  pb H nm s2 Hn. apply parse_name_step in Hn. destruct Hn as (t & S1 & Kt & ->).
  pb H colon s3 Hc. apply expect_step in Hc. destruct Hc as [S2 Kc].
  pb H v s4 Hv. apply value_sound2 in Hv. destruct Hv as (vts & S3 & Hne & Dv).
  pose proof (S1 >> S2 >> S3) as S. simpl in S.
  pose proof (head_eq Hr S) as E. subst t.
  pb H l s5 Hg. apply (get_loc_mk fl start r st _ _ _ _ Hr S ltac:(discriminate)) in Hg. destruct Hg as [-> ->].
  apply pret_ok in H. destruct H as [-> ->].
  exists (start :: colon :: vts). split; [exact S|]. constructor; assumption.
Qed.

Lemma parse_arguments_sound c : psound2 (parse_arguments fl n c) (D_arguments nl c).
Proof.
  intros st x st' H. unfold parse_arguments in H.
  pb H t s1 Hp. apply peek_ok in Hp. destruct Hp as [-> _].
  destruct (is_kind KParenO t).
  - apply (many_sound _ _ n KParenO KParenC (parse_argument_sound c)) in H.
    destruct H as (ts & S & o & body & cl & -> & Ko & Kc & Hl & Hne).
    exists (o :: body ++ [cl]). split; [exact S|constructor; assumption].
  - apply pret_ok in H. destruct H as [-> ->]. exists []. split; [apply step_nil|constructor].
Qed.

Lemma parse_directive_sound c : psound2 (parse_directive fl n c) (D_directive nl c).
Proof.
  intros st x st' H. unfold parse_directive in H.
  pb H a s1 Ha. pose proof Ha as Ha'. apply expect_step in Ha. destruct Ha as [S1 Ka].
  pb H nm s2 Hn. apply parse_name_step in Hn. destruct Hn as (t & S2 & Kt & ->).
  pb H args s3 Hargs. apply parse_arguments_sound in Hargs. destruct Hargs as (ats & S3 & Da).
  pose proof (S1 >> S2 >> S3) as S. simpl in S.
  apply expect_ok in Ha'. destruct Ha' as (Hr & _ & _).
  pb H l s4 Hg. apply (get_loc_mk fl a _ st _ _ _ _ Hr S ltac:(discriminate)) in Hg. destruct Hg as [-> ->].
  apply pret_ok in H. destruct H as [-> ->].
  exists (a :: t :: ats). split; [exact S|]. constructor; assumption.
Qed.

Lemma parse_directives_sound c : psound2 (parse_directives fl n c) (D_directives nl c).
Proof. unfold parse_directives, D_directives. apply while_kind_sound. apply parse_directive_sound. Qed.

End Sound.
