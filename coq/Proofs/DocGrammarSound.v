(* C01 / C02 at document level, soundness: whatever the parser model accepts
   as an executable document is derivable in Spec/DocGrammarSpec.v, with the
   tree (kinds, order, names, literal values, every span) of the derivation. *)
From PyGql Require Import Lang.Parser Spec.GrammarSpec Spec.DocGrammarSpec Proofs.GrammarProofs.

(* the parser went from st to st' consuming exactly ts *)
Definition step (st : pst) (ts : list ptok) (st' : pst) : Prop :=
  toks st = map LT ts ++ toks st' /\ last_end st' = lend ts (last_end st).

Lemma step_nil st : step st [] st.
Proof. split; reflexivity. Qed.

Lemma step_trans {st ts1 st1 ts2 st2} :
  step st ts1 st1 -> step st1 ts2 st2 -> step st (ts1 ++ ts2) st2.
Proof.
  intros [H1 L1] [H2 L2]. split.
  - rewrite H1, H2, map_app, <- app_assoc. reflexivity.
  - rewrite L2, L1, lend_app. reflexivity.
Qed.
Notation "a >> b" := (step_trans a b) (at level 60, right associativity).

Lemma step_one st t st' : toks st = LT t :: toks st' -> last_end st' = tend t -> step st [t] st'.
Proof. intros H L. split; [exact H|exact L]. Qed.

Lemma get_loc_mk fl start r st ts st' l st'' :
  toks st = LT start :: r -> step st ts st' -> ts <> [] ->
  get_loc fl start st' = Ok (l, st'') -> st'' = st' /\ l = mkloc (no_location fl) ts.
Proof.
  intros Hr [Ht Hl] Hne Hg. unfold get_loc in Hg. inversion Hg; subst. split; [reflexivity|].
  destruct ts as [|t0 r0]; [congruence|].
  rewrite Hr in Ht. simpl in Ht. injection Ht as E _. subst t0.
  unfold mkloc. simpl. simpl in Hl. rewrite Hl. reflexivity.
Qed.

Definition psound2 {A} (p : parser A) (R : list ptok -> A -> Prop) : Prop :=
  forall st x st', p st = Ok (x, st') -> exists ts, step st ts st' /\ R ts x.

Lemma psound_psound2 {A} (p : parser A) R : psound p R -> psound2 p (fun ts x => ts <> [] /\ R ts x).
Proof.
  intros H st x st' Hp. destruct (H st x st' Hp) as (ts & Hne & Ht & HR & Hl).
  exists ts. split; [split; assumption|]. auto.
Qed.

(* ---- primitives in step form ---- *)
Lemma expect_step k st t st' : expect k st = Ok (t, st') -> step st [t] st' /\ tk t = k.
Proof. intros H. apply expect_ok in H. destruct H as (H1 & H2 & H3). split; [apply step_one|]; auto. Qed.

Lemma expect_keyword_ok w st t st' : expect_keyword w st = Ok (t, st') ->
  step st [t] st' /\ is_word w t.
Proof.
  unfold expect_keyword, pbind, peek, advance, perr.
  destruct (toks st) as [|[x|? ?|] r] eqn:E; try discriminate.
  destruct (is_kind KName x && is_kw w (tval x)) eqn:Ek; [|discriminate]. rewrite E.
  intros H; inversion H; subst. apply andb_true_iff in Ek. destruct Ek as [E1 E2].
  split; [apply step_one; [exact E|reflexivity]|].
  split; [apply tkind_eqb_eq; exact E1|apply str_eqb_eq; exact E2].
Qed.

Lemma advance_step st t st' : advance st = Ok (t, st') -> step st [t] st'.
Proof. intros H. apply advance_ok in H. destruct H. apply step_one; auto. Qed.

Lemma skip_step k st b st' : skip k st = Ok (b, st') ->
  (b = true /\ exists t, step st [t] st' /\ tk t = k) \/
  (b = false /\ st' = st).
Proof.
  intros H. apply skip_ok in H. destruct H as [(-> & t & H1 & H2 & H3)|(-> & -> & _)].
  - left. split; [reflexivity|]. exists t. split; [apply step_one|]; auto.
  - right. auto.
Qed.

Lemma parse_name_step fl st nm st' : parse_name fl st = Ok (nm, st') ->
  exists t, step st [t] st' /\ tk t = KName /\ nm = name_node (no_location fl) t.
Proof.
  intros H. apply parse_name_ok in H. destruct H as (t & H1 & H2 & H3 & H4).
  exists t. split; [apply step_one; auto|]. auto.
Qed.

Ltac pb H x st Hx := apply pbind_ok in H; destruct H as (x & st & Hx & H).

Lemma head_eq {st : pst} {a b : ptok} {r ts st'} :
  toks st = LT a :: r -> step st (b :: ts) st' -> a = b.
Proof. intros Hr [Ht _]. rewrite Hr in Ht. simpl in Ht. injection Ht as E _. exact E. Qed.

(* ---- loops ---- *)
Lemma many_loop_sound {A} (p : parser A) R close : psound2 p R ->
  forall n st xs st', many_loop n p close st = Ok (xs, st') ->
  exists body cl, step st (body ++ [cl]) st' /\ tk cl = close /\ D_list R body xs /\ xs <> [].
Proof.
  intros Hp. induction n as [|n IH]; intros st xs st' H; [discriminate|]. simpl in H.
  pb H x s1 Hx. apply Hp in Hx. destruct Hx as (ts1 & S1 & R1).
  pb H b s2 Hs. apply skip_step in Hs. destruct Hs as [(-> & cl & S2 & Hk)|(-> & ->)].
  - apply pret_ok in H. destruct H as [-> ->].
    exists ts1, cl. split; [exact (S1 >> S2)|]. split; [exact Hk|]. split; [|discriminate].
    rewrite <- (app_nil_r ts1). constructor; [exact R1|constructor].
  - pb H xs' s3 Hxs. apply IH in Hxs. destruct Hxs as (body & cl & S3 & Hk & Hl & _).
    apply pret_ok in H. destruct H as [-> ->].
    exists (ts1 ++ body), cl. split; [rewrite <- app_assoc; exact (S1 >> S3)|].
    split; [exact Hk|]. split; [constructor; assumption|discriminate].
Qed.

Lemma many_sound {A} (p : parser A) R n open close : psound2 p R ->
  psound2 (many n open p close)
    (fun ts xs => exists o body cl, ts = o :: body ++ [cl] /\ tk o = open /\ tk cl = close
                                    /\ D_list R body xs /\ xs <> []).
Proof.
  intros Hp st xs st' H. unfold many in H. pb H o s1 Ho. apply expect_step in Ho. destruct Ho as [S1 Ko].
  apply (many_loop_sound p R close Hp) in H. destruct H as (body & cl & S2 & Kc & Hl & Hne).
  exists (o :: body ++ [cl]). split; [exact (S1 >> S2)|]. exists o, body, cl. auto.
Qed.

Lemma while_kind_sound {A} (p : parser A) R k : psound2 p R ->
  forall n, psound2 (while_kind n k p) (D_list R).
Proof.
  intros Hp. induction n as [|n IH]; intros st xs st' H; [discriminate|]. simpl in H.
  pb H t s1 Ht. apply peek_ok in Ht. destruct Ht as [-> _].
  destruct (is_kind k t).
  - pb H x s2 Hx. apply Hp in Hx. destruct Hx as (ts1 & S1 & R1).
    pb H xs' s3 Hxs. apply IH in Hxs. destruct Hxs as (ts2 & S2 & R2).
    apply pret_ok in H. destruct H as [-> ->].
    exists (ts1 ++ ts2). split; [exact (S1 >> S2)|constructor; assumption].
  - apply pret_ok in H. destruct H as [-> ->]. exists []. split; [apply step_nil|constructor].
Qed.

Section Sound.
Variable fl : flags.
Variable n : nat.
Notation nl := (no_location fl).

Lemma value_sound2 k c : psound2 (parse_value_literal fl k c) (fun ts v => ts <> [] /\ D_value nl c ts v).
Proof. apply psound_psound2. apply parse_value_sound. Qed.

Lemma type_sound2 k : psound2 (parse_type_reference fl k) (fun ts t => ts <> [] /\ D_type nl ts t).
Proof.
  intros st t st' H. destruct (parse_type_sound fl k st t st' H) as (ts & Hne & Ht & Hd & Hl).
  exists ts. split; [split; assumption|]. auto.
Qed.

(* ---- arguments and directives ---- *)
Lemma parse_argument_sound c : psound2 (parse_argument fl n c) (D_argument nl c).
Proof.
  intros st x st' H. unfold parse_argument in H.
  pb H start s1 Hp. apply peek_ok in Hp. destruct Hp as [-> [r Hr]].
  pb H nm s2 Hn. apply parse_name_step in Hn. destruct Hn as (t & S1 & Kt & ->).
  pb H colon s3 Hc. apply expect_step in Hc. destruct Hc as [S2 Kc].
  pb H v s4 Hv. apply value_sound2 in Hv. destruct Hv as (vts & S3 & Hne & Dv).
  pose proof (S1 >> S2 >> S3) as S. simpl in S.
  pose proof (head_eq Hr S) as E. subst t.
  pb H l s5 Hg. apply (get_loc_mk fl start r st _ _ _ _ Hr S ltac:(discriminate)) in Hg. destruct Hg as [-> ->].
  apply pret_ok in H. destruct H as [-> ->].
  exists (start :: colon :: vts). split; [exact S|]. constructor; assumption.
Qed.

Lemma parse_arguments_sound c : psound2 (parse_arguments fl n c) (D_arguments nl c).
Proof.
  intros st x st' H. unfold parse_arguments in H.
  pb H t s1 Hp. apply peek_ok in Hp. destruct Hp as [-> _].
  destruct (is_kind KParenO t).
  - apply (many_sound _ _ n KParenO KParenC (parse_argument_sound c)) in H.
    destruct H as (ts & S & o & body & cl & -> & Ko & Kc & Hl & Hne).
    exists (o :: body ++ [cl]). split; [exact S|constructor; assumption].
  - apply pret_ok in H. destruct H as [-> ->]. exists []. split; [apply step_nil|constructor].
Qed.

Lemma parse_directive_sound c : psound2 (parse_directive fl n c) (D_directive nl c).
Proof.
  intros st x st' H. unfold parse_directive in H.
  pb H a s1 Ha. pose proof Ha as Ha'. apply expect_step in Ha. destruct Ha as [S1 Ka].
  pb H nm s2 Hn. apply parse_name_step in Hn. destruct Hn as (t & S2 & Kt & ->).
  pb H args s3 Hargs. apply parse_arguments_sound in Hargs. destruct Hargs as (ats & S3 & Da).
  pose proof (S1 >> S2 >> S3) as S. simpl in S.
  apply expect_ok in Ha'. destruct Ha' as (Hr & _ & _).
  pb H l s4 Hg. apply (get_loc_mk fl a _ st _ _ _ _ Hr S ltac:(discriminate)) in Hg. destruct Hg as [-> ->].
  apply pret_ok in H. destruct H as [-> ->].
  exists (a :: t :: ats). split; [exact S|]. constructor; assumption.
Qed.

Lemma parse_directives_sound c : psound2 (parse_directives fl n c) (D_directives nl c).
Proof. unfold parse_directives, D_directives. apply while_kind_sound. apply parse_directive_sound. Qed.

(* ---- selections ---- *)
Lemma parse_named_type_step st t st' : parse_named_type fl st = Ok (t, st') ->
  exists x, step st [x] st' /\ tk x = KName /\ t = TNamed (name_node nl x) (mkloc nl [x]).
Proof.
  intros H. apply parse_named_type_ok in H. destruct H as (x & H1 & H2 & H3 & H4).
  exists x. split; [apply step_one; auto|auto].
Qed.

Lemma parse_fragment_name_step st nm st' : parse_fragment_name fl st = Ok (nm, st') ->
  exists t, step st [t] st' /\ tk t = KName /\ tval t <> str_of_string "on" /\ nm = name_node nl t.
Proof.
  unfold parse_fragment_name. intros H. pb H t0 s1 Hp. apply peek_ok in Hp. destruct Hp as [-> [r Hr]].
  destruct (is_kw "on" (tval t0)) eqn:E; [exfalso; exact (unexpected_not_ok _ _ _ _ H)|].
  apply parse_name_step in H. destruct H as (t & S & K & ->).
  pose proof (head_eq Hr S) as E2. subst t0.
  exists t. split; [exact S|]. split; [exact K|]. split; [|reflexivity].
  unfold is_kw in E. apply str_eqb_neq in E. exact E.
Qed.

Definition R_selset (ts : list ptok) (x : list selection * loc) : Prop :=
  D_selection_set nl ts (fst x) (snd x).

Section Sel.
Variable sub : parser (list selection * loc).
Hypothesis Hsub : psound2 sub R_selset.

Lemma parse_field_sound : psound2 (parse_field fl n sub) (D_selection nl).
Proof.
  intros st x st' H. unfold parse_field in H.
  pb H start s0 Hp. apply peek_ok in Hp. destruct Hp as [-> [r Hr]].
  pb H na s1 Hn. apply parse_name_step in Hn. destruct Hn as (t0 & S0 & K0 & ->).
  pb H b s2 Hs. pb H an s3 Han.
  assert (Hhead : exists ats al nt, step st (ats ++ [nt]) s3 /\ D_alias nl ats al /\ tk nt = KName
                                    /\ an = (al, name_node nl nt)).
  { apply skip_step in Hs. destruct Hs as [(-> & colon & S1 & Kc)|(-> & ->)].
    - pb Han nm s4 Hn. apply parse_name_step in Hn. destruct Hn as (t1 & S2 & K1 & ->).
      apply pret_ok in Han. destruct Han as [-> ->].
      exists [t0; colon], (Some (name_node nl t0)), t1.
      split; [exact (S0 >> S1 >> S2)|]. split; [constructor; assumption|]. auto.
    - apply pret_ok in Han. destruct Han as [-> ->].
      exists [], None, t0. split; [exact S0|]. split; [constructor|]. auto. }
  destruct Hhead as (ats & al & nt & Sh & Dal & Knt & ->). simpl in H.
  pb H args s4 Hargs. apply parse_arguments_sound in Hargs. destruct Hargs as (argts & Sa & Da).
  pb H dirs s5 Hdirs. apply parse_directives_sound in Hdirs. destruct Hdirs as (dts & Sd & Dd).
  pb H t s6 Hp. apply peek_ok in Hp. destruct Hp as [-> _].
  pb H ss s7 Hss.
  assert (Hssx : exists ssts, step s5 ssts s7 /\ D_opt_selection_set nl ssts (fst ss) (snd ss)).
  { destruct (is_kind KCurlyO t).
    - pb Hss x0 s8 Hx. apply Hsub in Hx. destruct Hx as (ssts & Ss & Dss).
      apply pret_ok in Hss. destruct Hss as [-> ->]. exists ssts. split; [exact Ss|].
      unfold R_selset in Dss. destruct x0 as [sels l]. simpl in *. destruct Dss. constructor; assumption.
    - apply pret_ok in Hss. destruct Hss as [-> ->]. exists []. split; [apply step_nil|constructor]. }
  destruct Hssx as (ssts & Ss & Dss).
  pose proof (Sh >> Sa >> Sd >> Ss) as S. rewrite <- app_assoc in S. simpl in S.
  assert (Hne : ats ++ nt :: argts ++ dts ++ ssts <> []) by (destruct ats; discriminate).
  pb H l s8 Hg. apply (get_loc_mk fl start r st _ _ _ _ Hr S Hne) in Hg. destruct Hg as [-> ->].
  apply pret_ok in H. destruct H as [-> ->].
  exists (ats ++ nt :: argts ++ dts ++ ssts). split; [exact S|]. constructor; assumption.
Qed.

Lemma parse_fragment_sound : psound2 (parse_fragment fl n sub) (D_selection nl).
Proof.
  intros st x st' H. unfold parse_fragment in H.
  pb H start s0 Hp. apply peek_ok in Hp. destruct Hp as [-> [r Hr]].
  pb H e s1 He. apply expect_step in He. destruct He as [S0 Ke].
  pose proof (head_eq Hr S0) as E. subst e.
  pb H lead s2 Hp. apply peek_ok in Hp. destruct Hp as [-> [r1 Hr1]].
  destruct (is_kind KName lead && negb (is_kw "on" (tval lead))) eqn:Es.
  - pb H nm s3 Hn. apply parse_fragment_name_step in Hn. destruct Hn as (t & S1 & Kt & Hon & ->).
    pb H dirs s4 Hd. apply parse_directives_sound in Hd. destruct Hd as (dts & Sd & Dd).
    pose proof (S0 >> S1 >> Sd) as S. simpl in S.
    pb H l s5 Hg. apply (get_loc_mk fl start r st _ _ _ _ Hr S ltac:(discriminate)) in Hg.
    destruct Hg as [-> ->]. apply pret_ok in H. destruct H as [-> ->].
    exists (start :: t :: dts). split; [exact S|]. constructor; assumption.
  - pb H tc s3 Htc.
    assert (Htcx : exists tcts, step s1 tcts s3 /\ D_type_condition nl tcts tc).
    { destruct (is_kind KName lead && is_kw "on" (tval lead)) eqn:Eo.
      - pb Htc o s4 Ha. apply advance_step in Ha.
        pose proof (head_eq Hr1 Ha) as E. subst o.
        pb Htc t s5 Ht. apply parse_named_type_step in Ht. destruct Ht as (x0 & S2 & K2 & ->).
        apply pret_ok in Htc. destruct Htc as [-> ->].
        exists [lead; x0]. split; [exact (Ha >> S2)|]. constructor; [|exact K2].
        apply andb_true_iff in Eo. destruct Eo as [E1 E2].
        split; [apply tkind_eqb_eq; exact E1|apply str_eqb_eq; exact E2].
      - apply pret_ok in Htc. destruct Htc as [-> ->]. exists []. split; [apply step_nil|constructor]. }
    destruct Htcx as (tcts & Stc & Dtc).
    pb H dirs s4 Hd. apply parse_directives_sound in Hd. destruct Hd as (dts & Sd & Dd).
    pb H x0 s5 Hx. apply Hsub in Hx. destruct Hx as (ssts & Ss & Dss).
    unfold R_selset in Dss. destruct x0 as [sels sl]. simpl in *. destruct Dss as [o body cl sub0 Ko Kc Dsub Hne].
    pose proof (S0 >> Stc >> Sd >> Ss) as S. simpl in S.
    pb H l s6 Hg. apply (get_loc_mk fl start r st _ _ _ _ Hr S ltac:(discriminate)) in Hg.
    destruct Hg as [-> ->]. apply pret_ok in H. destruct H as [-> ->].
    exists (start :: tcts ++ dts ++ o :: body ++ [cl]). split; [exact S|]. constructor; assumption.
Qed.

Lemma parse_selection_sound : psound2 (parse_selection fl n sub) (D_selection nl).
Proof.
  intros st x st' H. unfold parse_selection in H.
  pb H t s0 Hp. apply peek_ok in Hp. destruct Hp as [-> _].
  destruct (is_kind KEllip t); [apply parse_fragment_sound|apply parse_field_sound]; exact H.
Qed.
End Sel.

Lemma D_list_selections ts ss : D_list (D_selection nl) ts ss -> D_selections nl ts ss.
Proof. induction 1; constructor; assumption. Qed.

Lemma parse_selection_set_sound : forall k, psound2 (parse_selection_set fl n k) R_selset.
Proof.
  induction k as [|k IH]; intros st x st' H; [discriminate|]. simpl in H.
  pb H start s0 Hp. apply peek_ok in Hp. destruct Hp as [-> [r Hr]].
  pb H sels s1 Hm.
  apply (many_sound _ _ k KCurlyO KCurlyC (parse_selection_sound _ IH)) in Hm.
  destruct Hm as (ts & S & o & body & cl & -> & Ko & Kc & Hl & Hne).
  pb H l s2 Hg. apply (get_loc_mk fl start r st _ _ _ _ Hr S ltac:(discriminate)) in Hg.
  destruct Hg as [-> ->]. apply pret_ok in H. destruct H as [-> ->].
  exists (o :: body ++ [cl]). split; [exact S|]. unfold R_selset. simpl.
  constructor; auto. apply D_list_selections; assumption.
Qed.

(* ---- variable definitions ---- *)
Lemma parse_variable_definition_sound :
  psound2 (parse_variable_definition fl n) (D_variable_definition nl).
Proof.
  intros st x st' H. unfold parse_variable_definition in H.
  pb H start s0 Hp. apply peek_ok in Hp. destruct Hp as [-> [r Hr]].
  pb H v s1 Hv. apply parse_variable_ok in Hv. destruct Hv as (d & t & Hts & Kd & Kt & Hl & ->).
  assert (S1 : step st [d; t] s1) by (split; [exact Hts|exact Hl]).
  pb H colon s2 Hc. apply expect_step in Hc. destruct Hc as [S2 Kc].
  pb H ty0 s3 Ht. apply type_sound2 in Ht. destruct Ht as (tyts & S3 & Hne & Dt).
  pb H b s4 Hs. pb H dv s5 Hdv.
  assert (Hdef : exists defts, step s3 defts s5 /\ D_default nl defts dv).
  { apply skip_step in Hs. destruct Hs as [(-> & eq & S4 & Keq)|(-> & ->)].
    - pb Hdv v0 s6 Hv0. apply value_sound2 in Hv0. destruct Hv0 as (vts & S5 & _ & Dv).
      apply pret_ok in Hdv. destruct Hdv as [-> ->].
      exists (eq :: vts). split; [exact (S4 >> S5)|constructor; assumption].
    - apply pret_ok in Hdv. destruct Hdv as [-> ->]. exists []. split; [apply step_nil|constructor]. }
  destruct Hdef as (defts & S4 & Ddef).
  pb H dirs s6 Hd. apply parse_directives_sound in Hd. destruct Hd as (dts & S5 & Dd).
  pose proof (S1 >> S2 >> S3 >> S4 >> S5) as S. simpl in S.
  pose proof (head_eq Hr S) as E. subst d.
  pb H l s7 Hg. apply (get_loc_mk fl start r st _ _ _ _ Hr S ltac:(discriminate)) in Hg.
  destruct Hg as [-> ->]. apply pret_ok in H. destruct H as [-> ->]. simpl.
  exists (start :: t :: colon :: tyts ++ defts ++ dts). split; [exact S|]. constructor; assumption.
Qed.

Lemma parse_variable_definitions_sound :
  psound2 (parse_variable_definitions fl n) (D_variable_definitions nl).
Proof.
  intros st x st' H. unfold parse_variable_definitions in H.
  pb H t s1 Hp. apply peek_ok in Hp. destruct Hp as [-> _].
  destruct (is_kind KParenO t).
  - apply (many_sound _ _ n KParenO KParenC parse_variable_definition_sound) in H.
    destruct H as (ts & S & o & body & cl & -> & Ko & Kc & Hl & Hne).
    exists (o :: body ++ [cl]). split; [exact S|constructor; assumption].
  - apply pret_ok in H. destruct H as [-> ->]. exists []. split; [apply step_nil|constructor].
Qed.

(* ---- operations and fragments ---- *)
Lemma op_kind_of_spec t k : tk t = KName -> op_kind_of (tval t) = Some k -> D_operation_type t k.
Proof.
  unfold op_kind_of, is_kw. intros Kt.
  destruct (str_eqb_spec (tval t) (kw "query")) as [E|_]; [intros H; inversion H; constructor; split; assumption|].
  destruct (str_eqb_spec (tval t) (kw "mutation")) as [E|_]; [intros H; inversion H; constructor; split; assumption|].
  destruct (str_eqb_spec (tval t) (kw "subscription")) as [E|_]; [intros H; inversion H; constructor; split; assumption|].
  discriminate.
Qed.

Lemma parse_operation_definition_sound :
  psound2 (parse_operation_definition fl n) (D_operation nl).
Proof.
  intros st x st' H. unfold parse_operation_definition in H.
  pb H start s0 Hp. apply peek_ok in Hp. destruct Hp as [-> [r Hr]].
  destruct (is_kind KCurlyO start).
  - pb H x0 s1 Hx. apply parse_selection_set_sound in Hx. destruct Hx as (ts & S & Dss).
    unfold R_selset in Dss. destruct x0 as [sels sl]. simpl in *.
    assert (Hne : ts <> []) by (destruct Dss; discriminate).
    pb H l s2 Hg. apply (get_loc_mk fl start r st _ _ _ _ Hr S Hne) in Hg.
    destruct Hg as [-> ->]. apply pret_ok in H. destruct H as [-> ->].
    exists ts. split; [exact S|].
    assert (sl = mkloc nl ts) by (destruct Dss; reflexivity). subst sl.
    constructor; assumption.
  - pb H k s1 Hk. unfold parse_operation_type in Hk.
    pb Hk kt s2 He. apply expect_step in He. destruct He as [S0 Kk].
    destruct (op_kind_of (tval kt)) as [kind|] eqn:Eo; [|exfalso; exact (unexpected_not_ok _ _ _ _ Hk)].
    apply pret_ok in Hk. destruct Hk as [-> ->].
    pose proof (head_eq Hr S0) as E. subst kt.
    pb H t s3 Hp. apply peek_ok in Hp. destruct Hp as [-> _].
    pb H nm s4 Hnm.
    assert (Hnmx : exists nts, step s2 nts s4 /\ D_opt_name nl nts nm).
    { destruct (is_kind KName t).
      - pb Hnm x0 s5 Hn. apply parse_name_step in Hn. destruct Hn as (t1 & S1 & K1 & ->).
        apply pret_ok in Hnm. destruct Hnm as [-> ->]. exists [t1]. split; [exact S1|constructor; exact K1].
      - apply pret_ok in Hnm. destruct Hnm as [-> ->]. exists []. split; [apply step_nil|constructor]. }
    destruct Hnmx as (nts & S1 & Dn).
    pb H vds s5 Hv. apply parse_variable_definitions_sound in Hv. destruct Hv as (vdts & S2 & Dv).
    pb H dirs s6 Hd. apply parse_directives_sound in Hd. destruct Hd as (dts & S3 & Dd).
    pb H x0 s7 Hx. apply parse_selection_set_sound in Hx. destruct Hx as (ssts & S4 & Dss).
    unfold R_selset in Dss. destruct x0 as [sels sl]. simpl in *.
    pose proof (S0 >> S1 >> S2 >> S3 >> S4) as S. simpl in S.
    pb H l s8 Hg. apply (get_loc_mk fl start r st _ _ _ _ Hr S ltac:(discriminate)) in Hg.
    destruct Hg as [-> ->]. apply pret_ok in H. destruct H as [-> ->].
    exists (start :: nts ++ vdts ++ dts ++ ssts). split; [exact S|].
    constructor; auto. apply op_kind_of_spec; assumption.
Qed.

Lemma parse_fragment_definition_sound :
  psound2 (parse_fragment_definition fl n) (D_fragment nl (fragment_variables fl)).
Proof.
  intros st x st' H. unfold parse_fragment_definition in H.
  pb H start s0 Hp. apply peek_ok in Hp. destruct Hp as [-> [r Hr]].
  pb H f s1 Hf. apply expect_keyword_ok in Hf. destruct Hf as [S0 Wf].
  pose proof (head_eq Hr S0) as E. subst f.
  pb H nm s2 Hn. apply parse_fragment_name_step in Hn. destruct Hn as (t & S1 & Kt & Hon & ->).
  pb H vds s3 Hv.
  assert (Hvx : exists vdts, step s2 vdts s3 /\
             (if fragment_variables fl then D_variable_definitions nl vdts vds else vdts = [] /\ vds = [])).
  { destruct (fragment_variables fl).
    - apply parse_variable_definitions_sound in Hv. exact Hv.
    - apply pret_ok in Hv. destruct Hv as [-> ->]. exists []. split; [apply step_nil|auto]. }
  destruct Hvx as (vdts & S2 & Dv).
  pb H o s4 Ho. apply expect_keyword_ok in Ho. destruct Ho as [S3 Wo].
  pb H tc s5 Ht. apply parse_named_type_step in Ht. destruct Ht as (tcn & S4 & Ktc & ->).
  pb H dirs s6 Hd. apply parse_directives_sound in Hd. destruct Hd as (dts & S5 & Dd).
  pb H x0 s7 Hx. apply parse_selection_set_sound in Hx. destruct Hx as (ssts & S6 & Dss).
  unfold R_selset in Dss. destruct x0 as [sels sl]. simpl in *.
  pose proof (S0 >> S1 >> S2 >> S3 >> S4 >> S5 >> S6) as S. simpl in S.
  pb H l s8 Hg. apply (get_loc_mk fl start r st _ _ _ _ Hr S ltac:(discriminate)) in Hg.
  destruct Hg as [-> ->]. apply pret_ok in H. destruct H as [-> ->].
  exists (start :: t :: vdts ++ o :: tcn :: dts ++ ssts). split; [exact S|]. constructor; assumption.
Qed.

Lemma parse_executable_definition_sound :
  psound2 (parse_executable_definition fl n) (D_executable_definition nl (fragment_variables fl)).
Proof.
  intros st x st' H. unfold parse_executable_definition in H.
  pb H start s0 Hp. apply peek_ok in Hp. destruct Hp as [-> _].
  destruct (is_kind KName start).
  - destruct (op_kind_of (tval start)).
    + apply parse_operation_definition_sound in H. destruct H as (ts & S & D).
      exists ts. split; [exact S|constructor 1; exact D].
    + destruct (is_kw "fragment" (tval start)); [|exfalso; exact (unexpected_not_ok _ _ _ _ H)].
      apply parse_fragment_definition_sound in H. destruct H as (ts & S & D).
      exists ts. split; [exact S|constructor 2; exact D].
  - destruct (is_kind KCurlyO start); [|exfalso; exact (unexpected_not_ok _ _ _ _ H)].
    apply parse_operation_definition_sound in H. destruct H as (ts & S & D).
    exists ts. split; [exact S|constructor 1; exact D].
Qed.

(* ---- documents (type-system definitions disabled) ---- *)
Hypothesis Hexec : allow_type_system fl = false.

Lemma parse_definition_sound :
  psound2 (parse_definition fl n) (D_executable_definition nl (fragment_variables fl)).
Proof.
  intros st x st' H. unfold parse_definition in H. rewrite Hexec in H.
  pb H start s0 Hp. apply peek_ok in Hp. destruct Hp as [-> _].
  destruct (is_kind KName start).
  - destruct (mem_str (tval start) (map kw executable_keywords));
      [apply parse_executable_definition_sound; exact H|exfalso; exact (unexpected_not_ok _ _ _ _ H)].
  - destruct (is_kind KCurlyO start); [apply parse_executable_definition_sound; exact H|].
    simpl in H. exfalso; exact (unexpected_not_ok _ _ _ _ H).
Qed.

Lemma definitions_loop_sound : forall k st xs st', definitions_loop fl n k st = Ok (xs, st') ->
  exists body eof, step st (body ++ [eof]) st' /\ tk eof = KEOF
    /\ D_list (D_executable_definition nl (fragment_variables fl)) body xs /\ xs <> [].
Proof.
  induction k as [|k IH]; intros st xs st' H; [discriminate|]. simpl in H.
  pb H d s1 Hd. apply parse_definition_sound in Hd. destruct Hd as (ts1 & S1 & D1).
  pb H b s2 Hs. apply skip_step in Hs. destruct Hs as [(-> & eof & S2 & Ke)|(-> & ->)].
  - apply pret_ok in H. destruct H as [-> ->].
    exists ts1, eof. split; [exact (S1 >> S2)|]. split; [exact Ke|]. split; [|discriminate].
    rewrite <- (app_nil_r ts1). constructor; [exact D1|constructor].
  - pb H ds s3 Hds. apply IH in Hds. destruct Hds as (body & eof & S3 & Ke & Dl & _).
    apply pret_ok in H. destruct H as [-> ->].
    exists (ts1 ++ body), eof. split; [rewrite <- app_assoc; exact (S1 >> S3)|].
    split; [exact Ke|]. split; [constructor; assumption|discriminate].
Qed.

Theorem parse_document_p_sound st d st' :
  parse_document_p fl n st = Ok (d, st') ->
  exists ts, step st ts st' /\ D_document_exec nl (fragment_variables fl) ts d.
Proof.
  intros H. unfold parse_document_p in H.
  pb H start s0 Hp. apply peek_ok in Hp. destruct Hp as [-> [r Hr]].
  pb H sof s1 Hs. apply expect_step in Hs. destruct Hs as [S0 Ks].
  pose proof (head_eq Hr S0) as E. subst sof.
  pb H defs s2 Hd. apply definitions_loop_sound in Hd. destruct Hd as (body & eof & S1 & Ke & Dl & Hne).
  pose proof (S0 >> S1) as S. simpl in S.
  pb H l s3 Hg. apply (get_loc_mk fl start r st _ _ _ _ Hr S ltac:(discriminate)) in Hg.
  destruct Hg as [-> ->]. apply pret_ok in H. destruct H as [-> ->].
  exists (start :: body ++ [eof]). split; [exact S|]. constructor; assumption.
Qed.

End Sound.
