(* Variable rules (NoUndefinedVariables, NoUnusedVariables) against their
   order-free specification forms. *)
From PyGql Require Import Valid.ValidOverlap Spec.ValidSpec Proofs.ValidCloseProofs Proofs.ValidGraphProofs.
From Coq Require Import Lia.

(* strong induction principle for [value] (nested through lists) *)
Section ValInd.
  Variable P : value -> Prop.
  Hypothesis Hvar : forall n l, P (VVar n l).
  Hypothesis Hint : forall x l, P (VInt x l).
  Hypothesis Hfloat : forall x l, P (VFloat x l).
  Hypothesis Hstring : forall x b l, P (VString x b l).
  Hypothesis Hbool : forall b l, P (VBool b l).
  Hypothesis Hnull : forall l, P (VNull l).
  Hypothesis Henum : forall x l, P (VEnum x l).
  Hypothesis Hlist : forall vs l, Forall P vs -> P (VList vs l).
  Hypothesis Hobj : forall fs l, Forall (fun f => P (snd (fst f))) fs -> P (VObject fs l).
  Fixpoint value_ind' (v : value) : P v :=
    match v with
    | VVar n l => Hvar n l
    | VInt x l => Hint x l
    | VFloat x l => Hfloat x l
    | VString x b l => Hstring x b l
    | VBool b l => Hbool b l
    | VNull l => Hnull l
    | VEnum x l => Henum x l
    | VList vs l =>
        Hlist vs l ((fix go (xs : list value) : Forall P xs :=
                       match xs with
                       | [] => Forall_nil P
                       | x :: xs' => Forall_cons x (value_ind' x) (go xs')
                       end) vs)
    | VObject fs l =>
        Hobj fs l ((fix go (xs : list (name * value * loc)) : Forall (fun f => P (snd (fst f))) xs :=
                      match xs with
                      | [] => Forall_nil _
                      | x :: xs' => Forall_cons x (value_ind' (snd (fst x))) (go xs')
                      end) fs)
    end.
End ValInd.

Definition unames (l : list usage) : list str := map u_name l.

Lemma unames_app a b : unames (a ++ b) = unames a ++ unames b.
Proof. apply map_app. Qed.

Lemma value_usages_obj s ity hd fs l :
  value_usages s ity hd (VObject fs l) =
  flat_map (fun f => value_usages s (fst (obj_field_slot s ity (n_val (fst (fst f)))))
                                    (snd (obj_field_slot s ity (n_val (fst (fst f))))) (snd (fst f))) fs.
Proof.
  simpl. induction fs as [|[[n x] fl] fs IH]; simpl; [reflexivity|]. f_equal. exact IH.
Qed.

Lemma value_usages_names s x : forall v ity hd,
  In x (unames (value_usages s ity hd v)) <-> value_has_var v x.
Proof.
  induction v as [n l|y l|y l|y b l|b l|l|y l|vs l IH|fs l IH] using value_ind'; intros ity hd;
    try (simpl; split; [tauto|intros H; inversion H]).
  - simpl. split; [intros [<-|[]]; constructor|intros H; inversion H; subst; left; reflexivity].
  - simpl. rewrite (go_is_flat_map (value_usages s (item_type s ity) false) vs).
    unfold unames. rewrite in_map_iff. split.
    + intros [u [Hu Hin]]. apply in_flat_map in Hin. destruct Hin as [y [Hy Hin]].
      rewrite Forall_forall in IH. eapply vh_list; [exact Hy|].
      apply (IH y Hy (item_type s ity) false). unfold unames. apply in_map_iff. eauto.
    + intros H. inversion H; subst. rewrite Forall_forall in IH.
      apply (IH y H2 (item_type s ity) false) in H4. unfold unames in H4. apply in_map_iff in H4.
      destruct H4 as [u [Hu Hin]]. exists u. split; [exact Hu|]. apply in_flat_map. eauto.
  - rewrite value_usages_obj. unfold unames. rewrite in_map_iff. split.
    + intros [u [Hu Hin]]. apply in_flat_map in Hin. destruct Hin as [[[n0 y] fl] [Hy Hin]].
      rewrite Forall_forall in IH. eapply vh_obj; [exact Hy|]. simpl in Hin.
      apply (IH _ Hy (fst (obj_field_slot s ity (n_val n0))) (snd (obj_field_slot s ity (n_val n0)))).
      unfold unames. apply in_map_iff. eauto.
    + intros H. inversion H; subst. rewrite Forall_forall in IH.
      match goal with Hi : In (_, _, _) fs |- _ =>
        pose proof (IH _ Hi (fst (obj_field_slot s ity (n_val n))) (snd (obj_field_slot s ity (n_val n)))) as IHy
      end.
      simpl in IHy. apply IHy in H4. unfold unames in H4. apply in_map_iff in H4.
      destruct H4 as [u [Hu Hin]]. exists u. split; [exact Hu|]. apply in_flat_map.
      eexists. split; [eassumption|]. simpl. exact Hin.
Qed.

Lemma typed_args_names s ctx args x :
  In x (unames (flat_map (fun p => value_usages s (fst (fst p)) (snd (fst p)) (snd p)) (typed_args s ctx args)))
  <-> args_have_var args x.
Proof.
  unfold unames, args_have_var, typed_args. rewrite in_map_iff. split.
  - intros [u [Hu Hin]]. apply in_flat_map in Hin. destruct Hin as [p [Hp Hin]].
    apply in_map_iff in Hp. destruct Hp as [a [<- Ha]]. simpl in Hin.
    exists a. split; [exact Ha|]. eapply value_usages_names. unfold unames. apply in_map_iff. eauto.
  - intros [a [Ha Hv]].
    apply (value_usages_names s x (a_val a) (fst (arg_slot s ctx (n_val (a_name a)))) (snd (arg_slot s ctx (n_val (a_name a))))) in Hv.
    unfold unames in Hv. apply in_map_iff in Hv. destruct Hv as [u [Hu Hin]].
    exists u. split; [exact Hu|]. apply in_flat_map. eexists. split; [apply in_map; exact Ha|]. simpl. exact Hin.
Qed.

Lemma dir_events_names s w cf dirs x :
  In x (unames (flat_map (ev_usages s) (map (EDirective w cf) dirs))) <-> dirs_have_var dirs x.
Proof.
  unfold dirs_have_var. induction dirs as [|dr dirs IH]; simpl.
  - split; [tauto|intros [dr [[] _]]].
  - rewrite unames_app, in_app_iff, IH. unfold ev_usages at 1. simpl typed_values_ev.
    rewrite typed_args_names. split.
    + intros [H|[dr' [Hd Hv]]]; [exists dr; tauto|exists dr'; tauto].
    + intros [dr' [[<-|Hd] Hv]]; [left; exact Hv|right; exists dr'; tauto].
Qed.

Lemma in_unames_flat_map2 s (g : selection -> list ev) (l : list selection) x :
  In x (unames (flat_map (ev_usages s) (flat_map g l))) <->
  exists y, In y l /\ In x (unames (flat_map (ev_usages s) (g y))).
Proof.
  unfold unames. rewrite in_map_iff. split.
  - intros [u [Hu Hin]]. apply in_flat_map2 in Hin. destruct Hin as [y [Hy Hin]].
    exists y. split; [exact Hy|]. apply in_map_iff. eauto.
  - intros [y [Hy Hin]]. apply in_map_iff in Hin. destruct Hin as [u [Hu Hin]].
    exists u. split; [exact Hu|]. apply in_flat_map2. eauto.
Qed.

Lemma flat_map_cons_eq {A B} (f : A -> list B) a l : flat_map f (a :: l) = f a ++ flat_map f l.
Proof. reflexivity. Qed.
Lemma ev_usages_spread s p n d l : ev_usages s (ESpread p n d l) = [].
Proof. reflexivity. Qed.
Lemma ev_usages_inline s a b c d e : ev_usages s (EInline a b c d e) = [].
Proof. reflexivity. Qed.
Lemma ev_usages_selset s a l b : ev_usages s (ESelSet a l b) = [].
Proof. reflexivity. Qed.

Lemma sel_usages_names s x : forall y ty_ parent cf,
  In x (unames (flat_map (ev_usages s) (sel_events s ty_ parent cf y))) <-> sel_has_var y x.
Proof.
  induction y as [alias n args dirs sl sub l IH|n dirs l|tc dirs ssl sub l IH] using selection_ind';
    intros ty_ parent cf.
  - rewrite sel_events_field. cbv zeta. simpl flat_map at 1.
    rewrite flat_map_app, !unames_app, !in_app_iff.
    unfold ev_usages at 1. simpl typed_values_ev. rewrite typed_args_names, dir_events_names.
    rewrite Forall_forall in IH.
    destruct sl as [l0|].
    + simpl flat_map at 1. unfold ev_usages at 1. simpl typed_values_ev. simpl flat_map at 1. simpl app.
      fold (ev_usages s). rewrite in_unames_flat_map2. split.
      * intros [H|[H|[y [Hy Hx]]]];
          [apply sv_field_args; exact H|apply sv_field_dirs; exact H|].
        eapply sv_field_sub; [exact Hy|]. apply (IH y Hy) in Hx. exact Hx.
      * intros H. inversion H; subst; [left; assumption|right; left; assumption|].
        right. right. eexists. split; [eassumption|]. apply (IH y); assumption.
    + simpl. split.
      * intros [H|[H|[]]]; [apply sv_field_args; exact H|apply sv_field_dirs; exact H].
      * intros H. inversion H; subst; tauto.
  - change (sel_events s ty_ parent cf (SSpread n dirs l))
      with (ESpread parent n dirs l :: map (EDirective (S_ "FRAGMENT_SPREAD") cf) dirs).
    rewrite flat_map_cons_eq, ev_usages_spread. simpl app.
    rewrite dir_events_names. split; [intros H; constructor; exact H|intros H; inversion H; assumption].
  - rewrite sel_events_inline. cbv zeta.
    rewrite flat_map_cons_eq, ev_usages_inline. simpl app.
    rewrite flat_map_app, unames_app, in_app_iff, dir_events_names.
    rewrite flat_map_cons_eq, ev_usages_selset. simpl app.
    rewrite in_unames_flat_map2. rewrite Forall_forall in IH. split.
    + intros [H|[y [Hy Hx]]]; [apply sv_inline_dirs; exact H|].
      eapply sv_inline_sub; [exact Hy|]. apply (IH y Hy) in Hx. exact Hx.
    + intros H. inversion H; subst; [left; assumption|].
      right. eexists. split; [eassumption|]. apply (IH y); assumption.
Qed.

Lemma def_usages_names s df x :
  is_op df = true \/ is_frag df = true ->
  (In x (unames (def_usages s df)) <-> def_has_var df x).
Proof.
  intros Hk. unfold def_usages, def_has_var.
  destruct df; simpl in Hk; try (destruct Hk; discriminate); simpl def_events; simpl def_dirs; simpl def_sels.
  - rewrite flat_map_app, unames_app, in_app_iff, dir_events_names.
    simpl flat_map at 1. unfold ev_usages at 1. simpl typed_values_ev. simpl flat_map at 1. simpl app.
    fold (ev_usages s). rewrite in_unames_flat_map2.
    split; (intros [H|[y [Hy Hx]]]; [left; exact H|right; exists y; split; [exact Hy|]]);
      [apply (sel_usages_names s x y) in Hx; exact Hx|apply (sel_usages_names s x y); exact Hx].
  - rewrite flat_map_app, unames_app, in_app_iff, dir_events_names.
    simpl flat_map at 1. unfold ev_usages at 1. simpl typed_values_ev. simpl flat_map at 1. simpl app.
    fold (ev_usages s). rewrite in_unames_flat_map2.
    split; (intros [H|[y [Hy Hx]]]; [left; exact H|right; exists y; split; [exact Hy|]]);
      [apply (sel_usages_names s x y) in Hx; exact Hx|apply (sel_usages_names s x y); exact Hx].
Qed.

(* ---- operations are keyed by name in VariablesCollector ---- *)
Definition key_of (x : definition) : list str := match op_key x with Some k => [k] | None => [] end.
Definition op_key_list (d : document) : list str := flat_map key_of (doc_defs d).

Lemma filter_key_nil ds k :
  ~ In k (flat_map key_of ds) ->
  filter (fun x => match op_key x with Some k' => str_eqb k k' | None => false end) ds = [].
Proof.
  induction ds as [|a ds IH]; simpl; [reflexivity|]. intros Hn.
  rewrite in_app_iff in Hn. unfold key_of at 1 in Hn.
  destruct (op_key a) as [k'|] eqn:Hk.
  - destruct (str_eqb_spec k k') as [->|Hne]; [exfalso; apply Hn; left; left; reflexivity|].
    apply IH. tauto.
  - apply IH. tauto.
Qed.

Lemma defs_with_key_unique ds k op :
  NoDup (flat_map key_of ds) -> In op ds -> op_key op = Some k ->
  filter (fun x => match op_key x with Some k' => str_eqb k k' | None => false end) ds = [op].
Proof.
  induction ds as [|a ds IH]; simpl; [intros _ []|]. intros Hnd Hin Hk.
  assert (Hkin : forall o, In o ds -> op_key o = Some k -> In k (flat_map key_of ds)).
  { intros o Ho Hko. apply in_flat_map. exists o. split; [exact Ho|]. unfold key_of. rewrite Hko. left. reflexivity. }
  destruct Hin as [->|Hin].
  - rewrite Hk, str_eqb_refl. f_equal. apply filter_key_nil.
    unfold key_of at 1 in Hnd. rewrite Hk in Hnd. simpl in Hnd. inversion Hnd; assumption.
  - destruct (op_key a) as [k'|] eqn:Hka.
    + unfold key_of at 1 in Hnd. rewrite Hka in Hnd. simpl in Hnd. inversion Hnd; subst.
      destruct (str_eqb_spec k k') as [->|Hne]; [exfalso; eauto|]. apply IH; assumption.
    + unfold key_of at 1 in Hnd. rewrite Hka in Hnd. simpl in Hnd. apply IH; assumption.
Qed.

Lemma op_keys_In d k : In k (op_keys d) <-> exists op, In op (doc_defs d) /\ op_key op = Some k.
Proof.
  unfold op_keys. rewrite dedup_In, in_flat_map. split.
  - intros [op [Hop Hk]]. exists op. split; [exact Hop|].
    destruct (op_key op); simpl in Hk; [destruct Hk as [->|[]]; reflexivity|destruct Hk].
  - intros [op [Hop Hk]]. exists op. split; [exact Hop|]. rewrite Hk. left. reflexivity.
Qed.

Lemma op_key_operation op : is_operation op -> exists k, op_key op = Some k.
Proof. destruct op; simpl; try tauto. intros _. destruct n; eexists; reflexivity. Qed.
Lemma op_key_is_op op k : op_key op = Some k -> is_op op = true /\ is_operation op.
Proof. destruct op; simpl; try discriminate. tauto. Qed.

Lemma op_defines_names op x : is_operation op -> (op_defines op x <-> In x (map vd_name (op_vardefs op))).
Proof.
  destruct op; simpl; try tauto. intros _. rewrite in_map_iff. unfold vd_name.
  split; intros [vd H]; exists vd; tauto.
Qed.

(* ---- the graph VariablesCollector closes over ---- *)
Lemma defs_named_In d f df : In df (defs_named d f) <-> In df (doc_defs d) /\ frag_name df = Some f.
Proof.
  unfold defs_named. rewrite filter_In. split; intros [H1 H2]; (split; [exact H1|]).
  - destruct (frag_name df) as [f'|]; [|discriminate]. apply str_eqb_eq in H2. congruence.
  - rewrite H2. apply str_eqb_refl.
Qed.

Lemma frag_frags_spec s d p x : In x (frag_frags s d p) <-> frag_edge d p x /\ x <> p.
Proof.
  unfold frag_frags. rewrite filter_In, in_flat_map. split.
  - intros [[df [Hdf Hx]] Hne]. apply defs_named_In in Hdf. destruct Hdf as [Hdf Hn]. split.
    + exists df. split; [exact Hdf|]. split; [apply frag_name_named; exact Hn|].
      apply (def_spreads_spec s). exact Hx.
    + intros ->. rewrite str_eqb_refl in Hne. discriminate.
  - intros [[df [Hdf [Hn Hs]]] Hne]. split.
    + exists df. split; [apply defs_named_In; split; [exact Hdf|apply frag_name_named; exact Hn]|].
      apply def_spreads_spec. exact Hs.
    + destruct (str_eqb_spec x p); [contradiction|reflexivity].
Qed.

Lemma frag_usages_In s d f u :
  In u (frag_usages s d f) <-> exists df, In df (doc_defs d) /\ frag_name df = Some f /\ In u (def_usages s df).
Proof.
  unfold frag_usages. rewrite in_flat_map. split.
  - intros [df [Hdf Hu]]. apply defs_named_In in Hdf. exists df. tauto.
  - intros [df [Hdf [Hn Hu]]]. exists df. split; [apply defs_named_In; tauto|exact Hu].
Qed.

Section OneOperation.
  Variables (s : schema) (d : document) (k : str) (op : definition) (fr : list str).
  Hypothesis Hunique : defs_with_key d k = [op].
  Hypothesis Hop : is_operation op.
  Hypothesis Hclose : op_closure s d k = Ok fr.

  Lemma op_frags_one : op_frags s d k = def_spreads s op.
  Proof. unfold op_frags. rewrite Hunique. simpl. apply app_nil_r. Qed.
  Lemma op_usages_one : op_usages s d k = def_usages s op.
  Proof. unfold op_usages. rewrite Hunique. simpl. apply app_nil_r. Qed.
  Lemma op_defined_one : op_defined d k = op_vardefs op.
  Proof. unfold op_defined. rewrite Hunique. simpl. apply app_nil_r. Qed.

  Lemma closure_to_reach f : In f fr -> frag_reach d (def_sels op) f.
  Proof.
    intros Hf. unfold op_closure in Hclose. pose proof (close_sound _ _ _ _ _ Hclose f Hf) as Hr.
    clear Hf. induction Hr as [y Hy|p y Hp IHp Hy Hc].
    - apply fr_direct. rewrite op_frags_one in Hy. apply def_spreads_spec in Hy. exact Hy.
    - eapply fr_step; [exact IHp|]. apply frag_frags_spec in Hy. tauto.
  Qed.

  Lemma reach_to_closure f : frag_reach d (def_sels op) f -> In f (frag_names d) -> In f fr.
  Proof.
    intros Hr Hdef. unfold op_closure in Hclose. apply (close_complete _ _ _ _ _ Hclose).
    induction Hr as [x Hx|y x Hy IH He].
    - apply creach_base. rewrite op_frags_one. apply def_spreads_spec. exact Hx.
    - specialize (IH (edge_source_defined _ _ _ He)).
      destruct (str_eq_dec x y) as [->|Hne]; [exact IH|].
      eapply creach_step; [exact IH|apply frag_frags_spec; tauto|exact Hdef].
  Qed.

  (* the usages the rules look at = the variables the operation uses *)
  Lemma uses_spec x :
    In x (unames (flat_map (frag_usages s d) (dedup fr) ++ op_usages s d k)) <-> op_uses_var d op x.
  Proof.
    rewrite unames_app, in_app_iff. unfold op_uses_var. split.
    - intros [H|H].
      + right. unfold unames in H. apply in_map_iff in H. destruct H as [u [Hu Hin]].
        apply in_flat_map in Hin. destruct Hin as [f [Hf Hin]]. apply (proj1 (dedup_In _ _)) in Hf.
        apply frag_usages_In in Hin. destruct Hin as [df [Hdf [Hn Hud]]].
        exists f, df. split; [apply closure_to_reach; exact Hf|]. split; [exact Hdf|].
        split; [apply frag_name_named; exact Hn|].
        apply (def_usages_names s df x); [right; destruct df; simpl in *; try discriminate; reflexivity|].
        unfold unames. apply in_map_iff. eauto.
      + left. rewrite op_usages_one in H. apply (def_usages_names s op x); [|exact H].
        left. destruct op; simpl in *; try tauto.
    - intros [H|[f [df [Hr [Hdf [Hn Hv]]]]]].
      + right. rewrite op_usages_one. apply (def_usages_names s op x); [|exact H].
        left. destruct op; simpl in *; try tauto.
      + left. apply (def_usages_names s df x) in Hv; [|right; destruct df; simpl in *; try tauto].
        unfold unames in *. apply in_map_iff in Hv. destruct Hv as [u [Hu Hin]].
        apply in_map_iff. exists u. split; [exact Hu|]. apply in_flat_map. exists f. split.
        * apply dedup_In. apply reach_to_closure; [exact Hr|]. apply frag_names_In. exists df. tauto.
        * apply frag_usages_In. exists df. split; [exact Hdf|]. split; [apply frag_name_named; exact Hn|exact Hin].
  Qed.
End OneOperation.

Lemma flat_map_if_nil {A B} (c : A -> bool) (g : A -> B) l :
  flat_map (fun u => if c u then [] else [g u]) l = [] <-> forall u, In u l -> c u = true.
Proof.
  induction l as [|a l IH]; simpl; [split; [intros _ u []|reflexivity]|].
  destruct (c a) eqn:Hc; simpl.
  - rewrite IH. split; [intros H u [<-|Hu]; auto|intros H u Hu; apply H; right; exact Hu].
  - split; [discriminate|]. intros H. specialize (H a (or_introl eq_refl)). congruence.
Qed.

Theorem r16_equiv s d :
  NoDup (op_key_list d) ->
  (r16_no_undefined_variables s d = Ok [] <-> spec_no_undefined_variables d).
Proof.
  intros Hnd. split.
  - intros H op x Hin Hisop Huse.
    destruct (op_key_operation op Hisop) as [k Hk].
    destruct (ocat_inv _ _ _ H) as [H1 _].
    destruct (H1 k) as [rx [Hfx Hincl]]; [apply op_keys_In; eauto|].
    destruct (op_closure s d k) as [fr| | |] eqn:Hc; simpl in Hfx; try discriminate.
    inversion Hfx as [Hrx]. clear Hfx.
    assert (Hu : defs_with_key d k = [op]) by (apply defs_with_key_unique; assumption).
    assert (Hnil : rx = []) by (destruct rx as [|v rx]; [reflexivity|destruct (Hincl v (or_introl eq_refl))]).
    rewrite Hnil in Hrx.
    pose proof (proj1 (flat_map_if_nil (fun u => mem_str (u_name u) (defined_names d k)) (fun u => mk 16 (u_loc u)) _) Hrx) as Hall.
    clear Hrx. rename Hall into Hrx.
    apply (uses_spec s d k op fr Hu Hisop Hc) in Huse. unfold unames in Huse.
    apply in_map_iff in Huse. destruct Huse as [u [Hux Huin]].
    specialize (Hrx u Huin). apply mem_str_In in Hrx. rewrite Hux in Hrx.
    apply op_defines_names; [exact Hisop|]. unfold defined_names in Hrx.
    rewrite (op_defined_one d k op Hu) in Hrx. exact Hrx.
  - intros Hspec. destruct (r16_ok s d) as [l Hl]. rewrite Hl. f_equal.
    apply (ocat_nil_iff _ _ _ Hl). intros k rx Hk Hfx.
    apply op_keys_In in Hk. destruct Hk as [op [Hin Hk]].
    destruct (op_key_is_op _ _ Hk) as [_ Hisop].
    assert (Hu : defs_with_key d k = [op]) by (apply defs_with_key_unique; assumption).
    destruct (op_closure s d k) as [fr| | |] eqn:Hc; simpl in Hfx; try discriminate.
    inversion Hfx as [Hrx].
    apply (proj2 (flat_map_if_nil (fun u => mem_str (u_name u) (defined_names d k)) (fun u => mk 16 (u_loc u)) _)).
    intros u Hu_in.
    apply mem_str_In. unfold defined_names. rewrite (op_defined_one d k op Hu).
    apply op_defines_names; [exact Hisop|]. apply (Hspec op (u_name u) Hin Hisop).
    apply (uses_spec s d k op fr Hu Hisop Hc). unfold unames. apply in_map. exact Hu_in.
Qed.

Theorem r17_equiv s d :
  NoDup (op_key_list d) ->
  (r17_no_unused_variables s d = Ok [] <-> spec_no_unused_variables d).
Proof.
  intros Hnd. split.
  - intros H op x Hin Hisop Hdef.
    destruct (op_key_operation op Hisop) as [k Hk].
    destruct (ocat_inv _ _ _ H) as [H1 _].
    destruct (H1 k) as [rx [Hfx Hincl]]; [apply op_keys_In; eauto|].
    destruct (op_closure s d k) as [fr| | |] eqn:Hc; simpl in Hfx; try discriminate.
    inversion Hfx as [Hrx]. clear Hfx.
    assert (Hu : defs_with_key d k = [op]) by (apply defs_with_key_unique; assumption).
    assert (Hnil : rx = []) by (destruct rx as [|v rx]; [reflexivity|destruct (Hincl v (or_introl eq_refl))]).
    rewrite Hnil in Hrx.
    pose proof (proj1 (flat_map_if_nil (fun vd => mem_str (vd_name vd)
              (map u_name (flat_map (frag_usages s d) (dedup fr) ++ op_usages s d k)))
            (fun vd => mk 17 (vd_loc vd)) _) Hrx) as Hall.
    clear Hrx. rename Hall into Hrx.
    apply (op_defines_names op x Hisop) in Hdef. apply in_map_iff in Hdef. destruct Hdef as [vd [Hvx Hvd]].
    rewrite (op_defined_one d k op Hu) in Hrx. specialize (Hrx vd Hvd). apply mem_str_In in Hrx.
    rewrite Hvx in Hrx. apply (uses_spec s d k op fr Hu Hisop Hc). exact Hrx.
  - intros Hspec. destruct (r17_ok s d) as [l Hl]. rewrite Hl. f_equal.
    apply (ocat_nil_iff _ _ _ Hl). intros k rx Hk Hfx.
    apply op_keys_In in Hk. destruct Hk as [op [Hin Hk]].
    destruct (op_key_is_op _ _ Hk) as [_ Hisop].
    assert (Hu : defs_with_key d k = [op]) by (apply defs_with_key_unique; assumption).
    destruct (op_closure s d k) as [fr| | |] eqn:Hc; simpl in Hfx; try discriminate.
    inversion Hfx as [Hrx].
    apply (proj2 (flat_map_if_nil (fun vd => mem_str (vd_name vd)
              (map u_name (flat_map (frag_usages s d) (dedup fr) ++ op_usages s d k)))
            (fun vd => mk 17 (vd_loc vd)) _)).
    intros vd Hvd.
    apply mem_str_In. rewrite (op_defined_one d k op Hu) in Hvd.
    apply (uses_spec s d k op fr Hu Hisop Hc). apply (Hspec op (vd_name vd) Hin Hisop).
    apply op_defines_names; [exact Hisop|]. apply in_map. exact Hvd.
Qed.
