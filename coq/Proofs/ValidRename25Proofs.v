(* Consistent renaming keeps the verdict of ValuesOfCorrectType and
   VariablesInAllowedPosition too: with ValidRenameAllProofs, of all 25 rules
   other than OverlappingFieldsCanBeMerged. *)
From PyGql Require Import Valid.ValidOverlap Spec.ValidSpec Spec.ValidLocalSpec Spec.ValidValueSpec Spec.ValidTypedSpec
     Proofs.ValidCloseProofs
     Proofs.ValidGraphProofs Proofs.ValidVarProofs Proofs.ValidPermProofs Proofs.ValidStaticProofs
     Proofs.ValidUniqueProofs Proofs.ValidUnusedProofs Proofs.ValidLocalProofs Proofs.ValidVerdictProofs
     Proofs.ValidSelPermProofs Proofs.ValidPermAllProofs Proofs.ValidSelPermAllProofs Proofs.ValidRenameProofs
     Proofs.ValidRenameAllProofs Proofs.ValidVerdict25Proofs.

(* same literal up to the names of the variables in it *)
Inductive vsim : value -> value -> Prop :=
| vs_var n l n' l' : vsim (VVar n l) (VVar n' l')
| vs_int x l : vsim (VInt x l) (VInt x l)
| vs_float x l : vsim (VFloat x l) (VFloat x l)
| vs_string x b l : vsim (VString x b l) (VString x b l)
| vs_bool b l : vsim (VBool b l) (VBool b l)
| vs_null l : vsim (VNull l) (VNull l)
| vs_enum x l : vsim (VEnum x l) (VEnum x l)
| vs_list vs vs' l : Forall2 vsim vs vs' -> vsim (VList vs l) (VList vs' l)
| vs_obj fs fs' l :
    Forall2 (fun f f' => n_val (fst (fst f)) = n_val (fst (fst f')) /\ vsim (snd (fst f)) (snd (fst f'))) fs fs' ->
    vsim (VObject fs l) (VObject fs' l).

Lemma Forall2_flip {A B} (R : A -> B -> Prop) (R' : B -> A -> Prop) l m :
  (forall a, In a l -> forall b, R a b -> R' b a) -> Forall2 R l m -> Forall2 R' m l.
Proof.
  intros H HF. induction HF as [|a b l m Hab HF IH]; constructor.
  - apply H; [left; reflexivity|exact Hab].
  - apply IH. intros a0 Ha0. apply H. right. exact Ha0.
Qed.
Lemma Forall2_weaken {A B} (R R' : A -> B -> Prop) l m :
  (forall a, In a l -> forall b, R a b -> R' a b) -> Forall2 R l m -> Forall2 R' l m.
Proof.
  intros H HF. induction HF as [|a b l m Hab HF IH]; constructor.
  - apply H; [left; reflexivity|exact Hab].
  - apply IH. intros a0 Ha0. apply H. right. exact Ha0.
Qed.

Lemma ren_value_sim sigma : forall v v', ren_value sigma v v' -> vsim v v' /\ vsim v' v.
Proof.
  induction v as [n l|x l|x l|x b l|b l|l|x l|vs l IH|fs l IH] using value_ind'; intros v' Hr; inversion Hr; subst;
    try (split; constructor; fail).
  - rewrite Forall_forall in IH. split; constructor.
    + eapply Forall2_weaken; [|eassumption]. intros a Ha b Hab. apply (IH a Ha b Hab).
    + eapply Forall2_flip; [|eassumption]. intros a Ha b Hab. apply (IH a Ha b Hab).
  - rewrite Forall_forall in IH. split; constructor.
    + eapply Forall2_weaken; [|eassumption]. intros a Ha b [E Hab]. split; [symmetry; exact E|apply (IH a Ha _ Hab)].
    + eapply Forall2_flip; [|eassumption]. intros a Ha b [E Hab]. split; [exact E|apply (IH a Ha _ Hab)].
Qed.

Lemma coercible_sim s : forall v v' t, vsim v v' -> coercible s t v -> coercible s t v'.
Proof.
  induction v as [n l|x l|x l|x b l|b l|l|x l|vs l IH|fs l IH] using value_ind'; intros v' t Hs; inversion Hs; subst;
    try (intros H; exact H); try (intros _; constructor; fail).
  - (* list *)
    rewrite Forall_forall in IH. match goal with HF : Forall2 _ vs _ |- _ => rename HF into HF2 end.
    induction t as [n|t0 IHt|t0 IHt]; intros Hc; inversion Hc; subst;
      try (match goal with H : scalar_literal _ _ |- _ => inversion H; fail end);
      try (match goal with H : single_item _ |- _ => destruct H; fail end).
    + apply co_list. apply Forall_forall. intros y' Hy'. destruct (Forall2_In_r _ _ _ _ HF2 Hy') as [y [Hy Hyy]].
      apply (IH y Hy y' t0 Hyy). match goal with F : Forall _ vs |- _ => rewrite Forall_forall in F; apply F; exact Hy end.
    + apply co_nonnull; [exact I|]. apply IHt. assumption.
  - (* object *)
    rewrite Forall_forall in IH. match goal with HF : Forall2 _ fs _ |- _ => rename HF into HF2 end.
    induction t as [n|t0 IHt|t0 IHt]; intros Hc; inversion Hc; subst;
      try (match goal with H : scalar_literal _ _ |- _ => inversion H; fail end).
    + eapply co_object; [eassumption| |].
      * intros fd Hfd Hreq. match goal with H : forall fd, In fd _ -> _ -> exists f, _ |- _ => destruct (H fd Hfd Hreq) as [f [Hf En]] end.
        destruct (Forall2_In_l _ _ _ _ HF2 Hf) as [f' [Hf' [E _]]]. exists f'. split; [exact Hf'|]. rewrite <- E. exact En.
      * apply Forall_forall. intros f' Hf'. destruct (Forall2_In_r _ _ _ _ HF2 Hf') as [f [Hf [E Hv]]].
        match goal with F : Forall _ fs |- _ => rewrite Forall_forall in F; destruct (F f Hf) as [fd [Hfind Hco]] end.
        exists fd. split; [rewrite <- E; exact Hfind|]. apply (IH f Hf _ _ Hv). exact Hco.
    + apply co_single; [exact I|]. apply IHt. assumption.
    + apply co_nonnull; [exact I|]. apply IHt. assumption.
Qed.

Section Ren25.
  Variables rho sigma : str -> str.
  Hypothesis rho_inj : forall a b, rho a = rho b -> a = b.
  Hypothesis sigma_inj : forall a b, sigma a = sigma b -> a = b.
  Notation rsel := (ren_sel rho sigma).
  Notation rdef := (ren_def rho sigma).
  Notation rdoc := (ren_doc rho sigma).

  Lemma coercible_ren s t v v' : ren_value sigma v v' -> (coercible s t v <-> coercible s t v').
  Proof. intros Hr. destruct (ren_value_sim sigma v v' Hr) as [H1 H2]. split; apply coercible_sim; assumption. Qed.

  Lemma args_coercible_fwd s defs a a' : ren_args sigma a a' -> args_coercible s defs a -> args_coercible s defs a'.
  Proof.
    intros HF H x' ad Hx' Hfind Hin. destruct (Forall2_In_r _ _ _ _ HF Hx') as [x [Hx [En Hv]]].
    apply (coercible_ren s _ _ _ Hv). apply H; [exact Hx|rewrite <- En; exact Hfind|exact Hin].
  Qed.
  Lemma args_coercible_bwd s defs a a' : ren_args sigma a a' -> args_coercible s defs a' -> args_coercible s defs a.
  Proof.
    intros HF H x ad Hx Hfind Hin. destruct (Forall2_In_l _ _ _ _ HF Hx) as [x' [Hx' [En Hv]]].
    apply (coercible_ren s _ _ _ Hv). apply H; [exact Hx'|rewrite En; exact Hfind|exact Hin].
  Qed.

  Lemma spec22_ren s d d' : rdoc d d' -> (spec_values_of_correct_type s d <-> spec_values_of_correct_type s d').
  Proof.
    intros Hdp. split; intros (Ha & Hb & Hc); (split; [|split]).
    - intros p a n args' dirs sl sub l f Hr Hf. destruct (reaches_ren_bwd rho sigma s d d' Hdp _ _ Hr) as [z [Hr0 Hz]].
      inversion Hz; subst. eapply args_coercible_fwd; [eassumption|]. eapply Ha; eassumption.
    - intros w dr' dd Hat Hdd. destruct (directive_at_ren_bwd rho sigma s d d' Hdp w dr' Hat) as [dr [Hat0 [En HA]]].
      eapply args_coercible_fwd; [exact HA|]. eapply Hb; [exact Hat0|]. rewrite <- En. exact Hdd.
    - intros df' vd' v' t Hdf' Hvd' Hv' Ht Hin. destruct (Forall2_In_r _ _ _ _ Hdp Hdf') as [df [Hdf Hr]].
      destruct Hr as [k n vds vds' dirs dirs' ssl sels sels' l HV HD HS|]; simpl in Hvd'; [|destruct Hvd'].
      destruct (Forall2_In_r _ _ _ _ HV Hvd') as [vd [Hvd (_ & Et & Hdflt)]]. rewrite Hv' in Hdflt. unfold ren_default in Hdflt.
      destruct (vd_default vd) as [v|] eqn:Ev; [|destruct Hdflt]. apply (coercible_ren s t _ _ Hdflt).
      eapply Hc; [exact Hdf|exact Hvd|exact Ev|rewrite <- Et; exact Ht|exact Hin].
    - intros p a n args dirs sl sub l f Hr Hf. destruct (reaches_ren_fwd rho sigma s d d' Hdp _ _ Hr) as [z' [Hr' Hz]].
      inversion Hz; subst. eapply args_coercible_bwd; [eassumption|]. eapply Ha; eassumption.
    - intros w dr dd Hat Hdd. destruct (directive_at_ren_fwd rho sigma s d d' Hdp w dr Hat) as [dr' [Hat' [En HA]]].
      eapply args_coercible_bwd; [exact HA|]. eapply Hb; [exact Hat'|]. rewrite En. exact Hdd.
    - intros df vd v t Hdf Hvd Hv Ht Hin. destruct (Forall2_In_l _ _ _ _ Hdp Hdf) as [df' [Hdf' Hr]].
      destruct Hr as [k n vds vds' dirs dirs' ssl sels sels' l HV HD HS|]; simpl in Hvd; [|destruct Hvd].
      destruct (Forall2_In_l _ _ _ _ HV Hvd) as [vd' [Hvd' (_ & Et & Hdflt)]]. rewrite Hv in Hdflt. unfold ren_default in Hdflt.
      destruct (vd_default vd') as [v'|] eqn:Ev; [|destruct Hdflt]. apply (coercible_ren s t _ _ Hdflt).
      eapply Hc; [exact Hdf'|exact Hvd'|exact Ev|rewrite Et; exact Ht|exact Hin].
  Qed.

  (* ---- rule 24 ---- *)
  Lemma var_at_fwd s ity hd v x it' hd' :
    var_at s ity hd v x it' hd' -> forall v', ren_value sigma v v' -> var_at s ity hd v' (sigma x) it' hd'.
  Proof.
    induction 1 as [ity hd n l|ity hd vs l y x it' hd' Hy Hat IH|ity hd fs l n y fl x it' hd' Hin Hat IH]; intros v' Hr;
      inversion Hr; subst.
    - match goal with E : n_val _ = sigma _ |- _ => rewrite <- E end. constructor.
    - match goal with HF : Forall2 _ vs _ |- _ => destruct (Forall2_In_l _ _ _ _ HF Hy) as [y' [Hy' Hyy]] end.
      eapply va_list; [exact Hy'|apply IH; exact Hyy].
    - match goal with HF : Forall2 _ fs _ |- _ => destruct (Forall2_In_l _ _ _ _ HF Hin) as [[[n' y'] fl'] [Hf' [En Hyy]]] end.
      simpl in En, Hyy. eapply va_obj; [exact Hf'|]. rewrite En. apply IH. exact Hyy.
  Qed.
  Lemma var_at_bwd s ity hd v' y it' hd' :
    var_at s ity hd v' y it' hd' -> forall v, ren_value sigma v v' -> exists x, y = sigma x /\ var_at s ity hd v x it' hd'.
  Proof.
    induction 1 as [ity hd n l|ity hd vs l y0 x it' hd' Hy Hat IH|ity hd fs l n y0 fl x it' hd' Hin Hat IH]; intros v Hr;
      inversion Hr; subst.
    - eexists. split; [eassumption|constructor].
    - match goal with HF : Forall2 _ _ vs |- _ => destruct (Forall2_In_r _ _ _ _ HF Hy) as [y1 [Hy1 Hyy]] end.
      destruct (IH y1 Hyy) as [x0 [E Hat0]]. exists x0. split; [exact E|]. eapply va_list; eassumption.
    - match goal with HF : Forall2 _ _ fs |- _ => destruct (Forall2_In_r _ _ _ _ HF Hin) as [[[n1 y1] fl1] [Hf1 [En Hyy]]] end.
      simpl in En, Hyy. destruct (IH y1 Hyy) as [x0 [E Hat0]]. exists x0. split; [exact E|].
      eapply va_obj; [exact Hf1|]. rewrite <- En. exact Hat0.
  Qed.

  Lemma args_var_at_fwd s defs a a' x it hd : ren_args sigma a a' ->
    args_var_at s defs a x it hd -> args_var_at s defs a' (sigma x) it hd.
  Proof.
    intros HF (u & ad & Hu & Hfind & Hat). destruct (Forall2_In_l _ _ _ _ HF Hu) as [u' [Hu' [En Hv]]].
    exists u', ad. split; [exact Hu'|]. split; [rewrite En; exact Hfind|]. apply (var_at_fwd _ _ _ _ _ _ _ Hat _ Hv).
  Qed.
  Lemma args_var_at_bwd s defs a a' y it hd : ren_args sigma a a' ->
    args_var_at s defs a' y it hd -> exists x, y = sigma x /\ args_var_at s defs a x it hd.
  Proof.
    intros HF (u' & ad & Hu' & Hfind & Hat). destruct (Forall2_In_r _ _ _ _ HF Hu') as [u [Hu [En Hv]]].
    destruct (var_at_bwd _ _ _ _ _ _ _ Hat _ Hv) as [x [E Hat0]]. exists x. split; [exact E|].
    exists u, ad. split; [exact Hu|]. split; [rewrite <- En; exact Hfind|exact Hat0].
  Qed.

  Lemma reaches_in_fwd s df df' q z : rdef df df' -> reaches_in s df q z -> exists z', reaches_in s df' q z' /\ rsel z z'.
  Proof.
    intros Hr (x & Hx & Hd). destruct (Forall2_In_l _ _ _ _ (def_sels_ren rho sigma _ _ Hr) Hx) as [x' [Hx' Hxr]].
    destruct (descends_ren_fwd rho sigma _ _ _ _ _ Hd x' Hxr) as [z' [Hd' Hz]].
    exists z'. split; [|exact Hz]. exists x'. rewrite <- (ren_def_parent rho sigma s df df' Hr). tauto.
  Qed.
  Lemma reaches_in_bwd s df df' q z' : rdef df df' -> reaches_in s df' q z' -> exists z, reaches_in s df q z /\ rsel z z'.
  Proof.
    intros Hr (x' & Hx' & Hd). destruct (Forall2_In_r _ _ _ _ (def_sels_ren rho sigma _ _ Hr) Hx') as [x [Hx Hxr]].
    rewrite <- (ren_def_parent rho sigma s df df' Hr) in Hd.
    destruct (descends_ren_bwd rho sigma _ _ _ _ _ Hd x Hxr) as [z [Hd0 Hz]].
    exists z. split; [|exact Hz]. exists x. tauto.
  Qed.

  Lemma directive_in_fwd s df df' dr : rdef df df' -> directive_in s df dr ->
    exists dr', directive_in s df' dr' /\ n_val (d_name dr') = n_val (d_name dr) /\ ren_args sigma (d_args dr) (d_args dr').
  Proof.
    intros Hr [(q & z & Hrch & Hdr)|Hdr].
    - destruct (reaches_in_fwd s df df' q z Hr Hrch) as [z' [Hr' Hz]]. destruct (rsel_node rho sigma z z' Hz) as [HF _].
      destruct (Forall2_In_l _ _ _ _ HF Hdr) as [dr' [Hdr' Hp]]. exists dr'. split; [|exact Hp]. left. exists q, z'. tauto.
    - destruct (rdef_dirs rho sigma df df' Hr) as [HF _].
      destruct (Forall2_In_l _ _ _ _ HF Hdr) as [dr' [Hdr' Hp]]. exists dr'. split; [|exact Hp]. right. exact Hdr'.
  Qed.
  Lemma directive_in_bwd s df df' dr' : rdef df df' -> directive_in s df' dr' ->
    exists dr, directive_in s df dr /\ n_val (d_name dr') = n_val (d_name dr) /\ ren_args sigma (d_args dr) (d_args dr').
  Proof.
    intros Hr [(q & z' & Hrch & Hdr)|Hdr].
    - destruct (reaches_in_bwd s df df' q z' Hr Hrch) as [z [Hr0 Hz]]. destruct (rsel_node rho sigma z z' Hz) as [HF _].
      destruct (Forall2_In_r _ _ _ _ HF Hdr) as [dr [Hdr0 Hp]]. exists dr. split; [|exact Hp]. left. exists q, z. tauto.
    - destruct (rdef_dirs rho sigma df df' Hr) as [HF _].
      destruct (Forall2_In_r _ _ _ _ HF Hdr) as [dr [Hdr0 Hp]]. exists dr. split; [|exact Hp]. right. exact Hdr0.
  Qed.

  Lemma def_var_at_fwd s df df' x it hd : rdef df df' -> def_var_at s df x it hd -> def_var_at s df' (sigma x) it hd.
  Proof.
    intros Hr [(p & a & n & args & dirs & sl & sub & l & f & Hrch & Hf & Hat)|(dr & dd & Hdr & Hdd & Hat)].
    - destruct (reaches_in_fwd s df df' _ _ Hr Hrch) as [z' [Hr' Hz]]. inversion Hz; subst.
      left. do 9 eexists. split; [exact Hr'|]. split; [exact Hf|]. eapply args_var_at_fwd; eassumption.
    - destruct (directive_in_fwd s df df' dr Hr Hdr) as [dr' [Hdr' [En HA]]].
      right. exists dr', dd. split; [exact Hdr'|]. split; [rewrite En; exact Hdd|]. eapply args_var_at_fwd; eassumption.
  Qed.
  Lemma def_var_at_bwd s df df' y it hd : rdef df df' -> def_var_at s df' y it hd ->
    exists x, y = sigma x /\ def_var_at s df x it hd.
  Proof.
    intros Hr [(p & a & n & args' & dirs & sl & sub & l & f & Hrch & Hf & Hat)|(dr' & dd & Hdr & Hdd & Hat)].
    - destruct (reaches_in_bwd s df df' _ _ Hr Hrch) as [z [Hr0 Hz]]. inversion Hz; subst.
      match goal with HA : ren_args _ _ args' |- _ => destruct (args_var_at_bwd _ _ _ _ _ _ _ HA Hat) as [x [E Hat0]] end.
      exists x. split; [exact E|]. left. do 9 eexists. split; [exact Hr0|]. split; [exact Hf|exact Hat0].
    - destruct (directive_in_bwd s df df' dr' Hr Hdr) as [dr [Hdr0 [En HA]]].
      destruct (args_var_at_bwd _ _ _ _ _ _ _ HA Hat) as [x [E Hat0]].
      exists x. split; [exact E|]. right. exists dr, dd. split; [exact Hdr0|]. split; [rewrite <- En; exact Hdd|exact Hat0].
  Qed.

  Lemma op_var_at_fwd s d d' op op' x it hd : rdoc d d' -> rdef op op' ->
    op_var_at s d op x it hd -> op_var_at s d' op' (sigma x) it hd.
  Proof.
    intros Hdp Hr [Hat|(f & df & Hfr & Hdf & Hnamed & Hat)].
    - left. eapply def_var_at_fwd; eassumption.
    - right. destruct (Forall2_In_l _ _ _ _ Hdp Hdf) as [df' [Hdf' Hrd]]. exists (rho f), df'.
      split; [apply (frag_reach_fwd rho sigma rho_inj d d' Hdp _ _ f (def_sels_ren rho sigma _ _ Hr)); exact Hfr|].
      split; [exact Hdf'|]. split; [apply (fragment_named_ren rho sigma rho_inj df df' f Hrd); exact Hnamed|].
      eapply def_var_at_fwd; eassumption.
  Qed.
  Lemma op_var_at_bwd s d d' op op' y it hd : rdoc d d' -> rdef op op' ->
    op_var_at s d' op' y it hd -> exists x, y = sigma x /\ op_var_at s d op x it hd.
  Proof.
    intros Hdp Hr [Hat|(g & df' & Hfr & Hdf' & Hnamed & Hat)].
    - destruct (def_var_at_bwd s op op' y it hd Hr Hat) as [x [E H0]]. exists x. split; [exact E|left; exact H0].
    - destruct (Forall2_In_r _ _ _ _ Hdp Hdf') as [df [Hdf Hrd]].
      destruct (frag_reach_bwd rho sigma rho_inj d d' Hdp _ _ g (def_sels_ren rho sigma _ _ Hr) Hfr) as [f [-> Hfr0]].
      destruct (def_var_at_bwd s df df' y it hd Hrd Hat) as [x [E H0]]. exists x. split; [exact E|].
      right. exists f, df. split; [exact Hfr0|]. split; [exact Hdf|].
      split; [apply (fragment_named_ren rho sigma rho_inj df df' f Hrd); exact Hnamed|exact H0].
  Qed.

  Lemma usage_allowed_ren s vd vd' it hd :
    vd_type vd' = vd_type vd -> ren_default sigma (vd_default vd) (vd_default vd') ->
    (usage_allowed s vd it hd <-> usage_allowed s vd' it hd).
  Proof.
    intros Et Hd. unfold usage_allowed. rewrite Et.
    assert (En : nonnull_default vd = nonnull_default vd').
    { unfold nonnull_default. unfold ren_default in Hd. destruct (vd_default vd) as [v|], (vd_default vd') as [v'|]; try tauto.
      inversion Hd; reflexivity. }
    rewrite En. tauto.
  Qed.

  Lemma spec24_ren s d d' : rdoc d d' ->
    (spec_variables_in_allowed_position s d <-> spec_variables_in_allowed_position s d').
  Proof.
    intros Hdp. split; intros H.
    - intros op' y it hd vd' Hop' Hisop Hat Hvd' Hname. destruct (Forall2_In_r _ _ _ _ Hdp Hop') as [op [Hop Hr]].
      destruct (op_var_at_bwd s d d' op op' y it hd Hdp Hr Hat) as [x [-> Hat0]].
      destruct Hr as [k n vds vds' dirs dirs' ssl sels sels' l HV HD HS|]; [|destruct Hisop]. simpl in Hvd'.
      destruct (Forall2_In_r _ _ _ _ HV Hvd') as [vd [Hvd (En & Et & Hdflt)]].
      apply (usage_allowed_ren s vd vd' it hd Et Hdflt). eapply (H _ x it hd vd Hop); [exact I|exact Hat0|exact Hvd|].
      apply sigma_inj. rewrite <- En. exact Hname.
    - intros op x it hd vd Hop Hisop Hat Hvd Hname. destruct (Forall2_In_l _ _ _ _ Hdp Hop) as [op' [Hop' Hr]].
      pose proof (op_var_at_fwd s d d' op op' x it hd Hdp Hr Hat) as Hat'.
      destruct Hr as [k n vds vds' dirs dirs' ssl sels sels' l HV HD HS|]; [|destruct Hisop]. simpl in Hvd.
      destruct (Forall2_In_l _ _ _ _ HV Hvd) as [vd' [Hvd' (En & Et & Hdflt)]].
      apply (usage_allowed_ren s vd vd' it hd Et Hdflt). eapply (H _ (sigma x) it hd vd' Hop'); [exact I|exact Hat'|exact Hvd'|].
      rewrite En, Hname. reflexivity.
  Qed.

  Lemma wf_var_types_ren s d d' : rdoc d d' -> wf_var_types s d -> wf_var_types s d'.
  Proof.
    intros Hdp H df' vd' t Hdf' Hvd' Ht. destruct (Forall2_In_r _ _ _ _ Hdp Hdf') as [df [Hdf Hr]].
    destruct Hr as [k n vds vds' dirs dirs' ssl sels sels' l HV HD HS|]; simpl in Hvd'; [|destruct Hvd'].
    destruct (Forall2_In_r _ _ _ _ HV Hvd') as [vd [Hvd (_ & Et & _)]]. eapply H; [exact Hdf|exact Hvd|rewrite <- Et; exact Ht].
  Qed.

  Theorem rename25 fuel s d d' :
    wf_inputs s -> wf_arg_types s -> wf_var_types s d ->
    rdoc d d' ->
    (validate_rules fuel s d rules_but_overlap = Ok [] <-> validate_rules fuel s d' rules_but_overlap = Ok []).
  Proof.
    intros Hwi Hwa Hwv Hdp.
    rewrite (verdict25 fuel s d Hwi Hwa Hwv), (verdict25 fuel s d' Hwi Hwa (wf_var_types_ren s d d' Hdp Hwv)).
    unfold valid_spec25. rewrite (valid_spec_rename rho sigma rho_inj sigma_inj s d d' Hdp), (spec22_ren s d d' Hdp), (spec24_ren s d d' Hdp).
    tauto.
  Qed.
End Ren25.
