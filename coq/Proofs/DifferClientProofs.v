(* C20: no BREAKING change => positions at least as strict / permissive, and
   operations valid for the schema-dependent rules of Spec/DifferClientSpec.v
   stay valid. *)
From PyGql Require Import Schema.SchemaFull Schema.DifferModel Spec.DifferSpec Spec.DifferClientSpec
  Proofs.SchemaFullLemmas Proofs.DifferProofs Proofs.DifferEditProofs Proofs.DifferSoundProofs.

Section Kept.
  Variables o n : schema.
  Hypothesis NB : no_breaking (diff_model o n).
  Notation ots := (s_types o).
  Notation nts := (s_types n).

  Lemma pass_union t : In t ots -> no_breaking (union_of nts t).
  Proof. intros Hin c Hc. apply NB. in_model 4. apply in_flat_map. exists t. auto. Qed.
  Lemma pass_enum t : In t ots -> no_breaking (enum_of nts t).
  Proof. intros Hin c Hc. apply NB. in_model 5. apply in_flat_map. exists t. auto. Qed.
  Lemma pass_input t : In t ots -> no_breaking (input_of nts t).
  Proof. intros Hin c Hc. apply NB. in_model 8. apply in_flat_map. exists t. auto. Qed.
  Lemma pass_directives : no_breaking (diff_directives (s_dirs o) (s_dirs n)).
  Proof. intros c Hc. apply NB. in_model 2. exact Hc. Qed.

  (* a user type of the old schema and its counterpart: the per-kind pass ran on them *)
  Lemma user_body_pair tn b b' :
    user_body o tn = Some b -> user_body n tn = Some b' ->
    exists t t', In t ots /\ t_name t = tn /\ t_intro t = false /\ t_body t = b
                 /\ find_type nts tn = Some t' /\ t_body t' = b'.
  Proof.
    intros H1 H2. destruct (user_body_found _ _ _ H1) as (t & Hf & Hin & Hn & Hi & Hb).
    destruct (user_body_found _ _ _ H2) as (t' & Hf' & _ & _ & _ & Hb').
    exists t, t'. auto 10.
  Qed.

  Lemma user_fields_pair tn fs fs' :
    user_fields o tn = Some fs -> user_fields n tn = Some fs' -> no_breaking (diff_fields tn fs fs').
  Proof.
    intros H1 H2.
    destruct (user_fields_body _ _ _ H1) as (b & Hb & Hk).
    destruct (user_fields_body _ _ _ H2) as (b' & Hb' & Hk').
    destruct (user_body_pair _ _ _ Hb Hb') as (t & t' & Hin & Hn & Hi & Hbd & Hf' & Hbd').
    pose proof (pass_kind o n NB t Hin) as Hkind. unfold changed_kind_of in Hkind.
    rewrite Hn in Hkind.  rewrite Hf' in Hkind.
    destruct Hk as [(i & r & ->)| ->], Hk' as [(i' & r' & ->)| ->]; rewrite Hbd, Hbd' in Hkind; simpl in Hkind;
      try (exfalso; exact (breaking_absurd _ _ _ Hkind)).
    - pose proof (pass_object o n NB t Hin) as Hp. unfold object_of in Hp.
      rewrite Hi, Hbd, Hn in Hp. rewrite Hf', Hbd' in Hp. apply no_breaking_app_l in Hp. exact Hp.
    - pose proof (pass_interface o n NB t Hin) as Hp. unfold interface_of in Hp.
      rewrite Hi, Hbd, Hn in Hp. rewrite Hf', Hbd' in Hp. exact Hp.
  Qed.

  Lemma field_pair tn fs fs' fn f g :
    no_breaking (diff_fields tn fs fs') -> find_field fs fn = Some f -> find_field fs' fn = Some g ->
    no_breaking (diff_field tn f g).
  Proof.
    intros Hnb Hf Hg. destruct (field_kept _ _ _ _ _ Hnb Hf) as (g' & Hg' & _ & Hd).
    rewrite Hg in Hg'. inversion Hg'; subst. exact Hd.
  Qed.

  Lemma args_pair R C D A path oa na an a b :
    no_breaking (diff_args R C D A path oa na) -> find_arg oa an = Some a -> find_arg na an = Some b ->
    safe_in (a_type a) (a_type b) = true
    /\ (arg_required b = true -> arg_required a = true).
  Proof.
    intros Hnb Ha Hb. destruct (look_some_in a_name _ _ _ Ha) as [Hin Hn].
    apply no_breaking_app_l in Hnb. pose proof (no_breaking_flat_map _ _ a Hnb Hin) as H. simpl in H.
    rewrite Hn, Hb in H.
    destruct (safe_in (a_type a) (a_type b)) eqn:Es; simpl in H; [|exfalso; exact (breaking_absurd _ _ _ H)].
    split; [reflexivity|]. intros Hrb.
    destruct (default_changed (a_default a) (a_default b)) eqn:Ed.
    - rewrite Hrb in H. simpl in H. destruct (arg_required a); [reflexivity|].
      simpl in H. exfalso; exact (breaking_absurd _ _ _ H).
    - unfold arg_required in *. apply andb_true_iff in Hrb. destruct Hrb as [Hnn Hd].
      destruct (a_default b); [discriminate|].
      destruct (a_default a); [simpl in Ed; discriminate|].
      destruct (a_type b) as [|?|x] eqn:Et; simpl in Hnn; try discriminate.
      rewrite (safe_in_nonnull _ _ Es). reflexivity.
  Qed.

  Lemma input_pair tn fs fs' fn f g :
    user_body o tn = Some (BInput fs) -> user_body n tn = Some (BInput fs') ->
    find_input fs fn = Some f -> find_input fs' fn = Some g ->
    safe_in (i_type f) (i_type g) = true /\ (input_required g = true -> input_required f = true).
  Proof.
    intros H1 H2 Hf Hg.
    destruct (user_body_pair _ _ _ H1 H2) as (t & t' & Hin & Hn & Hi & Hbd & Hf' & Hbd').
    pose proof (pass_input t Hin) as Hp. unfold input_of in Hp.
    rewrite Hi, Hbd, Hn in Hp. rewrite Hf', Hbd' in Hp. unfold diff_input in Hp.
    apply no_breaking_app_l in Hp. destruct (look_some_in i_name _ _ _ Hf) as [Hfin Hfn].
    pose proof (no_breaking_flat_map _ _ f Hp Hfin) as H. simpl in H. rewrite Hfn, Hg in H.
    destruct (safe_in (i_type f) (i_type g)) eqn:Es; simpl in H; [|exfalso; exact (breaking_absurd _ _ _ H)].
    split; [reflexivity|]. intros Hrb.
    destruct (default_changed (i_default f) (i_default g)) eqn:Ed.
    - rewrite Hrb in H. simpl in H. destruct (input_required f); [reflexivity|].
      simpl in H. exfalso; exact (breaking_absurd _ _ _ H).
    - unfold input_required in *. apply andb_true_iff in Hrb. destruct Hrb as [Hnn Hd].
      destruct (i_default g); [discriminate|].
      destruct (i_default f); [simpl in Ed; discriminate|].
      destruct (i_type g) as [|?|x] eqn:Et; simpl in Hnn; try discriminate.
      rewrite (safe_in_nonnull _ _ Es). reflexivity.
  Qed.

  Lemma dir_pair dn d d' :
    user_dir o dn = Some d -> user_dir n dn = Some d' ->
    (forall l, In l (d_locs d) -> In l (d_locs d'))
    /\ no_breaking (diff_args CDirectiveArgumentRemoved CDirectiveArgumentChangedType
                              CDirectiveArgumentDefaultValueChange CDirectiveArgumentAdded
                              [dn] (d_args d) (d_args d')).
  Proof.
    intros H1 H2. destruct (user_dir_found _ _ _ H1) as (Hf & Hin & Hn & Hs).
    destruct (user_dir_found _ _ _ H2) as (Hf' & _ & _ & _).
    pose proof pass_directives as Hp. unfold diff_directives in Hp. apply no_breaking_app_l in Hp.
    pose proof (no_breaking_flat_map _ _ d Hp Hin) as H. simpl in H. rewrite Hs, Hn, Hf' in H.
    split.
    - apply no_breaking_app_l in H. intros l Hl.
      destruct (mem_str l (d_locs d')) eqn:E; [apply mem_str_In; exact E|]. exfalso.
      assert (Hc : In (ch CDirectiveLocationRemoved Breaking [dn; l])
                      (map (fun l0 => ch CDirectiveLocationRemoved Breaking [dn; l0])
                           (filter (fun l0 => negb (mem_str l0 (d_locs d'))) (dedup (d_locs d))))).
      { apply (in_map (fun l0 => ch CDirectiveLocationRemoved Breaking [dn; l0])). apply filter_In. split; [apply In_dedup; exact Hl|rewrite E; reflexivity]. }
      exact (H _ Hc eq_refl).
    - apply no_breaking_app_r in H. apply no_breaking_app_r in H. exact H.
  Qed.
End Kept.

(* ------------------------------------------------------------ positions *)
Section PositionsSound.
  Variable base : str -> pv -> Prop.
  Variables o n : schema.
  Hypothesis NB : no_breaking (diff_model o n).

  Theorem output_positions_sound : output_positions_ok base o n.
  Proof.
    intros tn fs fs' fn f g Hu Hu' Hf Hg v Hv.
    pose proof (field_pair tn fs fs' fn f g (user_fields_pair o n NB tn fs fs' Hu Hu') Hf Hg) as Hd.
    unfold diff_field in Hd. apply no_breaking_app_l in Hd.
    destruct (safe_out (f_type f) (f_type g)) eqn:E; [|exfalso; exact (breaking_absurd _ _ _ Hd)].
    exact (safe_out_sound base _ _ E v Hv).
  Qed.

  Theorem argument_positions_sound : argument_positions_ok base o n.
  Proof.
    intros tn fs fs' fn f g an a b Hu Hu' Hf Hg Ha Hb v Hv.
    pose proof (field_pair tn fs fs' fn f g (user_fields_pair o n NB tn fs fs' Hu Hu') Hf Hg) as Hd.
    unfold diff_field in Hd. apply no_breaking_app_r in Hd. apply no_breaking_app_l in Hd.
    destruct (args_pair _ _ _ _ _ _ _ _ _ _ Hd Ha Hb) as [Hs _].
    exact (safe_in_sound base _ _ Hs v Hv).
  Qed.

  Theorem input_field_positions_sound : input_field_positions_ok base o n.
  Proof.
    intros tn fs fs' fn f g H1 H2 Hf Hg v Hv.
    destruct (input_pair o n NB tn fs fs' fn f g H1 H2 Hf Hg) as [Hs _].
    exact (safe_in_sound base _ _ Hs v Hv).
  Qed.

  Theorem directive_argument_positions_sound : directive_argument_positions_ok base o n.
  Proof.
    intros dn d d' an a b H1 H2 Ha Hb v Hv.
    destruct (dir_pair o n NB dn d d' H1 H2) as [_ Hd].
    destruct (args_pair _ _ _ _ _ _ _ _ _ _ Hd Ha Hb) as [Hs _].
    exact (safe_in_sound base _ _ Hs v Hv).
  Qed.
End PositionsSound.

(* ------------------------------------------------------------ variables *)
Lemma compat_safe_in : forall v o n, compat v o = true -> safe_in o n = true -> compat v n = true.
Proof.
  induction v as [a|v IH|v IH]; intros o n Hc Hs.
  - destruct o as [b| |]; simpl in Hc; try discriminate.
    destruct n as [c| |]; simpl in Hs; try discriminate.
    apply str_eqb_eq in Hc. apply str_eqb_eq in Hs. subst. simpl. apply str_eqb_refl.
  - destruct o as [|oi|]; simpl in Hc; try discriminate.
    destruct n as [|ni|]; simpl in Hs; try discriminate. simpl. exact (IH _ _ Hc Hs).
  - destruct o as [b|oi|oi]; simpl in Hc.
    + destruct n as [c| |]; simpl in Hs; try discriminate. simpl. apply (IH (TyNamed b)); assumption.
    + destruct n as [|ni|]; simpl in Hs; try discriminate. simpl. apply (IH (TyList oi)); assumption.
    + destruct n as [c|ni|ni]; simpl in Hs; simpl; exact (IH _ _ Hc Hs).
Qed.

Lemma safe_in_nullable o n : is_non_null o = false -> safe_in o n = true -> is_non_null n = false.
Proof. destruct o; simpl; try discriminate; destruct n; simpl; try discriminate; reflexivity. Qed.

(* VariablesInAllowedPosition survives a safe retype of the position, provided
   the position does not lose a default it needs *)
Lemma rule_variables_in_allowed_position_kept vt vd ld ld' o n :
  var_allowed vt vd ld o = true -> safe_in o n = true ->
  (is_non_null n = true -> is_non_null vt = false -> ld = true -> ld' = true) ->
  var_allowed vt vd ld' n = true.
Proof.
  intros Hv Hs Hd. unfold var_allowed in *.
  destruct o as [a|oi|oi].
  - pose proof (compat_safe_in _ _ _ Hv Hs) as Hc. destruct n as [b| |]; simpl in Hs; try discriminate. exact Hc.
  - pose proof (compat_safe_in _ _ _ Hv Hs) as Hc. destruct n as [|ni|]; simpl in Hs; try discriminate. exact Hc.
  - destruct (is_non_null vt) eqn:Evt.
    + assert (Hc : compat vt n = true) by exact (compat_safe_in _ _ _ Hv Hs).
      destruct n; try exact Hc.
    + apply andb_true_iff in Hv. destruct Hv as [Hdef Hc].
      destruct n as [b|ni|ni]; simpl in Hs.
      * exact (compat_safe_in _ _ _ Hc Hs).
      * exact (compat_safe_in _ _ _ Hc Hs).
      * apply andb_true_iff. split; [|exact (compat_safe_in _ _ _ Hc Hs)].
        destruct vd; [reflexivity|]. simpl in *. apply Hd; auto.
Qed.

(* ------------------------------------------------------------ relations between members *)
Definition args_rel (defs defs' : list arg_def) : Prop :=
  (forall an a, find_arg defs an = Some a ->
     exists b, find_arg defs' an = Some b /\ safe_in (a_type a) (a_type b) = true
               /\ (arg_required b = true -> arg_required a = true))
  /\ (forall b, In b defs' -> required_arg b ->
        exists a, In a defs /\ a_name a = a_name b /\ required_arg a).

Definition inputs_rel (fs fs' : list input_field) : Prop :=
  (forall fn f, find_input fs fn = Some f ->
     exists g, find_input fs' fn = Some g /\ safe_in (i_type f) (i_type g) = true
               /\ (input_required g = true -> input_required f = true))
  /\ (forall g, In g fs' -> is_non_null (i_type g) = true -> i_default g = None ->
        exists f, In f fs /\ i_name f = i_name g /\ is_non_null (i_type f) = true /\ i_default f = None).

Lemma args_rel_refl defs : NoDup (map a_name defs) -> args_rel defs defs.
Proof.
  intros Hnd. split.
  - intros an a Ha. exists a. split; [exact Ha|]. split; [apply safe_in_refl|auto].
  - intros b Hb Hr. exists b. auto.
Qed.

Lemma args_rel_of_diff R C D A path oa na :
  NoDup (map a_name na) -> no_breaking (diff_args R C D A path oa na) -> args_rel oa na.
Proof.
  intros Hnd Hnb. destruct (args_kept _ _ _ _ _ _ _ Hnb) as [A1 A2]. split.
  - intros an a Ha.
    assert (Hne : find_arg oa an <> None) by congruence.
    apply A1 in Hne. destruct (find_arg na an) as [b|] eqn:Eb; [|congruence].
    exists b. split; [reflexivity|]. exact (args_pair _ _ _ _ _ _ _ _ _ _ Hnb Ha Eb).
  - exact (A2 Hnd).
Qed.

Lemma required_default_kept (ta tb : ty) (da db : option pv) :
  ((is_non_null tb && match db with None => true | Some _ => false end = true) ->
   (is_non_null ta && match da with None => true | Some _ => false end = true)) ->
  is_non_null tb = true -> has_default da = true -> has_default db = true.
Proof.
  intros H Hnn Hd. destruct db; [reflexivity|]. rewrite Hnn in H. specialize (H eq_refl).
  destruct da; [|discriminate]. apply andb_true_iff in H. destruct H; discriminate.
Qed.

Section Rules.
  Variable scalar_lit : str -> value -> bool.
  Variables o n : schema.
  Hypothesis NB : no_breaking (diff_model o n).
  Hypothesis Hintro : same_builtins o n.
  Hypothesis Hwf : wf_schema n.
  (* the specified directives (@skip, @include, @deprecated) are the same objects in every schema *)
  Hypothesis Hspec : forall dn d, find_dir (s_dirs o) dn = Some d -> d_specified d = true ->
                                  find_dir (s_dirs n) dn = Some d.
  Variable vars : list (str * (ty * bool)).
  Variable frags : list fragment_def.

  Lemma user_body_kept tn b :
    user_body o tn = Some b ->
    exists b', user_body n tn = Some b' /\ kind_code b = kind_code b'.
  Proof.
    intros H. destruct (user_body_found _ _ _ H) as (t & Hf & Hin & Hn & Hi & Hb).
    destruct (type_kept o n NB tn t Hf) as (t' & Hf' & Hk).
    exists (t_body t'). unfold user_body. rewrite Hf', <- (Hintro tn t t' Hf Hf'), Hi.
    split; [reflexivity|]. rewrite <- Hb. exact Hk.
  Qed.

  Lemma scalar_kept tn : user_body o tn = Some BScalar -> user_body n tn = Some BScalar.
  Proof.
    intros H. destruct (user_body_kept _ _ H) as (b' & H' & Hk).
    destruct b'; simpl in Hk; try discriminate. exact H'.
  Qed.

  Lemma enum_kept tn vs :
    user_body o tn = Some (BEnum vs) ->
    exists vs', user_body n tn = Some (BEnum vs')
                /\ (forall x, find_enum vs x <> None -> find_enum vs' x <> None).
  Proof.
    intros H. destruct (user_body_kept _ _ H) as (b' & H' & Hk).
    destruct b' as [| | | |vs'|]; simpl in Hk; try discriminate. exists vs'. split; [exact H'|].
    destruct (user_body_pair o n tn _ _ H H') as (t & t' & Hin & Hn & Hi & Hbd & Hf' & Hbd').
    pose proof (pass_enum o n NB t Hin) as Hp. unfold enum_of in Hp.
    rewrite Hi, Hbd, Hn, Hf', Hbd' in Hp. unfold diff_enum in Hp. apply no_breaking_app_l in Hp.
    intros x Hx. apply (look_not_none e_name) in Hx. destruct Hx as [e He].
    destruct (look_some_in e_name _ _ _ He) as [Hein Hen].
    pose proof (no_breaking_flat_map _ _ e Hp Hein) as Hc. simpl in Hc. rewrite Hen in Hc.
    destruct (find_enum vs' x); [congruence|exfalso; exact (breaking_absurd _ _ _ Hc)].
  Qed.

  Lemma input_kept tn fs :
    user_body o tn = Some (BInput fs) ->
    exists fs', user_body n tn = Some (BInput fs') /\ inputs_rel fs fs'.
  Proof.
    intros H. destruct (user_body_kept _ _ H) as (b' & H' & Hk).
    destruct b' as [| | | | |fs']; simpl in Hk; try discriminate. exists fs'. split; [exact H'|].
    destruct (user_body_pair o n tn _ _ H H') as (t & t' & Hin & Hn & Hi & Hbd & Hf' & Hbd').
    pose proof (pass_input o n NB t Hin) as Hp. unfold input_of in Hp.
    rewrite Hi, Hbd, Hn, Hf', Hbd' in Hp. unfold diff_input in Hp.
    pose proof (no_breaking_app_l _ _ Hp) as Hp1. pose proof (no_breaking_app_r _ _ Hp) as Hp2.
    assert (Hnd : NoDup (map i_name fs')).
    { destruct Hwf as (_ & _ & Hb & _). rewrite Forall_forall in Hb.
      destruct (look_some_in t_name _ _ _ Hf') as [Hin' _]. specialize (Hb t' Hin').
      rewrite Hbd' in Hb. exact Hb. }
    split.
    - intros fn f Hf. destruct (look_some_in i_name _ _ _ Hf) as [Hfin Hfn].
      pose proof (no_breaking_flat_map _ _ f Hp1 Hfin) as Hc. simpl in Hc. rewrite Hfn in Hc.
      destruct (find_input fs' fn) as [g|] eqn:Eg; [|exfalso; exact (breaking_absurd _ _ _ Hc)].
      exists g. split; [reflexivity|]. exact (input_pair o n NB tn fs fs' fn f g H H' Hf Eg).
    - intros g Hg Hnn Hd.
      pose proof (no_breaking_flat_map _ _ g Hp2 Hg) as Hc. simpl in Hc.
      destruct (find_input fs (i_name g)) as [f|] eqn:Ef.
      + destruct (look_some_in i_name _ _ _ Ef) as [Hfin Hfn]. exists f. split; [exact Hfin|]. split; [exact Hfn|].
        assert (Eg : find_input fs' (i_name g) = Some g) by (apply (find_unique i_name); assumption).
        destruct (input_pair o n NB tn fs fs' (i_name g) f g H H' Ef Eg) as [_ Hr].
        unfold input_required in Hr. rewrite Hnn, Hd in Hr. specialize (Hr eq_refl).
        apply andb_true_iff in Hr. destruct Hr as [R1 R2]. split; [exact R1|].
        destruct (i_default f); [discriminate|reflexivity].
      + unfold input_required in Hc. rewrite Hnn, Hd in Hc. simpl in Hc.
        exfalso; exact (breaking_absurd _ _ _ Hc).
  Qed.

  (* ValuesOfCorrectType (+ VariablesInAllowedPosition at the variables inside):
     a value accepted at a position is accepted at every safe retype of it *)
  Scheme value_ok_mut := Induction for value_ok Sort Prop
    with items_ok_mut := Induction for items_ok Sort Prop
    with fields_ok_mut := Induction for fields_ok Sort Prop.

  Lemma rule_values_of_correct_type_kept :
    forall ld t v, value_ok scalar_lit o vars ld t v ->
      forall ld' t', safe_in t t' = true ->
        (is_non_null t' = true -> ld = true -> ld' = true) ->
        value_ok scalar_lit n vars ld' t' v.
  Proof.
    apply (value_ok_mut scalar_lit o vars
      (fun ld t v _ => forall ld' t', safe_in t t' = true ->
                         (is_non_null t' = true -> ld = true -> ld' = true) ->
                         value_ok scalar_lit n vars ld' t' v)
      (fun t l _ => forall t', safe_in t t' = true -> items_ok scalar_lit n vars t' l)
      (fun fs gs _ => forall fs', inputs_rel fs fs' -> fields_ok scalar_lit n vars fs' gs)).
    - (* variable *)
      intros ld t x vt vd Hl Hv ld' t' Hs Hd. eapply vo_var; [exact Hl|].
      eapply rule_variables_in_allowed_position_kept; eauto.
    - (* null *)
      intros ld t Hn ld' t' Hs _. apply vo_null. exact (safe_in_nullable _ _ Hn Hs).
    - (* non-null *)
      intros ld t v Hnn Hnv _ IH ld' t' Hs Hd.
      destruct t' as [b|ti|ti]; simpl in Hs.
      + apply IH; [exact Hs|intros; discriminate].
      + apply IH; [exact Hs|intros; discriminate].
      + apply vo_non_null; try assumption. apply IH; [exact Hs|intros; discriminate].
    - (* list literal *)
      intros ld t l _ IH ld' t' Hs _. destruct t' as [|ti|]; simpl in Hs; try discriminate.
      apply vo_list. apply IH; exact Hs.
    - (* single value for a list *)
      intros ld t v H1 H2 H3 _ IH ld' t' Hs _. destruct t' as [|ti|]; simpl in Hs; try discriminate.
      apply vo_single; try assumption. apply IH; [exact Hs|intros; discriminate].
    - (* scalar *)
      intros ld tn v Hb Hl ld' t' Hs _. destruct t' as [b| |]; simpl in Hs; try discriminate.
      apply str_eqb_eq in Hs; subst b. apply vo_scalar; [apply scalar_kept; exact Hb|exact Hl].
    - (* enum value *)
      intros ld tn x vs Hb Hx ld' t' Hs _. destruct t' as [b| |]; simpl in Hs; try discriminate.
      apply str_eqb_eq in Hs; subst b. destruct (enum_kept _ _ Hb) as (vs' & Hb' & Hk).
      eapply vo_enum; [exact Hb'|apply Hk; exact Hx].
    - (* input object *)
      intros ld tn fs gs Hb _ IH Hreq ld' t' Hs _. destruct t' as [b| |]; simpl in Hs; try discriminate.
      apply str_eqb_eq in Hs; subst b. destruct (input_kept _ _ Hb) as (fs' & Hb' & Hrel).
      eapply vo_obj; [exact Hb'|apply IH; exact Hrel|].
      intros g Hg Hnn Hd. destruct Hrel as [_ R2].
      destruct (R2 g Hg Hnn Hd) as (f & Hfin & Hfn & Hfnn & Hfd). rewrite <- Hfn. apply Hreq; assumption.
    - intros t t' _. constructor.
    - intros t v l _ IHv _ IHl t' Hs. constructor; [apply IHv; [exact Hs|intros; discriminate]|apply IHl; exact Hs].
    - intros fs fs' _. constructor.
    - intros fs k v gs f Hf _ IHv _ IHg fs' Hrel.
      destruct Hrel as [R1 R2]. destruct (R1 k f Hf) as (g & Hg & Hsafe & Hr).
      eapply fo_cons; [exact Hg| |apply IHg; split; assumption].
      apply IHv; [exact Hsafe|]. apply (required_default_kept (i_type f) (i_type g)). exact Hr.
  Qed.

  (* KnownArgumentNames + ProvidedRequiredArguments + the value rules, for related declarations *)
  Lemma args_ok_kept defs defs' given :
    args_rel defs defs' -> args_ok scalar_lit o vars defs given -> args_ok scalar_lit n vars defs' given.
  Proof.
    intros [R1 R2] [Hg Hr]. split.
    - unfold given_args_ok in *. eapply Forall_impl; [|exact Hg]. intros [k v] (a & Ha & Hv). simpl in *.
      destruct (R1 k a Ha) as (b & Hb & Hs & Hreq). exists b. split; [exact Hb|].
      eapply rule_values_of_correct_type_kept; [exact Hv|exact Hs|].
      apply (required_default_kept (a_type a) (a_type b)). exact Hreq.
    - intros b Hb Hrb. destruct (R2 b Hb Hrb) as (a & Hain & Hn & Hra). rewrite <- Hn. apply Hr; assumption.
  Qed.

  Lemma dir_args_unique dn d' : find_dir (s_dirs n) dn = Some d' -> NoDup (map a_name (d_args d')).
  Proof.
    intros H. destruct Hwf as (_ & _ & _ & Hd). rewrite Forall_forall in Hd.
    apply Hd. apply (look_some_in d_name _ _ _ H).
  Qed.

  (* KnownDirectives *)
  Lemma rule_known_directives_kept loc ds :
    dirs_ok scalar_lit o vars loc ds -> dirs_ok scalar_lit n vars loc ds.
  Proof.
    unfold dirs_ok. intros H. eapply Forall_impl; [|exact H]. intros [dn given] (d & Hf & Hl & Ha). simpl in *.
    destruct (d_specified d) eqn:Es.
    - exists d. split; [exact (Hspec dn d Hf Es)|]. split; [exact Hl|].
      eapply args_ok_kept; [|exact Ha]. apply args_rel_refl. exact (dir_args_unique dn d (Hspec dn d Hf Es)).
    - assert (Hu : user_dir o dn = Some d) by (unfold user_dir; rewrite Hf, Es; reflexivity).
      destruct (user_dir_found _ _ _ Hu) as (_ & Hin & Hn & _).
      pose proof (pass_directives o n NB) as Hp. unfold diff_directives in Hp. apply no_breaking_app_l in Hp.
      pose proof (no_breaking_flat_map _ _ d Hp Hin) as Hc. simpl in Hc. rewrite Es, Hn in Hc.
      destruct (find_dir (s_dirs n) dn) as [d'|] eqn:Ed; [|exfalso; exact (breaking_absurd _ _ _ Hc)].
      exists d'. split; [reflexivity|].
      pose proof (no_breaking_app_l _ _ Hc) as Hc1.
      pose proof (no_breaking_app_r _ _ (no_breaking_app_r _ _ Hc)) as Hc3.
      split.
      + destruct (mem_str loc (d_locs d')) eqn:E; [apply mem_str_In; exact E|]. exfalso.
        assert (Hx : In (ch CDirectiveLocationRemoved Breaking [dn; loc])
                        (map (fun l0 => ch CDirectiveLocationRemoved Breaking [dn; l0])
                             (filter (fun l0 => negb (mem_str l0 (d_locs d'))) (dedup (d_locs d))))).
        { apply (in_map (fun l0 => ch CDirectiveLocationRemoved Breaking [dn; l0])). apply filter_In.
          split; [apply In_dedup; exact Hl|rewrite E; reflexivity]. }
        exact (Hc1 _ Hx eq_refl).
      + eapply args_ok_kept; [|exact Ha]. eapply args_rel_of_diff; [|exact Hc3].
        exact (dir_args_unique dn d' Ed).
  Qed.

  (* PossibleFragmentSpreads: possible types only grow *)
  Lemma possible_kept t obj : possible_of o t obj -> possible_of n t obj.
  Proof.
    intros (ifaces & fs & r & Hb & Hp).
    destruct (user_body_kept _ _ Hb) as (b' & Hb' & Hk).
    destruct b' as [|ifaces' fs' r'| | | |]; simpl in Hk; try discriminate.
    exists ifaces', fs', r'. split; [exact Hb'|].
    destruct Hp as [->|[(ms & Hu & Hin)|(ifs & Hi & Hin)]].
    - left; reflexivity.
    - right; left. destruct (user_body_kept _ _ Hu) as (bu & Hu' & Hku).
      destruct bu as [| | |ms'| |]; simpl in Hku; try discriminate. exists ms'. split; [exact Hu'|].
      destruct (user_body_pair o n t _ _ Hu Hu') as (tt & tt' & Htin & Htn & Hti & Htb & Htf & Htb').
      pose proof (pass_union o n NB tt Htin) as Hp. unfold union_of in Hp.
      rewrite Hti, Htb, Htn, Htf, Htb' in Hp. unfold diff_union in Hp. apply no_breaking_app_l in Hp.
      destruct (mem_str obj ms') eqn:E; [apply mem_str_In; exact E|]. exfalso.
      assert (Hx : In (ch CTypeRemovedFromUnion Breaking [t; obj])
                      (map (fun m => ch CTypeRemovedFromUnion Breaking [t; m])
                           (filter (fun m => negb (mem_str m ms')) (dedup ms)))).
      { apply (in_map (fun m => ch CTypeRemovedFromUnion Breaking [t; m])). apply filter_In.
        split; [apply In_dedup; exact Hin|rewrite E; reflexivity]. }
      exact (Hp _ Hx eq_refl).
    - right; right. destruct (user_body_kept _ _ Hi) as (bi & Hi' & Hki).
      destruct bi as [| |ifs'| | |]; simpl in Hki; try discriminate. exists ifs'. split; [exact Hi'|].
      destruct (user_body_pair o n obj _ _ Hb Hb') as (tt & tt' & Htin & Htn & Hti & Htb & Htf & Htb').
      pose proof (pass_object o n NB tt Htin) as Hp. unfold object_of in Hp.
      rewrite Hti, Htb, Htn, Htf, Htb' in Hp. apply no_breaking_app_r in Hp.
      unfold diff_interfaces_of in Hp. apply no_breaking_app_l in Hp.
      destruct (mem_str t ifaces') eqn:E; [apply mem_str_In; exact E|]. exfalso.
      assert (Hx : In (ch CTypeRemovedFromInterface Breaking [obj; t])
                      (map (fun i => ch CTypeRemovedFromInterface Breaking [obj; i])
                           (filter (fun i => negb (mem_str i ifaces')) (dedup ifaces)))).
      { apply (in_map (fun i => ch CTypeRemovedFromInterface Breaking [obj; i])). apply filter_In.
        split; [apply In_dedup; exact Hin|rewrite E; reflexivity]. }
      exact (Hp _ Hx eq_refl).
  Qed.

  Lemma rule_possible_fragment_spreads_kept a b : overlap o a b -> overlap n a b.
  Proof. intros (obj & H1 & H2). exists obj. split; apply possible_kept; assumption. Qed.

  (* KnownTypeNames / VariablesAreInputTypes *)
  Lemma rule_variable_types_kept vs : var_defs_ok o vs -> var_defs_ok n vs.
  Proof.
    unfold var_defs_ok. intros H. eapply Forall_impl; [|exact H]. intros v (b & Hb & Hk).
    destruct (user_body_kept _ _ Hb) as (b' & Hb' & Hkk). exists b'. split; [exact Hb'|].
    destruct Hk as [->|[(x & ->)|(x & ->)]]; destruct b'; simpl in Hkk; try discriminate; eauto.
  Qed.

  (* KnownTypeNames / FragmentsOnCompositeTypes *)
  Lemma rule_composite_type_kept t : composite_fields o t <> None -> composite_fields n t <> None.
  Proof.
    intros H. destruct (composite_fields o t) as [cf|] eqn:E; [|congruence].
    destruct (composite_kept o n NB Hintro Hwf _ _ E) as (cf' & -> & _). discriminate.
  Qed.

  (* the whole selection: FieldsOnCorrectType and ScalarLeafs are established
     here, the other rules through the lemmas above *)
  Fixpoint csel_ok_kept (x : csel) : forall parent,
    csel_ok scalar_lit o vars frags x parent -> csel_ok scalar_lit n vars frags x parent.
  Proof.
    destruct x as [name args dirs sub|tc dirs sub|name dirs]; intros parent H; simpl in H |- *.
    - destruct H as (fs & f & (Hc & Hf) & Ha & Hd & Hsub).
      destruct (composite_kept o n NB Hintro Hwf _ _ Hc) as (fs' & Hc' & Hnb & _ & Hun).
      destruct (field_kept _ _ _ _ _ Hnb Hf) as (g & Hg & Hgin & Hdf).
      exists fs', g. split; [split; assumption|].
      assert (Hso : safe_out (f_type f) (f_type g) = true).
      { unfold diff_field in Hdf. apply no_breaking_app_l in Hdf.
        destruct (safe_out (f_type f) (f_type g)); [reflexivity|]. simpl in Hdf.
        exfalso; exact (breaking_absurd _ _ _ Hdf). }
      split.
      { eapply args_ok_kept; [|exact Ha]. rewrite Forall_forall in Hun.
        eapply args_rel_of_diff; [exact (Hun g Hgin)|].
        unfold diff_field in Hdf. apply no_breaking_app_r in Hdf. apply no_breaking_app_l in Hdf. exact Hdf. }
      split; [apply rule_known_directives_kept; exact Hd|].
      rewrite <- (safe_out_unwrap _ _ Hso).
      destruct (is_leaf o (unwrap (f_type f))) eqn:El.
      + rewrite (is_leaf_kept o n NB _ El). exact Hsub.
      + destruct Hsub as (Hne & Hcomp & Hall).
        destruct (composite_fields o (unwrap (f_type f))) as [cf|] eqn:Ecf; [|congruence].
        destruct (composite_kept o n NB Hintro Hwf _ _ Ecf) as (cf' & Hcf' & _ & Hl & _).
        rewrite Hl. split; [exact Hne|]. split; [congruence|].
        clear Hne. induction sub as [|y l IHl]; [exact I|].
        destruct Hall as [Hy Hl']. split; [apply csel_ok_kept; exact Hy|apply IHl; exact Hl'].
    - destruct H as (Hcomp & Hov & Hd & Hall).
      split; [apply rule_composite_type_kept; exact Hcomp|].
      split; [apply rule_possible_fragment_spreads_kept; exact Hov|].
      split; [apply rule_known_directives_kept; exact Hd|].
      induction sub as [|y l IHl]; [exact I|].
      destruct Hall as [Hy Hl']. split; [apply csel_ok_kept; exact Hy|apply IHl; exact Hl'].
    - (* named spread: PossibleFragmentSpreads + KnownDirectives *)
      destruct H as (fr & Hf & Hov & Hd). exists fr. split; [exact Hf|].
      split; [apply rule_possible_fragment_spreads_kept; exact Hov|apply rule_known_directives_kept; exact Hd].
  Qed.

  (* a fragment definition stays valid *)
  Lemma fragment_ok_kept fr :
    fragment_ok scalar_lit o vars frags fr -> fragment_ok scalar_lit n vars frags fr.
  Proof.
    intros (Hc & Hd & Hall). split; [apply rule_composite_type_kept; exact Hc|].
    split; [apply rule_known_directives_kept; exact Hd|].
    eapply Forall_impl; [|exact Hall]. intros x. apply csel_ok_kept.
  Qed.
End Rules.

Theorem operations_kept scalar_lit o n op :
  no_breaking (diff_model o n) -> same_builtins o n -> wf_schema n ->
  (forall dn d, find_dir (s_dirs o) dn = Some d -> d_specified d = true -> find_dir (s_dirs n) dn = Some d) ->
  (forall k, root_of o k = root_of n k) ->
  op_ok scalar_lit o op -> op_ok scalar_lit n op.
Proof.
  intros NB Hi Hw Hs Hr (root & Hroot & Hc & Hv & Hd & Hall & Hfr).
  exists root. split; [rewrite <- Hr; exact Hroot|].
  split; [apply (rule_composite_type_kept o n NB Hi Hw); exact Hc|].
  split; [apply (rule_variable_types_kept o n NB Hi); exact Hv|].
  split; [apply (rule_known_directives_kept scalar_lit o n NB Hi Hw Hs); exact Hd|].
  split.
  - eapply Forall_impl; [|exact Hall]. intros x. apply (csel_ok_kept scalar_lit o n NB Hi Hw Hs).
  - eapply Forall_impl; [|exact Hfr]. intros fr. apply (fragment_ok_kept scalar_lit o n NB Hi Hw Hs).
Qed.
