(* C14 -- proofs about the store model, part 17: two schemas living in the same
   heap whose registries are aligned -- same names in the same order, the
   objects registered under a name corresponding element by element, every
   reference going to the type registered under the same name -- have the
   same [observe] dump. *)
From PyGql Require Import Spec.StoreSpec Proofs.StoreProofs Proofs.StoreHeal Proofs.StoreLoop
     Proofs.StoreFrame Proofs.StoreClone Proofs.StoreOps Proofs.StoreObserve.
Local Open Scope N_scope.

Section Sim.
Variable M : mem.
Variables tm tm' : list (str * oid).      (* the two registries *)

(* two named types: same name, each the object registered under it *)
Definition nsim (i i' : oid) : Prop := same_name M i i' /\ reg M tm i /\ reg M tm' i'.
Definition rsim (ty ty' : tref) : Prop :=
  ref_wrappers ty' = ref_wrappers ty /\ nsim (unwrap ty) (unwrap ty').
Definition isim (a a' : oid) : Prop :=
  exists ia n py ty df d ds ia' ty',
    mget M a = Some (OInput ia n py ty df d ds) /\ mget M a' = Some (OInput ia' n py ty' df d ds) /\ rsim ty ty'.
Definition fsim (f f' : oid) : Prop :=
  exists n py ty args d dp r sb ds ty' args',
    mget M f = Some (OField n py ty args d dp r sb ds) /\
    mget M f' = Some (OField n py ty' args' d dp r sb ds) /\ rsim ty ty' /\ Forall2 isim args args'.
Definition esim (e e' : oid) : Prop :=
  exists n v d dp ds, mget M e = Some (OEnumV n v d dp ds) /\ mget M e' = Some (OEnumV n v d dp ds).
Definition tsim (t t' : oid) : Prop :=
  exists n k d ms ifs r ds ms' ifs',
    mget M t = Some (OType n k d ms ifs r ds) /\ mget M t' = Some (OType n k d ms' ifs' r ds) /\
    Forall2 nsim ifs ifs' /\
    match k with
    | Kobject | Kinterface => Forall2 fsim ms ms'
    | Kinput => Forall2 isim ms ms'
    | Kenum => Forall2 esim ms ms'
    | _ => True
    end.
Definition dsim (d d' : oid) : Prop :=
  exists n ds locs args args',
    mget M d = Some (ODir n ds locs args) /\ mget M d' = Some (ODir n ds locs args') /\ Forall2 isim args args'.

Lemma named_eq i i' : nsim i i' -> sx_named M tm' i' = sx_named M tm i.
Proof.
  intros ((nm & A & B) & (n1 & C & D) & (n2 & E & F)). unfold sx_named, registered.
  rewrite A, B. rewrite A in C. inversion C; subst n1. rewrite B in E. inversion E; subst n2.
  rewrite D, F, !N.eqb_refl. reflexivity.
Qed.

Lemma ref_eq ty ty' : rsim ty ty' -> sx_ref M tm' ty' = sx_ref M tm ty.
Proof. intros [W Hn]. unfold sx_ref. rewrite (named_eq _ _ Hn), W. reflexivity. Qed.

Lemma map_F2 {B} (R : oid -> oid -> Prop) (f g : oid -> B) l l' :
  (forall a a', R a a' -> g a' = f a) -> Forall2 R l l' -> map g l' = map f l.
Proof. intros H. induction 1 as [|a a' l l' Ha Hl IH]; simpl; [reflexivity|]. rewrite (H a a' Ha), IH. reflexivity. Qed.

Lemma input_eq a a' : isim a a' -> sx_input M tm' a' = sx_input M tm a.
Proof.
  intros (ia & n & py & ty & df & d & ds & ia' & ty' & A & B & C). unfold sx_input. rewrite A, B.
  rewrite (ref_eq _ _ C). reflexivity.
Qed.

Lemma field_eq f f' : fsim f f' -> sx_field M tm' f' = sx_field M tm f.
Proof.
  intros (n & py & ty & args & d & dp & r & sb & ds & ty' & args' & A & B & C & D). unfold sx_field. rewrite A, B.
  rewrite (ref_eq _ _ C), (map_F2 isim _ _ _ _ input_eq D). reflexivity.
Qed.

Lemma enumv_eq e e' : esim e e' -> sx_enumv M e' = sx_enumv M e.
Proof. intros (n & v & d & dp & ds & A & B). unfold sx_enumv. rewrite A, B. reflexivity. Qed.

Lemma type_eq t t' : tsim t t' -> sx_type M tm' t' = sx_type M tm t.
Proof.
  intros (n & k & d & ms & ifs & r & ds & ms' & ifs' & A & B & C & D). unfold sx_type. rewrite A, B.
  rewrite (map_F2 nsim _ _ _ _ named_eq C).
  destruct k; try reflexivity.
  - rewrite (map_F2 fsim _ _ _ _ field_eq D). reflexivity.
  - rewrite (map_F2 fsim _ _ _ _ field_eq D). reflexivity.
  - rewrite (map_F2 esim _ _ _ _ enumv_eq D). reflexivity.
  - rewrite (map_F2 isim _ _ _ _ input_eq D). reflexivity.
Qed.

Lemma dir_eq d d' : dsim d d' -> sx_dir M tm' d' = sx_dir M tm d.
Proof.
  intros (n & ds & locs & args & args' & A & B & C). unfold sx_dir. rewrite A, B.
  rewrite (map_F2 isim _ _ _ _ input_eq C). reflexivity.
Qed.

(* ------------------------------------------------------- aligned registries *)
(* entry by entry: the same key; either the same specified scalar on both
   sides or two non-specified corresponding type objects *)
Definition entry_sim (e e' : str * oid) : Prop :=
  fst e' = fst e /\ nsim (snd e) (snd e') /\
  ((is_builtin (snd e) = true /\ snd e' = snd e /\ tkind M (snd e) = Some Kscalar) \/
   (is_builtin (snd e) = false /\ is_builtin (snd e') = false /\ tsim (snd e) (snd e'))).

Lemma entry_kind e e' : entry_sim e e' -> tkind M (snd e') = tkind M (snd e).
Proof.
  intros (_ & _ & [(_ & -> & _)|(_ & _ & Ht)]); [reflexivity|].
  destruct Ht as (n & k & d & ms & ifs & r & ds & ms' & ifs' & A & B & _). unfold tkind. rewrite A, B. reflexivity.
Qed.

Lemma types_eq l l' :
  Forall2 entry_sim l l' ->
  map (fun e => sx_type M tm' (snd e)) (filter (fun e => negb (is_builtin (snd e))) l') =
  map (fun e => sx_type M tm (snd e)) (filter (fun e => negb (is_builtin (snd e))) l).
Proof.
  induction 1 as [|e e' l l' He Hl IH]; simpl; [reflexivity|].
  destruct He as (_ & _ & [(Hb & He' & _)|(Hb & Hb' & Ht)]).
  - rewrite He', Hb. simpl. exact IH.
  - rewrite Hb, Hb'. simpl. rewrite (type_eq _ _ Ht), IH. reflexivity.
Qed.

Lemma dirs_eq (l l' : list (str * oid)) :
  Forall2 (fun e e' => dsim (snd e) (snd e')) l l' ->
  map (fun e => sx_dir M tm' (snd e)) l' = map (fun e => sx_dir M tm (snd e)) l.
Proof. induction 1 as [|e e' l l' He Hl IH]; simpl; [reflexivity|]. rewrite (dir_eq _ _ He), IH. reflexivity. Qed.

(* ------------------------------------------------- implementations cache *)
Definition acc_sim (acc acc' : list (str * list oid)) : Prop :=
  Forall2 (fun p p' => fst p' = fst p /\ Forall2 nsim (snd p) (snd p')) acc acc'.

Lemma aappend_sim k v v' acc acc' : nsim v v' -> acc_sim acc acc' -> acc_sim (aappend k v acc) (aappend k v' acc').
Proof.
  intros Hv. induction 1 as [|[k1 l1] [k1' l1'] acc acc' [Hk Hl] Ha IH]; simpl.
  - constructor; [split; [reflexivity|constructor; [assumption|constructor]]|constructor].
  - simpl in Hk. subst k1'. destruct (str_eqb k k1).
    + constructor; [split; [reflexivity|]|assumption]. simpl. apply Forall2_app; [assumption|constructor; [assumption|constructor]].
    + constructor; [split; [reflexivity|assumption]|exact IH].
Qed.

Lemma impls_step e e' acc acc' :
  entry_sim e e' -> acc_sim acc acc' -> acc_sim (impls_of_type M acc e) (impls_of_type M acc' e').
Proof.
  intros (_ & Hn & [(Hb & He' & Hk)|(Hb & Hb' & Ht)]) Ha; unfold impls_of_type.
  - rewrite He'. unfold tkind in Hk. destruct (mget M (snd e)) as [[n k d ms ifs r ds| | | |]|]; try exact Ha.
    inversion Hk; subst k. exact Ha.
  - destruct Ht as (n & k & d & ms & ifs & r & ds & ms' & ifs' & A & B & C & _). rewrite A, B.
    destruct k; try exact Ha.
    clear A B. revert acc acc' Ha. induction C as [|i i' ifs ifs' Hi Hl IH]; intros acc acc' Ha; simpl; [exact Ha|].
    destruct Hi as ((nm & P & Q) & R1 & R2). rewrite P, Q. apply IH. apply aappend_sim; [exact Hn|exact Ha].
Qed.

Lemma impls_fold l l' : Forall2 entry_sim l l' -> forall acc acc', acc_sim acc acc' ->
  acc_sim (fold_left (impls_of_type M) l acc) (fold_left (impls_of_type M) l' acc').
Proof.
  induction 1 as [|e e' l l' He Hl IH]; intros acc acc' Ha; simpl; [exact Ha|].
  apply IH. apply impls_step; assumption.
Qed.

Lemma impls_eq acc acc' : acc_sim acc acc' ->
  flat_map (fun e => match snd e with
                     | [] => []
                     | l => [SL [SS (fst e); SL (sx_sort (map (sx_named M tm') l))]]
                     end) acc' =
  flat_map (fun e => match snd e with
                     | [] => []
                     | l => [SL [SS (fst e); SL (sx_sort (map (sx_named M tm) l))]]
                     end) acc.
Proof.
  induction 1 as [|[k l] [k' l'] acc acc' [Hk Hl] Ha IH]; [reflexivity|].
  cbn [flat_map]. rewrite IH. f_equal. cbn [fst snd] in *. subst k'.
  pose proof (map_F2 nsim _ _ _ _ named_eq Hl) as Hm.
  destruct Hl as [|i i' l l' Hi Hl]; [reflexivity|]. rewrite Hm. reflexivity.
Qed.

Lemma acc_lookup acc acc' n : acc_sim acc acc' ->
  Forall2 nsim (match alookup n acc with Some l => l | None => [] end)
               (match alookup n acc' with Some l => l | None => [] end).
Proof.
  induction 1 as [|[k l] [k' l'] acc acc' [Hk Hl] Ha IH]; simpl; [constructor|].
  simpl in Hk, Hl. subst k'. destruct (str_eqb n k); [exact Hl|exact IH].
Qed.

End Sim.

(* ------------------------------------------------- the possible-types cache *)
Definition poss_ok (M : mem) (s : schema) : Prop :=
  forall o l, nlookup o (s_poss s) = Some l -> possible_of M s o = Some l.

Lemma nlookup_app {A} o (c : list (oid * A)) k v :
  nlookup o (c ++ [(k, v)]) = match nlookup o c with Some x => Some x | None => if N.eqb o k then Some v else None end.
Proof. induction c as [|[k1 v1] c IH]; simpl; [reflexivity|]. destruct (N.eqb o k1); [reflexivity|exact IH]. Qed.

Lemma touch_lookup M s : poss_ok M s ->
  forall e, In e (s_types s) -> forall l, possible_of M s (snd e) = Some l ->
  nlookup (snd e) (s_poss (touch_poss M s)) = Some l.
Proof.
  intros Hok. unfold touch_poss. simpl.
  assert (Hgen : forall (l0 : list (str * oid)) cache,
            (forall o x, nlookup o cache = Some x -> possible_of M s o = Some x) ->
            let cache' := fold_left (fun cache e =>
                  match nlookup (snd e) cache with
                  | Some _ => cache
                  | None => match possible_of M s (snd e) with
                            | Some l => cache ++ [(snd e, l)]
                            | None => cache
                            end
                  end) l0 cache in
            (forall o x, nlookup o cache = Some x -> nlookup o cache' = Some x) /\
            (forall e, In e l0 -> forall x, possible_of M s (snd e) = Some x -> nlookup (snd e) cache' = Some x)).
  { induction l0 as [|e0 l0 IH]; intros cache Hc; simpl.
    - split; [auto|intros e []].
    - set (c1 := match nlookup (snd e0) cache with
                 | Some _ => cache
                 | None => match possible_of M s (snd e0) with Some l => cache ++ [(snd e0, l)] | None => cache end
                 end).
      assert (Hc1 : forall o x, nlookup o c1 = Some x -> possible_of M s o = Some x).
      { intros o x. unfold c1. destruct (nlookup (snd e0) cache) eqn:E0; [apply Hc|].
        destruct (possible_of M s (snd e0)) as [l1|] eqn:P0; [|apply Hc].
        rewrite nlookup_app. destruct (nlookup o cache) eqn:E1; [intros H; inversion H; subst; apply Hc; exact E1|].
        destruct (N.eqb_spec o (snd e0)) as [->|]; [intros H; inversion H; subst; exact P0|discriminate]. }
      assert (Hmono : forall o x, nlookup o cache = Some x -> nlookup o c1 = Some x).
      { intros o x Hx. unfold c1. destruct (nlookup (snd e0) cache); [exact Hx|].
        destruct (possible_of M s (snd e0)); [|exact Hx]. rewrite nlookup_app, Hx. reflexivity. }
      destruct (IH c1 Hc1) as (A & B). split; [intros o x Hx; apply A; apply Hmono; exact Hx|].
      intros e [->|Hin] x Hx; [|exact (B e Hin x Hx)].
      apply A. unfold c1. destruct (nlookup (snd e) cache) as [y|] eqn:E0.
      + rewrite (Hc _ _ E0) in Hx. inversion Hx; subst. exact E0.
      + rewrite Hx. rewrite nlookup_app, E0, N.eqb_refl. reflexivity. }
  intros e He l Hl. exact (proj2 (Hgen (s_types s) (s_poss s) Hok) e He l Hl).
Qed.

Definition root_sim M tm tm' (r r' : option oid) : Prop :=
  match r, r' with
  | None, None => True
  | Some o, Some o' => nsim M tm tm' o o'
  | _, _ => False
  end.

Theorem observe_sim M s s' :
  Forall2 (entry_sim M (s_types s) (s_types s')) (s_types s) (s_types s') ->
  Forall2 (fun e e' => dsim M (s_types s) (s_types s') (snd e) (snd e')) (s_dirs s) (s_dirs s') ->
  root_sim M (s_types s) (s_types s') (s_query s) (s_query s') ->
  root_sim M (s_types s) (s_types s') (s_mut s) (s_mut s') ->
  root_sim M (s_types s) (s_types s') (s_sub s) (s_sub s') ->
  s_impls s = fold_left (impls_of_type M) (s_types s) [] ->
  s_impls s' = fold_left (impls_of_type M) (s_types s') [] ->
  poss_ok M s -> poss_ok M s' ->
  observe M (touch_poss M s') = observe M (touch_poss M s).
Proof.
  intros Ht Hd Hq Hm Hs Hi Hi' Hp Hp'.
  set (tm := s_types s) in *. set (tm' := s_types s') in *.
  assert (Hacc : acc_sim M tm tm' (s_impls s) (s_impls s')).
  { rewrite Hi, Hi'. apply impls_fold; [exact Ht|constructor]. }
  unfold observe. cbn [s_types s_dirs s_query s_mut s_sub s_impls touch_poss]. fold tm tm'.
  assert (Hroot : forall r r', root_sim M tm tm' r r' ->
            SL (match r' with Some o => [sx_named M tm' o] | None => [] end) =
            SL (match r with Some o => [sx_named M tm o] | None => [] end)).
  { intros [o|] [o'|] Hr; simpl in Hr; try contradiction; [|reflexivity]. rewrite (named_eq _ _ _ _ _ Hr). reflexivity. }
  rewrite (Hroot _ _ Hq), (Hroot _ _ Hm), (Hroot _ _ Hs).
  rewrite (types_eq M tm tm' _ _ Ht), (dirs_eq M tm tm' _ _ Hd), (impls_eq M tm tm' _ _ Hacc).
  (* possible types *)
  assert (Hgen : forall l l', Forall2 (entry_sim M tm tm') l l' -> (forall e, In e l -> In e tm) -> (forall e, In e l' -> In e tm') ->
    flat_map (fun e => if is_abstract M (snd e) then
                 [SL [SS (fst e); SL (sx_sort (map (sx_named M tm')
                    (match nlookup (snd e) (s_poss (touch_poss M s')) with Some l => l | None => [] end)))]]
               else []) l' =
    flat_map (fun e => if is_abstract M (snd e) then
                 [SL [SS (fst e); SL (sx_sort (map (sx_named M tm)
                    (match nlookup (snd e) (s_poss (touch_poss M s)) with Some l => l | None => [] end)))]]
               else []) l).
  { induction 1 as [|e e' l l' He Hl IH]; intros Hin Hin'; [reflexivity|].
    cbn [flat_map]. rewrite IH; [|intros x Hx; apply Hin; right; exact Hx|intros x Hx; apply Hin'; right; exact Hx]. f_equal.
    pose proof (entry_kind _ _ _ _ _ He) as Hk.
    unfold is_abstract. rewrite Hk.
    destruct (tkind M (snd e)) as [k|] eqn:Ek; [|reflexivity].
    assert (Habs : forall k0, k = k0 -> (k0 = Kinterface \/ k0 = Kunion) ->
              [SL [SS (fst e'); SL (sx_sort (map (sx_named M tm')
                    (match nlookup (snd e') (s_poss (touch_poss M s')) with Some l => l | None => [] end)))]] =
              [SL [SS (fst e); SL (sx_sort (map (sx_named M tm)
                    (match nlookup (snd e) (s_poss (touch_poss M s)) with Some l => l | None => [] end)))]]).
    { intros k0 -> Hk0. destruct He as (Hf & Hn & [(Hb & He' & Hsc)|(Hb & Hb' & Hts)]).
      - rewrite Ek in Hsc. inversion Hsc; subst. destruct Hk0; discriminate.
      - destruct Hts as (n & k & d & ms & ifs & r & ds & ms' & ifs' & A & B & C & _).
        unfold tkind in Ek. rewrite A in Ek. inversion Ek; subst k.
        assert (Hpo : exists l l', possible_of M s (snd e) = Some l /\ possible_of M s' (snd e') = Some l' /\ Forall2 (nsim M tm tm') l l').
        { unfold possible_of. rewrite A, B. destruct Hk0 as [-> | ->].
          - eexists _, _. split; [reflexivity|]. split; [reflexivity|]. apply acc_lookup. exact Hacc.
          - exists ifs, ifs'. auto. }
        destruct Hpo as (l0 & l0' & P & P' & F).
        rewrite (touch_lookup M s Hp e (Hin e (or_introl eq_refl)) _ P).
        rewrite (touch_lookup M s' Hp' e' (Hin' e' (or_introl eq_refl)) _ P').
        rewrite Hf, (map_F2 (nsim M tm tm') _ _ _ _ (named_eq M tm tm') F). reflexivity. }
    destruct k; try reflexivity; [apply (Habs Kinterface)|apply (Habs Kunion)]; auto. }
  rewrite (Hgen tm tm' Ht (fun e H => H) (fun e H => H)). reflexivity.
Qed.
