(* Proofs about the executor machine, part E: progress, existence of complete
   schedules, and a bound on the length of every admissible schedule by the
   number of resolver calls the program can submit. *)
From Coq Require Import List NArith ZArith Bool Arith Lia Permutation.
Import ListNotations.
From PyGql Require Import Exec.RuntimeMachine Proofs.RuntimeMachineProofs Proofs.RuntimeMachineWf.

(* number of calls a program fragment can hand to the runtime *)
Fixpoint wt_fld (f : fld) : nat :=
  match f with
  | Fld _ dfr _ b => (match dfr with Some (n, _) => S n | None => 0 end) + wt_body b
  end
with wt_body (b : body) : nat :=
  match b with BObj fs => wt_flds fs | BList _ its => wt_items its | _ => 0 end
with wt_flds (fs : flds) : nat :=
  match fs with FNil => 0 | FCons f r => wt_fld f + wt_flds r end
with wt_items (its : items) : nat :=
  match its with
  | INil => 0
  | ICons it r => (match it with ItObj fs => wt_flds fs | _ => 0 end) + wt_items r
  end.
Definition wt_prog (pr : prog) : nat := match pr with Prog _ fs => wt_flds fs end.

(* completions a term can still undergo *)
Definition pot_k (k : K) : nat :=
  match k with
  | KComplete (Fld _ _ _ b) _ => wt_body b
  | KSerial _ _ rest => wt_flds rest
  | _ => 0
  end.
Fixpoint pot (d : D) : nat :=
  match d with
  | Task _ more => S more
  | Bind d1 k => pot d1 + pot_k k
  | Gather ds => (fix go (ds : list D) : nat := match ds with [] => 0 | d :: r => pot d + go r end) ds
  | _ => 0
  end.
Fixpoint pot_l (ds : list D) : nat := match ds with [] => 0 | d :: r => pot d + pot_l r end.
Lemma pot_gather ds : pot (Gather ds) = pot_l ds.
Proof. simpl. induction ds as [|d ds IH]; [reflexivity|]. simpl. rewrite IH. reflexivity. Qed.
Lemma pot_l_app a b : pot_l (a ++ b) = pot_l a + pot_l b.
Proof. induction a as [|d a IH]; simpl; [reflexivity|]. rewrite IH. lia. Qed.
Lemma pot_done d : is_done d = true -> pot d = 0.
Proof. destruct d; simpl; intros H; try discriminate; reflexivity. Qed.
Lemma pot_l_filter f ds : pot_l (filter f ds) <= pot_l ds.
Proof. induction ds as [|d ds IH]; simpl; [lia|]. destruct (f d); simpl; lia. Qed.

Definition potr (r : sres) : nat := match r with SOk d => pot d | SRaise _ => 0 end.
Definition potf (r : fres) : nat := match r with FOk ds => pot_l ds | FRaise _ => 0 end.

(* what was started fits into the weight w; new orphans included *)
Definition bounded (p : nat) (st st' : mstate) (w : nat) : Prop :=
  exists newo, orphans st' = orphans st ++ newo /\ p + pot_l newo <= w.

Lemma bounded_refl st w : bounded 0 st st w.
Proof. exists []. rewrite app_nil_r. simpl. split; [reflexivity|lia]. Qed.

Lemma bounded_trans p1 p2 st st1 st2 w1 w2 :
  bounded p1 st st1 w1 -> bounded p2 st1 st2 w2 -> bounded (p1 + p2) st st2 (w1 + w2).
Proof.
  intros (o1 & H1 & B1) (o2 & H2 & B2). exists (o1 ++ o2). rewrite H2, H1, app_assoc, pot_l_app.
  split; [reflexivity|lia].
Qed.

Lemma bounded_weaken p p' st st' w w' : bounded p st st' w -> p' <= p -> w <= w' -> bounded p' st st' w'.
Proof. intros (o & H & B) Hp Hw. exists o. split; [exact H|lia]. Qed.

Lemma bounded_orphan d p st st' w :
  bounded (pot d + p) st st' w -> bounded p st (add_orphan d st') w.
Proof.
  intros (o & H & B). unfold add_orphan. destruct (is_done d).
  - exists o. split; [exact H|lia].
  - exists (o ++ [d]). cbn [orphans]. rewrite H, app_assoc, pot_l_app. simpl. split; [reflexivity|lia].
Qed.

Lemma add_orphans_bounded ds st : bounded 0 st (add_orphans ds st) (pot_l ds).
Proof.
  destruct (add_orphans_spec ds st) as (_ & _ & C). exists (filter (fun d => negb (is_done d)) ds).
  split; [exact C|]. pose proof (pot_l_filter (fun d => negb (is_done d)) ds). lia.
Qed.

Lemma gather_norm_bounded ds st :
  bounded (pot (fst (gather_norm ds st))) st (snd (gather_norm ds st)) (pot_l ds).
Proof.
  unfold gather_norm. destruct (first_exn ds).
  - cbn [fst snd pot]. apply add_orphans_bounded.
  - destruct (all_vals ds); cbn [fst snd].
    + apply (bounded_weaken 0 0 st st 0); [apply bounded_refl|lia|lia].
    + rewrite pot_gather. exists []. rewrite app_nil_r. simpl. split; [reflexivity|lia].
Qed.

Lemma collect_sync_bounded keys ds st :
  bounded (pot (fst (collect_sync keys ds st))) st (snd (collect_sync keys ds st)) (pot_l ds).
Proof.
  unfold collect_sync. pose proof (gather_norm_bounded ds st) as H.
  destruct (gather_norm ds st) as [g st1]. cbn [fst snd] in *.
  destruct g; cbn [fst snd pot pot_k] in *; try exact H.
  - rewrite Nat.add_0_r. exact H.
  - rewrite Nat.add_0_r. exact H.
  - rewrite Nat.add_0_r. exact H.
Qed.

Definition s_bounded (r : sres * mstate) (st : mstate) (w : nat) : Prop :=
  bounded (potr (fst r)) st (snd r) w.
Definition f_bounded (r : fres * mstate) (st : mstate) (w : nat) : Prop :=
  bounded (potf (fst r)) st (snd r) w.

Lemma fields_to_s_bounded keys r st w :
  f_bounded r st w ->
  s_bounded (match r with
             | (FOk ds, st1) => let '(d, st2) := collect_sync keys ds st1 in (SOk d, st2)
             | (FRaise x, st1) => (SRaise x, st1)
             end) st w.
Proof.
  destruct r as [[ds|x] st1]; unfold f_bounded, s_bounded; cbn [fst snd potf]; [|auto].
  intros H. pose proof (collect_sync_bounded keys ds st1) as Hc.
  destruct (collect_sync keys ds st1) as [d st2]. cbn [fst snd potr] in *.
  destruct H as (o1 & H1 & B1). destruct Hc as (o2 & H2 & B2).
  exists (o1 ++ o2). rewrite H2, H1, app_assoc, pot_l_app. split; [reflexivity|lia].
Qed.

Lemma items_to_s_bounded r st w :
  f_bounded r st w ->
  s_bounded (match r with
             | (FOk ds, st1) => let '(d, st2) := gather_sync ds st1 in (SOk d, st2)
             | (FRaise x, st1) => (SRaise x, st1)
             end) st w.
Proof.
  destruct r as [[ds|x] st1]; unfold f_bounded, s_bounded; cbn [fst snd potf]; [|auto].
  intros H. unfold gather_sync. pose proof (gather_norm_bounded ds st1) as Hc.
  destruct (gather_norm ds st1) as [d st2]. cbn [fst snd potr] in *.
  destruct H as (o1 & H1 & B1). destruct Hc as (o2 & H2 & B2).
  exists (o1 ++ o2). rewrite H2, H1, app_assoc, pot_l_app. split; [reflexivity|lia].
Qed.

Lemma nonnull_wrap_bounded nn p r st w : s_bounded r st w -> s_bounded (nonnull_wrap nn p r) st w.
Proof.
  unfold nonnull_wrap. destruct nn; [|auto]. destruct r as [[d|x] st']; [|auto].
  unfold s_bounded. cbn [fst snd potr]. intros H.
  destruct d; cbn [fst snd potr pot pot_k]; try (rewrite Nat.add_0_r); try exact H.
  destruct (is_null v); exact H.
Qed.

Lemma capture_bounded r st w : s_bounded r st w -> s_bounded (capture r) st w.
Proof. destruct r as [[d|x] st']; auto. Qed.

Lemma f_bounded_cons r1 st1 st (rest : mstate -> fres * mstate) w1 w2 :
  s_bounded (r1, st1) st w1 -> (forall s, f_bounded (rest s) s w2) ->
  f_bounded (match r1 with
             | SRaise x => (FRaise x, st1)
             | SOk d => match rest st1 with
                        | (FOk ds, st2) => (FOk (d :: ds), st2)
                        | (FRaise x, st2) => (FRaise x, add_orphan d st2)
                        end
             end) st (w1 + w2).
Proof.
  unfold s_bounded. cbn [fst snd]. intros H1 Hrest. destruct r1 as [d|x]; cbn [potr] in H1.
  - specialize (Hrest st1). destruct (rest st1) as [[ds|x] st2]; unfold f_bounded in *; cbn [fst snd potf] in *.
    + exact (bounded_trans _ _ _ _ _ _ _ H1 Hrest).
    + apply bounded_orphan. rewrite Nat.add_0_r.
      pose proof (bounded_trans _ _ _ _ _ _ _ H1 Hrest) as H. rewrite Nat.add_0_r in H. exact H.
  - unfold f_bounded. cbn [fst snd potf]. apply (bounded_weaken 0 0 st st1 w1); [exact H1|lia|lia].
Qed.

Lemma run_eager_bounded : forall e t more st,
  orphans (snd (run_eager t more e st)) = orphans st /\
  (forall t' m, fst (run_eager t more e st) = Some (t', m) -> m <= more).
Proof.
  induction e as [|e IH]; intros t more st; cbn [run_eager].
  - split; [reflexivity|]. intros t' m H. inversion H; subst. lia.
  - destruct more as [|m0].
    + split; [reflexivity|]. intros t' m H. discriminate.
    + destruct (IH (next_tid t) m0 (emit (LFinish t) (emit (LInvoke t) st))) as [A B].
      split; [exact A|]. intros t' m H. specialize (B t' m H). lia.
Qed.

Lemma sync_bounded_all :
  (forall f p st, s_bounded (resolve_field p f st) st (wt_fld f)) /\
  (forall b nn p st, s_bounded (complete_field nn b p st) st (wt_body b)) /\
  (forall fs p st, f_bounded (start_fields p fs st) st (wt_flds fs)) /\
  (forall its inn p i st, f_bounded (start_items inn p i its st) st (wt_items its)) /\
  (forall it inn p st, s_bounded (complete_item inn it p st) st
                                 (match it with ItObj fs => wt_flds fs | _ => 0 end)).
Proof.
  assert (Hz : forall v st st', orphans st' = orphans st -> s_bounded (SOk (Val v), st') st 0).
  { intros v st st' H. exists []. cbn. rewrite app_nil_r. split; [exact H|lia]. }
  apply prog_mutind.
  - intros k dfr nn b IH p st. cbn [resolve_field wt_fld]. destruct dfr as [[n e]|].
    + destruct (run_eager_bounded e (p ++ [k], O) n st) as [Ho Hm].
      destruct (run_eager (p ++ [k], O) n e st) as [[[t m]|] st1]; cbn [fst snd] in *.
      * exists []. cbn [fst snd potr pot pot_k pot_l]. rewrite app_nil_r. split; [exact Ho|].
        specialize (Hm t m eq_refl). lia.
      * apply capture_bounded. destruct (IH nn (p ++ [k]) st1) as (o & H & B).
        exists o. rewrite H, Ho. split; [reflexivity|lia].
    + exact (IH nn (p ++ [k]) (emit (LFinish (p ++ [k], O)) (emit (LInvoke (p ++ [k], O)) st))).
  - intros z nn p st. apply Hz. reflexivity.
  - intros nn p st. cbn [complete_field]. apply Hz. destruct nn; reflexivity.
  - intros nn p st. apply Hz. reflexivity.
  - intros x nn p st. exists []. cbn. rewrite app_nil_r. split; [reflexivity|lia].
  - intros fs IH nn p st. cbn [complete_field wt_body]. apply nonnull_wrap_bounded.
    apply fields_to_s_bounded. apply IH.
  - intros inn its IH nn p st. cbn [complete_field wt_body]. apply nonnull_wrap_bounded.
    apply items_to_s_bounded. apply IH.
  - intros p st. exists []. cbn. rewrite app_nil_r. split; [reflexivity|lia].
  - intros f IHf fs IHfs p st. cbn [start_fields wt_flds].
    pose proof (IHf p st) as H1. destruct (resolve_field p f st) as [r1 st1].
    apply (f_bounded_cons r1 st1 st (start_fields p fs) _ _ H1 (IHfs p)).
  - intros inn p i st. exists []. cbn. rewrite app_nil_r. split; [reflexivity|lia].
  - intros it IHit its IHits inn p i st. cbn [start_items wt_items].
    pose proof (IHit inn (p ++ [i]) st) as H1. destruct (complete_item inn it (p ++ [i]) st) as [r1 st1].
    apply (f_bounded_cons r1 st1 st (start_items inn p (N.succ i) its) _ _ H1 (IHits inn p (N.succ i))).
  - intros inn p st. cbn [complete_item]. apply Hz. destruct inn; reflexivity.
  - intros z inn p st. apply Hz. reflexivity.
  - intros fs IH inn p st. cbn [complete_item]. apply nonnull_wrap_bounded.
    apply fields_to_s_bounded. apply IH.
Qed.

Lemma serial_next_bounded : forall rest acc st, s_bounded (serial_next acc rest st) st (wt_flds rest).
Proof.
  induction rest as [|f rest IH]; intros acc st; cbn [serial_next wt_flds].
  - exists []. cbn. rewrite app_nil_r. split; [reflexivity|lia].
  - pose proof (proj1 sync_bounded_all f [] st) as H1. destruct (resolve_field [] f st) as [r1 st1].
    unfold s_bounded in *. cbn [fst snd] in *. destruct r1 as [d|x]; cbn [potr] in *.
    + assert (Hdef : bounded (pot (Bind d (KSerial (key_of f) acc rest))) st st1 (wt_fld f + wt_flds rest)).
      { cbn [pot pot_k]. destruct H1 as (o & H & B). exists o. split; [exact H|lia]. }
      destruct d as [v|x| | |]; try exact Hdef.
      * specialize (IH (acc ++ [(key_of f, v)]) st1).
        destruct (serial_next (acc ++ [(key_of f, v)]) rest st1) as [r2 st2]. cbn [fst snd] in *.
        pose proof (bounded_trans _ _ _ _ _ _ _ H1 IH) as H. exact H.
      * cbn [fst snd potr pot]. apply (bounded_weaken 0 0 st st1 (wt_fld f)); [exact H1|lia|lia].
    + apply (bounded_weaken 0 0 st st1 (wt_fld f)); [exact H1|lia|lia].
Qed.

Lemma apply_k_bounded k v st :
  bounded (pot (fst (apply_k k v st))) st (snd (apply_k k v st)) (pot_k k).
Proof.
  assert (Hl : forall r w, s_bounded r st w -> bounded (pot (fst (lift r))) st (snd (lift r)) w).
  { intros [[d|x] st'] w H; exact H. }
  destruct k as [f p|keys|p|k acc rest|]; cbn [apply_k pot_k].
  - destruct f as [kk dfr nn b]. apply Hl. apply (proj1 (proj2 sync_bounded_all)).
  - exists []. cbn. rewrite app_nil_r. split; [reflexivity|lia].
  - exists []. cbn. rewrite app_nil_r. split; [destruct (is_null v); reflexivity|lia].
  - apply Hl. apply serial_next_bounded.
  - exists []. cbn. rewrite app_nil_r. split; [reflexivity|lia].
Qed.

(* one completion never increases the potential, and decreases it when the
   completed task occurs in the term *)
Definition fire_dec (t : tid) (d : D) (st : mstate) (r : D * mstate) : Prop :=
  exists newo, orphans (snd r) = orphans st ++ newo /\
    pot (fst r) + pot_l newo <= pot d /\
    (In t (tasks_of d) -> pot (fst r) + pot_l newo < pot d).

Lemma fire_dec_all t : forall d st, fire_dec t d st (fire t d st).
Proof.
  induction d as [v|x|t' more|d1 k IH|ds IH] using D_ind2; intros st.
  - exists []. cbn. rewrite app_nil_r. repeat split; try lia; try (intros []).
  - exists []. cbn. rewrite app_nil_r. repeat split; try lia; try (intros []).
  - cbn [fire]. destruct (tid_eqb t t') eqn:Et.
    + destruct more as [|n]; exists []; cbn; rewrite app_nil_r; repeat split; lia.
    + exists []. cbn [fst snd tasks_of pot pot_l]. rewrite app_nil_r. split; [reflexivity|]. split; [lia|].
      intros [H|[]]. subst. rewrite tid_eqb_refl in Et. discriminate.
  - cbn [fire tasks_of]. specialize (IH st). destruct (fire t d1 st) as [d1' st1].
    destruct IH as (o1 & H1 & B1 & S1). cbn [fst snd] in *.
    assert (Hdef : fire_dec t (Bind d1 k) st (Bind d1' k, st1)).
    { exists o1. cbn [fst snd pot tasks_of]. split; [exact H1|]. split; [lia|]. intros Hin. specialize (S1 Hin). lia. }
    destruct d1' as [v|x| | |]; try exact Hdef.
    + pose proof (apply_k_bounded k v st1) as Hk. destruct (apply_k k v st1) as [d' st'].
      destruct Hk as (o2 & H2 & B2). cbn [fst snd pot] in *.
      exists (o1 ++ o2). cbn [fst snd pot tasks_of pot_l tasks_l]. rewrite H2, H1, app_assoc, pot_l_app. split; [reflexivity|].
      split; [lia|]. intros Hin. specialize (S1 Hin). lia.
    + exists o1. cbn [fst snd pot] in *. split; [exact H1|]. split; [lia|]. intros Hin. specialize (S1 Hin). lia.
  - rewrite fire_gather.
    assert (Hl : forall st, exists newo, orphans (snd (fire_list t ds st)) = orphans st ++ newo /\
                 pot_l (fst (fire_list t ds st)) + pot_l newo <= pot_l ds /\
                 (In t (tasks_l ds) -> pot_l (fst (fire_list t ds st)) + pot_l newo < pot_l ds)).
    { clear st. induction ds as [|d ds IHds]; intros st.
      - exists []. cbn. rewrite app_nil_r. repeat split; try lia; try (intros []).
      - inversion IH as [|? ? Hd Hds]; subst. specialize (IHds Hds). cbn [fire_list].
        specialize (Hd st). destruct (fire t d st) as [d' s1]. specialize (IHds s1).
        destruct (fire_list t ds s1) as [r' s2]. destruct Hd as (o1 & H1 & B1 & S1).
        destruct IHds as (o2 & H2 & B2 & S2). cbn [fst snd pot_l tasks_l] in *.
        exists (o1 ++ o2). cbn [fst snd pot tasks_of pot_l tasks_l]. rewrite H2, H1, app_assoc, pot_l_app. split; [reflexivity|]. split; [lia|].
        intros Hin. apply in_app_or in Hin. destruct Hin as [Hin|Hin]; [specialize (S1 Hin)|specialize (S2 Hin)]; lia. }
    specialize (Hl st). destruct (fire_list t ds st) as [ds' st1]. destruct Hl as (o1 & H1 & B1 & S1).
    cbn [fst snd] in *. pose proof (gather_norm_bounded ds' st1) as Hg.
    destruct (gather_norm ds' st1) as [d' st']. destruct Hg as (o2 & H2 & B2). cbn [fst snd] in *.
    exists (o1 ++ o2). cbn [fst snd]. rewrite H2, H1, app_assoc, pot_l_app, pot_gather, tasks_of_gather.
    split; [reflexivity|]. split; [lia|]. intros Hin. specialize (S1 Hin). lia.
Qed.

Lemma fire_list_dec t : forall ds st,
  exists newo, orphans (snd (fire_list t ds st)) = orphans st ++ newo /\
    pot_l (fst (fire_list t ds st)) + pot_l newo <= pot_l ds /\
    (In t (tasks_l ds) -> pot_l (fst (fire_list t ds st)) + pot_l newo < pot_l ds).
Proof.
  induction ds as [|d ds IH]; intros st.
  - exists []. cbn. rewrite app_nil_r. repeat split; try lia; try (intros []).
  - cbn [fire_list]. pose proof (fire_dec_all t d st) as Hd. destruct (fire t d st) as [d' s1].
    specialize (IH s1). destruct (fire_list t ds s1) as [r' s2]. destruct Hd as (o1 & H1 & B1 & S1).
    destruct IH as (o2 & H2 & B2 & S2). cbn [fst snd pot_l tasks_l] in *.
    exists (o1 ++ o2). cbn [fst snd pot tasks_of pot_l tasks_l]. rewrite H2, H1, app_assoc, pot_l_app. split; [reflexivity|]. split; [lia|].
    intros Hin. apply in_app_or in Hin. destruct Hin as [Hin|Hin]; [specialize (S1 Hin)|specialize (S2 Hin)]; lia.
Qed.

Definition pot_state (s : state) : nat := pot (term s) + pot_l (orphans (ms s)).

Lemma mem_tid_In t l : mem_tid t l = true -> In t l.
Proof.
  unfold mem_tid. rewrite existsb_exists. intros (x & Hx & He). apply tid_eqb_eq in He. subst. exact Hx.
Qed.
Lemma In_mem_tid t l : In t l -> mem_tid t l = true.
Proof. intros H. unfold mem_tid. apply existsb_exists. exists t. split; [exact H|apply tid_eqb_refl]. Qed.

Lemma cnt_pos_in u l : 1 <= cnt u l -> In u l.
Proof. unfold cnt. intros H. apply (count_occ_In tid_eq_dec). lia. Qed.
Lemma in_cnt_pos u l : In u l -> 1 <= cnt u l.
Proof. unfold cnt. intros H. apply (count_occ_In tid_eq_dec) in H. lia. Qed.

(* every admissible step strictly decreases the potential *)
Lemma step_decreases s t s' : wf_state s -> step s t = Some s' -> pot_state s' < pot_state s.
Proof.
  intros W Hs. unfold step in Hs. destruct (mem_tid t (pending (ms s))) eqn:Em; [|discriminate].
  apply mem_tid_In in Em. apply in_cnt_pos in Em. rewrite (ws_cnt s W t) in Em.
  set (st := MkSt (pending (ms s)) (log (ms s)) [] (raised (ms s))) in *.
  pose proof (fire_dec_all t (term s) st) as Hf. destruct (fire t (term s) st) as [d' st1].
  destruct Hf as (o1 & H1 & B1 & S1). cbn [fst snd] in *. unfold st in H1. cbn [orphans app] in H1.
  pose proof (fire_list_dec t (orphans (ms s)) st1) as Hl.
  destruct (fire_list t (orphans (ms s)) st1) as [os' st2]. destruct Hl as (o2 & H2 & B2 & S2).
  cbn [fst snd] in *. inversion Hs; subst s'. clear Hs. unfold pot_state. cbn [term ms orphans].
  rewrite H2, H1, !pot_l_app.
  pose proof (pot_l_filter (fun d => negb (is_done d)) os') as Hfl.
  assert (Hin : In t (tasks_of (term s)) \/ In t (tasks_l (orphans (ms s)))).
  { destruct (Nat.eq_dec (cnt t (tasks_of (term s))) 0) as [Hz|Hnz].
    - right. apply cnt_pos_in. lia.
    - left. apply cnt_pos_in. lia. }
  destruct Hin as [Hin|Hin]; [specialize (S1 Hin)|specialize (S2 Hin)]; lia.
Qed.

Lemma start_bounded pr : pot_state (start pr) <= wt_prog pr.
Proof.
  assert (Hfin : forall r w, s_bounded r st0 w ->
            pot_state (match r with
                       | (SOk (Val v), st) => MkState (Val v) st
                       | (SOk (Exn x), st) => MkState (Exn x) st
                       | (SOk d, st) => MkState (Bind d KFinish) st
                       | (SRaise x, st) => MkState (Exn x) st
                       end) <= w).
  { intros [[d|x] st] w (o & H & B); cbn [fst snd potr] in *; cbn in H.
    - destruct d; unfold pot_state; cbn [term ms pot pot_k] in *; rewrite H; lia.
    - unfold pot_state. cbn [term ms pot]. rewrite H. lia. }
  destruct pr as [mut fs]. unfold start, wt_prog. destruct mut.
  - apply Hfin. apply serial_next_bounded.
  - apply Hfin. apply (fields_to_s_bounded (keys_of fs) (start_fields [] fs st0) st0).
    apply (proj1 (proj2 (proj2 sync_bounded_all))).
Qed.

(* ---------------------------------------------------------------- *)
Theorem progress s :
  pending (ms s) <> [] -> exists t s', In t (pending (ms s)) /\ step s t = Some s'.
Proof.
  intros H. destruct (pending (ms s)) as [|t l] eqn:E; [contradiction|].
  assert (Hm : mem_tid t (pending (ms s)) = true).
  { rewrite E. cbn [mem_tid existsb]. rewrite tid_eqb_refl. reflexivity. }
  exists t. unfold step. rewrite Hm.
  destruct (fire t (term s) _) as [d' st1]. destruct (fire_list t (orphans (ms s)) st1) as [os' st2].
  eexists. split; [left; reflexivity|reflexivity].
Qed.

(* the length of an admissible schedule is bounded *)
Theorem schedule_length : forall sigma s s',
  wf_state s -> run_from s sigma = Some s' -> length sigma + pot_state s' <= pot_state s.
Proof.
  induction sigma as [|t sigma IH]; intros s s' W H; simpl in H.
  - inversion H; subst. simpl. lia.
  - destruct (step s t) as [s1|] eqn:Es; [|discriminate].
    pose proof (step_decreases s t s1 W Es). pose proof (wf_step s t s1 W Es) as W1.
    specialize (IH s1 s' W1 H). simpl. lia.
Qed.

(* from every reachable state some admissible schedule completes every task *)
Lemma complete_from : forall n s, pot_state s <= n -> wf_state s ->
  exists sigma s', run_from s sigma = Some s' /\ pending (ms s') = [].
Proof.
  induction n as [|n IH]; intros s Hn W.
  - destruct (pending (ms s)) as [|t l] eqn:E; [exists [], s; split; [reflexivity|exact E]|].
    exfalso. assert (Hne : pending (ms s) <> []) by (rewrite E; discriminate).
    destruct (progress s Hne) as (t0 & s1 & _ & Hs). pose proof (step_decreases s t0 s1 W Hs). lia.
  - destruct (pending (ms s)) as [|t l] eqn:E; [exists [], s; split; [reflexivity|exact E]|].
    assert (Hne : pending (ms s) <> []) by (rewrite E; discriminate).
    destruct (progress s Hne) as (t0 & s1 & _ & Hs). pose proof (step_decreases s t0 s1 W Hs) as Hd.
    destruct (IH s1 ltac:(lia) (wf_step s t0 s1 W Hs)) as (sigma & s' & Hr & Hp).
    exists (t0 :: sigma), s'. split; [|exact Hp]. simpl. rewrite Hs. exact Hr.
Qed.

Theorem complete_schedule_exists pr :
  exists sigma s, run sigma pr = Some s /\ pending (ms s) = [] /\ length sigma <= wt_prog pr.
Proof.
  destruct (complete_from (pot_state (start pr)) (start pr) (le_n _) (wf_start pr)) as (sigma & s & Hr & Hp).
  exists sigma, s. split; [exact Hr|]. split; [exact Hp|].
  pose proof (schedule_length sigma (start pr) s (wf_start pr) Hr). pose proof (start_bounded pr). lia.
Qed.

Theorem schedule_bounded sigma pr s : run sigma pr = Some s -> length sigma <= wt_prog pr.
Proof.
  intros H. pose proof (schedule_length sigma (start pr) s (wf_start pr) H). pose proof (start_bounded pr). lia.
Qed.
