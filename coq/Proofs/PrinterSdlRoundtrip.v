(* C03 -- the composed round trip for complete documents (type-system
   definitions and extensions included) through the parser model:
   parse_document (print_ast ind true d) = strip_doc d, for documents without
   member descriptions (the open finding). *)
From PyGql Require Import Lang.Parser Spec.LexSpec Spec.GrammarSpec Spec.DocGrammarSpec Spec.SdlGrammarSpec
                          Proofs.LexProofs Proofs.EntryProofs Proofs.SdlEntryProofs.
From PyGql Require Import Lang.PrinterModel Spec.PrinterSpec Proofs.PrinterProofs Proofs.PrinterRoundtrip
                          Proofs.PrinterValueRoundtrip Proofs.PrinterExecRoundtrip.
From Coq Require Import Lia.
Local Open Scope N_scope.

(* ------------------------------------------------------------------ generic pieces *)
(* X (delim X)* printed as  x1 " d " x2 " d " ... *)
Lemma lex_sep_joined {A B} (c : N) (delim : tkind) (pr : A -> str) (Q : A -> list ptok -> Prop)
      (R : list ptok -> B -> Prop) (g : A -> B) :
  symbol_kind c = Some delim -> delim <> KEOF -> (forall x ts, Q x ts -> R ts (g x)) ->
  forall l, l <> [] -> Forall (fun x => LexOK (pr x) (Q x)) l ->
  LexOK (join_ne (map pr l) [32; c; 32]) (fun ts => D_sep_list R delim ts (map g l)).
Proof.
  intros Hc Hd HQ. induction l as [|x l IH]; intros Hne HF; [contradiction|].
  inversion HF as [|? ? Hx Hl]; subst. destruct l as [|y l'].
  - cbn [map join_ne]. apply (lexok_weaken _ (Q x)); [|assumption].
    intros ts H. constructor. apply HQ. assumption.
  - cbn [map]. rewrite join_ne_cons.
    set (J := join_ne (pr y :: map pr l') [32; c; 32]) in *.
    apply (lexok_app (pr x) ([32; c; 32] ++ J) (Q x)
             (fun ts => exists d ts', ts = d :: ts' /\ tk d = delim /\ D_sep_list R delim ts' (map g (y :: l')))).
    + assumption.
    + change ([32; c; 32] ++ J) with ([32] ++ c :: ([32] ++ J)).
      apply lexok_lead; [repeat constructor|].
      apply (lexok_symbol_app c delim _ (fun ts => D_sep_list R delim ts (map g (y :: l')))); try assumption.
      * apply lexok_lead; [repeat constructor|]. apply IH; [discriminate|assumption].
      * intros tok ts Hk H. exists tok, ts. auto.
    + intros rest _. apply vrest_sym. auto.
    + intros ts1 ts2 H1 (d & ts' & -> & Hk & H2). cbn [map]. constructor; auto.
Qed.

(* open lead x1 sep x2 ... trail close *)
Lemma wrapped_list_lexok {A B} (o c : N) (ko kc : tkind) (lead sep trail : str)
      (prq : A -> str) (Q : A -> list ptok -> Prop) (R : list ptok -> B -> Prop) (g : A -> B) l :
  symbol_kind o = Some ko -> ko <> KEOF -> symbol_kind c = Some kc -> kc <> KEOF ->
  ignorable lead -> ignorable sep -> sep <> [] -> ignorable trail ->
  (forall x ts, Q x ts -> R ts (g x)) ->
  Forall (fun x => LexOK (prq x) (Q x)) l ->
  LexOK ([o] ++ lead ++ p_join (map prq l) sep ++ trail ++ [c])
        (fun ts => exists to body tc, ts = to :: body ++ [tc] /\ tk to = ko /\ tk tc = kc
                                      /\ D_list R body (map g l)).
Proof.
  intros Ho Hko Hc Hkc Hl Hs Hsne Ht HQ HF.
  set (J := p_join (map prq l) sep).
  change ([o] ++ lead ++ J ++ trail ++ [c]) with (o :: (lead ++ J ++ trail ++ [c])).
  apply (lexok_symbol_app o ko _
           (fun ts => exists body tc, ts = body ++ [tc] /\ tk tc = kc /\ D_list R body (map g l)));
    try assumption.
  - replace (lead ++ J ++ trail ++ [c]) with (((lead ++ J) ++ trail) ++ [c])
      by (rewrite <- !app_assoc; reflexivity).
    apply (lexok_app ((lead ++ J) ++ trail) [c] (fun ts => D_list R ts (map g l))
                     (fun ts => exists tc, ts = [tc] /\ tk tc = kc)).
    + apply lexok_trail; [assumption|]. apply lexok_lead; [assumption|].
      apply (lex_pjoin_list sep prq Q); assumption.
    + apply (lexok_symbol c kc); try assumption. intros t Hk. exists t. auto.
    + intros rest _. apply vrest_sym. left. rewrite Hc. discriminate.
    + intros ts1 ts2 H1 (tc & -> & Hk). exists ts1, tc. auto.
  - intros tok ts Hk (body & tc & -> & Hkc' & HD). exists tok, body, tc. auto.
Qed.

Lemma D_opt_block_some {A} (R : list ptok -> A -> Prop) ko kc ts xs :
  xs <> [] ->
  (exists to body tc, ts = to :: body ++ [tc] /\ tk to = ko /\ tk tc = kc /\ D_list R body xs) ->
  D_opt_block R ko kc ts xs.
Proof. intros Hne (to & body & tc & -> & Ho & Hc & HD). constructor; assumption. Qed.

Lemma map_ne {A B} (f : A -> B) l : l <> [] -> map f l <> [].
Proof. destruct l; [contradiction|discriminate]. Qed.

(* a p_block of items, under an outer re-indentation *)
Lemma p_block_lexp {A B} ind (pr : A -> str) (Q : A -> list ptok -> Prop)
      (R : list ptok -> B -> Prop) (g : A -> B) l :
  all_ws ind -> (forall x ts, Q x ts -> R ts (g x)) ->
  Forall (fun x => pr x <> [] /\ LexP (pr x) (Q x)) l ->
  LexP (p_block (map pr l) ind) (fun ts => D_opt_block R KCurlyO KCurlyC ts (map g l)).
Proof.
  intros Hind HQ HF pre Hpre. unfold p_block.
  destruct l as [|x0 l0] eqn:El; [simpl; apply lexok_nil; constructor|].
  rewrite <- El in *. assert (Hne : l <> []) by (rewrite El; discriminate). clear El x0 l0.
  destruct (map pr l) as [|m0 ml] eqn:Em; [destruct l; [contradiction|discriminate]|]. rewrite <- Em. clear Em.
  change (lit "{") with [123]. change (lit "}") with [125].
  rewrite !reindent_app. change (reindent pre [123]) with [123]. change (reindent pre [125]) with [125].
  change (reindent pre [PrinterModel.LF]) with ((10 :: pre) ++ []). rewrite app_nil_r.
  rewrite reindent_p_join, !map_map. change (reindent pre [PrinterModel.LF]) with ((10 :: pre) ++ []).
  rewrite app_nil_r.
  assert (Hsep : ignorable (10 :: pre)) by (constructor; [reflexivity|apply ws_ignorable; assumption]).
  apply (lexok_weaken _ (fun ts => exists to body tc, ts = to :: body ++ [tc] /\ tk to = KCurlyO
                                   /\ tk tc = KCurlyC /\ D_list R body (map g l))).
  - intros ts H. apply D_opt_block_some; [apply map_ne; assumption|assumption].
  - apply (wrapped_list_lexok 123 125 KCurlyO KCurlyC (10 :: pre) (10 :: pre) (10 :: pre)
             (fun x => reindent pre (p_indent (pr x) ind)) Q R g l);
      try reflexivity; try discriminate; try assumption.
    apply Forall_forall. intros x Hx. rewrite Forall_forall in HF. destruct (HF x Hx) as [Hn HL].
    unfold p_indent. destruct (is_empty (pr x)) eqn:Ee; [destruct (pr x); [contradiction|discriminate]|].
    rewrite reindent_app, (reindent_ws pre _ Hind), reindent_reindent by assumption.
    apply lexok_lead; [apply ws_ignorable; assumption|]. apply HL. apply all_ws_app; assumption.
Qed.

(* ------------------------------------------------------------------ members *)
Section Members.
  Variable cf : cfg.
  Hypothesis Hind : all_ws (c_indent cf).
  Let ind := c_indent cf.

  (* optional " " directives *)
  Lemma dirs_wrap_lexp ds : Forall (wf_dir true) ds ->
    LexP (p_wrap (lit " ") (pr_directives cf ds) []) (fun ts => D_directives true true ts (map strip_dir ds)).
  Proof.
    intros Hd pre Hpre. rewrite reindent_p_wrap. change (reindent pre (lit " ")) with (lit " ").
    change (reindent pre []) with (@nil N).
    pose proof (dirs_lexp cf Hind true ds Hd pre Hpre) as HD. unfold p_wrap.
    destruct (is_empty (reindent pre (pr_directives cf ds))) eqn:E.
    - destruct (reindent pre (pr_directives cf ds)); [|discriminate]. apply lexok_nil.
      apply (lexok_empty_tokens _ HD).
    - rewrite app_nil_r. apply lexok_lead; [apply ignorable_space|assumption].
  Qed.

  Lemma dirs_wrap_head_ok pre ds rest : vrest_ok rest ->
    vrest_ok (reindent pre (p_wrap (lit " ") (pr_directives cf ds) []) ++ rest).
  Proof.
    intros Hr. apply reindent_head_ok; [|assumption]. intros r Hr0. unfold p_wrap.
    destruct (is_empty _); [assumption|]. apply vrest_sym. auto.
  Qed.

  Definition wf_ivdef (i : input_value_def) : Prop :=
    valid_name (n_val (iv_name i)) /\ wf_ty (iv_type i)
    /\ match iv_default i with Some d => wf_value true d | None => True end
    /\ Forall (wf_dir true) (iv_dirs i).

  Definition strip_ivdef_nodesc (i : input_value_def) : Prop := iv_desc i = None.

  Lemma ivdef_text i :
    pr_input_value_def cf i =
    n_val (iv_name i) ++ lit ": " ++ pr_type (iv_type i)
    ++ p_wrap (lit " = ") (match iv_default i with Some d => pr_value cf d | None => [] end) []
    ++ p_wrap (lit " ") (pr_directives cf (iv_dirs i)) [].
  Proof.
    unfold pr_input_value_def. rewrite !p_join_nil_sep. cbn [concat]. rewrite !app_nil_r, <- !app_assoc.
    reflexivity.
  Qed.

  Lemma ivdef_lexp i : wf_ivdef i -> iv_desc i = None ->
    pr_input_value_def cf i <> [] /\
    LexP (pr_input_value_def cf i) (fun ts => D_input_value true ts (strip_ivdef i)).
  Proof.
    intros (Hn & Hty & Hdef & Hdirs) Hdesc. rewrite ivdef_text. split.
    - pose proof (valid_name_ne _ Hn). destruct (n_val (iv_name i)); [contradiction|discriminate].
    - intros pre Hpre. rewrite !reindent_app.
      rewrite (reindent_id pre _ (name_no_lf _ Hn)), (reindent_id pre _ (type_no_lf _ Hty)).
      change (reindent pre (lit ": ")) with (lit ": ").
      apply (named_lexok _ _ (fun ts => exists tyts defts dts, ts = tyts ++ defts ++ dts
                /\ D_type true tyts (strip_ty (iv_type i))
                /\ D_default true defts (option_map strip_value (iv_default i))
                /\ D_directives true true dts (map strip_dir (iv_dirs i)))).
      + assumption.
      + apply (lexok_app _ _ (fun ts => D_type true ts (strip_ty (iv_type i)))
                 (fun ts => exists defts dts, ts = defts ++ dts
                    /\ D_default true defts (option_map strip_value (iv_default i))
                    /\ D_directives true true dts (map strip_dir (iv_dirs i)))).
        * apply type_lexok. assumption.
        * apply (lexok_app _ _ (fun ts => D_default true ts (option_map strip_value (iv_default i)))
                   (fun ts => D_directives true true ts (map strip_dir (iv_dirs i)))).
          -- apply (default_lexp cf Hind); assumption.
          -- apply dirs_wrap_lexp; assumption.
          -- intros rest Hr. apply dirs_wrap_head_ok. assumption.
          -- intros ts1 ts2 H1 H2. exists ts1, ts2. auto.
        * intros rest Hr. rewrite <- app_assoc. apply (default_head_ok cf). apply dirs_wrap_head_ok. assumption.
        * intros ts1 ts2 H1 (defts & dts & -> & H2 & H3). exists ts1, defts, dts. auto.
      + intros t colon ts Hk Ht Hc (tyts & defts & dts & -> & HDt & HDd & HDs).
        pose proof (DIv true [] None t colon tyts _ defts _ dts _ (DDesc_none true) Hk Hc HDt HDd HDs) as D.
        unfold name_node in D. rewrite Ht in D. unfold strip_ivdef. rewrite Hdesc. exact D.
  Qed.

  (* ( args ) in either layout *)
  Lemma argdefs_lexp args : Forall wf_ivdef args -> Forall (fun i => iv_desc i = None) args ->
    LexP (pr_arg_defs cf args) (fun ts => D_args_def true ts (map strip_ivdef args)).
  Proof.
    intros Hwf Hnd pre Hpre. unfold pr_arg_defs, D_args_def. cbv zeta.
    destruct args as [|a0 args0] eqn:Ea.
    - simpl. apply lexok_nil. constructor.
    - rewrite <- Ea in *. assert (Hne : args <> []) by (rewrite Ea; discriminate). clear Ea a0 args0.
      assert (HA : Forall (fun i => pr_input_value_def cf i <> [] /\
                     LexP (pr_input_value_def cf i) (fun ts => D_input_value true ts (strip_ivdef i))) args).
      { apply Forall_forall. intros i Hi. rewrite Forall_forall in Hwf, Hnd. apply ivdef_lexp; auto. }
      assert (Hnonempty : forall x, In x (map (pr_input_value_def cf) args) -> x <> []).
      { intros x Hx. apply in_map_iff in Hx. destruct Hx as (a & <- & Ha).
        rewrite Forall_forall in HA. apply (HA a Ha). }
      apply (lexok_weaken _ (fun ts => exists to body tc, ts = to :: body ++ [tc] /\ tk to = KParenO
                /\ tk tc = KParenC /\ D_list (D_input_value true) body (map strip_ivdef args))).
      { intros ts H. apply D_opt_block_some; [apply map_ne; assumption|assumption]. }
      destruct (existsb has_lf (map (pr_input_value_def cf) args)).
      + (* one argument per line *)
        rewrite p_wrap_nonempty.
        2: { unfold p_indent. rewrite p_join_nonempty by assumption.
             pose proof (join_ne_nonempty _ [PrinterModel.LF] Hnonempty (map_ne _ _ Hne)) as Hj.
             destruct (join_ne _ _); [contradiction|]. cbn [is_empty].
             intros H. apply app_eq_nil in H. destruct H as [_ H]. rewrite reindent_cons in H.
             destruct (c =? PrinterModel.LF); discriminate. }
        unfold p_indent. rewrite p_join_nonempty by assumption.
        pose proof (join_ne_nonempty _ [PrinterModel.LF] Hnonempty (map_ne _ _ Hne)) as Hj.
        destruct (is_empty (join_ne (map (pr_input_value_def cf) args) [PrinterModel.LF])) eqn:Ee;
          [destruct (join_ne _ _); [contradiction|discriminate]|].
        rewrite <- (p_join_nonempty _ [PrinterModel.LF]) by assumption.
        change (lit "(" ++ [PrinterModel.LF]) with ([40] ++ [10]). change ([PrinterModel.LF] ++ lit ")") with ([10] ++ [41]).
        rewrite <- !app_assoc. rewrite !reindent_app.
        change (reindent pre [40]) with [40]. change (reindent pre [41]) with [41].
        change (reindent pre [10]) with ((10 :: pre) ++ []). rewrite !app_nil_r.
        rewrite (reindent_ws pre _ Hind), reindent_reindent by assumption.
        rewrite reindent_p_join, map_map.
        change (reindent (pre ++ c_indent cf) [PrinterModel.LF]) with ((10 :: pre ++ c_indent cf) ++ []).
        rewrite app_nil_r.
        assert (Hq : all_ws (pre ++ c_indent cf)) by (apply all_ws_app; assumption).
        rewrite (app_assoc (10 :: pre) (c_indent cf)).
        apply (wrapped_list_lexok 40 41 KParenO KParenC ((10 :: pre) ++ c_indent cf) (10 :: pre ++ c_indent cf)
                 (10 :: pre) (fun i => reindent (pre ++ c_indent cf) (pr_input_value_def cf i))
                 (fun i ts => D_input_value true ts (strip_ivdef i)));
          try reflexivity; try discriminate; auto.
        * constructor; [reflexivity|]. apply ws_ignorable. assumption.
        * constructor; [reflexivity|]. apply ws_ignorable. assumption.
        * constructor; [reflexivity|]. apply ws_ignorable. assumption.
        * apply Forall_forall. intros i Hi. rewrite Forall_forall in HA. apply (HA i Hi). assumption.
      + (* on one line *)
        rewrite p_join_nonempty by assumption.
        rewrite p_wrap_nonempty by (apply join_ne_nonempty; [assumption|apply map_ne; assumption]).
        change (lit "(") with [40]. change (lit ")") with [41].
        rewrite !reindent_app. change (reindent pre [40]) with [40]. change (reindent pre [41]) with [41].
        rewrite reindent_join_ne by (intros x [<-|[<-|[]]]; discriminate). rewrite map_map.
        apply (lex_bracketed 40 41 KParenO KParenC _ _
                 (fun ts => D_list (D_input_value true) ts (map strip_ivdef args)));
          try reflexivity; try discriminate.
        * intros rest pos Hr.
          apply (lex_joined (fun a => reindent pre (pr_input_value_def cf a))
                            (fun a ts => D_input_value true ts (strip_ivdef a))
                            (fun l ts => D_list (D_input_value true) ts (map strip_ivdef l))).
          -- constructor.
          -- intros x xs ts ts' Hx Hxs. cbn [map]. constructor; assumption.
          -- apply Forall_forall. intros a Ha. rewrite Forall_forall in HA. apply (HA a Ha). assumption.
          -- assumption.
        * intros to tc ts Ho Hc HD. exists to, ts, tc. auto.
  Qed.

  (* field definitions *)
  Definition wf_fdef (f : field_def) : Prop :=
    valid_name (n_val (fd_name f)) /\ Forall wf_ivdef (fd_args f) /\ wf_ty (fd_type f)
    /\ Forall (wf_dir true) (fd_dirs f).
  Definition nodesc_fdef (f : field_def) : Prop :=
    fd_desc f = None /\ Forall (fun i => iv_desc i = None) (fd_args f).

  Lemma argdefs_head_ok pre args rest : vrest_ok rest ->
    vrest_ok (reindent pre (pr_arg_defs cf args) ++ rest).
  Proof.
    intros Hr. apply reindent_head_ok; [|assumption]. intros r Hr0. unfold pr_arg_defs, p_wrap. cbv zeta.
    destruct (existsb _ _); destruct (is_empty _); try assumption; apply vrest_sym; left; discriminate.
  Qed.

  Lemma fdef_lexp f : wf_fdef f -> nodesc_fdef f ->
    pr_field_def cf f <> [] /\ LexP (pr_field_def cf f) (fun ts => D_field_def true ts (strip_fdef f)).
  Proof.
    intros (Hn & Hargs & Hty & Hdirs) (Hdesc & Hadesc). unfold pr_field_def.
    rewrite p_join_nil_sep. cbn [concat]. rewrite app_nil_r. split.
    - pose proof (valid_name_ne _ Hn). destruct (n_val (fd_name f)); [contradiction|discriminate].
    - intros pre Hpre. rewrite !reindent_app.
      rewrite (reindent_id pre _ (name_no_lf _ Hn)), (reindent_id pre _ (type_no_lf _ Hty)).
      change (reindent pre (lit ": ")) with ([58] ++ [32]). rewrite <- !app_assoc.
      apply (lexok_weaken _ (fun ts => exists n xs, ts = n :: xs /\ tk n = KName /\ tval n = n_val (fd_name f) /\
                (exists ats colon tyts dts, xs = ats ++ colon :: tyts ++ dts
                   /\ D_args_def true ats (map strip_ivdef (fd_args f)) /\ tk colon = KColon
                   /\ D_type true tyts (strip_ty (fd_type f))
                   /\ D_directives true true dts (map strip_dir (fd_dirs f))))).
      + intros ts (n & xs & -> & Hk & Ht & ats & colon & tyts & dts & -> & HDa & Hc & HDt & HDd).
        pose proof (DFd true [] None n ats _ colon tyts _ dts _ (DDesc_none true) Hk HDa Hc HDt HDd) as D.
        unfold name_node in D. rewrite Ht in D. unfold strip_fdef. rewrite Hdesc. exact D.
      + apply name_then; [assumption| |].
        * apply (lexok_app _ _ (fun ts => D_args_def true ts (map strip_ivdef (fd_args f)))
                   (fun ts => exists colon tyts dts, ts = colon :: tyts ++ dts /\ tk colon = KColon
                      /\ D_type true tyts (strip_ty (fd_type f))
                      /\ D_directives true true dts (map strip_dir (fd_dirs f)))).
          -- apply argdefs_lexp; assumption.
          -- cbn [app].
             apply (lexok_symbol_app 58 KColon _ (fun ts => exists tyts dts, ts = tyts ++ dts
                      /\ D_type true tyts (strip_ty (fd_type f))
                      /\ D_directives true true dts (map strip_dir (fd_dirs f))));
               [reflexivity|discriminate| |].
             ++ change (32 :: ?x) with ([32] ++ x). apply lexok_lead; [repeat constructor|].
                apply (lexok_app _ _ (fun ts => D_type true ts (strip_ty (fd_type f)))
                         (fun ts => D_directives true true ts (map strip_dir (fd_dirs f)))).
                ** apply type_lexok. assumption.
                ** apply dirs_wrap_lexp; assumption.
                ** intros rest Hr. apply dirs_wrap_head_ok. assumption.
                ** intros ts1 ts2 H1 H2. exists ts1, ts2. auto.
             ++ intros tok ts Hk (tyts & dts & -> & H1 & H2). exists tok, tyts, dts. auto.
          -- intros rest _. apply vrest_sym. left. discriminate.
          -- intros ts1 ts2 H1 (colon & tyts & dts & -> & H2). exists ts1, colon, tyts, dts. tauto.
        * intros rest Hr. rewrite <- app_assoc. apply argdefs_head_ok. apply vrest_sym. left. discriminate.
  Qed.

  (* enum values *)
  Definition wf_evdef (e : enum_value_def) : Prop :=
    valid_name (n_val (ev_name e)) /\ ~ is_reserved (n_val (ev_name e)) /\ Forall (wf_dir true) (ev_dirs e).

  Lemma evdef_lexp e : wf_evdef e -> ev_desc e = None ->
    pr_enum_value_def cf e <> [] /\
    LexP (pr_enum_value_def cf e) (fun ts => D_enum_value true ts (strip_evdef e)).
  Proof.
    intros (Hn & Hres & Hdirs) Hdesc. unfold pr_enum_value_def. split.
    - rewrite p_join_cons. pose proof (valid_name_ne _ Hn).
      destruct (n_val (ev_name e)); [contradiction|]. cbn [is_empty].
      destruct (is_empty _); discriminate.
    - intros pre Hpre. rewrite reindent_p_join. cbn [map]. change (reindent pre (lit " ")) with (lit " ").
      rewrite (reindent_id pre _ (name_no_lf _ Hn)).
      set (Dt := reindent pre (pr_directives cf (ev_dirs e))).
      apply (lexok_weaken _ (PartsP [(n_val (ev_name e), fun ts => exists n, ts = [n] /\ tk n = KName
                                                                   /\ tval n = n_val (ev_name e));
                                     (Dt, fun ts => D_directives true true ts (map strip_dir (ev_dirs e)))])).
      + intros ts H. inversion H as [|? ? ts1 ? tss1 H1 Hr1]; subst.
        inversion Hr1 as [|? ? ts2 ? tss2 H2 Hr2]; subst. inversion Hr2; subst.
        destruct H1 as (n & -> & Hk & Ht). rewrite app_nil_r.
        pose proof (DEv true [] None n ts2 (map strip_dir (ev_dirs e)) (DDesc_none true) Hk) as D.
        unfold name_node in D. rewrite Ht in D. unfold strip_evdef. rewrite Hdesc. apply D; assumption.
      + change [n_val (ev_name e); Dt]
          with (map fst [(n_val (ev_name e), fun ts : list ptok => exists n, ts = [n] /\ tk n = KName
                                                                   /\ tval n = n_val (ev_name e));
                         (Dt, fun ts => D_directives true true ts (map strip_dir (ev_dirs e)))]).
        apply lex_pjoin; [apply ignorable_space|discriminate|]. repeat constructor; cbn [fst snd].
        * apply name_lexok; [assumption|]. intros t Hk Ht. exists t. auto.
        * apply (dirs_lexp cf Hind true _ Hdirs pre Hpre).
  Qed.

  (* operation type definitions:  query: Name *)
  Definition wf_otdef (o : op_type_def) : Prop :=
    exists n l, ot_type o = TNamed n l /\ valid_name (n_val n).

  Lemma otdef_lexp o : wf_otdef o ->
    pr_op_type_def o <> [] /\ LexP (pr_op_type_def o) (fun ts => D_op_type_def true ts (strip_otdef o)).
  Proof.
    intros (n & l & Ety & Hn). unfold pr_op_type_def. rewrite Ety. cbn [pr_type]. split.
    - destruct (ot_op o); discriminate.
    - intros pre Hpre. rewrite !reindent_app, (reindent_id pre _ (op_text_no_lf _)),
        (reindent_id pre _ (name_no_lf _ Hn)). change (reindent pre (lit ": ")) with ([58] ++ [32]).
      apply (lexok_app _ _ (fun ts => exists t, ts = [t] /\ D_operation_type t (ot_op o))
                (fun ts => exists colon tn, ts = [colon; tn] /\ tk colon = KColon /\ tk tn = KName
                                            /\ tval tn = n_val n)).
      + apply op_word_lexok.
      + rewrite <- app_assoc. cbn [app].
        apply (lexok_symbol_app 58 KColon _ (fun ts => exists tn, ts = [tn] /\ tk tn = KName /\ tval tn = n_val n));
          [reflexivity|discriminate| |].
        * change (32 :: ?x) with ([32] ++ x). apply lexok_lead; [repeat constructor|].
          apply name_lexok; [assumption|]. intros t Hk Ht. exists t. auto.
        * intros tok ts Hk (tn & -> & Hkt & Htt). exists tok, tn. auto.
      + intros rest _. apply vrest_sym. left. discriminate.
      + intros ts1 ts2 (k & -> & Hot) (colon & tn & -> & Hc & Hkt & Htt).
        pose proof (DOtd true k _ colon tn Hot Hc Hkt) as D. unfold named_type, name_node in D.
        rewrite Htt in D. unfold strip_otdef. rewrite Ety. exact D.
  Qed.

End Members.

(* ------------------------------------------------------------------ definition headers *)
Definition Pkw (ext : bool) (K : string) (ts : list ptok) : Prop :=
  if ext then exists e k, ts = [e; k] /\ is_word "extend" e /\ is_word K k
  else exists k, ts = [k] /\ is_word K k.

Lemma valid_name_extend : valid_name (str_of_string "extend").
Proof. exists 101, (lit "xtend"). repeat split; repeat constructor. Qed.

Lemma kw_lexok ext K : valid_name (str_of_string K) -> LexOK (kw ext K) (Pkw ext K).
Proof.
  intros HK. unfold kw, Pkw, lit. destruct ext.
  - change (str_of_string "extend ") with (str_of_string "extend" ++ [32]).
    rewrite <- app_assoc.
    apply (lexok_app _ _ (fun ts => exists e, ts = [e] /\ is_word "extend" e)
                     (fun ts => exists k, ts = [k] /\ is_word K k)).
    + apply word_lexok; [apply valid_name_extend|]. intros t Hw. exists t. auto.
    + apply lexok_lead; [repeat constructor|]. apply word_lexok; [assumption|]. intros t Hw. exists t. auto.
    + intros rest _. apply vrest_sym. auto.
    + intros ts1 ts2 (e & -> & He) (k & -> & Hk). exists e, k. auto.
  - apply word_lexok; [assumption|]. intros t Hw. exists t. auto.
Qed.

Lemma kw_nonempty ext K : valid_name (str_of_string K) -> kw ext K <> [].
Proof. intros HK. unfold kw. destruct ext; [discriminate|]. apply valid_name_ne. assumption. Qed.

Section Descriptions.
  Variable cf : cfg.
  Hypothesis Hind : all_ws (c_indent cf).
  Hypothesis Hdesc : c_desc cf = true.

  Definition wf_desc (d : option strval) : Prop :=
    match d with
    | Some s => if sv_block s then canon (sv_val s) /\ (forall c, In c (sv_val s) -> SourceCharacter c) else True
    | None => True
    end.

  Lemma with_desc_lexok formatted desc (P : list ptok -> Prop) :
    wf_desc desc -> formatted <> [] -> LexOK formatted P ->
    LexOK (with_desc cf formatted desc false)
          (fun ts => exists dsts rest, ts = dsts ++ rest
                      /\ D_description true dsts (option_map strip_strval desc) /\ P rest).
  Proof.
    intros Hwf Hne HF. unfold with_desc. destruct desc as [d|].
    - rewrite Hdesc. cbn [negb andb].
      set (dt := if sv_block d then block_string (sv_val d) (c_indent cf) true else json_quote (sv_val d)).
      assert (Hdt : dt <> []).
      { unfold dt. destruct (sv_block d); [|discriminate].
        destruct (block_string_shape (sv_val d) (c_indent cf) true) as (X & -> & _). discriminate. }
      rewrite p_join_nonempty by (intros x [<-|[<-|[]]]; assumption).
      cbn [join_ne].
      apply (lexok_app dt ([PrinterModel.LF] ++ formatted)
               (fun ts => D_description true ts (Some (strip_strval d))) P).
      + apply lexok_single; [assumption|]. intros rest pos Hr. unfold dt, strip_strval.
        destruct (sv_block d) eqn:Eb.
        * simpl in Hwf. rewrite Eb in Hwf. destruct Hwf as [Hc Hsrc].
          destruct (lex_block (sv_val d) (c_indent cf) true [] rest pos Hc Hind eq_refl Hsrc) as (e & He).
          rewrite reindent_nil in He. eexists _, e. split; [|exact He].
          apply (DDesc_block true (PTok KBlockString (sv_val d) pos e)). reflexivity.
        * destruct (lex_quoted (sv_val d) rest pos Hr) as (e & He). eexists _, e. split; [|exact He].
          apply (DDesc_string true (PTok KString (sv_val d) pos e)). reflexivity.
      + apply lexok_lead; [repeat constructor|assumption].
      + intros rest _. apply vrest_sym. auto.
      + intros ts1 ts2 H1 H2. exists ts1, ts2. auto.
    - apply (lexok_weaken _ P); [|assumption]. intros ts H. exists [], ts. repeat split; [constructor|assumption].
  Qed.
End Descriptions.

(* named types separated by & or | *)
Definition wf_named (t : ty) : Prop := match t with TNamed n _ => valid_name (n_val n) | _ => False end.

Lemma named_types_lexok (c : N) (delim : tkind) tys :
  symbol_kind c = Some delim -> delim <> KEOF -> tys <> [] -> Forall wf_named tys ->
  LexOK (p_join (map pr_type tys) [32; c; 32])
        (fun ts => D_sep_list (D_named_type true) delim ts (map strip_ty tys)).
Proof.
  intros Hc Hd Hne Hwf.
  rewrite p_join_nonempty.
  2: { intros x Hx. apply in_map_iff in Hx. destruct Hx as (t & <- & Ht). rewrite Forall_forall in Hwf.
       specialize (Hwf t Ht). destruct t; try contradiction. simpl. apply valid_name_ne. assumption. }
  apply (lex_sep_joined c delim pr_type
           (fun t ts => exists n, ts = [n] /\ tk n = KName /\ strip_ty t = named_type true n));
    try assumption.
  - intros t ts (n & -> & Hk & E). rewrite E. constructor. assumption.
  - apply Forall_forall. intros t Ht. rewrite Forall_forall in Hwf. specialize (Hwf t Ht).
    destruct t as [n l| |]; try contradiction. cbn [pr_type]. apply name_lexok; [assumption|].
    intros tok Hk Htv. exists tok. repeat split; auto. unfold named_type, name_node. simpl. rewrite Htv. reflexivity.
Qed.

Lemma named_join_nonempty tys sep : tys <> [] -> Forall wf_named tys -> p_join (map pr_type tys) sep <> [].
Proof.
  intros Hne Hwf.
  assert (Hx : forall x, In x (map pr_type tys) -> x <> []).
  { intros x Hx. apply in_map_iff in Hx. destruct Hx as (t & <- & Ht). rewrite Forall_forall in Hwf.
    specialize (Hwf t Ht). destruct t; try contradiction. simpl. apply valid_name_ne. assumption. }
  rewrite p_join_nonempty by assumption. apply join_ne_nonempty; [assumption|apply map_ne; assumption].
Qed.

Lemma implements_lexok ifaces : Forall wf_named ifaces ->
  LexOK (p_wrap (lit "implements ") (p_join (map pr_type ifaces) (lit " & ")) [])
        (fun ts => D_implements true ts (map strip_ty ifaces)).
Proof.
  intros Hwf. destruct ifaces as [|i0 is0] eqn:E.
  - simpl. apply lexok_nil. constructor.
  - rewrite <- E in *. assert (Hne : ifaces <> []) by (rewrite E; discriminate). clear E i0 is0.
    pose proof (named_types_lexok 38 KAmp ifaces eq_refl ltac:(discriminate) Hne Hwf) as HL.
    change (lit " & ") with [32; 38; 32].
    pose proof (named_join_nonempty ifaces [32; 38; 32] Hne Hwf) as Hj.
    rewrite p_wrap_nonempty by assumption. rewrite app_nil_r.
    change (lit "implements ") with (str_of_string "implements" ++ [32]). rewrite <- app_assoc.
    apply (lexok_app _ _ (fun ts => exists k, ts = [k] /\ is_word "implements" k)
              (fun ts => D_sep_list (D_named_type true) KAmp ts (map strip_ty ifaces))).
    + apply word_lexok; [exists 105, (lit "mplements"); repeat split; repeat constructor|].
      intros t Hw. exists t. auto.
    + apply lexok_lead; [repeat constructor|assumption].
    + intros rest _. apply vrest_sym. auto.
    + intros ts1 ts2 (k & -> & Hk) H2.
      apply (DImpl_some true k [] ts2 _ Hk (DLead_none KAmp) H2).
Qed.

Lemma union_members_lexok types : Forall wf_named types ->
  LexOK (p_wrap (lit "= ") (p_join (map pr_type types) (lit " | ")) [])
        (fun ts => D_union_members true ts (map strip_ty types)).
Proof.
  intros Hwf. destruct types as [|i0 is0] eqn:E.
  - simpl. apply lexok_nil. constructor.
  - rewrite <- E in *. assert (Hne : types <> []) by (rewrite E; discriminate). clear E i0 is0.
    pose proof (named_types_lexok 124 KPipe types eq_refl ltac:(discriminate) Hne Hwf) as HL.
    change (lit " | ") with [32; 124; 32].
    pose proof (named_join_nonempty types [32; 124; 32] Hne Hwf) as Hj.
    rewrite p_wrap_nonempty by assumption. rewrite app_nil_r.
    change (lit "= ") with ([61] ++ [32]). rewrite <- app_assoc. cbn [app].
    apply (lexok_symbol_app 61 KEquals _ (fun ts => D_sep_list (D_named_type true) KPipe ts (map strip_ty types)));
      [reflexivity|discriminate| |].
    + change (32 :: ?x) with ([32] ++ x). apply lexok_lead; [repeat constructor|assumption].
    + intros tok ts Hk H2. apply (DUm_some true tok [] ts _ Hk (DLead_none KPipe) H2).
Qed.

(* ------------------------------------------------------------------ type-system definitions *)
Lemma is_word_name w t : is_word w t -> tk t = KName.
Proof. intros [H _]. exact H. Qed.

Lemma map_nil_iff {A B} (f : A -> B) l : map f l = [] <-> l = [].
Proof. destruct l; simpl; split; intros H; try reflexivity; discriminate. Qed.

Section TypeSystem.
  Variable cf : cfg.
  Hypothesis Hind : all_ws (c_indent cf).
  Hypothesis Hdesc : c_desc cf = true.
  Variable fv : bool.

  Definition wfd (ext : bool) (desc : option strval) : Prop := (ext = true -> desc = None) /\ wf_desc desc.

  Definition wf_location (l : name) : Prop :=
    In (n_val l) (map str_of_string directive_location_names).

  Definition wf_sdef (d : definition) : Prop :=
    match d with
    | DSchema ext dirs ots _ =>
        Forall (wf_dir true) dirs /\ Forall wf_otdef ots
        /\ (if ext then ~ (dirs = [] /\ ots = []) else ots <> [])
    | DScalar ext desc n dirs _ =>
        wfd ext desc /\ valid_name (n_val n) /\ Forall (wf_dir true) dirs /\ (ext = true -> dirs <> [])
    | DObject ext desc n ifaces dirs fields _ =>
        wfd ext desc /\ valid_name (n_val n) /\ Forall wf_named ifaces /\ Forall (wf_dir true) dirs
        /\ Forall wf_fdef fields /\ (ext = true -> ~ (ifaces = [] /\ dirs = [] /\ fields = []))
    | DInterface ext desc n dirs fields _ =>
        wfd ext desc /\ valid_name (n_val n) /\ Forall (wf_dir true) dirs
        /\ Forall wf_fdef fields /\ (ext = true -> ~ (dirs = [] /\ fields = []))
    | DUnion ext desc n dirs types _ =>
        wfd ext desc /\ valid_name (n_val n) /\ Forall (wf_dir true) dirs
        /\ Forall wf_named types /\ (ext = true -> ~ (dirs = [] /\ types = []))
    | DEnum ext desc n dirs vals _ =>
        wfd ext desc /\ valid_name (n_val n) /\ Forall (wf_dir true) dirs
        /\ Forall wf_evdef vals /\ (ext = true -> ~ (dirs = [] /\ vals = []))
    | DInput ext desc n dirs fields _ =>
        wfd ext desc /\ valid_name (n_val n) /\ Forall (wf_dir true) dirs
        /\ Forall wf_ivdef fields /\ (ext = true -> ~ (dirs = [] /\ fields = []))
    | DDirective desc n args locs _ =>
        wf_desc desc /\ valid_name (n_val n) /\ Forall wf_ivdef args /\ locs <> [] /\ Forall wf_location locs
    | _ => False
    end.

  (* no descriptions on fields, arguments, input fields, enum values *)
  Definition member_desc_free (d : definition) : Prop :=
    match d with
    | DObject _ _ _ _ _ fields _ | DInterface _ _ _ _ fields _ => Forall nodesc_fdef fields
    | DEnum _ _ _ _ vals _ => Forall (fun e => ev_desc e = None) vals
    | DInput _ _ _ _ fields _ => Forall (fun i => iv_desc i = None) fields
    | DDirective _ _ args _ _ => Forall (fun i => iv_desc i = None) args
    | _ => True
    end.

  (* kw name part3 ... separated by blanks *)
  Lemma header_lexok ext K nm (parts : list part) :
    valid_name (str_of_string K) -> valid_name nm ->
    Forall (fun p => LexOK (fst p) (snd p)) parts ->
    LexOK (p_join (kw ext K :: nm :: map fst parts) (lit " "))
          (fun ts => exists kws n rest, ts = kws ++ n :: rest /\ Pkw ext K kws /\ tk n = KName
                                        /\ tval n = nm /\ PartsP parts rest).
  Proof.
    intros HK Hn HF.
    apply (lexok_weaken _ (PartsP ((kw ext K, Pkw ext K)
              :: (nm, fun ts => exists n, ts = [n] /\ tk n = KName /\ tval n = nm) :: parts))).
    - intros ts H. inversion H as [|? ? ts1 ? tss1 H1 Hr1]; subst.
      inversion Hr1 as [|? ? ts2 ? tss2 H2 Hr2]; subst. destruct H2 as (n & -> & Hk & Ht).
      exists ts1, n, tss2. auto.
    - change (kw ext K :: nm :: map fst parts)
        with (map fst ((kw ext K, Pkw ext K)
              :: (nm, fun ts : list ptok => exists n, ts = [n] /\ tk n = KName /\ tval n = nm) :: parts)).
      apply lex_pjoin; [apply ignorable_space|discriminate|].
      constructor; [apply kw_lexok; assumption|]. constructor; [|assumption].
      apply name_lexok; [assumption|]. intros t Hk Ht. exists t. auto.
  Qed.

  Lemma header_nonempty ext K nm l : valid_name (str_of_string K) ->
    p_join (kw ext K :: nm :: l) (lit " ") <> [].
  Proof.
    intros HK. rewrite p_join_cons. pose proof (kw_nonempty ext K HK) as Hk.
    destruct (kw ext K) eqn:E; [contradiction|]. cbn [is_empty].
    destruct (is_empty _); discriminate.
  Qed.

  Lemma block_at_top {A B} (pr : A -> str) (Q : A -> list ptok -> Prop) (R : list ptok -> B -> Prop)
        (g : A -> B) l :
    (forall x ts, Q x ts -> R ts (g x)) ->
    Forall (fun x => pr x <> [] /\ LexP (pr x) (Q x)) l ->
    LexOK (p_block (map pr l) (c_indent cf)) (fun ts => D_opt_block R KCurlyO KCurlyC ts (map g l)).
  Proof.
    intros HQ HF. pose proof (p_block_lexp (c_indent cf) pr Q R g l Hind HQ HF [] eq_refl) as H.
    rewrite reindent_nil in H. exact H.
  Qed.

  Lemma dirs_top ds : Forall (wf_dir true) ds ->
    LexOK (pr_directives cf ds) (fun ts => D_directives true true ts (map strip_dir ds)).
  Proof. intros H. pose proof (dirs_lexp cf Hind true ds H [] eq_refl) as HL. rewrite reindent_nil in HL. exact HL. Qed.

  Definition Ptsd (d : definition) (ts : list ptok) : Prop := D_definition true fv true ts (strip_def d).

  (* with_desc for a definition whose formatted text starts with its keyword *)
  Lemma desc_wrap ext desc formatted (P : list ptok -> Prop) :
    wfd ext desc -> formatted <> [] -> LexOK formatted P ->
    LexOK (with_desc cf formatted desc ext)
          (fun ts => exists dsts rest, ts = dsts ++ rest
                      /\ D_description true dsts (option_map strip_strval desc) /\ P rest).
  Proof.
    intros [Hext Hwf] Hne HF. destruct ext.
    - rewrite (Hext eq_refl). simpl.
      apply (lexok_weaken _ P); [|assumption]. intros ts H. exists [], ts. repeat split; [constructor|assumption].
    - apply with_desc_lexok; assumption.
  Qed.

  Ltac inv_parts H :=
    repeat match type of H with
           | PartsP (_ :: _) _ =>
               let H1 := fresh "Hp" in let Hr := fresh "Hr" in
               inversion H as [|? ? ? ? ? H1 Hr]; subst; clear H; rename Hr into H
           | PartsP [] _ => inversion H; subst; clear H
           end.

  Lemma scalar_lexok ext desc n dirs l :
    wf_sdef (DScalar ext desc n dirs l) ->
    LexOK (pr_definition cf (DScalar ext desc n dirs l)) (Ptsd (DScalar ext desc n dirs l)).
  Proof.
    intros (Hd & Hn & Hdirs & Hext). cbn [pr_definition]. unfold Ptsd. cbn [strip_def].
    assert (HK : valid_name (str_of_string "scalar")) by (exists 115, (lit "calar"); repeat split; repeat constructor).
    apply (lexok_weaken _ (fun ts => exists dsts rest, ts = dsts ++ rest
              /\ D_description true dsts (option_map strip_strval desc)
              /\ (exists kws nt r, rest = kws ++ nt :: r /\ Pkw ext "scalar" kws /\ tk nt = KName
                    /\ tval nt = n_val n
                    /\ PartsP [(pr_directives cf dirs, fun ts => D_directives true true ts (map strip_dir dirs))] r))).
    - intros ts (dsts & rest & -> & HD & kws & nt & r & -> & Hkw & Hk & Ht & HP). inv_parts HP.
      rewrite app_nil_r. unfold Pkw in Hkw. destruct ext.
      + destruct Hkw as (e & k & -> & He & Hkk). destruct Hd as [Hd _]. rewrite (Hd eq_refl) in *.
        inversion HD; subst. cbn [app option_map].
        pose proof (DE_scalar true e k nt _ _ He Hkk Hk Hp) as D. unfold name_node in D. rewrite Ht in D.
        apply DD_tse; [reflexivity|]. apply D. apply map_ne. auto.
      + destruct Hkw as (k & -> & Hkk). cbn [app].
        pose proof (DT_scalar true dsts _ k nt _ _ HD Hkk Hk Hp) as D. unfold name_node in D. rewrite Ht in D.
        apply DD_tsd; [reflexivity|exact D].
    - apply desc_wrap; [assumption|apply header_nonempty; assumption|].
      apply (header_lexok ext "scalar" (n_val n)
               [(pr_directives cf dirs, fun ts => D_directives true true ts (map strip_dir dirs))]);
        try assumption.
      repeat constructor. apply dirs_top. assumption.
  Qed.

  (* kw name directives { members } *)
  Lemma blocky_lexok {A} ext K desc n dirs (pr : A -> str) (Q : A -> list ptok -> Prop)
        (R : list ptok -> A -> Prop) (g : A -> A) (members : list A) (P : list ptok -> Prop) :
    valid_name (str_of_string K) -> wfd ext desc -> valid_name (n_val n) -> Forall (wf_dir true) dirs ->
    (forall x ts, Q x ts -> R ts (g x)) ->
    Forall (fun x => pr x <> [] /\ LexP (pr x) (Q x)) members ->
    (forall dsts kws nt dts bts,
        D_description true dsts (option_map strip_strval desc) -> Pkw ext K kws -> tk nt = KName ->
        tval nt = n_val n -> D_directives true true dts (map strip_dir dirs) ->
        D_opt_block R KCurlyO KCurlyC bts (map g members) ->
        P (dsts ++ kws ++ nt :: dts ++ bts)) ->
    LexOK (with_desc cf (p_join [kw ext K; n_val n; pr_directives cf dirs;
                                 p_block (map pr members) (c_indent cf)] (lit " ")) desc ext) P.
  Proof.
    intros HK Hd Hn Hdirs HQ HM HP.
    apply (lexok_weaken _ (fun ts => exists dsts rest, ts = dsts ++ rest
              /\ D_description true dsts (option_map strip_strval desc)
              /\ (exists kws nt r, rest = kws ++ nt :: r /\ Pkw ext K kws /\ tk nt = KName
                    /\ tval nt = n_val n
                    /\ PartsP [(pr_directives cf dirs, fun ts => D_directives true true ts (map strip_dir dirs));
                               (p_block (map pr members) (c_indent cf),
                                fun ts => D_opt_block R KCurlyO KCurlyC ts (map g members))] r))).
    - intros ts (dsts & rest & -> & HD & kws & nt & r & -> & Hkw & Hk & Ht & HPp). inv_parts HPp.
      rewrite app_nil_r. apply HP; assumption.
    - apply desc_wrap; [assumption|apply header_nonempty; assumption|].
      apply (header_lexok ext K (n_val n)
               [(pr_directives cf dirs, fun ts => D_directives true true ts (map strip_dir dirs));
                (p_block (map pr members) (c_indent cf),
                 fun ts => D_opt_block R KCurlyO KCurlyC ts (map g members))]); try assumption.
      constructor; [cbn [fst snd]; apply dirs_top; assumption|].
      constructor; [cbn [fst snd]; apply (block_at_top pr Q R g); assumption|constructor].
  Qed.

  Lemma interface_lexok ext desc n dirs fields l :
    wf_sdef (DInterface ext desc n dirs fields l) -> member_desc_free (DInterface ext desc n dirs fields l) ->
    LexOK (pr_definition cf (DInterface ext desc n dirs fields l)) (Ptsd (DInterface ext desc n dirs fields l)).
  Proof.
    intros (Hd & Hn & Hdirs & Hf & Hext) Hnd. cbn [pr_definition]. unfold Ptsd. cbn [strip_def].
    apply (blocky_lexok ext "interface" desc n dirs (pr_field_def cf)
             (fun f ts => D_field_def true ts (strip_fdef f)) (D_field_def true) strip_fdef fields);
      try assumption; [exists 105, (lit "nterface"); repeat split; repeat constructor|auto| |].
    - apply Forall_forall. intros f Hfi. simpl in Hnd. rewrite Forall_forall in Hf, Hnd. apply fdef_lexp; auto.
    - intros dsts kws nt dts bts HD Hkw Hk Ht HDd HDb. unfold Pkw in Hkw. destruct ext.
      + destruct Hkw as (e & k & -> & He & Hkk). destruct Hd as [Hd _]. rewrite (Hd eq_refl) in *.
        inversion HD; subst. cbn [app option_map].
        pose proof (DE_interface true e k nt dts _ bts _ He Hkk Hk HDd HDb) as D.
        unfold name_node in D. rewrite Ht in D. apply DD_tse; [reflexivity|]. apply D.
        rewrite !map_nil_iff. auto.
      + destruct Hkw as (k & -> & Hkk). cbn [app].
        pose proof (DT_interface true dsts _ k nt dts _ bts _ HD Hkk Hk HDd HDb) as D.
        unfold name_node in D. rewrite Ht in D. apply DD_tsd; [reflexivity|exact D].
  Qed.

  Lemma enum_lexok ext desc n dirs vals l :
    wf_sdef (DEnum ext desc n dirs vals l) -> member_desc_free (DEnum ext desc n dirs vals l) ->
    LexOK (pr_definition cf (DEnum ext desc n dirs vals l)) (Ptsd (DEnum ext desc n dirs vals l)).
  Proof.
    intros (Hd & Hn & Hdirs & Hf & Hext) Hnd. cbn [pr_definition]. unfold Ptsd. cbn [strip_def].
    apply (blocky_lexok ext "enum" desc n dirs (pr_enum_value_def cf)
             (fun f ts => D_enum_value true ts (strip_evdef f)) (D_enum_value true) strip_evdef vals);
      try assumption; [exists 101, (lit "num"); repeat split; repeat constructor|auto| |].
    - apply Forall_forall. intros f Hfi. simpl in Hnd. rewrite Forall_forall in Hf, Hnd. apply evdef_lexp; auto.
    - intros dsts kws nt dts bts HD Hkw Hk Ht HDd HDb. unfold Pkw in Hkw. destruct ext.
      + destruct Hkw as (e & k & -> & He & Hkk). destruct Hd as [Hd _]. rewrite (Hd eq_refl) in *.
        inversion HD; subst. cbn [app option_map].
        pose proof (DE_enum true e k nt dts _ bts _ He Hkk Hk HDd HDb) as D.
        unfold name_node in D. rewrite Ht in D. apply DD_tse; [reflexivity|]. apply D.
        rewrite !map_nil_iff. auto.
      + destruct Hkw as (k & -> & Hkk). cbn [app].
        pose proof (DT_enum true dsts _ k nt dts _ bts _ HD Hkk Hk HDd HDb) as D.
        unfold name_node in D. rewrite Ht in D. apply DD_tsd; [reflexivity|exact D].
  Qed.

  Lemma input_lexok ext desc n dirs fields l :
    wf_sdef (DInput ext desc n dirs fields l) -> member_desc_free (DInput ext desc n dirs fields l) ->
    LexOK (pr_definition cf (DInput ext desc n dirs fields l)) (Ptsd (DInput ext desc n dirs fields l)).
  Proof.
    intros (Hd & Hn & Hdirs & Hf & Hext) Hnd. cbn [pr_definition]. unfold Ptsd. cbn [strip_def].
    apply (blocky_lexok ext "input" desc n dirs (pr_input_value_def cf)
             (fun f ts => D_input_value true ts (strip_ivdef f)) (D_input_value true) strip_ivdef fields);
      try assumption; [exists 105, (lit "nput"); repeat split; repeat constructor|auto| |].
    - apply Forall_forall. intros f Hfi. simpl in Hnd. rewrite Forall_forall in Hf, Hnd.
      apply (ivdef_lexp cf Hind); auto.
    - intros dsts kws nt dts bts HD Hkw Hk Ht HDd HDb. unfold Pkw in Hkw. destruct ext.
      + destruct Hkw as (e & k & -> & He & Hkk). destruct Hd as [Hd _]. rewrite (Hd eq_refl) in *.
        inversion HD; subst. cbn [app option_map].
        pose proof (DE_input true e k nt dts _ bts _ He Hkk Hk HDd HDb) as D.
        unfold name_node in D. rewrite Ht in D. apply DD_tse; [reflexivity|]. apply D.
        rewrite !map_nil_iff. auto.
      + destruct Hkw as (k & -> & Hkk). cbn [app].
        pose proof (DT_input true dsts _ k nt dts _ bts _ HD Hkk Hk HDd HDb) as D.
        unfold name_node in D. rewrite Ht in D. apply DD_tsd; [reflexivity|exact D].
  Qed.


  Lemma object_lexok ext desc n ifaces dirs fields l :
    wf_sdef (DObject ext desc n ifaces dirs fields l) ->
    member_desc_free (DObject ext desc n ifaces dirs fields l) ->
    LexOK (pr_definition cf (DObject ext desc n ifaces dirs fields l))
          (Ptsd (DObject ext desc n ifaces dirs fields l)).
  Proof.
    intros (Hd & Hn & Hif & Hdirs & Hf & Hext) Hnd. cbn [pr_definition]. unfold Ptsd. cbn [strip_def].
    assert (HK : valid_name (str_of_string "type")) by (exists 116, (lit "ype"); repeat split; repeat constructor).
    set (It := p_wrap (lit "implements ") (p_join (map pr_type ifaces) (lit " & ")) []).
    set (parts := [(It, fun ts => D_implements true ts (map strip_ty ifaces));
                   (pr_directives cf dirs, fun ts => D_directives true true ts (map strip_dir dirs));
                   (p_block (map (pr_field_def cf) fields) (c_indent cf),
                    fun ts => D_fields_def true ts (map strip_fdef fields))]).
    apply (lexok_weaken _ (fun ts => exists dsts rest, ts = dsts ++ rest
              /\ D_description true dsts (option_map strip_strval desc)
              /\ (exists kws nt r, rest = kws ++ nt :: r /\ Pkw ext "type" kws /\ tk nt = KName
                    /\ tval nt = n_val n /\ PartsP parts r))).
    - intros ts (dsts & rest & -> & HD & kws & nt & r & -> & Hkw & Hk & Ht & HPp). unfold parts in HPp.
      inv_parts HPp. rewrite app_nil_r. unfold Pkw in Hkw. destruct ext.
      + destruct Hkw as (e & k & -> & He & Hkk). destruct Hd as [Hd _]. rewrite (Hd eq_refl) in *.
        inversion HD; subst. cbn [app option_map].
        pose proof (DE_object true e k nt _ _ _ _ _ _ He Hkk Hk Hp Hp0 Hp1) as D.
        unfold name_node in D. rewrite Ht in D. apply DD_tse; [reflexivity|]. apply D.
        rewrite !map_nil_iff. auto.
      + destruct Hkw as (k & -> & Hkk). cbn [app].
        pose proof (DT_object true dsts _ k nt _ _ _ _ _ _ HD Hkk Hk Hp Hp0 Hp1) as D.
        unfold name_node in D. rewrite Ht in D. apply DD_tsd; [reflexivity|exact D].
    - apply desc_wrap; [assumption|apply header_nonempty; assumption|].
      apply (header_lexok ext "type" (n_val n) parts); try assumption. unfold parts.
      constructor; [cbn [fst snd]; apply implements_lexok; assumption|].
      constructor; [cbn [fst snd]; apply dirs_top; assumption|].
      constructor; [cbn [fst snd]|constructor].
      apply (block_at_top (pr_field_def cf) (fun f ts => D_field_def true ts (strip_fdef f))
               (D_field_def true) strip_fdef); [auto|].
      apply Forall_forall. intros f Hfi. simpl in Hnd. rewrite Forall_forall in Hf, Hnd. apply fdef_lexp; auto.
  Qed.

  Lemma union_lexok ext desc n dirs types l :
    wf_sdef (DUnion ext desc n dirs types l) ->
    LexOK (pr_definition cf (DUnion ext desc n dirs types l)) (Ptsd (DUnion ext desc n dirs types l)).
  Proof.
    intros (Hd & Hn & Hdirs & Hty & Hext). cbn [pr_definition]. unfold Ptsd. cbn [strip_def].
    assert (HK : valid_name (str_of_string "union")) by (exists 117, (lit "nion"); repeat split; repeat constructor).
    set (parts := [(pr_directives cf dirs, fun ts => D_directives true true ts (map strip_dir dirs));
                   (p_wrap (lit "= ") (p_join (map pr_type types) (lit " | ")) [],
                    fun ts => D_union_members true ts (map strip_ty types))]).
    apply (lexok_weaken _ (fun ts => exists dsts rest, ts = dsts ++ rest
              /\ D_description true dsts (option_map strip_strval desc)
              /\ (exists kws nt r, rest = kws ++ nt :: r /\ Pkw ext "union" kws /\ tk nt = KName
                    /\ tval nt = n_val n /\ PartsP parts r))).
    - intros ts (dsts & rest & -> & HD & kws & nt & r & -> & Hkw & Hk & Ht & HPp). unfold parts in HPp.
      inv_parts HPp. rewrite app_nil_r. unfold Pkw in Hkw. destruct ext.
      + destruct Hkw as (e & k & -> & He & Hkk). destruct Hd as [Hd _]. rewrite (Hd eq_refl) in *.
        inversion HD; subst. cbn [app option_map].
        pose proof (DE_union true e k nt _ _ _ _ He Hkk Hk Hp Hp0) as D.
        unfold name_node in D. rewrite Ht in D. apply DD_tse; [reflexivity|]. apply D.
        rewrite !map_nil_iff. auto.
      + destruct Hkw as (k & -> & Hkk). cbn [app].
        pose proof (DT_union true dsts _ k nt _ _ _ _ HD Hkk Hk Hp Hp0) as D.
        unfold name_node in D. rewrite Ht in D. apply DD_tsd; [reflexivity|exact D].
    - apply desc_wrap; [assumption|apply header_nonempty; assumption|].
      apply (header_lexok ext "union" (n_val n) parts); try assumption. unfold parts.
      constructor; [cbn [fst snd]; apply dirs_top; assumption|].
      constructor; [cbn [fst snd]; apply union_members_lexok; assumption|constructor].
  Qed.

  Lemma valid_name_schema : valid_name (str_of_string "schema").
  Proof. exists 115, (lit "chema"). repeat split; repeat constructor. Qed.

  Lemma schema_lexok ext dirs ots l :
    wf_sdef (DSchema ext dirs ots l) ->
    LexOK (pr_definition cf (DSchema ext dirs ots l)) (Ptsd (DSchema ext dirs ots l)).
  Proof.
    intros (Hdirs & Hots & Hext). cbn [pr_definition]. unfold Ptsd. cbn [strip_def].
    set (parts := [(kw ext "schema", Pkw ext "schema");
                   (pr_directives cf dirs, fun ts => D_directives true true ts (map strip_dir dirs));
                   (p_block (map pr_op_type_def ots) (c_indent cf),
                    fun ts => D_opt_block (D_op_type_def true) KCurlyO KCurlyC ts (map strip_otdef ots))]).
    apply (lexok_weaken _ (PartsP parts)).
    - intros ts HPp. unfold parts in HPp. inv_parts HPp. rewrite app_nil_r. unfold Pkw in Hp. destruct ext.
      + destruct Hp as (e & k & -> & He & Hkk). cbn [app].
        apply DD_tse; [reflexivity|].
        apply (DE_schema true e k _ _ _ _ He Hkk Hp0).
        * inversion Hp1 as [|o body cl xs Ho Hc HL Hne]; subst; [constructor|].
          apply DOots_some. constructor; assumption.
        * rewrite !map_nil_iff. assumption.
      + destruct Hp as (k & -> & Hkk). cbn [app]. apply DD_tsd; [reflexivity|].
        apply (DT_schema true k _ _ _ _ Hkk Hp0).
        inversion Hp1 as [Hnil|o body cl xs Ho Hc HL Hne]; subst.
        * exfalso. apply Hext. apply map_nil_iff with (f := strip_otdef). symmetry. assumption.
        * constructor; assumption.
    - change [kw ext "schema"; pr_directives cf dirs; p_block (map pr_op_type_def ots) (c_indent cf)]
        with (map fst parts).
      apply lex_pjoin; [apply ignorable_space|discriminate|]. unfold parts.
      constructor; [cbn [fst snd]; apply kw_lexok; apply valid_name_schema|].
      constructor; [cbn [fst snd]; apply dirs_top; assumption|].
      constructor; [cbn [fst snd]|constructor].
      apply (block_at_top pr_op_type_def (fun o ts => D_op_type_def true ts (strip_otdef o))
               (D_op_type_def true) strip_otdef); [auto|].
      apply Forall_forall. intros o Ho. rewrite Forall_forall in Hots. apply otdef_lexp. auto.
  Qed.

  Lemma location_valid_name l : wf_location l -> valid_name (n_val l).
  Proof.
    unfold wf_location. intros H. simpl in H.
    repeat (destruct H as [<-|H]; [eexists _, _; split; [reflexivity|]; split; [reflexivity|repeat constructor]|]).
    contradiction.
  Qed.

  Lemma directive_def_lexok desc n args locs l :
    wf_sdef (DDirective desc n args locs l) -> member_desc_free (DDirective desc n args locs l) ->
    LexOK (pr_definition cf (DDirective desc n args locs l)) (Ptsd (DDirective desc n args locs l)).
  Proof.
    intros (Hd & Hn & Hargs & Hlne & Hlocs) Hnd. cbn [pr_definition]. unfold Ptsd. cbn [strip_def].
    rewrite p_join_nil_sep. cbn [concat]. rewrite app_nil_r.
    assert (HL : LexOK (p_join (map n_val locs) (lit " | "))
                   (fun ts => D_sep_list (D_directive_location true) KPipe ts (map strip_name locs))).
    { change (lit " | ") with [32; 124; 32].
      rewrite p_join_nonempty.
      2: { intros x Hx. apply in_map_iff in Hx. destruct Hx as (t & <- & Ht). rewrite Forall_forall in Hlocs.
           apply valid_name_ne. apply location_valid_name. auto. }
      apply (lex_sep_joined 124 KPipe n_val
               (fun x ts => exists t, ts = [t] /\ tk t = KName /\ tval t = n_val x /\ wf_location x)
               (D_directive_location true) strip_name); try reflexivity; try discriminate; try assumption.
      - intros x ts (t & -> & Hk & Ht & Hw).
        pose proof (DDl true t Hk) as D. unfold name_node in D. rewrite Ht in D. apply D. exact Hw.
      - apply Forall_forall. intros x Hx. rewrite Forall_forall in Hlocs.
        apply name_lexok; [apply location_valid_name; auto|]. intros t Hk Ht. exists t. auto. }
    pose proof (argdefs_lexp cf Hind args Hargs Hnd [] eq_refl) as HA. rewrite reindent_nil in HA.
    assert (HAv : forall rest, vrest_ok rest -> vrest_ok (pr_arg_defs cf args ++ rest)).
    { intros rest Hr. pose proof (argdefs_head_ok cf [] args rest Hr) as H. rewrite reindent_nil in H. exact H. }
    set (Q := fun ts => exists k a nt ats o lts, ts = k :: a :: nt :: ats ++ o :: lts
                /\ is_word "directive" k /\ tk a = KAt /\ tk nt = KName /\ tval nt = n_val n
                /\ D_args_def true ats (map strip_ivdef args) /\ is_word "on" o
                /\ D_sep_list (D_directive_location true) KPipe lts (map strip_name locs)).
    apply (lexok_weaken _ (fun ts => exists dsts rest, ts = dsts ++ rest
              /\ D_description true dsts (option_map strip_strval desc) /\ Q rest)).
    - intros ts (dsts & rest & -> & HD & k & a & nt & ats & o & lts & -> & Hk & Ha & Hkn & Ht & HDa & Ho & HDl).
      pose proof (DT_directive true dsts _ k a nt ats _ o [] lts _ HD Hk Ha Hkn HDa Ho (DLead_none KPipe) HDl) as D.
      unfold name_node in D. rewrite Ht in D. apply DD_tsd; [reflexivity|exact D].
    - apply with_desc_lexok; [assumption|assumption|assumption|discriminate|].
      change (lit "directive @") with (str_of_string "directive" ++ [32] ++ [64]).
      change (lit " on ") with ([32] ++ lit "on" ++ [32]).
      rewrite <- !app_assoc.
      apply (lexok_weaken _ (fun ts => exists k xs, ts = k :: xs /\ tk k = KName /\ tval k = str_of_string "directive" /\
                (exists a nt ats o lts, xs = a :: nt :: ats ++ o :: lts /\ tk a = KAt /\ tk nt = KName
                   /\ tval nt = n_val n /\ D_args_def true ats (map strip_ivdef args) /\ is_word "on" o
                   /\ D_sep_list (D_directive_location true) KPipe lts (map strip_name locs)))).
      + intros ts (k & xs & -> & Hk & Htk & a & nt & ats & o & lts & -> & H1 & H2 & H3 & H4 & H5 & H6).
        unfold Q. exists k, a, nt, ats, o, lts. repeat split; auto; apply H5.
      + apply name_then; [exists 100, (lit "irective"); repeat split; repeat constructor| |].
        * apply lexok_lead; [repeat constructor|]. cbn [app].
          apply (lexok_symbol_app 64 KAt _ (fun ts => exists nt ats o lts, ts = nt :: ats ++ o :: lts
                    /\ tk nt = KName /\ tval nt = n_val n /\ D_args_def true ats (map strip_ivdef args)
                    /\ is_word "on" o
                    /\ D_sep_list (D_directive_location true) KPipe lts (map strip_name locs)));
            [reflexivity|discriminate| |].
          -- apply (lexok_weaken _ (fun ts => exists nt xs, ts = nt :: xs /\ tk nt = KName /\ tval nt = n_val n /\
                       (exists ats o lts, xs = ats ++ o :: lts /\ D_args_def true ats (map strip_ivdef args)
                          /\ is_word "on" o
                          /\ D_sep_list (D_directive_location true) KPipe lts (map strip_name locs)))).
             ++ intros ts (nt & xs & -> & Hk & Ht & ats & o & lts & -> & H). exists nt, ats, o, lts. tauto.
             ++ apply name_then; [assumption| |].
                ** apply (lexok_app _ _ (fun ts => D_args_def true ts (map strip_ivdef args))
                           (fun ts => exists o lts, ts = o :: lts /\ is_word "on" o
                              /\ D_sep_list (D_directive_location true) KPipe lts (map strip_name locs))).
                   --- exact HA.
                   --- change (32 :: lit "on" ++ 32 :: ?x) with ([32] ++ lit "on" ++ [32] ++ x).
                       apply lexok_lead; [repeat constructor|].
                       apply (lexok_weaken _ (fun ts => exists o xs, ts = o :: xs /\ tk o = KName /\ tval o = lit "on"
                                /\ D_sep_list (D_directive_location true) KPipe xs (map strip_name locs))).
                       +++ intros ts (o & xs & -> & Hk & Ht & H). exists o, xs. unfold is_word. auto.
                       +++ apply name_then; [apply valid_name_on| |].
                           *** apply lexok_lead; [repeat constructor|exact HL].
                           *** intros rest _. apply vrest_sym. auto.
                   --- intros rest _. apply vrest_sym. auto.
                   --- intros ts1 ts2 H1 (o & lts & -> & H2). exists ts1, o, lts. tauto.
                ** intros rest Hr. rewrite <- app_assoc. apply HAv. apply vrest_sym. auto.
          -- intros tok ts Hk (nt & ats & o & lts & -> & H). exists tok, nt, ats, o, lts. tauto.
        * intros rest _. apply vrest_sym. auto.
  Qed.

  (* every type-system definition / extension *)
  Lemma sdef_lexok d : wf_sdef d -> member_desc_free d -> LexOK (pr_definition cf d) (Ptsd d).
  Proof.
    intros Hwf Hnd. destruct d; try contradiction.
    - apply schema_lexok; assumption.
    - apply scalar_lexok; assumption.
    - apply object_lexok; assumption.
    - apply interface_lexok; assumption.
    - apply union_lexok; assumption.
    - apply enum_lexok; assumption.
    - apply input_lexok; assumption.
    - apply directive_def_lexok; assumption.
  Qed.

End TypeSystem.

(* ------------------------------------------------------------------ documents *)
Lemma word_not_curly w t : is_word w t -> tk t <> KCurlyO.
Proof. intros [H _]. rewrite H. discriminate. Qed.

Lemma optype_not_curly t k : D_operation_type t k -> tk t <> KCurlyO.
Proof. intros H. destruct H as [t H|t H|t H]; apply (word_not_curly _ _ H). Qed.

Lemma desc_head_not_curly dsts desc k r :
  D_description true dsts desc -> tk k <> KCurlyO -> ~ starts_with_curly (dsts ++ k :: r).
Proof.
  intros HD Hk (t & r' & E & Ht). destruct HD as [|s Hs|s Hs]; simpl in E; inversion E; subst; congruence.
Qed.

Definition shorthand_shaped (d : definition) : Prop :=
  exists l sels l', d = DOperation OpQuery None [] [] l sels l'.

(* tokens of a definition that start with a curly brace are a shorthand query *)
Lemma curly_shorthand fv ts d :
  D_definition true fv true ts d -> starts_with_curly ts -> shorthand_shaped d.
Proof.
  intros HD Hc. destruct HD as [ts d Hex|ts d _ Htsd|ts d _ Htse].
  - destruct Hex as [ts d Hop|ts d Hfr].
    + destruct Hop as [ts sels l HS|k kind nts nm vdts vds dts dirs ssts sels ssl Hk].
      * eexists _, _, _. reflexivity.
      * exfalso. destruct Hc as (t & r & E & Ht). inversion E; subst. apply (optype_not_curly _ _ Hk Ht).
    + exfalso. destruct Hfr as [f n vdts vds o tcn dts dirs ssts sels ssl Hf].
      destruct Hc as (t & r & E & Ht). inversion E; subst. apply (word_not_curly _ _ Hf Ht).
  - exfalso. destruct Htsd;
      try (match goal with Hd : D_description true _ _, Hw : is_word _ ?k |- _ =>
             apply (desc_head_not_curly _ _ k _ Hd (word_not_curly _ _ Hw) Hc) end).
    destruct Hc as (t & r & E & Ht). inversion E; subst.
    match goal with Hw : is_word _ t |- _ => apply (word_not_curly _ _ Hw Ht) end.
  - exfalso. destruct Htse; destruct Hc as (t & r & E & Ht); inversion E; subst;
      match goal with Hw : is_word "extend" t |- _ => apply (word_not_curly _ _ Hw Ht) end.
Qed.

Lemma D_definition_ne fv ts d : D_definition true fv true ts d -> ts <> [].
Proof.
  intros HD. destruct HD as [ts d Hex|ts d _ Htsd|ts d _ Htse].
  - destruct Hex as [ts d Hop|ts d Hfr].
    + destruct Hop as [ts sels l HS|]; [destruct HS|]; discriminate.
    + destruct Hfr. discriminate.
  - destruct Htsd; try discriminate;
      intros Hnil; apply app_eq_nil in Hnil; destruct Hnil; discriminate.
  - destruct Htse; discriminate.
Qed.

(* a text starting with a brace lexes to tokens starting with a curly *)
Lemma brace_text_curly_tokens t (P : list ptok -> Prop) :
  starts_brace t = true -> LexOK t P -> LexOK t (fun ts => P ts /\ (ts <> [] -> starts_with_curly ts)).
Proof.
  intros Hb HL rest pos Hr. destruct (HL rest pos Hr) as (ts & pos' & HP & Hlen & Hlex).
  exists ts, pos'. split; [|auto]. split; [assumption|]. intros Hne.
  destruct t as [|c t0]; [discriminate|]. simpl in Hb. apply N.eqb_eq in Hb. subst c.
  destruct ts as [|tok ts']; [contradiction|]. specialize (Hlex 0%nat).
  cbn [length plus app] in Hlex. rewrite (lex_symbol 123 KCurlyO) in Hlex by (reflexivity || discriminate).
  cbn [map app] in Hlex. inversion Hlex; subst. eexists _, _. split; reflexivity.
Qed.

Lemma strip_shorthand d : shorthand_shaped (strip_def d) -> shorthand_shaped d.
Proof.
  intros (l & sels & l' & E). destruct d; simpl in E; try discriminate. inversion E; subst.
  destruct n; [discriminate|]. destruct vds; [|discriminate]. destruct dirs; [|discriminate].
  eexists _, _, _. reflexivity.
Qed.

(* ---- last characters: a definition without a block does not end with a closing brace ---- *)
Lemma p_join_last_in l sep d : p_join l sep <> [] ->
  exists x, In x l /\ x <> [] /\ last (p_join l sep) d = last x d.
Proof.
  induction l as [|t l IH]; intros Hne; [contradiction|]. rewrite p_join_cons in *.
  destruct t as [|c t'].
  - simpl in *. destruct (IH Hne) as (x & Hx & Hxn & E). exists x. auto.
  - cbn [is_empty] in *. destruct (is_empty (p_join l sep)) eqn:Ee.
    + exists (c :: t'). split; [left; reflexivity|]. split; [discriminate|reflexivity].
    + assert (HJ : p_join l sep <> []) by (intros H; rewrite H in Ee; discriminate).
      destruct (IH HJ) as (x & Hx & Hxn & E). exists x. split; [right; assumption|]. split; [assumption|].
      rewrite app_assoc, last_app_ne by assumption. assumption.
Qed.

Lemma last_in {A} (l : list A) d : l <> [] -> In (last l d) l.
Proof.
  induction l as [|x l IH]; intros H; [contradiction|]. destruct l as [|y l']; [left; reflexivity|].
  right. apply IH. discriminate.
Qed.

Lemma name_cont_not_brace c : is_name_cont c = true -> c <> 125.
Proof.
  unfold is_name_cont, is_letter, is_digit. intros H Hc. subst. discriminate.
Qed.

Lemma name_last nm d : valid_name nm -> last nm d <> 125.
Proof.
  intros (c & r & -> & Hc & Hr). pose proof (last_in (c :: r) d ltac:(discriminate)) as Hin.
  destruct Hin as [E|Hin].
  - rewrite <- E. apply name_cont_not_brace. unfold is_name_cont. unfold is_name_start in Hc. rewrite Hc. reflexivity.
  - rewrite Forall_forall in Hr. apply name_cont_not_brace. apply Hr. assumption.
Qed.

Lemma dir_last cf cst d x : wf_dir cst d -> last (pr_directive cf d) x <> 125.
Proof.
  intros [Hn _]. unfold pr_directive, pr_arguments, p_wrap.
  destruct (is_empty _).
  - rewrite app_nil_r. rewrite last_app_ne by (apply valid_name_ne; assumption). apply name_last. assumption.
  - rewrite !app_assoc. change (lit ")") with [41]. rewrite last_last. discriminate.
Qed.

Lemma dirs_last cf cst ds : Forall (wf_dir cst) ds -> pr_directives cf ds <> [] ->
  last (pr_directives cf ds) 0 <> 125.
Proof.
  intros Hwf Hne. unfold pr_directives in *. destruct (p_join_last_in _ _ 0 Hne) as (x & Hx & _ & E).
  rewrite E. apply in_map_iff in Hx. destruct Hx as (d & <- & Hd). rewrite Forall_forall in Hwf.
  apply (dir_last cf cst d 0). auto.
Qed.

Lemma named_join_last tys sep : Forall wf_named tys -> p_join (map pr_type tys) sep <> [] ->
  last (p_join (map pr_type tys) sep) 0 <> 125.
Proof.
  intros Hwf Hne. destruct (p_join_last_in _ _ 0 Hne) as (x & Hx & _ & E). rewrite E.
  apply in_map_iff in Hx. destruct Hx as (t & <- & Ht). rewrite Forall_forall in Hwf. specialize (Hwf t Ht).
  destruct t; try contradiction. apply name_last. assumption.
Qed.

Lemma kw_last ext K : valid_name (str_of_string K) -> last (kw ext K) 0 <> 125.
Proof.
  intros HK. unfold kw. destruct ext; [|apply name_last; assumption].
  rewrite last_app_ne by (apply valid_name_ne; assumption). apply name_last. assumption.
Qed.

Lemma with_desc_last cf F desc ext : F <> [] -> last (with_desc cf F desc ext) 0 = last F 0.
Proof.
  intros HF. unfold with_desc. destruct desc as [d|]; [|reflexivity].
  destruct (c_desc cf && negb ext); [|reflexivity].
  rewrite p_join_cons. destruct (is_empty _); [rewrite p_join_cons|].
  - destruct F; [contradiction|]. reflexivity.
  - rewrite p_join_cons. destruct F as [|c F']; [contradiction|]. cbn [is_empty p_join filter join_ne].
    rewrite app_assoc, last_app_ne by discriminate. reflexivity.
Qed.

Section Blockless.
  Variable cf : cfg.

  Lemma wrapped_last a s : s <> [] -> last s 0 <> 125 -> last (p_wrap a s []) 0 <> 125.
  Proof. intros Hs Hl. rewrite p_wrap_nonempty by assumption. rewrite app_nil_r, last_app_ne by assumption. assumption. Qed.

  Lemma header_last ext K nm (parts : list str) :
    valid_name (str_of_string K) -> valid_name nm ->
    (forall x, In x parts -> x <> [] -> last x 0 <> 125) ->
    last (p_join (kw ext K :: nm :: parts) (lit " ")) 0 <> 125.
  Proof.
    intros HK Hn Hp.
    destruct (p_join_last_in (kw ext K :: nm :: parts) (lit " ") 0) as (x & Hx & Hxn & E);
      [apply header_nonempty; assumption|].
    rewrite E. destruct Hx as [<-|[<-|Hx]]; [apply kw_last; assumption|apply name_last; assumption|auto].
  Qed.

  Lemma blockless_no_brace d : wf_sdef d -> blockless (strip_def d) ->
    ends_brace (pr_definition cf d) = false.
  Proof.
    intros Hwf Hb. unfold ends_brace. apply N.eqb_neq.
    destruct d; simpl in Hb; try contradiction.
    - (* extend schema without operation types *)
      destruct ext; [|contradiction]. destruct ots; [|contradiction]. destruct Hwf as (Hd & _ & _).
      cbn [pr_definition map]. change (p_block [] (c_indent cf)) with (@nil N).
      match goal with |- last (p_join ?l ?sep) 0 <> _ =>
        destruct (p_join_last_in l sep 0) as (x & Hx & Hxn & E) end.
      { rewrite p_join_cons. change (is_empty (kw true "schema")) with false. cbv iota.
        destruct (is_empty _); discriminate. }
      rewrite E. destruct Hx as [<-|[<-|[<-|[]]]]; [apply kw_last; apply valid_name_schema| |contradiction].
      apply (dirs_last cf true); assumption.
    - destruct fields; [|contradiction]. destruct Hwf as (_ & Hn & Hif & Hd & _).
      cbn [pr_definition map]. change (p_block [] (c_indent cf)) with (@nil N).
      rewrite with_desc_last by (apply header_nonempty; exists 116, (lit "ype"); repeat split; repeat constructor).
      apply header_last; [exists 116, (lit "ype"); repeat split; repeat constructor|assumption|].
      intros x [<-|[<-|[<-|[]]]] Hx; [|apply (dirs_last cf true); assumption|contradiction].
      unfold p_wrap in *. destruct (is_empty (p_join (map pr_type ifaces) (lit " & "))) eqn:E; [contradiction|].
      rewrite app_nil_r, last_app_ne by (intros H; rewrite H in E; discriminate).
      apply named_join_last; [assumption|intros H; rewrite H in E; discriminate].
    - destruct fields; [|contradiction]. destruct Hwf as (_ & Hn & Hd & _).
      cbn [pr_definition map]. change (p_block [] (c_indent cf)) with (@nil N).
      rewrite with_desc_last by (apply header_nonempty; exists 105, (lit "nterface"); repeat split; repeat constructor).
      apply header_last; [exists 105, (lit "nterface"); repeat split; repeat constructor|assumption|].
      intros x [<-|[<-|[]]] Hx; [apply (dirs_last cf true); assumption|contradiction].
    - destruct vals; [|contradiction]. destruct Hwf as (_ & Hn & Hd & _).
      cbn [pr_definition map]. change (p_block [] (c_indent cf)) with (@nil N).
      rewrite with_desc_last by (apply header_nonempty; exists 101, (lit "num"); repeat split; repeat constructor).
      apply header_last; [exists 101, (lit "num"); repeat split; repeat constructor|assumption|].
      intros x [<-|[<-|[]]] Hx; [apply (dirs_last cf true); assumption|contradiction].
    - destruct fields; [|contradiction]. destruct Hwf as (_ & Hn & Hd & _).
      cbn [pr_definition map]. change (p_block [] (c_indent cf)) with (@nil N).
      rewrite with_desc_last by (apply header_nonempty; exists 105, (lit "nput"); repeat split; repeat constructor).
      apply header_last; [exists 105, (lit "nput"); repeat split; repeat constructor|assumption|].
      intros x [<-|[<-|[]]] Hx; [apply (dirs_last cf true); assumption|contradiction].
  Qed.
End Blockless.

Section Document.
  Variable cf : cfg.
  Hypothesis Hind : all_ws (c_indent cf).
  Hypothesis Hdesc : c_desc cf = true.
  Variable fv : bool.

  Definition wf_fulldef (d : definition) : Prop :=
    match d with
    | DOperation _ _ _ _ _ _ _ | DFragment _ _ _ _ _ _ _ => wf_def fv d
    | _ => wf_sdef d /\ member_desc_free d
    end.

  Definition PD (d : definition) (ts : list ptok) : Prop := D_definition true fv true ts (strip_def d).

  Lemma anydef_lexok d : wf_fulldef d -> LexOK (pr_definition cf d) (PD d).
  Proof.
    intros Hwf. unfold PD.
    assert (Hex : wf_def fv d -> LexOK (pr_definition cf d) (fun ts => D_definition true fv true ts (strip_def d))).
    { intros H. pose proof (def_lexp cf Hind fv d H [] eq_refl) as HL. rewrite reindent_nil in HL.
      apply (lexok_weaken _ _ _ (fun ts Hd => DD_exec true fv true ts _ Hd) HL). }
    destruct d; try (apply Hex; exact Hwf); destruct Hwf as [Hw Hn]; apply (sdef_lexok cf Hind Hdesc fv); assumption.
  Qed.

  Lemma shorthand_text l sels l' : sels <> [] ->
    pr_definition cf (DOperation OpQuery None [] [] l sels l') = pr_selection_set cf sels
    /\ starts_brace (pr_selection_set cf sels) = true.
  Proof.
    intros Hne. split; [reflexivity|]. unfold pr_selection_set, p_block.
    destruct (map (pr_selection cf) sels) eqn:E; [destruct sels; [contradiction|discriminate]|]. reflexivity.
  Qed.

  (* what the tokens of a printed definition tell about the tree *)
  Lemma tokens_curly_shape d : wf_fulldef d -> starts_brace (pr_definition cf d) = true -> shorthand_shaped d.
  Proof.
    intros Hwf Hb.
    pose proof (brace_text_curly_tokens _ _ Hb (anydef_lexok d Hwf)) as HL.
    destruct (HL [] 0%nat I) as (ts & _ & [HD Hc] & _ & _).
    apply strip_shorthand. eapply curly_shorthand; [exact HD|]. apply Hc. eapply D_definition_ne. exact HD.
  Qed.

  Definition printed (prev : option str) (d : definition) : str :=
    let t := pr_definition cf d in
    if starts_brace t && match prev with Some p => negb (ends_brace p) | None => false end
    then lit "query " ++ t else t.

  Lemma valid_name_query : valid_name (str_of_string "query").
  Proof. exists 113, (lit "uery"). repeat split; repeat constructor. Qed.

  Lemma printed_lexok prev d : wf_fulldef d ->
    LexOK (printed prev d)
          (fun ts => PD d ts /\ (starts_with_curly ts -> starts_brace (printed prev d) = true)).
  Proof.
    intros Hwf. unfold printed. cbv zeta.
    assert (Hshape : forall ts, PD d ts -> starts_with_curly ts -> starts_brace (pr_definition cf d) = true).
    { intros ts HD Hc. pose proof (strip_shorthand d (curly_shorthand fv ts _ HD Hc)) as (l & sels & l' & ->).
      destruct Hwf as (_ & _ & _ & Hne & _). destruct (shorthand_text l sels l' Hne) as [E1 E2].
      rewrite E1. exact E2. }
    destruct (starts_brace (pr_definition cf d) && match prev with Some p => negb (ends_brace p) | None => false end) eqn:Er.
    - apply andb_prop in Er. destruct Er as [Eb _].
      destruct (tokens_curly_shape d Hwf Eb) as (l & sels & l' & ->).
      destruct Hwf as (_ & _ & _ & Hne & Hsels). destruct (shorthand_text l sels l' Hne) as [E1 E2]. rewrite E1.
      pose proof (selset_DSS cf Hind sels Hne Hsels [] eq_refl) as HS. rewrite reindent_nil in HS.
      change (lit "query ") with (str_of_string "query" ++ [32]). rewrite <- app_assoc.
      apply (lexok_weaken _ (fun ts => exists k xs, ts = k :: xs /\ tk k = KName /\ tval k = str_of_string "query"
                                /\ D_selection_set true xs (map strip_sel sels) None)).
      + intros ts (k & xs & -> & Hk & Ht & HD). split.
        * unfold PD. cbn [strip_def option_map map]. apply DD_exec. apply DEx_operation.
          apply (DOp_full true k OpQuery [] None [] [] [] [] xs _ None);
            [constructor; split; assumption|constructor|constructor|constructor|exact HD].
        * intros (t & r & E & Htk). inversion E; subst. rewrite Hk in Htk. discriminate.
      + apply name_then; [apply valid_name_query| |].
        * apply lexok_lead; [repeat constructor|exact HS].
        * intros rest _. apply vrest_sym. auto.
    - apply (lexok_weaken _ (PD d)); [|apply anydef_lexok; assumption].
      intros ts HD. split; [assumption|]. intros Hc. apply (Hshape ts HD Hc).
  Qed.

  Lemma printed_nonempty prev d : wf_fulldef d -> printed prev d <> [].
  Proof.
    intros Hwf H. destruct (printed_lexok prev d Hwf [] 0%nat I) as (ts & _ & [HD _] & Hlen & _).
    rewrite H in Hlen. apply (D_definition_ne _ _ _ HD). destruct ts; [reflexivity|simpl in Hlen; lia].
  Qed.

  Lemma pr_defs_cons prev d ds :
    pr_defs cf prev (d :: ds) = printed prev d :: pr_defs cf (Some (printed prev d)) ds.
  Proof. reflexivity. Qed.

  Lemma sdl_text_no_brace d : wf_fulldef d -> blockless (strip_def d) ->
    starts_brace (pr_definition cf d) = false /\ ends_brace (pr_definition cf d) = false.
  Proof.
    intros Hwf Hb. split.
    - destruct (starts_brace (pr_definition cf d)) eqn:E; [|reflexivity].
      destruct (tokens_curly_shape d Hwf E) as (l & sels & l' & ->). simpl in Hb. contradiction.
    - destruct d; simpl in Hb; try contradiction; destruct Hwf as [Hw _]; apply blockless_no_brace; assumption.
  Qed.

  Lemma query_prefix_no_brace t : starts_brace (lit "query " ++ t) = false.
  Proof. reflexivity. Qed.

  Lemma defs_lexok : forall ds prev, Forall wf_fulldef ds ->
    LexOK (p_join (pr_defs cf prev ds) [PrinterModel.LF; PrinterModel.LF])
          (fun ts => D_definitions_la true fv true ts (map strip_def ds)
                     /\ (starts_with_curly ts -> exists t r, pr_defs cf prev ds = t :: r /\ starts_brace t = true)).
  Proof.
    induction ds as [|d ds IH]; intros prev HF.
    - simpl. apply lexok_nil. split; [constructor|]. intros (t & r & E & _). discriminate.
    - inversion HF as [|? ? Hd Hds]; subst. rewrite pr_defs_cons.
      pose proof (printed_lexok prev d Hd) as H1. pose proof (printed_nonempty prev d Hd) as Hne.
      set (t' := printed prev d) in *. rewrite p_join_cons.
      destruct (is_empty t') eqn:Et; [destruct t'; [contradiction|discriminate]|].
      specialize (IH (Some t') Hds).
      destruct ds as [|d2 ds2].
      + cbn [pr_defs map]. change (p_join [] [PrinterModel.LF; PrinterModel.LF]) with (@nil N). cbn [is_empty].
        eapply lexok_weaken; [|exact H1]. intros ts [HD Hc]. split.
        * rewrite <- (app_nil_r ts). apply DDl_cons; [exact HD| |constructor].
          intros _ (t & r & E & _). discriminate.
        * intros Hcur. exists t', []. split; [reflexivity|auto].
      + set (J := p_join (pr_defs cf (Some t') (d2 :: ds2)) [PrinterModel.LF; PrinterModel.LF]) in *.
        assert (HJ : is_empty J = false).
        { unfold J. rewrite pr_defs_cons, p_join_cons.
          inversion Hds as [|? ? Hd2 _]; subst. pose proof (printed_nonempty (Some t') d2 Hd2) as Hn2.
          destruct (printed (Some t') d2) eqn:E2; [contradiction|]. cbn [is_empty].
          match goal with |- is_empty (if ?b then _ else _) = false => destruct b end; reflexivity. }
        rewrite HJ.
        eapply (lexok_app t' ([PrinterModel.LF; PrinterModel.LF] ++ J) _ _ _ H1).
        * apply lexok_lead; [repeat constructor|exact IH].
        * intros rest _. apply vrest_sym. auto.
        * intros ts1 ts2 [HD1 Hc1] [HD2 Hc2]. split.
          -- cbn [map]. apply DDl_cons; [exact HD1| |exact HD2].
             intros Hb Hcur. destruct (Hc2 Hcur) as (t2 & r2 & E2 & Hb2).
             rewrite pr_defs_cons in E2. inversion E2; subst t2 r2. clear E2.
             destruct (sdl_text_no_brace d Hd Hb) as [Hs He].
             assert (Et' : t' = pr_definition cf d).
             { unfold t', printed. cbv zeta. rewrite Hs. reflexivity. }
             unfold printed in Hb2. cbv zeta in Hb2. rewrite Et', He in Hb2. cbn [negb] in Hb2.
             rewrite andb_true_r in Hb2.
             destruct (starts_brace (pr_definition cf d2)) eqn:E3;
               [rewrite query_prefix_no_brace in Hb2; discriminate|congruence].
          -- intros Hcur. exists t', (pr_defs cf (Some t') (d2 :: ds2)). split; [reflexivity|].
             apply Hc1. destruct Hcur as (t & r & E & Ht).
             pose proof (D_definition_ne _ _ _ HD1) as Hn1. destruct ts1 as [|a ts1']; [contradiction|].
             inversion E; subst. exists t, ts1'. auto.
  Qed.
End Document.

Definition wf_doc (fv : bool) (d : document) : Prop :=
  doc_defs d <> [] /\ Forall (wf_fulldef fv) (doc_defs d).

Theorem sdl_roundtrip fl ind d :
  no_location fl = true -> allow_type_system fl = true -> all_ws ind ->
  wf_doc (fragment_variables fl) d ->
  parse_document fl (print_ast ind true d) = Ok (strip_doc d).
Proof.
  intros Hnl Hts Hind [Hne Hwf]. set (cf := Cfg ind true). set (fv := fragment_variables fl) in *.
  assert (Hind' : all_ws (c_indent cf)) by exact Hind.
  unfold print_ast, pr_document. fold cf.
  pose proof (defs_lexok cf Hind' eq_refl fv (doc_defs d) None Hwf) as HL0.
  assert (HL : LexOK (p_join (pr_defs cf None (doc_defs d)) [PrinterModel.LF; PrinterModel.LF] ++ [PrinterModel.LF])
                     (fun ts => D_definitions_la true fv true ts (map strip_def (doc_defs d)))).
  { apply lexok_trail; [repeat constructor|]. apply (lexok_weaken _ _ _ (fun ts H => proj1 H) HL0). }
  destruct (HL [] 0%nat I) as (ts & pos' & HD & Hlen & Hlex).
  set (text := p_join (pr_defs cf None (doc_defs d)) [PrinterModel.LF; PrinterModel.LF] ++ [PrinterModel.LF]) in *.
  set (eof := PTok KEOF [] pos' pos').
  apply (parse_document_complete_full fl text (PTok KSOF [] 0 0 :: ts ++ [eof])).
  - unfold lex, lex_stream, lex_fuel. cbn [collect].
    replace (S (length text)) with (length ts + S (length text - length ts))%nat by lia.
    rewrite <- (app_nil_r text) at 2. rewrite Hlex.
    cbn [lex_from skip_ws next_token]. unfold is_kind. simpl tkind_eqb.
    rewrite collect_map. simpl. reflexivity.
  - rewrite Hnl, Hts. fold fv. unfold strip_doc.
    apply (DDocument_la true fv true (PTok KSOF [] 0 0) ts eof _ eq_refl eq_refl HD).
    destruct (doc_defs d); [contradiction|discriminate].
Qed.
