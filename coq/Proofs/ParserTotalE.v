(* Proofs/ParserTotal.v over Proofs/ParserFrameworkE.v (admissible rejections abstracted).
   Every production of the parser model satisfies the invariant of
   Proofs/ParserFramework.v; consequences: totality (no crash, fuel suffices),
   error positions, and a predicate [phi] holding of every loc in the tree. *)
From PyGql Require Import Lang.Parser Spec.LocSpec Proofs.LexTotal Proofs.ParserFrameworkE.

Section Total.
Variable N : nat.
Variable T : nat -> nat -> Prop.
Hypothesis HE : forall k p, p <= N -> k = E_UnexpectedToken \/ k = E_UnexpectedEOF -> T k p.
Variable fl : flags.
Variable phi : loc -> Prop.
Hypothesis Hphi : forall t e, tok_ok N t -> e <= N ->
  phi (if no_location fl then None else Some (tstart t, e)).

Notation q_name := (q_name phi).
Notation q_ty := (q_ty phi).
Notation q_value := (q_value phi).
Notation q_arg := (q_arg phi).
Notation q_dir := (q_dir phi).
Notation q_sel := (q_sel phi).
Notation q_selset := (q_selset phi).
Notation q_var := (q_var phi).
Notation q_vardef := (q_vardef phi).
Notation q_strval := (q_strval phi).
Notation q_ivdef := (q_ivdef phi).
Notation q_fdef := (q_fdef phi).
Notation q_evdef := (q_evdef phi).
Notation q_otdef := (q_otdef phi).
Notation q_def := (q_def phi).
Notation q_doc := (q_doc phi).

Notation pgood := (pgoodP N T (fun _ => True)).
Notation qtrue := (fun _ => True).

(* ---- automation ---- *)
Ltac pg_q :=
  try exact I;
  repeat match goal with
         | H : _ /\ _ |- _ => destruct H
         end;
  unfold q_var, q_name, q_arg, q_dir, q_selset, q_vardef, q_strval, q_ivdef, q_fdef, q_evdef,
         q_otdef, q_doc, q_def, q_opt in *; simpl in *;
  repeat match goal with
         | H : _ /\ _ |- _ => destruct H
         end;
  first [ assumption
        | solve [repeat (first [assumption | exact I | split | constructor])] ].

Ltac pg_side := first [ assumption | lia | (apply tok_ok_start; assumption) ].

Create HintDb pgdb discriminated.

Ltac pg_known :=
  first [ apply (pg_peek N T HE) | apply (pg_advance N T HE) | apply (pg_expect N T HE) | apply (pg_expect_keyword N T HE) | apply (pg_skip N T HE)
        | (apply (pg_get_loc N T fl phi Hphi); assumption)
        | solve [eauto 4 with pgdb] ].

Ltac pg_leaf :=
  first [ (apply pg_ret; pg_q)
        | (apply (pg_err N T HE); [pg_side|first [left; reflexivity|right; reflexivity]])
        | (apply (pg_unexpected N T HE); pg_side)
        | pg_known
        | (apply pg_weaken; pg_known)
        | (apply pg_true; first [pg_known | apply pg_weaken; pg_known]) ].

Ltac pg :=
  lazymatch goal with
  | |- pgoodP _ _ _ _ _ _ (pbind _ _) =>
      first [ eapply pg_bind_s; [ solve [pg_leaf] | intros ? ? ? ?; pg ]
            | eapply pg_bind_n; [ solve [pg_leaf] | intros ? ? ? ?; pg ] ]
  | |- pgoodP _ _ _ _ _ _ (if ?b then _ else _) => destruct b eqn:?; pg
  | |- pgoodP _ _ _ _ _ _ (match ?x with _ => _ end) => destruct x eqn:?; pg
  | |- _ => pg_leaf
  end.

Hint Extern 1 (_ < _) => lia : pgdb.
Hint Extern 1 (_ <= _) => lia : pgdb.

(* ---- names, variables, strings ---- *)
Lemma pg_parse_name m : pgood q_name true m (parse_name fl).
Proof. unfold parse_name. pg. Qed.
Hint Resolve pg_parse_name : pgdb.

Lemma pg_parse_variable m : pgood q_var true m (parse_variable fl).
Proof. unfold parse_variable. pg. Qed.
Hint Resolve pg_parse_variable : pgdb.

Lemma pg_parse_string_literal m : pgood q_strval true m (parse_string_literal fl).
Proof. unfold parse_string_literal. pg. Qed.
Hint Resolve pg_parse_string_literal : pgdb.

Definition q_objfield (f : name * value * loc) : Prop :=
  q_name (fst (fst f)) /\ q_value (snd (fst f)) /\ phi (snd f).

Lemma pg_parse_value : forall n const m, m < n -> pgood q_value true m (parse_value_literal fl n const).
Proof.
  induction n as [|n IH]; intros const m Hm; [lia|]. simpl.
  eapply pg_bind_n; [apply (pg_peek N T HE)|]. intros t m1 Ht Hm1.
  destruct (tk t) eqn:Ek; try (apply (pg_unexpected N T HE); pg_side).
  - (* variable *) pg.
  - (* list *)
    eapply pg_bind_s; [apply (pg_any N T HE q_value); [lia|intros; apply IH; lia]|].
    intros vs m2 Hvs Hm2. pg.
  - (* object *)
    eapply pg_bind_s; [apply (pg_expect N T HE)|]. intros start m2 Hst Hm2.
    eapply pg_bind_n; [apply (pg_any_loop N T HE q_objfield); [lia|]|].
    + intros m3 Hm3. unfold parse_object_field.
      eapply pg_bind_n; [apply (pg_peek N T HE)|]. intros fstart m4 Hfs Hm4.
      eapply pg_bind_s; [apply pg_parse_name|]. intros nm m5 Hnm Hm5.
      eapply pg_bind_s; [apply (pg_expect N T HE)|]. intros c m6 Hc Hm6.
      eapply pg_bind_s; [apply IH; lia|]. intros v m7 Hv Hm7.
      eapply pg_bind_n; [apply (pg_get_loc N T fl phi Hphi); assumption|]. intros l m8 Hl Hm8.
      apply pg_ret. unfold q_objfield; simpl; auto.
    + intros fs m3 Hfs Hm3. pg.
  - pg. - pg. - pg.
  - (* strings *) eapply pg_bind_s; [apply pg_parse_string_literal|]. intros sv m2 Hsv Hm2.
    apply pg_ret. constructor. exact Hsv.
  - eapply pg_bind_s; [apply pg_parse_string_literal|]. intros sv m2 Hsv Hm2.
    apply pg_ret. constructor. exact Hsv.
Qed.

Hint Resolve pg_parse_value : pgdb.

Variable n : nat.   (* the fuel handed to the productions *)

Lemma pg_parse_argument c m : m < n -> pgood q_arg true m (parse_argument fl n c).
Proof. intros. unfold parse_argument. pg. Qed.
Hint Resolve pg_parse_argument : pgdb.

Lemma pg_parse_arguments c m : m < n -> pgood (Forall q_arg) false m (parse_arguments fl n c).
Proof.
  intros. unfold parse_arguments. eapply pg_bind_n; [apply (pg_peek N T HE)|]. intros t m1 _ Hm1.
  destruct (is_kind KParenO t); [|apply pg_ret; constructor].
  apply pg_weaken. apply (pg_many N T HE); [lia|intros; apply pg_parse_argument; lia].
Qed.
Hint Resolve pg_parse_arguments : pgdb.

Lemma pg_parse_directive c m : m < n -> pgood q_dir true m (parse_directive fl n c).
Proof. intros. unfold parse_directive. pg. Qed.
Hint Resolve pg_parse_directive : pgdb.

Lemma pg_parse_directives c m : m < n -> pgood (Forall q_dir) false m (parse_directives fl n c).
Proof.
  intros. unfold parse_directives. apply (pg_while_kind N T HE); [lia|intros; apply pg_parse_directive; lia].
Qed.
Hint Resolve pg_parse_directives : pgdb.

(* ---- types ---- *)
Lemma pg_parse_named_type m : pgood q_ty true m (parse_named_type fl).
Proof. unfold parse_named_type. pg. Qed.
Hint Resolve pg_parse_named_type : pgdb.

Lemma pg_parse_type : forall k m, m < k -> pgood q_ty true m (parse_type_reference fl k).
Proof.
  induction k as [|k IH]; intros m Hm; [lia|]. simpl.
  eapply pg_bind_n; [apply (pg_peek N T HE)|]. intros start m1 Hst Hm1.
  apply (pg_skip_then N T HE).
  - intros m2 Hm2. apply pg_weaken.
    eapply pg_bind_s with (Q1 := q_ty).
    + eapply pg_bind_s; [apply IH; lia|]. intros inner m3 Hin Hm3. pg.
    + intros t m3 Ht Hm3. pg.
  - eapply pg_bind_s; [apply pg_parse_named_type|]. intros t m3 Ht Hm3. pg.
Qed.
Hint Resolve pg_parse_type : pgdb.

(* ---- selections ---- *)
Lemma pg_parse_fragment_name m : pgood q_name true m (parse_fragment_name fl).
Proof. unfold parse_fragment_name. pg. Qed.
Hint Resolve pg_parse_fragment_name : pgdb.

Section Sel.
  Variable sub : parser (list selection * loc).
  Variable m0 : nat.
  Hypothesis Hm0 : m0 < n.
  Hypothesis Hsub : forall m, m <= m0 -> pgood q_selset true m sub.

  Lemma pg_parse_field m : m <= m0 -> pgood q_sel true m (parse_field fl n sub).
  Proof.
    intros Hm. unfold parse_field.
    eapply pg_bind_n; [apply (pg_peek N T HE)|]. intros start m1 Hst Hm1.
    eapply pg_bind_s; [apply pg_parse_name|]. intros na m2 Hna Hm2.
    eapply pg_bind_n; [apply (pg_skip N T HE)|]. intros b m3 _ Hm3.
    eapply pg_bind_n with (Q1 := fun an => q_opt q_name (fst an) /\ q_name (snd an)).
    { destruct b; [|apply pg_ret; simpl; auto].
      apply pg_weaken. eapply pg_bind_s; [apply pg_parse_name|]. intros nm m4 Hnm _.
      apply pg_ret; simpl; auto. }
    intros an m4 Han Hm4.
    eapply pg_bind_n; [apply pg_parse_arguments; lia|]. intros args m5 Hargs Hm5.
    eapply pg_bind_n; [apply pg_parse_directives; lia|]. intros dirs m6 Hdirs Hm6.
    eapply pg_bind_n; [apply (pg_peek N T HE)|]. intros t m7 _ Hm7.
    eapply pg_bind_n with (Q1 := fun ss => q_opt phi (fst ss) /\ Forall q_sel (snd ss)).
    { destruct (is_kind KCurlyO t); [|apply pg_ret; simpl; auto].
      apply pg_weaken. eapply pg_bind_s; [apply Hsub; lia|]. intros x m8 [Hx1 Hx2] _.
      apply pg_ret; simpl; auto. }
    intros ss m8 [Hss1 Hss2] Hm8.
    eapply pg_bind_n; [apply (pg_get_loc N T fl phi Hphi); assumption|]. intros l m9 Hl _.
    apply pg_ret. destruct Han. constructor; assumption.
  Qed.

  Lemma pg_parse_fragment m : m <= m0 -> pgood q_sel true m (parse_fragment fl n sub).
  Proof.
    intros Hm. unfold parse_fragment.
    eapply pg_bind_n; [apply (pg_peek N T HE)|]. intros start m1 Hst Hm1.
    eapply pg_bind_s; [apply (pg_expect N T HE)|]. intros e m2 _ Hm2.
    eapply pg_bind_n; [apply (pg_peek N T HE)|]. intros lead m3 _ Hm3.
    destruct (is_kind KName lead && negb (is_kw "on" (tval lead))).
    - eapply pg_bind_s; [apply pg_parse_fragment_name|]. intros nm m4 Hnm Hm4.
      eapply pg_bind_n; [apply pg_parse_directives; lia|]. intros dirs m5 Hdirs Hm5.
      eapply pg_bind_n; [apply (pg_get_loc N T fl phi Hphi); assumption|]. intros l m6 Hl _.
      apply pg_ret. constructor; assumption.
    - eapply pg_bind_n with (Q1 := q_opt q_ty).
      { destruct (is_kind KName lead && is_kw "on" (tval lead)); [|apply pg_ret; exact I].
        apply pg_weaken. eapply pg_bind_s; [apply (pg_advance N T HE)|]. intros _ m4 _ Hm4.
        eapply pg_bind_s; [apply pg_parse_named_type|]. intros t m5 Ht _. apply pg_ret; exact Ht. }
      intros tc m4 Htc Hm4.
      eapply pg_bind_n; [apply pg_parse_directives; lia|]. intros dirs m5 Hdirs Hm5.
      eapply pg_bind_s; [apply Hsub; lia|]. intros x m6 [Hx1 Hx2] Hm6.
      eapply pg_bind_n; [apply (pg_get_loc N T fl phi Hphi); assumption|]. intros l m7 Hl _.
      apply pg_ret. constructor; assumption.
  Qed.

  Lemma pg_parse_selection m : m <= m0 -> pgood q_sel true m (parse_selection fl n sub).
  Proof.
    intros Hm. unfold parse_selection.
    eapply pg_bind_n; [apply (pg_peek N T HE)|]. intros t m1 _ Hm1.
    destruct (is_kind KEllip t); [apply pg_parse_fragment|apply pg_parse_field]; lia.
  Qed.
End Sel.

Lemma pg_parse_selection_set : forall k m, m < k -> m < n ->
  pgood q_selset true m (parse_selection_set fl n k).
Proof.
  induction k as [|k IH]; intros m Hm Hn; [lia|]. simpl.
  eapply pg_bind_n; [apply (pg_peek N T HE)|]. intros start m1 Hst Hm1.
  eapply pg_bind_s.
  { apply (pg_many N T HE q_sel); [lia|]. intros m2 Hm2.
    apply (pg_parse_selection (parse_selection_set fl n k) m2); [lia| |lia].
    intros m3 Hm3. apply IH; lia. }
  intros sels m2 Hsels Hm2.
  eapply pg_bind_n; [apply (pg_get_loc N T fl phi Hphi); assumption|]. intros l m3 Hl _.
  apply pg_ret. split; assumption.
Qed.

Lemma pg_parse_selection_set_n m : m < n -> pgood q_selset true m (parse_selection_set fl n n).
Proof. intros. apply pg_parse_selection_set; lia. Qed.
Hint Resolve pg_parse_selection_set_n : pgdb.

(* ---- executable definitions ---- *)
Lemma pg_opt_value (b : bool) m : m < n ->
  pgood (q_opt q_value) false m
    (if b then (pdo x <- parse_value_literal fl n true; pret (Some x)) else pret None).
Proof.
  intros. destruct b; [|apply pg_ret; exact I].
  apply pg_weaken. eapply pg_bind_s; [apply pg_parse_value; lia|]. intros x m1 Hx _. apply pg_ret; exact Hx.
Qed.

Lemma pg_parse_variable_definition m : m < n -> pgood q_vardef true m (parse_variable_definition fl n).
Proof.
  intros. unfold parse_variable_definition.
  eapply pg_bind_n; [apply (pg_peek N T HE)|]. intros start m1 Hst Hm1.
  eapply pg_bind_s; [apply pg_parse_variable|]. intros v m2 Hv Hm2.
  eapply pg_bind_s; [apply (pg_expect N T HE)|]. intros c m3 _ Hm3.
  eapply pg_bind_s; [apply pg_parse_type; lia|]. intros t m4 Ht Hm4.
  eapply pg_bind_n; [apply (pg_skip N T HE)|]. intros b m5 _ Hm5.
  eapply pg_bind_n; [apply pg_opt_value; lia|]. intros dv m6 Hdv Hm6.
  pg.
Qed.
Hint Resolve pg_parse_variable_definition : pgdb.

Lemma pg_parse_variable_definitions m : m < n ->
  pgood (Forall q_vardef) false m (parse_variable_definitions fl n).
Proof.
  intros. unfold parse_variable_definitions. eapply pg_bind_n; [apply (pg_peek N T HE)|]. intros t m1 _ Hm1.
  destruct (is_kind KParenO t); [|apply pg_ret; constructor].
  apply pg_weaken. apply (pg_many N T HE); [lia|intros; apply pg_parse_variable_definition; lia].
Qed.
Hint Resolve pg_parse_variable_definitions : pgdb.

Lemma pg_parse_operation_type m : pgood qtrue true m parse_operation_type.
Proof. unfold parse_operation_type. pg. Qed.
Hint Resolve pg_parse_operation_type : pgdb.

Lemma pg_parse_operation_definition m : m < n -> pgood q_def true m (parse_operation_definition fl n).
Proof.
  intros. unfold parse_operation_definition.
  eapply pg_bind_n; [apply (pg_peek N T HE)|]. intros start m1 Hst Hm1.
  destruct (is_kind KCurlyO start).
  - eapply pg_bind_s; [apply pg_parse_selection_set_n; lia|]. intros x m2 [Hx1 Hx2] Hm2.
    eapply pg_bind_n; [apply (pg_get_loc N T fl phi Hphi); assumption|]. intros l m3 Hl _.
    apply pg_ret. simpl. repeat split; auto.
  - eapply pg_bind_s; [apply pg_parse_operation_type|]. intros k m2 _ Hm2.
    eapply pg_bind_n; [apply (pg_peek N T HE)|]. intros t m3 _ Hm3.
    eapply pg_bind_n with (Q1 := q_opt q_name).
    { destruct (is_kind KName t); [|apply pg_ret; exact I].
      apply pg_weaken. eapply pg_bind_s; [apply pg_parse_name|]. intros x m4 Hx _. apply pg_ret; exact Hx. }
    intros nm m4 Hnm Hm4.
    eapply pg_bind_n; [apply pg_parse_variable_definitions; lia|]. intros vds m5 Hvds Hm5.
    eapply pg_bind_n; [apply pg_parse_directives; lia|]. intros dirs m6 Hdirs Hm6.
    eapply pg_bind_s; [apply pg_parse_selection_set_n; lia|]. intros x m7 [Hx1 Hx2] Hm7.
    eapply pg_bind_n; [apply (pg_get_loc N T fl phi Hphi); assumption|]. intros l m8 Hl _.
    apply pg_ret. simpl. repeat split; auto.
Qed.
Hint Resolve pg_parse_operation_definition : pgdb.

Lemma pg_parse_fragment_definition m : m < n -> pgood q_def true m (parse_fragment_definition fl n).
Proof.
  intros. unfold parse_fragment_definition.
  eapply pg_bind_n; [apply (pg_peek N T HE)|]. intros start m1 Hst Hm1.
  eapply pg_bind_s; [apply (pg_expect_keyword N T HE)|]. intros kw1 m2 _ Hm2.
  eapply pg_bind_s; [apply pg_parse_fragment_name|]. intros nm m3 Hnm Hm3.
  eapply pg_bind_n with (Q1 := Forall q_vardef).
  { destruct (fragment_variables fl); [apply pg_parse_variable_definitions; lia|apply pg_ret; constructor]. }
  intros vds m4 Hvds Hm4.
  eapply pg_bind_s; [apply (pg_expect_keyword N T HE)|]. intros kw2 m5 _ Hm5.
  eapply pg_bind_s; [apply pg_parse_named_type|]. intros tc m6 Htc Hm6.
  eapply pg_bind_n; [apply pg_parse_directives; lia|]. intros dirs m7 Hdirs Hm7.
  eapply pg_bind_s; [apply pg_parse_selection_set_n; lia|]. intros x m8 [Hx1 Hx2] Hm8.
  eapply pg_bind_n; [apply (pg_get_loc N T fl phi Hphi); assumption|]. intros l m9 Hl _.
  apply pg_ret. simpl. repeat split; auto.
Qed.
Hint Resolve pg_parse_fragment_definition : pgdb.

Lemma pg_parse_executable_definition m : m < n -> pgood q_def true m (parse_executable_definition fl n).
Proof. intros. unfold parse_executable_definition. pg. Qed.
Hint Resolve pg_parse_executable_definition : pgdb.

(* ---- type system definitions ---- *)
Lemma pg_parse_description m : pgood (q_opt q_strval) false m (parse_description fl).
Proof.
  unfold parse_description. eapply pg_bind_n; [apply (pg_peek N T HE)|]. intros t m1 _ Hm1.
  destruct (is_string_tok t); [|apply pg_ret; exact I].
  apply pg_weaken. eapply pg_bind_s; [apply pg_parse_string_literal|]. intros x m2 Hx _. apply pg_ret; exact Hx.
Qed.
Hint Resolve pg_parse_description : pgdb.

Lemma pg_parse_operation_type_definition m : pgood q_otdef true m (parse_operation_type_definition fl).
Proof. unfold parse_operation_type_definition. pg. Qed.
Hint Resolve pg_parse_operation_type_definition : pgdb.

Lemma pg_op_types m : m < n ->
  pgood (Forall q_otdef) true m (many n KCurlyO (parse_operation_type_definition fl) KCurlyC).
Proof. intros. apply (pg_many N T HE); [lia|intros; apply pg_parse_operation_type_definition]. Qed.
Hint Resolve pg_op_types : pgdb.

Lemma pg_parse_schema_definition m : m < n -> pgood q_def true m (parse_schema_definition fl n).
Proof. intros. unfold parse_schema_definition. pg. Qed.

Lemma pg_parse_scalar_type_definition m : m < n -> pgood q_def true m (parse_scalar_type_definition fl n).
Proof. intros. unfold parse_scalar_type_definition. pg. Qed.

Lemma pg_parse_implements_interfaces m : m < n -> pgood (Forall q_ty) false m (parse_implements_interfaces fl n).
Proof.
  intros. unfold parse_implements_interfaces. eapply pg_bind_n; [apply (pg_peek N T HE)|]. intros t m1 _ Hm1.
  destruct (is_kind KName t && is_kw "implements" (tval t)); [|apply pg_ret; constructor].
  apply pg_weaken. eapply pg_bind_s; [apply (pg_advance N T HE)|]. intros _ m2 _ Hm2.
  eapply pg_bind_n; [apply (pg_skip N T HE)|]. intros _ m3 _ Hm3.
  apply pg_weaken. apply (pg_delimited_loop N T HE); [lia|intros; apply pg_parse_named_type].
Qed.
Hint Resolve pg_parse_implements_interfaces : pgdb.

Lemma pg_parse_input_value_definition m : m < n -> pgood q_ivdef true m (parse_input_value_definition fl n).
Proof.
  intros. unfold parse_input_value_definition.
  eapply pg_bind_n; [apply (pg_peek N T HE)|]. intros start m1 Hst Hm1.
  eapply pg_bind_n; [apply pg_parse_description|]. intros desc m2 Hdesc Hm2.
  eapply pg_bind_s; [apply pg_parse_name|]. intros nm m3 Hnm Hm3.
  eapply pg_bind_s; [apply (pg_expect N T HE)|]. intros c m4 _ Hm4.
  eapply pg_bind_s; [apply pg_parse_type; lia|]. intros t m5 Ht Hm5.
  eapply pg_bind_n; [apply (pg_skip N T HE)|]. intros b m6 _ Hm6.
  eapply pg_bind_n; [apply pg_opt_value; lia|]. intros dv m7 Hdv Hm7.
  pg.
Qed.
Hint Resolve pg_parse_input_value_definition : pgdb.

Lemma pg_ivdefs o c m : m < n ->
  pgood (Forall q_ivdef) true m (many n o (parse_input_value_definition fl n) c).
Proof. intros. apply (pg_many N T HE); [lia|intros; apply pg_parse_input_value_definition; lia]. Qed.

Lemma pg_parse_argument_definitions m : m < n -> pgood (Forall q_ivdef) false m (parse_argument_definitions fl n).
Proof.
  intros. unfold parse_argument_definitions. eapply pg_bind_n; [apply (pg_peek N T HE)|]. intros t m1 _ Hm1.
  destruct (is_kind KParenO t); [|apply pg_ret; constructor].
  apply pg_weaken. apply pg_ivdefs; lia.
Qed.
Hint Resolve pg_parse_argument_definitions : pgdb.

Lemma pg_parse_field_definition m : m < n -> pgood q_fdef true m (parse_field_definition fl n).
Proof. intros. unfold parse_field_definition. pg. Qed.
Hint Resolve pg_parse_field_definition : pgdb.

Lemma pg_parse_fields_definition m : m < n -> pgood (Forall q_fdef) false m (parse_fields_definition fl n).
Proof.
  intros. unfold parse_fields_definition. eapply pg_bind_n; [apply (pg_peek N T HE)|]. intros t m1 _ Hm1.
  destruct (is_kind KCurlyO t); [|apply pg_ret; constructor].
  apply pg_weaken. apply (pg_many N T HE); [lia|intros; apply pg_parse_field_definition; lia].
Qed.
Hint Resolve pg_parse_fields_definition : pgdb.

Lemma pg_parse_object_type_definition m : m < n -> pgood q_def true m (parse_object_type_definition fl n).
Proof. intros. unfold parse_object_type_definition. pg. Qed.

Lemma pg_parse_interface_type_definition m : m < n -> pgood q_def true m (parse_interface_type_definition fl n).
Proof. intros. unfold parse_interface_type_definition. pg. Qed.

Lemma pg_parse_union_member_types m : m < n -> pgood (Forall q_ty) false m (parse_union_member_types fl n).
Proof.
  intros. unfold parse_union_member_types. eapply pg_bind_n; [apply (pg_skip N T HE)|]. intros b m1 _ Hm1.
  destruct b; [|apply pg_ret; constructor].
  apply pg_weaken. apply (pg_delimited_list N T HE); [lia|intros; apply pg_parse_named_type].
Qed.
Hint Resolve pg_parse_union_member_types : pgdb.

Lemma pg_parse_union_type_definition m : m < n -> pgood q_def true m (parse_union_type_definition fl n).
Proof. intros. unfold parse_union_type_definition. pg. Qed.

Lemma pg_parse_enum_value_definition m : m < n -> pgood q_evdef true m (parse_enum_value_definition fl n).
Proof. intros. unfold parse_enum_value_definition. pg. Qed.
Hint Resolve pg_parse_enum_value_definition : pgdb.

Lemma pg_parse_enum_values_definition m : m < n -> pgood (Forall q_evdef) false m (parse_enum_values_definition fl n).
Proof.
  intros. unfold parse_enum_values_definition. eapply pg_bind_n; [apply (pg_peek N T HE)|]. intros t m1 _ Hm1.
  destruct (is_kind KCurlyO t); [|apply pg_ret; constructor].
  apply pg_weaken. apply (pg_many N T HE); [lia|intros; apply pg_parse_enum_value_definition; lia].
Qed.
Hint Resolve pg_parse_enum_values_definition : pgdb.

Lemma pg_parse_enum_type_definition m : m < n -> pgood q_def true m (parse_enum_type_definition fl n).
Proof. intros. unfold parse_enum_type_definition. pg. Qed.

Lemma pg_parse_input_fields_definition m : m < n -> pgood (Forall q_ivdef) false m (parse_input_fields_definition fl n).
Proof.
  intros. unfold parse_input_fields_definition. eapply pg_bind_n; [apply (pg_peek N T HE)|]. intros t m1 _ Hm1.
  destruct (is_kind KCurlyO t); [|apply pg_ret; constructor].
  apply pg_weaken. apply pg_ivdefs; lia.
Qed.
Hint Resolve pg_parse_input_fields_definition : pgdb.

Lemma pg_parse_input_object_type_definition m : m < n -> pgood q_def true m (parse_input_object_type_definition fl n).
Proof. intros. unfold parse_input_object_type_definition. pg. Qed.

Lemma pg_parse_directive_location m : pgood q_name true m (parse_directive_location fl).
Proof. unfold parse_directive_location. pg. Qed.
Hint Resolve pg_parse_directive_location : pgdb.

Lemma pg_directive_locations m : m < n ->
  pgood (Forall q_name) true m (delimited_list n KPipe (parse_directive_location fl)).
Proof. intros. apply (pg_delimited_list N T HE); [lia|intros; apply pg_parse_directive_location]. Qed.
Hint Resolve pg_directive_locations : pgdb.

Lemma pg_parse_directive_definition m : m < n -> pgood q_def true m (parse_directive_definition fl n).
Proof. intros. unfold parse_directive_definition. pg. Qed.

Hint Resolve pg_parse_schema_definition pg_parse_scalar_type_definition pg_parse_object_type_definition
  pg_parse_interface_type_definition pg_parse_union_type_definition pg_parse_enum_type_definition
  pg_parse_input_object_type_definition pg_parse_directive_definition : pgdb.

Lemma hd_is_not_eof t st : tk t <> KEOF -> hd_is t st -> hd_not_eof st.
Proof. intros Hk [r Hr]. unfold hd_not_eof. rewrite Hr. exact Hk. Qed.

Lemma is_string_tok_not_eof t : is_string_tok t = true -> tk t <> KEOF.
Proof.
  unfold is_string_tok, is_kind. intros H Hk. rewrite Hk in H. discriminate.
Qed.

Lemma is_name_not_eof t : is_kind KName t = true -> tk t <> KEOF.
Proof. unfold is_kind. intros H Hk. rewrite Hk in H. discriminate. Qed.

Lemma pg_tsd_dispatch keyword m : m < n -> tok_ok N keyword ->
  pgood q_def true m
    (if is_kind KName keyword then
       let v := tval keyword in
       if is_kw "schema" v then parse_schema_definition fl n
       else if is_kw "scalar" v then parse_scalar_type_definition fl n
       else if is_kw "type" v then parse_object_type_definition fl n
       else if is_kw "interface" v then parse_interface_type_definition fl n
       else if is_kw "union" v then parse_union_type_definition fl n
       else if is_kw "enum" v then parse_enum_type_definition fl n
       else if is_kw "input" v then parse_input_object_type_definition fl n
       else if is_kw "directive" v then parse_directive_definition fl n
       else unexpected keyword (tstart keyword)
     else unexpected keyword (tstart keyword)).
Proof. intros. cbv zeta. pg. Qed.

Lemma pg_parse_type_system_definition m : m < n -> pgood q_def true m (parse_type_system_definition fl n).
Proof.
  intros. unfold parse_type_system_definition. apply (pg_peek_then N T HE). intros next Hnext.
  destruct (is_string_tok next) eqn:Es.
  - eapply pg_bind_n.
    + eapply pg_pre; [|apply (pg_peek2 N T HE)]. intros st Hst.
      eapply hd_is_not_eof; [apply is_string_tok_not_eof; exact Es|exact Hst].
    + intros keyword m1 Hk Hm1. apply pg_tsd_dispatch; [lia|assumption].
  - apply pg_true. eapply pg_bind_n; [apply pg_ret; exact Hnext|].
    intros keyword m1 Hk Hm1. apply pg_tsd_dispatch; [lia|assumption].
Qed.
Hint Resolve pg_parse_type_system_definition : pgdb.

(* ---- extensions ---- *)
Lemma pg_parse_schema_extension m : m < n -> pgood q_def true m (parse_schema_extension fl n).
Proof.
  intros. unfold parse_schema_extension.
  eapply pg_bind_n; [apply (pg_peek N T HE)|]. intros start m1 Hst Hm1.
  eapply pg_bind_s; [apply (pg_expect_keyword N T HE)|]. intros k1 m2 _ Hm2.
  eapply pg_bind_s; [apply (pg_expect_keyword N T HE)|]. intros k2 m3 _ Hm3.
  eapply pg_bind_n; [apply pg_parse_directives; lia|]. intros dirs m4 Hdirs Hm4.
  eapply pg_bind_n; [apply (pg_peek N T HE)|]. intros t m5 _ Hm5.
  eapply pg_bind_n with (Q1 := Forall q_otdef).
  { destruct (is_kind KCurlyO t); [apply pg_weaken; apply pg_op_types; lia|apply pg_ret; constructor]. }
  intros ots m6 Hots Hm6. pg.
Qed.

Lemma pg_parse_scalar_type_extension m : m < n -> pgood q_def true m (parse_scalar_type_extension fl n).
Proof. intros. unfold parse_scalar_type_extension. pg. Qed.
Lemma pg_parse_object_type_extension m : m < n -> pgood q_def true m (parse_object_type_extension fl n).
Proof. intros. unfold parse_object_type_extension. pg. Qed.
Lemma pg_parse_interface_type_extension m : m < n -> pgood q_def true m (parse_interface_type_extension fl n).
Proof. intros. unfold parse_interface_type_extension. pg. Qed.
Lemma pg_parse_union_type_extension m : m < n -> pgood q_def true m (parse_union_type_extension fl n).
Proof. intros. unfold parse_union_type_extension. pg. Qed.
Lemma pg_parse_enum_type_extension m : m < n -> pgood q_def true m (parse_enum_type_extension fl n).
Proof. intros. unfold parse_enum_type_extension. pg. Qed.
Lemma pg_parse_input_object_type_extension m : m < n -> pgood q_def true m (parse_input_object_type_extension fl n).
Proof. intros. unfold parse_input_object_type_extension. pg. Qed.
Hint Resolve pg_parse_schema_extension pg_parse_scalar_type_extension pg_parse_object_type_extension
  pg_parse_interface_type_extension pg_parse_union_type_extension pg_parse_enum_type_extension
  pg_parse_input_object_type_extension : pgdb.

Lemma pg_parse_type_system_extension m : m < n ->
  pgoodP N T hd_not_eof q_def true m (parse_type_system_extension fl n).
Proof.
  intros. unfold parse_type_system_extension.
  eapply pg_bind_n; [apply (pg_peek2 N T HE)|]. intros keyword m1 Hk Hm1. cbv zeta. pg.
Qed.

(* ---- definitions, documents, entry points ---- *)
Lemma pg_parse_definition m : m < n -> pgood q_def true m (parse_definition fl n).
Proof.
  intros. unfold parse_definition. apply (pg_peek_then N T HE). intros start Hstart.
  destruct (is_kind KName start) eqn:En.
  - destruct (mem_str (tval start) (map kw executable_keywords)); [pg|].
    destruct (allow_type_system fl); [|pg].
    destruct (mem_str (tval start) (map kw schema_keywords)); [pg|].
    destruct (is_kw "extend" (tval start)); [|pg].
    eapply pg_pre; [|apply pg_parse_type_system_extension; assumption].
    intros st Hst. eapply hd_is_not_eof; [apply is_name_not_eof; exact En|exact Hst].
  - pg.
Qed.
Hint Resolve pg_parse_definition : pgdb.

Lemma pg_definitions_loop : forall k m, m < k -> m < n ->
  pgood (Forall q_def) true m (definitions_loop fl n k).
Proof.
  induction k as [|k IH]; intros m Hm Hn; [lia|]. simpl.
  eapply pg_bind_s; [apply pg_parse_definition; lia|]. intros d m1 Hd Hm1.
  eapply pg_bind_n; [apply (pg_skip N T HE)|]. intros b m2 _ Hm2.
  destruct b; [apply pg_ret; constructor; auto|].
  apply pg_weaken. eapply pg_bind_s; [apply IH; lia|]. intros ds m3 Hds _.
  apply pg_ret. constructor; assumption.
Qed.

Lemma pg_parse_document_p m : m < n -> pgood q_doc true m (parse_document_p fl n).
Proof.
  intros. unfold parse_document_p.
  eapply pg_bind_n; [apply (pg_peek N T HE)|]. intros start m1 Hst Hm1.
  eapply pg_bind_s; [apply (pg_expect N T HE)|]. intros sof m2 _ Hm2.
  eapply pg_bind_s; [apply pg_definitions_loop; lia|]. intros defs m3 Hdefs Hm3.
  eapply pg_bind_n; [apply (pg_get_loc N T fl phi Hphi); assumption|]. intros l m4 Hl _.
  apply pg_ret. split; assumption.
Qed.

Lemma pg_parse_value_p m : m < n -> pgood q_value true m (parse_value_p fl n).
Proof. intros. unfold parse_value_p. pg. Qed.

Lemma pg_parse_type_p m : m < n -> pgood q_ty true m (parse_type_p fl n).
Proof. intros. unfold parse_type_p. pg. Qed.

End Total.
