(* [visitx] is a conservative extension of [visit]: wherever the proved model
   answers Ok, the extended one gives the same trace and the same tree. *)
From PyGql Require Import Lang.VisitorModel Lang.VisitorCross Proofs.VisitorProofs.

Section Mono.
  Variables rec rec' : rec_t.
  Hypothesis Hm : forall c r, rec c = Ok r -> rec' c = Ok r.

  Lemma m_one_mono {X} (inj : X -> node) (proj : node -> option X) x r :
    m_one inj proj rec x = Ok r -> m_one inj proj rec' x = Ok r.
  Proof. unfold m_one. intros H. inv_bind H. rewrite (Hm _ _ E). exact H. Qed.

  Lemma maf_mono {X} (inj : X -> node) (proj : node -> option X) l : forall r,
    map_and_filter inj proj rec l = Ok r -> map_and_filter inj proj rec' l = Ok r.
  Proof.
    induction l as [|x l IH]; simpl; intros r H; [exact H|].
    inv_bind H. rewrite (m_one_mono _ _ _ _ E). inv_bind H. rewrite (IH _ E0). exact H.
  Qed.

  Lemma m_req_mono {X} (inj : X -> node) (proj : node -> option X) x r :
    m_req inj proj rec x = Ok r -> m_req inj proj rec' x = Ok r.
  Proof. unfold m_req. intros H. inv_bind H. rewrite (m_one_mono _ _ _ _ E). exact H. Qed.

  Lemma m_opt_mono {X} (inj : X -> node) (proj : node -> option X) o r :
    m_opt inj proj rec o = Ok r -> m_opt inj proj rec' o = Ok r.
  Proof. unfold m_opt. destruct o; [apply m_one_mono|auto]. Qed.

  Lemma via_mono t : forall c r, via_table t rec c = Ok r -> via_table t rec' c = Ok r.
  Proof. intros c r. unfold via_table. destruct (in_table (kind_of c) t); [apply Hm|discriminate]. Qed.
End Mono.

Ltac mono_step H Hm :=
  let a := fresh "a" in let E := fresh "E" in
  apply obind_ok in H; destruct H as (a & E & H);
  first [ rewrite (maf_mono _ _ Hm _ _ _ _ E)
        | rewrite (maf_mono _ _ (via_mono _ _ Hm _) _ _ _ _ E)
        | rewrite (m_req_mono _ _ Hm _ _ _ _ E)
        | rewrite (m_opt_mono _ _ Hm _ _ _ _ E) ];
  cbn [obind].

Lemma method_mono rec rec' : (forall c r, rec c = Ok r -> rec' c = Ok r) ->
  forall n q, method rec n = Ok q -> method rec' n = Ok q.
Proof.
  intros Hm n q H.
  destruct n as [ [defs dl] | d | [v vl t dflt dirs l] | [sl ss] | s | [nm v l] | [nm args l]
                | v | [[nm v] l] | t | [k t l] | [desc nm args t dirs l] | [desc nm t dflt dirs l]
                | [desc nm dirs l] | sv | nm ];
    try destruct d; try destruct s; try destruct v;
    cbn [method] in H |- *; cbv zeta in H |- *;
    repeat (mono_step H Hm); exact H.
Qed.

Lemma methodx_mono rec (recx : bool -> rec_t) :
  (forall c r, rec c = Ok r -> forall b, recx b c = Ok r) ->
  forall n q, method rec n = Ok q -> methodx recx n = Ok q.
Proof.
  intros Hm n q H.
  destruct n as [d|d|v|s|s|a|d|v|[[nm v] l]|t|o|f|i|e|sv|nm];
    try (apply (method_mono rec (recx false)); [intros c r Hc; apply Hm; exact Hc|exact H]).
  cbn [method methodx] in H |- *. inv_bind H.
  rewrite (m_req_mono rec (recx true) (fun c r Hc => Hm c r Hc true) _ _ _ _ E). exact H.
Qed.

Theorem visitx_conservative vs : forall fuel n p,
  visit fuel vs n = Ok p -> forall b, visitx fuel vs b n = Ok p.
Proof.
  induction fuel as [|fuel IH]; intros n p H b; [discriminate|].
  cbn [visit visitx] in H |- *. unfold wrapper in H. unfold wrapperx.
  destruct (chain_enter 0 vs n) as [tr0 res]. destruct res as [n1| | |]; try exact H.
  unfold method_as. destruct (kind_eqb (kind_of n) (kind_of n1)); [|discriminate].
  inv_bind H. rewrite (methodx_mono (visit fuel vs) (visitx fuel vs) IH _ _ E). exact H.
Qed.

Theorem visit_topx_conservative vs fuel n p :
  visit_top fuel vs n = Ok p -> visit_topx fuel vs n = Ok p.
Proof.
  unfold visit_top, visit_topx. destruct (in_table (kind_of n) visit_table); [|discriminate].
  intros H. apply visitx_conservative. exact H.
Qed.

(* a replacement of another class: enter once on the original, leave once on the
   replacement, nothing in between for a type (and for a Variable outside object fields) *)
Lemma visitx_cross_type vs fuel (t t' : ty) tr0 :
  chain_enter 0 vs (NType t) = (tr0, ECont (NType t')) ->
  kind_of (NType t) <> kind_of (NType t') ->
  forall tr2, chain_leave 0 vs (NType t') = Some tr2 ->
  forall b, visitx (S fuel) vs b (NType t) = Ok (tr0 ++ tr2, Some (NType t')).
Proof.
  intros CE Hk tr2 CL b. cbn [visitx]. unfold wrapperx. rewrite CE. unfold method_as.
  unfold kind_eqb. destruct (kind_eq_dec (kind_of (NType t)) (kind_of (NType t'))); [contradiction|].
  cbn [obind fst snd]. rewrite CL. reflexivity.
Qed.
