(* C02 (4), definitions: the text an operation or fragment definition spans
   parses back, as a one-definition document, to the same definition with spans
   moved to offset 0. *)
From PyGql Require Import Lang.Parser Spec.LexSpec Spec.LexicalSpec Spec.GrammarSpec Spec.DocGrammarSpec
  Spec.ReparseSpec Proofs.GrammarProofs Proofs.ReparseProofs Proofs.DocEntryProofs.

Section ShiftDerivations.
Variable nl : bool.
Variable p : nat.
Notation sh := (shift_tok p).

Ltac shn := repeat (rewrite <- name_node_shift || rewrite <- mkloc_shift);
            repeat first [rewrite map_app | progress cbn [map app]].

Lemma D_list_shift {A} (R : list ptok -> A -> Prop) (g : A -> A) ts xs :
  (forall ts x, R ts x -> R (map sh ts) (g x)) -> D_list R ts xs -> D_list R (map sh ts) (map g xs).
Proof. intros HR H. induction H; simpl; [constructor|]. rewrite map_app. constructor; auto. Qed.

Lemma map_ne {A B} (f : A -> B) l : l <> [] -> map f l <> [].
Proof. destruct l; [congruence|discriminate]. Qed.

Lemma tk_sh t : tk (sh t) = tk t. Proof. reflexivity. Qed.
Lemma tval_sh t : tval (sh t) = tval t. Proof. reflexivity. Qed.

Lemma D_value_shift c ts v : D_value nl c ts v -> D_value nl c (map sh ts) (shift_value p v).
Proof. apply (proj1 (D_value_shift_all nl p)). Qed.

Lemma D_argument_shift c ts a : D_argument nl c ts a -> D_argument nl c (map sh ts) (shift_arg p a).
Proof.
  intros [t colon vts v Kt Kc Dv]. unfold shift_arg. simpl. shn.
  constructor; auto. apply D_value_shift; exact Dv.
Qed.

Lemma D_arguments_shift c ts args : D_arguments nl c ts args -> D_arguments nl c (map sh ts) (map (shift_arg p) args).
Proof.
  intros [|o body cl args0 Ko Kc Hl Hne]; [constructor|]. shn.
  constructor; auto; [apply D_list_shift; [apply D_argument_shift|exact Hl]|apply map_ne; exact Hne].
Qed.

Lemma D_directive_shift c ts d : D_directive nl c ts d -> D_directive nl c (map sh ts) (shift_dir p d).
Proof.
  intros [a t ats args Ka Kt Da]. unfold shift_dir. simpl. shn. constructor; auto. apply D_arguments_shift; exact Da.
Qed.

Lemma D_directives_shift c ts ds : D_directives nl c ts ds -> D_directives nl c (map sh ts) (map (shift_dir p) ds).
Proof. apply D_list_shift. apply D_directive_shift. Qed.

Lemma D_selection_shift_all :
  (forall ts s, D_selection nl ts s -> D_selection nl (map sh ts) (shift_sel p s))
  /\ (forall ts sl sub, D_opt_selection_set nl ts sl sub ->
        D_opt_selection_set nl (map sh ts) (option_map (shift_loc p) sl) (map (shift_sel p) sub))
  /\ (forall ts ss, D_selections nl ts ss -> D_selections nl (map sh ts) (map (shift_sel p) ss)).
Proof.
  apply (D_selection_mutind nl
    (fun ts s => D_selection nl (map sh ts) (shift_sel p s))
    (fun ts sl sub => D_opt_selection_set nl (map sh ts) (option_map (shift_loc p) sl) (map (shift_sel p) sub))
    (fun ts ss => D_selections nl (map sh ts) (map (shift_sel p) ss))).
  - intros ats al nt argts args dts dirs ssts sl sub Dal Kn Da Dd Dss IH. simpl. shn.
    apply DS_field; auto.
    + destruct Dal as [|a colon Ka Kc]; simpl; [constructor|]. rewrite <- name_node_shift. constructor; auto.
    + apply D_arguments_shift; exact Da.
    + apply D_directives_shift; exact Dd.
  - intros e nt dts dirs Ke Kn Hon Dd. simpl. shn. apply DS_spread; auto. apply D_directives_shift; exact Dd.
  - intros e tcts tc dts dirs o body cl sub Ke Dtc Dd Ko Kc Dsub IH Hne. simpl. shn.
    apply DS_inline; auto.
    + destruct Dtc as [|on tn Won Ktn]; simpl; [constructor|].
      rewrite <- name_node_shift. change [sh tn] with (map sh [tn]). rewrite <- (mkloc_shift nl p [tn]) || idtac.
      cbn [map]. constructor; auto.
    + apply D_directives_shift; exact Dd.
    + apply map_ne; exact Hne.
  - constructor.
  - intros o body cl sub Ko Kc Dsub IH Hne. simpl. shn. constructor; auto. apply map_ne; exact Hne.
  - constructor.
  - intros ts s ts' ss Ds IHs Dss IHss. simpl. rewrite map_app. constructor; assumption.
Qed.

Lemma D_selection_set_shift ts sels l : D_selection_set nl ts sels l ->
  D_selection_set nl (map sh ts) (map (shift_sel p) sels) (shift_loc p l).
Proof.
  intros [o body cl sub Ko Kc Ds Hne]. shn. constructor; auto.
  - apply (proj2 (proj2 D_selection_shift_all)); exact Ds.
  - apply map_ne; exact Hne.
Qed.

Lemma D_default_shift ts dv : D_default nl ts dv -> D_default nl (map sh ts) (option_map (shift_value p) dv).
Proof. intros [|eq vts v Ke Dv]; simpl; constructor; auto. apply D_value_shift; exact Dv. Qed.

Lemma D_variable_definition_shift ts vd :
  D_variable_definition nl ts vd -> D_variable_definition nl (map sh ts) (shift_var_def p vd).
Proof.
  intros [d nm colon tyts t defts dv dts dirs Kd Kn Kc Dt Ddef Dd]. unfold shift_var_def. simpl. shn.
  change [sh d; sh nm] with (map sh [d; nm]). rewrite <- (mkloc_shift nl p [d; nm]) || idtac. cbn [map].
  constructor; auto; [apply D_type_shift; exact Dt|apply D_default_shift; exact Ddef|apply D_directives_shift; exact Dd].
Qed.

Lemma D_variable_definitions_shift ts vds :
  D_variable_definitions nl ts vds -> D_variable_definitions nl (map sh ts) (map (shift_var_def p) vds).
Proof.
  intros [|o body cl vds0 Ko Kc Hl Hne]; [constructor|]. shn.
  constructor; auto; [apply D_list_shift; [apply D_variable_definition_shift|exact Hl]|apply map_ne; exact Hne].
Qed.

Lemma D_operation_type_shift t k : D_operation_type t k -> D_operation_type (sh t) k.
Proof. intros [t0 W|t0 W|t0 W]; constructor; exact W. Qed.

Lemma D_executable_definition_shift fv ts d :
  D_executable_definition nl fv ts d -> D_executable_definition nl fv (map sh ts) (shift_exec_def p d).
Proof.
  intros [ts0 d0 Do|ts0 d0 Df].
  - constructor 1. destruct Do as [ts1 sels l Dss|k kind nts nm vdts vds dts dirs ssts sels ssl Dk Dn Dv Dd Dss].
    + simpl. constructor. apply D_selection_set_shift; exact Dss.
    + simpl. shn. apply DOp_full.
      * apply D_operation_type_shift; exact Dk.
      * destruct Dn as [|n1 Kn1]; simpl; [constructor|]. rewrite <- name_node_shift. constructor; exact Kn1.
      * apply D_variable_definitions_shift; exact Dv.
      * apply D_directives_shift; exact Dd.
      * apply D_selection_set_shift; exact Dss.
  - constructor 2. destruct Df as [f nm vdts vds o tcn dts dirs ssts sels ssl Wf Kn Hon Dv Wo Ktc Dd Dss].
    simpl. shn. change [sh tcn] with (map sh [tcn]). rewrite <- (mkloc_shift nl p [tcn]) || idtac. cbn [map].
    apply DFrag; auto.
    + destruct fv; [apply D_variable_definitions_shift; exact Dv|destruct Dv as [-> ->]; auto].
    + apply D_directives_shift; exact Dd.
    + apply D_selection_set_shift; exact Dss.
Qed.

End ShiftDerivations.

Lemma D_executable_definition_ends nl fv ts d : D_executable_definition nl fv ts d ->
  exists t r, ts = t :: r /\ tk t <> KSOF /\ tk t <> KEOF /\ tk (last r t) <> KEOF.
Proof.
  assert (Hss : forall ts sels l, D_selection_set nl ts sels l ->
            exists t r, ts = t :: r /\ tk t = KCurlyO /\ tk (last r t) = KCurlyC).
  { intros ts0 sels l [o body cl sub Ko Kc _ _]. exists o, (body ++ [cl]). rewrite last_snoc. auto. }
  assert (Hlast : forall (a b : list ptok) x y, b = x :: y -> forall d0, last (a ++ b) d0 = last y x).
  { intros a b x y -> d0. apply last_app_cons. }
  intros [ts0 d0 Do|ts0 d0 Df].
  - destruct Do as [ts1 sels l Dss|k kind nts nm vdts vds dts dirs ssts sels ssl Dk Dn Dv Dd Dss].
    + destruct (Hss _ _ _ Dss) as (t & r & -> & K1 & K2). exists t, r. rewrite K1, K2. repeat split; discriminate.
    + destruct (Hss _ _ _ Dss) as (t & r & Es & K1 & K2). eexists _, _. split; [reflexivity|].
      assert (Kk : tk k = KName) by (destruct Dk as [? [K _]|? [K _]|? [K _]]; exact K).
      rewrite Kk. split; [discriminate|]. split; [discriminate|].
      rewrite !app_assoc. rewrite (Hlast _ ssts t r Es). rewrite K2. discriminate.
  - destruct Df as [f nm vdts vds o tcn dts dirs ssts sels ssl [Kf _] Kn Hon Dv Wo Ktc Dd Dss].
    destruct (Hss _ _ _ Dss) as (t & r & Es & K1 & K2). eexists _, _. split; [reflexivity|].
    rewrite Kf. split; [discriminate|]. split; [discriminate|].
    change (nm :: vdts ++ o :: tcn :: dts ++ ssts) with ((nm :: vdts) ++ (o :: tcn :: dts) ++ ssts).
    rewrite !app_assoc. rewrite (Hlast _ ssts t r Es). rewrite K2. discriminate.
Qed.

Theorem reparse_exec_definition fl s ts pre seg post d :
  lex s = Ok ts -> ts = pre ++ seg ++ post ->
  D_executable_definition (no_location fl) (fragment_variables fl) seg d ->
  exists l, parse_document fl (substring s (seg_start seg) (seg_end seg))
            = Ok (Doc [shift_exec_def (seg_start seg) d] l).
Proof.
  intros Hl Ets Dd.
  pose proof (segment_lexes s ts pre seg post Hl Ets (D_executable_definition_ends _ _ _ _ Dd)) as Hsub.
  eexists. eapply parse_document_exec_complete; [exact Hsub|].
  constructor; [reflexivity|reflexivity| |discriminate].
  rewrite <- (app_nil_r (map (shift_tok (seg_start seg)) seg)). constructor; [|constructor].
  apply D_executable_definition_shift. exact Dd.
Qed.
