(* C12 at text level, for schemas without descriptions, default values and
   applied custom directives: the text of the schema printer model is the text
   the ASTPrinter model of C03 prints for [ast_of_schema], so the parser model
   of C01 reads it back (Proofs/PrinterSdlRoundtrip.v::sdl_roundtrip). *)
From PyGql Require Import Lang.PrinterModel Spec.PrinterSpec Lang.Parser Spec.GrammarSpec Spec.SdlGrammarSpec
                          Proofs.PrinterRoundtrip Proofs.PrinterExecRoundtrip Proofs.PrinterSdlRoundtrip.
From PyGql Require Import Schema.SdlSchema Schema.SdlBuild Schema.SdlPrint Spec.SdlRoundtripSpec
                          Proofs.SdlTextProofs.
From Coq Require Import Lia.

Notation vname := PrinterRoundtrip.valid_name.

(* ------------------------------------------------------------------ *)
(* strings                                                              *)

Lemma join_ne_join (l : list str) sep : join_ne l sep = join sep l.
Proof.
  induction l as [|x l IH]; [reflexivity|]. cbn [join_ne join]. destruct l as [|y l]; [reflexivity|].
  rewrite IH. reflexivity.
Qed.

Lemma p_join_all (l : list str) sep : Forall (fun x => x <> []) l -> p_join l sep = join sep l.
Proof.
  intros H. unfold p_join. rewrite <- join_ne_join. f_equal.
  induction H as [|x l Hx Hl IH]; [reflexivity|]. cbn [filter]. destruct x; [congruence|]. cbn [is_empty negb].
  rewrite IH. reflexivity.
Qed.

Lemma p_join_nosep (l : list str) : p_join l [] = concat l.
Proof.
  unfold p_join. induction l as [|x l IH]; [reflexivity|]. cbn [filter concat].
  destruct x as [|c r]; cbn [is_empty negb]; [exact IH|].
  cbn [join_ne]. destruct (filter _ l) as [|y ys] eqn:Hf.
  - cbn [join_ne] in IH. rewrite <- IH, app_nil_r. reflexivity.
  - rewrite <- IH. cbn [app]. reflexivity.
Qed.

Lemma has_lf_app a b : has_lf (a ++ b) = has_lf a || has_lf b.
Proof. unfold has_lf. apply existsb_app. Qed.

Lemma reindent_nolf ind s : has_lf s = false -> reindent ind s = s.
Proof.
  unfold reindent, has_lf. induction s as [|c s IH]; [reflexivity|]. cbn [existsb flat_map].
  intros H. apply Bool.orb_false_iff in H. destruct H as [Hc Hs]. rewrite Hc. cbn [app]. rewrite (IH Hs). reflexivity.
Qed.

Lemma p_indent_nolf s ind : s <> [] -> has_lf s = false -> p_indent s ind = ind ++ s.
Proof. intros Hne Hl. unfold p_indent. destruct s; [congruence|]. cbn [is_empty]. rewrite (reindent_nolf _ _ Hl). reflexivity. Qed.

(* name characters are neither line feeds nor white space *)
Lemma name_cont_facts c : is_name_cont c = true -> (c =? PrinterModel.LF)%N = false /\ py_space c = false.
Proof.
  unfold is_name_cont, Lexer.is_letter, Lexer.is_digit, PrinterModel.LF, py_space. intros H.
  assert (Hr : (c = 95 \/ (65 <= c <= 90) \/ (97 <= c <= 122) \/ (48 <= c <= 57))%N).
  { repeat (apply Bool.orb_true_iff in H; destruct H as [H|H]);
      repeat match goal with
             | H : (_ && _) = true |- _ => apply andb_prop in H; destruct H
             | H : (_ =? _)%N = true |- _ => apply N.eqb_eq in H
             | H : (_ <=? _)%N = true |- _ => apply N.leb_le in H
             end; lia. }
  split.
  - apply N.eqb_neq. lia.
  - repeat match goal with |- context [(?a =? ?b)%N] => destruct (N.eqb_spec a b); [lia|] end.
    repeat match goal with |- context [(?a <=? ?b)%N] => destruct (N.leb_spec a b); try lia end.
    all: cbn; try reflexivity.
Qed.

Lemma vname_chars nm : vname nm -> nm <> [] /\ Forall (fun c => is_name_cont c = true) nm.
Proof.
  intros (c & r & -> & Hs & Hr). split; [discriminate|]. constructor; [|exact Hr].
  unfold is_name_start in Hs. unfold is_name_cont. apply Bool.orb_true_iff in Hs.
  destruct Hs as [Hs|Hs]; rewrite Hs; [reflexivity|rewrite Bool.orb_true_r; reflexivity].
Qed.

Definition nospace (s : str) : Prop := Forall (fun c => py_space c = false) s.

Lemma chars_nolf s : Forall (fun c => is_name_cont c = true) s -> has_lf s = false /\ nospace s.
Proof.
  induction 1 as [|c s Hc Hs [IH1 IH2]]; [split; [reflexivity|constructor]|].
  destruct (name_cont_facts c Hc) as [H1 H2]. split.
  - unfold has_lf in *. cbn [existsb]. rewrite H1, IH1. reflexivity.
  - constructor; assumption.
Qed.

Lemma vname_nolf nm : vname nm -> has_lf nm = false /\ nospace nm /\ nm <> [].
Proof. intros H. destruct (vname_chars nm H) as [Hne Hc]. destruct (chars_nolf nm Hc). auto. Qed.

Lemma lstrip_id s : match s with c :: _ => py_space c = false | [] => True end -> lstrip s = s.
Proof. destruct s as [|c r]; [reflexivity|]. intros H. cbn [lstrip]. rewrite H. reflexivity. Qed.

Lemma rstrip_id s : s <> [] -> py_space (last s 0%N) = false -> rstrip s = s.
Proof.
  intros Hne Hl. unfold rstrip.
  rewrite (app_removelast_last 0%N Hne) at 1. rewrite rev_app_distr. cbn [rev app lstrip].
  rewrite Hl. cbn [rev]. rewrite rev_involutive. symmetry. apply (app_removelast_last 0%N Hne).
Qed.

(* a text made of non-blank characters at both ends *)
Definition tight (s : str) : Prop :=
  s <> [] /\ py_space (hd 0%N s) = false /\ py_space (last s 0%N) = false.

Lemma strip_tight s : tight s -> strip s = s /\ rstrip s = s.
Proof.
  intros (Hne & Hh & Hl). assert (Hr : rstrip s = s) by (apply rstrip_id; assumption).
  split; [|exact Hr]. unfold strip. rewrite lstrip_id; [exact Hr|]. destruct s; [congruence|exact Hh].
Qed.

Lemma last_app_ne (a b : str) d : b <> [] -> last (a ++ b) d = last b d.
Proof.
  intros Hb. induction a as [|x a IH]; [reflexivity|]. cbn [app].
  destruct (a ++ b) eqn:He.
  - exfalso. apply app_eq_nil in He. destruct He as [_ He]. contradiction.
  - cbn [last]. exact IH.
Qed.

Lemma tight_app a b : tight a -> tight b -> tight (a ++ b).
Proof.
  intros (Ha & Hah & _) (Hb & _ & Hbl). repeat split.
  - destruct a; [congruence|discriminate].
  - destruct a; [congruence|exact Hah].
  - rewrite last_app_ne by exact Hb. exact Hbl.
Qed.

Lemma tight_mid a m b : tight a -> tight b -> tight (a ++ m ++ b).
Proof.
  intros (Ha & Hah & _) (Hb & _ & Hbl). repeat split.
  - destruct a; [congruence|discriminate].
  - destruct a; [congruence|exact Hah].
  - rewrite app_assoc, last_app_ne by exact Hb. exact Hbl.
Qed.

Lemma nospace_tight s : s <> [] -> nospace s -> tight s.
Proof.
  intros Hne Hs. repeat split; [exact Hne| |].
  - destruct s; [congruence|]. inversion Hs; assumption.
  - assert (Hin : In (last s 0%N) s).
    { clear Hs. induction s as [|x s IH]; [congruence|]. destruct s; [left; reflexivity|].
      right. apply IH. discriminate. }
    unfold nospace in Hs. rewrite Forall_forall in Hs. apply Hs; exact Hin.
Qed.

(* type references *)
Lemma print_tref_facts t : wf_tref t -> has_lf (print_tref t) = false /\ tight (print_tref t).
Proof.
  induction t as [n|t IH|t IH]; cbn [wf_tref print_tref].
  - intros H. destruct (vname_nolf n H) as (H1 & H2 & H3). split; [exact H1|apply nospace_tight; assumption].
  - intros H. destruct (IH H) as [H1 H2]. split.
    + rewrite !has_lf_app, H1. reflexivity.
    + apply (tight_mid (lit "[") (print_tref t) (lit "]")); repeat split; discriminate || reflexivity.
  - intros [H _]. destruct (IH H) as [H1 H2]. split.
    + rewrite has_lf_app, H1. reflexivity.
    + apply tight_app; [exact H2|repeat split; discriminate || reflexivity].
Qed.

(* ------------------------------------------------------------------ *)
(* the sub-language                                                     *)

Definition nodirs (ds : list directive) : Prop := custom_dirs ds = [].

Definition plain_siv (a : sivalue) : Prop :=
  siv_default a = None /\ siv_desc a = None /\ nodirs (siv_dirs a)
  /\ vname (siv_name a) /\ wf_tref (siv_type a).

Definition iv_of (a : sivalue) : input_value_def :=
  IVDef None (mk_name (siv_name a)) (ty_of_tref (siv_type a)) None [] None.

Lemma ivdef_of_plain E a : plain_siv a -> ivdef_of E a = Ok (iv_of a).
Proof.
  intros (Hd & Hde & Hn & _). unfold ivdef_of, iv_of. rewrite Hd, Hde. unfold nodirs in Hn. rewrite Hn. reflexivity.
Qed.

Section Texts.
  Variable o : popts.
  Variable E : env.
  Variable fuel : nat.
  Let cf := Cfg (po_indent o) true.

  Lemma print_directives_nodirs ds : nodirs ds -> print_directives o ds = [].
  Proof.
    unfold nodirs, custom_dirs, print_directives. intros H.
    destruct (custom_enabled o); [|reflexivity].
    assert (Hf : filter (fun d => include_custom o (n_val (d_name d))) ds = []).
    { induction ds as [|d ds IH]; [reflexivity|]. cbn [filter] in *.
      destruct (mem_str (n_val (d_name d)) specified_directive_names) eqn:Hm; cbn [negb] in H; [|discriminate].
      unfold include_custom at 1. rewrite Hm. apply IH; exact H. }
    rewrite Hf. reflexivity.
  Qed.

  Definition iv_text (a : sivalue) : str := siv_name a ++ lit ": " ++ print_tref (siv_type a).

  Lemma iv_text_facts a : plain_siv a -> has_lf (iv_text a) = false /\ tight (iv_text a).
  Proof.
    intros (_ & _ & _ & Hn & Ht). destruct (vname_nolf _ Hn) as (N1 & N2 & N3).
    destruct (print_tref_facts _ Ht) as [T1 T2]. unfold iv_text. split.
    - rewrite !has_lf_app, N1, T1. reflexivity.
    - apply tight_mid; [apply nospace_tight; assumption|exact T2].
  Qed.

  Lemma print_input_value_plain a : plain_siv a -> print_input_value o E fuel a = Ok (iv_text a).
  Proof.
    intros Hp. pose proof Hp as (Hd & _ & Hn & _). unfold print_input_value. rewrite Hd. cbn [obind].
    rewrite (print_directives_nodirs _ Hn), !app_nil_r. f_equal.
    exact (proj1 (strip_tight _ (proj2 (iv_text_facts a Hp)))).
  Qed.

  Lemma pr_input_value_plain a : pr_input_value_def cf (iv_of a) = iv_text a.
  Proof.
    unfold pr_input_value_def, iv_of, iv_text. cbn [iv_name iv_type iv_default iv_dirs mk_name n_val].
    rewrite <- print_tref_pr_type. unfold pr_directives. cbn [map]. unfold p_wrap at 1 2.
    change (p_join [] (lit " ")) with (@nil N). cbn [is_empty].
    rewrite !p_join_nosep. cbn [concat]. rewrite !app_nil_r. reflexivity.
  Qed.

  (* arguments, inline *)
  Definition args_text (args : list sivalue) : str :=
    match args with
    | [] => []
    | _ => lit "(" ++ join (lit ", ") (map iv_text args) ++ lit ")"
    end.

  Lemma has_lf_join sep (l : list str) :
    has_lf sep = false -> Forall (fun x => has_lf x = false) l -> has_lf (join sep l) = false.
  Proof.
    intros Hs H. induction H as [|x l Hx Hl IH]; [reflexivity|].
    destruct l as [|y l]; [exact Hx|]. change (join sep (x :: y :: l)) with (x ++ sep ++ join sep (y :: l)).
    rewrite !has_lf_app, Hx, Hs, IH. reflexivity.
  Qed.

  Lemma args_text_nolf args : Forall plain_siv args -> has_lf (args_text args) = false.
  Proof.
    intros H. unfold args_text. destruct args as [|a r]; [reflexivity|].
    rewrite !has_lf_app. cbn [has_lf existsb lit str_of_string].
    rewrite has_lf_join; [reflexivity|reflexivity|].
    apply Forall_forall; intros x Hx. apply in_map_iff in Hx. destruct Hx as [b [<- Hb]].
    rewrite Forall_forall in H. apply (iv_text_facts b (H b Hb)).
  Qed.

  Lemma no_arg_descs args :
    Forall plain_siv args ->
    existsb (fun a => match siv_desc a with Some (_ :: _) => true | _ => false end) args = false.
  Proof.
    induction 1 as [|a l Ha Hl IH]; [reflexivity|]. cbn [existsb].
    destruct Ha as (_ & Hd & _). rewrite Hd, IH. reflexivity.
  Qed.

  Lemma print_arguments_plain args depth :
    Forall plain_siv args -> print_arguments o E fuel args depth = Ok (args_text args).
  Proof.
    intros H. unfold print_arguments, args_text. destruct args as [|a r]; [reflexivity|].
    rewrite (no_arg_descs _ H), Bool.andb_false_r.
    assert (Ho : omap (print_input_value o E fuel) (a :: r) = Ok (map iv_text (a :: r))).
    { clear -H. induction H as [|x l Hx Hl IH]; [reflexivity|]. cbn [omap map].
      rewrite (print_input_value_plain x Hx). cbn [obind]. rewrite IH. reflexivity. }
    rewrite Ho. reflexivity.
  Qed.

  Lemma pr_arg_defs_plain args : Forall plain_siv args -> pr_arg_defs cf (map iv_of args) = args_text args.
  Proof.
    intros H. unfold pr_arg_defs, args_text. rewrite map_map.
    rewrite (map_ext _ iv_text) by (intros; apply pr_input_value_plain).
    assert (Hn : existsb has_lf (map iv_text args) = false).
    { clear -H. induction H as [|x l Hx Hl IH]; [reflexivity|]. cbn [map existsb].
      rewrite (proj1 (iv_text_facts x Hx)), IH. reflexivity. }
    rewrite Hn. destruct args as [|a r]; [reflexivity|].
    rewrite p_join_all.
    - unfold p_wrap. destruct (join (lit ", ") (map iv_text (a :: r))) eqn:Hj; [|reflexivity].
      exfalso. cbn [map] in Hj. destruct (proj2 (iv_text_facts a (Forall_inv H))) as [Hne _].
      destruct (map iv_text r); cbn [join] in Hj; [congruence|]. apply app_eq_nil in Hj. tauto.
    - apply Forall_forall; intros x Hx. apply in_map_iff in Hx. destruct Hx as [b [<- Hb]].
      rewrite Forall_forall in H. apply (proj2 (iv_text_facts b (H b Hb))).
  Qed.

  (* deprecations *)
  Lemma json_char_nolf c : has_lf (PrinterModel.json_char c) = false.
  Proof.
    unfold PrinterModel.json_char, PrinterModel.QUOTE, PrinterModel.BSLASH.
    assert (Hh : forall n, (PrinterModel.hex_digit n =? 10)%N = false).
    { intros n. unfold PrinterModel.hex_digit. destruct (n <? 10)%N; apply N.eqb_neq; lia. }
    destruct (c =? 34)%N; [reflexivity|]. destruct (c =? 92)%N; [reflexivity|].
    destruct (c =? 10)%N eqn:H10; [reflexivity|]. destruct (c =? 13)%N; [reflexivity|].
    destruct (c =? 9)%N; [reflexivity|]. destruct (c =? 8)%N; [reflexivity|]. destruct (c =? 12)%N; [reflexivity|].
    destruct (c <? 32)%N.
    - unfold has_lf; cbn [existsb]. unfold PrinterModel.LF. rewrite !Hh. reflexivity.
    - unfold has_lf; cbn [existsb]. unfold PrinterModel.LF. rewrite H10. reflexivity.
  Qed.

  Lemma json_quote_nolf r : has_lf (json_quote r) = false.
  Proof.
    unfold json_quote.
    assert (H : has_lf (flat_map PrinterModel.json_char r) = false).
    { induction r as [|c r IH]; [reflexivity|]. cbn [flat_map]. rewrite has_lf_app, json_char_nolf, IH. reflexivity. }
    change (PrinterModel.QUOTE :: flat_map PrinterModel.json_char r ++ [PrinterModel.QUOTE])
      with ([PrinterModel.QUOTE] ++ flat_map PrinterModel.json_char r ++ [PrinterModel.QUOTE]).
    rewrite !has_lf_app, H. reflexivity.
  Qed.

  Lemma deprecated_text dep :
    p_wrap (lit " ") (pr_directives cf (deprecated_dir dep)) [] = print_deprecated dep
    /\ has_lf (print_deprecated dep) = false
    /\ (print_deprecated dep <> [] -> py_space (last (print_deprecated dep) 0%N) = false).
  Proof.
    destruct dep as [r|]; [|repeat split; try reflexivity; intros H; congruence].
    unfold deprecated_dir, print_deprecated.
    destruct (str_eqb r default_deprecation).
    - repeat split; try reflexivity.
    - unfold pr_directives, pr_directive, pr_arguments, pr_argument. cbn [map d_name d_args a_name a_val mk_name n_val].
      unfold json_string. cbn [pr_value pr_string].
      repeat split.
      + unfold p_join; cbn [filter is_empty negb join_ne]. unfold p_wrap. cbn [is_empty app].
        rewrite ?app_nil_r. cbn [app]. rewrite <- ?app_assoc. cbn [app]. reflexivity.
      + rewrite !has_lf_app, json_quote_nolf. reflexivity.
      + intros _. rewrite !app_assoc, last_app_ne by discriminate. reflexivity.
  Qed.

  (* generic pieces *)
  Lemma imap_ok {A B} (f : nat -> A -> outcome B) (g : A -> B) l :
    (forall i x, In x l -> f i x = Ok (g x)) -> imap f l = Ok (map g l).
  Proof.
    unfold imap. generalize 0. induction l as [|x l IH]; intros n H; [reflexivity|].
    rewrite (H n x (or_introl eq_refl)). cbn [obind].
    rewrite IH by (intros; apply H; right; assumption). reflexivity.
  Qed.

  Lemma join_ne_ne (l : list str) sep : l <> [] -> Forall (fun x => x <> []) l -> join sep l <> [].
  Proof.
    intros Hne H. destruct l as [|x l]; [congruence|]. inversion H; subst.
    destruct l; cbn [join]; [assumption|]. intros He. apply app_eq_nil in He. tauto.
  Qed.

  Lemma p_join_skip l sep : p_join ([] :: l) sep = p_join l sep.
  Proof. reflexivity. Qed.

  Lemma p_join_keep x l sep : x <> [] -> p_join (x :: l) sep = x ++ p_wrap sep (p_join l sep) [].
  Proof.
    intros Hx. rewrite p_join_cons. destruct x as [|c r]; [congruence|]. cbn [is_empty].
    unfold p_wrap. destruct (p_join l sep); cbn [is_empty]; rewrite ?app_nil_r; reflexivity.
  Qed.

  Lemma block_text (texts : list str) :
    texts <> [] -> Forall (fun t => t <> [] /\ has_lf t = false) texts ->
    p_block texts (po_indent o)
    = lit "{" ++ [PrinterModel.LF] ++ join [PrinterModel.LF] (map (fun t => po_indent o ++ t) texts)
      ++ [PrinterModel.LF] ++ lit "}".
  Proof.
    intros Hne H. unfold p_block. destruct texts as [|t ts]; [congruence|].
    rewrite (map_ext_in (fun s => p_indent s (po_indent o)) (fun t => po_indent o ++ t)).
    2:{ intros x Hx. rewrite Forall_forall in H. destruct (H x Hx). apply p_indent_nolf; assumption. }
    rewrite p_join_all; [reflexivity|].
    apply Forall_forall; intros x Hx. apply in_map_iff in Hx. destruct Hx as [y [<- Hy]].
    rewrite Forall_forall in H. destruct (H y Hy) as [Hy1 _]. intros He. apply app_eq_nil in He. tauto.
  Qed.

  (* fields *)
  Definition plain_sf (f : sfield) : Prop :=
    sf_desc f = None /\ nodirs (sf_dirs f) /\ vname (sf_name f) /\ wf_tref (sf_type f)
    /\ Forall plain_siv (sf_args f).

  Definition fd_of (f : sfield) : field_def :=
    FDef None (mk_name (sf_name f)) (map iv_of (sf_args f)) (ty_of_tref (sf_type f))
         (deprecated_dir (sf_dep f)) None.

  Lemma omap_ivdefs args : Forall plain_siv args -> omap (ivdef_of E) args = Ok (map iv_of args).
  Proof.
    induction 1 as [|a l Ha Hl IH]; [reflexivity|]. cbn [omap map].
    rewrite (ivdef_of_plain E a Ha). cbn [obind]. rewrite IH. reflexivity.
  Qed.

  Lemma fdef_of_plain f : plain_sf f -> fdef_of E f = Ok (fd_of f).
  Proof.
    intros (Hd & Hn & _ & _ & Ha). unfold fdef_of, fd_of. rewrite (omap_ivdefs _ Ha). cbn [obind].
    rewrite Hd. unfold nodirs in Hn. rewrite Hn, app_nil_r. reflexivity.
  Qed.

  Definition ft (f : sfield) : str :=
    sf_name f ++ args_text (sf_args f) ++ lit ": " ++ print_tref (sf_type f) ++ print_deprecated (sf_dep f).

  Lemma ft_facts f : plain_sf f ->
    pr_field_def cf (fd_of f) = ft f /\ has_lf (ft f) = false /\ ft f <> []
    /\ py_space (last (ft f) 0%N) = false.
  Proof.
    intros (Hd & Hn & Hname & Ht & Ha).
    destruct (vname_nolf _ Hname) as (N1 & N2 & N3). destruct (print_tref_facts _ Ht) as [T1 (T2 & T3 & T4)].
    destruct (deprecated_text (sf_dep f)) as (D1 & D2 & D3).
    repeat split.
    - unfold pr_field_def, fd_of, ft. cbn [fd_name fd_args fd_type fd_dirs mk_name n_val].
      rewrite p_join_nosep. cbn [concat]. rewrite (pr_arg_defs_plain _ Ha), <- print_tref_pr_type, D1, app_nil_r.
      reflexivity.
    - unfold ft. rewrite !has_lf_app, N1, (args_text_nolf _ Ha), T1, D2. reflexivity.
    - unfold ft. intros He. apply app_eq_nil in He. tauto.
    - unfold ft. destruct (print_deprecated (sf_dep f)) as [|c r] eqn:Hdep.
      + rewrite app_nil_r, !app_assoc, last_app_ne by exact T2. exact T4.
      + rewrite !app_assoc, last_app_ne by discriminate. apply D3. discriminate.
  Qed.

  Lemma print_fields_plain fs :
    Forall plain_sf fs ->
    print_fields o E fuel fs = Ok (join nl (map (fun f => po_indent o ++ ft f) fs)).
  Proof.
    intros H. unfold print_fields.
    rewrite (imap_ok _ (fun f => po_indent o ++ ft f)); [reflexivity|].
    intros i f Hf. rewrite Forall_forall in H. pose proof (H f Hf) as Hp.
    destruct Hp as (Hd & Hn & _ & _ & Ha). rewrite (print_arguments_plain _ 1 Ha). cbn [obind].
    rewrite Hd. cbn [print_description app]. rewrite (print_directives_nodirs _ Hn), app_nil_r. f_equal.
    destruct (ft_facts f (H f Hf)) as (_ & _ & Hne & Hl).
    change (po_indent o ++ sf_name f ++ args_text (sf_args f) ++ lit ": " ++ print_tref (sf_type f)
            ++ print_deprecated (sf_dep f)) with (po_indent o ++ ft f).
    apply rstrip_id.
    - intros He. apply app_eq_nil in He. tauto.
    - rewrite last_app_ne by exact Hne. exact Hl.
  Qed.

  (* enum values *)
  Definition plain_sev (v : sevalue) : Prop :=
    sev_desc v = None /\ nodirs (sev_dirs v) /\ vname (sev_name v) /\ ~ is_reserved (sev_name v).

  Definition ev_of (v : sevalue) : enum_value_def :=
    EVDef None (mk_name (sev_name v)) (deprecated_dir (sev_dep v)) None.

  Lemma evdef_of_plain v : plain_sev v -> evdef_of v = ev_of v.
  Proof.
    intros (Hd & Hn & _). unfold evdef_of, ev_of. rewrite Hd. unfold nodirs in Hn. rewrite Hn, app_nil_r. reflexivity.
  Qed.

  Definition et (v : sevalue) : str := sev_name v ++ print_deprecated (sev_dep v).

  Lemma p_join_single (x sep : str) : p_join [x] sep = x.
  Proof. unfold p_join. destruct x; reflexivity. Qed.

  Lemma et_facts v : plain_sev v ->
    pr_enum_value_def cf (ev_of v) = et v /\ has_lf (et v) = false /\ et v <> []
    /\ py_space (last (et v) 0%N) = false.
  Proof.
    intros (_ & _ & Hname & _). destruct (vname_nolf _ Hname) as (N1 & N2 & N3).
    destruct (deprecated_text (sev_dep v)) as (D1 & D2 & D3).
    repeat split.
    - unfold pr_enum_value_def, ev_of, et. cbn [ev_name ev_dirs mk_name n_val].
      rewrite (p_join_keep _ _ _ N3), p_join_single, D1. reflexivity.
    - unfold et. rewrite has_lf_app, N1, D2. reflexivity.
    - unfold et. intros He. apply app_eq_nil in He. tauto.
    - unfold et. destruct (print_deprecated (sev_dep v)) as [|c r] eqn:Hdep.
      + rewrite app_nil_r. apply (nospace_tight _ N3 N2).
      + rewrite last_app_ne by discriminate. apply D3. discriminate.
  Qed.

  (* the six kinds *)
  Definition plain_tdef (t : tdef) : Prop :=
    tdef_desc t = None /\ nodirs (tdef_dirs t) /\ vname (tdef_name t) /\
    match t with
    | TScalar _ _ _ => True
    | TObject _ _ is_ fs _ => fs <> [] /\ Forall plain_sf fs /\ Forall (fun n => vname n) is_
    | TInterface _ _ fs _ => fs <> [] /\ Forall plain_sf fs
    | TUnion _ _ ms _ => ms <> [] /\ Forall (fun n => vname n) ms
    | TEnum _ _ vs _ => vs <> [] /\ Forall plain_sev vs
    | TInput _ _ fs _ => fs <> [] /\ Forall plain_siv fs
    end.

  Definition def1_of (t : tdef) : definition :=
    match t with
    | TScalar n _ _ => DScalar false None (mk_name n) [] None
    | TObject n _ is_ fs _ => DObject false None (mk_name n) (map named_ty is_) [] (map fd_of fs) None
    | TInterface n _ fs _ => DInterface false None (mk_name n) [] (map fd_of fs) None
    | TUnion n _ ms _ => DUnion false None (mk_name n) [] (map named_ty ms) None
    | TEnum n _ vs _ => DEnum false None (mk_name n) [] (map ev_of vs) None
    | TInput n _ fs _ => DInput false None (mk_name n) [] (map iv_of fs) None
    end.

  Lemma omap_fdefs fs : Forall plain_sf fs -> omap (fdef_of E) fs = Ok (map fd_of fs).
  Proof.
    induction 1 as [|a l Ha Hl IH]; [reflexivity|]. cbn [omap map].
    rewrite (fdef_of_plain a Ha). cbn [obind]. rewrite IH. reflexivity.
  Qed.

  Lemma def_of_tdef_plain t : plain_tdef t -> def_of_tdef E t = Ok (def1_of t).
  Proof.
    intros (Hd & Hn & _ & Hk). unfold nodirs in Hn.
    destruct t; cbn [tdef_desc tdef_dirs] in *; subst; cbn [def_of_tdef def1_of strval_of]; rewrite Hn.
    - reflexivity.
    - destruct Hk as (_ & Hf & _). rewrite (omap_fdefs _ Hf). reflexivity.
    - destruct Hk as (_ & Hf). rewrite (omap_fdefs _ Hf). reflexivity.
    - reflexivity.
    - destruct Hk as (_ & Hv). do 2 f_equal. apply map_ext_in. intros v Hv'. rewrite Forall_forall in Hv.
      apply evdef_of_plain; auto.
    - destruct Hk as (_ & Hf). rewrite (omap_ivdefs _ Hf). reflexivity.
  Qed.

  Definition block_of (texts : list str) : str :=
    lit " {" ++ nl ++ join nl (map (fun t => po_indent o ++ t) texts) ++ nl ++ lit "}".

  Definition type_text (t : tdef) : str :=
    match t with
    | TScalar n _ _ => lit "scalar " ++ n
    | TObject n _ is_ fs _ =>
        lit "type " ++ n ++ (match is_ with [] => [] | _ => lit " implements " ++ join (lit " & ") is_ end)
        ++ block_of (map ft fs)
    | TInterface n _ fs _ => lit "interface " ++ n ++ block_of (map ft fs)
    | TUnion n _ ms _ => lit "union " ++ n ++ lit " = " ++ join (lit " | ") ms
    | TEnum n _ vs _ => lit "enum " ++ n ++ block_of (map et vs)
    | TInput n _ fs _ => lit "input " ++ n ++ block_of (map iv_text fs)
    end.

  Lemma print_type_plain t : plain_tdef t -> print_type o E fuel t = Ok (type_text t).
  Proof.
    intros (Hd & Hn & _ & Hk).
    destruct t; cbn [tdef_desc tdef_dirs] in *; subst; cbn [print_type type_text print_description];
      rewrite (print_directives_nodirs _ Hn).
    - rewrite app_nil_r. reflexivity.
    - destruct Hk as (_ & Hf & _). rewrite (print_fields_plain _ Hf). cbn [obind app].
      unfold block_of. rewrite map_map. rewrite <- ?app_assoc. reflexivity.
    - destruct Hk as (_ & Hf). rewrite (print_fields_plain _ Hf). cbn [obind app].
      unfold block_of. rewrite map_map. rewrite <- ?app_assoc. reflexivity.
    - cbn [app]. rewrite <- ?app_assoc. reflexivity.
    - destruct Hk as (_ & Hv). cbn [app]. unfold block_of. rewrite map_map. do 2 f_equal.
      rewrite <- ?app_assoc. do 4 f_equal.
      assert (Hl : forall vs0 i, Forall plain_sev vs0 ->
                 (fix go (i : nat) (vs : list sevalue) : list str :=
                    match vs with
                    | [] => []
                    | v :: r =>
                        rstrip (print_description o (sev_desc v) 1 (Nat.eqb i 0) ++ po_indent o
                                ++ sev_name v ++ print_deprecated (sev_dep v)
                                ++ print_directives o (sev_dirs v)) :: go (S i) r
                    end) i vs0 = map (fun v => po_indent o ++ et v) vs0).
      { clear Hv. intros vs. induction vs as [|v vs IH]; intros i H; [reflexivity|]. inversion H as [|? ? Hv Hr]; subst.
        rewrite (IH (S i) Hr). cbn [map]. f_equal.
        pose proof Hv as (Hd' & Hn' & _). rewrite Hd'. cbn [print_description app].
        rewrite (print_directives_nodirs _ Hn'), app_nil_r.
        destruct (et_facts v Hv) as (_ & _ & Hne & Hl).
        change (po_indent o ++ sev_name v ++ print_deprecated (sev_dep v)) with (po_indent o ++ et v).
        apply rstrip_id; [intros He; apply app_eq_nil in He; tauto|].
        rewrite last_app_ne by exact Hne. exact Hl. }
      rewrite (Hl _ 0 Hv). reflexivity.
    - destruct Hk as (_ & Hf).
      rewrite (imap_ok _ (fun f => po_indent o ++ iv_text f)).
      + cbn [obind app]. unfold block_of. rewrite map_map. rewrite <- ?app_assoc. reflexivity.
      + intros i f Hin. rewrite Forall_forall in Hf. pose proof (Hf f Hin) as Hp.
        rewrite (print_input_value_plain f Hp). cbn [obind].
        destruct Hp as (_ & Hde & _). rewrite Hde. reflexivity.
  Qed.

  (* the same texts from the ASTPrinter model *)
  Lemma names_join (sep : str) ns :
    Forall (fun n => vname n) ns -> p_join (map pr_type (map named_ty ns)) sep = join sep ns.
  Proof.
    intros H. rewrite map_map. cbn [pr_type named_ty mk_name n_val]. rewrite map_id.
    apply p_join_all. apply Forall_forall; intros n Hn. rewrite Forall_forall in H.
    apply (vname_nolf n (H n Hn)).
  Qed.

  Lemma block_of_text texts :
    texts <> [] -> Forall (fun t => t <> [] /\ has_lf t = false) texts ->
    lit " " ++ p_block texts (po_indent o) = block_of texts.
  Proof. intros Hne H. rewrite (block_text texts Hne H). reflexivity. Qed.

  Lemma block_ne texts : texts <> [] -> p_block texts (po_indent o) <> [].
  Proof. intros H. unfold p_block. destruct texts; [congruence|discriminate]. Qed.

  Lemma p_join_filter l sep : p_join l sep = join sep (filter (fun x => negb (is_empty x)) l).
  Proof. unfold p_join; apply join_ne_join. Qed.

  Lemma fields_block fs :
    fs <> [] -> Forall plain_sf fs ->
    lit " " ++ p_block (map (pr_field_def cf) (map fd_of fs)) (c_indent cf) = block_of (map ft fs)
    /\ p_block (map (pr_field_def cf) (map fd_of fs)) (c_indent cf) <> [].
  Proof.
    intros Hne Hf.
    assert (Hb : map (pr_field_def cf) (map fd_of fs) = map ft fs).
    { rewrite map_map. apply map_ext_in. intros f Hfin. rewrite Forall_forall in Hf. apply (ft_facts f (Hf f Hfin)). }
    rewrite Hb. split; [|apply block_ne; destruct fs; [congruence|discriminate]].
    apply block_of_text; [destruct fs; [congruence|discriminate]|].
    apply Forall_forall; intros x Hx. apply in_map_iff in Hx. destruct Hx as [f [<- Hfin]].
    rewrite Forall_forall in Hf. destruct (ft_facts f (Hf f Hfin)) as (_ & H1 & H2 & _). auto.
  Qed.

  Lemma values_block vs :
    vs <> [] -> Forall plain_sev vs ->
    lit " " ++ p_block (map (pr_enum_value_def cf) (map ev_of vs)) (c_indent cf) = block_of (map et vs)
    /\ p_block (map (pr_enum_value_def cf) (map ev_of vs)) (c_indent cf) <> [].
  Proof.
    intros Hne Hf.
    assert (Hb : map (pr_enum_value_def cf) (map ev_of vs) = map et vs).
    { rewrite map_map. apply map_ext_in. intros f Hfin. rewrite Forall_forall in Hf. apply (et_facts f (Hf f Hfin)). }
    rewrite Hb. split; [|apply block_ne; destruct vs; [congruence|discriminate]].
    apply block_of_text; [destruct vs; [congruence|discriminate]|].
    apply Forall_forall; intros x Hx. apply in_map_iff in Hx. destruct Hx as [f [<- Hfin]].
    rewrite Forall_forall in Hf. destruct (et_facts f (Hf f Hfin)) as (_ & H1 & H2 & _). auto.
  Qed.

  Lemma ifields_block fs :
    fs <> [] -> Forall plain_siv fs ->
    lit " " ++ p_block (map (pr_input_value_def cf) (map iv_of fs)) (c_indent cf) = block_of (map iv_text fs)
    /\ p_block (map (pr_input_value_def cf) (map iv_of fs)) (c_indent cf) <> [].
  Proof.
    intros Hne Hf.
    assert (Hb : map (pr_input_value_def cf) (map iv_of fs) = map iv_text fs).
    { rewrite map_map. apply map_ext. intros f. apply pr_input_value_plain. }
    rewrite Hb. split; [|apply block_ne; destruct fs; [congruence|discriminate]].
    apply block_of_text; [destruct fs; [congruence|discriminate]|].
    apply Forall_forall; intros x Hx. apply in_map_iff in Hx. destruct Hx as [f [<- Hfin]].
    rewrite Forall_forall in Hf. destruct (iv_text_facts f (Hf f Hfin)) as (H1 & H2 & _). auto.
  Qed.

  Lemma pr_definition_plain t : plain_tdef t -> pr_definition cf (def1_of t) = type_text t.
  Proof.
    intros (_ & _ & Hname & Hk). destruct (vname_nolf _ Hname) as (_ & _ & Hne).
    destruct t as [n d ds|n d ifaces fs ds|n d fs ds|n d members ds|n d vs ds|n d fs ds];
      cbn [tdef_name] in *; cbn [def1_of pr_definition with_desc type_text mk_name n_val kw];
      destruct n as [|c0 n]; try congruence;
      change (pr_directives cf []) with (@nil N); rewrite p_join_filter.
    - reflexivity.
    - destruct Hk as (Hfne & Hf & Hi). destruct (fields_block fs Hfne Hf) as [Hb Hbn].
      rewrite (names_join _ _ Hi).
      destruct (p_block (map (pr_field_def cf) (map fd_of fs)) (c_indent cf)) as [|b0 br] eqn:Hbe; [congruence|].
      rewrite <- Hb. destruct ifaces as [|i0 ir].
      + cbn [join p_wrap is_empty filter negb]. cbn [join app lit str_of_string]. reflexivity.
      + assert (Hj : join (lit " & ") (i0 :: ir) <> []).
        { apply join_ne_ne; [discriminate|]. apply Forall_forall; intros x Hx. rewrite Forall_forall in Hi.
          apply (vname_nolf x (Hi x Hx)). }
        unfold p_wrap. destruct (join (lit " & ") (i0 :: ir)) as [|j0 jr] eqn:Hje; [congruence|].
        cbn [is_empty filter negb app lit str_of_string]. cbn [join]. rewrite app_nil_r.
        cbn [app]. rewrite <- ?app_assoc. reflexivity.
    - destruct Hk as (Hfne & Hf). destruct (fields_block fs Hfne Hf) as [Hb Hbn].
      destruct (p_block (map (pr_field_def cf) (map fd_of fs)) (c_indent cf)) as [|b0 br] eqn:Hbe; [congruence|].
      rewrite <- Hb. cbn [filter is_empty negb join app lit str_of_string]. reflexivity.
    - destruct Hk as (Hmne & Hm). rewrite (names_join _ _ Hm).
      assert (Hj : join (lit " | ") members <> []).
      { apply join_ne_ne; [exact Hmne|]. apply Forall_forall; intros x Hx. rewrite Forall_forall in Hm.
        apply (vname_nolf x (Hm x Hx)). }
      unfold p_wrap. destruct (join (lit " | ") members) as [|j0 jr] eqn:Hje; [congruence|].
      cbn [is_empty filter negb app lit str_of_string join]. rewrite app_nil_r. cbn [app].
      rewrite <- ?app_assoc. reflexivity.
    - destruct Hk as (Hvne & Hv). destruct (values_block vs Hvne Hv) as [Hb Hbn].
      destruct (p_block (map (pr_enum_value_def cf) (map ev_of vs)) (c_indent cf)) as [|b0 br] eqn:Hbe; [congruence|].
      rewrite <- Hb. cbn [filter is_empty negb join app lit str_of_string]. reflexivity.
    - destruct Hk as (Hfne & Hf). destruct (ifields_block fs Hfne Hf) as [Hb Hbn].
      destruct (p_block (map (pr_input_value_def cf) (map iv_of fs)) (c_indent cf)) as [|b0 br] eqn:Hbe; [congruence|].
      rewrite <- Hb. cbn [filter is_empty negb join app lit str_of_string]. reflexivity.
  Qed.

  (* directive definitions *)
  Definition plain_ddef (d : ddef) : Prop :=
    dd_desc d = None /\ vname (dd_name d) /\ Forall plain_siv (dd_args d)
    /\ dd_locs d <> [] /\ Forall (fun l => vname l) (dd_locs d).

  Definition ddef1_of (d : ddef) : definition :=
    DDirective None (mk_name (dd_name d)) (map iv_of (dd_args d)) (map mk_name (dd_locs d)) None.

  Definition ddef_text (d : ddef) : str :=
    lit "directive @" ++ dd_name d ++ args_text (dd_args d) ++ lit " on " ++ join (lit " | ") (dd_locs d).

  Lemma def_of_ddef_plain d : plain_ddef d -> def_of_ddef E d = Ok (ddef1_of d).
  Proof.
    intros (Hd & _ & Ha & _). unfold def_of_ddef, ddef1_of. rewrite (omap_ivdefs _ Ha). cbn [obind].
    rewrite Hd. reflexivity.
  Qed.

  Lemma print_ddef_plain d : plain_ddef d -> print_directive_definition o E fuel d = Ok (ddef_text d).
  Proof.
    intros (Hd & _ & Ha & _). unfold print_directive_definition, ddef_text.
    rewrite (print_arguments_plain _ 0 Ha). cbn [obind]. rewrite Hd. reflexivity.
  Qed.

  Lemma pr_ddef_plain d : plain_ddef d -> pr_definition cf (ddef1_of d) = ddef_text d.
  Proof.
    intros (_ & Hn & Ha & Hlne & Hl). unfold ddef1_of, ddef_text.
    cbn [pr_definition with_desc mk_name n_val]. rewrite p_join_nosep. cbn [concat].
    rewrite (pr_arg_defs_plain _ Ha), map_map. cbn [mk_name n_val]. rewrite map_id.
    rewrite p_join_all, app_nil_r; [reflexivity|].
    apply Forall_forall; intros x Hx. rewrite Forall_forall in Hl. apply (vname_nolf x (Hl x Hx)).
  Qed.
End Texts.

(* ------------------------------------------------------------------ *)
(* the schema definition and the document                               *)

Lemma insert_by_in {A} (key : A -> str) x y l : In x (insert_by key y l) <-> x = y \/ In x l.
Proof.
  induction l as [|z l IH]; cbn [insert_by]; [simpl; intuition congruence|].
  destruct (str_leb (key z) (key y)); cbn [In]; [rewrite IH|]; intuition congruence.
Qed.

Lemma sort_by_in {A} (key : A -> str) l x : In x (sort_by key l) <-> In x l.
Proof.
  unfold sort_by.
  assert (H : forall acc, In x (fold_left (fun a y => insert_by key y a) l acc) <-> In x acc \/ In x l).
  { induction l as [|y l IH]; intros acc; cbn [fold_left]; [simpl; tauto|].
    rewrite IH, insert_by_in. cbn [In]. intuition congruence. }
  rewrite H. simpl; tauto.
Qed.

Lemma sort_by_Forall {A} (P : A -> Prop) key l : Forall P l -> Forall P (sort_by key l).
Proof. intros H. apply Forall_forall; intros x Hx. apply sort_by_in in Hx. rewrite Forall_forall in H; auto. Qed.

Definition plain_roots (sc : schema) : Prop :=
  nodirs (s_dirs sc)
  /\ (exists q, s_query sc = Some q /\ vname q)
  /\ (forall m, s_mutation sc = Some m -> vname m)
  /\ (forall m, s_subscription sc = Some m -> vname m).

Definition plain_schema (sc : schema) : Prop :=
  Forall plain_tdef (s_types sc) /\ Forall plain_ddef (s_ddefs sc) /\ plain_roots sc /\ s_types sc <> [].

Definition ot_of (k : op_kind) (r : option str) : list op_type_def :=
  match r with Some n => [OTDef k (named_ty n) None] | None => [] end.

Definition sdef_of (sc : schema) : definition :=
  DSchema false [] (ot_of OpQuery (s_query sc) ++ ot_of OpMutation (s_mutation sc)
                    ++ ot_of OpSubscription (s_subscription sc)) None.

Definition op_line (k : string) (r : option str) : list str :=
  match r with Some n => [lit k ++ lit ": " ++ n] | None => [] end.

Section Doc.
  Variable o : popts.
  Let cf := Cfg (po_indent o) true.

  Definition sdef_text (sc : schema) : str :=
    lit "schema" ++ block_of o (op_line "query" (s_query sc) ++ op_line "mutation" (s_mutation sc)
                               ++ op_line "subscription" (s_subscription sc)).

  Lemma print_schema_definition_plain sc :
    plain_roots sc ->
    print_schema_definition o sc = if schema_def_needed sc then sdef_text sc else [].
  Proof.
    intros (Hn & _). unfold print_schema_definition, schema_def_needed.
    rewrite (print_directives_nodirs o _ Hn). unfold nodirs in Hn. rewrite Hn. cbn [nonempty negb andb].
    rewrite Bool.orb_false_r.
    destruct (root_is_default sc (s_query sc) (S_ "Query") && root_is_default sc (s_mutation sc) (S_ "Mutation")
              && root_is_default sc (s_subscription sc) (S_ "Subscription")); cbn [negb]; [reflexivity|].
    unfold sdef_text, block_of. cbn [app].
    destruct (s_query sc), (s_mutation sc), (s_subscription sc); cbn [op_line map app]; reflexivity.
  Qed.

  Lemma pr_sdef_plain sc : plain_roots sc -> pr_definition cf (sdef_of sc) = sdef_text sc.
  Proof.
    intros (_ & (q & Hq & Hqn) & Hm & Hs). unfold sdef_of, sdef_text.
    cbn [pr_definition kw]. change (pr_directives cf []) with (@nil N). rewrite p_join_filter.
    set (lines := op_line "query" (s_query sc) ++ op_line "mutation" (s_mutation sc)
                  ++ op_line "subscription" (s_subscription sc)).
    assert (Hl : map pr_op_type_def (ot_of OpQuery (s_query sc) ++ ot_of OpMutation (s_mutation sc)
                                          ++ ot_of OpSubscription (s_subscription sc)) = lines).
    { unfold lines. destruct (s_query sc), (s_mutation sc), (s_subscription sc); reflexivity. }
    rewrite Hl.
    assert (Hne : lines <> []) by (unfold lines; rewrite Hq; discriminate).
    assert (Hall : Forall (fun t => t <> [] /\ has_lf t = false) lines).
    { unfold lines. rewrite Hq. apply Forall_forall; intros x Hx. cbn [op_line app] in Hx.
      assert (Hline : forall (k : string) n, vname n -> has_lf (lit k) = false ->
                lit k ++ lit ": " ++ n <> [] /\ has_lf (lit k ++ lit ": " ++ n) = false).
      { intros k n Hn Hk. destruct (vname_nolf n Hn) as (N1 & _ & N3). split.
        - intros He. apply app_eq_nil in He. destruct He as [_ He]. apply app_eq_nil in He. tauto.
        - rewrite !has_lf_app, Hk, N1. reflexivity. }
      destruct Hx as [<-|Hx]; [apply Hline; [exact Hqn|reflexivity]|].
      apply in_app_or in Hx. destruct Hx as [Hx|Hx].
      - destruct (s_mutation sc) as [m|] eqn:Hme; [|contradiction]. destruct Hx as [<-|[]].
        apply Hline; [apply Hm; reflexivity|reflexivity].
      - destruct (s_subscription sc) as [m|] eqn:Hse; [|contradiction]. destruct Hx as [<-|[]].
        apply Hline; [apply Hs; reflexivity|reflexivity]. }
    pose proof (block_of_text o lines Hne Hall) as Hb.
    pose proof (block_ne o lines Hne) as Hbn.
    destruct (p_block lines (po_indent o)) as [|b0 br] eqn:Hbe; [congruence|].
    change (c_indent cf) with (po_indent o). rewrite Hbe.
    cbn [filter is_empty negb join app lit str_of_string]. rewrite <- Hb. reflexivity.
  Qed.

  Lemma pr_defs_map ds :
    Forall (fun d => starts_brace (pr_definition cf d) = false) ds ->
    forall prev, pr_defs cf prev ds = map (pr_definition cf) ds.
  Proof.
    induction 1 as [|d ds Hd Hds IH]; intros prev; [reflexivity|].
    cbn [pr_defs map]. rewrite Hd. cbn [andb]. rewrite IH. reflexivity.
  Qed.

  Theorem print_is_print_ast intro spec sc :
    plain_schema sc -> po_introspection o = false ->
    exists d, ast_of_schema sc = Ok d
              /\ print_schema intro spec o sc = Ok (print_ast (po_indent o) true d).
  Proof.
    intros (Ht & Hd & Hr & Hne) Hi.
    set (st := sort_by tdef_name (s_types sc)). set (sd := sort_by dd_name (s_ddefs sc)).
    assert (Hst : Forall plain_tdef st) by (apply sort_by_Forall; exact Ht).
    assert (Hsd : Forall plain_ddef sd) by (apply sort_by_Forall; exact Hd).
    set (S := if schema_def_needed sc then [sdef_of sc] else []).
    exists (Doc (S ++ map ddef1_of sd ++ map def1_of st) None). split.
    - unfold ast_of_schema. fold sd st.
      assert (H1 : omap (def_of_ddef (env_of_schema [] sc)) sd = Ok (map ddef1_of sd)).
      { clear -Hsd. induction Hsd as [|x l Hx Hl IH]; [reflexivity|]. cbn [omap map].
        rewrite (def_of_ddef_plain _ x Hx). cbn [obind]. rewrite IH. reflexivity. }
      assert (H2 : omap (def_of_tdef (env_of_schema [] sc)) st = Ok (map def1_of st)).
      { clear -Hst. induction Hst as [|x l Hx Hl IH]; [reflexivity|]. cbn [omap map].
        rewrite (def_of_tdef_plain _ x Hx). cbn [obind]. rewrite IH. reflexivity. }
      rewrite H1, H2. cbn [obind]. destruct Hr as (Hn & _). unfold nodirs in Hn. rewrite Hn.
      unfold S, sdef_of, ot_of. reflexivity.
    - unfold print_schema. rewrite Hi. rewrite app_nil_r. fold st sd. cbn [obind].
      assert (H1 : omap (print_directive_definition o (env_of_schema intro sc) print_fuel) sd = Ok (map ddef_text sd)).
      { clear -Hsd. induction Hsd as [|x l Hx Hl IH]; [reflexivity|]. cbn [omap map].
        rewrite (print_ddef_plain _ _ _ x Hx). cbn [obind]. rewrite IH. reflexivity. }
      assert (H2 : omap (print_type o (env_of_schema intro sc) print_fuel) st = Ok (map (type_text o) st)).
      { clear -Hst. induction Hst as [|x l Hx Hl IH]; [reflexivity|]. cbn [omap map].
        rewrite (print_type_plain _ _ _ x Hx). cbn [obind]. rewrite IH. reflexivity. }
      rewrite H1, H2. cbn [obind app].
      rewrite (print_schema_definition_plain sc Hr).
      set (Stexts := if schema_def_needed sc then [sdef_text sc] else []).
      assert (Hparts : filter nonempty ((if schema_def_needed sc then sdef_text sc else []) :: map ddef_text sd ++ map (type_text o) st)
                       = Stexts ++ map ddef_text sd ++ map (type_text o) st).
      { assert (Hk : forall l : list str, Forall (fun x => x <> []) l -> filter nonempty l = l).
        { induction 1 as [|x l Hx Hl IH]; [reflexivity|]. cbn [filter]. destruct x; [congruence|]. cbn [nonempty].
          rewrite IH. reflexivity. }
        assert (Hrest : Forall (fun x : str => x <> []) (map ddef_text sd ++ map (type_text o) st)).
        { apply Forall_app; split; apply Forall_forall; intros x Hx; apply in_map_iff in Hx; destruct Hx as [y [<- _]].
          - discriminate.
          - destruct y; discriminate. }
        unfold Stexts. destruct (schema_def_needed sc); cbn [filter nonempty].
        - unfold sdef_text at 1. cbn [app lit str_of_string nonempty]. rewrite (Hk _ Hrest). reflexivity.
        - apply Hk; exact Hrest. }
      rewrite Hparts.
      assert (Hst_ne : st <> []).
      { clear -Hne. unfold st. destruct (s_types sc) as [|t0 ts]; [congruence|].
        intros He. assert (Hin : In t0 (sort_by tdef_name (t0 :: ts))) by (apply sort_by_in; left; reflexivity).
        rewrite He in Hin. contradiction. }
      assert (Htexts : map (pr_definition cf) (S ++ map ddef1_of sd ++ map def1_of st)
                       = Stexts ++ map ddef_text sd ++ map (type_text o) st).
      { rewrite !map_app, !map_map. f_equal; [|f_equal].
        - unfold S, Stexts. destruct (schema_def_needed sc); [|reflexivity]. cbn [map].
          rewrite (pr_sdef_plain sc Hr). reflexivity.
        - apply map_ext_in. intros x Hx. rewrite Forall_forall in Hsd. apply (pr_ddef_plain o). apply Hsd; exact Hx.
        - apply map_ext_in. intros x Hx. rewrite Forall_forall in Hst. apply (pr_definition_plain o). apply Hst; exact Hx. }
      assert (Hall : Forall (fun x : str => x <> []) (Stexts ++ map ddef_text sd ++ map (type_text o) st)).
      { apply Forall_app; split.
        - unfold Stexts. destruct (schema_def_needed sc); repeat constructor. discriminate.
        - apply Forall_app; split; apply Forall_forall; intros x Hx; apply in_map_iff in Hx; destruct Hx as [y [<- _]].
          + discriminate.
          + destruct y; discriminate. }
      destruct (Stexts ++ map ddef_text sd ++ map (type_text o) st) as [|p0 ps] eqn:Hp.
      { exfalso. apply app_eq_nil in Hp. destruct Hp as [_ Hp]. apply app_eq_nil in Hp. destruct Hp as [_ Hp].
        destruct st; [congruence|discriminate]. }
      f_equal. unfold print_ast, pr_document. cbn [doc_defs]. fold cf.
      rewrite pr_defs_map.
      + rewrite Htexts. rewrite p_join_all by exact Hall. reflexivity.
      + apply Forall_forall; intros x Hx.
        assert (Hin : In (pr_definition cf x) (p0 :: ps)) by (rewrite <- Htexts; apply in_map; exact Hx).
        rewrite <- Hp in Hin. apply in_app_or in Hin. destruct Hin as [Hin|Hin].
        * unfold Stexts in Hin. destruct (schema_def_needed sc); [|contradiction]. destruct Hin as [<-|[]]. reflexivity.
        * apply in_app_or in Hin. destruct Hin as [Hin|Hin]; apply in_map_iff in Hin; destruct Hin as [y [<- _]].
          -- reflexivity.
          -- destruct y; reflexivity.
  Qed.
End Doc.

(* ------------------------------------------------------------------ *)
(* the emitted document is well formed for the C03 round trip, and has no
   locations to strip                                                   *)

Lemma vname_lit_deprecated : vname (S_ "deprecated").
Proof. unfold S_. cbn. eexists _, _. split; [reflexivity|]. split; [reflexivity|]. repeat constructor. Qed.
Lemma vname_lit_reason : vname (S_ "reason").
Proof. unfold S_. cbn. eexists _, _. split; [reflexivity|]. split; [reflexivity|]. repeat constructor. Qed.

Lemma wf_deprecated dep : Forall (wf_dir true) (deprecated_dir dep).
Proof.
  destruct dep as [r|]; [|constructor]. unfold deprecated_dir. constructor; [|constructor].
  split; [exact vname_lit_deprecated|]. cbn [d_args].
  destruct (str_eqb r default_deprecation); [constructor|].
  constructor; [|constructor]. split; [exact vname_lit_reason|exact I].
Qed.

Lemma strip_deprecated dep : map strip_dir (deprecated_dir dep) = deprecated_dir dep.
Proof.
  destruct dep as [r|]; [|reflexivity]. unfold deprecated_dir. cbn [map strip_dir d_name d_args mk_name strip_name n_val].
  destruct (str_eqb r default_deprecation); reflexivity.
Qed.

Lemma strip_iv_of a : strip_ivdef (iv_of a) = iv_of a.
Proof.
  unfold strip_ivdef, iv_of. cbn [iv_desc iv_name iv_type iv_default iv_dirs option_map map mk_name strip_name n_val].
  rewrite strip_ty_of_tref. reflexivity.
Qed.

Lemma wf_iv_of a : plain_siv a -> wf_ivdef (iv_of a) /\ iv_desc (iv_of a) = None.
Proof.
  intros (_ & _ & _ & Hn & Ht). split; [|reflexivity]. unfold wf_ivdef, iv_of.
  cbn [iv_name iv_type iv_default iv_dirs mk_name n_val]. repeat split; try constructor; try assumption.
  apply wf_ty_of_tref; exact Ht.
Qed.

Lemma map_id_in {A} (f : A -> A) l : (forall x, In x l -> f x = x) -> map f l = l.
Proof. induction l as [|x l IH]; intros H; [reflexivity|]. cbn [map]. rewrite (H x (or_introl eq_refl)), IH; [reflexivity|intros; apply H; right; assumption]. Qed.

Lemma strip_fd_of f : strip_fdef (fd_of f) = fd_of f.
Proof.
  unfold strip_fdef, fd_of. cbn [fd_desc fd_name fd_args fd_type fd_dirs option_map mk_name strip_name n_val].
  rewrite strip_ty_of_tref, strip_deprecated, map_map.
  rewrite (map_ext _ iv_of) by (intros; apply strip_iv_of). reflexivity.
Qed.

Lemma wf_fd_of f : plain_sf f -> wf_fdef (fd_of f) /\ nodesc_fdef (fd_of f).
Proof.
  intros (_ & _ & Hn & Ht & Ha). unfold wf_fdef, nodesc_fdef, fd_of.
  cbn [fd_desc fd_name fd_args fd_type fd_dirs mk_name n_val]. repeat split.
  - exact Hn.
  - apply Forall_forall; intros x Hx. apply in_map_iff in Hx. destruct Hx as [a [<- Ha']].
    rewrite Forall_forall in Ha. apply (wf_iv_of a (Ha a Ha')).
  - apply wf_ty_of_tref; exact Ht.
  - apply wf_deprecated.
  - apply Forall_forall; intros x Hx. apply in_map_iff in Hx. destruct Hx as [a [<- _]]. reflexivity.
Qed.

Lemma strip_ev_of v : strip_evdef (ev_of v) = ev_of v.
Proof. unfold strip_evdef, ev_of. cbn [ev_desc ev_name ev_dirs option_map mk_name strip_name n_val]. rewrite strip_deprecated. reflexivity. Qed.

Lemma wf_ev_of v : plain_sev v -> wf_evdef (ev_of v) /\ ev_desc (ev_of v) = None.
Proof.
  intros (_ & _ & Hn & Hr). split; [|reflexivity]. unfold wf_evdef, ev_of. cbn [ev_name ev_dirs mk_name n_val].
  repeat split; [exact Hn|exact Hr|apply wf_deprecated].
Qed.

Lemma strip_named_tys ns : map strip_ty (map named_ty ns) = map named_ty ns.
Proof. rewrite map_map. apply map_ext. intros; reflexivity. Qed.

Lemma wf_named_tys ns : Forall (fun n => vname n) ns -> Forall wf_named (map named_ty ns).
Proof.
  intros H. apply Forall_forall; intros x Hx. apply in_map_iff in Hx. destruct Hx as [n [<- Hn]].
  rewrite Forall_forall in H. exact (H n Hn).
Qed.

Lemma strip_def1_of t : strip_def (def1_of t) = def1_of t.
Proof.
  destruct t; cbn [def1_of strip_def option_map map mk_name strip_name n_val];
    rewrite ?strip_named_tys, ?map_map;
    rewrite ?(map_ext _ fd_of) by (intros; apply strip_fd_of);
    rewrite ?(map_ext _ ev_of) by (intros; apply strip_ev_of);
    rewrite ?(map_ext _ iv_of) by (intros; apply strip_iv_of); reflexivity.
Qed.

Lemma wf_def1_of fv t : plain_tdef t -> wf_fulldef fv (def1_of t).
Proof.
  intros (_ & _ & Hn & Hk).
  assert (Hwfd : wfd false None) by (split; [discriminate|exact I]).
  destruct t as [n d ds|n d ifaces fs ds|n d fs ds|n d members ds|n d vs ds|n d fs ds];
    cbn [tdef_name] in Hn; cbn [def1_of wf_fulldef wf_sdef member_desc_free mk_name n_val].
  - repeat split; try assumption; try constructor; discriminate.
  - destruct Hk as (_ & Hf & Hi). repeat split; try assumption; try constructor; try discriminate.
    + apply wf_named_tys; exact Hi.
    + apply Forall_forall; intros x Hx. apply in_map_iff in Hx. destruct Hx as [f [<- Hf']].
      rewrite Forall_forall in Hf. apply (wf_fd_of f (Hf f Hf')).
    + apply Forall_forall; intros x Hx. apply in_map_iff in Hx. destruct Hx as [f [<- Hf']].
      rewrite Forall_forall in Hf. apply (wf_fd_of f (Hf f Hf')).
  - destruct Hk as (_ & Hf). repeat split; try assumption; try constructor; try discriminate.
    + apply Forall_forall; intros x Hx. apply in_map_iff in Hx. destruct Hx as [f [<- Hf']].
      rewrite Forall_forall in Hf. apply (wf_fd_of f (Hf f Hf')).
    + apply Forall_forall; intros x Hx. apply in_map_iff in Hx. destruct Hx as [f [<- Hf']].
      rewrite Forall_forall in Hf. apply (wf_fd_of f (Hf f Hf')).
  - destruct Hk as (_ & Hm). repeat split; try assumption; try constructor; try discriminate.
    apply wf_named_tys; exact Hm.
  - destruct Hk as (_ & Hv). repeat split; try assumption; try constructor; try discriminate.
    + apply Forall_forall; intros x Hx. apply in_map_iff in Hx. destruct Hx as [v [<- Hv']].
      rewrite Forall_forall in Hv. apply (wf_ev_of v (Hv v Hv')).
    + apply Forall_forall; intros x Hx. apply in_map_iff in Hx. destruct Hx as [v [<- Hv']].
      rewrite Forall_forall in Hv. apply (wf_ev_of v (Hv v Hv')).
  - destruct Hk as (_ & Hf). repeat split; try assumption; try constructor; try discriminate.
    + apply Forall_forall; intros x Hx. apply in_map_iff in Hx. destruct Hx as [a [<- Ha']].
      rewrite Forall_forall in Hf. apply (wf_iv_of a (Hf a Ha')).
    + apply Forall_forall; intros x Hx. apply in_map_iff in Hx. destruct Hx as [a [<- Ha']]. reflexivity.
Qed.

Definition doc_of (sc : schema) : document :=
  Doc ((if schema_def_needed sc then [sdef_of sc] else [])
       ++ map ddef1_of (sort_by dd_name (s_ddefs sc))
       ++ map def1_of (sort_by tdef_name (s_types sc))) None.

Lemma ast_of_schema_plain sc : plain_schema sc -> ast_of_schema sc = Ok (doc_of sc).
Proof.
  intros (Ht & Hd & Hr & Hne).
  set (st := sort_by tdef_name (s_types sc)). set (sd := sort_by dd_name (s_ddefs sc)).
  assert (Hst : Forall plain_tdef st) by (apply sort_by_Forall; exact Ht).
  assert (Hsd : Forall plain_ddef sd) by (apply sort_by_Forall; exact Hd).
  unfold ast_of_schema, doc_of. fold sd st.
  assert (H1 : omap (def_of_ddef (env_of_schema [] sc)) sd = Ok (map ddef1_of sd)).
  { clear -Hsd. induction Hsd as [|x l Hx Hl IH]; [reflexivity|]. cbn [omap map].
    rewrite (def_of_ddef_plain _ x Hx). cbn [obind]. rewrite IH. reflexivity. }
  assert (H2 : omap (def_of_tdef (env_of_schema [] sc)) st = Ok (map def1_of st)).
  { clear -Hst. induction Hst as [|x l Hx Hl IH]; [reflexivity|]. cbn [omap map].
    rewrite (def_of_tdef_plain _ x Hx). cbn [obind]. rewrite IH. reflexivity. }
  rewrite H1, H2. cbn [obind]. destruct Hr as (Hn & _). unfold nodirs in Hn. rewrite Hn.
  unfold sdef_of, ot_of. reflexivity.
Qed.

(* directive locations are the sixteen names of the grammar (the parser
   accepts no others, so every schema built from SDL satisfies this) *)
Definition valid_locations (sc : schema) : Prop :=
  Forall (fun d => Forall (fun l => In l (map str_of_string directive_location_names)) (dd_locs d)) (s_ddefs sc).

Lemma strip_ddef1_of d : strip_def (ddef1_of d) = ddef1_of d.
Proof.
  unfold ddef1_of. cbn [strip_def option_map mk_name strip_name n_val]. rewrite !map_map.
  rewrite (map_ext _ iv_of) by (intros; apply strip_iv_of). reflexivity.
Qed.

Lemma wf_ddef1_of fv d :
  plain_ddef d -> Forall (fun l => In l (map str_of_string directive_location_names)) (dd_locs d) ->
  wf_fulldef fv (ddef1_of d).
Proof.
  intros (_ & Hn & Ha & Hne & _) Hl. unfold ddef1_of. cbn [wf_fulldef wf_sdef member_desc_free mk_name n_val].
  repeat split.
  - exact Hn.
  - apply Forall_forall; intros x Hx. apply in_map_iff in Hx. destruct Hx as [a [<- Ha']].
    rewrite Forall_forall in Ha. apply (wf_iv_of a (Ha a Ha')).
  - destruct (dd_locs d); [congruence|discriminate].
  - apply Forall_forall; intros x Hx. apply in_map_iff in Hx. destruct Hx as [l [<- Hl']].
    rewrite Forall_forall in Hl. exact (Hl l Hl').
  - apply Forall_forall; intros x Hx. apply in_map_iff in Hx. destruct Hx as [a [<- _]]. reflexivity.
Qed.

Lemma strip_sdef_of sc : strip_def (sdef_of sc) = sdef_of sc.
Proof.
  unfold sdef_of, ot_of. cbn [strip_def map].
  destruct (s_query sc), (s_mutation sc), (s_subscription sc); reflexivity.
Qed.

Lemma wf_sdef_of fv sc : plain_roots sc -> wf_fulldef fv (sdef_of sc).
Proof.
  intros (_ & (q & Hq & Hvq) & Hm & Hs). unfold sdef_of. cbn [wf_fulldef wf_sdef member_desc_free].
  rewrite Hq. split; [split; [constructor|split]|exact I].
  - cbn [ot_of app]. constructor.
    + eexists _, _. split; [reflexivity|exact Hvq].
    + apply Forall_app; split.
      * destruct (s_mutation sc) as [m|]; [|constructor]. repeat constructor.
        eexists _, _. split; [reflexivity|apply Hm; reflexivity].
      * destruct (s_subscription sc) as [m|]; [|constructor]. repeat constructor.
        eexists _, _. split; [reflexivity|apply Hs; reflexivity].
  - cbn [ot_of app]. discriminate.
Qed.

Lemma sort_by_nonempty {A} (key : A -> str) (l : list A) : l <> [] -> sort_by key l <> [].
Proof.
  destruct l as [|t0 ts]; [congruence|]. intros _ He.
  assert (Hin : In t0 (sort_by key (t0 :: ts))) by (apply sort_by_in; left; reflexivity).
  rewrite He in Hin. contradiction.
Qed.

Lemma sort_by_in_inv {A} (key : A -> str) (l : list A) x : In x (sort_by key l) -> In x l.
Proof. intros H. apply sort_by_in in H. exact H. Qed.

Lemma strip_doc_of sc : strip_doc (doc_of sc) = doc_of sc.
Proof.
  unfold strip_doc, doc_of. cbn [doc_defs]. f_equal. rewrite !map_app, !map_map. f_equal; [|f_equal].
  - destruct (schema_def_needed sc); [|reflexivity]. cbn [map]. rewrite strip_sdef_of. reflexivity.
  - apply map_ext. intros; apply strip_ddef1_of.
  - apply map_ext. intros; apply strip_def1_of.
Qed.

Lemma wf_doc_of fv sc : plain_schema sc -> valid_locations sc -> wf_doc fv (doc_of sc).
Proof.
  intros (Ht & Hd & Hr & Hne) Hl. split.
  - unfold doc_of. cbn [doc_defs]. intros He. apply app_eq_nil in He. destruct He as [_ He].
    apply app_eq_nil in He. destruct He as [_ He]. apply map_eq_nil in He.
    exact (sort_by_nonempty _ _ Hne He).
  - unfold doc_of. cbn [doc_defs]. apply Forall_app; split; [|apply Forall_app; split].
    + destruct (schema_def_needed sc); [|constructor]. constructor; [|constructor]. apply wf_sdef_of; exact Hr.
    + apply Forall_forall; intros x Hx. apply in_map_iff in Hx. destruct Hx as [d [<- Hd']].
      apply sort_by_in in Hd'. unfold valid_locations in Hl. rewrite Forall_forall in Hd, Hl. apply wf_ddef1_of; [apply Hd|apply Hl]; exact Hd'.
    + apply Forall_forall; intros x Hx. apply in_map_iff in Hx. destruct Hx as [t [<- Ht']].
      apply sort_by_in in Ht'. rewrite Forall_forall in Ht. apply wf_def1_of. apply Ht; exact Ht'.
Qed.

(* The text printed by the schema printer parses back to the declarative
   AST of the schema (for the plain sub-language): composition of
   print_is_print_ast with the C03 SDL round trip.                       *)
Theorem text_parses_to_ast intro spec o fl sc text :
  plain_schema sc -> valid_locations sc -> po_introspection o = false ->
  no_location fl = true -> allow_type_system fl = true -> all_ws (po_indent o) ->
  print_schema intro spec o sc = Ok text ->
  parse_document fl text = Ok (doc_of sc) /\ ast_of_schema sc = Ok (doc_of sc).
Proof.
  intros Hp Hl Hi Hnl Hts Hws Hprint.
  destruct (print_is_print_ast o intro spec sc Hp Hi) as (d & Hd & Ht).
  rewrite (ast_of_schema_plain sc Hp) in Hd. injection Hd as <-.
  rewrite Ht in Hprint. injection Hprint as <-. split; [|apply ast_of_schema_plain; exact Hp].
  rewrite (sdl_roundtrip fl (po_indent o) (doc_of sc) Hnl Hts Hws (wf_doc_of _ sc Hp Hl)).
  rewrite strip_doc_of. reflexivity.
Qed.
